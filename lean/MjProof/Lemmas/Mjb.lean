/-
Helper lemmas for the MJB model (`MjProof/Model/Mjb.lean`): little-endian encoding round trip,
consumption of a saved image stage by stage, capacities computed by the allocation loop,
round trip / truncation / reference-table soundness / no-over-read at the level of the model functions.
Core Lean only (no Mathlib needed).
-/
import MjProof.Model.Mjb
namespace MjProof.Mjb

/-! ## encoding -/

theorem leBytes_length (n v : Nat) : (leBytes n v).length = n := by
  induction n generalizing v with
  | zero => rfl
  | succ n ih => simp [leBytes, ih]

theorem leNat_leBytes (n v : Nat) : leNat (leBytes n v) = v % 256 ^ n := by
  induction n generalizing v with
  | zero => simp [leBytes, leNat, Nat.mod_one]
  | succ n ih =>
    simp only [leBytes, leNat, ih]
    have h1 : (UInt8.ofNat (v % 256)).toNat = v % 256 := by
      simp [UInt8.toNat_ofNat']
    rw [h1, Nat.pow_succ, Nat.mul_comm (256 ^ n) 256, Nat.mod_mul, Nat.add_comm]

theorem encInt_length (n : Nat) (v : Int) : (encInt n v).length = n := leBytes_length _ _

theorem decInt_encInt {n : Nat} {v : Int} (h : InRange n v) : decInt (encInt n v) = v := by
  unfold decInt
  simp only [encInt_length]
  have hM : (0 : Int) < (256 : Int) ^ n := Int.pow_pos (by decide)
  have hu : ((leNat (encInt n v) : Nat) : Int) = v % (256 : Int) ^ n := by
    unfold encInt
    rw [leNat_leBytes]
    have h0 : 0 ≤ v % (256 : Int) ^ n := Int.emod_nonneg _ (Int.ne_of_gt hM)
    have hlt : v % (256 : Int) ^ n < (256 : Int) ^ n := Int.emod_lt_of_pos _ hM
    have : ((v % (256 : Int) ^ n).toNat : Int) = v % (256 : Int) ^ n := Int.toNat_of_nonneg h0
    have hcast : ((256 ^ n : Nat) : Int) = (256 : Int) ^ n := by simp
    rw [Int.natCast_emod, this, hcast]
    exact Int.emod_eq_of_lt h0 hlt
  simp only [hu]
  obtain ⟨hlo, hhi⟩ := h
  by_cases hv : 0 ≤ v
  · have : v % (256 : Int) ^ n = v := Int.emod_eq_of_lt hv (by omega)
    rw [this]; simp; omega
  · have h2 : v % (256 : Int) ^ n = v + (256 : Int) ^ n := by
      have : (v + (256 : Int) ^ n) % (256 : Int) ^ n = v % (256 : Int) ^ n := by simp
      rw [← this]
      exact Int.emod_eq_of_lt (by omega) (by omega)
    rw [h2]
    have : ¬ (2 * (v + (256 : Int) ^ n) < (256 : Int) ^ n) := by omega
    simp [this]

variable {ns : Nat}

/-! ## Res -/

@[simp] theorem Res.ok_bind {α β : Type} (a : α) (f : α → Res β) : (Res.ok a).bind f = f a := rfl
@[simp] theorem Res.reject_bind {α β : Type} (w : String) (f : α → Res β) : (Res.reject w).bind f = .reject w := rfl
@[simp] theorem Res.fatal_bind {α β : Type} (w : String) (f : α → Res β) : (Res.fatal w).bind f = .fatal w := rfl
@[simp] theorem Res.hazard_bind {α β : Type} (u : Hazard) (f : α → Res β) : (Res.hazard u).bind f = .hazard u := rfl

theorem Res.bind_eq_ok {α β : Type} {x : Res α} {f : α → Res β} {b : β} (h : x.bind f = .ok b) :
    ∃ a, x = .ok a ∧ f a = .ok b := by
  cases x <;> simp [Res.bind] at h ⊢
  exact h

theorem flatMap_enc_length (w : Nat) (l : List Int) : (l.flatMap (encInt w)).length = w * l.length := by
  induction l with
  | nil => simp
  | cons a t ih => simp [List.flatMap_cons, encInt_length, ih, Nat.mul_succ]; omega

theorem decN_flatMap {w : Nat} (l : List Int) (rest : Bytes) (h : ∀ v ∈ l, InRange w v) :
    decN w l.length (l.flatMap (encInt w) ++ rest) = l := by
  induction l with
  | nil => rfl
  | cons a t ih =>
    have ha : InRange w a := h a (by simp)
    have ht : ∀ v ∈ t, InRange w v := fun v hv => h v (by simp [hv])
    simp only [List.flatMap_cons, List.length_cons, decN, List.append_assoc]
    rw [List.take_left' (encInt_length w a), List.drop_left' (encInt_length w a), decInt_encInt ha, ih ht]

theorem checkHeader_self (h : List Int) (msgs : List String) : checkHeader h h msgs = .ok () := by
  induction h generalizing msgs with
  | nil => rfl
  | cons a t ih => simp [checkHeader, ih]

theorem vec_eq_of_toList {v : Vector Int ns} {l : List Int} (hl : l.length = ns) (h : l = v.toList) :
    (⟨l.toArray, by simpa using hl⟩ : Vector Int ns) = v := by
  subst h
  cases v with
  | mk a ha => simp [Vector.toList]


/-! ## reading a saved image -/

theorem rdN_append' {n : Nat} (a b : Bytes) (h : a.length = n) : rdN (a ++ b) n = some (a, b) := by
  subst h; simp [rdN]

/-- per-pointer consistency: `nc` evaluates without `int` overflow, the array has exactly
    `sizeof(type)*nr*nc` bytes and fits the capacity allocated for it -/
def ArrOK (intMax : Int) (s : Sizes ns) (p : Ptr ns) (cap : Nat) (a : Bytes) : Prop :=
  p.ncInt s intMax = .ok (p.nc s) ∧ (a.length : Int) = p.bytes s ∧ a.length ≤ cap

def ArrsOK (intMax : Int) (s : Sizes ns) : List (Ptr ns) → List Nat → List Bytes → Prop
  | [], [], [] => True
  | p :: ps, c :: cs, a :: as => ArrOK intMax s p c a ∧ ArrsOK intMax s ps cs as
  | _, _, _ => False

theorem toI32_small {n : Nat} (h : n ≤ 2147483647) : toI32 (n : Int) = n := by
  unfold toI32
  have : ((n : Int) + 2147483648) % 4294967296 = (n : Int) + 2147483648 :=
    Int.emod_eq_of_lt (by omega) (by omega)
  omega

theorem readStep_ok (intMax : Int) (len : Nat) (s : Sizes ns) (hlen : len ≤ 2147483647)
    (p : Ptr ns) (c : Nat) (a rest : Bytes) (h : ArrOK intMax s p c a) (hl : (a ++ rest).length ≤ len) :
    readStep intMax len s p c (a ++ rest) = .ok (a, rest) := by
  obtain ⟨hnc, hb, hcap⟩ := h
  have hl' : a.length + rest.length ≤ len := by simpa [List.length_append] using hl
  have hbytes : (p.esz : Int) * s[p.nr] * p.nc s = (a.length : Int) := by
    rw [hb]; rfl
  have h64 : ((a.length : Int) % (two64 : Int)).toNat = a.length := by
    have : (a.length : Int) % (two64 : Int) = a.length :=
      Int.emod_eq_of_lt (by omega) (by unfold two64; omega)
    rw [this]; simp
  simp only [readStep, hnc, Res.ok_bind, hbytes, h64, List.length_append]
  have hmod : (len - (a.length + rest.length) + a.length) % two64 = len - (a.length + rest.length) + a.length := by
    apply Nat.mod_eq_of_lt
    unfold two64; omega
  rw [hmod, if_neg (by omega), toI32_small (by omega), if_neg (by omega), if_neg (by omega)]
  simp only [Int.toNat_natCast, rdN_append' a _ rfl, if_neg (Nat.not_lt.mpr hcap)]

theorem readArrays_flatten (intMax : Int) (len : Nat) (s : Sizes ns) (hlen : len ≤ 2147483647) :
    ∀ (ps : List (Ptr ns)) (cs : List Nat) (as : List Bytes) (tail : Bytes),
      ArrsOK intMax s ps cs as → (as.flatten ++ tail).length ≤ len →
      readArrays intMax len s ps cs (as.flatten ++ tail) = .ok (as, tail)
  | [], [], [], tail, _, _ => by simp [readArrays]
  | p :: ps, c :: cs, a :: as, tail, h, hl => by
    obtain ⟨h1, hrest⟩ := h
    have hl' : (a ++ (as.flatten ++ tail)).length ≤ len := by
      simpa [List.append_assoc] using hl
    have hl2 : (as.flatten ++ tail).length ≤ len := by
      simp only [List.length_append] at hl' ⊢; omega
    have ih := readArrays_flatten intMax len s hlen ps cs as tail hrest hl2
    simp only [readArrays, List.flatten_cons, List.append_assoc,
      readStep_ok intMax len s hlen p c a _ h1 hl', Res.ok_bind, ih]
  | [], [], _ :: _, _, h, _ => by simp [ArrsOK] at h
  | [], _ :: _, _, _, h, _ => by simp [ArrsOK] at h
  | _ :: _, [], _, _, h, _ => by simp [ArrsOK] at h
  | _ :: _, _ :: _, [], _, h, _ => by simp [ArrsOK] at h


theorem readBlobs_flatten : ∀ (spec : List (String × Nat)) (blobs : List Bytes) (tail : Bytes),
    blobs.map List.length = spec.map (·.2) →
    readBlobs spec (blobs.flatten ++ tail) = .ok (blobs, tail)
  | [], [], tail, _ => by simp [readBlobs]
  | (nm, n) :: spec, b :: blobs, tail, h => by
    simp only [List.map_cons, List.cons.injEq] at h
    obtain ⟨h1, h2⟩ := h
    have ih := readBlobs_flatten spec blobs tail h2
    simp only [readBlobs, List.flatten_cons, List.append_assoc, rdN_append' b _ h1]
    rw [ih]; rfl
  | [], _ :: _, _, h => by simp at h
  | _ :: _, [], _, h => by simp at h

theorem safeAdd_cap {al esz off cap off' : Nat} {nr nc : Int}
    (h : safeAdd al esz nr nc off = some (cap, off')) : (cap : Int) = esz * nr * nc := by
  unfold safeAdd at h
  split at h
  · cases h
  · rename_i hneg
    split at h
    · cases h
    · split at h
      · cases h
      · simp only at h
        split at h
        · cases h
        · split at h
          · cases h
          · simp only [Option.some.injEq, Prod.mk.injEq] at h
            obtain ⟨h1, _⟩ := h
            have hnr : 0 ≤ nr := by omega
            have hnc : 0 ≤ nc := by omega
            have : 0 ≤ nc * nr * (esz : Int) := Int.mul_nonneg (Int.mul_nonneg hnc hnr) (by omega)
            rw [← h1, Int.toNat_of_nonneg this]
            ac_rfl

/-- `caps` are the exact byte counts of the pointers under sizes `sa` -/
def CapsOK (sa : Sizes ns) : List (Ptr ns) → List Nat → Prop
  | [], [] => True
  | p :: ps, c :: cs => ((c : Nat) : Int) = p.bytes sa ∧ CapsOK sa ps cs
  | _, _ => False

theorem allocLoop_caps (L : Layout ns) (sa : Sizes ns) :
    ∀ (ps : List (Ptr ns)) (off : Nat) (caps : List Nat) (tot : Nat),
      allocLoop L sa ps off = .ok (caps, tot) → CapsOK sa ps caps
  | [], off, caps, tot, h => by
    simp only [allocLoop, Res.ok.injEq, Prod.mk.injEq] at h
    rw [← h.1]; trivial
  | p :: ps, off, caps, tot, h => by
    simp only [allocLoop] at h
    split at h
    · cases h
    · rename_i cap off' hs
      obtain ⟨r, hr, hr2⟩ := Res.bind_eq_ok h
      simp only [Res.ok.injEq, Prod.mk.injEq] at hr2
      rw [← hr2.1]
      refine ⟨?_, allocLoop_caps L sa ps off' r.1 r.2 (by rw [hr])⟩
      rw [safeAdd_cap hs]; rfl


/-! ## consistency of a model value, round trip, size -/

theorem arrsOK_of (intMax : Int) (s sa : Sizes ns) :
    ∀ (ps : List (Ptr ns)) (cs : List Nat) (as : List Bytes),
      CapsOK sa ps cs → LensOK s ps as →
      (∀ p ∈ ps, p.bytes sa = p.bytes s) → (∀ p ∈ ps, p.ncInt s intMax = .ok (p.nc s)) →
      ArrsOK intMax s ps cs as
  | [], [], [], _, _, _, _ => trivial
  | p :: ps, c :: cs, a :: as, hc, hl, hd, hn => by
    refine ⟨⟨hn p (by simp), hl.1, ?_⟩, arrsOK_of intMax s sa ps cs as hc.2 hl.2
      (fun q hq => hd q (by simp [hq])) (fun q hq => hn q (by simp [hq]))⟩
    have h1 := hc.1
    have h2 := hl.1
    rw [hd p (by simp)] at h1
    omega
  | [], [], _ :: _, _, hl, _, _ => by simp [LensOK] at hl
  | [], _ :: _, _, hc, _, _, _ => by simp [CapsOK] at hc
  | _ :: _, [], _, hc, _, _, _ => by simp [CapsOK] at hc
  | _ :: _, _ :: _, [], _, hl, _, _ => by simp [LensOK] at hl

theorem blobs_flatten_length : ∀ (spec : List (String × Nat)) (blobs : List Bytes),
    blobs.map List.length = spec.map (·.2) → blobs.flatten.length = (spec.map (·.2)).sum
  | [], [], _ => rfl
  | (_, n) :: spec, b :: blobs, h => by
    simp only [List.map_cons, List.cons.injEq] at h
    simp [List.flatten_cons, h.1, blobs_flatten_length spec blobs h.2]
  | [], _ :: _, h => by simp at h
  | _ :: _, [], h => by simp at h

theorem loadSizes_image (L : Layout ns) (hwf : L.WF) (s : Sizes ns)
    (hs : ∀ v ∈ s.toList, InRange L.sizeSz v) (tail : Bytes) :
    loadSizes L (L.header.flatMap (encInt L.intSz) ++ s.toList.flatMap (encInt L.sizeSz) ++ tail) = .ok (s, tail) := by
  have hH : (L.header.flatMap (encInt L.intSz)).length = L.header.length * L.intSz := by
    rw [flatMap_enc_length, Nat.mul_comm]
  have hS : (s.toList.flatMap (encInt L.sizeSz)).length = L.sizeSz * ns := by
    rw [flatMap_enc_length]; simp
  unfold loadSizes
  simp only [List.append_assoc, List.length_append, hH, hS]
  rw [if_neg (by omega), rdN_append' _ _ hH]
  simp only
  have hdec : decN L.intSz L.header.length (L.header.flatMap (encInt L.intSz)) = L.header := by
    have := decN_flatMap L.header [] hwf.hdrRange
    simpa using this
  rw [hdec, checkHeader_self]
  simp only [Res.ok_bind, List.length_append, hS]
  rw [if_neg (by omega), rdN_append' _ _ hS]
  simp only
  have hdec2 : decN L.sizeSz ns (s.toList.flatMap (encInt L.sizeSz)) = s.toList := by
    have := decN_flatMap s.toList [] hs
    simpa using this
  congr 2
  unfold decodeSizes
  exact vec_eq_of_toList (decN_length _ _ _) hdec2


theorem save_length (L : Layout ns) (m : Model ns) :
    (save L m).length = headerBytes L + m.blobs.flatten.length + m.arrays.flatten.length := by
  unfold save headerBytes
  simp only [List.length_append, flatMap_enc_length, Vector.length_toList]

theorem loadBody_consistent (L : Layout ns) (sp : Model ns → Res Unit) (m : Model ns)
    (hc : Consistent L sp m) (len : Nat) (hlen : len = (save L m).length) :
    loadBody L sp len m.sizes (m.blobs.flatten ++ m.arrays.flatten) = .ok m := by
  obtain ⟨al, hmk, hnb⟩ := hc.make
  have hsl := save_length L m
  have hbl := blobs_flatten_length L.blobs m.blobs hc.blobsLen
  have hsmall := hc.small
  -- capacities computed by the allocation loop
  have hcaps : CapsOK (allocSizes L m.sizes) L.ptrs al.caps := by
    unfold makeModel at hmk
    obtain ⟨_, _, hmk⟩ := Res.bind_eq_ok hmk
    split at hmk
    · cases hmk
    · split at hmk
      · cases hmk
      · obtain ⟨r, hr, hr2⟩ := Res.bind_eq_ok hmk
        simp only [Res.ok.injEq] at hr2
        rw [← hr2]
        exact allocLoop_caps L _ L.ptrs 0 r.1 r.2 (by rw [hr])
  have harrs := arrsOK_of L.intMax m.sizes (allocSizes L m.sizes) L.ptrs al.caps m.arrays hcaps hc.arraysLen
    hc.dimsAgree hc.ncFits
  unfold loadBody
  simp only [hmk, List.length_append]
  rw [if_neg (by simp [hnb]), if_neg (by unfold blobTotal; omega)]
  rw [readBlobs_flatten L.blobs m.blobs _ hc.blobsLen]
  simp only [Res.ok_bind]
  have := readArrays_flatten L.intMax len m.sizes (by omega) L.ptrs al.caps m.arrays [] harrs (by rw [List.append_nil]; omega)
  simp only [List.append_nil] at this
  rw [this]
  simp only [Res.ok_bind, List.length_nil, ne_eq, not_true_eq_false, if_false]
  show (validate L sp m).bind (fun _ => Res.ok m) = .ok m
  rw [hc.valid]; rfl

theorem load_save_id' (L : Layout ns) (hwf : L.WF) (sp : Model ns → Res Unit) (m : Model ns)
    (hc : Consistent L sp m) : load L sp (save L m) = .ok m := by
  unfold load
  have himg : save L m = L.header.flatMap (encInt L.intSz) ++ m.sizes.toList.flatMap (encInt L.sizeSz)
      ++ (m.blobs.flatten ++ m.arrays.flatten) := by
    unfold save; simp [List.append_assoc]
  rw [himg, loadSizes_image L hwf m.sizes hc.sizesRange]
  simp only [Res.ok_bind]
  rw [← himg]
  exact loadBody_consistent L sp m hc _ rfl


theorem arrays_flatten_length (s : Sizes ns) : ∀ (ps : List (Ptr ns)) (as : List Bytes),
    LensOK s ps as → ((as.flatten.length : Nat) : Int) = (ps.map (fun p => p.bytes s)).sum
  | [], [], _ => rfl
  | p :: ps, a :: as, h => by
    have ih := arrays_flatten_length s ps as h.2
    simp only [List.flatten_cons, List.length_append, List.map_cons, List.sum_cons, Int.natCast_add, ih, h.1]
  | [], _ :: _, h => by simp [LensOK] at h
  | _ :: _, [], h => by simp [LensOK] at h

theorem size_eq_save_length' (L : Layout ns) (sp : Model ns → Res Unit) (m : Model ns) (hc : Consistent L sp m) :
    sizeModel L m = ((save L m).length : Int) := by
  rw [save_length, blobs_flatten_length L.blobs m.blobs hc.blobsLen]
  unfold sizeModel blobTotal
  rw [← arrays_flatten_length m.sizes L.ptrs m.arrays hc.arraysLen]
  simp only [Int.natCast_add]


/-! ## truncation -/

theorem readStep_short (intMax : Int) (len : Nat) (s : Sizes ns)
    (p : Ptr ns) (c : Nat) (a rest : Bytes) (h : ArrOK intMax s p c a)
    (hshort : rest.length < a.length) (hl : rest.length ≤ len) (hlen : len + a.length < two64) :
    ∃ w, readStep intMax len s p c rest = .reject w := by
  obtain ⟨hnc, hb, hcap⟩ := h
  have hbytes : (p.esz : Int) * s[p.nr] * p.nc s = (a.length : Int) := by
    rw [hb]; rfl
  have h64 : ((a.length : Int) % (two64 : Int)).toNat = a.length := by
    have : (a.length : Int) % (two64 : Int) = a.length :=
      Int.emod_eq_of_lt (by omega) (by omega)
    rw [this]; simp
  simp only [readStep, hnc, Res.ok_bind, hbytes, h64]
  have hmod : (len - rest.length + a.length) % two64 = len - rest.length + a.length :=
    Nat.mod_eq_of_lt (by omega)
  rw [hmod, if_pos (by omega)]
  exact ⟨_, rfl⟩

theorem readArrays_prefix_reject (intMax : Int) (len : Nat) (s : Sizes ns) (hlen : len ≤ 2147483647) :
    ∀ (ps : List (Ptr ns)) (cs : List Nat) (as : List Bytes) (j : Nat),
      ArrsOK intMax s ps cs as → j < as.flatten.length → j ≤ len → as.flatten.length ≤ 2147483647 →
      ∃ w, readArrays intMax len s ps cs (as.flatten.take j) = .reject w
  | [], [], [], j, _, hj, _, _ => by simp at hj
  | p :: ps, c :: cs, a :: as, j, h, hj, hjl, hsm => by
    obtain ⟨h1, hrest⟩ := h
    simp only [List.flatten_cons, List.length_append] at hj hsm
    by_cases hja : a.length ≤ j
    · have htake : (a ++ as.flatten).take j = a ++ as.flatten.take (j - a.length) := by
        rw [List.take_append, List.take_of_length_le hja]
      obtain ⟨w, hw⟩ := readArrays_prefix_reject intMax len s hlen ps cs as (j - a.length) hrest
        (by omega) (by omega) (by omega)
      refine ⟨w, ?_⟩
      simp only [readArrays, List.flatten_cons, htake]
      rw [readStep_ok intMax len s hlen p c a _ h1 (by simp [List.length_take]; omega)]
      simp only [Res.ok_bind, hw, Res.reject_bind]
    · have htake : (a ++ as.flatten).take j = a.take j := List.take_append_of_le_length (by omega)
      obtain ⟨w, hw⟩ := readStep_short intMax len s p c a (a.take j) h1
        (by simp [List.length_take]; omega) (by simp [List.length_take]; omega) (by unfold two64; omega)
      refine ⟨w, ?_⟩
      simp only [readArrays, List.flatten_cons, htake, hw, Res.reject_bind]
  | [], [], _ :: _, _, h, _, _, _ => by simp [ArrsOK] at h
  | [], _ :: _, _, _, h, _, _, _ => by simp [ArrsOK] at h
  | _ :: _, [], _, _, h, _, _, _ => by simp [ArrsOK] at h
  | _ :: _, _ :: _, [], _, h, _, _, _ => by simp [ArrsOK] at h


theorem caps_of_consistent (L : Layout ns) (sp : Model ns → Res Unit) (m : Model ns) (hc : Consistent L sp m)
    {al : Alloc} (hmk : makeModel L m.sizes = .ok al) :
    ArrsOK L.intMax m.sizes L.ptrs al.caps m.arrays := by
  have hcaps : CapsOK (allocSizes L m.sizes) L.ptrs al.caps := by
    unfold makeModel at hmk
    obtain ⟨_, _, hmk⟩ := Res.bind_eq_ok hmk
    split at hmk
    · cases hmk
    · split at hmk
      · cases hmk
      · obtain ⟨r, hr, hr2⟩ := Res.bind_eq_ok hmk
        simp only [Res.ok.injEq] at hr2
        rw [← hr2]
        exact allocLoop_caps L _ L.ptrs 0 r.1 r.2 (by rw [hr])
  exact arrsOK_of L.intMax m.sizes (allocSizes L m.sizes) L.ptrs al.caps m.arrays hcaps hc.arraysLen
    hc.dimsAgree hc.ncFits

theorem loadBody_truncated (L : Layout ns) (sp : Model ns → Res Unit) (m : Model ns)
    (hc : Consistent L sp m) (k' : Nat) (hk : k' < (m.blobs.flatten ++ m.arrays.flatten).length) :
    ∃ w, loadBody L sp (headerBytes L + k') m.sizes ((m.blobs.flatten ++ m.arrays.flatten).take k') = .reject w := by
  obtain ⟨al, hmk, hnb⟩ := hc.make
  have hsl := save_length L m
  have hbl := blobs_flatten_length L.blobs m.blobs hc.blobsLen
  have hsmall := hc.small
  have harrs := caps_of_consistent L sp m hc hmk
  simp only [List.length_append] at hk
  unfold loadBody
  simp only [hmk]
  rw [if_neg (by simp [hnb])]
  have hlt : ((m.blobs.flatten ++ m.arrays.flatten).take k').length = k' := by
    simp only [List.length_take, List.length_append]; omega
  rw [hlt]
  by_cases hkb : k' < m.blobs.flatten.length
  · rw [if_pos (by unfold blobTotal; omega)]
    exact ⟨_, rfl⟩
  · rw [if_neg (by unfold blobTotal; omega)]
    have htake : (m.blobs.flatten ++ m.arrays.flatten).take k'
        = m.blobs.flatten ++ m.arrays.flatten.take (k' - m.blobs.flatten.length) := by
      rw [List.take_append, List.take_of_length_le (by omega)]
    rw [htake, readBlobs_flatten L.blobs m.blobs _ hc.blobsLen]
    simp only [Res.ok_bind]
    obtain ⟨w, hw⟩ := readArrays_prefix_reject L.intMax (headerBytes L + k') m.sizes (by omega) L.ptrs al.caps m.arrays
      (k' - m.blobs.flatten.length) harrs (by omega) (by omega) (by omega)
    exact ⟨w, by rw [hw]; rfl⟩

theorem truncation_rejected' (L : Layout ns) (hwf : L.WF) (sp : Model ns → Res Unit) (m : Model ns)
    (hc : Consistent L sp m) (k : Nat) (hk : k < (save L m).length) :
    ∃ w, load L sp ((save L m).take k) = .reject w := by
  have hH : (L.header.flatMap (encInt L.intSz)).length = L.header.length * L.intSz := by
    rw [flatMap_enc_length, Nat.mul_comm]
  have hS : (m.sizes.toList.flatMap (encInt L.sizeSz)).length = L.sizeSz * ns := by
    rw [flatMap_enc_length]; simp
  have himg : save L m = L.header.flatMap (encInt L.intSz) ++ (m.sizes.toList.flatMap (encInt L.sizeSz)
      ++ (m.blobs.flatten ++ m.arrays.flatten)) := by
    unfold save; simp [List.append_assoc]
  have hsl := save_length L m
  have hhb : headerBytes L = L.header.length * L.intSz + L.sizeSz * ns := by
    unfold headerBytes; rw [Nat.mul_comm]
  by_cases h1 : k < L.header.length * L.intSz
  · -- cut inside the header
    unfold load loadSizes
    simp only [List.length_take, Nat.min_eq_left (Nat.le_of_lt hk)]
    rw [if_pos h1]; exact ⟨_, rfl⟩
  · by_cases h2 : k < headerBytes L
    · -- cut inside the sizes
      have htake : (save L m).take k = L.header.flatMap (encInt L.intSz)
          ++ (m.sizes.toList.flatMap (encInt L.sizeSz) ++ (m.blobs.flatten ++ m.arrays.flatten)).take (k - L.header.length * L.intSz) := by
        rw [himg, List.take_append, List.take_of_length_le (by omega), hH]
      unfold load loadSizes
      rw [htake]
      simp only [List.length_append, hH, List.length_take, hS]
      rw [if_neg (by omega), rdN_append' _ _ hH]
      simp only
      have hdec : decN L.intSz L.header.length (L.header.flatMap (encInt L.intSz)) = L.header := by
        have := decN_flatMap L.header [] hwf.hdrRange
        simpa using this
      rw [hdec, checkHeader_self]
      simp only [Res.ok_bind, List.length_take, List.length_append, hS]
      rw [if_pos (by omega)]; exact ⟨_, rfl⟩
    · -- header and sizes complete
      have htake : (save L m).take k = L.header.flatMap (encInt L.intSz) ++ m.sizes.toList.flatMap (encInt L.sizeSz)
          ++ (m.blobs.flatten ++ m.arrays.flatten).take (k - headerBytes L) := by
        rw [himg, List.take_append, List.take_of_length_le (by omega), hH, List.take_append,
          List.take_of_length_le (by omega), hS, List.append_assoc]
        congr 3
        omega
      unfold load
      rw [htake, loadSizes_image L hwf m.sizes hc.sizesRange]
      simp only [Res.ok_bind, List.length_append, hH, hS, List.length_take]
      have hk' : k - headerBytes L < (m.blobs.flatten ++ m.arrays.flatten).length := by
        simp only [List.length_append]; omega
      obtain ⟨w, hw⟩ := loadBody_truncated L sp m hc (k - headerBytes L) hk'
      refine ⟨w, ?_⟩
      have hlen : L.header.length * L.intSz + L.sizeSz * ns
          + min (k - headerBytes L) (m.blobs.flatten.length + m.arrays.flatten.length) = headerBytes L + (k - headerBytes L) := by
        simp only [List.length_append] at hk'
        omega
      rw [hlen]
      exact hw


/-! ## reference table -/

theorem refLoop_ok (L : Layout ns) (r : Ref ns) (target : Int) (adrs : List Int) (nums : Option (List Int)) :
    ∀ (todo i : Nat), refLoop L r target adrs nums i todo = .ok () →
      ∀ k, k < todo → refStep L r target adrs nums (i + k) = .ok ()
  | 0, _, _, k, hk => by omega
  | todo + 1, i, h, k, hk => by
    simp only [refLoop] at h
    obtain ⟨u, hu, hrest⟩ := Res.bind_eq_ok h
    cases k with
    | zero => simpa using hu
    | succ k =>
      have := refLoop_ok L r target adrs nums todo (i + 1) hrest k (by omega)
      have e : i + (k + 1) = i + 1 + k := by omega
      rw [e]; exact this

theorem refStep_ok (L : Layout ns) (r : Ref ns) (target : Int) (adrs : List Int) (nums : Option (List Int)) (i : Nat)
    (h : refStep L r target adrs nums i = .ok ()) :
    ∃ adr num, adrs[i]? = some adr ∧ (match nums with | none => some (1 : Int) | some l => l[i]?) = some num ∧
      0 ≤ num ∧ -1 ≤ adr ∧ adr + num ≤ target := by
  unfold refStep at h
  split at h
  · cases h
  · rename_i adr hadr
    split at h
    · cases h
    · rename_i num hnum
      split at h
      · cases h
      · split at h
        · cases h
        · split at h
          · cases h
          · split at h
            · cases h
            · exact ⟨adr, num, hadr, hnum, by omega, by omega, by omega⟩

/-- entry `i` of reference row `r` is within bounds: the address array has an entry `adr`, the
    count is `num` (1 when the row has no count array), `-1 ≤ adr`, `0 ≤ num` and
    `adr + num ≤ sizes[target]` (exact integers: no wrap-around) -/
def RefEntryOK (m : Model ns) (r : Ref ns) (i : Nat) : Prop :=
  ∃ a adr num, m.arrays[r.arr]? = some a ∧ (decInts 4 a)[i]? = some adr ∧
    (match r.num with
      | none => num = 1
      | some k => ∃ b, m.arrays[k]? = some b ∧ (decInts 4 b)[i]? = some num) ∧
    0 ≤ num ∧ -1 ≤ adr ∧ adr + num ≤ m.sizes[r.target]

theorem validateRef_ok (L : Layout ns) (m : Model ns) (r : Ref ns) (h : validateRef L m r = .ok ()) :
    ∀ i : Nat, (i : Int) < m.sizes[r.nadrS] * r.nadrK → RefEntryOK m r i := by
  intro i hi
  unfold validateRef at h
  split at h
  · cases h
  · rename_i a ha
    obtain ⟨nums, hnums, hloop⟩ := Res.bind_eq_ok h
    have hlt : i < (m.sizes[r.nadrS] * (r.nadrK : Int)).toNat := by omega
    have hstep := refLoop_ok L r _ _ nums _ 0 hloop i hlt
    rw [Nat.zero_add] at hstep
    obtain ⟨adr, num, hadr, hnum, h0, h1, h2⟩ := refStep_ok L r _ _ nums i hstep
    refine ⟨a, adr, num, ha, hadr, ?_, h0, h1, h2⟩
    cases hr : r.num with
    | none =>
      simp only [hr, Res.ok.injEq] at hnums
      subst hnums
      simpa using hnum.symm
    | some k =>
      simp only [hr] at hnums
      split at hnums
      · cases hnums
      · rename_i b hb
        simp only [Res.ok.injEq] at hnums
        subst hnums
        exact ⟨b, hb, hnum⟩

theorem validateTable_ok (L : Layout ns) (m : Model ns) : ∀ (rs : List (Ref ns)),
    validateTable L m rs = .ok () → ∀ r ∈ rs, validateRef L m r = .ok ()
  | [], _, r, hr => by simp at hr
  | r0 :: rs, h, r, hr => by
    simp only [validateTable] at h
    obtain ⟨u, hu, hrest⟩ := Res.bind_eq_ok h
    rcases List.mem_cons.mp hr with rfl | hr'
    · exact hu
    · exact validateTable_ok L m rs hrest r hr'

theorem validate_sound' (L : Layout ns) (sp : Model ns → Res Unit) (m : Model ns) (h : validate L sp m = .ok ()) :
    ∀ r ∈ L.refs, ∀ i : Nat, (i : Int) < m.sizes[r.nadrS] * r.nadrK → RefEntryOK m r i := by
  intro r hr
  unfold validate at h
  obtain ⟨u, hu, _⟩ := Res.bind_eq_ok h
  exact validateRef_ok L m r (validateTable_ok L m L.refs hu r hr)


/-! ## hazards -/

theorem checkArgs_not_hazard (L : Layout ns) (s : Sizes ns) : ∀ (names : List String) (i : Nat) (u : Hazard),
    checkArgs L s i names ≠ .hazard u
  | [], i, u => by simp only [checkArgs]; intro h; cases h
  | nm :: rest, i, u => by
    simp only [checkArgs]
    split
    · intro h; cases h
    · split
      · intro h; cases h
      · exact checkArgs_not_hazard L s rest (i + 1) u

theorem allocLoop_not_hazard (L : Layout ns) (sa : Sizes ns) : ∀ (ps : List (Ptr ns)) (off : Nat) (u : Hazard),
    allocLoop L sa ps off ≠ .hazard u
  | [], off, u => by simp only [allocLoop]; intro h; cases h
  | p :: ps, off, u => by
    simp only [allocLoop]
    split
    · intro h; cases h
    · rename_i cap off' _
      have ih := allocLoop_not_hazard L sa ps off'
      cases hr : allocLoop L sa ps off' with
      | reject w => simp only [Res.reject_bind]; intro h; cases h
      | fatal w => simp only [Res.fatal_bind]; intro h; cases h
      | hazard v => exact absurd hr (ih v)
      | ok r => simp only [Res.ok_bind]; intro h; cases h

theorem makeModel_not_hazard (L : Layout ns) (s : Sizes ns) (u : Hazard) : makeModel L s ≠ .hazard u := by
  unfold makeModel
  cases hc : checkArgs L s 0 L.sizeNames with
  | reject w => intro h; cases h
  | fatal w => intro h; cases h
  | hazard v => exact absurd hc (checkArgs_not_hazard L s _ _ v)
  | ok x =>
    show (if s[L.nbody] = 0 then _ else _) ≠ _
    split
    · intro h; cases h
    · split
      · intro h; cases h
      · cases hr : allocLoop L (allocSizes L s) L.ptrs 0 with
        | reject w => simp only [Res.reject_bind]; intro h; cases h
        | fatal w => simp only [Res.fatal_bind]; intro h; cases h
        | hazard v => exact absurd hr (allocLoop_not_hazard L _ _ _ v)
        | ok r => simp only [Res.ok_bind]; intro h; cases h

theorem refStep_not_overread (L : Layout ns) (r : Ref ns) (target : Int) (adrs : List Int) (nums : Option (List Int)) (i : Nat) :
    refStep L r target adrs nums i ≠ .hazard .inputOverread := by
  unfold refStep
  split
  · intro h; cases h
  · split
    · intro h; cases h
    · split
      · intro h; cases h
      · split
        · intro h; cases h
        · split
          · intro h; cases h
          · split
            · intro h; cases h
            · intro h; cases h

theorem refLoop_not_overread (L : Layout ns) (r : Ref ns) (target : Int) (adrs : List Int) (nums : Option (List Int)) :
    ∀ (todo i : Nat), refLoop L r target adrs nums i todo ≠ .hazard .inputOverread
  | 0, i => by simp only [refLoop]; intro h; cases h
  | todo + 1, i => by
    simp only [refLoop]
    cases hs : refStep L r target adrs nums i with
    | reject w => simp only [Res.reject_bind]; intro h; cases h
    | fatal w => simp only [Res.fatal_bind]; intro h; cases h
    | hazard v =>
      simp only [Res.hazard_bind]
      intro h
      have : v = .inputOverread := by simpa using h
      rw [this] at hs
      exact refStep_not_overread L r target adrs nums i hs
    | ok x => simp only [Res.ok_bind]; exact refLoop_not_overread L r target adrs nums todo (i + 1)

theorem validateRef_not_overread (L : Layout ns) (m : Model ns) (r : Ref ns) :
    validateRef L m r ≠ .hazard .inputOverread := by
  unfold validateRef
  split
  · intro h; cases h
  · cases hr : r.num with
    | none => simp only [Res.ok_bind]; exact refLoop_not_overread L r _ _ _ _ _
    | some k =>
      simp only
      split
      · simp only [Res.hazard_bind]; intro h; cases h
      · simp only [Res.ok_bind]; exact refLoop_not_overread L r _ _ _ _ _

theorem validateTable_not_overread (L : Layout ns) (m : Model ns) : ∀ (rs : List (Ref ns)),
    validateTable L m rs ≠ .hazard .inputOverread
  | [] => by simp only [validateTable]; intro h; cases h
  | r :: rs => by
    simp only [validateTable]
    cases hs : validateRef L m r with
    | reject w => simp only [Res.reject_bind]; intro h; cases h
    | fatal w => simp only [Res.fatal_bind]; intro h; cases h
    | hazard v =>
      simp only [Res.hazard_bind]
      intro h
      have : v = .inputOverread := by simpa using h
      rw [this] at hs
      exact validateRef_not_overread L m r hs
    | ok x => simp only [Res.ok_bind]; exact validateTable_not_overread L m rs

def DimOK (intMax : Int) (s : Sizes ns) (p : Ptr ns) : Prop :=
  ∀ ncv, p.ncInt s intMax = .ok ncv → 0 ≤ (p.esz : Int) * s[p.nr] * ncv ∧ (p.esz : Int) * s[p.nr] * ncv < two63

theorem ncInt_hazard (intMax : Int) (s : Sizes ns) (p : Ptr ns) (u : Hazard) (h : p.ncInt s intMax = .hazard u) :
    u ≠ .inputOverread := by
  unfold Ptr.ncInt at h
  split at h
  · cases h
  · simp only at h
    split at h
    · simp only [Res.hazard.injEq] at h; subst h; intro h; cases h
    · cases h

theorem readStep_no_overread (intMax : Int) (len : Nat) (s : Sizes ns) (hlen : len ≤ 2147483647)
    (p : Ptr ns) (c : Nat) (rest : Bytes) (hd : DimOK intMax s p) (hrest : rest.length ≤ len) :
    readStep intMax len s p c rest ≠ .hazard .inputOverread ∧
    ∀ a rest', readStep intMax len s p c rest = .ok (a, rest') → rest'.length ≤ len := by
  cases hnc : p.ncInt s intMax with
  | reject w =>
    simp only [readStep, hnc, Res.reject_bind]
    exact ⟨(by intro h; cases h), (by intro a r h; cases h)⟩
  | fatal w =>
    simp only [readStep, hnc, Res.fatal_bind]
    exact ⟨(by intro h; cases h), (by intro a r h; cases h)⟩
  | hazard u =>
    simp only [readStep, hnc, Res.hazard_bind]
    refine ⟨?_, (by intro a r h; cases h)⟩
    intro h
    simp only [Res.hazard.injEq] at h
    exact ncInt_hazard intMax s p u hnc h
  | ok ncv =>
    obtain ⟨h0, h63⟩ := hd ncv hnc
    obtain ⟨B, hB⟩ : ∃ B : Int, (p.esz : Int) * s[p.nr] * ncv = B := ⟨_, rfl⟩
    simp only [hB] at h0 h63
    simp only [readStep, hnc, Res.ok_bind, hB]
    have hBn : (B % (two64 : Int)).toNat = B.toNat := by
      rw [Int.emod_eq_of_lt h0 (by unfold two63 at h63; unfold two64; omega)]
    rw [hBn]
    have hmod : (len - rest.length + B.toNat) % two64 = len - rest.length + B.toNat :=
      Nat.mod_eq_of_lt (by unfold two63 at h63; unfold two64; omega)
    rw [hmod]
    split
    · exact ⟨(by intro h; cases h), (by intro a r h; cases h)⟩
    · rename_i hfit
      have hBsmall : B.toNat ≤ 2147483647 := by omega
      rw [toI32_small hBsmall]
      rw [if_neg (by omega), if_neg (by omega)]
      simp only [Int.toNat_natCast]
      have hrd : rdN rest B.toNat = some (rest.take B.toNat, rest.drop B.toNat) := by
        unfold rdN; rw [if_pos (by omega)]
      rw [hrd]
      simp only
      split
      · exact ⟨(by intro h; cases h), (by intro a r h; cases h)⟩
      · refine ⟨(by intro h; cases h), ?_⟩
        intro a rest' h
        simp only [Res.ok.injEq, Prod.mk.injEq] at h
        rw [← h.2, List.length_drop]; omega

theorem readArrays_no_overread (intMax : Int) (len : Nat) (s : Sizes ns) (hlen : len ≤ 2147483647) :
    ∀ (ps : List (Ptr ns)) (cs : List Nat) (rest : Bytes),
      (∀ p ∈ ps, DimOK intMax s p) → rest.length ≤ len →
      readArrays intMax len s ps cs rest ≠ .hazard .inputOverread
  | [], _, _, _, _ => by simp only [readArrays]; intro h; cases h
  | _ :: _, [], _, _, _ => by simp only [readArrays]; intro h; cases h
  | p :: ps, c :: cs, rest, hd, hrest => by
    obtain ⟨h1, h2⟩ := readStep_no_overread intMax len s hlen p c rest (hd p (by simp)) hrest
    simp only [readArrays]
    cases hs : readStep intMax len s p c rest with
    | reject w => simp only [Res.reject_bind]; intro h; cases h
    | fatal w => simp only [Res.fatal_bind]; intro h; cases h
    | hazard u =>
      simp only [Res.hazard_bind, ne_eq, Res.hazard.injEq]
      intro hu; rw [hs, hu] at h1; exact h1 rfl
    | ok ar =>
      simp only [Res.ok_bind]
      have ih := readArrays_no_overread intMax len s hlen ps cs ar.2 (fun q hq => hd q (by simp [hq]))
        (h2 ar.1 ar.2 hs)
      cases hr : readArrays intMax len s ps cs ar.2 with
      | reject w => simp only [Res.reject_bind]; intro h; cases h
      | fatal w => simp only [Res.fatal_bind]; intro h; cases h
      | hazard u =>
        simp only [Res.hazard_bind, ne_eq, Res.hazard.injEq]
        intro hu; rw [hr, hu] at ih; exact ih rfl
      | ok r => simp only [Res.ok_bind]; intro h; cases h

theorem readBlobs_facts : ∀ (spec : List (String × Nat)) (rest : Bytes),
    readBlobs spec rest ≠ .hazard .inputOverread ∧
    ∀ bs rest', readBlobs spec rest = .ok (bs, rest') → rest'.length ≤ rest.length
  | [], rest => by
    simp only [readBlobs]
    exact ⟨(by intro h; cases h), (by intro bs r h; simp only [Res.ok.injEq, Prod.mk.injEq] at h; rw [← h.2]; exact Nat.le_refl _)⟩
  | (nm, n) :: spec, rest => by
    simp only [readBlobs]
    cases hrd : rdN rest n with
    | none => exact ⟨(by intro h; cases h), (by intro bs r h; cases h)⟩
    | some ar =>
      obtain ⟨ih1, ih2⟩ := readBlobs_facts spec ar.2
      have hlen : ar.2.length ≤ rest.length := by
        unfold rdN at hrd
        split at hrd
        · simp only [Option.some.injEq] at hrd
          rw [← hrd]; simp only [List.length_drop]; omega
        · cases hrd
      simp only
      cases hr : readBlobs spec ar.2 with
      | reject w => exact ⟨(by intro h; cases h), (by intro bs r h; cases h)⟩
      | fatal w => exact ⟨(by intro h; cases h), (by intro bs r h; cases h)⟩
      | hazard u =>
        refine ⟨?_, (by intro bs r h; cases h)⟩
        intro h
        have : u = .inputOverread := by
          have h' : Res.hazard u = (Res.hazard Hazard.inputOverread : Res (List Bytes × Bytes)) := h
          simpa using h'
        rw [hr, this] at ih1; exact ih1 rfl
      | ok r =>
        refine ⟨(by intro h; cases h), ?_⟩
        intro bs r' h
        have h' : Res.ok (ar.1 :: r.1, r.2) = (Res.ok (bs, r') : Res (List Bytes × Bytes)) := h
        simp only [Res.ok.injEq, Prod.mk.injEq] at h'
        have := ih2 r.1 r.2 (by rw [hr])
        rw [← h'.2]; omega


theorem rdN_some_iff {rest : Bytes} {n : Nat} (h : n ≤ rest.length) : rdN rest n = some (rest.take n, rest.drop n) := by
  unfold rdN; rw [if_pos h]

theorem checkHeader_not_hazard : ∀ (e h : List Int) (msgs : List String) (u : Hazard), checkHeader e h msgs ≠ .hazard u
  | [], _, _, u => by simp only [checkHeader]; intro h; cases h
  | _ :: _, [], _, u => by simp only [checkHeader]; intro h; cases h
  | e :: es, h :: hs, msgs, u => by
    simp only [checkHeader]
    split
    · intro h; cases h
    · exact checkHeader_not_hazard es hs _ u

theorem loadSizes_facts (L : Layout ns) (buf : Bytes) :
    (∀ u, loadSizes L buf ≠ .hazard u) ∧
    ∀ s rest, loadSizes L buf = .ok (s, rest) → rest.length ≤ buf.length := by
  unfold loadSizes
  simp only
  split
  · exact ⟨(by intro u h; cases h), (by intro s r h; cases h)⟩
  · rename_i h1
    rw [rdN_some_iff (by omega)]
    simp only
    cases hc : checkHeader L.header (decN L.intSz L.header.length (List.take (L.header.length * L.intSz) buf)) L.headerMsgs with
    | reject w => exact ⟨(by intro u h; cases h), (by intro s r h; cases h)⟩
    | fatal w => exact ⟨(by intro u h; cases h), (by intro s r h; cases h)⟩
    | hazard v => exact absurd hc (checkHeader_not_hazard _ _ _ v)
    | ok x =>
      simp only [Res.ok_bind]
      split
      · exact ⟨(by intro u h; cases h), (by intro s r h; cases h)⟩
      · rename_i h2
        simp only [List.length_drop] at h2 ⊢
        rw [rdN_some_iff (by simp only [List.length_drop]; omega)]
        simp only
        refine ⟨(by intro u h; cases h), ?_⟩
        intro s r h
        simp only [Res.ok.injEq, Prod.mk.injEq] at h
        rw [← h.2]; simp only [List.length_drop]; omega

/-- **No over-read of the input buffer** when the byte counts computed from the file's sizes do not
    wrap: every `memcpy` out of the caller's buffer stays inside it. -/
theorem load_no_overread (L : Layout ns) (sp : Model ns → Res Unit) (buf : Bytes)
    (hlen : buf.length ≤ 2147483647) (hsp : ∀ m, sp m ≠ .hazard .inputOverread)
    (hdims : ∀ s rest, loadSizes L buf = .ok (s, rest) → ∀ p ∈ L.ptrs, DimOK L.intMax s p) :
    load L sp buf ≠ .hazard .inputOverread := by
  obtain ⟨hs1, hs2⟩ := loadSizes_facts L buf
  unfold load
  cases hls : loadSizes L buf with
  | reject w => intro h; cases h
  | fatal w => intro h; cases h
  | hazard v => exact absurd hls (hs1 v)
  | ok sr =>
    simp only [Res.ok_bind]
    have hr2 := hs2 sr.1 sr.2 hls
    have hd := hdims sr.1 sr.2 hls
    unfold loadBody
    cases hmk : makeModel L sr.1 with
    | reject w => intro h; cases h
    | fatal w => intro h; cases h
    | hazard v => exact absurd hmk (makeModel_not_hazard L _ v)
    | ok al =>
      simp only
      split
      · intro h; cases h
      · split
        · intro h; cases h
        · obtain ⟨hb1, hb2⟩ := readBlobs_facts L.blobs sr.2
          cases hrb : readBlobs L.blobs sr.2 with
          | reject w => intro h; cases h
          | fatal w => intro h; cases h
          | hazard v =>
            simp only [Res.hazard_bind]
            intro h
            have : v = .inputOverread := by simpa using h
            rw [hrb, this] at hb1; exact hb1 rfl
          | ok br =>
            simp only [Res.ok_bind]
            have hbl := hb2 br.1 br.2 hrb
            have hra := readArrays_no_overread L.intMax buf.length sr.1 hlen L.ptrs al.caps br.2 hd (by omega)
            cases hr : readArrays L.intMax buf.length sr.1 L.ptrs al.caps br.2 with
            | reject w => intro h; cases h
            | fatal w => intro h; cases h
            | hazard v =>
              simp only [Res.hazard_bind]
              intro h
              have : v = .inputOverread := by simpa using h
              rw [hr, this] at hra; exact hra rfl
            | ok ar =>
              simp only [Res.ok_bind]
              split
              · intro h; cases h
              · unfold validate
                cases hvt : validateTable L { sizes := sr.1, blobs := br.1, arrays := ar.1 } L.refs with
                | reject w => intro h; cases h
                | fatal w => intro h; cases h
                | hazard v =>
                  simp only [Res.hazard_bind]
                  intro h
                  have : v = .inputOverread := by simpa using h
                  rw [this] at hvt; exact validateTable_not_overread L _ _ hvt
                | ok x =>
                  simp only [Res.ok_bind]
                  cases hspm : sp { sizes := sr.1, blobs := br.1, arrays := ar.1 } with
                  | reject w => intro h; cases h
                  | fatal w => intro h; cases h
                  | hazard v =>
                    simp only [Res.hazard_bind]
                    intro h
                    have : v = .inputOverread := by simpa using h
                    rw [this] at hspm; exact hsp _ hspm
                  | ok y => intro h; cases h


/-! ## the executable consistency check is sound -/

theorem lensOKB_sound (s : Sizes ns) : ∀ (ps : List (Ptr ns)) (as : List Bytes), lensOKB s ps as = true → LensOK s ps as
  | [], [], _ => trivial
  | p :: ps, a :: as, h => by
    simp only [lensOKB, Bool.and_eq_true, decide_eq_true_eq] at h
    exact ⟨h.1, lensOKB_sound s ps as h.2⟩
  | [], _ :: _, h => by simp [lensOKB] at h
  | _ :: _, [], h => by simp [lensOKB] at h

theorem consistentB_sound (L : Layout ns) (sp : Model ns → Res Unit) (m : Model ns)
    (h : consistentB L sp m = true) : Consistent L sp m := by
  unfold consistentB at h
  simp only [Bool.and_eq_true, List.all_eq_true, decide_eq_true_eq] at h
  obtain ⟨⟨⟨⟨⟨⟨⟨h1, h2⟩, h3⟩, h4⟩, h5⟩, h6⟩, h7⟩, h8⟩ := h
  refine ⟨h1, ?_, h3, h4, h5, lensOKB_sound _ _ _ h6, h7, h8⟩
  split at h2
  · rename_i al hal
    exact ⟨al, hal, by simpa using h2⟩
  · cases h2

end MjProof.Mjb
