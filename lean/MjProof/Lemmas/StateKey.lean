import MjProof.Lemmas.State
/-
Helper lemmas for the keyframe part of C26 (`mj_resetDataKeyframe`, `mj_setKeyframe`).
Core Lean only.
-/
namespace MjProof.State
open List

section
variable {α : Type}

theorem splice_slice_same {l v : List α} {a n : Nat} (h : a + n ≤ l.length) (hv : v.length = n) :
    ((l.take a ++ v ++ l.drop (a + n)).drop a).take n = v := by
  have h1 : (l.take a).length = a := by simp; omega
  rw [List.append_assoc, List.drop_left' h1, List.take_left' hv]

theorem splice_length {l v : List α} {a n : Nat} (h : a + n ≤ l.length) (hv : v.length = n) :
    (l.take a ++ v ++ l.drop (a + n)).length = l.length := by
  simp; omega

theorem splice_slice_other {l v : List α} {a a' n : Nat} (h : a + n ≤ l.length) (hv : v.length = n)
    (hd : a' + n ≤ a ∨ a + n ≤ a') :
    ((l.take a ++ v ++ l.drop (a + n)).drop a').take n = (l.drop a').take n := by
  apply List.ext_getElem?
  intro i
  simp only [List.getElem?_take, List.getElem?_drop, List.getElem?_append, List.length_take, List.length_append]
  by_cases hi : i < n
  · simp only [hi, ↓reduceIte]
    rcases hd with hd | hd
    · have : a' + i < min a l.length := by omega
      have h2 : a' + i < min a l.length + v.length := by omega
      simp only [this, h2, ↓reduceIte]
      have : a' + i < a := by omega
      simp [this]
    · have h2 : ¬ a' + i < min a l.length + v.length := by omega
      simp only [h2, ↓reduceIte]
      congr 1
      omega
  · simp [hi]

/-- rows `k` and `k'` of an array of `n`-entry rows do not overlap -/
theorem rows_disjoint {k k' n : Nat} (h : k' ≠ k) : k' * n + n ≤ k * n ∨ k * n + n ≤ k' * n := by
  rcases Nat.lt_or_gt_of_ne h with h | h
  · left
    have := Nat.mul_le_mul_right n (Nat.succ_le_of_lt h)
    rw [Nat.succ_mul] at this; exact this
  · right
    have := Nat.mul_le_mul_right n (Nat.succ_le_of_lt h)
    rw [Nat.succ_mul] at this; exact this

theorem row_in_range {k nkey n : Nat} (h : k < nkey) : k * n + n ≤ nkey * n := by
  have := Nat.mul_le_mul_right n (Nat.succ_le_of_lt h)
  rw [Nat.succ_mul] at this; exact this

end

section
variable {σ φ κ α : Type} [DecidableEq φ] [DecidableEq κ]

/-- every `mjData` field has its allocated length -/
def DShaped (t : KeyTable σ φ κ) (sz : σ) (d : Data φ α) : Prop := ∀ f, (d f).length = t.alloc f sz
/-- every `key_*` array has its allocated length -/
def KShaped (t : KeyTable σ φ κ) (sz : σ) (m : KeyData κ α) : Prop := ∀ k, (m k).length = t.kalloc k sz

/-- row `k` of a `key_*` array with rows of `n` entries -/
def keyRow (l : List α) (k n : Nat) : List α := (l.drop (k * n)).take n

theorem kupd_same (m : KeyData κ α) (k : κ) (v : List α) : kupd m k v k = v := by simp [kupd]
theorem kupd_other (m : KeyData κ α) {k g : κ} (v : List α) (h : g ≠ k) : kupd m k v g = m g := by
  simp [kupd, h]

/-- what a row must satisfy (part of `KeyWF`) -/
def RowOK (t : KeyTable σ φ κ) (sz : σ) (r : KeyRow σ φ κ) : Prop :=
  r.stride sz = r.size sz ∧ r.size sz = t.alloc r.field sz ∧ t.kalloc r.key sz = t.nkey sz * r.size sz

omit [DecidableEq κ] in
theorem loadRows_spec (t : KeyTable σ φ κ) (sz : σ) {m : KeyData κ α} (hm : KShaped t sz m) {k : Nat}
    (hk : k < t.nkey sz) :
    ∀ (rows : List (KeyRow σ φ κ)) (d : Data φ α), (rows.map (fun r => r.field)).Nodup →
      (∀ r, r ∈ rows → RowOK t sz r) → DShaped t sz d →
      ∃ d', loadRows sz m k d rows = .ok d' ∧ DShaped t sz d' ∧
        (∀ r, r ∈ rows → d' r.field = keyRow (m r.key) k (r.size sz)) ∧
        (∀ f, f ∉ rows.map (fun r => r.field) → d' f = d f) := by
  intro rows
  induction rows with
  | nil => intro d _ _ hd; exact ⟨d, rfl, hd, fun _ h => absurd h List.not_mem_nil, fun _ _ => rfl⟩
  | cons r rs ih =>
    intro d hnd hrow hd
    obtain ⟨hst, hsz, hka⟩ := hrow r (List.mem_cons_self)
    have hnd' : r.field ∉ rs.map (fun r => r.field) ∧ (rs.map (fun r => r.field)).Nodup :=
      List.nodup_cons.mp hnd
    have hrange : k * r.size sz + r.size sz ≤ (m r.key).length := by
      rw [hm r.key, hka]; exact row_in_range hk
    have hvlen : (keyRow (m r.key) k (r.size sz)).length = r.size sz := by
      simp [keyRow]; omega
    have hslice : sliceN (m r.key) (k * r.stride sz) (r.size sz) = .ok (keyRow (m r.key) k (r.size sz)) := by
      unfold sliceN; rw [hst, if_pos hrange]; rfl
    have hdl : (d r.field).length = r.size sz := by rw [hd r.field, hsz]
    have hwrite : kwriteN (d r.field) (keyRow (m r.key) k (r.size sz)) (r.size sz)
        = .ok (keyRow (m r.key) k (r.size sz)) := by
      unfold kwriteN
      rw [if_pos ⟨by omega, by omega⟩]
      congr 1
      rw [List.take_of_length_le (by omega), List.drop_of_length_le (by omega), List.append_nil]
    have hd1 : DShaped t sz (upd d r.field (keyRow (m r.key) k (r.size sz))) := by
      intro f
      by_cases hf : f = r.field
      · subst hf; rw [upd_same, hvlen, hsz]
      · rw [upd_other _ _ hf]; exact hd f
    obtain ⟨d', hl, hd', hv, hfr⟩ := ih (upd d r.field (keyRow (m r.key) k (r.size sz))) hnd'.2
      (fun r' hr' => hrow r' (List.mem_cons_of_mem _ hr')) hd1
    refine ⟨d', ?_, hd', ?_, ?_⟩
    · show (do let v ← sliceN (m r.key) (k * r.stride sz) (r.size sz)
               let f ← kwriteN (d r.field) v (r.size sz)
               loadRows sz m k (upd d r.field f) rs) = _
      rw [hslice]; show (do let f ← kwriteN _ _ _; loadRows sz m k (upd d r.field f) rs) = _
      rw [hwrite]; exact hl
    · intro r' hr'
      rcases List.mem_cons.mp hr' with rfl | hr'
      · rw [hfr _ hnd'.1, upd_same]
      · exact hv r' hr'
    · intro f hf
      have hf' : f ∉ rs.map (fun r => r.field) := fun h => hf (by simp at h ⊢; exact Or.inr h)
      have hne : f ≠ r.field := fun h => hf (by simp [h])
      rw [hfr f hf', upd_other _ _ hne]

omit [DecidableEq φ] in
theorem storeRows_spec (t : KeyTable σ φ κ) (sz : σ) {d : Data φ α} (hd : DShaped t sz d) {k : Nat}
    (hk : k < t.nkey sz) :
    ∀ (rows : List (KeyRow σ φ κ)) (m : KeyData κ α), (rows.map (fun r => r.key)).Nodup →
      (∀ r, r ∈ rows → RowOK t sz r) → KShaped t sz m →
      ∃ m', storeRows sz d k m rows = .ok m' ∧ KShaped t sz m' ∧
        (∀ r, r ∈ rows → keyRow (m' r.key) k (r.size sz) = d r.field) ∧
        (∀ r, r ∈ rows → ∀ k', k' ≠ k → keyRow (m' r.key) k' (r.size sz) = keyRow (m r.key) k' (r.size sz)) ∧
        (∀ g, g ∉ rows.map (fun r => r.key) → m' g = m g) := by
  intro rows
  induction rows with
  | nil =>
    intro m _ _ hm
    exact ⟨m, rfl, hm, fun _ h => absurd h List.not_mem_nil, fun _ h => absurd h List.not_mem_nil, fun _ _ => rfl⟩
  | cons r rs ih =>
    intro m hnd hrow hm
    obtain ⟨hst, hsz, hka⟩ := hrow r (List.mem_cons_self)
    have hnd' : r.key ∉ rs.map (fun r => r.key) ∧ (rs.map (fun r => r.key)).Nodup :=
      List.nodup_cons.mp hnd
    have hrange : k * r.size sz + r.size sz ≤ (m r.key).length := by
      rw [hm r.key, hka]; exact row_in_range hk
    have hdl : (d r.field).length = r.size sz := by rw [hd r.field, hsz]
    let a := (m r.key).take (k * r.size sz) ++ d r.field ++ (m r.key).drop (k * r.size sz + r.size sz)
    have hsplice : spliceN (m r.key) (k * r.stride sz) (d r.field) (r.size sz) = .ok a := by
      have htk : (d r.field).take (r.size sz) = d r.field := List.take_of_length_le (by omega)
      unfold spliceN
      rw [hst, if_pos ⟨hrange, by omega⟩, htk]
    have hm1 : KShaped t sz (kupd m r.key a) := by
      intro g
      by_cases hg : g = r.key
      · subst hg; rw [kupd_same]; show a.length = _; rw [splice_length hrange hdl]; exact hm _
      · rw [kupd_other _ _ hg]; exact hm g
    obtain ⟨m', hs, hm', hv, hoth, hfr⟩ := ih (kupd m r.key a) hnd'.2
      (fun r' hr' => hrow r' (List.mem_cons_of_mem _ hr')) hm1
    refine ⟨m', ?_, hm', ?_, ?_, ?_⟩
    · show (do let a ← spliceN (m r.key) (k * r.stride sz) (d r.field) (r.size sz)
               storeRows sz d k (kupd m r.key a) rs) = _
      rw [hsplice]; exact hs
    · intro r' hr'
      rcases List.mem_cons.mp hr' with rfl | hr'
      · rw [hfr _ hnd'.1, kupd_same]; exact splice_slice_same hrange hdl
      · exact hv r' hr'
    · intro r' hr' k' hk'
      rcases List.mem_cons.mp hr' with rfl | hr'
      · rw [hfr _ hnd'.1, kupd_same]
        exact splice_slice_other hrange hdl (rows_disjoint hk')
      · rw [hoth r' hr' k' hk']
        have hne : r'.key ≠ r.key := fun h => hnd'.1 (by rw [← h]; exact List.mem_map_of_mem hr')
        rw [kupd_other _ _ hne]
    · intro g hg
      have hg' : g ∉ rs.map (fun r => r.key) := fun h => hg (by simp at h ⊢; exact Or.inr h)
      have hne : g ≠ r.key := fun h => hg (by simp [h])
      rw [hfr g hg', kupd_other _ _ hne]

end

/-! ### soundness of the syntactic check -/

theorem SymKeyTable.wf_sound {ν φ κ : Type} [DecidableEq ν] [DecidableEq φ] [DecidableEq κ]
    (s : SymKeyTable ν φ κ) (h : s.wfCheck = true) : KeyWF s.toTable := by
  unfold SymKeyTable.wfCheck at h
  simp only [Bool.and_eq_true, decide_eq_true_eq, List.all_eq_true, List.any_eq_true] at h
  obtain ⟨⟨⟨⟨h1, h2⟩, h3⟩, h4⟩, h5⟩ := h
  refine ⟨?_, ?_, ?_, ?_, ?_⟩
  · simpa [SymKeyTable.toTable, SymKeyRow.toRow, List.map_map, Function.comp_def] using h1
  · simpa [SymKeyTable.toTable, SymKeyRow.toRow, List.map_map, Function.comp_def] using h2
  · intro r hr sz
    have hr' : r ∈ (s.load ++ s.store).map SymKeyRow.toRow := by
      simpa [SymKeyTable.toTable] using hr
    obtain ⟨r0, hr0, rfl⟩ := List.mem_map.mp hr'
    obtain ⟨⟨e1, e2⟩, e3⟩ := h3 r0 hr0
    refine ⟨SizeExpr.equiv_sound e1 sz, SizeExpr.equiv_sound e2 sz, ?_⟩
    have := SizeExpr.equiv_sound e3 sz
    simpa [SymKeyTable.toTable, SymKeyRow.toRow, SizeExpr.eval_cons, SizeExpr.Factor.eval] using this
  · intro r hr
    have hr' : r ∈ s.load.map SymKeyRow.toRow := hr
    obtain ⟨r0, hr0, rfl⟩ := List.mem_map.mp hr'
    obtain ⟨r1, hr1, e⟩ := h4 r0 hr0
    exact ⟨r1.toRow, by simp only [SymKeyTable.toTable]; exact List.mem_map_of_mem hr1, e.1, e.2⟩
  · intro r hr
    have hr' : r ∈ s.store.map SymKeyRow.toRow := hr
    obtain ⟨r0, hr0, rfl⟩ := List.mem_map.mp hr'
    obtain ⟨r1, hr1, e⟩ := h5 r0 hr0
    exact ⟨r1.toRow, by simp only [SymKeyTable.toTable]; exact List.mem_map_of_mem hr1, e.1, e.2⟩

end MjProof.State
