import MjProof.Model.Attach
import MjProof.Lemmas.Orient
/-
Helper lemmas for the `mjs_attach` pose model (C36): chains of frames split at any point (all number classes);
over ℝ, frames whose spelling resolves to a unit quaternion compile to unit poses, and the identity frame that
`mjs_attach` wraps around the world of an attached model is neutral.
-/
set_option linter.unusedSimpArgs false
set_option linter.unusedVariables false
namespace MjProof.Attach
open MjProof MjProof.Orient

section generic
variable {α : Type} [MjNum α]

/-- bind on `Except` written with `match`, as the model writes it -/
def andThen {β γ : Type} (x : Except String β) (f : β → Except String γ) : Except String γ :=
  match x with
  | .error e => .error e
  | .ok v => f v

theorem compileChain_cons (pi : α) (acc : Option (Pose α)) (f : Placed α) (fs : List (Placed α)) :
    compileChain pi acc (f :: fs) = andThen (compileFrame pi acc f) (fun p => compileChain pi (some p) fs) := by
  simp only [compileChain, andThen]
  cases compileFrame pi acc f <;> rfl

/-- a chain of frames can be compiled in two stages -/
theorem compileChain_append (pi : α) (acc : Option (Pose α)) (l1 l2 : List (Placed α)) :
    compileChain pi acc (l1 ++ l2) = andThen (compileChain pi acc l1) (fun a => compileChain pi a l2) := by
  induction l1 generalizing acc with
  | nil => simp only [List.nil_append, compileChain, andThen]
  | cons f fs ih =>
    simp only [List.cons_append, compileChain]
    cases compileFrame pi acc f with
    | error e => simp only [andThen]
    | ok p => simp only [ih]

theorem placeBody_eq (pi : α) (chain : List (Placed α)) (b : Placed α) :
    placeBody pi chain b = andThen (compileChain pi none chain) (fun fr => compileBody pi fr b) := by
  simp only [placeBody, andThen]
  cases compileChain pi none chain <;> rfl

/-- the frame `attachToSite` creates compiles exactly like a frame that carries the site's own spelling, provided the
    spelling is resolved with the settings of the spec the site was written in and is resolvable -/
theorem compileFrame_siteFrame (pi : α) (host : Comp) (acc : Option (Pose α)) (s : Placed α) (q : Q α)
    (h : resolveOrientation pi s.quat s.comp.degree s.comp.seq s.alt = .ok q) :
    compileFrame pi acc (siteFrame pi host s s.comp) = compileFrame pi acc s := by
  have hs : siteFrame pi host s s.comp = ⟨host, s.pos, q, .quat⟩ := by simp only [siteFrame, h]
  have hq : ∀ (d : Bool) (sq : Nat × Nat × Nat), resolveOrientation pi q d sq (.quat : OrientSpec α) = .ok q := fun _ _ => rfl
  rw [hs]
  simp only [compileFrame, hq, h]

/-- in a chain, the frame `attachToSite` creates can be replaced by a frame carrying the site's spelling -/
theorem placeBody_siteFrame (pi : α) (host : Comp) (outer rest : List (Placed α)) (s b : Placed α) (q : Q α)
    (h : resolveOrientation pi s.quat s.comp.degree s.comp.seq s.alt = .ok q) :
    placeBody pi (outer ++ siteFrame pi host s s.comp :: rest) b = placeBody pi (outer ++ s :: rest) b := by
  simp only [placeBody_eq, compileChain_append, compileChain_cons, compileFrame_siteFrame pi host _ s q h]

/-- a frame whose spelling cannot be resolved makes every chain that contains it fail -/
theorem placeBody_unresolvable (pi : α) (outer rest : List (Placed α)) (s b : Placed α) (e : String)
    (h : resolveOrientation pi s.quat s.comp.degree s.comp.seq s.alt = .error e) :
    ∃ e', placeBody pi (outer ++ s :: rest) b = .error e' := by
  simp only [placeBody_eq, compileChain_append, compileChain_cons]
  cases compileChain pi none outer with
  | error e1 => exact ⟨e1, rfl⟩
  | ok a => exact ⟨e, by simp only [andThen, compileFrame, h]⟩

/-- the site is used with the `degree` / `eulerseq` of the spec it was written in (true for a site of the host spec;
    false for a site that came in through an earlier attachment of a spec with other settings) -/
def Point.ownSettings : Point α → Prop
  | .site _ s owner => owner = s.comp
  | _ => True

/-- the site's spelling can be resolved -/
def Point.resolvable (pi : α) : Point α → Prop
  | .site _ s _ => ∃ q, resolveOrientation pi s.quat s.comp.degree s.comp.seq s.alt = .ok q
  | _ => True

/-- the frames an attachment point contributes when it is written out -/
def Point.frames : Point α → List (Placed α)
  | .body => []
  | .frame outer f => outer ++ [f]
  | .site outer s _ => outer ++ [s]

end generic

/-! ### over ℝ: unit poses -/

/-- the spelling of a frame resolves to a unit quaternion whenever it resolves -/
def UnitFrame (pi : ℝ) (f : Placed ℝ) : Prop :=
  ∀ q, resolveOrientation pi f.quat f.comp.degree f.comp.seq f.alt = .ok q → nsq q = 1

/-- the same for a body, whose own quaternion is normalised before the resolution -/
def UnitBody (pi : ℝ) (b : Placed ℝ) : Prop :=
  ∀ q, resolveOrientation pi (normvec4 b.quat).1 b.comp.degree b.comp.seq b.alt = .ok q → nsq q = 1

def UnitAcc (acc : Option (Pose ℝ)) : Prop := ∀ p, acc = some p → nsq p.2 = 1

theorem nsq_qunit : nsq (qunit : Q ℝ) = 1 := by
  simp only [qunit, nsq, L, real_ofInt]; push_cast; norm_num

theorem qunit_eq : (qunit : Q ℝ) = ⟨1, 0, 0, 0⟩ := by
  simp only [qunit, L, real_ofInt]; push_cast; rfl

theorem v3zero_eq : (v3zero : V3 ℝ) = ⟨0, 0, 0⟩ := by
  simp only [v3zero, L, real_ofInt]; push_cast; rfl

/-- accumulating into the null frame / accumulating the null frame (unit orientations) -/
theorem frameaccum_identity (p : V3 ℝ) (q : Q ℝ) (hq : nsq q = 1) :
    frameaccum ⟨0, 0, 0⟩ ⟨1, 0, 0, 0⟩ p q = (p, q) ∧ frameaccum p q ⟨0, 0, 0⟩ ⟨1, 0, 0, 0⟩ = (p, q) := by
  have h1 : nsq (⟨1, 0, 0, 0⟩ : Q ℝ) = 1 := by simp [nsq]
  obtain ⟨x, y, z⟩ := p
  obtain ⟨w, a, b, c⟩ := q
  simp only [frameaccum, quat2mat_eq, mulvecmat_eq, mulquat_unit _ _ h1 hq, mulquat_unit _ _ hq h1, matF, hamilton,
    Prod.mk.injEq, V3.mk.injEq, Q.mk.injEq]
  refine ⟨⟨⟨by ring, by ring, by ring⟩, ⟨by ring, by ring, by ring, by ring⟩⟩, ⟨⟨by ring, by ring, by ring⟩, ⟨by ring, by ring, by ring, by ring⟩⟩⟩

/-- a frame with a unit orientation compiles to a unit pose -/
theorem compileFrame_unit (pi : ℝ) (acc : Option (Pose ℝ)) (hacc : UnitAcc acc) (f : Placed ℝ) (hf : UnitFrame pi f)
    (p : Pose ℝ) (h : compileFrame pi acc f = .ok p) : nsq p.2 = 1 := by
  unfold compileFrame at h
  cases hr : resolveOrientation pi f.quat f.comp.degree f.comp.seq f.alt with
  | error e => simp only [hr] at h; cases h
  | ok q =>
    have hq := hf q hr
    simp only [hr] at h
    cases acc with
    | none =>
      simp only [normvec4_unit q hq] at h
      cases h; exact hq
    | some a =>
      have ha := hacc a rfl
      have hm : nsq (frameaccumChild a.1 a.2 f.pos q).2 = 1 := by
        simp only [frameaccumChild, frameaccum]; exact nsq_mulquat _ _ ha hq
      simp only [normvec4_unit _ hm] at h
      cases h; exact hm

theorem compileChain_unit (pi : ℝ) (l : List (Placed ℝ)) (hl : ∀ f ∈ l, UnitFrame pi f) (acc : Option (Pose ℝ)) (hacc : UnitAcc acc)
    (r : Option (Pose ℝ)) (h : compileChain pi acc l = .ok r) : UnitAcc r := by
  induction l generalizing acc with
  | nil => simp only [compileChain] at h; cases h; exact hacc
  | cons f fs ih =>
    simp only [compileChain] at h
    cases hc : compileFrame pi acc f with
    | error e => simp only [hc] at h; cases h
    | ok p =>
      simp only [hc] at h
      have hp := compileFrame_unit pi acc hacc f (hl f (List.mem_cons_self)) p hc
      exact ih (fun g hg => hl g (List.mem_cons_of_mem _ hg)) (some p) (fun p' hp' => by cases hp'; exact hp) h

/-- the identity frame compiles to the pose it is nested in (the null pose at top level) -/
theorem compileFrame_worldFrame (pi : ℝ) (c : Comp) (acc : Option (Pose ℝ)) (hacc : UnitAcc acc) :
    compileFrame pi acc (worldFrame c) = .ok (match acc with | none => (⟨0, 0, 0⟩, ⟨1, 0, 0, 0⟩) | some p => p) := by
  have h1 : nsq (⟨1, 0, 0, 0⟩ : Q ℝ) = 1 := by simp [nsq]
  cases acc with
  | none =>
    simp only [compileFrame, worldFrame, resolveOrientation, qunit_eq, v3zero_eq, normvec4_unit _ h1]
  | some p =>
    have hp := hacc p rfl
    simp only [compileFrame, worldFrame, resolveOrientation, qunit_eq, v3zero_eq, frameaccumChild,
      (frameaccum_identity p.1 p.2 hp).2, normvec4_unit _ hp]

/-- a frame nested in the null pose compiles as at top level -/
theorem compileFrame_in_null (pi : ℝ) (f : Placed ℝ) (hf : UnitFrame pi f) :
    compileFrame pi (some (⟨0, 0, 0⟩, ⟨1, 0, 0, 0⟩)) f = compileFrame pi none f := by
  unfold compileFrame
  cases hr : resolveOrientation pi f.quat f.comp.degree f.comp.seq f.alt with
  | error e => rfl
  | ok q =>
    have hq := hf q hr
    simp only [frameaccumChild, (frameaccum_identity f.pos q hq).1]

/-- a body placed in the null pose compiles as at top level -/
theorem compileBody_in_null (pi : ℝ) (b : Placed ℝ) (hb : UnitBody pi b) :
    compileBody pi (some (⟨0, 0, 0⟩, ⟨1, 0, 0, 0⟩)) b = compileBody pi none b := by
  unfold compileBody
  cases hr : resolveOrientation pi (normvec4 b.quat).1 b.comp.degree b.comp.seq b.alt with
  | error e => rfl
  | ok q =>
    have hq := hb q hr
    simp only [frameaccumChild, (frameaccum_identity b.pos q hq).1]

/-- the world frame of an attached model is neutral: what is nested in it compiles as if it were nested directly in the
    surrounding pose -/
theorem worldFrame_neutral (pi : ℝ) (c : Comp) (acc : Option (Pose ℝ)) (hacc : UnitAcc acc) (inner : List (Placed ℝ))
    (hin : ∀ f ∈ inner, UnitFrame pi f) (b : Placed ℝ) (hb : UnitBody pi b) :
    andThen (compileChain pi acc (worldFrame c :: inner)) (fun fr => compileBody pi fr b) =
    andThen (compileChain pi acc inner) (fun fr => compileBody pi fr b) := by
  rw [compileChain_cons, compileFrame_worldFrame pi c acc hacc]
  simp only [andThen]
  cases acc with
  | some p => rfl
  | none =>
    cases inner with
    | nil => simp only [compileChain]; exact compileBody_in_null pi b hb
    | cons f fs =>
      simp only [compileChain, compileFrame_in_null pi f (hin f (List.mem_cons_self))]

/-- the same inside any chain of frames with unit orientations -/
theorem placeBody_worldFrame (pi : ℝ) (c : Comp) (pre inner : List (Placed ℝ)) (b : Placed ℝ)
    (hpre : ∀ f ∈ pre, UnitFrame pi f) (hin : ∀ f ∈ inner, UnitFrame pi f) (hb : UnitBody pi b) :
    placeBody pi (pre ++ worldFrame c :: inner) b = placeBody pi (pre ++ inner) b := by
  simp only [placeBody_eq, compileChain_append]
  cases hc : compileChain pi none pre with
  | error e => rfl
  | ok acc =>
    have hacc : UnitAcc acc := compileChain_unit pi pre hpre none (fun p hp => by cases hp) acc hc
    simp only [andThen]
    exact worldFrame_neutral pi c acc hacc inner hin b hb

end MjProof.Attach
