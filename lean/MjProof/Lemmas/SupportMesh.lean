import MjProof.Lemmas.SupportCert
/-
C15 helper lemmas, part 4: the exhaustive mesh support (`mjc_meshSupport`) returns a vertex that maximises
`⟨matᵀ d, ·⟩` over the vertices, hence `⟨d, ·⟩` over every convex combination of the (posed) vertices.
-/
set_option linter.unusedVariables false
set_option linter.unusedSimpArgs false
namespace MjProof.SupportLemmas
open MjProof MjProof.Support

theorem meshScan_spec (ld : V3 ℝ) : ∀ (vs : List (V3 ℝ)) (i : Nat) (acc : ℝ × Nat),
    acc.1 ≤ (meshScan ld vs i acc).1 ∧ (∀ v ∈ vs, V3.dot ld v ≤ (meshScan ld vs i acc).1) ∧
    (meshScan ld vs i acc = acc ∨ ∃ j v, vs[j]? = some v ∧ meshScan ld vs i acc = (V3.dot ld v, i + j)) := by
  intro vs
  induction vs with
  | nil => intro i acc; simp [meshScan]
  | cons v vs ih =>
    intro i acc
    simp only [meshScan]
    by_cases hlt : acc.1 < V3.dot ld v
    · have hlt' : @LT.lt ℝ (MjNum.toLT) acc.1 (V3.dot ld v) := hlt
      simp only [hlt', if_true]
      obtain ⟨h1, h2, h3⟩ := ih (i + 1) (V3.dot ld v, i)
      refine ⟨le_trans hlt.le h1, ?_, ?_⟩
      · intro u hu
        rcases List.mem_cons.1 hu with rfl | hu
        · exact h1
        · exact h2 u hu
      · right
        rcases h3 with h3 | ⟨j, u, hj, hr⟩
        · exact ⟨0, v, by simp, by rw [h3]; simp⟩
        · exact ⟨j + 1, u, by simpa using hj, by rw [hr]; congr 1; omega⟩
    · have hlt' : ¬ @LT.lt ℝ (MjNum.toLT) acc.1 (V3.dot ld v) := hlt
      simp only [hlt', if_false]
      obtain ⟨h1, h2, h3⟩ := ih (i + 1) acc
      refine ⟨h1, ?_, ?_⟩
      · intro u hu
        rcases List.mem_cons.1 hu with rfl | hu
        · exact le_trans (not_lt.1 hlt) h1
        · exact h2 u hu
      · rcases h3 with h3 | ⟨j, u, hj, hr⟩
        · left; exact h3
        · right; exact ⟨j + 1, u, by simpa using hj, by rw [hr]; congr 1; omega⟩

/-- `mjc_meshSupport` returns a vertex with maximal `⟨matᵀ d, ·⟩` -/
theorem meshSupport_spec (verts : List (V3 ℝ)) (mat : M3 ℝ) (pos : V3 ℝ) (cached : Option Nat) (d s : V3 ℝ) (i : Nat)
    (h : meshSupport verts mat pos cached d = some (s, i))
    (hinit : cached = none → ∃ v ∈ verts, -fltMax < V3.dot (mulMatTVec3 mat d) v) :
    ∃ v, verts[i]? = some v ∧ s = localToGlobal mat v pos ∧
      ∀ u ∈ verts, V3.dot (mulMatTVec3 mat d) u ≤ V3.dot (mulMatTVec3 mat d) v := by
  unfold meshSupport at h
  cases cached with
  | none =>
    simp only [Option.bind_some] at h
    obtain ⟨h1, h2, h3⟩ := meshScan_spec (mulMatTVec3 mat d) verts 0 (-(fltMax : ℝ), 0)
    rcases h3 with h3 | ⟨j, v, hj, hr⟩
    · exfalso
      obtain ⟨v, hv, hlt⟩ := hinit rfl
      have := h2 v hv
      rw [h3] at this
      have e : (-(fltMax : ℝ), (0 : Nat)).1 = -(fltMax : ℝ) := rfl
      rw [e] at this
      have e2 : (@Neg.neg ℝ (MjNum.toNeg) (fltMax : ℝ)) = -(fltMax : ℝ) := rfl
      rw [e2] at this
      linarith
    · rw [hr] at h h2
      simp only [Nat.zero_add, hj, Option.map_some, Option.some.injEq, Prod.mk.injEq] at h
      exact ⟨v, h.2 ▸ hj, h.1.symm, h2⟩
  | some c =>
    simp only at h
    cases hc : verts[c]? with
    | none => simp [hc] at h
    | some vc =>
      simp only [hc, Option.map_some, Option.bind_some] at h
      obtain ⟨h1, h2, h3⟩ := meshScan_spec (mulMatTVec3 mat d) verts 0 (V3.dot (mulMatTVec3 mat d) vc, c)
      rcases h3 with h3 | ⟨j, v, hj, hr⟩
      · rw [h3] at h h2
        simp only [hc, Option.map_some, Option.some.injEq, Prod.mk.injEq] at h
        exact ⟨vc, h.2 ▸ hc, h.1.symm, h2⟩
      · rw [hr] at h h2
        simp only [Nat.zero_add, hj, Option.map_some, Option.some.injEq, Prod.mk.injEq] at h
        exact ⟨v, h.2 ▸ hj, h.1.symm, h2⟩

/-- weighted sum `Σ wᵢ vᵢ` -/
noncomputable def combo : List (ℝ × V3 ℝ) → V3 ℝ
  | [] => ⟨0, 0, 0⟩
  | p :: r => V3.add (V3.scale p.1 p.2) (combo r)

/-- `Σ wᵢ` -/
noncomputable def wsum : List (ℝ × V3 ℝ) → ℝ
  | [] => 0
  | p :: r => p.1 + wsum r

theorem dot_combo_le (ld : V3 ℝ) (M : ℝ) : ∀ ws : List (ℝ × V3 ℝ),
    (∀ p ∈ ws, 0 ≤ p.1 ∧ V3.dot ld p.2 ≤ M) → V3.dot ld (combo ws) ≤ wsum ws * M := by
  intro ws
  induction ws with
  | nil => intro _; simp [combo, wsum, dot_real]
  | cons p r ih =>
    intro h
    have hp := h p (by simp)
    have hr := ih (fun q hq => h q (by simp [hq]))
    simp only [combo, wsum]
    rw [dot_add_right, dot_scale_right]
    nlinarith [mul_le_mul_of_nonneg_left hp.2 hp.1]

end MjProof.SupportLemmas
