import MjProof.Lemmas.Orient
import Mathlib.Analysis.SpecialFunctions.Trigonometric.Arctan
import Mathlib.Analysis.SpecialFunctions.Trigonometric.ArctanDeriv
/-
Helper lemmas over ℝ for C36: elementary rotations, the Euler loop, normalisation in its two exact regimes,
`mjuu_frame2quat` as the inverse of the rotation matrix on unit quaternions, `atan2` of a point on the unit circle.
-/
set_option linter.unusedTactic false
set_option linter.unreachableTactic false
set_option linter.unusedSimpArgs false
set_option linter.unusedVariables false
namespace MjProof.Orient
open MjProof MjProof.Gen

/-! ### elementary rotations -/

/-- rotation by `θ` about a coordinate axis (row-major) -/
noncomputable def elemRot : EAxis → ℝ → M9 ℝ
  | .x, θ => ⟨1, 0, 0, 0, Real.cos θ, -Real.sin θ, 0, Real.sin θ, Real.cos θ⟩
  | .y, θ => ⟨Real.cos θ, 0, Real.sin θ, 0, 1, 0, -Real.sin θ, 0, Real.cos θ⟩
  | .z, θ => ⟨Real.cos θ, -Real.sin θ, 0, Real.sin θ, Real.cos θ, 0, 0, 0, 1⟩

def matOne : M9 ℝ := ⟨1, 0, 0, 0, 1, 0, 0, 0, 1⟩

theorem cos_half_sq_sub (θ : ℝ) : Real.cos (θ / 2) * Real.cos (θ / 2) - Real.sin (θ / 2) * Real.sin (θ / 2) = Real.cos θ := by
  have h := Real.cos_two_mul (θ / 2)
  have h2 := Real.sin_sq_add_cos_sq (θ / 2)
  have e : 2 * (θ / 2) = θ := by ring
  rw [e] at h
  nlinarith

theorem two_sin_cos_half (θ : ℝ) : 2 * (Real.sin (θ / 2) * Real.cos (θ / 2)) = Real.sin θ := by
  have h := Real.sin_two_mul (θ / 2)
  have e : 2 * (θ / 2) = θ := by ring
  rw [e] at h
  linarith

theorem cos_half_sq_add (θ : ℝ) : Real.cos (θ / 2) * Real.cos (θ / 2) + Real.sin (θ / 2) * Real.sin (θ / 2) = 1 := by
  have h2 := Real.sin_sq_add_cos_sq (θ / 2)
  nlinarith

theorem eulerRot_eq (ax : EAxis) (e : ℝ) :
    eulerRot ax e = match ax with
      | .x => ⟨Real.cos (e / 2), Real.sin (e / 2), 0, 0⟩
      | .y => ⟨Real.cos (e / 2), 0, Real.sin (e / 2), 0⟩
      | .z => ⟨Real.cos (e / 2), 0, 0, Real.sin (e / 2)⟩ := by
  cases ax <;> simp [eulerRot, L, real_ofInt]

theorem nsq_eulerRot (ax : EAxis) (e : ℝ) : nsq (eulerRot ax e) = 1 := by
  have h := cos_half_sq_add e
  rw [eulerRot_eq]
  cases ax <;> simp only [nsq] <;> linarith

/-- the quaternion of one Euler step denotes the elementary rotation about its axis -/
theorem matF_eulerRot (ax : EAxis) (e : ℝ) : matF (eulerRot ax e) = elemRot ax e := by
  have h1 := cos_half_sq_sub e
  have h2 := two_sin_cos_half e
  have h3 := cos_half_sq_add e
  rw [eulerRot_eq]
  cases ax <;> simp only [matF, elemRot, M9.mk.injEq] <;>
    refine ⟨?_, ?_, ?_, ?_, ?_, ?_, ?_, ?_, ?_⟩ <;> nlinarith

theorem matF_qunit : matF (qunit : Q ℝ) = matOne := by
  simp only [matF, qunit, matOne, L, real_ofInt, M9.mk.injEq]
  push_cast
  refine ⟨?_, ?_, ?_, ?_, ?_, ?_, ?_, ?_, ?_⟩ <;> ring

theorem nsq_qunit : nsq (qunit : Q ℝ) = 1 := by
  simp only [nsq, qunit, L, real_ofInt]; push_cast; ring

/-! ### normalisation regimes -/

/-- `v / ‖v‖` -/
noncomputable def unitize (v : V3 ℝ) : V3 ℝ :=
  ⟨v.x / Real.sqrt (nsq3 v), v.y / Real.sqrt (nsq3 v), v.z / Real.sqrt (nsq3 v)⟩

/-- the inputs on which `mjuu_normvec(v, 3)` produces an exactly unit vector: already unit, or clearly
    non-unit (`|‖v‖ − 1| > mjEPS`) and not tiny (`‖v‖² ≥ mjEPS`).  In the remaining band `|‖v‖ − 1| ≤ 1e-14`
    the C code deliberately leaves the vector as it is. -/
def Normalisable (v : V3 ℝ) : Prop :=
  nsq3 v = 1 ∨ (mjEPS ≤ nsq3 v ∧ mjEPS < |Real.sqrt (nsq3 v) - 1|)

theorem normvec3_normalisable (v : V3 ℝ) (h : Normalisable v) :
    normvec3 v = (unitize v, Real.sqrt (nsq3 v)) := by
  rcases h with h | ⟨h1, h2⟩
  · rw [normvec3_unit v h]
    simp only [unitize, h, Real.sqrt_one, div_one]
  · have hn : ((L 0 + v.x * v.x) + v.y * v.y) + v.z * v.z = nsq3 v := by
      simp only [L, real_ofInt, nsq3]; push_cast; ring
    have hl : (L 1 : ℝ) = 1 := by simp only [L, real_ofInt]; push_cast; rfl
    simp only [normvec3, hn, real_sqrt, real_abs, hl]
    rw [if_neg (not_lt.mpr h1), if_pos h2]
    rfl

theorem nsq3_pos_of_normalisable (v : V3 ℝ) (h : Normalisable v) : 0 < nsq3 v := by
  rcases h with h | ⟨h1, _⟩
  · rw [h]; norm_num
  · exact lt_of_lt_of_le mjEPS_pos h1

theorem nsq3_unitize (v : V3 ℝ) (h : 0 < nsq3 v) : nsq3 (unitize v) = 1 := by
  have hs : Real.sqrt (nsq3 v) ≠ 0 := (Real.sqrt_pos.mpr h).ne'
  have hsq : Real.sqrt (nsq3 v) * Real.sqrt (nsq3 v) = nsq3 v := Real.mul_self_sqrt h.le
  simp only [unitize]
  show v.x / Real.sqrt (nsq3 v) * (v.x / Real.sqrt (nsq3 v)) + v.y / Real.sqrt (nsq3 v) * (v.y / Real.sqrt (nsq3 v)) +
    v.z / Real.sqrt (nsq3 v) * (v.z / Real.sqrt (nsq3 v)) = 1
  have e : v.x / Real.sqrt (nsq3 v) * (v.x / Real.sqrt (nsq3 v)) + v.y / Real.sqrt (nsq3 v) * (v.y / Real.sqrt (nsq3 v)) +
    v.z / Real.sqrt (nsq3 v) * (v.z / Real.sqrt (nsq3 v)) = (v.x * v.x + v.y * v.y + v.z * v.z) / (Real.sqrt (nsq3 v) * Real.sqrt (nsq3 v)) := by
    field_simp
  rw [e, hsq]
  exact div_self (ne_of_gt h)

/-- the norm returned for a normalisable vector is at least `1e-7 > mjEPS`: no "too small" error -/
theorem sqrt_not_lt_eps (v : V3 ℝ) (h : Normalisable v) : ¬ (Real.sqrt (nsq3 v) < mjEPS) := by
  rcases h with h | ⟨h1, _⟩
  · rw [h, Real.sqrt_one]; exact not_lt.mpr (le_of_lt mjEPS_lt_one)
  · intro hlt
    have hpos := mjEPS_pos
    have h0 : 0 ≤ Real.sqrt (nsq3 v) := Real.sqrt_nonneg _
    have hsq : Real.sqrt (nsq3 v) * Real.sqrt (nsq3 v) = nsq3 v :=
      Real.mul_self_sqrt (le_trans hpos.le h1)
    have : nsq3 v < mjEPS * mjEPS := by rw [← hsq]; exact mul_lt_mul'' hlt hlt h0 h0
    have h3 : (mjEPS : ℝ) * mjEPS < mjEPS := by
      have := mjEPS_lt_one
      nlinarith
    linarith

/-! ### `atan2` of a point of the upper unit half-circle -/

theorem cos_realAtan2 (s c : ℝ) (hs : 0 ≤ s) (h : s * s + c * c = 1) : Real.cos (realAtan2 s c) = c := by
  unfold realAtan2
  have key : ∀ c : ℝ, 0 < c → s * s + c * c = 1 → Real.cos (Real.arctan (s / c)) = c := by
    intro c hc h
    rw [Real.cos_arctan]
    have e : 1 + (s / c) ^ 2 = 1 / (c * c) := by field_simp; linarith
    rw [e, Real.sqrt_div (by norm_num), Real.sqrt_one, Real.sqrt_mul_self hc.le]
    field_simp
  by_cases hc : 0 < c
  · rw [if_pos hc]; exact key c hc h
  · rw [if_neg hc]
    by_cases hc2 : c < 0
    · rw [if_pos hc2, if_pos hs, Real.cos_add_pi]
      have e : s / c = -(s / (-c)) := by rw [div_neg, neg_neg]
      rw [e, Real.arctan_neg, Real.cos_neg, key (-c) (by linarith) (by nlinarith)]
      ring
    · rw [if_neg hc2]
      have hc0 : c = 0 := le_antisymm (not_lt.mp hc) (not_lt.mp hc2)
      subst hc0
      have hs1 : s = 1 := by nlinarith
      subst hs1
      rw [if_pos (by norm_num : (0 : ℝ) < 1), Real.cos_pi_div_two]

theorem sin_realAtan2 (s c : ℝ) (hs : 0 ≤ s) (h : s * s + c * c = 1) : Real.sin (realAtan2 s c) = s := by
  unfold realAtan2
  have key : ∀ c : ℝ, 0 < c → s * s + c * c = 1 → Real.sin (Real.arctan (s / c)) = s := by
    intro c hc h
    rw [Real.sin_arctan]
    have e : 1 + (s / c) ^ 2 = 1 / (c * c) := by field_simp; linarith
    rw [e, Real.sqrt_div (by norm_num), Real.sqrt_one, Real.sqrt_mul_self hc.le]
    field_simp
  by_cases hc : 0 < c
  · rw [if_pos hc]; exact key c hc h
  · rw [if_neg hc]
    by_cases hc2 : c < 0
    · rw [if_pos hc2, if_pos hs, Real.sin_add_pi]
      have e : s / c = -(s / (-c)) := by rw [div_neg, neg_neg]
      rw [e, Real.arctan_neg, Real.sin_neg, key (-c) (by linarith) (by nlinarith)]
      ring
    · rw [if_neg hc2]
      have hc0 : c = 0 := le_antisymm (not_lt.mp hc) (not_lt.mp hc2)
      subst hc0
      have hs1 : s = 1 := by nlinarith
      subst hs1
      rw [if_pos (by norm_num : (0 : ℝ) < 1), Real.sin_pi_div_two]

/-! ### `mjuu_frame2quat` inverts the rotation matrix -/

theorem pivot_pos (x E : ℝ) (hE : E = (2*x)^2) (hx : 0 < x) : 1/2 * Real.sqrt E = x := by
  rw [hE, Real.sqrt_sq (by linarith)]; ring
theorem pivot_neg (x E : ℝ) (hE : E = (2*x)^2) (hx : x < 0) : 1/2 * Real.sqrt E = -x := by
  have : (2*x)^2 = (2*(-x))^2 := by ring
  rw [hE, this, Real.sqrt_sq (by linarith)]; ring

def qneg (q : Q ℝ) : Q ℝ := ⟨-q.w, -q.x, -q.y, -q.z⟩

theorem nsq_qneg (q : Q ℝ) : nsq (qneg q) = nsq q := by simp only [nsq, qneg]; ring

theorem matF_qneg (q : Q ℝ) : matF (qneg q) = matF q := by
  simp only [matF, qneg, M9.mk.injEq]; comp_ring

/-- columns of a row-major matrix -/
def col0 (m : M9 ℝ) : V3 ℝ := ⟨m.m0, m.m3, m.m6⟩
def col1 (m : M9 ℝ) : V3 ℝ := ⟨m.m1, m.m4, m.m7⟩
def col2 (m : M9 ℝ) : V3 ℝ := ⟨m.m2, m.m5, m.m8⟩

/-- `mjuu_frame2quat` applied to the columns of the rotation matrix of a unit quaternion returns that quaternion
    up to sign: in each of the four branches the selected component is non-zero, the square root recovers its
    absolute value, the divisions recover the other components with the sign of the selected one and the final
    `mjuu_normvec` sees a unit quaternion. -/
theorem frame2quat_matF (p : Q ℝ) (hp : nsq p = 1) :
    frame2quat (col0 (matF p)) (col1 (matF p)) (col2 (matF p)) = p ∨
    frame2quat (col0 (matF p)) (col1 (matF p)) (col2 (matF p)) = qneg p := by
  obtain ⟨q0, q1, q2, q3⟩ := p
  have h : q0*q0 + q1*q1 + q2*q2 + q3*q3 = 1 := by simpa only [nsq] using hp
  have hnn : nsq (qneg ⟨q0, q1, q2, q3⟩) = 1 := by rw [nsq_qneg]; exact hp
  simp only [frame2quat, col0, col1, col2, matF, qneg, real_ofInt, real_sqrt, ofSci_half, ofSci_quarter, L]
  push_cast
  split_ifs with h1 h2 h3
  · have hx : q0 ≠ 0 := by
      rintro rfl
      nlinarith [mul_self_nonneg q1, mul_self_nonneg q2, mul_self_nonneg q3]
    rcases lt_or_gt_of_ne hx with hneg | hpos
    · right
      rw [pivot_neg q0 _ (by linear_combination (-1 : ℝ) * h) hneg]
      have e1 : 1 / 4 * (2 * (q2 * q3 + q0 * q1) - 2 * (q2 * q3 - q0 * q1)) / (-q0) = -q1 := by
        field_simp; ring
      have e2 : 1 / 4 * (2 * (q1 * q3 + q0 * q2) - 2 * (q1 * q3 - q0 * q2)) / (-q0) = -q2 := by
        field_simp; ring
      have e3 : 1 / 4 * (2 * (q1 * q2 + q0 * q3) - 2 * (q1 * q2 - q0 * q3)) / (-q0) = -q3 := by
        field_simp; ring
      rw [e1, e2, e3]
      have := normvec4_unit _ hnn
      simp only [qneg] at this
      rw [this]
    · left
      rw [pivot_pos q0 _ (by linear_combination (-1 : ℝ) * h) hpos]
      have e1 : 1 / 4 * (2 * (q2 * q3 + q0 * q1) - 2 * (q2 * q3 - q0 * q1)) / q0 = q1 := by
        field_simp; ring
      have e2 : 1 / 4 * (2 * (q1 * q3 + q0 * q2) - 2 * (q1 * q3 - q0 * q2)) / q0 = q2 := by
        field_simp; ring
      have e3 : 1 / 4 * (2 * (q1 * q2 + q0 * q3) - 2 * (q1 * q2 - q0 * q3)) / q0 = q3 := by
        field_simp; ring
      rw [e1, e2, e3, normvec4_unit _ hp]
  · have hx : q1 ≠ 0 := by
      rintro rfl
      nlinarith [mul_self_nonneg q2, h2.1]
    rcases lt_or_gt_of_ne hx with hneg | hpos
    · right
      rw [pivot_neg q1 _ (by linear_combination (-1 : ℝ) * h) hneg]
      have e0 : 1 / 4 * (2 * (q2 * q3 + q0 * q1) - 2 * (q2 * q3 - q0 * q1)) / (-q1) = -q0 := by
        field_simp; ring
      have e1 : 1 / 4 * (2 * (q1 * q2 - q0 * q3) + 2 * (q1 * q2 + q0 * q3)) / (-q1) = -q2 := by
        field_simp; ring
      have e2 : 1 / 4 * (2 * (q1 * q3 + q0 * q2) + 2 * (q1 * q3 - q0 * q2)) / (-q1) = -q3 := by
        field_simp; ring
      rw [e0, e1, e2]
      have := normvec4_unit _ hnn
      simp only [qneg] at this
      rw [this]
    · left
      rw [pivot_pos q1 _ (by linear_combination (-1 : ℝ) * h) hpos]
      have e0 : 1 / 4 * (2 * (q2 * q3 + q0 * q1) - 2 * (q2 * q3 - q0 * q1)) / q1 = q0 := by
        field_simp; ring
      have e1 : 1 / 4 * (2 * (q1 * q2 - q0 * q3) + 2 * (q1 * q2 + q0 * q3)) / q1 = q2 := by
        field_simp; ring
      have e2 : 1 / 4 * (2 * (q1 * q3 + q0 * q2) + 2 * (q1 * q3 - q0 * q2)) / q1 = q3 := by
        field_simp; ring
      rw [e0, e1, e2, normvec4_unit _ hp]
  · have hx : q2 ≠ 0 := by
      rintro rfl
      nlinarith [mul_self_nonneg q3, h3]
    rcases lt_or_gt_of_ne hx with hneg | hpos
    · right
      rw [pivot_neg q2 _ (by linear_combination (-1 : ℝ) * h) hneg]
      have e0 : 1 / 4 * (2 * (q1 * q3 + q0 * q2) - 2 * (q1 * q3 - q0 * q2)) / (-q2) = -q0 := by
        field_simp; ring
      have e1 : 1 / 4 * (2 * (q1 * q2 - q0 * q3) + 2 * (q1 * q2 + q0 * q3)) / (-q2) = -q1 := by
        field_simp; ring
      have e2 : 1 / 4 * (2 * (q2 * q3 - q0 * q1) + 2 * (q2 * q3 + q0 * q1)) / (-q2) = -q3 := by
        field_simp; ring
      rw [e0, e1, e2]
      have := normvec4_unit _ hnn
      simp only [qneg] at this
      rw [this]
    · left
      rw [pivot_pos q2 _ (by linear_combination (-1 : ℝ) * h) hpos]
      have e0 : 1 / 4 * (2 * (q1 * q3 + q0 * q2) - 2 * (q1 * q3 - q0 * q2)) / q2 = q0 := by
        field_simp; ring
      have e1 : 1 / 4 * (2 * (q1 * q2 - q0 * q3) + 2 * (q1 * q2 + q0 * q3)) / q2 = q1 := by
        field_simp; ring
      have e2 : 1 / 4 * (2 * (q2 * q3 - q0 * q1) + 2 * (q2 * q3 + q0 * q1)) / q2 = q3 := by
        field_simp; ring
      rw [e0, e1, e2, normvec4_unit _ hp]
  · have hx : q3 ≠ 0 := by
      rintro rfl
      push_neg at h1 h2 h3
      by_cases hc : q0 * q0 - q1 * q1 + q2 * q2 - 0 * 0 < q0 * q0 + q1 * q1 - q2 * q2 - 0 * 0
      · have := h2 hc
        nlinarith [mul_self_nonneg q0, mul_self_nonneg q1, mul_self_nonneg q2]
      · push_neg at hc
        nlinarith [mul_self_nonneg q0, mul_self_nonneg q1, mul_self_nonneg q2]
    rcases lt_or_gt_of_ne hx with hneg | hpos
    · right
      rw [pivot_neg q3 _ (by linear_combination (-1 : ℝ) * h) hneg]
      have e0 : 1 / 4 * (2 * (q1 * q2 + q0 * q3) - 2 * (q1 * q2 - q0 * q3)) / (-q3) = -q0 := by
        field_simp; ring
      have e1 : 1 / 4 * (2 * (q1 * q3 + q0 * q2) + 2 * (q1 * q3 - q0 * q2)) / (-q3) = -q1 := by
        field_simp; ring
      have e2 : 1 / 4 * (2 * (q2 * q3 - q0 * q1) + 2 * (q2 * q3 + q0 * q1)) / (-q3) = -q2 := by
        field_simp; ring
      rw [e0, e1, e2]
      have := normvec4_unit _ hnn
      simp only [qneg] at this
      rw [this]
    · left
      rw [pivot_pos q3 _ (by linear_combination (-1 : ℝ) * h) hpos]
      have e0 : 1 / 4 * (2 * (q1 * q2 + q0 * q3) - 2 * (q1 * q2 - q0 * q3)) / q3 = q0 := by
        field_simp; ring
      have e1 : 1 / 4 * (2 * (q1 * q3 + q0 * q2) + 2 * (q1 * q3 - q0 * q2)) / q3 = q1 := by
        field_simp; ring
      have e2 : 1 / 4 * (2 * (q2 * q3 - q0 * q1) + 2 * (q2 * q3 + q0 * q1)) / q3 = q2 := by
        field_simp; ring
      rw [e0, e1, e2, normvec4_unit _ hp]

end MjProof.Orient
