import MjProof.Model.SpecCopy
/-
Helper lemmas about `Model/SpecCopy.lean` (the element-survival model of the deep copy of an mjSpec).
-/
set_option linter.unusedVariables false
set_option linter.unusedSimpArgs false
namespace MjProof.SpecCopy

/-- the keys of the source list of kind `k` -/
def keysOf (src : List Elem) (k : Nat) : List Key := (ofKind src k).map Elem.key

/-- destination after the tree and all lists of `done` were copied without loss -/
def full (tree : List Nat) (src : List Elem) (done : List Nat) : List Key :=
  treeKeys tree src ++ done.flatMap (keysOf src)

theorem copyElem_keep (d : List Key) (e : Elem) (h : ∀ r ∈ e.refs, r ∈ d) : copyElem d e = d ++ [e.key] := by
  unfold copyElem
  have : e.refs.all (fun r => d.contains r) = true := by
    rw [List.all_eq_true]
    intro r hr
    simpa using h r hr
  rw [if_pos this]

theorem copyElem_drop (d : List Key) (e : Elem) (r : Key) (hr : r ∈ e.refs) (hn : r ∉ d) : copyElem d e = d := by
  unfold copyElem
  have : e.refs.all (fun r => d.contains r) = false := by
    rw [List.all_eq_false]
    exact ⟨r, hr, by simpa using hn⟩
  rw [this]
  simp

/-- a list whose elements only refer to the destination or to earlier elements of the same list is copied whole -/
theorem foldl_copyElem_all (l : List Elem) : ∀ (d : List Key),
    (∀ pre e post, l = pre ++ e :: post → ∀ r ∈ e.refs, r ∈ d ∨ r ∈ pre.map Elem.key) →
    l.foldl copyElem d = d ++ l.map Elem.key := by
  induction l with
  | nil => intro d _; simp
  | cons e l ih =>
    intro d h
    have he : copyElem d e = d ++ [e.key] := by
      apply copyElem_keep
      intro r hr
      rcases h [] e l rfl r hr with h1 | h1
      · exact h1
      · simp at h1
    rw [List.foldl_cons, he, ih]
    · simp
    · intro pre e' post hl r hr
      have := h (e :: pre) e' post (by simp [hl]) r hr
      rcases this with h1 | h1
      · exact Or.inl (by simp [h1])
      · simp only [List.map_cons, List.mem_cons] at h1
        rcases h1 with h1 | h1
        · exact Or.inl (by simp [h1])
        · exact Or.inr h1

theorem mem_takeWhile_prefix (k b : Nat) (rest : List Nat) : ∀ (done : List Nat),
    b ∈ (done ++ k :: rest).takeWhile (fun x => x != k) → b ∈ done := by
  intro done
  induction done with
  | nil => intro h; simp [List.takeWhile] at h
  | cons x xs ih =>
    intro h
    simp only [List.cons_append, List.takeWhile_cons] at h
    by_cases hx : (x != k) = true
    · rw [if_pos hx] at h
      rcases List.mem_cons.mp h with h | h
      · simp [h]
      · exact List.mem_cons_of_mem _ (ih h)
    · rw [if_neg hx] at h
      simp at h

theorem mem_full_of_tree {tree : List Nat} {src : List Elem} {done : List Nat} {e : Elem}
    (he : e ∈ src) (hk : e.kind ∈ tree) : e.key ∈ full tree src done := by
  unfold full treeKeys
  apply List.mem_append_left
  apply List.mem_map.mpr
  exact ⟨e, List.mem_filter.mpr ⟨he, by simpa using hk⟩, rfl⟩

theorem mem_full_of_done {tree : List Nat} {src : List Elem} {done : List Nat} {e : Elem}
    (he : e ∈ src) (hk : e.kind ∈ done) : e.key ∈ full tree src done := by
  unfold full
  apply List.mem_append_right
  apply List.mem_flatMap.mpr
  refine ⟨e.kind, hk, ?_⟩
  unfold keysOf ofKind
  apply List.mem_map.mpr
  exact ⟨e, List.mem_filter.mpr ⟨he, by simp⟩, rfl⟩

theorem full_snoc (tree : List Nat) (src : List Elem) (done : List Nat) (k : Nat) :
    full tree src (done ++ [k]) = full tree src done ++ keysOf src k := by
  unfold full
  simp [List.flatMap_append, List.append_assoc]

theorem mem_ofKind {src : List Elem} {k : Nat} {e : Elem} : e ∈ ofKind src k ↔ e ∈ src ∧ e.kind = k := by
  unfold ofKind
  simp [List.mem_filter]

end MjProof.SpecCopy
