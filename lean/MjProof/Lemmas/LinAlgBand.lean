import MjProof.Lemmas.LinAlg
/-
C23: the band-dense index maps (`mju_dense2Band`, `mju_band2Dense`) and the mirror loop, over ℝ.
-/
namespace MjProof.LinAlg
open MjNum Finset
theorem vget_copyInto {nd ns : Nat} (dst : Vector ℝ nd) (doff : Nat) (src : Vector ℝ ns) (soff len : Nat)
    (hd : doff + len ≤ nd) (hs : soff + len ≤ ns) (a : Nat) :
    vget (copyInto dst doff src soff len hd hs) a =
      if doff ≤ a ∧ a < doff + len then vget src (soff + (a - doff)) else vget dst a := by
  unfold copyInto
  have key := fold_inv (n := len) (s := dst)
    (body := fun t ht (d : Vector ℝ nd) => d.set (doff + t) (src[soff + t]'(by omega)) (by omega))
    (fun m d => ∀ a, vget d a = if doff ≤ a ∧ a < doff + m then vget src (soff + (a - doff)) else vget dst a)
    (by intro a; rw [if_neg (by omega)])
    (by
      intro t ht d Q a
      rw [vget_set, Q a]
      by_cases e : a = doff + t
      · subst e
        rw [if_pos rfl, if_pos (by omega), getElem_eq_vget]
        congr 1; omega
      · rw [if_neg e]
        by_cases h : doff ≤ a ∧ a < doff + t
        · rw [if_pos h, if_pos (by omega)]
        · rw [if_neg h, if_neg (by omega)])
  exact key a

theorem mget_eq_vget_flat {nr nc : Nat} (m : Vector ℝ (nr * nc)) (i j : Nat) (hi : i < nr) (hj : j < nc) :
    mget m i j = vget m (i * nc + j) := by
  unfold mget vget at2
  simp [hi, hj, idx_lt hi hj]

/-- comparison of flat indices -/
theorem flat_lt_iff {nt i j m c : Nat} (hj : j < nt) (hc : c ≤ nt) :
    i * nt + j < m * nt + c ↔ i < m ∨ (i = m ∧ j < c) := by
  constructor
  · intro h
    rcases Nat.lt_trichotomy i m with hlt | rfl | hgt
    · exact Or.inl hlt
    · exact Or.inr ⟨rfl, by omega⟩
    · have : (m + 1) * nt ≤ i * nt := Nat.mul_le_mul_right nt hgt
      rw [Nat.succ_mul] at this
      omega
  · rintro (hlt | ⟨rfl, h⟩)
    · have : (i + 1) * nt ≤ m * nt := Nat.mul_le_mul_right nt hlt
      rw [Nat.succ_mul] at this
      omega
    · omega

theorem flat_le_iff {nt i j m c : Nat} (hj : j < nt) (hc : c < nt) :
    m * nt + c ≤ i * nt + j ↔ m < i ∨ (i = m ∧ c ≤ j) := by
  have := flat_lt_iff (nt := nt) (i := i) (j := j) (m := m) (c := c) hj (le_of_lt hc)
  constructor
  · intro h
    by_contra hn
    push_neg at hn
    have : i < m ∨ (i = m ∧ j < c) := by
      rcases Nat.lt_trichotomy i m with hlt | rfl | hgt
      · exact Or.inl hlt
      · exact Or.inr ⟨rfl, by have := hn.2 rfl; omega⟩
      · exact absurd hgt (by omega)
    have := (flat_lt_iff hj (le_of_lt hc)).mpr this
    omega
  · intro h
    by_contra hn
    have : i * nt + j < m * nt + c := by omega
    rcases (flat_lt_iff hj (le_of_lt hc)).mp this with h1 | ⟨h1, h2⟩ <;> omega


/-- `(i, j)` is representable in the band-dense storage: lower triangle, and within the band unless the row
is one of the trailing dense rows -/
def bandAdm (ntotal nband ndense i j : Nat) : Prop := j ≤ i ∧ (ntotal - ndense ≤ i ∨ i - j < nband)

instance (ntotal nband ndense i j : Nat) : Decidable (bandAdm ntotal nband ndense i j) := by
  unfold bandAdm; infer_instance

/-- address of `(i, j)` in the band-dense storage -/
def bandAddr (ntotal nband ndense i j : Nat) : Nat :=
  if i < ntotal - ndense then (i + 1) * nband - 1 - (i - j)
  else (ntotal - ndense) * nband + (i - (ntotal - ndense)) * ntotal + j

section
variable (ntotal nband ndense : Nat) (hb : 1 ≤ nband) (hd : ndense ≤ ntotal)

theorem dense2Band_spec (buf : Vector ℝ (bandSize ntotal nband ndense)) (A : Vector ℝ (ntotal * ntotal))
    (i j : Nat) (hi : i < ntotal) (hadm : bandAdm ntotal nband ndense i j) :
    vget (dense2Band ntotal nband ndense hb hd buf A) (bandAddr ntotal nband ndense i j) = mget A i j := by
  unfold dense2Band
  -- phase 1: band rows
  have ph1 := fold_inv (n := ntotal - ndense) (s := buf)
    (body := fun i hi (res : Vector ℝ (bandSize ntotal nband ndense)) =>
      copyInto res ((i + 1) * nband - (min i (nband - 1) + 1)) A (i * ntotal + i - min i (nband - 1))
        (min i (nband - 1) + 1)
        (by have := band_row_le (nband := nband) (rest := ndense * ntotal) hi
            have h2 : nband ≤ (i + 1) * nband := Nat.le_mul_of_pos_left _ (Nat.succ_pos i)
            unfold bandSize; omega)
        (by have := idx_lt (nc := ntotal) (j := i) (show i < ntotal by omega) (show i < ntotal by omega)
            omega))
    (fun m res => ∀ i < m, ∀ j, j ≤ i → i - j < nband →
      vget res ((i + 1) * nband - 1 - (i - j)) = mget A i j)
    (by intro i hi; omega)
    (by
      intro m hm res Q i him j hji hband
      rw [vget_copyInto]
      have e1 : (m + 1) * nband = m * nband + nband := Nat.succ_mul m nband
      have e2 : (i + 1) * nband = i * nband + nband := Nat.succ_mul i nband
      rcases Nat.lt_succ_iff_lt_or_eq.mp him with hlt | rfl
      · have : (i + 1) * nband ≤ m * nband := Nat.mul_le_mul_right nband hlt
        rw [if_neg (by omega)]
        exact Q i hlt j hji hband
      · rw [if_pos (by omega), mget_eq_vget_flat A i j (by omega) (by omega)]
        congr 1
        omega)
  -- phase 2: dense rows
  have ph2 := forRange_inv (lo := ntotal - ndense) (hi := ntotal) (by omega)
    (s := Nat.fold (ntotal - ndense) (fun i hi (res : Vector ℝ (bandSize ntotal nband ndense)) =>
      copyInto res ((i + 1) * nband - (min i (nband - 1) + 1)) A (i * ntotal + i - min i (nband - 1))
        (min i (nband - 1) + 1)
        (by have := band_row_le (nband := nband) (rest := ndense * ntotal) hi
            have h2 : nband ≤ (i + 1) * nband := Nat.le_mul_of_pos_left _ (Nat.succ_pos i)
            unfold bandSize; omega)
        (by have := idx_lt (nc := ntotal) (j := i) (show i < ntotal by omega) (show i < ntotal by omega)
            omega)) buf)
    (body := fun i h1 h2 (res : Vector ℝ (bandSize ntotal nband ndense)) =>
      copyInto res ((ntotal - ndense) * nband + (i - (ntotal - ndense)) * ntotal) A (i * ntotal) (i + 1)
        (by have := band_dense_row_le (nband := nband) hd h1 h2; omega)
        (by have := idx_lt (nc := ntotal) h2 h2; omega))
    (fun m res => (∀ i < ntotal - ndense, ∀ j, j ≤ i → i - j < nband →
        vget res ((i + 1) * nband - 1 - (i - j)) = mget A i j) ∧
      (∀ i, ntotal - ndense ≤ i → i < m → ∀ j, j ≤ i →
        vget res ((ntotal - ndense) * nband + (i - (ntotal - ndense)) * ntotal + j) = mget A i j))
    ⟨ph1, by intro i h1 h2; omega⟩
    (by
      intro m hm1 hm2 res ⟨Q1, Q2⟩
      refine ⟨?_, ?_⟩
      · intro i hi j hji hband
        rw [vget_copyInto]
        have e2 : (i + 1) * nband = i * nband + nband := Nat.succ_mul i nband
        have : (i + 1) * nband ≤ (ntotal - ndense) * nband := Nat.mul_le_mul_right nband hi
        rw [if_neg (by omega)]
        exact Q1 i hi j hji hband
      · intro i hi1 hi2 j hji
        rw [vget_copyInto]
        rcases Nat.lt_succ_iff_lt_or_eq.mp hi2 with hlt | rfl
        · have : (i - (ntotal - ndense) + 1) * ntotal ≤ (m - (ntotal - ndense)) * ntotal :=
            Nat.mul_le_mul_right ntotal (by omega)
          rw [Nat.succ_mul] at this
          rw [if_neg (by omega)]
          exact Q2 i hi1 hlt j hji
        · rw [if_pos (by omega), mget_eq_vget_flat A i j (by omega) (by omega)]
          congr 1
          omega)
  obtain ⟨hji, hcase⟩ := hadm
  unfold bandAddr
  by_cases hs : i < ntotal - ndense
  · rw [if_pos hs]
    exact ph2.1 i hs j hji (by omega)
  · rw [if_neg hs]
    exact ph2.2 i (by omega) hi j hji


theorem band2DenseLower_spec (B : Vector ℝ (bandSize ntotal nband ndense)) (i j : Nat) (hi : i < ntotal) (hj : j < ntotal) :
    mget (band2DenseLower ntotal nband ndense hb hd B) i j =
      if bandAdm ntotal nband ndense i j then vget B (bandAddr ntotal nband ndense i j) else 0 := by
  unfold band2DenseLower
  have hz : (lit 0 : ℝ) = 0 := by simp [MjNum.lit]
  simp only [hz]
  have ph1 := fold_inv (n := ntotal - ndense) (s := (Vector.replicate (ntotal * ntotal) (0:ℝ)))
    (body := fun i hi (res : Vector ℝ (ntotal * ntotal)) =>
      copyInto res (i * ntotal + i - min i (nband - 1)) B ((i + 1) * nband - (min i (nband - 1) + 1))
        (min i (nband - 1) + 1)
        (by have := idx_lt (nc := ntotal) (j := i) (show i < ntotal by omega) (show i < ntotal by omega)
            omega)
        (by have := band_row_le (nband := nband) (rest := ndense * ntotal) hi
            have h2 : nband ≤ (i + 1) * nband := Nat.le_mul_of_pos_left _ (Nat.succ_pos i)
            unfold bandSize; omega))
    (fun m res => ∀ i j, i < ntotal → j < ntotal → mget res i j =
      if i < m ∧ j ≤ i ∧ i - j < nband then vget B ((i + 1) * nband - 1 - (i - j)) else 0)
    (by intro i j hi hj; rw [if_neg (by omega)]; exact mget_replicate_zero _ _ _ _)
    (by
      intro m hm res Q i j hi hj
      rw [mget_eq_vget_flat _ i j hi hj, vget_copyInto, ← mget_eq_vget_flat _ i j hi hj, Q i j hi hj]
      have hmn : m < ntotal := by omega
      have hw : min m (nband - 1) ≤ m := Nat.min_le_left _ _
      have e0 : m * ntotal + m - min m (nband - 1) = m * ntotal + (m - min m (nband - 1)) := by omega
      have e1 : m * ntotal + m - min m (nband - 1) + (min m (nband - 1) + 1) = m * ntotal + (m + 1) := by omega
      have c1 := flat_le_iff (nt := ntotal) (i := i) (j := j) (m := m) (c := m - min m (nband - 1)) hj (by omega)
      have c2 := flat_lt_iff (nt := ntotal) (i := i) (j := j) (m := m) (c := m + 1) hj (by omega)
      rw [e1, e0]
      have e3 : (m + 1) * nband = m * nband + nband := Nat.succ_mul m nband
      by_cases hin : m * ntotal + (m - min m (nband - 1)) ≤ i * ntotal + j ∧ i * ntotal + j < m * ntotal + (m + 1)
      · rw [if_pos hin]
        have him : i = m := by
          rcases c1.mp hin.1 with h | h
          · rcases c2.mp hin.2 with h' | h' <;> omega
          · exact h.1
        subst him
        have hj1 : i - min i (nband - 1) ≤ j := by
          rcases c1.mp hin.1 with h | h
          · omega
          · exact h.2
        have hj2 : j < i + 1 := by
          rcases c2.mp hin.2 with h | h
          · omega
          · exact h.2
        rw [if_pos (by omega)]
        congr 1
        omega
      · rw [if_neg hin]
        have hne : ¬ (i = m ∧ j ≤ i ∧ i - j < nband) := by
          rintro ⟨rfl, h1, h2⟩
          apply hin
          exact ⟨c1.mpr (Or.inr ⟨rfl, by omega⟩), c2.mpr (Or.inr ⟨rfl, by omega⟩)⟩
        by_cases hold : i < m ∧ j ≤ i ∧ i - j < nband
        · rw [if_pos hold, if_pos (by omega)]
        · rw [if_neg hold, if_neg (by omega)])
  have ph2 := forRange_inv (lo := ntotal - ndense) (hi := ntotal) (by omega)
    (s := Nat.fold (ntotal - ndense) (fun i hi (res : Vector ℝ (ntotal * ntotal)) =>
      copyInto res (i * ntotal + i - min i (nband - 1)) B ((i + 1) * nband - (min i (nband - 1) + 1))
        (min i (nband - 1) + 1)
        (by have := idx_lt (nc := ntotal) (j := i) (show i < ntotal by omega) (show i < ntotal by omega)
            omega)
        (by have := band_row_le (nband := nband) (rest := ndense * ntotal) hi
            have h2 : nband ≤ (i + 1) * nband := Nat.le_mul_of_pos_left _ (Nat.succ_pos i)
            unfold bandSize; omega)) (Vector.replicate (ntotal * ntotal) (0:ℝ)))
    (body := fun i h1 h2 (res : Vector ℝ (ntotal * ntotal)) =>
      copyInto res (i * ntotal) B ((ntotal - ndense) * nband + (i - (ntotal - ndense)) * ntotal) (i + 1)
        (by have := idx_lt (nc := ntotal) h2 h2; omega)
        (by have := band_dense_row_le (nband := nband) hd h1 h2; omega))
    (fun m res => ∀ i j, i < ntotal → j < ntotal → mget res i j =
      if i < ntotal - ndense then
        (if j ≤ i ∧ i - j < nband then vget B ((i + 1) * nband - 1 - (i - j)) else 0)
      else if i < m ∧ j ≤ i then vget B ((ntotal - ndense) * nband + (i - (ntotal - ndense)) * ntotal + j)
      else 0)
    (by
      intro i j hi hj
      rw [ph1 i j hi hj]
      by_cases hs : i < ntotal - ndense
      · rw [if_pos hs]
        by_cases h : j ≤ i ∧ i - j < nband
        · rw [if_pos h, if_pos ⟨hs, h⟩]
        · rw [if_neg h, if_neg (fun hh => h hh.2)]
      · rw [if_neg hs, if_neg (fun hh => hs hh.1), if_neg (by omega)])
    (by
      intro m hm1 hm2 res Q i j hi hj
      rw [mget_eq_vget_flat _ i j hi hj, vget_copyInto, ← mget_eq_vget_flat _ i j hi hj, Q i j hi hj]
      have c1 := flat_le_iff (nt := ntotal) (i := i) (j := j) (m := m) (c := 0) hj (by omega)
      have c2 := flat_lt_iff (nt := ntotal) (i := i) (j := j) (m := m) (c := m + 1) hj (by omega)
      simp only [Nat.add_zero] at c1
      by_cases hin : m * ntotal ≤ i * ntotal + j ∧ i * ntotal + j < m * ntotal + (m + 1)
      · rw [if_pos hin]
        have him : i = m := by
          rcases c1.mp hin.1 with h | h
          · rcases c2.mp hin.2 with h' | h' <;> omega
          · exact h.1
        subst him
        have hj2 : j < i + 1 := by
          rcases c2.mp hin.2 with h | h
          · omega
          · exact h.2
        rw [if_neg (by omega), if_pos (by omega)]
        congr 1
        omega
      · rw [if_neg hin]
        have hne : ¬ (i = m ∧ j ≤ i) := by
          rintro ⟨rfl, h1⟩
          apply hin
          exact ⟨c1.mpr (Or.inr ⟨rfl, by omega⟩), c2.mpr (Or.inr ⟨rfl, by omega⟩)⟩
        by_cases hs : i < ntotal - ndense
        · rw [if_pos hs, if_pos hs]
        · rw [if_neg hs, if_neg hs]
          by_cases hold : i < m ∧ j ≤ i
          · rw [if_pos hold, if_pos (by omega)]
          · rw [if_neg hold, if_neg (by omega)])
  rw [ph2 i j hi hj]
  unfold bandAddr
  by_cases hs : i < ntotal - ndense
  · rw [if_pos hs, if_pos hs]
    by_cases h : j ≤ i ∧ i - j < nband
    · rw [if_pos h, if_pos (show bandAdm ntotal nband ndense i j from ⟨h.1, Or.inr h.2⟩)]
    · rw [if_neg h, if_neg (show ¬ bandAdm ntotal nband ndense i j by unfold bandAdm; omega)]
  · rw [if_neg hs, if_neg hs]
    by_cases h : i < ntotal ∧ j ≤ i
    · rw [if_pos h, if_pos (show bandAdm ntotal nband ndense i j from ⟨h.2, Or.inl (by omega)⟩)]
    · rw [if_neg h, if_neg (show ¬ bandAdm ntotal nband ndense i j by unfold bandAdm; omega)]

end

theorem mirrorLower_spec {n : Nat} (D : Vector ℝ (n * n)) (i j : Nat) :
    mget (mirrorLower D) i j = if i < j then mget D j i else mget D i j := by
  unfold mirrorLower
  have key := fold_inv (n := n) (s := D)
    (body := fun i hi (res : Vector ℝ (n * n)) =>
      forRange (i + 1) n (fun j _ hj res => set2 res i j hi hj (at2 res j i hj hi)) res)
    (fun m res => ∀ i j, mget res i j = if i < m ∧ i < j then mget D j i else mget D i j)
    (by intro i j; rw [if_neg (by omega)])
    (by
      intro m hm res Q
      have inner := forRange_inv (lo := m + 1) (hi := n) (by omega) (s := res)
        (body := fun j _ hj res => set2 res m j hm hj (at2 res j m hj hm))
        (fun c r => ∀ i j, mget r i j =
          if (i < m ∧ i < j) ∨ (i = m ∧ m < j ∧ j < c) then mget D j i else mget D i j)
        (by
          intro i j
          rw [Q i j]
          by_cases h : i < m ∧ i < j
          · rw [if_pos h, if_pos (Or.inl h)]
          · rw [if_neg h, if_neg (by omega)])
        (by
          intro c hc1 hc2 r R i j
          have hcm : mget r c m = mget D c m := by rw [R c m, if_neg (by omega)]
          rw [mget_set2, at2_eq_mget, hcm, R i j]
          by_cases e : i = m ∧ j = c
          · obtain ⟨rfl, rfl⟩ := e
            rw [if_pos ⟨rfl, rfl⟩, if_pos (by omega)]
          · rw [if_neg e]
            by_cases h : (i < m ∧ i < j) ∨ (i = m ∧ m < j ∧ j < c)
            · rw [if_pos h, if_pos (by omega)]
            · rw [if_neg h, if_neg (by omega)])
      intro i j
      rw [inner i j]
      by_cases h : (i < m ∧ i < j) ∨ (i = m ∧ m < j ∧ j < n)
      · rw [if_pos h, if_pos (by omega)]
      · rw [if_neg h]
        by_cases h2 : i < m + 1 ∧ i < j
        · rw [if_pos h2]
          -- then j ≥ n: both sides are reads outside the matrix
          have hjn : n ≤ j := by omega
          rw [mget_of_col_ge _ _ hjn, mget_of_row_ge _ _ hjn]
        · rw [if_neg h2])
  rw [key i j]
  by_cases h : i < j
  · by_cases hin : i < n
    · rw [if_pos ⟨hin, h⟩, if_pos h]
    · rw [if_neg (by omega), if_pos h, mget_of_row_ge _ _ (by omega), mget_of_col_ge _ _ (by omega)]
  · rw [if_neg (by omega), if_neg h]

end MjProof.LinAlg
