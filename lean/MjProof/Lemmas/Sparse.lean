import MjProof.Model.Sparse
import MjProof.Lemmas.LinAlg
/-
C23: the CSR-style sparse routines over ℝ against the dense matrix they represent (`denseOf` / `denseRaw`).
-/
namespace MjProof.Sparse
open MjNum Finset MjProof.LinAlg

/-- entry `i` of an index vector, `0` outside -/
def nget {n : Nat} (v : Vector Nat n) (i : Nat) : Nat := if h : i < n then v[i] else 0

theorem getElem_eq_nget {n : Nat} (v : Vector Nat n) (i : Nat) (h : i < n) : v[i] = nget v i := by
  simp [nget, h]

theorem nget_set {n : Nat} (v : Vector Nat n) (i x : Nat) (hi : i < n) (j : Nat) :
    nget (v.set i x hi) j = if j = i then x else nget v j := by
  unfold nget
  by_cases hj : j < n
  · simp only [hj, dite_true, Vector.getElem_set]
    by_cases e : i = j
    · simp [e]
    · have : ¬ j = i := fun h => e h.symm
      simp [e, this]
  · have : ¬ j = i := by omega
    simp [hj, this]

/-- the dense matrix represented by the CSR-style arrays: entry `(r, c)` is the sum of the stored entries of row
`r` whose column index is `c` (one term when the column indices of the row are distinct) -/
noncomputable def denseRaw {nr cap : Nat} (rownnz rowadr : Vector Nat nr) (colind : Vector Nat cap)
    (mat : Vector ℝ cap) (r c : Nat) : ℝ :=
  ∑ k ∈ range (nget rownnz r), if nget colind (nget rowadr r + k) = c then vget mat (nget rowadr r + k) else 0

variable {nr nc cap : Nat}

/-- the dense matrix represented by `(p, mat)` -/
noncomputable def denseOf (p : Pat nr nc cap) (mat : Vector ℝ cap) (r c : Nat) : ℝ :=
  denseRaw p.rownnz p.rowadr p.colind mat r c

theorem Pat.col_eq (p : Pat nr nc cap) (r : Nat) (h : r < nr) (k : Nat) (hk : k < p.rownnz[r]) :
    p.col r h k hk = nget p.colind (nget p.rowadr r + k) := by
  unfold Pat.col
  rw [getElem_eq_nget, getElem_eq_nget p.rowadr r h]

theorem Pat.val_eq (p : Pat nr nc cap) (mat : Vector ℝ cap) (r : Nat) (h : r < nr) (k : Nat) (hk : k < p.rownnz[r]) :
    p.val mat r h k hk = vget mat (nget p.rowadr r + k) := by
  unfold Pat.val
  rw [getElem_eq_vget, getElem_eq_nget p.rowadr r h]

theorem Pat.colT_lt (p : Pat nr nc cap) (r : Nat) (h : r < nr) (k : Nat) (hk : k < nget p.rownnz r) :
    nget p.colind (nget p.rowadr r + k) < nc := by
  have hk' : k < p.rownnz[r] := by rwa [getElem_eq_nget]
  rw [← p.col_eq r h k hk']
  exact p.col_lt r h k hk'

theorem denseOf_col_ge (p : Pat nr nc cap) (mat : Vector ℝ cap) (r c : Nat) (h : r < nr) (hc : nc ≤ c) :
    denseOf p mat r c = 0 := by
  unfold denseOf denseRaw
  apply Finset.sum_eq_zero
  intro k hk; simp at hk
  have := p.colT_lt r h k hk
  rw [if_neg (by omega)]

/-! ### `mju_dotSparse` -/

theorem dotSpGo_eq (l : List ℝ) (r0 r1 r2 r3 : ℝ) : dotSpGo l r0 r1 r2 r3 = r0 + r1 + r2 + r3 + l.sum := by
  fun_induction dotSpGo l r0 r1 r2 r3 <;> simp_all [List.sum_cons] <;> ring

theorem dotSpSum_ofFn (n : Nat) (f : Fin n → ℝ) (F : Nat → ℝ) (h : ∀ k : Fin n, f k = F k.1) :
    dotSpSum (List.ofFn f) = ∑ k ∈ range n, F k := by
  have : f = fun k : Fin n => F k.1 := by funext k; exact h k
  rw [this]
  simp [dotSpSum, dotSpGo_eq, List.sum_ofFn, Fin.sum_univ_eq_sum_range]

/-- a row of stored entries against a vector = the dense row against the vector -/
theorem row_sum_eq (p : Pat nr nc cap) (mat : Vector ℝ cap) (x : Nat → ℝ) (r : Nat) (h : r < nr) :
    ∑ k ∈ range (nget p.rownnz r), vget mat (nget p.rowadr r + k) * x (nget p.colind (nget p.rowadr r + k))
      = ∑ c ∈ range nc, denseOf p mat r c * x c := by
  unfold denseOf denseRaw
  simp_rw [Finset.sum_mul]
  rw [Finset.sum_comm]
  apply Finset.sum_congr rfl
  intro k hk; simp at hk
  have hc := p.colT_lt r h k hk
  simp_rw [ite_mul, zero_mul]
  rw [Finset.sum_ite_eq]
  simp [hc]

theorem rowDot_eq (p : Pat nr nc cap) (mat : Vector ℝ cap) (vec : Vector ℝ nc) (r : Nat) (h : r < nr) :
    rowDot p mat vec r h = ∑ c ∈ range nc, denseOf p mat r c * vget vec c := by
  unfold rowDot
  rw [dotSpSum_ofFn _ _ (fun k => vget mat (nget p.rowadr r + k) * vget vec (nget p.colind (nget p.rowadr r + k)))
    (by intro k; rw [p.val_eq, getElem_eq_vget, p.col_eq])]
  rw [getElem_eq_nget]
  exact row_sum_eq p mat (vget vec) r h


/-! ### `mju_mulMatTVecSparse` -/

theorem real_beq_zero (x : ℝ) : (MjNum.beq x (lit 0) = true) ↔ x = 0 := by
  simp [MjNum.lit]

/-- partial row sum of the stored entries with column `c` -/
noncomputable def rowPart (p : Pat nr nc cap) (mat : Vector ℝ cap) (r m c : Nat) : ℝ :=
  ∑ k ∈ range m, if nget p.colind (nget p.rowadr r + k) = c then vget mat (nget p.rowadr r + k) else 0

theorem rowPart_succ (p : Pat nr nc cap) (mat : Vector ℝ cap) (r m c : Nat) :
    rowPart p mat r (m + 1) c = rowPart p mat r m c +
      (if nget p.colind (nget p.rowadr r + m) = c then vget mat (nget p.rowadr r + m) else 0) := by
  unfold rowPart; rw [Finset.sum_range_succ]

theorem rowPart_full (p : Pat nr nc cap) (mat : Vector ℝ cap) (r c : Nat) :
    rowPart p mat r (nget p.rownnz r) c = denseOf p mat r c := rfl

theorem scatter_row (p : Pat nr nc cap) (mat : Vector ℝ cap) (i : Nat) (hi : i < nr) (scl : ℝ) (res : Vector ℝ nc)
    (c : Nat) :
    vget (Nat.fold p.rownnz[i] (fun j hj (res : Vector ℝ nc) =>
        let c := p.col i hi j hj
        have hc : c < nc := p.col_lt i hi j hj
        res.set c (res[c] + p.val mat i hi j hj * scl)) res) c
      = vget res c + denseOf p mat i c * scl := by
  have key := fold_inv (n := p.rownnz[i]) (s := res)
    (body := fun j hj (res : Vector ℝ nc) =>
        let c := p.col i hi j hj
        have hc : c < nc := p.col_lt i hi j hj
        res.set c (res[c] + p.val mat i hi j hj * scl))
    (fun m r => ∀ c, vget r c = vget res c + rowPart p mat i m c * scl)
    (by intro c; simp [rowPart])
    (by
      intro m hm r Q c
      dsimp only
      rw [vget_set, rowPart_succ, getElem_eq_vget, p.col_eq, p.val_eq]
      by_cases e : c = nget p.colind (nget p.rowadr i + m)
      · rw [if_pos e, if_pos e.symm, ← e, Q c]; ring
      · rw [if_neg e, if_neg (fun h => e h.symm), Q c]; ring)
  rw [key c, getElem_eq_nget, rowPart_full]

theorem mulMatTVecSparse_eq (p : Pat nr nc cap) (mat : Vector ℝ cap) (vec : Vector ℝ nr) (c : Nat) :
    vget (mulMatTVecSparse p mat vec) c = ∑ r ∈ range nr, denseOf p mat r c * vget vec r := by
  unfold mulMatTVecSparse
  have key := fold_inv (n := nr) (s := Vector.replicate nc (lit 0 : ℝ))
    (body := fun i hi (res : Vector ℝ nc) =>
      let scl := vec[i]
      if beq scl (lit 0) then res
      else
        Nat.fold p.rownnz[i] (fun j hj (res : Vector ℝ nc) =>
          let c := p.col i hi j hj
          have hc : c < nc := p.col_lt i hi j hj
          res.set c (res[c] + p.val mat i hi j hj * scl)) res)
    (fun m res => ∀ c, vget res c = ∑ r ∈ range m, denseOf p mat r c * vget vec r)
    (by intro c; rw [vget_replicate]; simp [MjNum.lit])
    (by
      intro m hm res Q c
      dsimp only
      rw [Finset.sum_range_succ, ← Q c]
      by_cases hz : vec[m] = 0
      · rw [if_pos ((real_beq_zero _).mpr hz), ← getElem_eq_vget _ m hm, hz]; ring
      · rw [if_neg (fun h => hz ((real_beq_zero _).mp h)), scatter_row, getElem_eq_vget])
  exact key c


theorem denseOf_row_ge (p : Pat nr nc cap) (mat : Vector ℝ cap) (r c : Nat) (h : nr ≤ r) : denseOf p mat r c = 0 := by
  unfold denseOf denseRaw
  have : nget p.rownnz r = 0 := by unfold nget; simp [Nat.not_lt.mpr h]
  rw [this]; simp

/-! ### `mju_addToSymSparse` -/

theorem addToSymSparse_eq {n : Nat} (p : Pat n n cap) (mat : Vector ℝ cap) (res : Vector ℝ (n * n)) (upper : Bool)
    (a b : Nat) :
    mget (addToSymSparse p mat res upper) a b =
      mget res a b + denseOf p mat a b + (if upper = true ∧ a < b then denseOf p mat b a else 0) := by
  unfold addToSymSparse
  have key := fold_inv (n := n) (s := res)
    (body := fun i hi (res : Vector ℝ (n * n)) =>
      Nat.fold p.rownnz[i] (fun k hk (res : Vector ℝ (n * n)) =>
        let v := p.val mat i hi k hk
        let j := p.col i hi k hk
        have hj : j < n := p.col_lt i hi k hk
        let res := set2 res i j hi hj (at2 res i j hi hj + v)
        if upper ∧ j < i then set2 res j i hj hi (at2 res j i hj hi + v) else res) res)
    (fun m r => ∀ a b, mget r a b = mget res a b + (if a < m then denseOf p mat a b else 0)
      + (if upper = true ∧ a < b ∧ b < m then denseOf p mat b a else 0))
    (by intro a b; simp)
    (by
      intro i hi r0 Q
      have inner := fold_inv (n := p.rownnz[i]) (s := r0)
        (body := fun k hk (res : Vector ℝ (n * n)) =>
          let v := p.val mat i hi k hk
          let j := p.col i hi k hk
          have hj : j < n := p.col_lt i hi k hk
          let res := set2 res i j hi hj (at2 res i j hi hj + v)
          if upper ∧ j < i then set2 res j i hj hi (at2 res j i hj hi + v) else res)
        (fun m r => ∀ a b, mget r a b = mget r0 a b + (if a = i then rowPart p mat i m b else 0)
          + (if upper = true ∧ a < b ∧ b = i then rowPart p mat i m a else 0))
        (by intro a b; simp [rowPart])
        (by
          intro m hm r R a b
          dsimp only
          have hjn := p.col_lt i hi m hm
          have hcol := p.col_eq i hi m hm
          have hval := p.val_eq mat i hi m hm
          rw [rowPart_succ, rowPart_succ, ← hcol, ← hval]
          simp only [at2_eq_mget]
          by_cases hu : upper = true ∧ p.col i hi m hm < i
          · obtain ⟨hu1, hu2⟩ := hu
            rw [if_pos ⟨hu1, hu2⟩]
            simp only [mget_set2, R]
            clear hcol hval
            generalize p.col i hi m hm = j at *
            generalize p.val mat i hi m hm = v at *
            subst hu1
            simp only [true_and, ite_and]
            split_ifs <;> first | ring1 | (exfalso; omega) | (subst_vars; ring1) | (subst_vars; exfalso; omega)
          · rw [if_neg hu]
            simp only [mget_set2, R]
            clear hcol hval
            generalize p.col i hi m hm = j at *
            generalize p.val mat i hi m hm = v at *
            cases upper <;> simp only [Bool.false_eq_true, false_and, true_and, if_false, ite_and] at hu ⊢ <;>
              split_ifs <;> first | ring1 | (exfalso; omega) | (subst_vars; ring1) | (subst_vars; exfalso; omega))
      intro a b
      rw [inner a b, Q a b, getElem_eq_nget, rowPart_full, rowPart_full]
      cases upper <;> simp only [Bool.false_eq_true, false_and, true_and, if_false, ite_and] <;>
        split_ifs <;> first | ring1 | (exfalso; omega) | (subst_vars; ring1) | (subst_vars; exfalso; omega))
  rw [key a b]
  have g1 : denseOf p mat a b = if a < n then denseOf p mat a b else 0 := by
    split_ifs with h
    · rfl
    · exact denseOf_row_ge p mat a b (by omega)
  have g2 : denseOf p mat b a = if b < n then denseOf p mat b a else 0 := by
    split_ifs with h
    · rfl
    · exact denseOf_row_ge p mat b a (by omega)
  rw [g1, g2]
  cases upper <;> simp only [Bool.false_eq_true, false_and, true_and, if_false, ite_and] <;>
    split_ifs <;> first | ring1 | (exfalso; omega)


/-! ### `mju_sparse2dense` -/

/-- the column indices stored in a row are pairwise distinct -/
def NodupRows (p : Pat nr nc cap) : Prop :=
  ∀ r k k', k < nget p.rownnz r → k' < nget p.rownnz r →
    nget p.colind (nget p.rowadr r + k) = nget p.colind (nget p.rowadr r + k') → k = k'

theorem rowPart_eq_zero (p : Pat nr nc cap) (hnd : NodupRows p) (mat : Vector ℝ cap) (r m : Nat)
    (hm : m < nget p.rownnz r) : rowPart p mat r m (nget p.colind (nget p.rowadr r + m)) = 0 := by
  unfold rowPart
  apply Finset.sum_eq_zero
  intro k hk; simp at hk
  rw [if_neg]
  intro h
  have := hnd r k m (by omega) hm h
  omega

theorem sparse2dense_eq (p : Pat nr nc cap) (hnd : NodupRows p) (mat : Vector ℝ cap) (a b : Nat) :
    mget (sparse2dense p mat) a b = denseOf p mat a b := by
  unfold sparse2dense
  have key := fold_inv (n := nr) (s := Vector.replicate (nr * nc) (lit 0 : ℝ))
    (body := fun r hr (res : Vector ℝ (nr * nc)) =>
      Nat.fold p.rownnz[r] (fun i hi (res : Vector ℝ (nr * nc)) =>
        set2 res r (p.col r hr i hi) hr (p.col_lt r hr i hi) (p.val mat r hr i hi)) res)
    (fun m res => ∀ a b, mget res a b = if a < m then denseOf p mat a b else 0)
    (by intro a b
        have hz : (lit 0 : ℝ) = 0 := by simp [MjNum.lit]
        rw [hz, mget_replicate_zero]; simp)
    (by
      intro r hr r0 Q
      have inner := fold_inv (n := p.rownnz[r]) (s := r0)
        (body := fun i hi (res : Vector ℝ (nr * nc)) =>
          set2 res r (p.col r hr i hi) hr (p.col_lt r hr i hi) (p.val mat r hr i hi))
        (fun m res => ∀ a b, mget res a b = if a = r then rowPart p mat r m b else mget r0 a b)
        (by
          intro a b
          by_cases h : a = r
          · subst h; rw [if_pos rfl, Q a b, if_neg (by omega)]; simp [rowPart]
          · rw [if_neg h])
        (by
          intro m hm res R a b
          have hm' : m < nget p.rownnz r := by rwa [← getElem_eq_nget _ r hr]
          rw [mget_set2, p.col_eq, p.val_eq, R a b, rowPart_succ]
          by_cases h : a = r ∧ b = nget p.colind (nget p.rowadr r + m)
          · obtain ⟨rfl, rfl⟩ := h
            rw [if_pos ⟨rfl, rfl⟩, if_pos rfl, if_pos rfl, rowPart_eq_zero p hnd mat a m hm']; ring
          · rw [if_neg h]
            by_cases ha : a = r
            · rw [if_pos ha, if_pos ha, if_neg (by intro hb; exact h ⟨ha, hb.symm⟩)]; ring
            · rw [if_neg ha, if_neg ha])
      intro a b
      rw [inner a b, getElem_eq_nget, rowPart_full, Q a b]
      split_ifs <;> first | rfl | (exfalso; omega) | (subst_vars; rfl))
  rw [key a b]
  split_ifs with h
  · rfl
  · exact (denseOf_row_ge p mat a b (by omega)).symm

/-! ### checked loops -/

theorem loopM_inv {σ : Type} (n : Nat) (body : Nat → σ → Option σ) (s : σ) (P : Nat → σ → Prop) (h0 : P 0 s)
    (hstep : ∀ i, i < n → ∀ s, P i s → ∃ s', body i s = some s' ∧ P (i + 1) s') :
    ∃ s', loopM n body s = some s' ∧ P n s' := by
  unfold loopM
  refine fold_inv (n := n) (body := fun i _ st => st.bind (body i)) (s := some s)
    (fun i st => ∃ s', st = some s' ∧ P i s') ⟨s, rfl, h0⟩ ?_
  intro i hi st ⟨s', hs, hP⟩
  obtain ⟨s'', h1, h2⟩ := hstep i hi s' hP
  exact ⟨s'', by rw [hs]; simpa using h1, h2⟩

theorem rd_some {β : Type} {n : Nat} (v : Vector β n) (i : Nat) (h : i < n) : rd v i = some v[i] := by
  simp [rd, h]

theorem wr_some {β : Type} {n : Nat} (v : Vector β n) (i : Nat) (x : β) (h : i < n) : wr v i x = some (v.set i x h) := by
  simp [wr, h]

end MjProof.Sparse
