import MjProof.Lemmas.Sort
/-
Heap lemmas for `mjPARTIAL_SORT` (C22).  Core Lean only.
-/
namespace MjProof.Sort
open List

variable {α : Type}

/-- Comparator conventions the heap code relies on: besides being a total preorder through `≤ 0`,
    the tests `< 0` and `> 0` are mirror images of each other. -/
structure HeapCmp (cmp : α → α → Int) : Prop extends TotalPreorder cmp where
  antisym : ∀ a b, cmp a b < 0 ↔ 0 < cmp b a

theorem HeapCmp.le_of_lt {cmp : α → α → Int} (_h : HeapCmp cmp) {x y : α} (hxy : cmp x y < 0) : Le cmp x y := by
  unfold Le; omega

theorem HeapCmp.ge_of_not_lt {cmp : α → α → Int} (h : HeapCmp cmp) {x y : α} (hxy : ¬ cmp x y < 0) : Le cmp y x := by
  unfold Le
  have := h.antisym x y
  omega

theorem HeapCmp.le_refl {cmp : α → α → Int} (h : HeapCmp cmp) (x : α) : Le cmp x x := by
  have := h.total x x
  unfold Le; omega

theorem HeapCmp.le_trans {cmp : α → α → Int} (h : HeapCmp cmp) {x y z : α} (h1 : Le cmp x y) (h2 : Le cmp y z) :
    Le cmp x z := h.trans x y z h1 h2

/-- index chosen by one round of `_mjSIFT_DOWN` (same computation as in `siftDown`) -/
def pick (cmp : α → α → Int) (buf : Array α) (root end_ : Nat) (h : 2 * root + 1 < end_ ∧ end_ ≤ buf.size) :
    { i : Nat // i < buf.size } :=
  let child := 2 * root + 1
  have hr : root < buf.size := by omega
  have hc : child < buf.size := by omega
  let swap : { i : Nat // i < buf.size } :=
    if cmp buf[root] buf[child] < 0 then ⟨child, hc⟩ else ⟨root, hr⟩
  if h2 : child + 1 < end_ then
    (if cmp (buf[swap.1]'swap.2) (buf[child + 1]'(by omega)) < 0 then ⟨child + 1, by omega⟩ else swap)
  else swap

theorem siftDown_succ (cmp : α → α → Int) (buf : Array α) (root end_ fuel : Nat) :
    siftDown cmp buf root end_ (fuel + 1) =
      if h : 2 * root + 1 < end_ ∧ end_ ≤ buf.size then
        (if (pick cmp buf root end_ h).1 = root then buf
         else siftDown cmp (buf.swap root (pick cmp buf root end_ h).1 (by omega) (pick cmp buf root end_ h).2)
                (pick cmp buf root end_ h).1 end_ fuel)
      else buf := by
  rw [siftDown]
  rfl

/-- what one round of comparisons guarantees about the chosen index -/
theorem pick_spec {cmp : α → α → Int} (hc : HeapCmp cmp) (buf : Array α) (root end_ : Nat)
    (h : 2 * root + 1 < end_ ∧ end_ ≤ buf.size) (s : { i : Nat // i < buf.size })
    (hs0 : pick cmp buf root end_ h = s) :
    (s.1 = root ∨ s.1 = 2 * root + 1 ∨ s.1 = 2 * root + 2) ∧ s.1 < end_ ∧
    Le cmp (buf[root]'(by omega)) (buf[s.1]'s.2) ∧
    ∀ c (hcn : c < end_), (c = 2 * root + 1 ∨ c = 2 * root + 2) → Le cmp (buf[c]'(by omega)) (buf[s.1]'s.2) := by
  have hr : root < buf.size := by omega
  have hc1 : 2 * root + 1 < buf.size := by omega
  by_cases hA : cmp buf[root] buf[2 * root + 1] < 0
  · by_cases h2 : 2 * root + 1 + 1 < end_
    · have hc2 : 2 * root + 1 + 1 < buf.size := by omega
      by_cases hB : cmp buf[2 * root + 1] buf[2 * root + 1 + 1] < 0
      · have hs : s = ⟨2 * root + 1 + 1, hc2⟩ := by
          rw [← hs0]; simp [pick, hA, h2, hB]
        subst hs; clear hs0
        refine ⟨Or.inr (Or.inr rfl), h2, hc.le_trans (hc.le_of_lt hA) (hc.le_of_lt hB), ?_⟩
        intro c hcn hcc
        rcases hcc with rfl | rfl
        · exact hc.le_of_lt hB
        · exact hc.le_refl _
      · have hs : s = ⟨2 * root + 1, hc1⟩ := by
          rw [← hs0]; simp [pick, hA, h2, hB]
        subst hs; clear hs0
        refine ⟨Or.inr (Or.inl rfl), (by show 2 * root + 1 < end_; omega), hc.le_of_lt hA, ?_⟩
        intro c hcn hcc
        rcases hcc with rfl | rfl
        · exact hc.le_refl _
        · exact hc.ge_of_not_lt hB
    · have hs : s = ⟨2 * root + 1, hc1⟩ := by
        rw [← hs0]; simp [pick, hA, h2]
      subst hs; clear hs0
      refine ⟨Or.inr (Or.inl rfl), (by show 2 * root + 1 < end_; omega), hc.le_of_lt hA, ?_⟩
      intro c hcn hcc
      rcases hcc with rfl | rfl
      · exact hc.le_refl _
      · omega
  · by_cases h2 : 2 * root + 1 + 1 < end_
    · have hc2 : 2 * root + 1 + 1 < buf.size := by omega
      by_cases hB : cmp buf[root] buf[2 * root + 1 + 1] < 0
      · have hs : s = ⟨2 * root + 1 + 1, hc2⟩ := by
          rw [← hs0]; simp [pick, hA, h2, hB]
        subst hs; clear hs0
        refine ⟨Or.inr (Or.inr rfl), h2, hc.le_of_lt hB, ?_⟩
        intro c hcn hcc
        rcases hcc with rfl | rfl
        · exact hc.le_trans (hc.ge_of_not_lt hA) (hc.le_of_lt hB)
        · exact hc.le_refl _
      · have hs : s = ⟨root, hr⟩ := by
          rw [← hs0]; simp [pick, hA, h2, hB]
        subst hs; clear hs0
        refine ⟨Or.inl rfl, (by show root < end_; omega), hc.le_refl _, ?_⟩
        intro c hcn hcc
        rcases hcc with rfl | rfl
        · exact hc.ge_of_not_lt hA
        · exact hc.ge_of_not_lt hB
    · have hs : s = ⟨root, hr⟩ := by
        rw [← hs0]; simp [pick, hA, h2]
      subst hs; clear hs0
      refine ⟨Or.inl rfl, (by show root < end_; omega), hc.le_refl _, ?_⟩
      intro c hcn hcc
      rcases hcc with rfl | rfl
      · exact hc.ge_of_not_lt hA
      · omega

/-! ### size and multiset are preserved -/

theorem siftDown_size (cmp : α → α → Int) : ∀ fuel (buf : Array α) root end_,
    (siftDown cmp buf root end_ fuel).size = buf.size
  | 0, buf, root, end_ => by simp [siftDown]
  | fuel + 1, buf, root, end_ => by
    rw [siftDown_succ]
    split
    · split
      · rfl
      · rw [siftDown_size cmp fuel]; simp
    · rfl

theorem siftDown_perm (cmp : α → α → Int) : ∀ fuel (buf : Array α) root end_,
    (siftDown cmp buf root end_ fuel).toList ~ buf.toList
  | 0, buf, root, end_ => by simp [siftDown]
  | fuel + 1, buf, root, end_ => by
    rw [siftDown_succ]
    split
    · split
      · exact Perm.refl _
      · refine (siftDown_perm cmp fuel _ _ _).trans ?_
        exact (Array.swap_perm _ _).toList
    · exact Perm.refl _

/-! ### heap property -/

/-- "the parent at index `i` is not smaller than its children (below `n`)" -/
def POK (cmp : α → α → Int) (b : Array α) (n i : Nat) : Prop :=
  ∀ c (hc : c < b.size) (hi : i < b.size), c < n → (c = 2 * i + 1 ∨ c = 2 * i + 2) → Le cmp b[c] b[i]

/-- precondition of a sift-down at `r` for the indices `≥ lo`: every other parent is fine, and the
    parent of `r` (if it is `≥ lo`) dominates the children of `r`. -/
def SiftPre (cmp : α → α → Int) (b : Array α) (n lo r : Nat) : Prop :=
  (∀ i, lo ≤ i → i ≠ r → POK cmp b n i) ∧
  (∀ p, lo ≤ p → (r = 2 * p + 1 ∨ r = 2 * p + 2) →
    ∀ c (hc : c < b.size) (hp : p < b.size), c < n → (c = 2 * r + 1 ∨ c = 2 * r + 2) → Le cmp b[c] b[p])

theorem siftPre_swap {cmp : α → α → Int} (hcmp : HeapCmp cmp) (b : Array α) (n lo r s : Nat)
    (hn : n ≤ b.size) (hlo : lo ≤ r) (hs : s = 2 * r + 1 ∨ s = 2 * r + 2) (hsn : s < n)
    (hpre : SiftPre cmp b n lo r)
    (h1 : Le cmp (b[r]'(by omega)) (b[s]'(by omega)))
    (h2 : ∀ c (hcn : c < n), (c = 2 * r + 1 ∨ c = 2 * r + 2) → Le cmp (b[c]'(by omega)) (b[s]'(by omega))) :
    SiftPre cmp (b.swap r s (by omega) (by omega)) n lo s := by
  have hrs : r ≠ s := by omega
  have hrb : r < b.size := by omega
  have hsb : s < b.size := by omega
  constructor
  · intro i hi his c hc hib hcn hcc
    have hc' : c < b.size := by simpa using hc
    have hib' : i < b.size := by simpa using hib
    rw [Array.getElem_swap, Array.getElem_swap]
    by_cases hir : i = r
    · subst hir
      -- parent r now holds the old b[s]
      have hcr : c ≠ i := by omega
      simp only [hcr, ↓reduceIte]
      by_cases hcs : c = s
      · subst hcs; simp only [↓reduceIte]
        simpa using h1
      · simp only [hcs, ↓reduceIte]
        exact h2 c hcn hcc
    · -- i ≠ r, i ≠ s
      have hcs : c ≠ s := by omega
      simp only [hir, his, hcs, ↓reduceIte]
      by_cases hcr : c = r
      · subst hcr
        simp only [↓reduceIte]
        -- i is the parent of r: use the grand-parent condition... but c = r is a child, value b[s]
        have := hpre.2 i hi (by omega) s hsb hib' hsn hs
        exact this
      · simp only [hcr, ↓reduceIte]
        exact hpre.1 i hi hir c hc' hib' hcn hcc
  · intro p hp hps c hc hpb hcn hcc
    have hc' : c < b.size := by simpa using hc
    -- the parent of s is r
    have hpr : p = r := by omega
    subst hpr
    rw [Array.getElem_swap, Array.getElem_swap]
    have hcp : c ≠ p := by omega
    have hcs : c ≠ s := by omega
    simp only [hcp, hcs, ↓reduceIte]
    -- children of s are dominated by old b[s] (old parent property at s)
    exact hpre.1 s (by omega) (by omega) c hc' hsb hcn hcc

theorem siftDown_heap {cmp : α → α → Int} (hcmp : HeapCmp cmp) (n lo : Nat) :
    ∀ fuel (b : Array α) (r : Nat), n ≤ b.size → n ≤ fuel + r → lo ≤ r → SiftPre cmp b n lo r →
      ∀ i, lo ≤ i → POK cmp (siftDown cmp b r n fuel) n i
  | 0, b, r, hn, hfuel, hlo, hpre => by
    intro i hi
    simp only [siftDown]
    by_cases hir : i = r
    · subst hir
      intro c hc hib hcn hcc
      omega
    · exact hpre.1 i hi hir
  | fuel + 1, b, r, hn, hfuel, hlo, hpre => by
    intro i hi
    rw [siftDown_succ]
    split
    · rename_i h
      obtain ⟨hcase, hsn, h1, h2⟩ := pick_spec hcmp b r n h _ rfl
      split
      · rename_i heq
        -- no swap: r dominates its children
        by_cases hir : i = r
        · subst hir
          intro c hc hib hcn hcc
          have := h2 c hcn hcc
          simpa [heq] using this
        · exact hpre.1 i hi hir
      · rename_i hne
        have hs : (pick cmp b r n h).1 = 2 * r + 1 ∨ (pick cmp b r n h).1 = 2 * r + 2 := by
          rcases hcase with h0 | h0
          · exact absurd h0 hne
          · exact h0
        apply siftDown_heap hcmp n lo fuel _ _ (by simpa using hn) (by omega) (by omega) _ i hi
        exact siftPre_swap hcmp b n lo r _ hn hlo hs hsn hpre h1 h2
    · rename_i h
      by_cases hir : i = r
      · subst hir
        intro c hc hib hcn hcc
        omega
      · exact hpre.1 i hi hir

/-- max-heap on the first `n` entries -/
def Heap (cmp : α → α → Int) (b : Array α) (n : Nat) : Prop := ∀ i, POK cmp b n i

theorem heapify_size (cmp : α → α → Int) (k : Nat) : ∀ j (b : Array α), (heapify cmp b k j).size = b.size
  | 0, b => rfl
  | j + 1, b => by rw [heapify, heapify_size cmp k j, siftDown_size]

theorem heapify_perm (cmp : α → α → Int) (k : Nat) : ∀ j (b : Array α), (heapify cmp b k j).toList ~ b.toList
  | 0, b => Perm.refl _
  | j + 1, b => by
    rw [heapify]
    exact (heapify_perm cmp k j _).trans (siftDown_perm cmp _ _ _ _)

theorem heapify_heap {cmp : α → α → Int} (hcmp : HeapCmp cmp) (k : Nat) :
    ∀ j (b : Array α), k ≤ b.size → (∀ i, j ≤ i → POK cmp b k i) → Heap cmp (heapify cmp b k j) k
  | 0, b, _, h => fun i => h i (Nat.zero_le _)
  | j + 1, b, hk, h => by
    rw [heapify]
    apply heapify_heap hcmp k j _ (by rw [siftDown_size]; exact hk)
    apply siftDown_heap hcmp k j k b j hk (by omega) (Nat.le_refl _)
    constructor
    · intro i hi hij
      exact h i (by omega)
    · intro p hp hpj
      omega

theorem heap_root_max {cmp : α → α → Int} (hcmp : HeapCmp cmp) (b : Array α) (n : Nat) (hn : n ≤ b.size)
    (hh : Heap cmp b n) : ∀ i (hi : i < n), Le cmp (b[i]'(by omega)) (b[0]'(by omega)) := by
  intro i
  induction i using Nat.strongRecOn with
  | _ i ih =>
    intro hi
    by_cases h0 : i = 0
    · subst h0; exact hcmp.le_refl _
    · have hp : (i - 1) / 2 < i := by omega
      have h1 := hh ((i - 1) / 2) i (by omega) (by omega) hi (by omega)
      exact hcmp.le_trans h1 (ih _ hp (by omega))

/-- invariant of the scan loop of `mjPARTIAL_SORT` -/
structure ScanInv (cmp : α → α → Int) (k : Nat) (b : Array α) (seen disc : List α) : Prop where
  size : b.size = k
  heap : Heap cmp b k
  perm : b.toList ++ disc ~ seen
  dom : ∀ d ∈ disc, ∀ x ∈ b.toList, Le cmp x d

theorem mem_toList_iff_getElem (b : Array α) (x : α) : x ∈ b.toList ↔ ∃ i, ∃ h : i < b.size, b[i] = x := by
  simp [Array.mem_toList_iff, Array.mem_iff_getElem]

theorem scan_inv {cmp : α → α → Int} (hcmp : HeapCmp cmp) (k : Nat) (hk : 0 < k) :
    ∀ (xs : List α) (b : Array α) (seen disc : List α), ScanInv cmp k b seen disc →
      ∃ disc', ScanInv cmp k (scan cmp k b xs) (seen ++ xs) disc'
  | [], b, seen, disc, h => ⟨disc, by simpa [scan] using h⟩
  | x :: xs, b, seen, disc, h => by
    have hsz : 0 < b.size := by rw [h.size]; exact hk
    rw [scan]
    simp only [hsz, ↓reduceDIte]
    have hmax := heap_root_max hcmp b k (by rw [h.size]; exact Nat.le_refl _) h.heap
    split
    · rename_i hlt
      -- x replaces the root; the old root is discarded
      let b1 := b.set 0 x
      have hb1 : b1.size = k := by simp [b1, h.size]
      have hpre : SiftPre cmp b1 k 0 0 := by
        constructor
        · intro i _ hi0 c hc hib hcn hcc
          have hc' : c < b.size := by simpa [b1] using hc
          have hib' : i < b.size := by simpa [b1] using hib
          have e1 : b1[c] = b[c] := by simp [b1, Array.getElem_set]; omega
          have e2 : b1[i] = b[i] := by simp [b1, Array.getElem_set]; omega
          rw [e1, e2]
          exact h.heap i c hc' hib' hcn hcc
        · intro p _ hp0
          omega
      have hheap : Heap cmp (siftDown cmp b1 0 k k) k :=
        fun i => siftDown_heap hcmp k 0 k b1 0 (by omega) (by omega) (Nat.le_refl _) hpre i (Nat.zero_le _)
      have hperm1 : b1.toList ++ (b[0] :: disc) ~ seen ++ [x] := by
        -- b1 = x :: tail of b ; b = b[0] :: tail
        have hb : b.toList = b[0] :: b.toList.tail := by
          cases hbl : b.toList with
          | nil => simp [← Array.length_toList, hbl] at hsz
          | cons y ys =>
            have : b[0] = y := by
              have := Array.getElem_toList (xs := b) (i := 0) hsz
              simp [hbl] at this
              exact this.symm
            simp [this]
        have hb1l : b1.toList = x :: b.toList.tail := by
          simp only [b1, Array.toList_set]
          rw [hb]; simp
        rw [hb1l]
        have hp := h.perm
        rw [hb] at hp
        -- x :: tl ++ b0 :: disc ~ (b0 :: tl ++ disc) ++ [x]
        refine Perm.trans ?_ (hp.append_right [x])
        simp only [cons_append, append_assoc]
        refine Perm.trans (Perm.cons x (perm_middle)) ?_
        refine Perm.trans (Perm.swap _ _ _) ?_
        refine Perm.cons _ ?_
        exact (perm_append_singleton x _).symm.trans (by simp)
      have inv1 : ScanInv cmp k (siftDown cmp b1 0 k k) (seen ++ [x]) (b[0] :: disc) := by
        refine ⟨by rw [siftDown_size]; exact hb1, hheap, ?_, ?_⟩
        · exact ((siftDown_perm cmp k b1 0 k).append_right _).trans hperm1
        · intro d hd y hy
          have hy1 : y ∈ b1.toList := (siftDown_perm cmp k b1 0 k).mem_iff.mp hy
          -- y = x or y is an old element
          have hy2 : y = x ∨ y ∈ b.toList := by
            rw [mem_toList_iff_getElem] at hy1
            obtain ⟨i, hi, rfl⟩ := hy1
            by_cases hi0 : i = 0
            · left; subst hi0; simp [b1]
            · right
              have : b1[i] = b[i]'(by simpa [b1] using hi) := by simp [b1, Array.getElem_set]; omega
              rw [this]
              exact Array.getElem_mem_toList _
          have hx0 : Le cmp x b[0] := hcmp.le_of_lt hlt
          rcases mem_cons.mp hd with rfl | hd
          · rcases hy2 with rfl | hy2
            · exact hx0
            · rw [mem_toList_iff_getElem] at hy2
              obtain ⟨i, hi, rfl⟩ := hy2
              exact hmax i (by rw [← h.size]; exact hi)
          · rcases hy2 with rfl | hy2
            · exact hcmp.le_trans hx0 (h.dom d hd _ (Array.getElem_mem_toList _))
            · exact h.dom d hd y hy2
      obtain ⟨disc', hfin⟩ := scan_inv hcmp k hk xs _ _ _ inv1
      exact ⟨disc', by simpa [append_assoc] using hfin⟩
    · rename_i hnlt
      -- x is discarded
      have inv1 : ScanInv cmp k b (seen ++ [x]) (x :: disc) := by
        refine ⟨h.size, h.heap, ?_, ?_⟩
        · refine Perm.trans ?_ (h.perm.append_right [x])
          simp only [append_assoc]
          exact Perm.append_left _ (perm_append_singleton x disc).symm
        · intro d hd y hy
          rcases mem_cons.mp hd with rfl | hd
          · rw [mem_toList_iff_getElem] at hy
            obtain ⟨i, hi, rfl⟩ := hy
            exact hcmp.le_trans (hmax i (by rw [← h.size]; exact hi)) (hcmp.ge_of_not_lt hnlt)
          · exact h.dom d hd y hy
      obtain ⟨disc', hfin⟩ := scan_inv hcmp k hk xs _ _ _ inv1
      exact ⟨disc', by simpa [append_assoc] using hfin⟩

end MjProof.Sort
