import MjProof.Lemmas.RealNum
import MjProof.Gen.Kernels
import Mathlib.Tactic.Ring
import Mathlib.Tactic.Linarith
import Mathlib.Tactic.NormNum
import Mathlib.Tactic.LinearCombination
import Mathlib.Tactic.FieldSimp
import Mathlib.Tactic.Positivity
import Mathlib.Analysis.Real.Pi.Bounds
/-
C24 helper lemmas: closed formulas over ℝ of the *generated* kernels of `engine_util_spatial.c`
(`MjProof/Gen/Kernels.lean`, regenerated from the working tree on every run).  Every lemma here is proved
from the generated definition by unfolding, a case split over the special-case branches of the C code
(`quat == identity`, `vec == 0`, `angle == 0`, the mjMINVAL guards of mju_normalize3/4) and `ring`.

The wrappers `mulQuat`, `rotVecQuat`, … only uncurry the scalarised generated kernels (array cells are
separate arguments there) so that the property theorems can be stated over tuples.
-/
set_option linter.unusedTactic false
set_option linter.unreachableTactic false
set_option linter.unusedSimpArgs false
namespace MjProof.Spatial
open MjProof MjProof.Gen

/-- closes a goal that is a conjunction of polynomial identities (what `Prod.mk.injEq` leaves of an equation
between tuples), whatever number of components `simp` has already discharged -/
macro "tuple_ring" : tactic =>
  `(tactic| first | done | rfl | ((repeat' constructor) <;> first | ring | (ring_nf; done)))

abbrev Quat := ℝ × ℝ × ℝ × ℝ
abbrev Vec3 := ℝ × ℝ × ℝ
/-- row-major 3×3 matrix, as MuJoCo stores it -/
abbrev Mat3 := ℝ × ℝ × ℝ × ℝ × ℝ × ℝ × ℝ × ℝ × ℝ
/-- (pos[0..2], quat[0..3]) -/
abbrev Pose := ℝ × ℝ × ℝ × Quat

/-! ### uncurrying wrappers of the generated kernels (no logic of their own) -/

noncomputable def mulQuat (a b : Quat) : Quat :=
  mju_mulQuat (α := ℝ) a.1 a.2.1 a.2.2.1 a.2.2.2 b.1 b.2.1 b.2.2.1 b.2.2.2
noncomputable def negQuat (q : Quat) : Quat :=
  mju_negQuat (α := ℝ) q.1 q.2.1 q.2.2.1 q.2.2.2
noncomputable def mulQuatAxis (q : Quat) (axis : Vec3) : Quat :=
  mju_mulQuatAxis (α := ℝ) q.1 q.2.1 q.2.2.1 q.2.2.2 axis.1 axis.2.1 axis.2.2
noncomputable def derivQuat (q : Quat) (vel : Vec3) : Quat :=
  mju_derivQuat (α := ℝ) q.1 q.2.1 q.2.2.1 q.2.2.2 vel.1 vel.2.1 vel.2.2
noncomputable def rotVecQuat (v : Vec3) (q : Quat) : Vec3 :=
  mju_rotVecQuat (α := ℝ) v.1 v.2.1 v.2.2 q.1 q.2.1 q.2.2.1 q.2.2.2
noncomputable def quat2Mat (q : Quat) : Mat3 :=
  mju_quat2Mat (α := ℝ) q.1 q.2.1 q.2.2.1 q.2.2.2
noncomputable def mat2Quat (m : Mat3) : Quat :=
  mju_mat2Quat (α := ℝ) m.1 m.2.1 m.2.2.1 m.2.2.2.1 m.2.2.2.2.1 m.2.2.2.2.2.1 m.2.2.2.2.2.2.1
    m.2.2.2.2.2.2.2.1 m.2.2.2.2.2.2.2.2
noncomputable def mulMatVec3 (m : Mat3) (v : Vec3) : Vec3 :=
  mju_mulMatVec3 (α := ℝ) m.1 m.2.1 m.2.2.1 m.2.2.2.1 m.2.2.2.2.1 m.2.2.2.2.2.1 m.2.2.2.2.2.2.1
    m.2.2.2.2.2.2.2.1 m.2.2.2.2.2.2.2.2 v.1 v.2.1 v.2.2
noncomputable def mulMatTVec3 (m : Mat3) (v : Vec3) : Vec3 :=
  mju_mulMatTVec3 (α := ℝ) m.1 m.2.1 m.2.2.1 m.2.2.2.1 m.2.2.2.2.1 m.2.2.2.2.2.1 m.2.2.2.2.2.2.1
    m.2.2.2.2.2.2.2.1 m.2.2.2.2.2.2.2.2 v.1 v.2.1 v.2.2
noncomputable def axisAngle2Quat (axis : Vec3) (angle : ℝ) : Quat :=
  mju_axisAngle2Quat (α := ℝ) axis.1 axis.2.1 axis.2.2 angle
/-- returns (norm, normalised vector) like the C function (return value, in-place result) -/
noncomputable def normalize3 (v : Vec3) : ℝ × Vec3 :=
  mju_normalize3 (α := ℝ) v.1 v.2.1 v.2.2
noncomputable def normalize4 (q : Quat) : ℝ × Quat :=
  mju_normalize4 (α := ℝ) q.1 q.2.1 q.2.2.1 q.2.2.2
noncomputable def quatIntegrate (q : Quat) (vel : Vec3) (scale : ℝ) : Quat :=
  mju_quatIntegrate (α := ℝ) q.1 q.2.1 q.2.2.1 q.2.2.2 vel.1 vel.2.1 vel.2.2 scale
noncomputable def quat2Vel (q : Quat) (dt : ℝ) : Vec3 :=
  mju_quat2Vel (α := ℝ) q.1 q.2.1 q.2.2.1 q.2.2.2 dt
noncomputable def subQuat (qa qb : Quat) : Vec3 :=
  mju_subQuat (α := ℝ) qa.1 qa.2.1 qa.2.2.1 qa.2.2.2 qb.1 qb.2.1 qb.2.2.1 qb.2.2.2
noncomputable def mulPose (P1 P2 : Pose) : Pose :=
  mju_mulPose (α := ℝ) P1.1 P1.2.1 P1.2.2.1 P1.2.2.2.1 P1.2.2.2.2.1 P1.2.2.2.2.2.1 P1.2.2.2.2.2.2
    P2.1 P2.2.1 P2.2.2.1 P2.2.2.2.1 P2.2.2.2.2.1 P2.2.2.2.2.2.1 P2.2.2.2.2.2.2
noncomputable def negPose (P : Pose) : Pose :=
  mju_negPose (α := ℝ) P.1 P.2.1 P.2.2.1 P.2.2.2.1 P.2.2.2.2.1 P.2.2.2.2.2.1 P.2.2.2.2.2.2
noncomputable def trnVecPose (P : Pose) (v : Vec3) : Vec3 :=
  mju_trnVecPose (α := ℝ) P.1 P.2.1 P.2.2.1 P.2.2.2.1 P.2.2.2.2.1 P.2.2.2.2.2.1 P.2.2.2.2.2.2
    v.1 v.2.1 v.2.2

/-- `mjd_subQuat qa qb` as (Da, Db) -/
noncomputable def mjdSubQuat (qa qb : Quat) : Mat3 × Mat3 :=
  let r := mjd_subQuat (α := ℝ) qa.1 qa.2.1 qa.2.2.1 qa.2.2.2 qb.1 qb.2.1 qb.2.2.1 qb.2.2.2
  ((r.1, r.2.1, r.2.2.1, r.2.2.2.1, r.2.2.2.2.1, r.2.2.2.2.2.1, r.2.2.2.2.2.2.1, r.2.2.2.2.2.2.2.1,
    r.2.2.2.2.2.2.2.2.1), r.2.2.2.2.2.2.2.2.2)
/-- `mjd_quatIntegrate vel scale` as (Dquat, Dvel, Dscale) -/
noncomputable def mjdQuatIntegrate (vel : Vec3) (scale : ℝ) : Mat3 × Mat3 × Vec3 :=
  let r := mjd_quatIntegrate (α := ℝ) vel.1 vel.2.1 vel.2.2 scale
  ((r.1, r.2.1, r.2.2.1, r.2.2.2.1, r.2.2.2.2.1, r.2.2.2.2.2.1, r.2.2.2.2.2.2.1, r.2.2.2.2.2.2.2.1,
    r.2.2.2.2.2.2.2.2.1),
   (r.2.2.2.2.2.2.2.2.2.1, r.2.2.2.2.2.2.2.2.2.2.1, r.2.2.2.2.2.2.2.2.2.2.2.1, r.2.2.2.2.2.2.2.2.2.2.2.2.1,
    r.2.2.2.2.2.2.2.2.2.2.2.2.2.1, r.2.2.2.2.2.2.2.2.2.2.2.2.2.2.1, r.2.2.2.2.2.2.2.2.2.2.2.2.2.2.2.1,
    r.2.2.2.2.2.2.2.2.2.2.2.2.2.2.2.2.1, r.2.2.2.2.2.2.2.2.2.2.2.2.2.2.2.2.2.1),
   r.2.2.2.2.2.2.2.2.2.2.2.2.2.2.2.2.2.2)

/-! ### mathematical vocabulary -/

def normSq4 (q : Quat) : ℝ := q.1 * q.1 + q.2.1 * q.2.1 + q.2.2.1 * q.2.2.1 + q.2.2.2 * q.2.2.2
def normSq3 (v : Vec3) : ℝ := v.1 * v.1 + v.2.1 * v.2.1 + v.2.2 * v.2.2
def quatOne : Quat := (1, 0, 0, 0)
def quatNeg (q : Quat) : Quat := (-q.1, -q.2.1, -q.2.2.1, -q.2.2.2)
def matOne : Mat3 := (1, 0, 0, 0, 1, 0, 0, 0, 1)
/-- row-major 3×3 matrix product (specification; the engine's `mju_mulMatMat3` is not a kernel here) -/
def matMul (a b : Mat3) : Mat3 :=
  match a, b with
  | (a0, a1, a2, a3, a4, a5, a6, a7, a8), (b0, b1, b2, b3, b4, b5, b6, b7, b8) =>
    (a0*b0 + a1*b3 + a2*b6, a0*b1 + a1*b4 + a2*b7, a0*b2 + a1*b5 + a2*b8,
     a3*b0 + a4*b3 + a5*b6, a3*b1 + a4*b4 + a5*b7, a3*b2 + a4*b5 + a5*b8,
     a6*b0 + a7*b3 + a8*b6, a6*b1 + a7*b4 + a8*b7, a6*b2 + a7*b5 + a8*b8)
def matT (a : Mat3) : Mat3 :=
  match a with
  | (a0, a1, a2, a3, a4, a5, a6, a7, a8) => (a0, a3, a6, a1, a4, a7, a2, a5, a8)
def matDet (a : Mat3) : ℝ :=
  match a with
  | (a0, a1, a2, a3, a4, a5, a6, a7, a8) =>
    a0 * (a4 * a8 - a5 * a7) - a1 * (a3 * a8 - a5 * a6) + a2 * (a3 * a7 - a4 * a6)
def matScale (s : ℝ) (a : Mat3) : Mat3 :=
  match a with
  | (a0, a1, a2, a3, a4, a5, a6, a7, a8) => (s*a0, s*a1, s*a2, s*a3, s*a4, s*a5, s*a6, s*a7, s*a8)

/-- mjMINVAL = 1e-15 as the translator prints the double (`1.0000000000000001e-15`) -/
noncomputable def minval : ℝ := 10000000000000001 / 10 ^ 31
/-- the `mjPI` literal of the C sources (3.1415926535897931, slightly below π) -/
noncomputable def piLit : ℝ := 31415926535897931 / 10 ^ 16

theorem minval_pos : 0 < minval := by unfold minval; norm_num
theorem minval_lt_one : minval < 1 := by unfold minval; norm_num

theorem ofSci_minval : (MjNum.ofSci 10000000000000001 true 31 : ℝ) = minval := by
  simp only [real_ofSci, minval]; norm_num
theorem ofSci_pi : (MjNum.ofSci 31415926535897931 true 16 : ℝ) = piLit := by
  simp only [real_ofSci, piLit]; norm_num
theorem ofSci_half : (MjNum.ofSci 5 true 1 : ℝ) = 1 / 2 := by
  simp only [real_ofSci]; norm_num
theorem ofSci_quarter : (MjNum.ofSci 25 true 2 : ℝ) = 1 / 4 := by
  simp only [real_ofSci]; norm_num

/-! ### closed formulas of the generated kernels (scalar form) -/

/-- polynomial formula of `mju_rotVecQuat` (its generic branch) -/
def rotF (v0 v1 v2 q0 q1 q2 q3 : ℝ) : Vec3 :=
  (v0 + 2 * (q2 * (q0*v2 + q1*v1 - q2*v0) - q3 * (q0*v1 + q3*v0 - q1*v2)),
   v1 + 2 * (q3 * (q0*v0 + q2*v2 - q3*v1) - q1 * (q0*v2 + q1*v1 - q2*v0)),
   v2 + 2 * (q1 * (q0*v1 + q3*v0 - q1*v2) - q2 * (q0*v0 + q2*v2 - q3*v1)))

/-- the special-case branches (`vec == 0`, `quat == identity`) agree with the generic formula -/
theorem mju_rotVecQuat_eq (v0 v1 v2 q0 q1 q2 q3 : ℝ) :
    mju_rotVecQuat v0 v1 v2 q0 q1 q2 q3 = rotF v0 v1 v2 q0 q1 q2 q3 := by
  simp only [mju_rotVecQuat, rotF, real_beq, real_ofInt, decide_eq_true_eq, Bool.decide_and,
    Bool.and_eq_true]
  push_cast
  split_ifs with h1 h2
  · obtain ⟨⟨rfl, rfl⟩, rfl⟩ := h1; simp
  · obtain ⟨⟨⟨rfl, rfl⟩, rfl⟩, rfl⟩ := h2; simp
  · simp only [Prod.mk.injEq]; tuple_ring

/-- homogeneous rotation matrix of a quaternion (generic branch of `mju_quat2Mat`) -/
def matF (q0 q1 q2 q3 : ℝ) : Mat3 :=
  (q0*q0 + q1*q1 - q2*q2 - q3*q3, 2 * (q1*q2 - q0*q3), 2 * (q1*q3 + q0*q2),
   2 * (q1*q2 + q0*q3), q0*q0 - q1*q1 + q2*q2 - q3*q3, 2 * (q2*q3 - q0*q1),
   2 * (q1*q3 - q0*q2), 2 * (q2*q3 + q0*q1), q0*q0 - q1*q1 - q2*q2 + q3*q3)

theorem mju_quat2Mat_eq (q0 q1 q2 q3 : ℝ) : mju_quat2Mat q0 q1 q2 q3 = matF q0 q1 q2 q3 := by
  simp only [mju_quat2Mat, matF, real_beq, real_ofInt, decide_eq_true_eq, Bool.decide_and,
    Bool.and_eq_true]
  push_cast
  split_ifs with h
  · obtain ⟨⟨⟨rfl, rfl⟩, rfl⟩, rfl⟩ := h; simp
  · simp only [Prod.mk.injEq]; tuple_ring

theorem mju_mulQuat_eq (a0 a1 a2 a3 b0 b1 b2 b3 : ℝ) :
    mju_mulQuat a0 a1 a2 a3 b0 b1 b2 b3 =
      (a0*b0 - a1*b1 - a2*b2 - a3*b3, a0*b1 + a1*b0 + a2*b3 - a3*b2,
       a0*b2 - a1*b3 + a2*b0 + a3*b1, a0*b3 + a1*b2 - a2*b1 + a3*b0) := by
  simp only [mju_mulQuat, Prod.mk.injEq]; tuple_ring

theorem mju_negQuat_eq (q0 q1 q2 q3 : ℝ) : mju_negQuat q0 q1 q2 q3 = (q0, -q1, -q2, -q3) := by
  simp only [mju_negQuat, Prod.mk.injEq]; tuple_ring

theorem mju_mulMatVec3_eq (m0 m1 m2 m3 m4 m5 m6 m7 m8 v0 v1 v2 : ℝ) :
    mju_mulMatVec3 m0 m1 m2 m3 m4 m5 m6 m7 m8 v0 v1 v2 =
      (m0*v0 + m1*v1 + m2*v2, m3*v0 + m4*v1 + m5*v2, m6*v0 + m7*v1 + m8*v2) := by
  simp only [mju_mulMatVec3, Prod.mk.injEq]; tuple_ring

theorem mju_mulMatTVec3_eq (m0 m1 m2 m3 m4 m5 m6 m7 m8 v0 v1 v2 : ℝ) :
    mju_mulMatTVec3 m0 m1 m2 m3 m4 m5 m6 m7 m8 v0 v1 v2 =
      (m0*v0 + m3*v1 + m6*v2, m1*v0 + m4*v1 + m7*v2, m2*v0 + m5*v1 + m8*v2) := by
  simp only [mju_mulMatTVec3, Prod.mk.injEq]; tuple_ring

/-- `mju_axisAngle2Quat`: the `angle == 0` branch agrees with the generic formula -/
theorem mju_axisAngle2Quat_eq (x0 x1 x2 angle : ℝ) :
    mju_axisAngle2Quat x0 x1 x2 angle =
      (Real.cos (angle * (1/2)), x0 * Real.sin (angle * (1/2)), x1 * Real.sin (angle * (1/2)),
       x2 * Real.sin (angle * (1/2))) := by
  simp only [mju_axisAngle2Quat, real_beq, real_ofInt, decide_eq_true_eq, real_sin, real_cos,
    ofSci_half]
  push_cast
  split_ifs with h
  · subst h; simp
  · simp only [Prod.mk.injEq]; tuple_ring

theorem mju_normalize3_eq (v0 v1 v2 : ℝ) :
    mju_normalize3 v0 v1 v2 =
      (Real.sqrt (v0*v0 + v1*v1 + v2*v2),
        if Real.sqrt (v0*v0 + v1*v1 + v2*v2) < minval then ((1 : ℝ), (0 : ℝ), (0 : ℝ)) else
          (v0 / Real.sqrt (v0*v0 + v1*v1 + v2*v2), v1 / Real.sqrt (v0*v0 + v1*v1 + v2*v2),
           v2 / Real.sqrt (v0*v0 + v1*v1 + v2*v2))) := by
  simp only [mju_normalize3, real_sqrt, real_ofInt, decide_eq_true_eq, real_lt_iff, ofSci_minval]
  push_cast
  split_ifs with h
  · simp
  · simp only [Prod.mk.injEq]; tuple_ring

theorem mju_normalize4_eq (v0 v1 v2 v3 : ℝ) :
    mju_normalize4 v0 v1 v2 v3 =
      (Real.sqrt (v0*v0 + v1*v1 + v2*v2 + v3*v3),
        if Real.sqrt (v0*v0 + v1*v1 + v2*v2 + v3*v3) < minval then
          ((1 : ℝ), (0 : ℝ), (0 : ℝ), (0 : ℝ))
        else if minval < |Real.sqrt (v0*v0 + v1*v1 + v2*v2 + v3*v3) - 1| then
          (v0 / Real.sqrt (v0*v0 + v1*v1 + v2*v2 + v3*v3), v1 / Real.sqrt (v0*v0 + v1*v1 + v2*v2 + v3*v3),
           v2 / Real.sqrt (v0*v0 + v1*v1 + v2*v2 + v3*v3), v3 / Real.sqrt (v0*v0 + v1*v1 + v2*v2 + v3*v3))
        else (v0, v1, v2, v3)) := by
  simp only [mju_normalize4, real_sqrt, real_ofInt, real_abs, decide_eq_true_eq, real_lt_iff,
    ofSci_minval]
  push_cast
  split_ifs with h1 h2
  · simp
  · simp only [Prod.mk.injEq]; tuple_ring
  · first | rfl | (simp only [Prod.mk.injEq]; tuple_ring)

/-- a unit 4-vector passes through `mju_normalize4` unchanged (norm = 1: neither the "too small" nor the
"not close to 1" branch is taken) -/
theorem mju_normalize4_of_unit (v0 v1 v2 v3 : ℝ) (h : v0*v0 + v1*v1 + v2*v2 + v3*v3 = 1) :
    mju_normalize4 v0 v1 v2 v3 = (1, v0, v1, v2, v3) := by
  rw [mju_normalize4_eq, h, Real.sqrt_one]
  have h1 : ¬ ((1 : ℝ) < minval) := not_lt.mpr minval_lt_one.le
  have h2 : ¬ (minval < |(1 : ℝ) - 1|) := by simp [minval_pos.le]
  simp only [if_neg h1, if_neg h2]

theorem mju_mulPose_eq (p0 p1 p2 a0 a1 a2 a3 r0 r1 r2 b0 b1 b2 b3 : ℝ) :
    mju_mulPose p0 p1 p2 a0 a1 a2 a3 r0 r1 r2 b0 b1 b2 b3 =
      ((rotF r0 r1 r2 a0 a1 a2 a3).1 + p0, (rotF r0 r1 r2 a0 a1 a2 a3).2.1 + p1,
       (rotF r0 r1 r2 a0 a1 a2 a3).2.2 + p2,
       (mju_normalize4 (a0*b0 - a1*b1 - a2*b2 - a3*b3) (a0*b1 + a1*b0 + a2*b3 - a3*b2)
          (a0*b2 - a1*b3 + a2*b0 + a3*b1) (a0*b3 + a1*b2 - a2*b1 + a3*b0)).2.1,
       (mju_normalize4 (a0*b0 - a1*b1 - a2*b2 - a3*b3) (a0*b1 + a1*b0 + a2*b3 - a3*b2)
          (a0*b2 - a1*b3 + a2*b0 + a3*b1) (a0*b3 + a1*b2 - a2*b1 + a3*b0)).2.2.1,
       (mju_normalize4 (a0*b0 - a1*b1 - a2*b2 - a3*b3) (a0*b1 + a1*b0 + a2*b3 - a3*b2)
          (a0*b2 - a1*b3 + a2*b0 + a3*b1) (a0*b3 + a1*b2 - a2*b1 + a3*b0)).2.2.2.1,
       (mju_normalize4 (a0*b0 - a1*b1 - a2*b2 - a3*b3) (a0*b1 + a1*b0 + a2*b3 - a3*b2)
          (a0*b2 - a1*b3 + a2*b0 + a3*b1) (a0*b3 + a1*b2 - a2*b1 + a3*b0)).2.2.2.2) := by
  simp only [mju_mulPose, rotF, real_beq, real_ofInt, decide_eq_true_eq, Bool.decide_and,
    Bool.and_eq_true]
  push_cast
  split_ifs with h
  · obtain ⟨⟨⟨rfl, rfl⟩, rfl⟩, rfl⟩ := h; simp
  · first | rfl | (simp only [Prod.mk.injEq]; tuple_ring)

theorem mju_negPose_eq (p0 p1 p2 q0 q1 q2 q3 : ℝ) :
    mju_negPose p0 p1 p2 q0 q1 q2 q3 =
      (-(rotF p0 p1 p2 q0 (-q1) (-q2) (-q3)).1, -(rotF p0 p1 p2 q0 (-q1) (-q2) (-q3)).2.1,
       -(rotF p0 p1 p2 q0 (-q1) (-q2) (-q3)).2.2, q0, -q1, -q2, -q3) := by
  simp only [mju_negPose, rotF, real_beq, real_ofInt, decide_eq_true_eq, Bool.decide_and,
    Bool.and_eq_true]
  push_cast
  split_ifs with h
  · obtain ⟨⟨⟨rfl, h1⟩, h2⟩, h3⟩ := h
    have e1 : q1 = 0 := by linarith
    have e2 : q2 = 0 := by linarith
    have e3 : q3 = 0 := by linarith
    subst e1 e2 e3; simp
  · simp only [Prod.mk.injEq]; tuple_ring

theorem mju_trnVecPose_eq (p0 p1 p2 q0 q1 q2 q3 v0 v1 v2 : ℝ) :
    mju_trnVecPose p0 p1 p2 q0 q1 q2 q3 v0 v1 v2 =
      ((rotF v0 v1 v2 q0 q1 q2 q3).1 + p0, (rotF v0 v1 v2 q0 q1 q2 q3).2.1 + p1,
       (rotF v0 v1 v2 q0 q1 q2 q3).2.2 + p2) := by
  simp only [mju_trnVecPose, rotF, real_beq, real_ofInt, decide_eq_true_eq, Bool.decide_and,
    Bool.and_eq_true]
  push_cast
  split_ifs with h
  · obtain ⟨⟨⟨rfl, rfl⟩, rfl⟩, rfl⟩ := h; simp
  · first | rfl | (simp only [Prod.mk.injEq]; tuple_ring)

/-- `mju_quatIntegrate` = normalise the quaternion, multiply on the right by the axis-angle quaternion of
the normalised velocity with angle `scale * |vel|` (structure of the generated code, all branches) -/
theorem mju_quatIntegrate_eq (q0 q1 q2 q3 v0 v1 v2 h : ℝ) :
    mju_quatIntegrate q0 q1 q2 q3 v0 v1 v2 h =
      (let n3 := mju_normalize3 v0 v1 v2
       let qr := mju_axisAngle2Quat n3.2.1 n3.2.2.1 n3.2.2.2 (h * n3.1)
       let n4 := mju_normalize4 q0 q1 q2 q3
       mju_mulQuat n4.2.1 n4.2.2.1 n4.2.2.2.1 n4.2.2.2.2 qr.1 qr.2.1 qr.2.2.1 qr.2.2.2) := rfl

/-- `mju_subQuat qa qb` is `mju_quat2Vel (conj qb * qa) 1` (the generated code inlines both) -/
theorem mju_subQuat_eq (a0 a1 a2 a3 b0 b1 b2 b3 : ℝ) :
    mju_subQuat a0 a1 a2 a3 b0 b1 b2 b3 =
      (let d := mju_mulQuat b0 (-b1) (-b2) (-b3) a0 a1 a2 a3
       mju_quat2Vel d.1 d.2.1 d.2.2.1 d.2.2.2 (1 : ℝ)) := by
  simp only [mju_subQuat, mju_quat2Vel, mju_mulQuat, mju_normalize3, real_ofInt]
  push_cast
  first | rfl | (ring_nf; done)

theorem unit3_of_div (a b c n : ℝ) (hn : 0 < n) (hsq : n * n = a*a + b*b + c*c) :
    a / n * (a / n) + b / n * (b / n) + c / n * (c / n) = 1 := by
  have hne : n ≠ 0 := ne_of_gt hn
  have e : a / n * (a / n) + b / n * (b / n) + c / n * (c / n) = (a*a + b*b + c*c) / (n * n) := by
    field_simp
  rw [e, ← hsq]
  exact div_self (mul_ne_zero hne hne)

theorem unit4_of_div (a b c d n : ℝ) (hn : 0 < n) (hsq : n * n = a*a + b*b + c*c + d*d) :
    a / n * (a / n) + b / n * (b / n) + c / n * (c / n) + d / n * (d / n) = 1 := by
  have hne : n ≠ 0 := ne_of_gt hn
  have e : a / n * (a / n) + b / n * (b / n) + c / n * (c / n) + d / n * (d / n)
      = (a*a + b*b + c*c + d*d) / (n * n) := by
    field_simp
  rw [e, ← hsq]
  exact div_self (mul_ne_zero hne hne)

theorem sumsq3_nonneg (a b c : ℝ) : 0 ≤ a*a + b*b + c*c :=
  add_nonneg (add_nonneg (mul_self_nonneg a) (mul_self_nonneg b)) (mul_self_nonneg c)
theorem sumsq4_nonneg (a b c d : ℝ) : 0 ≤ a*a + b*b + c*c + d*d :=
  add_nonneg (sumsq3_nonneg a b c) (mul_self_nonneg d)

/-! ### poses -/

def poseQuat (P : Pose) : Quat := P.2.2.2
def posePos (P : Pose) : Vec3 := (P.1, P.2.1, P.2.2.1)
def mkPose (p : Vec3) (q : Quat) : Pose := (p.1, p.2.1, p.2.2, q)
def poseOne : Pose := (0, 0, 0, 1, 0, 0, 0)
def vadd (a b : Vec3) : Vec3 := (a.1 + b.1, a.2.1 + b.2.1, a.2.2 + b.2.2)
def vneg (a : Vec3) : Vec3 := (-a.1, -a.2.1, -a.2.2)

@[simp] theorem poseQuat_mkPose (p : Vec3) (q : Quat) : poseQuat (mkPose p q) = q := rfl
@[simp] theorem posePos_mkPose (p : Vec3) (q : Quat) : posePos (mkPose p q) = p := rfl
theorem mkPose_eta (P : Pose) : mkPose (posePos P) (poseQuat P) = P := rfl

/-- `mju_rotVecQuat` is linear in the vector (every quaternion) -/
theorem rotVecQuat_vadd (u w : Vec3) (q : Quat) :
    rotVecQuat (vadd u w) q = vadd (rotVecQuat u q) (rotVecQuat w q) := by
  obtain ⟨u0, u1, u2⟩ := u; obtain ⟨w0, w1, w2⟩ := w; obtain ⟨q0, q1, q2, q3⟩ := q
  simp only [rotVecQuat, vadd, mju_rotVecQuat_eq, rotF, Prod.mk.injEq]
  tuple_ring

theorem rotVecQuat_vneg (u : Vec3) (q : Quat) : rotVecQuat (vneg u) q = vneg (rotVecQuat u q) := by
  obtain ⟨u0, u1, u2⟩ := u; obtain ⟨q0, q1, q2, q3⟩ := q
  simp only [rotVecQuat, vneg, mju_rotVecQuat_eq, rotF, Prod.mk.injEq]
  tuple_ring

theorem vadd3_assoc (a b c : Vec3) : vadd (vadd a b) c = vadd a (vadd b c) := by
  simp only [vadd, Prod.mk.injEq]; tuple_ring
theorem vadd3_vneg (a : Vec3) : vadd a (vneg a) = (0, 0, 0) := by
  simp only [vadd, vneg, Prod.mk.injEq]; tuple_ring
theorem vneg_vadd3 (a : Vec3) : vadd (vneg a) a = (0, 0, 0) := by
  simp only [vadd, vneg, Prod.mk.injEq]; tuple_ring
theorem vadd3_zero (a : Vec3) : vadd a (0, 0, 0) = a := by
  obtain ⟨a0, a1, a2⟩ := a
  simp only [vadd, Prod.mk.injEq]; tuple_ring
theorem zero_vadd3 (a : Vec3) : vadd (0, 0, 0) a = a := by
  obtain ⟨a0, a1, a2⟩ := a
  simp only [vadd, Prod.mk.injEq]; tuple_ring

/-- `mju_mulPose`, all inputs: position `rot(pos2, quat1) + pos1`, quaternion `normalize4 (quat1·quat2)` -/
theorem mulPose_eq (A B : Pose) :
    mulPose A B = mkPose (vadd (rotVecQuat (posePos B) (poseQuat A)) (posePos A))
      (normalize4 (mulQuat (poseQuat A) (poseQuat B))).2 := by
  obtain ⟨p0, p1, p2, a0, a1, a2, a3⟩ := A; obtain ⟨r0, r1, r2, b0, b1, b2, b3⟩ := B
  simp only [mulPose, mkPose, vadd, rotVecQuat, posePos, poseQuat, normalize4, mulQuat, mju_mulPose_eq,
    mju_rotVecQuat_eq, mju_mulQuat_eq]

/-- `mju_negPose`, all inputs -/
theorem negPose_eq (P : Pose) :
    negPose P = mkPose (vneg (rotVecQuat (posePos P) (negQuat (poseQuat P)))) (negQuat (poseQuat P)) := by
  obtain ⟨p0, p1, p2, q0, q1, q2, q3⟩ := P
  simp only [negPose, mkPose, vneg, rotVecQuat, posePos, poseQuat, negQuat, mju_negPose_eq,
    mju_rotVecQuat_eq, mju_negQuat_eq]

/-- `mju_trnVecPose`, all inputs -/
theorem trnVecPose_eq (P : Pose) (v : Vec3) :
    trnVecPose P v = vadd (rotVecQuat v (poseQuat P)) (posePos P) := by
  obtain ⟨p0, p1, p2, q0, q1, q2, q3⟩ := P; obtain ⟨v0, v1, v2⟩ := v
  simp only [trnVecPose, vadd, rotVecQuat, posePos, poseQuat, mju_trnVecPose_eq, mju_rotVecQuat_eq]

/-! ### helpers for `mju_mat2Quat` -/

theorem pivot_pos (x E : ℝ) (hE : E = (2*x)^2) (hx : 0 < x) : 1/2 * Real.sqrt E = x := by
  rw [hE, Real.sqrt_sq (by linarith)]; ring
theorem pivot_neg (x E : ℝ) (hE : E = (2*x)^2) (hx : x < 0) : 1/2 * Real.sqrt E = -x := by
  have : (2*x)^2 = (2*(-x))^2 := by ring
  rw [hE, this, Real.sqrt_sq (by linarith)]; ring
theorem neg_unit (q0 q1 q2 q3 : ℝ) (h : q0*q0+q1*q1+q2*q2+q3*q3 = 1) :
    (-q0)*(-q0)+(-q1)*(-q1)+(-q2)*(-q2)+(-q3)*(-q3) = 1 := by linear_combination h


/-! ### `mju_quat2Vel` of an axis-angle quaternion (stage 2, trigonometric) -/

theorem piLit_lt_pi : piLit < Real.pi := by
  have := Real.pi_gt_d20
  unfold piLit
  norm_num at this ⊢
  linarith

theorem piLit_pos : 0 < piLit := by unfold piLit; norm_num

/-- C `atan2(|sin x|, cos x) = |x|` for |x| < π/2 -/
theorem realAtan2_abs_sin_cos (x : ℝ) (h1 : -(Real.pi / 2) < x) (h2 : x < Real.pi / 2) :
    realAtan2 |Real.sin x| (Real.cos x) = |x| := by
  have hc : 0 < Real.cos x := Real.cos_pos_of_mem_Ioo ⟨h1, h2⟩
  unfold realAtan2
  rw [if_pos hc]
  rcases le_or_gt 0 x with hx | hx
  · have hs : 0 ≤ Real.sin x := Real.sin_nonneg_of_nonneg_of_le_pi hx (by linarith [Real.pi_pos])
    rw [abs_of_nonneg hs, abs_of_nonneg hx, ← Real.tan_eq_sin_div_cos, Real.arctan_tan h1 h2]
  · have hs : Real.sin x < 0 := Real.sin_neg_of_neg_of_neg_pi_lt hx (by linarith [Real.pi_pos])
    rw [abs_of_neg hs, abs_of_neg hx, ← Real.sin_neg, ← Real.cos_neg x, ← Real.tan_eq_sin_div_cos,
      Real.arctan_tan (by linarith) (by linarith)]

theorem mju_quat2Vel_axisAngle (u0 u1 u2 a : ℝ) (hu : u0*u0 + u1*u1 + u2*u2 = 1) (ha : |a| ≤ piLit)
    (hs : minval ≤ |Real.sin (a * (1/2))|) :
    mju_quat2Vel (Real.cos (a * (1/2))) (u0 * Real.sin (a * (1/2))) (u1 * Real.sin (a * (1/2)))
      (u2 * Real.sin (a * (1/2))) 1 = (u0 * a, u1 * a, u2 * a) := by
  have hpi := piLit_lt_pi
  have hx1 : -(Real.pi / 2) < a * (1/2) := by have := (abs_le.mp ha).1; linarith
  have hx2 : a * (1/2) < Real.pi / 2 := by have := (abs_le.mp ha).2; linarith
  have hat := realAtan2_abs_sin_cos (a * (1/2)) hx1 hx2
  set s := Real.sin (a * (1/2)) with hs_def
  set c := Real.cos (a * (1/2)) with hc_def
  have hsq : Real.sqrt (u0 * s * (u0 * s) + u1 * s * (u1 * s) + u2 * s * (u2 * s)) = |s| := by
    rw [show u0 * s * (u0 * s) + u1 * s * (u1 * s) + u2 * s * (u2 * s) = s ^ 2 by
      linear_combination s ^ 2 * hu]
    exact Real.sqrt_sq_eq_abs s
  have hspos : 0 < |s| := lt_of_lt_of_le minval_pos hs
  have hsne : s ≠ 0 := abs_pos.mp hspos
  simp only [mju_quat2Vel, mju_normalize3_eq, real_ofInt, real_atan2, ofSci_pi, decide_eq_true_eq, real_lt_iff]
  push_cast
  rw [hsq, if_neg (not_lt.mpr hs), hat]
  have hnl : ¬ (piLit < 2 * |a * (1/2)|) := by
    rw [abs_mul, abs_of_pos (by norm_num : (0:ℝ) < 1/2)]
    intro h; linarith
  rw [if_neg hnl]
  rcases lt_or_gt_of_ne hsne with hneg | hpos
  · have hane : a < 0 := by
      by_contra hcon
      have : 0 ≤ s := Real.sin_nonneg_of_nonneg_of_le_pi (by linarith [not_lt.mp hcon]) (by linarith [Real.pi_pos])
      linarith
    rw [abs_of_neg hneg, abs_of_neg (by linarith : a * (1/2) < 0)]
    simp only [Prod.mk.injEq]
    refine ⟨?_, ?_, ?_⟩ <;> first | (field_simp; done) | (field_simp; ring)
  · have hapos : 0 < a := by
      by_contra hcon
      have hle : a ≤ 0 := not_lt.mp hcon
      rcases eq_or_lt_of_le hle with h0 | hlt
      · rw [hs_def, h0] at hpos; simp at hpos
      · have : s < 0 := Real.sin_neg_of_neg_of_neg_pi_lt (by linarith) (by linarith [Real.pi_pos])
        linarith
    rw [abs_of_pos hpos, abs_of_pos (by linarith : 0 < a * (1/2))]
    simp only [Prod.mk.injEq]
    refine ⟨?_, ?_, ?_⟩ <;> first | (field_simp; done) | (field_simp; ring)


/-! ### helper for `mjd_quatIntegrate` -/

/-- entries of `a I + b [s]ₓᵀ + c s sᵀ` (a = cos x, b = sin x / x, c = (1 - cos x)/x², written with the half-angle
S = sin(x/2), C = cos(x/2)) against the matrix of the conjugate axis-angle quaternion (C, -(s/x) S) -/
theorem dquat_entries (x s0 s1 s2 S C : ℝ) (hx : x ≠ 0) (hxx : x * x = s0*s0 + s1*s1 + s2*s2)
    (hsc : S^2 + C^2 = 1) :
    ((2*C^2 - 1) * 1 + (2*S*C) / x * 0 + (1 - (2*C^2 - 1)) / (s0*s0 + s1*s1 + s2*s2) * (s0*s0),
     (2*C^2 - 1) * 0 + (2*S*C) / x * s2 + (1 - (2*C^2 - 1)) / (s0*s0 + s1*s1 + s2*s2) * (s0*s1),
     (2*C^2 - 1) * 0 + (2*S*C) / x * (-s1) + (1 - (2*C^2 - 1)) / (s0*s0 + s1*s1 + s2*s2) * (s0*s2),
     (2*C^2 - 1) * 0 + (2*S*C) / x * (-s2) + (1 - (2*C^2 - 1)) / (s0*s0 + s1*s1 + s2*s2) * (s1*s0),
     (2*C^2 - 1) * 1 + (2*S*C) / x * 0 + (1 - (2*C^2 - 1)) / (s0*s0 + s1*s1 + s2*s2) * (s1*s1),
     (2*C^2 - 1) * 0 + (2*S*C) / x * s0 + (1 - (2*C^2 - 1)) / (s0*s0 + s1*s1 + s2*s2) * (s1*s2),
     (2*C^2 - 1) * 0 + (2*S*C) / x * s1 + (1 - (2*C^2 - 1)) / (s0*s0 + s1*s1 + s2*s2) * (s2*s0),
     (2*C^2 - 1) * 0 + (2*S*C) / x * (-s0) + (1 - (2*C^2 - 1)) / (s0*s0 + s1*s1 + s2*s2) * (s2*s1),
     (2*C^2 - 1) * 1 + (2*S*C) / x * 0 + (1 - (2*C^2 - 1)) / (s0*s0 + s1*s1 + s2*s2) * (s2*s2))
    = (C*C + (-(s0/x*S))*(-(s0/x*S)) - (-(s1/x*S))*(-(s1/x*S)) - (-(s2/x*S))*(-(s2/x*S)),
       2 * ((-(s0/x*S))*(-(s1/x*S)) - C*(-(s2/x*S))),
       2 * ((-(s0/x*S))*(-(s2/x*S)) + C*(-(s1/x*S))),
       2 * ((-(s0/x*S))*(-(s1/x*S)) + C*(-(s2/x*S))),
       C*C - (-(s0/x*S))*(-(s0/x*S)) + (-(s1/x*S))*(-(s1/x*S)) - (-(s2/x*S))*(-(s2/x*S)),
       2 * ((-(s1/x*S))*(-(s2/x*S)) - C*(-(s0/x*S))),
       2 * ((-(s0/x*S))*(-(s2/x*S)) - C*(-(s1/x*S))),
       2 * ((-(s1/x*S))*(-(s2/x*S)) + C*(-(s0/x*S))),
       C*C - (-(s0/x*S))*(-(s0/x*S)) - (-(s1/x*S))*(-(s1/x*S)) + (-(s2/x*S))*(-(s2/x*S))) := by
  rw [← hxx]
  simp only [Prod.mk.injEq]
  refine ⟨?_, ?_, ?_, ?_, ?_, ?_, ?_, ?_, ?_⟩
  · field_simp
    linear_combination (-2*s0^2 + x^2) * hsc + (-S^2) * hxx
  · field_simp
    linear_combination (-2*s0*s1) * hsc + (0) * hxx
  · field_simp
    linear_combination (-2*s0*s2) * hsc + (0) * hxx
  · field_simp
    linear_combination (-2*s0*s1) * hsc + (0) * hxx
  · field_simp
    linear_combination (-2*s1^2 + x^2) * hsc + (-S^2) * hxx
  · field_simp
    linear_combination (-2*s1*s2) * hsc + (0) * hxx
  · field_simp
    linear_combination (-2*s0*s2) * hsc + (0) * hxx
  · field_simp
    linear_combination (-2*s1*s2) * hsc + (0) * hxx
  · field_simp
    linear_combination (-2*s2^2 + x^2) * hsc + (-S^2) * hxx


end MjProof.Spatial
