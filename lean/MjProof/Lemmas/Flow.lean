/-
Soundness of the abstract dataflow analysis of Model/Prog.lean, for every interpretation of the atomic
stages that respects the footprint table, every model-constant environment that extends the assumed
knowledge, every parameter environment and every loop fuel:

* `abs_sound`   (non-interference): two data that agree on a set `I` of groups containing the abstract
                read-before-write set run in lock step (same outcome) and agree afterwards on `I` and
                on the groups the analysis reports as determined;
* `frame_sound` a group outside the abstract may-write set is unchanged;
* `simp_sim`    the normaliser `simp` preserves the meaning of a program up to the groups `E`.
Core Lean only.
-/
import MjProof.Model.Prog

namespace MjProof.Prog

/-! ### list sets -/
section Sets
variable {G : Type} [DecidableEq G]

theorem mem_uni {a b : List G} {g : G} : g ∈ uni a b ↔ g ∈ a ∨ g ∈ b := by
  unfold uni
  simp only [List.mem_append, List.mem_filter, decide_eq_true_eq]
  constructor
  · rintro (h | ⟨h, _⟩)
    · exact Or.inl h
    · exact Or.inr h
  · rintro (h | h)
    · exact Or.inl h
    · by_cases ha : g ∈ a
      · exact Or.inl ha
      · exact Or.inr ⟨h, ha⟩

theorem mem_diff {a b : List G} {g : G} : g ∈ diff a b ↔ g ∈ a ∧ g ∉ b := by
  unfold diff; simp [List.mem_filter]

theorem mem_inter {a b : List G} {g : G} : g ∈ inter a b ↔ g ∈ a ∧ g ∈ b := by
  unfold inter; simp [List.mem_filter]

theorem subset_iff {a b : List G} : subset a b = true ↔ ∀ g, g ∈ a → g ∈ b := by
  unfold subset; simp [List.all_eq_true]

theorem disjoint_iff {a b : List G} : disjoint a b = true ↔ ∀ g, g ∈ a → g ∉ b := by
  unfold disjoint; simp [List.all_eq_true]

end Sets

/-! ### data, agreement, interpretations that respect footprints -/
section Defs
variable {G V : Type}

/-- two data agree on the groups of `I` -/
def Agree (I : List G) (d d' : G → V) : Prop := ∀ g, g ∈ I → d g = d' g

/-- two data agree outside the groups of `E` -/
def AgreeOff (E : List G) (d d' : G → V) : Prop := ∀ g, g ∉ E → d g = d' g

theorem Agree.mono {I J : List G} {d d' : G → V} (h : Agree I d d') (hJ : ∀ g, g ∈ J → g ∈ I) : Agree J d d' :=
  fun g hg => h g (hJ g hg)

theorem Agree.refl (I : List G) (d : G → V) : Agree I d d := fun _ _ => rfl

theorem Agree.nil (d d' : G → V) : Agree ([] : List G) d d' := fun _ h => by cases h

theorem Agree.append {I J : List G} {d d' : G → V} (h : Agree I d d') (h' : Agree J d d') : Agree (I ++ J) d d' := by
  intro g hg
  rcases List.mem_append.mp hg with h1 | h1
  · exact h g h1
  · exact h' g h1

/-- `f` behaves as the footprint says: groups outside `W` are unchanged; the new value of a group of
    `W` is a function of the `R` groups, and for a group outside `K` also of its own old value -/
structure RespectsFp (f : (G → V) → (G → V)) (fp : Footprint G) : Prop where
  frame : ∀ d g, g ∉ fp.W → f d g = d g
  dep : ∀ d d', Agree fp.R d d' → ∀ g, g ∈ fp.W → (g ∈ fp.K ∨ d g = d' g) → f d g = f d' g

/-- a data-dependent guard leaf depends only on the groups of the fields it reads -/
def GuardRespects (C : FpCtx G) (S : Sem (G → V)) : Guard → Prop
  | .data s rs => ∀ d d', Agree (C.cls rs) d d' → S.guard s d = S.guard s d'
  | .not g => GuardRespects C S g
  | .and a b => GuardRespects C S a ∧ GuardRespects C S b
  | .or a b => GuardRespects C S a ∧ GuardRespects C S b
  | _ => True

/-- the interpretation respects the footprint of every atom / stage / guard of the program -/
def Respects (C : FpCtx G) (S : Sem (G → V)) : Prog → Prop
  | .atom t r w k => RespectsFp (S.atom t) (C.atom t r w k)
  | .call _ key _ => ∀ fp, C.stage key = some fp → RespectsFp (S.atom key) fp
  | .seq p q => Respects C S p ∧ Respects C S q
  | .ite g t e => GuardRespects C S g ∧ Respects C S t ∧ Respects C S e
  | .loop g p => GuardRespects C S g ∧ Respects C S p
  | .scope _ _ p => Respects C S p
  | _ => True

/-- the concrete constants extend the assumed knowledge -/
structure Extends {D : Type} (M : MEnv) (S : Sem D) (K : Known) : Prop where
  mconst : ∀ s b, K.mconst s = some b → M.mconst s = b
  label : ∀ on l, K.label on = some l → M.label on = l
  data : ∀ s b, K.data s = some b → ∀ d, S.guard s d = b

/-- the abstract parameter environment knows no more than the concrete one -/
def EnvLe (a e : Env) : Prop := ∀ x n, a.get x = some n → e.get x = some n

end Defs

/-! ### environments and guards -/

theorem EnvLe.refl (e : Env) : EnvLe e e := fun _ _ h => h

theorem Term.eval_le {a e : Env} (h : EnvLe a e) {t : Term} {n : Int} (ht : t.eval a = some n) : t.eval e = some n := by
  cases t with
  | const m nm => simpa [Term.eval] using ht
  | param x => exact h x n (by simpa [Term.eval] using ht)
  | other s => simp [Term.eval] at ht

theorem bindEnv_le {a e : Env} (h : EnvLe a e) (b : List (String × Term)) : EnvLe (bindEnv a b) (bindEnv e b) := by
  intro x n
  induction b with
  | nil => simp [bindEnv, Env.get]
  | cons hd tl ih =>
    simp only [bindEnv, List.map_cons, Env.get, List.lookup_cons] at ih ⊢
    by_cases hx : x == hd.1
    · simp only [hx]
      intro h1
      have : hd.2.eval a = some n := by simpa using h1
      simpa using Term.eval_le h this
    · simp only [hx]
      exact ih

section Guards
variable {G V : Type} [DecidableEq G]

omit [DecidableEq G] in
theorem mem_cls_append {C : FpCtx G} {a b : List String} {g : G} :
    g ∈ C.cls (a ++ b) ↔ g ∈ C.cls a ∨ g ∈ C.cls b := by
  simp [FpCtx.cls, List.flatMap_append]

/-- a guard evaluates identically on two data that agree on the groups it reads -/
theorem Guard.eval_agree {C : FpCtx G} {S : Sem (G → V)} (M : MEnv) (env : Env) {g : Guard}
    (hg : GuardRespects C S g) {d d' : G → V} (h : Agree (C.cls g.reads) d d') :
    g.eval M S env d = g.eval M S env d' := by
  induction g with
  | mconst s => rfl
  | data s rs => simp only [Guard.eval]; rw [hg d d' h]
  | islabel on ls => rfl
  | not g ih => simp only [Guard.eval]; rw [ih hg h]
  | and a b iha ihb =>
    have ha := iha hg.1 (h.mono (fun g hg => mem_cls_append.mpr (Or.inl hg)))
    have hb := ihb hg.2 (h.mono (fun g hg => mem_cls_append.mpr (Or.inr hg)))
    simp only [Guard.eval, ha, hb]
  | or a b iha ihb =>
    have ha := iha hg.1 (h.mono (fun g hg => mem_cls_append.mpr (Or.inl hg)))
    have hb := ihb hg.2 (h.mono (fun g hg => mem_cls_append.mpr (Or.inr hg)))
    simp only [Guard.eval, ha, hb]
  | cmp op a b => rfl
  | truthy a => rfl

/-- what the abstract evaluation decides, the concrete evaluation confirms -/
theorem Guard.aeval_sound {D : Type} {M : MEnv} {S : Sem D} {K : Known} (hK : Extends M S K) {a e : Env} (hle : EnvLe a e)
    (d : D) {g : Guard} {b : Bool} (h : g.aeval K a = some b) : g.eval M S e d = some b := by
  induction g generalizing b with
  | mconst s => simp only [Guard.aeval] at h; simp [Guard.eval, hK.mconst s b h]
  | data s rs => simp only [Guard.aeval] at h; simp [Guard.eval, hK.data s b h d]
  | islabel on ls =>
    simp only [Guard.aeval] at h
    cases hl : K.label on with
    | none => simp [hl] at h
    | some l =>
      simp only [hl, Option.map_some, Option.some.injEq] at h
      subst h
      simp [Guard.eval, hK.label on l hl]
  | not g ih =>
    simp only [Guard.aeval] at h
    cases hg : g.aeval K a with
    | none => simp [hg] at h
    | some x =>
      simp only [hg, Option.map_some, Option.some.injEq] at h
      simp [Guard.eval, ih hg, h]
  | and x y ihx ihy =>
    simp only [Guard.aeval] at h
    cases hx : x.aeval K a with
    | none => simp [hx] at h
    | some bx =>
      cases bx with
      | false =>
        simp only [hx, Option.some.injEq] at h
        simp [Guard.eval, ihx hx, ← h]
      | true =>
        simp only [hx] at h
        simp [Guard.eval, ihx hx, ihy h]
  | or x y ihx ihy =>
    simp only [Guard.aeval] at h
    cases hx : x.aeval K a with
    | none => simp [hx] at h
    | some bx =>
      cases bx with
      | true =>
        simp only [hx, Option.some.injEq] at h
        simp [Guard.eval, ihx hx, ← h]
      | false =>
        simp only [hx] at h
        simp [Guard.eval, ihx hx, ihy h]
  | cmp op x y =>
    simp only [Guard.aeval] at h
    cases hx : x.eval a with
    | none => simp [hx] at h
    | some vx =>
      cases hy : y.eval a with
      | none => simp [hx, hy] at h
      | some vy =>
        simp only [hx, hy, Option.some.injEq] at h
        simp [Guard.eval, Term.eval_le hle hx, Term.eval_le hle hy, h]
  | truthy x =>
    simp only [Guard.aeval] at h
    cases hx : x.eval a with
    | none => simp [hx] at h
    | some vx =>
      simp only [hx, Option.map_some, Option.some.injEq] at h
      subst h
      simp [Guard.eval, Term.eval_le hle hx]

end Guards

/-! ### unfolding `run` -/
section RunLemmas
variable {D : Type} (fuel : Nat) (M : MEnv) (S : Sem D)

theorem run_seq_norm {env : Env} {p q : Prog} {d d1 : D} (h : run fuel M S env p d = (.norm, d1)) :
    run fuel M S env (.seq p q) d = run fuel M S env q d1 := by
  simp [run, h]

theorem run_seq_stop {env : Env} {p q : Prog} {d : D} (h : (run fuel M S env p d).1 ≠ .norm) :
    run fuel M S env (.seq p q) d = run fuel M S env p d := by
  rcases hr : run fuel M S env p d with ⟨o, d1⟩
  rw [hr] at h
  cases o <;> simp_all [run]

theorem run_ite_none {env : Env} {g : Guard} {t e : Prog} {d : D} (h : g.eval M S env d = none) :
    run fuel M S env (.ite g t e) d = (.stuck, d) := by
  simp [run, h]

theorem run_ite_true {env : Env} {g : Guard} {t e : Prog} {d : D} (h : g.eval M S env d = some true) :
    run fuel M S env (.ite g t e) d = run fuel M S env t d := by
  simp [run, h]

theorem run_ite_false {env : Env} {g : Guard} {t e : Prog} {d : D} (h : g.eval M S env d = some false) :
    run fuel M S env (.ite g t e) d = run fuel M S env e d := by
  simp [run, h]

theorem run_scope_ret {env : Env} {f : String} {b : List (String × Term)} {p : Prog} {d d1 : D}
    (h : run fuel M S (bindEnv env b) p d = (.ret, d1)) : run fuel M S env (.scope f b p) d = (.norm, d1) := by
  simp [run, h]

theorem run_scope_other {env : Env} {f : String} {b : List (String × Term)} {p : Prog} {d : D}
    (h : (run fuel M S (bindEnv env b) p d).1 ≠ .ret) :
    run fuel M S env (.scope f b p) d = run fuel M S (bindEnv env b) p d := by
  rcases hr : run fuel M S (bindEnv env b) p d with ⟨o, d1⟩
  rw [hr] at h
  cases o <;> simp_all [run]

theorem run_loop {env : Env} {g : Guard} {p : Prog} {d : D} :
    run fuel M S env (.loop g p) d =
      loopD (fun d => g.eval M S env d) (fun d => run fuel M S env p d) fuel d := by
  simp [run]

end RunLemmas

/-! ### lock-step lemma for two loops -/
section Loops
variable {D : Type} {cond : D → Option Bool} {body : D → Outcome × D}

theorem loopD_none {n : Nat} {d : D} (h : cond d = none) : loopD cond body (n + 1) d = (.stuck, d) := by
  simp [loopD, h]

theorem loopD_false {n : Nat} {d : D} (h : cond d = some false) : loopD cond body (n + 1) d = (.norm, d) := by
  simp [loopD, h]

theorem loopD_true_norm {n : Nat} {d d1 : D} (h : cond d = some true) (hb : body d = (.norm, d1)) :
    loopD cond body (n + 1) d = loopD cond body n d1 := by
  simp [loopD, h, hb]

theorem loopD_true_stop {n : Nat} {d : D} (h : cond d = some true) (hb : (body d).1 ≠ .norm) :
    loopD cond body (n + 1) d = body d := by
  rcases hr : body d with ⟨o, d1⟩
  rw [hr] at hb
  cases o <;> simp_all [loopD]

/-- two `while` loops whose guards agree and whose bodies preserve a relation `P` (and establish `Q` when
    they stop early) produce the same outcome, `P`-related data, and `Q` when they end by `ret` -/
theorem loopD_rel (P : D → D → Prop) (Q : D → D → Prop)
    (cond cond' : D → Option Bool) (body body' : D → Outcome × D)
    (hc : ∀ d d', P d d' → cond d = cond' d')
    (hb : ∀ d d', P d d' → (body d).1 = (body' d').1 ∧ P (body d).2 (body' d').2 ∧
      ((body d).1 = .ret → Q (body d).2 (body' d').2)) :
    ∀ n d d', P d d' →
      (loopD cond body n d).1 = (loopD cond' body' n d').1 ∧
      P (loopD cond body n d).2 (loopD cond' body' n d').2 ∧
      ((loopD cond body n d).1 = .ret → Q (loopD cond body n d).2 (loopD cond' body' n d').2) := by
  intro n
  induction n with
  | zero =>
    intro d d' h
    refine ⟨rfl, h, ?_⟩
    intro h'; simp [loopD] at h'
  | succ n ih =>
    intro d d' h
    have hcd := hc d d' h
    cases hcv : cond d with
    | none =>
      rw [loopD_none hcv, loopD_none (hcd ▸ hcv)]
      exact ⟨rfl, h, (fun h' => by cases h')⟩
    | some b =>
      cases b with
      | false =>
        rw [loopD_false hcv, loopD_false (hcd ▸ hcv)]
        exact ⟨rfl, h, (fun h' => by cases h')⟩
      | true =>
        obtain ⟨h1, h2, h3⟩ := hb d d' h
        by_cases hn : (body d).1 = .norm
        · have hn' : (body' d').1 = .norm := by rw [← h1]; exact hn
          have e1 : body d = (.norm, (body d).2) := by rw [← hn]
          have e2 : body' d' = (.norm, (body' d').2) := by rw [← hn']
          rw [loopD_true_norm hcv e1, loopD_true_norm (hcd ▸ hcv) e2]
          exact ih _ _ h2
        · have hn' : (body' d').1 ≠ .norm := by rw [← h1]; exact hn
          rw [loopD_true_stop hcv hn, loopD_true_stop (hcd ▸ hcv) hn']
          exact ⟨h1, h2, h3⟩

end Loops

/-! ### soundness of `abs` (non-interference) -/
section Sound
variable {G V : Type} [DecidableEq G]

/-- relation between the results of two runs, given the analysis result `a` -/
structure Rel (I : List G) (a : AFlow G) (r r' : Outcome × (G → V)) : Prop where
  out : r.1 = r'.1
  agree : Agree I r.2 r'.2
  norm : r.1 = .norm → ∃ k, a.killN = some k ∧ Agree k r.2 r'.2
  ret : r.1 = .ret → ∃ k, a.killR = some k ∧ Agree k r.2 r'.2

theorem Rel.congr {I : List G} {a b : AFlow G} {r r' : Outcome × (G → V)} (h : Rel I a r r')
    (hN : a.killN = b.killN) (hR : a.killR = b.killR) : Rel I b r r' :=
  ⟨h.out, h.agree, hN ▸ h.norm, hR ▸ h.ret⟩

theorem meet_left {x y : Option (List G)} {k : List G} (h : x = some k) :
    ∃ k', meet x y = some k' ∧ ∀ g, g ∈ k' → g ∈ k := by
  subst h
  cases y with
  | none => exact ⟨k, rfl, fun _ h => h⟩
  | some b => exact ⟨inter k b, rfl, fun g hg => (mem_inter.mp hg).1⟩

theorem meet_right {x y : Option (List G)} {k : List G} (h : y = some k) :
    ∃ k', meet x y = some k' ∧ ∀ g, g ∈ k' → g ∈ k := by
  subst h
  cases x with
  | none => exact ⟨k, rfl, fun _ h => h⟩
  | some a => exact ⟨inter a k, rfl, fun g hg => (mem_inter.mp hg).2⟩

theorem Rel.join_left {I : List G} {a b : AFlow G} {r r' : Outcome × (G → V)} (h : Rel I a r r') :
    Rel I (a.join b) r r' := by
  refine ⟨h.out, h.agree, ?_, ?_⟩
  · intro hn
    obtain ⟨k, hk, hag⟩ := h.norm hn
    obtain ⟨k', hk', hsub⟩ := meet_left (y := b.killN) hk
    exact ⟨k', hk', hag.mono hsub⟩
  · intro hn
    obtain ⟨k, hk, hag⟩ := h.ret hn
    obtain ⟨k', hk', hsub⟩ := meet_left (y := b.killR) hk
    exact ⟨k', hk', hag.mono hsub⟩

theorem Rel.join_right {I : List G} {a b : AFlow G} {r r' : Outcome × (G → V)} (h : Rel I b r r') :
    Rel I (a.join b) r r' := by
  refine ⟨h.out, h.agree, ?_, ?_⟩
  · intro hn
    obtain ⟨k, hk, hag⟩ := h.norm hn
    obtain ⟨k', hk', hsub⟩ := meet_right (x := a.killN) hk
    exact ⟨k', hk', hag.mono hsub⟩
  · intro hn
    obtain ⟨k, hk, hag⟩ := h.ret hn
    obtain ⟨k', hk', hsub⟩ := meet_right (x := a.killR) hk
    exact ⟨k', hk', hag.mono hsub⟩

theorem atom_rel {f : (G → V) → (G → V)} {fp : Footprint G} (hf : RespectsFp f fp) {I : List G}
    (hI : ∀ g, g ∈ fp.R → g ∈ I) {d d' : G → V} (hag : Agree I d d') :
    Rel I (AFlow.ofFp fp) (Outcome.norm, f d) (Outcome.norm, f d') := by
  refine ⟨rfl, ?_, ?_, ?_⟩
  · intro g hg
    by_cases hw : g ∈ fp.W
    · exact hf.dep d d' (hag.mono hI) g hw (Or.inr (hag g hg))
    · simp only [hf.frame d g hw, hf.frame d' g hw]; exact hag g hg
  · intro _
    refine ⟨inter fp.K fp.W, rfl, ?_⟩
    intro g hg
    have := mem_inter.mp hg
    exact hf.dep d d' (hag.mono hI) g this.2 (Or.inl this.1)
  · intro h; cases h

/-- **Soundness of the analysis / non-interference.**  For every interpretation respecting the
    footprints, every constant environment extending the assumed knowledge, every parameter
    environment and fuel: two data that agree on `I ⊇ rbw` run in lock step and agree afterwards on `I`
    and on the groups reported as determined for the way the program terminated. -/
theorem abs_sound {C : FpCtx G} {K : Known} {M : MEnv} {S : Sem (G → V)} (fuel : Nat) (hK : Extends M S K) :
    ∀ (p : Prog) (aenv env : Env), EnvLe aenv env → Respects C S p → (abs C K aenv p).bad = [] →
    ∀ (I : List G), (∀ g, g ∈ (abs C K aenv p).rbw → g ∈ I) → ∀ (d d' : G → V), Agree I d d' →
      Rel I (abs C K aenv p) (run fuel M S env p d) (run fuel M S env p d') := by
  intro p
  induction p with
  | skip =>
    intro aenv env _ _ _ I _ d d' hag
    exact ⟨rfl, hag, fun _ => ⟨[], rfl, Agree.nil _ _⟩, fun h => by cases h⟩
  | call f key args =>
    intro aenv env _ hR hbad I hI d d' hag
    simp only [abs] at hbad hI ⊢
    cases hs : C.stage key with
    | none => simp [hs, AFlow.unknown] at hbad
    | some fp =>
      simp only [hs] at hI ⊢
      exact atom_rel (hR fp hs) hI hag
  | atom t r w k =>
    intro aenv env _ hR _ I hI d d' hag
    exact atom_rel hR hI hag
  | err =>
    intro aenv env _ _ _ I _ d d' hag
    exact ⟨rfl, hag, (fun h => by cases h), (fun h => by cases h)⟩
  | ret =>
    intro aenv env _ _ _ I _ d d' hag
    exact ⟨rfl, hag, (fun h => by cases h), fun _ => ⟨[], rfl, Agree.nil _ _⟩⟩
  | seq p q ihp ihq =>
    intro aenv env hle hR hbad I hI d d' hag
    simp only [abs, AFlow.seq] at hbad hI ⊢
    obtain ⟨hbp, hbq⟩ := List.append_eq_nil_iff.mp hbad
    cases hkn : (abs C K aenv p).killN with
    | none =>
      simp only [hkn] at hI
      have hp := ihp aenv env hle hR.1 hbp I hI d d' hag
      have hne : (run fuel M S env p d).1 ≠ .norm := by
        intro hn
        obtain ⟨k, hk, _⟩ := hp.norm hn
        rw [hkn] at hk; cases hk
      have hne' : (run fuel M S env p d').1 ≠ .norm := by rw [← hp.out]; exact hne
      rw [run_seq_stop fuel M S hne, run_seq_stop fuel M S hne']
      exact ⟨hp.out, hp.agree, fun hn => absurd hn hne, hp.ret⟩
    | some k =>
      simp only [hkn] at hI
      have hIp : ∀ g, g ∈ (abs C K aenv p).rbw → g ∈ I := fun g hg => hI g (mem_uni.mpr (Or.inl hg))
      have hp := ihp aenv env hle hR.1 hbp I hIp d d' hag
      by_cases ho : (run fuel M S env p d).1 = .norm
      · have ho' : (run fuel M S env p d').1 = .norm := by rw [← hp.out]; exact ho
        obtain ⟨k0, hk0, hagk⟩ := hp.norm ho
        rw [hkn] at hk0
        cases hk0
        have e1 : run fuel M S env p d = (.norm, (run fuel M S env p d).2) := by rw [← ho]
        have e2 : run fuel M S env p d' = (.norm, (run fuel M S env p d').2) := by rw [← ho']
        rw [run_seq_norm fuel M S e1, run_seq_norm fuel M S e2]
        have hIq : ∀ g, g ∈ (abs C K aenv q).rbw → g ∈ I ++ k := by
          intro g hg
          by_cases hgk : g ∈ k
          · exact List.mem_append.mpr (Or.inr hgk)
          · exact List.mem_append.mpr (Or.inl (hI g (mem_uni.mpr (Or.inr (mem_diff.mpr ⟨hg, hgk⟩)))))
        have hq := ihq aenv env hle hR.2 hbq (I ++ k) hIq _ _ (hp.agree.append hagk)
        have hku : ∀ kq, Agree kq (run fuel M S env q (run fuel M S env p d).2).2
              (run fuel M S env q (run fuel M S env p d').2).2 →
            Agree (uni k kq) (run fuel M S env q (run fuel M S env p d).2).2
              (run fuel M S env q (run fuel M S env p d').2).2 := by
          intro kq hagq g hg
          rcases mem_uni.mp hg with hgk | hgk
          · exact hq.agree g (List.mem_append.mpr (Or.inr hgk))
          · exact hagq g hgk
        refine ⟨hq.out, hq.agree.mono (fun g hg => List.mem_append.mpr (Or.inl hg)), ?_, ?_⟩
        · intro hn
          obtain ⟨kq, hkq, hagq⟩ := hq.norm hn
          exact ⟨uni k kq, by simp [hkq], hku kq hagq⟩
        · intro hn
          obtain ⟨kq, hkq, hagq⟩ := hq.ret hn
          obtain ⟨k', hk', hsub⟩ := meet_right (x := (abs C K aenv p).killR)
            (y := (abs C K aenv q).killR.map (fun k' => uni k k')) (k := uni k kq) (by simp [hkq])
          exact ⟨k', hk', (hku kq hagq).mono hsub⟩
      · have ho' : (run fuel M S env p d').1 ≠ .norm := by rw [← hp.out]; exact ho
        rw [run_seq_stop fuel M S ho, run_seq_stop fuel M S ho']
        refine ⟨hp.out, hp.agree, fun hn => absurd hn ho, ?_⟩
        intro hret
        obtain ⟨kr, hkr, hagr⟩ := hp.ret hret
        obtain ⟨k', hk', hsub⟩ := meet_left (y := (abs C K aenv q).killR.map (fun k' => uni k k')) hkr
        exact ⟨k', hk', hagr.mono hsub⟩
  | ite g t e iht ihe =>
    intro aenv env hle hR hbad I hI d d' hag
    simp only [abs, AFlow.guarded] at hbad hI
    have hgr : Agree (C.cls g.reads) d d' := hag.mono (fun x hx => hI x (mem_uni.mpr (Or.inl hx)))
    have heq := Guard.eval_agree M env hR.1 hgr
    cases hev : g.eval M S env d with
    | none =>
      rw [run_ite_none fuel M S hev, run_ite_none fuel M S (heq ▸ hev)]
      exact ⟨rfl, hag, (fun h => by cases h), (fun h => by cases h)⟩
    | some b =>
      have hev' : g.eval M S env d' = some b := heq ▸ hev
      cases hae : g.aeval K aenv with
      | some b0 =>
        have := Guard.aeval_sound hK hle d hae
        rw [hev] at this
        cases this
        simp only [hae] at hbad hI
        cases b with
        | true =>
          have hIt : ∀ x, x ∈ (abs C K aenv t).rbw → x ∈ I := fun x hx => hI x (mem_uni.mpr (Or.inr hx))
          rw [run_ite_true fuel M S hev, run_ite_true fuel M S hev']
          refine (iht aenv env hle hR.2.1 hbad I hIt d d' hag).congr ?_ ?_ <;> simp [abs, AFlow.guarded, hae]
        | false =>
          have hIe : ∀ x, x ∈ (abs C K aenv e).rbw → x ∈ I := fun x hx => hI x (mem_uni.mpr (Or.inr hx))
          rw [run_ite_false fuel M S hev, run_ite_false fuel M S hev']
          refine (ihe aenv env hle hR.2.2 hbad I hIe d d' hag).congr ?_ ?_ <;> simp [abs, AFlow.guarded, hae]
      | none =>
        simp only [hae, AFlow.join] at hbad hI
        obtain ⟨hbt, hbe⟩ := List.append_eq_nil_iff.mp hbad
        cases b with
        | true =>
          have hIt : ∀ x, x ∈ (abs C K aenv t).rbw → x ∈ I :=
            fun x hx => hI x (mem_uni.mpr (Or.inr (mem_uni.mpr (Or.inl hx))))
          have := iht aenv env hle hR.2.1 hbt I hIt d d' hag
          rw [run_ite_true fuel M S hev, run_ite_true fuel M S hev']
          refine (Rel.join_left (b := abs C K aenv e) this).congr ?_ ?_ <;> simp [abs, AFlow.guarded, hae]
        | false =>
          have hIe : ∀ x, x ∈ (abs C K aenv e).rbw → x ∈ I :=
            fun x hx => hI x (mem_uni.mpr (Or.inr (mem_uni.mpr (Or.inr hx))))
          have := ihe aenv env hle hR.2.2 hbe I hIe d d' hag
          rw [run_ite_false fuel M S hev, run_ite_false fuel M S hev']
          refine (Rel.join_right (a := abs C K aenv t) this).congr ?_ ?_ <;> simp [abs, AFlow.guarded, hae]
  | loop g p ih =>
    intro aenv env hle hR hbad I hI d d' hag
    simp only [abs, AFlow.loop] at hbad hI
    have hIp : ∀ x, x ∈ (abs C K aenv p).rbw → x ∈ I := fun x hx => hI x (mem_uni.mpr (Or.inr hx))
    have hIg : ∀ x, x ∈ C.cls g.reads → x ∈ I := fun x hx => hI x (mem_uni.mpr (Or.inl hx))
    rw [run_loop, run_loop]
    have key := loopD_rel (D := G → V) (Agree I)
      (fun e e' => ∃ k, (abs C K aenv p).killR = some k ∧ Agree k e e')
      (fun d => g.eval M S env d) (fun d => g.eval M S env d)
      (fun d => run fuel M S env p d) (fun d => run fuel M S env p d)
      (fun e e' h => Guard.eval_agree M env hR.1 (h.mono hIg))
      (fun e e' h => by
        have := ih aenv env hle hR.2 hbad I hIp e e' h
        exact ⟨this.out, this.agree, this.ret⟩)
      fuel d d' hag
    obtain ⟨k1, k2, k3⟩ := key
    refine ⟨k1, k2, fun _ => ⟨[], by simp [abs, AFlow.loop], Agree.nil _ _⟩, ?_⟩
    intro hret
    obtain ⟨k, hk, _⟩ := k3 hret
    exact ⟨[], by simp [abs, AFlow.loop, hk], Agree.nil _ _⟩
  | scope f b p ih =>
    intro aenv env hle hR hbad I hI d d' hag
    simp only [abs, AFlow.close] at hbad hI
    have hp := ih (bindEnv aenv b) (bindEnv env b) (bindEnv_le hle b) hR hbad I hI d d' hag
    by_cases ho : (run fuel M S (bindEnv env b) p d).1 = .ret
    · have ho' : (run fuel M S (bindEnv env b) p d').1 = .ret := by rw [← hp.out]; exact ho
      have e1 : run fuel M S (bindEnv env b) p d = (.ret, (run fuel M S (bindEnv env b) p d).2) := by rw [← ho]
      have e2 : run fuel M S (bindEnv env b) p d' = (.ret, (run fuel M S (bindEnv env b) p d').2) := by rw [← ho']
      rw [run_scope_ret fuel M S e1, run_scope_ret fuel M S e2]
      refine ⟨rfl, hp.agree, ?_, fun h => by cases h⟩
      intro _
      obtain ⟨k, hk, hagk⟩ := hp.ret ho
      obtain ⟨k', hk', hsub⟩ := meet_right (x := (abs C K (bindEnv aenv b) p).killN) hk
      exact ⟨k', by simpa [abs, AFlow.close] using hk', hagk.mono hsub⟩
    · have ho' : (run fuel M S (bindEnv env b) p d').1 ≠ .ret := by rw [← hp.out]; exact ho
      rw [run_scope_other fuel M S ho, run_scope_other fuel M S ho']
      refine ⟨hp.out, hp.agree, ?_, fun h => absurd h ho⟩
      intro hn
      obtain ⟨k, hk, hagk⟩ := hp.norm hn
      obtain ⟨k', hk', hsub⟩ := meet_left (y := (abs C K (bindEnv aenv b) p).killR) hk
      exact ⟨k', by simpa [abs, AFlow.close] using hk', hagk.mono hsub⟩

end Sound

/-! ### frame: groups outside the may-write set are unchanged -/
section Frame
variable {G V : Type} [DecidableEq G]

theorem loopD_frame {D : Type} {cond : D → Option Bool} {body : D → Outcome × D} (P : D → D → Prop)
    (hrefl : ∀ d, P d d) (htrans : ∀ a b c, P a b → P b c → P a c) (hb : ∀ d, P d (body d).2) :
    ∀ n d, P d (loopD cond body n d).2 := by
  intro n
  induction n with
  | zero => intro d; exact hrefl d
  | succ n ih =>
    intro d
    cases hcv : cond d with
    | none => rw [loopD_none hcv]; exact hrefl d
    | some b =>
      cases b with
      | false => rw [loopD_false hcv]; exact hrefl d
      | true =>
        by_cases hn : (body d).1 = .norm
        · have e1 : body d = (.norm, (body d).2) := by rw [← hn]
          rw [loopD_true_norm hcv e1]
          exact htrans _ _ _ (hb d) (ih _)
        · rw [loopD_true_stop hcv hn]; exact hb d

/-- **Frame.**  A group outside the abstract may-write set has the same value after the run. -/
theorem frame_sound {C : FpCtx G} {K : Known} {M : MEnv} {S : Sem (G → V)} (fuel : Nat) (hK : Extends M S K) :
    ∀ (p : Prog) (aenv env : Env), EnvLe aenv env → Respects C S p → (abs C K aenv p).bad = [] →
    ∀ (g : G), g ∉ (abs C K aenv p).may → ∀ (d : G → V), (run fuel M S env p d).2 g = d g := by
  intro p
  induction p with
  | skip => intro _ _ _ _ _ g _ d; rfl
  | call f key args =>
    intro aenv env _ hR hbad g hg d
    simp only [abs] at hbad hg
    cases hs : C.stage key with
    | none => simp [hs, AFlow.unknown] at hbad
    | some fp =>
      simp only [hs, AFlow.ofFp] at hg
      exact (hR fp hs).frame d g hg
  | atom t r w k =>
    intro aenv env _ hR _ g hg d
    exact hR.frame d g hg
  | err => intro _ _ _ _ _ g _ d; rfl
  | ret => intro _ _ _ _ _ g _ d; rfl
  | seq p q ihp ihq =>
    intro aenv env hle hR hbad g hg d
    simp only [abs, AFlow.seq] at hbad hg
    obtain ⟨hbp, hbq⟩ := List.append_eq_nil_iff.mp hbad
    have hgp : g ∉ (abs C K aenv p).may := fun h => hg (mem_uni.mpr (Or.inl h))
    have hgq : g ∉ (abs C K aenv q).may := fun h => hg (mem_uni.mpr (Or.inr h))
    by_cases ho : (run fuel M S env p d).1 = .norm
    · have e1 : run fuel M S env p d = (.norm, (run fuel M S env p d).2) := by rw [← ho]
      rw [run_seq_norm fuel M S e1, ihq aenv env hle hR.2 hbq g hgq, ihp aenv env hle hR.1 hbp g hgp]
    · rw [run_seq_stop fuel M S ho, ihp aenv env hle hR.1 hbp g hgp]
  | ite gd t e iht ihe =>
    intro aenv env hle hR hbad g hg d
    simp only [abs, AFlow.guarded] at hbad hg
    cases hev : gd.eval M S env d with
    | none => rw [run_ite_none fuel M S hev]
    | some b =>
      cases hae : gd.aeval K aenv with
      | some b0 =>
        have := Guard.aeval_sound hK hle d hae
        rw [hev] at this
        cases this
        simp only [hae] at hbad hg
        cases b with
        | true => rw [run_ite_true fuel M S hev]; exact iht aenv env hle hR.2.1 hbad g hg d
        | false => rw [run_ite_false fuel M S hev]; exact ihe aenv env hle hR.2.2 hbad g hg d
      | none =>
        simp only [hae, AFlow.join] at hbad hg
        obtain ⟨hbt, hbe⟩ := List.append_eq_nil_iff.mp hbad
        cases b with
        | true =>
          rw [run_ite_true fuel M S hev]
          exact iht aenv env hle hR.2.1 hbt g (fun h => hg (mem_uni.mpr (Or.inl h))) d
        | false =>
          rw [run_ite_false fuel M S hev]
          exact ihe aenv env hle hR.2.2 hbe g (fun h => hg (mem_uni.mpr (Or.inr h))) d
  | loop gd p ih =>
    intro aenv env hle hR hbad g hg d
    simp only [abs, AFlow.loop] at hbad hg
    rw [run_loop]
    have := loopD_frame (cond := fun d => gd.eval M S env d) (body := fun d => run fuel M S env p d)
      (fun (a b : G → V) => b g = a g) (fun _ => rfl) (fun a b c h1 h2 => by rw [h2, h1])
      (fun e => ih aenv env hle hR.2 hbad g hg e) fuel d
    exact this
  | scope f b p ih =>
    intro aenv env hle hR hbad g hg d
    simp only [abs, AFlow.close] at hbad hg
    have := ih (bindEnv aenv b) (bindEnv env b) (bindEnv_le hle b) hR hbad g hg d
    by_cases ho : (run fuel M S (bindEnv env b) p d).1 = .ret
    · have e1 : run fuel M S (bindEnv env b) p d = (.ret, (run fuel M S (bindEnv env b) p d).2) := by rw [← ho]
      rw [run_scope_ret fuel M S e1]; exact this
    · rw [run_scope_other fuel M S ho]; exact this

end Frame

/-! ### the normaliser preserves the meaning up to the groups `E` -/
section Simp
variable {D : Type} (fuel : Nat) (M : MEnv) (S : Sem D)

/-- sequencing of results -/
def bindR (r : Outcome × D) (k : D → Outcome × D) : Outcome × D :=
  match r with
  | (.norm, d) => k d
  | r => r

theorem run_seq (env : Env) (p q : Prog) (d : D) :
    run fuel M S env (.seq p q) d = bindR (run fuel M S env p d) (fun d1 => run fuel M S env q d1) := by
  rcases h : run fuel M S env p d with ⟨o, d1⟩
  cases o <;> simp [run, bindR, h]

theorem bindR_assoc (r : Outcome × D) (k1 k2 : D → Outcome × D) :
    bindR (bindR r k1) k2 = bindR r (fun d => bindR (k1 d) k2) := by
  rcases r with ⟨o, d⟩
  cases o <;> simp [bindR]

theorem bindR_pure (r : Outcome × D) : bindR r (fun d => (.norm, d)) = r := by
  rcases r with ⟨o, d⟩
  cases o <;> simp [bindR]

theorem run_mkSeq (env : Env) (p q : Prog) (d : D) :
    run fuel M S env (mkSeq p q) d = run fuel M S env (.seq p q) d := by
  fun_induction mkSeq p q generalizing d with
  | case1 q => simp [run]
  | case2 a b q ih =>
    rw [run_seq, run_seq, run_seq, bindR_assoc]
    congr 1
    funext d1
    rw [ih, run_seq]
  | case3 p hp1 hp2 =>
    rw [run_seq]
    have : (fun d1 => run fuel M S env skip d1) = fun d1 => (Outcome.norm, d1) := by
      funext d1; simp [run]
    rw [this, bindR_pure]
  | case4 p q hp1 hp2 hq => rfl

theorem Term.eval_noParam {t : Term} (h : t.isParam = false) (e1 e2 : Env) : t.eval e1 = t.eval e2 := by
  cases t <;> simp_all [Term.eval, Term.isParam]

theorem Guard.eval_noParam {g : Guard} (h : g.usesParam = false) (e1 e2 : Env) (d : D) :
    g.eval M S e1 d = g.eval M S e2 d := by
  induction g with
  | mconst s => rfl
  | data s rs => rfl
  | islabel on ls => rfl
  | not g ih => simp only [Guard.usesParam] at h; simp only [Guard.eval, ih h]
  | and a b iha ihb =>
    simp only [Guard.usesParam, Bool.or_eq_false_iff] at h
    simp only [Guard.eval, iha h.1, ihb h.2]
  | or a b iha ihb =>
    simp only [Guard.usesParam, Bool.or_eq_false_iff] at h
    simp only [Guard.eval, iha h.1, ihb h.2]
  | cmp op a b =>
    simp only [Guard.usesParam, Bool.or_eq_false_iff] at h
    simp only [Guard.eval, Term.eval_noParam h.1 e1 e2, Term.eval_noParam h.2 e1 e2]
  | truthy a =>
    simp only [Guard.usesParam] at h
    simp only [Guard.eval, Term.eval_noParam h e1 e2]

theorem bindEnv_noParam {b : List (String × Term)} (h : b.any (fun x => x.2.isParam) = false) (e1 e2 : Env) :
    bindEnv e1 b = bindEnv e2 b := by
  induction b with
  | nil => rfl
  | cons hd tl ih =>
    simp only [List.any_cons, Bool.or_eq_false_iff] at h
    simp only [bindEnv, List.map_cons] at ih ⊢
    rw [ih h.2, Term.eval_noParam h.1 e1 e2]

/-- a program without parameter guards means the same in every parameter environment -/
theorem run_env_irrel : ∀ (p : Prog), usesEnv p = false → ∀ (e1 e2 : Env) (d : D),
    run fuel M S e1 p d = run fuel M S e2 p d := by
  intro p
  induction p with
  | skip => intro _ _ _ _; rfl
  | call f key args => intro _ _ _ _; rfl
  | atom t r w k => intro _ _ _ _; rfl
  | err => intro _ _ _ _; rfl
  | ret => intro _ _ _ _; rfl
  | seq p q ihp ihq =>
    intro h e1 e2 d
    simp only [usesEnv, Bool.or_eq_false_iff] at h
    rw [run_seq, run_seq, ihp h.1 e1 e2 d]
    congr 1
    funext d1
    exact ihq h.2 e1 e2 d1
  | ite g t e iht ihe =>
    intro h e1 e2 d
    simp only [usesEnv, Bool.or_eq_false_iff] at h
    simp only [run, Guard.eval_noParam M S h.1.1 e1 e2 d, iht h.1.2 e1 e2 d, ihe h.2 e1 e2 d]
  | loop g p ih =>
    intro h e1 e2 d
    simp only [usesEnv, Bool.or_eq_false_iff] at h
    rw [run_loop, run_loop]
    have hc : (fun d => g.eval M S e1 d) = (fun d => g.eval M S e2 d) := by
      funext d1; exact Guard.eval_noParam M S h.1 e1 e2 d1
    have hb : (fun d => run fuel M S e1 p d) = (fun d => run fuel M S e2 p d) := by
      funext d1; exact ih h.2 e1 e2 d1
    rw [hc, hb]
  | scope f b p _ =>
    intro h e1 e2 d
    simp only [usesEnv] at h
    simp only [run, bindEnv_noParam h e1 e2]

theorem loopD_noRet {cond : D → Option Bool} {body : D → Outcome × D} (hb : ∀ d, (body d).1 ≠ .ret) :
    ∀ n d, (loopD cond body n d).1 ≠ .ret := by
  intro n
  induction n with
  | zero => intro d; simp [loopD]
  | succ n ih =>
    intro d
    cases hcv : cond d with
    | none => rw [loopD_none hcv]; simp
    | some b =>
      cases b with
      | false => rw [loopD_false hcv]; simp
      | true =>
        by_cases hn : (body d).1 = .norm
        · have e1 : body d = (.norm, (body d).2) := by rw [← hn]
          rw [loopD_true_norm hcv e1]; exact ih _
        · rw [loopD_true_stop hcv hn]; exact hb d

/-- a program without a `ret` of its own never ends by `ret` -/
theorem run_noRet : ∀ (p : Prog), hasRet p = false → ∀ (env : Env) (d : D), (run fuel M S env p d).1 ≠ .ret := by
  intro p
  induction p with
  | skip => intro _ _ _; simp [run]
  | call f key args => intro _ _ _; simp [run]
  | atom t r w k => intro _ _ _; simp [run]
  | err => intro _ _ _; simp [run]
  | ret => intro h; simp [hasRet] at h
  | seq p q ihp ihq =>
    intro h env d
    simp only [hasRet, Bool.or_eq_false_iff] at h
    by_cases ho : (run fuel M S env p d).1 = .norm
    · have e1 : run fuel M S env p d = (.norm, (run fuel M S env p d).2) := by rw [← ho]
      rw [run_seq_norm fuel M S e1]; exact ihq h.2 env _
    · rw [run_seq_stop fuel M S ho]; exact ihp h.1 env d
  | ite g t e iht ihe =>
    intro h env d
    simp only [hasRet, Bool.or_eq_false_iff] at h
    cases hev : g.eval M S env d with
    | none => rw [run_ite_none fuel M S hev]; simp
    | some b =>
      cases b with
      | true => rw [run_ite_true fuel M S hev]; exact iht h.1 env d
      | false => rw [run_ite_false fuel M S hev]; exact ihe h.2 env d
  | loop g p ih =>
    intro h env d
    simp only [hasRet] at h
    rw [run_loop]
    exact loopD_noRet (fun e => ih h env e) fuel d
  | scope f b p _ =>
    intro _ env d
    by_cases ho : (run fuel M S (bindEnv env b) p d).1 = .ret
    · have e1 : run fuel M S (bindEnv env b) p d = (.ret, (run fuel M S (bindEnv env b) p d).2) := by rw [← ho]
      rw [run_scope_ret fuel M S e1]; simp
    · rw [run_scope_other fuel M S ho]; exact ho

end Simp

section SimpSim
variable {G V : Type} [DecidableEq G]

theorem AgreeOff.agree {E I : List G} {d d' : G → V} (h : AgreeOff E d d') (hd : ∀ g, g ∈ I → g ∉ E) : Agree I d d' :=
  fun g hg => h g (hd g hg)

theorem atom_sim {f : (G → V) → (G → V)} {fp : Footprint G} (hf : RespectsFp f fp) {E : List G}
    (hd : ∀ g, g ∈ fp.R → g ∉ E) {d d' : G → V} (h : AgreeOff E d d') : AgreeOff E (f d) (f d') := by
  intro g hg
  by_cases hw : g ∈ fp.W
  · exact hf.dep d d' (h.agree hd) g hw (Or.inr (h g hg))
  · rw [hf.frame d g hw, hf.frame d' g hw]; exact h g hg

theorem atom_erase {f : (G → V) → (G → V)} {fp : Footprint G} (hf : RespectsFp f fp) {E : List G}
    (hw : ∀ g, g ∈ fp.W → g ∈ E) {d d' : G → V} (h : AgreeOff E d d') : AgreeOff E (f d) d' := by
  intro g hg
  rw [hf.frame d g (fun hgw => hg (hw g hgw))]; exact h g hg

/-- **`simp` preserves the meaning up to `E`.**  For every interpretation respecting the footprints and every
    constant environment extending the knowledge used by `simp`: the original program on `d` and the
    normalised program on `d'` (equal to `d` outside `E`) end the same way with data equal outside `E`. -/
theorem simp_sim {C : FpCtx G} {K : Known} {M : MEnv} {S : Sem (G → V)} (fuel : Nat) (hK : Extends M S K) (E : List G) :
    ∀ (p : Prog) (aenv env : Env), EnvLe aenv env → Respects C S p → simpOK C E K aenv p = true →
    ∀ (d d' : G → V), AgreeOff E d d' →
      (run fuel M S env p d).1 = (run fuel M S env (simp C E K aenv p) d').1 ∧
      AgreeOff E (run fuel M S env p d).2 (run fuel M S env (simp C E K aenv p) d').2 := by
  intro p
  induction p with
  | skip => intro _ _ _ _ _ d d' h; exact ⟨rfl, h⟩
  | err => intro _ _ _ _ _ d d' h; exact ⟨rfl, h⟩
  | ret => intro _ _ _ _ _ d d' h; exact ⟨rfl, h⟩
  | atom t r w k =>
    intro aenv env _ hR hok d d' h
    simp only [simpOK, Bool.or_eq_true] at hok
    simp only [simp]
    by_cases hsub : subset (C.atom t r w k).W E = true
    · simp only [hsub, if_true]
      exact ⟨rfl, atom_erase hR (subset_iff.mp hsub) h⟩
    · simp only [hsub]
      rcases hok with hok | hok
      · exact absurd hok hsub
      · exact ⟨rfl, atom_sim hR (disjoint_iff.mp hok) h⟩
  | call f key args =>
    intro aenv env _ hR hok d d' h
    simp only [simpOK] at hok
    simp only [simp]
    cases hs : C.stage key with
    | none => simp [hs] at hok
    | some fp =>
      simp only [hs, Bool.or_eq_true] at hok ⊢
      by_cases hsub : subset fp.W E = true
      · simp only [hsub, if_true]
        exact ⟨rfl, atom_erase (hR fp hs) (subset_iff.mp hsub) h⟩
      · simp only [hsub]
        rcases hok with hok | hok
        · exact absurd hok hsub
        · exact ⟨rfl, atom_sim (hR fp hs) (disjoint_iff.mp hok) h⟩
  | seq p q ihp ihq =>
    intro aenv env hle hR hok d d' h
    simp only [simpOK, Bool.and_eq_true] at hok
    simp only [simp]
    rw [run_mkSeq]
    have hp := ihp aenv env hle hR.1 hok.1 d d' h
    by_cases ho : (run fuel M S env p d).1 = .norm
    · have ho' : (run fuel M S env (simp C E K aenv p) d').1 = .norm := by rw [← hp.1]; exact ho
      have e1 : run fuel M S env p d = (.norm, (run fuel M S env p d).2) := by rw [← ho]
      have e2 : run fuel M S env (simp C E K aenv p) d' = (.norm, (run fuel M S env (simp C E K aenv p) d').2) := by
        rw [← ho']
      rw [run_seq_norm fuel M S e1, run_seq_norm fuel M S e2]
      exact ihq aenv env hle hR.2 hok.2 _ _ hp.2
    · have ho' : (run fuel M S env (simp C E K aenv p) d').1 ≠ .norm := by rw [← hp.1]; exact ho
      rw [run_seq_stop fuel M S ho, run_seq_stop fuel M S ho']
      exact hp
  | ite g t e iht ihe =>
    intro aenv env hle hR hok d d' h
    simp only [simpOK, Bool.and_eq_true] at hok
    have hgr : Agree (C.cls g.reads) d d' := h.agree (disjoint_iff.mp hok.1)
    have heq := Guard.eval_agree M env hR.1 hgr
    have hok2 := hok.2
    simp only [simp]
    cases hae : g.aeval K aenv with
    | some b0 =>
      have hev := Guard.aeval_sound hK hle d hae
      simp only [hae] at hok2
      cases b0 with
      | true =>
        simp only []
        rw [run_ite_true fuel M S hev]
        exact iht aenv env hle hR.2.1 hok2 d d' h
      | false =>
        simp only []
        rw [run_ite_false fuel M S hev]
        exact ihe aenv env hle hR.2.2 hok2 d d' h
    | none =>
      simp only [hae, Bool.and_eq_true] at hok2
      simp only []
      cases hev : g.eval M S env d with
      | none =>
        rw [run_ite_none fuel M S hev, run_ite_none fuel M S (heq ▸ hev)]
        exact ⟨rfl, h⟩
      | some b =>
        have hev' : g.eval M S env d' = some b := heq ▸ hev
        cases b with
        | true =>
          rw [run_ite_true fuel M S hev, run_ite_true fuel M S hev']
          exact iht aenv env hle hR.2.1 hok2.1 d d' h
        | false =>
          rw [run_ite_false fuel M S hev, run_ite_false fuel M S hev']
          exact ihe aenv env hle hR.2.2 hok2.2 d d' h
  | loop g p ih =>
    intro aenv env hle hR hok d d' h
    simp only [simpOK, Bool.and_eq_true] at hok
    simp only [simp]
    rw [run_loop, run_loop]
    have key := loopD_rel (D := G → V) (AgreeOff E) (fun _ _ => True)
      (fun d => g.eval M S env d) (fun d => g.eval M S env d)
      (fun d => run fuel M S env p d) (fun d => run fuel M S env (simp C E K aenv p) d)
      (fun e e' he => Guard.eval_agree M env hR.1 (he.agree (disjoint_iff.mp hok.1)))
      (fun e e' he => by
        have := ih aenv env hle hR.2 hok.2 e e' he
        exact ⟨this.1, this.2, fun _ => trivial⟩)
      fuel d d' h
    exact ⟨key.1, key.2.1⟩
  | scope f b p ih =>
    intro aenv env hle hR hok d d' h
    simp only [simpOK] at hok
    have hp := ih (bindEnv aenv b) (bindEnv env b) (bindEnv_le hle b) hR hok d d' h
    simp only [simp]
    by_cases hkeep : (hasRet (simp C E K (bindEnv aenv b) p) || usesEnv (simp C E K (bindEnv aenv b) p)) = true
    · simp only [hkeep, if_true]
      by_cases ho : (run fuel M S (bindEnv env b) p d).1 = .ret
      · have ho' : (run fuel M S (bindEnv env b) (simp C E K (bindEnv aenv b) p) d').1 = .ret := by rw [← hp.1]; exact ho
        have e1 : run fuel M S (bindEnv env b) p d = (.ret, (run fuel M S (bindEnv env b) p d).2) := by rw [← ho]
        have e2 : run fuel M S (bindEnv env b) (simp C E K (bindEnv aenv b) p) d'
            = (.ret, (run fuel M S (bindEnv env b) (simp C E K (bindEnv aenv b) p) d').2) := by rw [← ho']
        rw [run_scope_ret fuel M S e1, run_scope_ret fuel M S e2]
        exact ⟨rfl, hp.2⟩
      · have ho' : (run fuel M S (bindEnv env b) (simp C E K (bindEnv aenv b) p) d').1 ≠ .ret := by rw [← hp.1]; exact ho
        rw [run_scope_other fuel M S ho, run_scope_other fuel M S ho']
        exact hp
    · have hkeep' : (hasRet (simp C E K (bindEnv aenv b) p) || usesEnv (simp C E K (bindEnv aenv b) p)) = false := by
        cases hh : (hasRet (simp C E K (bindEnv aenv b) p) || usesEnv (simp C E K (bindEnv aenv b) p)) <;> simp_all
      simp only [hkeep', Bool.false_eq_true, if_false]
      rw [Bool.or_eq_false_iff] at hkeep'
      have hnr := run_noRet fuel M S _ hkeep'.1 (bindEnv env b) d'
      rw [run_env_irrel fuel M S _ hkeep'.2 env (bindEnv env b) d']
      have ho : (run fuel M S (bindEnv env b) p d).1 ≠ .ret := by rw [hp.1]; exact hnr
      rw [run_scope_other fuel M S ho]
      exact hp

end SimpSim

/-! ### splitting a normalised program into a skipped prefix and the rest -/
section Split
variable {D : Type} (fuel : Nat) (M : MEnv) (S : Sem D)

theorem run_stripSuffix (env : Env) : ∀ (F R P : Prog), stripSuffix F R = some P → ∀ d : D,
    run fuel M S env F d = run fuel M S env (.seq P R) d := by
  intro F
  induction F with
  | seq a b _ ihb =>
    intro R P h d
    simp only [stripSuffix] at h
    by_cases he : Prog.seq a b = R
    · simp only [he, if_true, Option.some.injEq] at h
      subst h; subst he
      rw [run_seq fuel M S env .skip]; simp [run, bindR]
    · simp only [he, if_false, Option.map_eq_some_iff] at h
      obtain ⟨P', hP', rfl⟩ := h
      rw [run_seq, run_seq fuel M S env (.seq a P'), run_seq fuel M S env a P', bindR_assoc]
      congr 1
      funext d1
      rw [ihb R P' hP' d1, run_seq]
  | skip | call _ _ _ | atom _ _ _ _ | err | ret | ite _ _ _ _ _ | loop _ _ _ | scope _ _ _ _ =>
    intro R P h d
    simp only [stripSuffix] at h
    split at h
    · next he =>
      simp only [Option.some.injEq] at h
      subst h; subst he
      rw [run_seq fuel M S env .skip]; simp [run, bindR]
    · cases h

end Split

section SplitRespects
variable {G V : Type} [DecidableEq G]

theorem Respects_stripSuffix {C : FpCtx G} {S : Sem (G → V)} : ∀ (F R P : Prog), stripSuffix F R = some P →
    Respects C S F → Respects C S P ∧ Respects C S R := by
  intro F
  induction F with
  | seq a b _ ihb =>
    intro R P h hF
    simp only [stripSuffix] at h
    by_cases he : Prog.seq a b = R
    · simp only [he, if_true, Option.some.injEq] at h
      subst h; subst he
      exact ⟨trivial, hF⟩
    · simp only [he, if_false, Option.map_eq_some_iff] at h
      obtain ⟨P', hP', rfl⟩ := h
      have := ihb R P' hP' hF.2
      exact ⟨⟨hF.1, this.1⟩, this.2⟩
  | skip | call _ _ _ | atom _ _ _ _ | err | ret | ite _ _ _ _ _ | loop _ _ _ | scope _ _ _ _ =>
    intro R P h hF
    simp only [stripSuffix] at h
    split at h
    · next he =>
      simp only [Option.some.injEq] at h
      subst h; subst he
      exact ⟨trivial, hF⟩
    · cases h

theorem Respects_mkSeq {C : FpCtx G} {S : Sem (G → V)} (p q : Prog) (hp : Respects C S p) (hq : Respects C S q) :
    Respects C S (mkSeq p q) := by
  fun_induction mkSeq p q with
  | case1 q => exact hq
  | case2 a b q ih => exact ⟨hp.1, ih hp.2 hq⟩
  | case3 p _ _ => exact hp
  | case4 p q _ _ _ => exact ⟨hp, hq⟩

/-- the normalised program only contains atoms / guards of the original one -/
theorem Respects_simp {C : FpCtx G} {S : Sem (G → V)} (E : List G) (K : Known) :
    ∀ (p : Prog) (env : Env), Respects C S p → Respects C S (simp C E K env p) := by
  intro p
  induction p with
  | skip => intro _ h; exact h
  | err => intro _ h; exact h
  | ret => intro _ h; exact h
  | atom t r w k =>
    intro _ h
    simp only [simp]
    split
    · trivial
    · exact h
  | call f key args =>
    intro _ h
    simp only [simp]
    cases hs : C.stage key with
    | none => exact h
    | some fp =>
      simp only []
      split
      · trivial
      · exact h
  | seq p q ihp ihq =>
    intro env h
    simp only [simp]
    exact Respects_mkSeq _ _ (ihp env h.1) (ihq env h.2)
  | ite g t e iht ihe =>
    intro env h
    simp only [simp]
    cases hae : g.aeval K env with
    | none => exact ⟨h.1, iht env h.2.1, ihe env h.2.2⟩
    | some b =>
      cases b with
      | true => exact iht env h.2.1
      | false => exact ihe env h.2.2
  | loop g p ih =>
    intro env h
    simp only [simp]
    exact ⟨h.1, ih env h.2⟩
  | scope f b p ih =>
    intro env h
    simp only [simp]
    split
    · exact ih _ h
    · exact ih _ h

/-- **Replay.**  `d1` is what a previous run of `P ; R` left behind.  If nothing that `P` reads is written by
    `P` or `R`, nothing that `P` determines is written by `R`, and `R` reads none of the groups
    `J = may(P) \ determined(P)` that `P` only partially rewrites, then running `P ; R` again on `d1` and
    running only `R` on `d1` end the same way and agree on every group outside `J` that is in `I`, and on
    what `R` determines. -/
theorem replay {C : FpCtx G} {K : Known} {M : MEnv} {S : Sem (G → V)} (fuel : Nat) (hK : Extends M S K)
    (P R : Prog) (env : Env) (hRP : Respects C S P) (hRR : Respects C S R)
    (hbP : (abs C K env P).bad = []) (hbR : (abs C K env R).bad = [])
    (kP : List G) (hkP : (abs C K env P).killN = some kP)
    (hA : disjoint (abs C K env P).rbw (uni (abs C K env P).may (abs C K env R).may) = true)
    (hKR : disjoint kP (abs C K env R).may = true)
    (I : List G) (hIR : subset (abs C K env R).rbw I = true)
    (hIJ : disjoint I (diff (abs C K env P).may kP) = true)
    (d0 d1 : G → V) (hprev : run fuel M S env (.seq P R) d0 = (.norm, d1)) :
    (run fuel M S env (.seq P R) d1).1 = (run fuel M S env R d1).1 ∧
    Agree I (run fuel M S env (.seq P R) d1).2 (run fuel M S env R d1).2 ∧
    ((run fuel M S env R d1).1 = .norm → ∀ k, (abs C K env R).killN = some k →
      Agree k (run fuel M S env (.seq P R) d1).2 (run fuel M S env R d1).2) := by
  -- the previous run: P fell through to e, then R fell through to d1
  have hP0 : (run fuel M S env P d0).1 = .norm := by
    by_cases hne : (run fuel M S env P d0).1 = .norm
    · exact hne
    · rw [run_seq_stop fuel M S hne] at hprev
      exact absurd (by rw [hprev]) hne
  have e0 : run fuel M S env P d0 = (.norm, (run fuel M S env P d0).2) := by rw [← hP0]
  have hR0 : run fuel M S env R (run fuel M S env P d0).2 = (.norm, d1) := by
    rw [run_seq_norm fuel M S e0] at hprev; exact hprev
  -- d1 agrees with d0 on what P reads
  have hA' := disjoint_iff.mp hA
  have hd10 : Agree (abs C K env P).rbw d1 d0 := by
    intro g hg
    have hgP : g ∉ (abs C K env P).may := fun h => hA' g hg (mem_uni.mpr (Or.inl h))
    have hgR : g ∉ (abs C K env R).may := fun h => hA' g hg (mem_uni.mpr (Or.inr h))
    have h1 := frame_sound fuel hK R env env (EnvLe.refl _) hRR hbR g hgR (run fuel M S env P d0).2
    have h2 := frame_sound fuel hK P env env (EnvLe.refl _) hRP hbP g hgP d0
    rw [hR0] at h1
    exact (show d1 g = _ from h1).trans h2
  -- so P on d1 ends like P on d0 and determines the same values
  have hni := abs_sound (C := C) (K := K) fuel hK P env env (EnvLe.refl _) hRP hbP _ (fun _ h => h) d1 d0 hd10
  have hP1 : (run fuel M S env P d1).1 = .norm := by rw [hni.out]; exact hP0
  obtain ⟨k', hk', hagk⟩ := hni.norm hP1
  rw [hkP] at hk'
  cases hk'
  -- P on d1 gives back d1 outside J
  have hback : Agree I (run fuel M S env P d1).2 d1 := by
    intro g hg
    by_cases hgm : g ∈ (abs C K env P).may
    · have hgk : g ∈ kP := by
        by_cases hnk : g ∈ kP
        · exact hnk
        · exact absurd (mem_diff.mpr ⟨hgm, hnk⟩) (disjoint_iff.mp hIJ g hg)
      have hgR : g ∉ (abs C K env R).may := disjoint_iff.mp hKR g hgk
      have h1 := frame_sound fuel hK R env env (EnvLe.refl _) hRR hbR g hgR (run fuel M S env P d0).2
      rw [hR0] at h1
      exact (hagk g hgk).trans (show d1 g = _ from h1).symm
    · exact frame_sound fuel hK P env env (EnvLe.refl _) hRP hbP g hgm d1
  have e1 : run fuel M S env P d1 = (.norm, (run fuel M S env P d1).2) := by rw [← hP1]
  rw [run_seq_norm fuel M S e1]
  have hr := abs_sound (C := C) (K := K) fuel hK R env env (EnvLe.refl _) hRR hbR I (subset_iff.mp hIR) _ _ hback
  refine ⟨hr.out, hr.agree, ?_⟩
  intro hn k hk
  have hn' : (run fuel M S env R (run fuel M S env P d1).2).1 = .norm := by rw [hr.out]; exact hn
  obtain ⟨k2, hk2, hag2⟩ := hr.norm hn'
  rw [hk] at hk2
  cases hk2
  exact hag2

end SplitRespects

end MjProof.Prog
