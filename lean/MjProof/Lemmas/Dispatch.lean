import MjProof.Model.Dispatch
/-
C02 — the interference-freedom invariant of a pooled batch (Model/Dispatch.lean).

For an execution of the batch from memory `m0` under an assignment `asg`, in every reachable configuration:
* a location that belongs to no write set and to no scratch still holds its initial value;
* every pool thread has split its list into `done ++ current ++ todo` and
  - a task that has returned left in its write set exactly what an *isolated* run of the task would have left,
    started from a memory that agrees with `m0` on the task's read set;
  - the running task has the local state, and sees on `R ∪ W ∪ Scr` the memory, of an isolated run after the same
    number of steps;
  - a task that has not been claimed still finds the initial values in its read set.
-/
namespace MjProof.Dispatch

variable {L V K S : Type}

theorem AgreeOn.rfl' {P : L → Prop} {m : Mem L V} : AgreeOn P m m := fun _ _ => rfl

theorem AgreeOn.symm {P : L → Prop} {m m' : Mem L V} (h : AgreeOn P m m') : AgreeOn P m' m :=
  fun l hl => (h l hl).symm

theorem AgreeOn.trans {P : L → Prop} {m m' m'' : Mem L V} (h : AgreeOn P m m') (h' : AgreeOn P m' m'') :
    AgreeOn P m m'' := fun l hl => (h l hl).trans (h' l hl)

theorem AgreeOn.mono {P Q : L → Prop} {m m' : Mem L V} (hQP : ∀ l, Q l → P l) (h : AgreeOn P m m') :
    AgreeOn Q m m' := fun l hl => h l (hQP l hl)

theorem iter_succ (T : Task L V K S) (k : K) (j : Nat) (x : S × Mem L V) :
    iter T k (j + 1) x = (iter T k j x).bind (fun y => T.step k y.1 y.2) := rfl

section

variable {tasks : Nat → Task L V K S} {R W : Nat → L → Prop} {Scr : K → L → Prop}

/-- an isolated run changes nothing outside the write set and the scratch of its context -/
theorem iter_frame (hR : Respects tasks R W Scr) (i : Nat) (k : K) :
    ∀ (j : Nat) (x y : S × Mem L V), iter (tasks i) k j x = some y →
      ∀ l, ¬ W i l → ¬ Scr k l → y.2 l = x.2 l
  | 0, x, y, h, l, _, _ => by
    simp only [iter, Option.some.injEq] at h
    rw [h]
  | j + 1, x, y, h, l, hw, hs => by
    rw [iter_succ] at h
    cases hz : iter (tasks i) k j x with
    | none => rw [hz] at h; simp at h
    | some z =>
      rw [hz] at h
      simp only [Option.bind_some] at h
      have h1 := iter_frame hR i k j x z hz l hw hs
      have h2 := hR.frame i k z.1 z.2 y.1 y.2 (by rw [h]) l hw hs
      rw [h2, h1]

theorem taskRun_frame (hR : Respects tasks R W Scr) {i : Nat} {k : K} {m mf : Mem L V}
    (h : TaskRun (tasks i) k m mf) : ∀ l, ¬ W i l → ¬ Scr k l → mf l = m l := by
  obtain ⟨j, s, hj, _⟩ := h
  exact iter_frame hR i k j _ _ hj

/-! ### The invariant -/

variable (tasks R W Scr)

/-- task `i`, run by a pool thread in context `k`, has returned -/
def Finished (m0 : Mem L V) (i : Nat) (k : K) (mem : Mem L V) : Prop :=
  ∃ ms mf, AgreeOn (R i) ms m0 ∧ TaskRun (tasks i) k ms mf ∧ AgreeOn (W i) mem mf

/-- task `i` is being executed in context `k` and has local state `s` -/
def Running (m0 : Mem L V) (i : Nat) (k : K) (s : S) (mem : Mem L V) : Prop :=
  ∃ ms mv j, AgreeOn (R i) ms m0 ∧ iter (tasks i) k j ((tasks i).init, ms) = some (s, mv) ∧
    AgreeOn (Acc R W Scr i k) mem mv

def curList (th : Thread K S) : List (Nat × K) :=
  match th.cur with
  | none => []
  | some (i, k, _) => [(i, k)]

def ThreadInv (m0 : Mem L V) (asgt : List (Nat × K)) (mem : Mem L V) (th : Thread K S) : Prop :=
  ∃ done : List (Nat × K), asgt = done ++ curList th ++ th.todo ∧
    (∀ x ∈ done, Finished tasks R W m0 x.1 x.2 mem) ∧
    (∀ i k s, th.cur = some (i, k, s) → Running tasks R W Scr m0 i k s mem) ∧
    (∀ x ∈ th.todo, AgreeOn (R x.1) mem m0)

def Inv (n : Nat) (m0 : Mem L V) (asg : Nat → List (Nat × K)) (c : Config L V K S) : Prop :=
  (∀ l, (∀ i, i < n → ¬ W i l) → (∀ k, ¬ Scr k l) → c.mem l = m0 l) ∧
  ∀ t, ThreadInv tasks R W Scr m0 (asg t) c.mem (c.thr t)

variable {tasks R W Scr}

theorem inv_start (n : Nat) (m0 : Mem L V) (asg : Nat → List (Nat × K)) :
    Inv tasks R W Scr n m0 asg (start m0 asg) := by
  refine ⟨fun _ _ _ => rfl, fun t => ⟨[], ?_, ?_, ?_, ?_⟩⟩
  · simp [start, curList]
  · intro x hx; cases hx
  · intro i k s h; simp [start] at h
  · intro x _; exact AgreeOn.rfl'

/-- a memory change confined to `W i ∪ Scr k` does not disturb what is recorded about another finished task -/
theorem finished_untouched (hN : NonConflict R W Scr) {m0 mem mem' : Mem L V} {i j : Nat} {k k' : K}
    (hfr : ∀ l, ¬ W i l → ¬ Scr k l → mem' l = mem l) (hne : j ≠ i)
    (h : Finished tasks R W m0 j k' mem) : Finished tasks R W m0 j k' mem' := by
  obtain ⟨ms, mf, h1, h2, h3⟩ := h
  refine ⟨ms, mf, h1, h2, fun l hl => ?_⟩
  rw [hfr l (hN.ww j i hne l hl) (fun hs => hN.sw k j l hs hl)]
  exact h3 l hl

theorem todo_untouched (hN : NonConflict R W Scr) {m0 mem mem' : Mem L V} {i j : Nat} {k : K}
    (hfr : ∀ l, ¬ W i l → ¬ Scr k l → mem' l = mem l) (hne : j ≠ i)
    (h : AgreeOn (R j) mem m0) : AgreeOn (R j) mem' m0 := by
  intro l hl
  rw [hfr l (fun hw => hN.rw i j (Ne.symm hne) l hw hl) (fun hs => hN.sr k j l hs hl)]
  exact h l hl

theorem running_untouched (hN : NonConflict R W Scr) {m0 mem mem' : Mem L V} {i j : Nat} {k k' : K} {s : S}
    (hfr : ∀ l, ¬ W i l → ¬ Scr k l → mem' l = mem l) (hne : j ≠ i) (hsc : ∀ l, Scr k l → ¬ Scr k' l)
    (h : Running tasks R W Scr m0 j k' s mem) : Running tasks R W Scr m0 j k' s mem' := by
  obtain ⟨ms, mv, n, h1, h2, h3⟩ := h
  refine ⟨ms, mv, n, h1, h2, fun l hl => ?_⟩
  have hw : ¬ W i l := by
    intro hw
    rcases hl with hr | hw' | hs
    · exact hN.rw i j (Ne.symm hne) l hw hr
    · exact hN.ww i j (Ne.symm hne) l hw hw'
    · exact hN.sw k' i l hs hw
  have hs : ¬ Scr k l := by
    intro hs
    rcases hl with hr | hw' | hs'
    · exact hN.sr k j l hs hr
    · exact hN.sw k j l hs hw'
    · exact hsc l hs hs'
  rw [hfr l hw hs]
  exact h3 l hl

/-- the invariant of a thread that is not stepping survives a step of task `i` in context `k` on another thread -/
theorem threadInv_untouched (hN : NonConflict R W Scr) {m0 mem mem' : Mem L V} {asgt : List (Nat × K)}
    {th : Thread K S} {i : Nat} {k : K}
    (hfr : ∀ l, ¬ W i l → ¬ Scr k l → mem' l = mem l) (hne : ∀ x ∈ asgt, x.1 ≠ i)
    (hsc : ∀ x ∈ asgt, ∀ l, Scr k l → ¬ Scr x.2 l)
    (h : ThreadInv tasks R W Scr m0 asgt mem th) : ThreadInv tasks R W Scr m0 asgt mem' th := by
  obtain ⟨done, hsplit, hd, hc, ht⟩ := h
  refine ⟨done, hsplit, ?_, ?_, ?_⟩
  · intro x hx
    have hm : x ∈ asgt := by rw [hsplit]; simp [hx]
    exact finished_untouched hN hfr (hne x hm) (hd x hx)
  · intro j k' s hcur
    have hm : (j, k') ∈ asgt := by rw [hsplit]; simp [curList, hcur]
    exact running_untouched hN hfr (hne _ hm) (hsc _ hm) (hc j k' s hcur)
  · intro x hx
    have hm : x ∈ asgt := by rw [hsplit]; simp [hx]
    exact todo_untouched hN hfr (hne x hm) (ht x hx)

theorem nodup_mid {done todo : List (Nat × K)} {i : Nat} {k : K}
    (h : ((done ++ [(i, k)] ++ todo).map Prod.fst).Nodup) :
    (∀ x ∈ done, x.1 ≠ i) ∧ (∀ x ∈ todo, x.1 ≠ i) := by
  simp only [List.map_append, List.map_cons, List.map_nil, List.nodup_append, List.mem_append, List.mem_map,
    List.mem_cons, List.not_mem_nil, or_false] at h
  obtain ⟨⟨_, _, h1⟩, _, h2⟩ := h
  constructor
  · intro x hx he
    exact h1 x.1 ⟨x, hx, rfl⟩ i rfl he
  · intro x hx he
    exact h2 i (Or.inr rfl) x.1 ⟨x, hx, rfl⟩ he.symm

theorem setThr_same (thr : Nat → Thread K S) (t : Nat) (x : Thread K S) : setThr thr t x t = x := by
  simp [setThr]

theorem setThr_other (thr : Nat → Thread K S) {t u : Nat} (x : Thread K S) (h : u ≠ t) : setThr thr t x u = thr u := by
  simp [setThr, h]

/-- **The invariant is preserved by every step of every thread.** -/
theorem inv_step (hR : Respects tasks R W Scr) (hN : NonConflict R W Scr) {n : Nat} {m0 : Mem L V}
    {asg : Nat → List (Nat × K)} (hW : WellFormed n Scr asg) {c : Config L V K S}
    (h : Inv tasks R W Scr n m0 asg c) (t : Nat) : Inv tasks R W Scr n m0 asg (stepThread tasks c t) := by
  obtain ⟨hI1, hI2⟩ := h
  obtain ⟨done, hsplit, hd, hc, ht⟩ := hI2 t
  unfold stepThread
  split
  · rename_i hcur
    split
    · -- nothing left to do
      exact ⟨hI1, hI2⟩
    · -- claim the next task
      rename_i i k rest htodo
      refine ⟨hI1, fun u => ?_⟩
      by_cases hu : u = t
      · subst hu
        simp only [setThr_same]
        refine ⟨done, ?_, hd, ?_, ?_⟩
        · rw [hsplit]; simp [curList, hcur, htodo]
        · intro i' k' s' he
          simp only [Option.some.injEq, Prod.mk.injEq] at he
          obtain ⟨rfl, rfl, rfl⟩ := he
          refine ⟨c.mem, c.mem, 0, ?_, rfl, AgreeOn.rfl'⟩
          exact ht (i, k) (by rw [htodo]; simp)
        · intro x hx
          exact ht x (by rw [htodo]; simp [hx])
      · simp only [setThr_other _ _ hu]
        exact hI2 u
  · -- a step of the running task
    rename_i i k s hcur
    have hrun := hc i k s hcur
    obtain ⟨ms, mv, j, hms, hit, hag⟩ := hrun
    have hsplit' : asg t = done ++ [(i, k)] ++ (c.thr t).todo := by rw [hsplit]; simp [curList, hcur]
    have hmem : (i, k) ∈ asg t := by rw [hsplit']; simp
    have hnd := nodup_mid (by rw [← hsplit']; exact hW.nodup t)
    split
    · -- the task returns
      rename_i hstep
      refine ⟨hI1, fun u => ?_⟩
      by_cases hu : u = t
      · subst hu
        simp only [setThr_same]
        refine ⟨done ++ [(i, k)], ?_, ?_, ?_, ?_⟩
        · rw [hsplit']; simp [curList]
        · intro x hx
          rcases List.mem_append.mp hx with hx | hx
          · exact hd x hx
          · simp only [List.mem_cons, List.not_mem_nil, or_false] at hx
            subst hx
            rcases hR.loc i k s c.mem mv hag with ⟨_, h2⟩ | ⟨s', m1, m2, h1, _, _⟩
            · exact ⟨ms, mv, hms, ⟨j, s, hit, h2⟩, hag.mono (fun l hl => Or.inr (Or.inl hl))⟩
            · rw [hstep] at h1; cases h1
        · intro i' k' s' he; simp at he
        · intro x hx; exact ht x hx
      · simp only [setThr_other _ _ hu]
        exact hI2 u
    · -- a memory step
      rename_i s' m' hstep
      have hfr : ∀ l, ¬ W i l → ¬ Scr k l → m' l = c.mem l := hR.frame i k s c.mem s' m' hstep
      refine ⟨?_, fun u => ?_⟩
      · intro l hl1 hl2
        show m' l = m0 l
        rw [hfr l (hl1 i (hW.bound t _ hmem)) (hl2 k)]
        exact hI1 l hl1 hl2
      · by_cases hu : u = t
        · subst hu
          simp only [setThr_same]
          refine ⟨done, ?_, ?_, ?_, ?_⟩
          · rw [hsplit']; simp [curList]
          · intro x hx
            exact finished_untouched hN hfr (hnd.1 x hx) (hd x hx)
          · intro i' k' s'' he
            simp only [Option.some.injEq, Prod.mk.injEq] at he
            obtain ⟨rfl, rfl, rfl⟩ := he
            rcases hR.loc i k s c.mem mv hag with ⟨h1, _⟩ | ⟨s2, m1, m2, h1, h2, h3⟩
            · rw [hstep] at h1; cases h1
            · rw [hstep] at h1
              simp only [Option.some.injEq, Prod.mk.injEq] at h1
              obtain ⟨rfl, rfl⟩ := h1
              refine ⟨ms, m2, j + 1, hms, ?_, h3⟩
              rw [iter_succ, hit]
              simpa using h2
          · intro x hx
            exact todo_untouched hN hfr (hnd.2 x hx) (ht x hx)
        · simp only [setThr_other _ _ hu]
          refine threadInv_untouched hN hfr ?_ ?_ (hI2 u)
          · intro x hx he
            exact hW.apart u t hu x hx (i, k) hmem he
          · intro x hx l hs
            exact hW.scratch t u (Ne.symm hu) (i, k) hmem x hx l hs

theorem inv_exec (hR : Respects tasks R W Scr) (hN : NonConflict R W Scr) {n : Nat} {m0 : Mem L V}
    {asg : Nat → List (Nat × K)} (hW : WellFormed n Scr asg) (sched : List Nat) :
    ∀ c : Config L V K S, Inv tasks R W Scr n m0 asg c → Inv tasks R W Scr n m0 asg (exec tasks c sched) := by
  induction sched with
  | nil => intro c h; exact h
  | cons t rest ih =>
    intro c h
    simp only [exec, List.foldl_cons]
    exact ih _ (inv_step hR hN hW h t)

/-- at the end of the batch every task has left in its write set the result of an isolated run -/
theorem terminal_finished (hR : Respects tasks R W Scr) (hN : NonConflict R W Scr) {n : Nat} {m0 : Mem L V}
    {asg : Nat → List (Nat × K)} (hW : WellFormed n Scr asg) (sched : List Nat)
    (hT : Terminal (exec tasks (start m0 asg) sched)) :
    (∀ l, (∀ i, i < n → ¬ W i l) → (∀ k, ¬ Scr k l) → (exec tasks (start m0 asg) sched).mem l = m0 l) ∧
    ∀ i, i < n → ∃ k, Finished tasks R W m0 i k (exec tasks (start m0 asg) sched).mem := by
  have hI := inv_exec hR hN hW sched _ (inv_start (tasks := tasks) (R := R) (W := W) (Scr := Scr) n m0 asg)
  refine ⟨hI.1, fun i hi => ?_⟩
  obtain ⟨t, k, hm⟩ := hW.complete i hi
  obtain ⟨done, hsplit, hd, _, _⟩ := hI.2 t
  obtain ⟨hc, ht⟩ := hT t
  rw [ht] at hsplit
  simp only [curList, hc, List.append_nil] at hsplit
  rw [hsplit] at hm
  exact ⟨k, hd (i, k) hm⟩

end

end MjProof.Dispatch
