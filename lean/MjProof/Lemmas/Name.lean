import MjProof.Model.Name
/-
Helper lemmas for C34 (core Lean only).  Property theorems live in `MjProof/Props/C34.lean`.
-/
namespace MjProof.Name
open List

/-! ### cyclic positions -/

/-- slot reached from `h` after `t` steps of `j = (j + 1) % n` -/
def pos (h t n : Nat) : Nat := (h + t) % n

theorem pos_zero {h n : Nat} (hn : h < n) : pos h 0 n = h := by
  simp [pos, Nat.mod_eq_of_lt hn]

theorem pos_lt {h t n : Nat} (hn : 0 < n) : pos h t n < n := Nat.mod_lt _ hn

theorem pos_shift (h t n : Nat) : pos ((h + 1) % n) t n = pos h (t + 1) n := by
  unfold pos
  rw [Nat.mod_add_mod]
  congr 1; omega

theorem pos_succ (h t n : Nat) : (pos h t n + 1) % n = pos h (t + 1) n := by
  unfold pos
  rw [Nat.mod_add_mod]
  congr 1

theorem wrap_eq {i n : Nat} (hi : i < n) : (if i + 1 = n then 0 else i + 1) = (i + 1) % n := by
  split
  · next h => rw [h, Nat.mod_self]
  · next h => rw [Nat.mod_eq_of_lt (by omega)]

theorem pos_ne_start {h t n : Nat} (hh : h < n) (h0 : 0 < t) (ht : t < n) : pos h t n ≠ h := by
  unfold pos
  by_cases hlt : h + t < n
  · rw [Nat.mod_eq_of_lt hlt]; omega
  · rw [Nat.mod_eq_sub_mod (by omega), Nat.mod_eq_of_lt (by omega)]; omega

theorem pos_full {h n : Nat} (hh : h < n) : pos h n n = h := by
  unfold pos
  rw [Nat.add_mod_right, Nat.mod_eq_of_lt hh]

theorem exists_pos {h p n : Nat} (hh : h < n) (hp : p < n) : ∃ t, t < n ∧ pos h t n = p := by
  refine ⟨(p + n - h) % n, Nat.mod_lt _ (by omega), ?_⟩
  unfold pos
  rw [Nat.add_mod_mod]
  have : h + (p + n - h) = p + n := by omega
  rw [this, Nat.add_mod_right, Nat.mod_eq_of_lt hp]

/-! ### findSlot -/

/-- a slot is occupied -/
def Occ (map : List Int) (p : Nat) : Prop := ∃ v, map[p]? = some v ∧ v ≠ -1

theorem findSlot_spec (map : List Int) (n : Nat) (hlen : map.length = n) :
    ∀ fuel h, h < n → (∃ t, t < fuel ∧ map[pos h t n]? = some (-1)) →
      ∃ t, t < fuel ∧ findSlot map n fuel h = some (pos h t n) ∧ map[pos h t n]? = some (-1) ∧
        ∀ t', t' < t → Occ map (pos h t' n) := by
  intro fuel
  induction fuel with
  | zero => intro h _ ⟨t, ht, _⟩; omega
  | succ fuel ih =>
    intro h hh ⟨t0, ht0, hm0⟩
    have hn : 0 < n := by omega
    have hget : map[h]? = some map[h] := by simp [hlen, hh]
    by_cases hv : map[h] = -1
    · refine ⟨0, by omega, ?_, ?_, ?_⟩
      · rw [pos_zero hh]; simp [findSlot, hget, hv]
      · rw [pos_zero hh, hget, hv]
      · intro t' ht'; omega
    · -- the witness cannot be step 0
      cases t0 with
      | zero =>
        rw [pos_zero hh, hget] at hm0
        exact absurd (Option.some.inj hm0) hv
      | succ t1 =>
        have hh' : (h + 1) % n < n := Nat.mod_lt _ hn
        obtain ⟨t, ht, hfs, hm, hocc⟩ := ih ((h + 1) % n) hh' ⟨t1, by omega, by rw [pos_shift]; exact hm0⟩
        refine ⟨t + 1, by omega, ?_, ?_, ?_⟩
        · rw [← pos_shift]; simp [findSlot, hget, hv, hfs]
        · rw [← pos_shift]; exact hm
        · intro t' ht'
          cases t' with
          | zero => rw [pos_zero hh]; exact ⟨map[h], hget, hv⟩
          | succ t'' => rw [← pos_shift]; exact hocc t'' (by omega)

/-! ### the table invariant -/

/-- invariant of the map segment after the first `k` names have been processed -/
structure Inv (names : List Bytes) (hf : Bytes → Nat) (n k : Nat) (map : List Int) : Prop where
  len : map.length = n
  vals : ∀ (p : Nat) (v : Int), map[p]? = some v → v = -1 ∨ ∃ (i : Nat) (s : Bytes), v = (i : Int) ∧ i < k ∧ names[i]? = some s ∧ s ≠ []
  path : ∀ (i : Nat) (s : Bytes), i < k → names[i]? = some s → s ≠ [] →
    ∃ t : Nat, t < n ∧ map[pos (hf s) t n]? = some (i : Int) ∧ ∀ t', t' < t → Occ map (pos (hf s) t' n)
  cnt : map.countP (fun v => v != -1) ≤ k

theorem Inv.init (names : List Bytes) (hf : Bytes → Nat) (n : Nat) :
    Inv names hf n 0 (List.replicate n (-1)) where
  len := by simp
  vals := by
    intro p v h
    rw [List.getElem?_replicate] at h
    split at h
    · left; exact (Option.some.inj h).symm
    · cases h
  path := by intro i s h; omega
  cnt := by simp [List.countP_replicate]

theorem Inv.skip {names : List Bytes} {hf : Bytes → Nat} {n k : Nat} {map : List Int}
    (I : Inv names hf n k map) (hk : names[k]? = some []) : Inv names hf n (k + 1) map where
  len := I.len
  vals := by
    intro p v h
    rcases I.vals p v h with h1 | ⟨i, s, h1, h2, h3⟩
    · exact Or.inl h1
    · exact Or.inr ⟨i, s, h1, by omega, h3⟩
  path := by
    intro i s hi hs hne
    by_cases hik : i = k
    · subst hik; rw [hk] at hs; exact absurd (Option.some.inj hs).symm hne
    · exact I.path i s (by omega) hs hne
  cnt := Nat.le_succ_of_le I.cnt

theorem exists_empty {map : List Int} {k : Nat} (h : map.countP (fun v => v != -1) ≤ k) (hk : k < map.length) :
    ∃ p, p < map.length ∧ map[p]? = some (-1) := by
  by_cases hall : ∀ a ∈ map, (fun v : Int => v != -1) a = true
  · have := (List.countP_eq_length (p := fun v : Int => v != -1)).2 hall
    omega
  · obtain ⟨a, ha'⟩ := Classical.not_forall.1 hall
    obtain ⟨ha, hna⟩ := Classical.not_imp.1 ha'
    obtain ⟨p, hp, hpe⟩ := List.getElem_of_mem ha
    refine ⟨p, hp, ?_⟩
    have : a = -1 := by simpa using hna
    simp [hp, hpe, this]

theorem Occ.set {map : List Int} {p j : Nat} {i : Nat} (h : Occ map p) : Occ (map.set j (i : Int)) p := by
  obtain ⟨v, hv, hne⟩ := h
  rw [Occ, List.getElem?_set]
  by_cases hjp : j = p
  · subst hjp
    have hl : j < map.length := by
      rcases Nat.lt_or_ge j map.length with h | h
      · exact h
      · rw [List.getElem?_eq_none h] at hv; cases hv
    exact ⟨(i : Int), by simp [hl], by omega⟩
  · exact ⟨v, by simp [hjp, hv], hne⟩

theorem Inv.insert {names : List Bytes} {hf : Bytes → Nat} {n k : Nat} {map : List Int} {s : Bytes}
    (I : Inv names hf n k map) (hk : names[k]? = some s) (hs : s ≠ []) (hkn : k < n) (hh : hf s < n) :
    ∃ j, findSlot map n n (hf s) = some j ∧ Inv names hf n (k + 1) (map.set j (k : Int)) := by
  obtain ⟨p, hp, hpe⟩ := exists_empty I.cnt (by rw [I.len]; exact hkn)
  rw [I.len] at hp
  obtain ⟨t0, ht0, hpos0⟩ := exists_pos hh hp
  obtain ⟨t, ht, hfs, hm, hocc⟩ := findSlot_spec map n I.len n (hf s) hh ⟨t0, ht0, by rw [hpos0]; exact hpe⟩
  have hn : 0 < n := by omega
  have hjl : pos (hf s) t n < map.length := by rw [I.len]; exact pos_lt hn
  refine ⟨pos (hf s) t n, hfs, ?_⟩
  refine ⟨by simp [I.len], ?_, ?_, ?_⟩
  · intro q v h
    rw [List.getElem?_set] at h
    by_cases hq : pos (hf s) t n = q
    · simp only [hq, if_true] at h
      split at h
      · right; exact ⟨k, s, (Option.some.inj h).symm, by omega, hk, hs⟩
      · cases h
    · simp only [hq, if_false] at h
      rcases I.vals q v h with h1 | ⟨i, s', h1, h2, h3⟩
      · exact Or.inl h1
      · exact Or.inr ⟨i, s', h1, by omega, h3⟩
  · intro i s' hi hs' hne
    by_cases hik : i = k
    · subst hik
      rw [hk] at hs'
      have : s = s' := Option.some.inj hs'
      subst this
      refine ⟨t, ht, ?_, fun t' ht' => (hocc t' ht').set⟩
      rw [List.getElem?_set]; simp [hjl]
    · obtain ⟨ti, hti, hmi, hocci⟩ := I.path i s' (by omega) hs' hne
      refine ⟨ti, hti, ?_, fun t' ht' => (hocci t' ht').set⟩
      rw [List.getElem?_set]
      have : pos (hf s) t n ≠ pos (hf s') ti n := by
        intro heq
        rw [heq, hmi] at hm
        have := Option.some.inj hm
        omega
      simp [this, hmi]
  · rw [List.countP_set hjl]
    have h1 : map[pos (hf s) t n]'hjl = -1 := by
      have := List.getElem?_eq_getElem hjl
      rw [hm] at this
      exact (Option.some.inj this).symm
    have h2 : ((k : Int) != -1) = true := by
      simp only [bne_iff_ne, ne_eq]; omega
    simp only [h1, h2, if_true]
    have := I.cnt
    simp
    omega

theorem insertNames_inv (P : Params) (names : List Bytes) (n : Nat)
    (hn : names.length ≤ n) (hhash : ∀ s, 0 < n → P.hash s n < n) :
    ∀ rest k map, k ≤ names.length → names.drop k = rest → Inv names (fun s => P.hash s n) n k map →
      ∃ map', insertNames P n rest k map = some map' ∧ Inv names (fun s => P.hash s n) n names.length map' := by
  intro rest
  induction rest with
  | nil =>
    intro k map hkl hd I
    have hk : names.length ≤ k := by
      have := congrArg List.length hd
      simp at this; omega
    have : k = names.length := by omega
    subst this
    exact ⟨map, rfl, I⟩
  | cons s rest ih =>
    intro k map _ hd I
    have hks : names[k]? = some s := by
      have := congrArg (fun l => l[0]?) hd
      simpa [List.getElem?_drop] using this
    have hklt : k < names.length := by
      rcases Nat.lt_or_ge k names.length with h | h
      · exact h
      · rw [List.getElem?_eq_none h] at hks; cases hks
    have hd' : names.drop (k + 1) = rest := by
      have := congrArg List.tail hd
      simpa [List.tail_drop] using this
    by_cases hs : s = []
    · subst hs
      obtain ⟨map', h1, h2⟩ := ih (k + 1) map (by omega) hd' (I.skip hks)
      exact ⟨map', by simp [insertNames, h1], h2⟩
    · have hkn : k < n := by omega
      obtain ⟨j, hj, I'⟩ := I.insert hks hs hkn (hhash s (by omega))
      obtain ⟨map', h1, h2⟩ := ih (k + 1) (map.set j (k : Int)) (by omega) hd' I'
      exact ⟨map', by simp [insertNames, hs, hj, h1], h2⟩

/-! ### the probe loop of mj_name2id on a segment of `names_map` -/

/-- `seg` is the part of `map` that starts at `off` -/
def View (map seg : List Int) (off n : Nat) : Prop := ∀ i, i < n → map[off + i]? = seg[i]?

theorem probe_step {map seg : List Int} {off n : Nat} (hview : View map seg off n)
    {i : Nat} (hi : i < n) {v : Int} (hv : seg[i]? = some v) (h : Nat) (eq : Nat → Option Bool) (fuel : Nat) :
    probe map (off : Int) n h eq (fuel + 1) i =
      if v < 0 then some (-1)
      else match eq v.toNat with
        | none => none
        | some true => some v
        | some false =>
          if (if i + 1 = n then 0 else i + 1) = h then some (-1)
          else probe map (off : Int) n h eq fuel (if i + 1 = n then 0 else i + 1) := by
  have h1 : ¬ ((off : Int) + (i : Int) < 0) := by omega
  have h2 : ((off : Int) + (i : Int)).toNat = off + i := by omega
  have h3 : map[off + i]? = some v := by rw [hview i hi, hv]
  rw [probe]
  simp only [h1, h2, h3, if_false]
  rfl

/-- `eq j` decides equality of the (non-empty) `j`-th name with the query -/
def EqSpec (names : List Bytes) (q : Bytes) (eq : Nat → Option Bool) : Prop :=
  ∀ (j : Nat) (s : Bytes), names[j]? = some s → s ≠ [] → eq j = some (decide (s = q))

/-- the non-empty names are pairwise distinct -/
def DistinctNamed (names : List Bytes) : Prop :=
  ∀ (i j : Nat) (s : Bytes), names[i]? = some s → names[j]? = some s → s ≠ [] → i = j

theorem probe_found {names : List Bytes} {hf : Bytes → Nat} {n : Nat} {map seg : List Int} {off : Nat}
    (I : Inv names hf n names.length seg) (hview : View map seg off n)
    {q : Bytes} {eq : Nat → Option Bool} (hE : EqSpec names q eq) (hd : DistinctNamed names)
    {i : Nat} (hi : names[i]? = some q) (hq : q ≠ []) (hh : hf q < n) :
    probe map (off : Int) n (hf q) eq n (hf q) = some (i : Int) := by
  have hil : i < names.length := by
    rcases Nat.lt_or_ge i names.length with h | h
    · exact h
    · rw [List.getElem?_eq_none h] at hi; cases hi
  obtain ⟨t, ht, hmt, hocc⟩ := I.path i q hil hi hq
  have hn : 0 < n := by omega
  have key : ∀ r t' fuel, t' + r = t → r < fuel →
      probe map (off : Int) n (hf q) eq fuel (pos (hf q) t' n) = some (i : Int) := by
    intro r
    induction r with
    | zero =>
      intro t' fuel htr hf'
      have : t' = t := by omega
      subst this
      obtain ⟨fuel, rfl⟩ : ∃ f, fuel = f + 1 := ⟨fuel - 1, by omega⟩
      rw [probe_step hview (pos_lt hn) hmt]
      have h1 : ¬ ((i : Int) < 0) := by omega
      have h2 : ((i : Nat) : Int).toNat = i := by omega
      simp [h1, h2, hE i q hi hq]
    | succ r ih =>
      intro t' fuel htr hf'
      obtain ⟨fuel, rfl⟩ : ∃ f, fuel = f + 1 := ⟨fuel - 1, by omega⟩
      obtain ⟨v, hv, hvne⟩ := hocc t' (by omega)
      rw [probe_step hview (pos_lt hn) hv]
      rcases I.vals _ v hv with h1 | ⟨i', s', h1, h2, h3, h4⟩
      · exact absurd h1 hvne
      · subst h1
        have h5 : ¬ ((i' : Int) < 0) := by omega
        have h6 : ((i' : Nat) : Int).toNat = i' := by omega
        simp only [h5, h6, if_false, hE i' s' h3 h4]
        by_cases hsq : s' = q
        · subst hsq
          have : i' = i := hd i' i s' h3 hi h4
          subst this
          simp
        · simp only [hsq, decide_false]
          rw [wrap_eq (pos_lt hn), pos_succ]
          have hne : pos (hf q) (t' + 1) n ≠ hf q := pos_ne_start hh (by omega) (by omega)
          simp only [hne, if_false]
          exact ih (t' + 1) fuel (by omega) (by omega)
  have := key t 0 n (by omega) (by omega)
  rwa [pos_zero hh] at this

theorem probe_absent {names : List Bytes} {hf : Bytes → Nat} {n : Nat} {map seg : List Int} {off : Nat}
    (I : Inv names hf n names.length seg) (hview : View map seg off n)
    {q : Bytes} {eq : Nat → Option Bool} (hE : EqSpec names q eq)
    (habs : ∀ (j : Nat) (s : Bytes), names[j]? = some s → s ≠ [] → s ≠ q) {h : Nat} (hh : h < n) :
    probe map (off : Int) n h eq n h = some (-1) := by
  have hn : 0 < n := by omega
  have key : ∀ d t', t' + d = n → 0 < d →
      probe map (off : Int) n h eq d (pos h t' n) = some (-1) := by
    intro d
    induction d with
    | zero => intro t' _ h0; omega
    | succ d ih =>
      intro t' htd _
      have hpl : pos h t' n < seg.length := by rw [I.len]; exact pos_lt hn
      have hv : seg[pos h t' n]? = some seg[pos h t' n] := List.getElem?_eq_getElem hpl
      rw [probe_step hview (pos_lt hn) hv]
      rcases I.vals _ _ hv with h1 | ⟨i', s', h1, h2, h3, h4⟩
      · simp [h1]
      · rw [h1]
        have h5 : ¬ ((i' : Int) < 0) := by omega
        have h6 : ((i' : Nat) : Int).toNat = i' := by omega
        simp only [h5, h6, if_false, hE i' s' h3 h4, habs i' s' h3 h4, decide_false]
        rw [wrap_eq (pos_lt hn), pos_succ]
        by_cases hw : pos h (t' + 1) n = h
        · simp [hw]
        · simp only [hw, if_false]
          have hd0 : 0 < d := by
            rcases Nat.eq_zero_or_pos d with h0 | h0
            · subst h0
              have : t' + 1 = n := by omega
              rw [this, pos_full hh] at hw
              exact absurd rfl hw
            · exact h0
          exact ih (t' + 1) (by omega) hd0
  have := key n 0 (by omega) hn
  rwa [pos_zero hh] at this

/-! ### C strings in the `names` buffer -/

theorem strncmpEq_spec : ∀ (q s rest : Bytes), (0 : UInt8) ∉ q → (0 : UInt8) ∉ s →
    strncmpEq q (s ++ 0 :: rest) = decide (s = q)
  | [], [], rest, _, _ => by simp [strncmpEq]
  | [], b :: bs, rest, _, hs => by
    have : b ≠ 0 := fun h => hs (by simp [h])
    simp [strncmpEq, this]
  | a :: as, [], rest, hq, _ => by
    have : a ≠ 0 := fun h => hq (by simp [h])
    simp [strncmpEq, this]
  | a :: as, b :: bs, rest, hq, hs => by
    have ha : a ≠ 0 := fun h => hq (by simp [h])
    have hq' : (0 : UInt8) ∉ as := fun h => hq (List.mem_cons_of_mem _ h)
    have hs' : (0 : UInt8) ∉ bs := fun h => hs (List.mem_cons_of_mem _ h)
    have ih := strncmpEq_spec as bs rest hq' hs'
    by_cases hab : a = b
    · subst hab
      simp [strncmpEq, ha, ih]
    · have : ¬ (b = a) := fun h => hab h.symm
      simp [strncmpEq, hab, this]

theorem readCStr_spec : ∀ (s rest : Bytes), (0 : UInt8) ∉ s → readCStr (s ++ 0 :: rest) = some s
  | [], rest, _ => by simp [readCStr]
  | b :: bs, rest, hs => by
    have hb : b ≠ 0 := fun h => hs (by simp [h])
    have hs' : (0 : UInt8) ∉ bs := fun h => hs (List.mem_cons_of_mem _ h)
    simp [readCStr, hb, readCStr_spec bs rest hs']

/-- the address array `adrs` points, for every object, at its NUL-terminated name inside `blob` -/
def AdrOK (blob : Bytes) (adrs : List Nat) (names : List Bytes) : Prop :=
  adrs.length = names.length ∧
  ∀ (i : Nat) (s : Bytes), names[i]? = some s →
    ∃ (a : Nat) (rest : Bytes), adrs[i]? = some a ∧ blob.drop a = s ++ 0 :: rest

theorem addNames_snd_length : ∀ (names : List Bytes) (a : Nat), (addNames names a).2.length = blobLen names
  | [], _ => rfl
  | s :: rest, a => by
    simp [addNames, blobLen, addNames_snd_length rest]
    omega

theorem addNames_ok : ∀ (names : List Bytes) (a : Nat) (pre post : Bytes), pre.length = a →
    AdrOK (pre ++ (addNames names a).2 ++ post) (addNames names a).1 names
  | [], a, pre, post, _ => ⟨rfl, by intro i s h; simp at h⟩
  | s :: rest, a, pre, post, hpre => by
    have ih := addNames_ok rest (a + s.length + 1) (pre ++ s ++ [0]) post (by simp [hpre]; omega)
    have hb : pre ++ (addNames (s :: rest) a).2 ++ post =
        (pre ++ s ++ [0]) ++ (addNames rest (a + s.length + 1)).2 ++ post := by
      simp [addNames, List.append_assoc]
    refine ⟨by simp [addNames, ih.1], ?_⟩
    intro i t hi
    cases i with
    | zero =>
      simp at hi
      subst hi
      refine ⟨a, (addNames rest (a + s.length + 1)).2 ++ post, by simp [addNames], ?_⟩
      have : pre ++ (addNames (s :: rest) a).2 ++ post =
          pre ++ (s ++ 0 :: ((addNames rest (a + s.length + 1)).2 ++ post)) := by
        simp [addNames, List.append_assoc]
      rw [this, List.drop_left' hpre]
    | succ i =>
      simp at hi
      obtain ⟨a', rest', h1, h2⟩ := ih.2 i t hi
      exact ⟨a', rest', by simpa [addNames] using h1, by rw [hb]; exact h2⟩

/-! ### namelist / CopyNames -/

theorem namelistMap_inv (P : Params) (hlm : 1 ≤ P.lm) (hhash : ∀ s n, 0 < n → P.hash s n < n)
    (names : List Bytes) :
    ∃ seg, namelistMap P names = some seg ∧
      Inv names (fun s => P.hash s (P.lm * names.length)) (P.lm * names.length) names.length seg := by
  have hn : names.length ≤ P.lm * names.length := Nat.le_mul_of_pos_left _ hlm
  exact insertNames_inv P names (P.lm * names.length) hn (fun s => hhash s _) names 0 _ (by omega) rfl
    (Inv.init names _ _)

/-- offset of the map segment of field `f` (first occurrence in `chain`) -/
def segOffset (lm : Nat) (lists : Nat → List Bytes) : List Nat → Nat → Nat
  | [], _ => 0
  | g :: rest, f => if g = f then 0 else lm * (lists g).length + segOffset lm lists rest f

theorem segOffset_append (lm : Nat) (lists : Nat → List Bytes) (f : Nat) :
    ∀ (pre post : List Nat), f ∉ pre → segOffset lm lists (pre ++ f :: post) f = lm * sumCounts lists pre
  | [], post, _ => by simp [segOffset, sumCounts]
  | g :: pre, post, h => by
    have hg : g ≠ f := fun e => h (by simp [e])
    have h' : f ∉ pre := fun e => h (List.mem_cons_of_mem _ e)
    simp [segOffset, sumCounts, hg, segOffset_append lm lists f pre post h', Nat.mul_add]

theorem sumCounts_append (lists : Nat → List Bytes) : ∀ (a b : List Nat),
    sumCounts lists (a ++ b) = sumCounts lists a + sumCounts lists b
  | [], b => by simp [sumCounts]
  | x :: a, b => by simp [sumCounts, sumCounts_append lists a b]; omega

theorem copyChain_total (P : Params) (hlm : 1 ≤ P.lm) (hhash : ∀ s n, 0 < n → P.hash s n < n)
    (lists : Nat → List Bytes) : ∀ (chain : List Nat) (adr : Nat), ∃ r, copyChain P lists chain adr = some r
  | [], _ => ⟨_, rfl⟩
  | f :: rest, adr => by
    obtain ⟨seg, hseg, _⟩ := namelistMap_inv P hlm hhash (lists f)
    obtain ⟨⟨as, mp, bl⟩, hr⟩ := copyChain_total P hlm hhash lists rest (adr + blobLen (lists f))
    exact ⟨((f, (addNames (lists f) adr).1) :: as, seg ++ mp, (addNames (lists f) adr).2 ++ bl),
      by simp [copyChain, hseg, hr]⟩

theorem copyChain_spec (P : Params) (hlm : 1 ≤ P.lm) (hhash : ∀ s n, 0 < n → P.hash s n < n)
    (lists : Nat → List Bytes) :
    ∀ (chain : List Nat) (adr : Nat) (as : List (Nat × List Nat)) (mp : List Int) (bl : Bytes),
      copyChain P lists chain adr = some (as, mp, bl) →
      mp.length = P.lm * sumCounts lists chain ∧
      ∀ f, f ∈ chain →
        (∃ seg, Inv (lists f) (fun s => P.hash s (P.lm * (lists f).length)) (P.lm * (lists f).length)
                  (lists f).length seg ∧
                View mp seg (segOffset P.lm lists chain f) (P.lm * (lists f).length)) ∧
        (∀ (pre post : Bytes), pre.length = adr → AdrOK (pre ++ bl ++ post) (lookupAdr as f) (lists f))
  | [], adr, as, mp, bl, h => by
    simp [copyChain] at h
    obtain ⟨rfl, rfl, rfl⟩ := h
    exact ⟨by simp [sumCounts], by intro f hf; simp at hf⟩
  | g :: rest, adr, as, mp, bl, h => by
    obtain ⟨seg, hseg, I⟩ := namelistMap_inv P hlm hhash (lists g)
    obtain ⟨⟨as', mp', bl'⟩, hr⟩ := copyChain_total P hlm hhash lists rest (adr + blobLen (lists g))
    simp only [copyChain, hseg, hr] at h
    injection h with h
    injection h with h1 h
    injection h with h2 h3
    subst h1 h2 h3
    obtain ⟨hlen, ih⟩ := copyChain_spec P hlm hhash lists rest _ as' mp' bl' hr
    refine ⟨by simp [sumCounts, I.len, hlen, Nat.mul_add], ?_⟩
    intro f hf
    by_cases hgf : g = f
    · subst hgf
      refine ⟨⟨seg, I, ?_⟩, ?_⟩
      · intro i hi
        simp only [segOffset, if_true, Nat.zero_add]
        exact List.getElem?_append_left (by rw [I.len]; exact hi)
      · intro pre post hpre
        simp only [lookupAdr, if_true]
        have := addNames_ok (lists g) adr pre (bl' ++ post) hpre
        simpa [List.append_assoc] using this
    · have hf' : f ∈ rest := by
        rcases List.mem_cons.1 hf with h | h
        · exact absurd h.symm hgf
        · exact h
      obtain ⟨⟨seg', I', hv'⟩, hadr'⟩ := ih f hf'
      refine ⟨⟨seg', I', ?_⟩, ?_⟩
      · intro i hi
        simp only [segOffset, hgf, if_false]
        rw [← I.len, Nat.add_assoc, List.getElem?_append_right (by omega)]
        have : seg.length + (segOffset P.lm lists rest f + i) - seg.length = segOffset P.lm lists rest f + i := by
          omega
        rw [this]
        exact hv' i hi
      · intro pre post hpre
        simp only [lookupAdr, hgf, if_false]
        have := hadr' (pre ++ (addNames (lists g) adr).2) post
          (by simp [hpre, addNames_snd_length])
        simpa [List.append_assoc] using this

/-! ### _getnumadr -/

/-- total count of the blocks the fall-through passes -/
def sumCnt (m : CModel) : List Entry → Nat
  | [] => 0
  | e :: es => m.cnt e.cntField + sumCnt m es

theorem mapadrFrom_eq (lm : Nat) (m : CModel) : ∀ (es : List Entry) (a : Int),
    mapadrFrom lm m es a = a - ((lm * sumCnt m es : Nat) : Int)
  | [], a => by simp [mapadrFrom, sumCnt]
  | e :: es, a => by
    rw [mapadrFrom, mapadrFrom_eq lm m es]
    simp only [sumCnt, Nat.mul_add]
    omega

theorem getnumadr_some (lm : Nat) (m : CModel) (t : Int) :
    ∀ (chain : List Entry) (a : Int) (e : Entry) (mapadr : Int),
      getnumadr lm m t chain a = (some e, mapadr) →
      ∃ pre post, chain = pre ++ e :: post ∧ mapadr = a - ((lm * sumCnt m (e :: post) : Nat) : Int) ∧
        e.cases.contains t = true
  | [], a, e, mapadr, h => by simp [getnumadr] at h
  | x :: xs, a, e, mapadr, h => by
    by_cases hc : x.cases.contains t = true
    · simp only [getnumadr, hc, if_true] at h
      injection h with h1 h2
      injection h1 with h1
      subst h1
      exact ⟨[], xs, rfl, by rw [← h2, mapadrFrom_eq], hc⟩
    · simp only [getnumadr, hc] at h
      obtain ⟨pre, post, h1, h2, h3⟩ := getnumadr_some lm m t xs a e mapadr h
      exact ⟨x :: pre, post, by simp [h1], h2, h3⟩

theorem getnumadr_none (lm : Nat) (m : CModel) (t : Int) :
    ∀ (chain : List Entry) (a : Int), (∀ e ∈ chain, e.cases.contains t = false) →
      (getnumadr lm m t chain a).1 = none
  | [], a, _ => rfl
  | x :: xs, a, h => by
    have hx : x.cases.contains t = false := h x (by simp)
    simp only [getnumadr, hx]
    exact getnumadr_none lm m t xs a (fun e he => h e (List.mem_cons_of_mem _ he))

theorem sumCounts_perm (lists : Nat → List Bytes) {a b : List Nat} (h : a.Perm b) :
    sumCounts lists a = sumCounts lists b := by
  induction h with
  | nil => rfl
  | cons x _ ih => simp [sumCounts, ih]
  | swap x y l => simp [sumCounts]; omega
  | trans _ _ ih1 ih2 => exact ih1.trans ih2

/-! ### mj_hashString -/

theorem hashString_lt (init shift : Nat) (s : Bytes) {n : Nat} (hn : 0 < n) : hashString init shift s n < n := by
  unfold hashString
  rw [UInt64.toNat_mod]
  have hlt : (hashLoop shift.toUInt64 s init.toUInt64).toNat < 2 ^ 64 := UInt64.toNat_lt _
  generalize (hashLoop shift.toUInt64 s init.toUInt64).toNat = h at hlt ⊢
  have hm : n.toUInt64.toNat = n % 2 ^ 64 := by simp [Nat.toUInt64]
  rw [hm]
  by_cases h0 : n % 2 ^ 64 = 0
  · rw [h0, Nat.mod_zero]
    omega
  · have := Nat.mod_lt h (Nat.pos_of_ne_zero h0)
    have := Nat.mod_le n (2 ^ 64)
    omega

end MjProof.Name
