import MjProof.Model.Introspect
/-
C49 helper lemmas about the table types: `WF` of a decoded AST splits into the shape check and the
check of the leaf name; `dedup` keeps every element.
-/
namespace MjProof.Introspect
open MjProof.CType

theorem decode_isArray (t : CTypeN) : t.decode.isArray = t.isArray := by
  cases t <;> rfl

theorem wf_decode (t : CTypeN) : WF t.decode = (wfName (dS t.leaf) && t.shapeOk) := by
  induction t with
  | value n c v => simp [CTypeN.decode, WF, CTypeN.leaf, CTypeN.shapeOk]
  | pointer i n c v r ih =>
    simp only [CTypeN.decode, WF, CTypeN.leaf, CTypeN.shapeOk, ih]
    cases n <;> simp [Bool.and_comm]
  | array i e ih =>
    simp only [CTypeN.decode, WF, CTypeN.leaf, CTypeN.shapeOk, ih, decode_isArray]
    cases e.isEmpty <;> cases i.isArray <;> simp [Bool.and_comm]

theorem mem_dedup : ∀ (l acc : List Nat) (x : Nat), x ∈ l ∨ x ∈ acc → x ∈ dedup l acc := by
  intro l
  induction l with
  | nil => intro acc x h; simpa [dedup] using h
  | cons y ys ih =>
    intro acc x h
    simp only [dedup]
    split
    · rename_i hc
      apply ih
      rcases h with h | h
      · rcases List.mem_cons.mp h with rfl | h
        · right; simpa using hc
        · left; exact h
      · right; exact h
    · apply ih
      rcases h with h | h
      · rcases List.mem_cons.mp h with rfl | h
        · right; simp
        · left; exact h
      · right; simp [h]

theorem typesOk_wf {ts : List CTypeN} (h : typesOk ts = true) : ∀ t ∈ ts, WF t.decode = true := by
  intro t ht
  simp only [typesOk, Bool.and_eq_true, List.all_eq_true] at h
  rw [wf_decode, h.1 t ht, Bool.and_true]
  exact h.2 t.leaf (mem_dedup _ _ _ (Or.inl (List.mem_map.mpr ⟨t, ht, rfl⟩)))

/-- whatever index a header-side table entry carries, the looked-up AST is what the model parser
    returns on the spelling stored next to it -/
theorem lookup_parses {tbl : TypeTable} (hp : tableParses tbl = true) (i : Nat) (t : CTypeN)
    (h : lookup tbl i = some t) : ∃ s : Nat, tbl[i]? = some (s, t) ∧ parseType (dS s) = some t.decode := by
  unfold lookup at h
  cases hi : tbl[i]? with
  | none => simp [hi] at h
  | some p =>
    obtain ⟨s, t'⟩ := p
    simp only [hi, Option.map_some, Option.some.injEq] at h
    subst h
    refine ⟨s, rfl, ?_⟩
    have hm : (s, t') ∈ tbl := List.mem_of_getElem? hi
    have := List.all_eq_true.mp hp (s, t') hm
    simpa using this

end MjProof.Introspect
