import MjProof.Lemmas.Ray
/-
C16 helper lemmas, part 3: the multi-candidate primitives (cylinder, capsule, box).

The generated kernels `mju_rayGeom_cylinder / _capsule / _box` are long let-chains in which a running solution
`x` is updated once per candidate (`if cond then (if x < 0 ∨ sol < x then sol else x) else x`).  The proofs
introduce the generated lets (`extract_lets`, names = the generated binder names, in order) and carry the invariant
"`x = -1` or `x ≥ 0` and the ray point at parameter `x` is on the surface" through every update.
-/
set_option linter.unusedTactic false
set_option linter.unreachableTactic false
set_option linter.unusedSimpArgs false
set_option linter.unusedVariables false
namespace MjProof.RayLemmas
open MjProof MjProof.Gen

theorem ite3 {P : ℝ → Prop} {c3 c4 c5 : Bool} {s x0 : ℝ} (h0 : P x0) (hs : c3 = true → c4 = true → P s) :
    P (if c3 = true then (if c4 = true then (if c5 = true then s else x0) else x0) else x0) := by
  cases c3 <;> cases c4 <;> cases c5 <;> simp_all
theorem ite2 {P : ℝ → Prop} {c1 c2 : Bool} {s x0 : ℝ} (h0 : P x0) (hs : c1 = true → P s) :
    P (if c1 = true then (if c2 = true then s else x0) else x0) := by
  cases c1 <;> cases c2 <;> simp_all
theorem ite1 {P : ℝ → Prop} {c : Bool} {a b : ℝ} (ha : c = true → P a) (hb : P b) :
    P (if c = true then a else b) := by
  cases c <;> simp_all

/-- surface of the cylinder of radius `size.1` and half-height `size.2.1` in the geom frame -/
def OnCylinder (size l : V3) : Prop :=
  ((l.2.2 = size.2.1 ∨ l.2.2 = -size.2.1) ∧ l.1 * l.1 + l.2.1 * l.2.1 ≤ size.1 * size.1) ∨
  (l.1 * l.1 + l.2.1 * l.2.1 = size.1 * size.1 ∧ |l.2.2| ≤ size.2.1)

theorem cyl_sound_scalar (p0 p1 p2 m0 m1 m2 m3 m4 m5 m6 m7 m8 s0 s1 s2 q0 q1 q2 v0 v1 v2 : ℝ) :
    let K := mju_rayGeom_cylinder p0 p1 p2 m0 m1 m2 m3 m4 m5 m6 m7 m8 s0 s1 q0 q1 q2 v0 v1 v2
    K = -1 ∨ (0 ≤ K ∧ OnCylinder (s0, s1, s2) (pointAt (toLocal (p0, p1, p2) (m0, m1, m2, m3, m4, m5, m6, m7, m8) (q0, q1, q2))
      (rotT (m0, m1, m2, m3, m4, m5, m6, m7, m8) (v0, v1, v2)) K)) := by
  intro K
  have hmap := rayMap_eq (p0, p1, p2) (m0, m1, m2, m3, m4, m5, m6, m7, m8) (q0, q1, q2) (v0, v1, v2)
  generalize toLocal (p0, p1, p2) (m0, m1, m2, m3, m4, m5, m6, m7, m8) (q0, q1, q2) = lp at hmap ⊢
  generalize rotT (m0, m1, m2, m3, m4, m5, m6, m7, m8) (v0, v1, v2) = lv at hmap ⊢
  obtain ⟨l0, l1, l2⟩ := lp; obtain ⟨w0, w1, w2⟩ := lv
  simp only [rayMap, Prod.mk.injEq] at hmap
  obtain ⟨⟨h0, h1, h2⟩, h3, h4, h5⟩ := hmap
  revert K
  unfold mju_rayGeom_cylinder
  extract_lets -merge ssz_0 dif_0_0 dif_1_0 dif_2_0 a_0 b_0 c_0 r_ray_quad_0 ray_quad_ret_0 xx_0_0 xx_1_0 c_1 ret_0 r_ray_map_0 lpnt_0_0 lpnt_1_0 lpnt_2_0 lvec_0_0 lvec_1_0 lvec_2_0 x_0 c_2 sol_0 c_3 p0_0 p1_0 c_4 c_5 x_1 type_0 x_2 type_1 x_3 type_2 sol_1 c_6 p0_1 p1_1 c_7 c_8 x_4 type_3 x_5 type_4 x_6 type_5 x_7 type_6 a_1 b_1 c_9 r_ray_quad_1 ray_quad_ret_1 xx_0_1 xx_1_1 c_10 c_11 x_8 type_7 x_9 type_8 ret_1 K
  -- the invariant carried by the running solution
  let P : ℝ → Prop := fun x => x = -1 ∨ (0 ≤ x ∧ OnCylinder (s0, s1, s2) (pointAt (l0, l1, l2) (w0, w1, w2) x))
  show P K
  have hl0 : lpnt_0_0 = l0 := h0
  have hl1 : lpnt_1_0 = l1 := h1
  have hl2 : lpnt_2_0 = l2 := h2
  have hw0 : lvec_0_0 = w0 := h3
  have hw1 : lvec_1_0 = w1 := h4
  have hw2 : lvec_2_0 = w2 := h5
  have hx0 : P x_0 := by left; simp [x_0]
  have hc2 : c_2 = true → w2 ≠ 0 := by
    intro h
    simp only [c_2, decide_eq_true_eq, real_lt_iff, ofSci_eps, real_abs, hw2] at h
    intro hz; rw [hz] at h; simp at h; linarith [eps_pos]
  have hx3 : c_2 = true → P x_3 := by
    intro hc
    have hw := hc2 hc
    simp only [x_3, x_2, x_1]
    apply ite3 hx0
    intro h3 h4
    right
    simp only [c_3, decide_eq_true_eq, real_le_iff, real_ofInt] at h3
    simp only [c_4, decide_eq_true_eq, real_le_iff, p0_0, p1_0, hl0, hl1, hw0, hw1] at h4
    refine ⟨by exact_mod_cast h3, Or.inl ⟨Or.inr ?_, ?_⟩⟩
    · simp only [pointAt, sol_0, hl2, hw2, real_ofInt]; push_cast; field_simp; ring
    · simpa only [pointAt] using h4
  have hx6 : c_2 = true → P x_6 := by
    intro hc
    have hw := hc2 hc
    simp only [x_6, x_5, x_4]
    apply ite3 (hx3 hc)
    intro h3 h4
    right
    simp only [c_6, decide_eq_true_eq, real_le_iff, real_ofInt] at h3
    simp only [c_7, decide_eq_true_eq, real_le_iff, p0_1, p1_1, hl0, hl1, hw0, hw1] at h4
    refine ⟨by exact_mod_cast h3, Or.inl ⟨Or.inl ?_, ?_⟩⟩
    · simp only [pointAt, sol_1, hl2, hw2, real_ofInt]; push_cast; field_simp; ring
    · simpa only [pointAt] using h4
  have hx7 : P x_7 := by
    simp only [x_7]
    exact ite1 hx6 hx0
  have hx9 : P x_9 := by
    simp only [x_9, x_8]
    apply ite2 hx7
    intro h10
    right
    simp only [c_10, decide_eq_true_eq, real_le_iff, real_ofInt, real_abs, hl2, hw2] at h10
    obtain ⟨hq0, hz⟩ := h10
    have hq0' : 0 ≤ quadRet a_1 b_1 c_9 := by exact_mod_cast hq0
    have hroot := quadRet_root hq0'
    refine ⟨hq0', Or.inr ⟨?_, hz⟩⟩
    simp only [Q, a_1, b_1, c_9, hl0, hl1, hw0, hw1] at hroot
    simp only [pointAt]
    have : ray_quad_ret_1 = quadRet a_1 b_1 c_9 := rfl
    rw [this]
    simp only [a_1, b_1, c_9, hl0, hl1, hw0, hw1]
    linarith
  show P ret_1
  simp only [ret_1]
  exact ite1 (fun _ => Or.inl (by simp [ret_0])) hx9

/-- `mju_rayGeom(…, mjGEOM_CYLINDER, NULL)` (reads `size[0]` = radius, `size[1]` = half height) -/
noncomputable def rayCylinder (pos : V3) (m : M9) (size : V3) (pnt vec : V3) : ℝ :=
  mju_rayGeom_cylinder (α := ℝ) pos.1 pos.2.1 pos.2.2 m.1 m.2.1 m.2.2.1 m.2.2.2.1 m.2.2.2.2.1 m.2.2.2.2.2.1
    m.2.2.2.2.2.2.1 m.2.2.2.2.2.2.2.1 m.2.2.2.2.2.2.2.2 size.1 size.2.1 pnt.1 pnt.2.1 pnt.2.2 vec.1 vec.2.1 vec.2.2

theorem cylinder_inv (pos : V3) (m : M9) (size pnt vec : V3) :
    rayCylinder pos m size pnt vec = -1 ∨ (0 ≤ rayCylinder pos m size pnt vec ∧
      OnCylinder size (toLocal pos m (pointAt pnt vec (rayCylinder pos m size pnt vec)))) := by
  obtain ⟨p0, p1, p2⟩ := pos; obtain ⟨m0, m1, m2, m3, m4, m5, m6, m7, m8⟩ := m
  obtain ⟨s0, s1, s2⟩ := size; obtain ⟨q0, q1, q2⟩ := pnt; obtain ⟨v0, v1, v2⟩ := vec
  rw [toLocal_pointAt]
  exact cyl_sound_scalar p0 p1 p2 m0 m1 m2 m3 m4 m5 m6 m7 m8 s0 s1 s2 q0 q1 q2 v0 v1 v2

theorem cylinder_hit_on_surface (pos : V3) (m : M9) (size pnt vec : V3) (h : 0 ≤ rayCylinder pos m size pnt vec) :
    OnCylinder size (toLocal pos m (pointAt pnt vec (rayCylinder pos m size pnt vec))) := by
  rcases cylinder_inv pos m size pnt vec with h1 | h1
  · rw [h1] at h; norm_num at h
  · exact h1.2

theorem cylinder_range (pos : V3) (m : M9) (size pnt vec : V3) :
    rayCylinder pos m size pnt vec = -1 ∨ 0 ≤ rayCylinder pos m size pnt vec := by
  rcases cylinder_inv pos m size pnt vec with h1 | h1
  · exact Or.inl h1
  · exact Or.inr h1.1

/-! ### capsule -/

/-- surface of the capsule of radius `size.1` and cylinder half-length `size.2.1` in the geom frame: the round side
    between the cap centres, or the outer half of the sphere around a cap centre -/
def OnCapsule (size l : V3) : Prop :=
  (l.1 * l.1 + l.2.1 * l.2.1 = size.1 * size.1 ∧ |l.2.2| ≤ size.2.1) ∨
  (size.2.1 ≤ l.2.2 ∧ l.1 * l.1 + l.2.1 * l.2.1 + (l.2.2 - size.2.1) * (l.2.2 - size.2.1) = size.1 * size.1) ∨
  (l.2.2 ≤ -size.2.1 ∧ l.1 * l.1 + l.2.1 * l.2.1 + (l.2.2 + size.2.1) * (l.2.2 + size.2.1) = size.1 * size.1)

theorem capsule_sound_scalar (p0 p1 p2 m0 m1 m2 m3 m4 m5 m6 m7 m8 s0 s1 s2 q0 q1 q2 v0 v1 v2 : ℝ) :
    let K := mju_rayGeom_capsule p0 p1 p2 m0 m1 m2 m3 m4 m5 m6 m7 m8 s0 s1 q0 q1 q2 v0 v1 v2
    K = -1 ∨ (0 ≤ K ∧ OnCapsule (s0, s1, s2) (pointAt (toLocal (p0, p1, p2) (m0, m1, m2, m3, m4, m5, m6, m7, m8) (q0, q1, q2))
      (rotT (m0, m1, m2, m3, m4, m5, m6, m7, m8) (v0, v1, v2)) K)) := by
  intro K
  have hmap := rayMap_eq (p0, p1, p2) (m0, m1, m2, m3, m4, m5, m6, m7, m8) (q0, q1, q2) (v0, v1, v2)
  generalize toLocal (p0, p1, p2) (m0, m1, m2, m3, m4, m5, m6, m7, m8) (q0, q1, q2) = lp at hmap ⊢
  generalize rotT (m0, m1, m2, m3, m4, m5, m6, m7, m8) (v0, v1, v2) = lv at hmap ⊢
  obtain ⟨l0, l1, l2⟩ := lp; obtain ⟨w0, w1, w2⟩ := lv
  simp only [rayMap, Prod.mk.injEq] at hmap
  obtain ⟨⟨h0, h1, h2⟩, h3, h4, h5⟩ := hmap
  revert K
  unfold mju_rayGeom_capsule
  extract_lets -merge ssz_0 dist_sqr_0 dif_0_0 dif_1_0 dif_2_0 a_0 b_0 c_0 r_ray_quad_0 ray_quad_ret_0 xx_0_0 xx_1_0 c_1 ret_0 r_ray_map_0 lpnt_0_0 lpnt_1_0 lpnt_2_0 lvec_0_0 lvec_1_0 lvec_2_0 x_0 a_1 b_1 c_2 r_ray_quad_1 ray_quad_ret_1 xx_0_1 xx_1_1 c_3 c_4 x_1 x_2 ldif_2_0 a_2 b_2 c_5 r_ray_quad_2 ray_quad_ret_2 xx_0_2 xx_1_2 c_6 c_7 x_3 x_4 c_8 c_9 x_5 x_6 ldif_2_1 b_3 c_10 r_ray_quad_3 ray_quad_ret_3 xx_0_3 xx_1_3 c_11 c_12 x_7 x_8 c_13 c_14 x_9 x_10 ret_1 K
  let P : ℝ → Prop := fun x => x = -1 ∨ (0 ≤ x ∧ OnCapsule (s0, s1, s2) (pointAt (l0, l1, l2) (w0, w1, w2) x))
  show P K
  have hl0 : lpnt_0_0 = l0 := h0
  have hl1 : lpnt_1_0 = l1 := h1
  have hl2 : lpnt_2_0 = l2 := h2
  have hw0 : lvec_0_0 = w0 := h3
  have hw1 : lvec_1_0 = w1 := h4
  have hw2 : lvec_2_0 = w2 := h5
  have hx0 : P x_0 := by left; simp [x_0]
  -- round side
  have hx2 : P x_2 := by
    simp only [x_2, x_1]
    apply ite2 hx0
    intro hc
    right
    simp only [c_3, decide_eq_true_eq, real_le_iff, real_ofInt, real_abs, hl2, hw2] at hc
    obtain ⟨hq0, hz⟩ := hc
    have hq0' : 0 ≤ quadRet a_1 b_1 c_2 := by exact_mod_cast hq0
    have hroot := quadRet_root hq0'
    refine ⟨hq0', Or.inl ⟨?_, hz⟩⟩
    simp only [Q, a_1, b_1, c_2, hl0, hl1, hw0, hw1] at hroot
    simp only [pointAt]
    have : ray_quad_ret_1 = quadRet a_1 b_1 c_2 := rfl
    rw [this]
    simp only [a_1, b_1, c_2, hl0, hl1, hw0, hw1]
    linarith
  -- top cap, both roots
  have htop : ∀ t : ℝ, Q a_2 b_2 c_5 t = 0 → s1 ≤ l2 + t * w2 → 0 ≤ t → P t := by
    intro t hq hz ht
    right
    refine ⟨ht, Or.inr (Or.inl ⟨by simpa only [pointAt] using hz, ?_⟩)⟩
    simp only [Q, a_2, b_2, c_5, ldif_2_0, hl0, hl1, hl2, hw0, hw1, hw2] at hq
    simp only [pointAt]
    linarith
  have hx4 : P x_4 := by
    simp only [x_4, x_3]
    apply ite2 hx2
    intro hc
    simp only [c_6, decide_eq_true_eq, real_le_iff, real_ofInt, hl2, hw2] at hc
    obtain ⟨hq0, hz⟩ := hc
    have hq0' : 0 ≤ (ray_quad a_2 b_2 c_5).2.1 := by exact_mod_cast hq0
    exact htop _ (quadX0_root hq0') hz hq0'
  have hx6 : P x_6 := by
    simp only [x_6, x_5]
    apply ite2 hx4
    intro hc
    simp only [c_8, decide_eq_true_eq, real_le_iff, real_ofInt, hl2, hw2] at hc
    obtain ⟨hq0, hz⟩ := hc
    have hq0' : 0 ≤ (ray_quad a_2 b_2 c_5).2.2 := by exact_mod_cast hq0
    exact htop _ (quadX1_root hq0') hz hq0'
  -- bottom cap, both roots
  have hbot : ∀ t : ℝ, Q a_2 b_3 c_10 t = 0 → l2 + t * w2 ≤ -s1 → 0 ≤ t → P t := by
    intro t hq hz ht
    right
    refine ⟨ht, Or.inr (Or.inr ⟨by simpa only [pointAt] using hz, ?_⟩)⟩
    simp only [Q, a_2, b_3, c_10, ldif_2_1, hl0, hl1, hl2, hw0, hw1, hw2] at hq
    simp only [pointAt]
    linarith
  have hx8 : P x_8 := by
    simp only [x_8, x_7]
    apply ite2 hx6
    intro hc
    simp only [c_11, decide_eq_true_eq, real_le_iff, real_ofInt, hl2, hw2] at hc
    obtain ⟨hq0, hz⟩ := hc
    have hq0' : 0 ≤ (ray_quad a_2 b_3 c_10).2.1 := by exact_mod_cast hq0
    exact hbot _ (quadX0_root hq0') hz hq0'
  have hx10 : P x_10 := by
    simp only [x_10, x_9]
    apply ite2 hx8
    intro hc
    simp only [c_13, decide_eq_true_eq, real_le_iff, real_ofInt, hl2, hw2] at hc
    obtain ⟨hq0, hz⟩ := hc
    have hq0' : 0 ≤ (ray_quad a_2 b_3 c_10).2.2 := by exact_mod_cast hq0
    exact hbot _ (quadX1_root hq0') hz hq0'
  show P ret_1
  simp only [ret_1]
  exact ite1 (fun _ => Or.inl (by simp [ret_0])) hx10

/-- `mju_rayGeom(…, mjGEOM_CAPSULE, NULL)` (reads `size[0]` = radius, `size[1]` = half length of the cylinder part) -/
noncomputable def rayCapsule (pos : V3) (m : M9) (size : V3) (pnt vec : V3) : ℝ :=
  mju_rayGeom_capsule (α := ℝ) pos.1 pos.2.1 pos.2.2 m.1 m.2.1 m.2.2.1 m.2.2.2.1 m.2.2.2.2.1 m.2.2.2.2.2.1
    m.2.2.2.2.2.2.1 m.2.2.2.2.2.2.2.1 m.2.2.2.2.2.2.2.2 size.1 size.2.1 pnt.1 pnt.2.1 pnt.2.2 vec.1 vec.2.1 vec.2.2

theorem capsule_inv (pos : V3) (m : M9) (size pnt vec : V3) :
    rayCapsule pos m size pnt vec = -1 ∨ (0 ≤ rayCapsule pos m size pnt vec ∧
      OnCapsule size (toLocal pos m (pointAt pnt vec (rayCapsule pos m size pnt vec)))) := by
  obtain ⟨p0, p1, p2⟩ := pos; obtain ⟨m0, m1, m2, m3, m4, m5, m6, m7, m8⟩ := m
  obtain ⟨s0, s1, s2⟩ := size; obtain ⟨q0, q1, q2⟩ := pnt; obtain ⟨v0, v1, v2⟩ := vec
  rw [toLocal_pointAt]
  exact capsule_sound_scalar p0 p1 p2 m0 m1 m2 m3 m4 m5 m6 m7 m8 s0 s1 s2 q0 q1 q2 v0 v1 v2

theorem capsule_hit_on_surface (pos : V3) (m : M9) (size pnt vec : V3) (h : 0 ≤ rayCapsule pos m size pnt vec) :
    OnCapsule size (toLocal pos m (pointAt pnt vec (rayCapsule pos m size pnt vec))) := by
  rcases capsule_inv pos m size pnt vec with h1 | h1
  · rw [h1] at h; norm_num at h
  · exact h1.2

theorem capsule_range (pos : V3) (m : M9) (size pnt vec : V3) :
    rayCapsule pos m size pnt vec = -1 ∨ 0 ≤ rayCapsule pos m size pnt vec := by
  rcases capsule_inv pos m size pnt vec with h1 | h1
  · exact Or.inl h1
  · exact Or.inr h1.1

/-! ### box -/

/-- boundary of the box `|l_i| ≤ size_i` in the geom frame: on a face plane of one axis, within the rectangle of the other two -/
def OnBox (size l : V3) : Prop :=
  ((l.1 = size.1 ∨ l.1 = -size.1) ∧ |l.2.1| ≤ size.2.1 ∧ |l.2.2| ≤ size.2.2) ∨
  ((l.2.1 = size.2.1 ∨ l.2.1 = -size.2.1) ∧ |l.1| ≤ size.1 ∧ |l.2.2| ≤ size.2.2) ∨
  ((l.2.2 = size.2.2 ∨ l.2.2 = -size.2.2) ∧ |l.1| ≤ size.1 ∧ |l.2.1| ≤ size.2.1)

theorem box_sound_scalar (p0 p1 p2 m0 m1 m2 m3 m4 m5 m6 m7 m8 s0 s1 s2 q0 q1 q2 v0 v1 v2 : ℝ) :
    let K := mju_rayGeom_box p0 p1 p2 m0 m1 m2 m3 m4 m5 m6 m7 m8 s0 s1 s2 q0 q1 q2 v0 v1 v2
    K = -1 ∨ (0 ≤ K ∧ OnBox (s0, s1, s2) (pointAt (toLocal (p0, p1, p2) (m0, m1, m2, m3, m4, m5, m6, m7, m8) (q0, q1, q2))
      (rotT (m0, m1, m2, m3, m4, m5, m6, m7, m8) (v0, v1, v2)) K)) := by
  intro K
  have hmap := rayMap_eq (p0, p1, p2) (m0, m1, m2, m3, m4, m5, m6, m7, m8) (q0, q1, q2) (v0, v1, v2)
  generalize toLocal (p0, p1, p2) (m0, m1, m2, m3, m4, m5, m6, m7, m8) (q0, q1, q2) = lp at hmap ⊢
  generalize rotT (m0, m1, m2, m3, m4, m5, m6, m7, m8) (v0, v1, v2) = lv at hmap ⊢
  obtain ⟨l0, l1, l2⟩ := lp; obtain ⟨w0, w1, w2⟩ := lv
  simp only [rayMap, Prod.mk.injEq] at hmap
  obtain ⟨⟨h0, h1, h2⟩, h3, h4, h5⟩ := hmap
  revert K
  unfold mju_rayGeom_box
  extract_lets -merge ssz_0 dif_0_0 dif_1_0 dif_2_0 a_0 b_0 c_0 r_ray_quad_0 ray_quad_ret_0 xx_0_0 xx_1_0 c_1 ret_0 r_ray_map_0 lpnt_0_0 lpnt_1_0 lpnt_2_0 lvec_0_0 lvec_1_0 lvec_2_0 x_0 c_2 sol_0 c_3 p0_0 p1_0 c_4 c_5 x_1 face_axis_0 x_2 face_axis_1 x_3 face_axis_2 sol_1 c_6 p0_1 p1_1 c_7 c_8 x_4 face_axis_3 x_5 face_axis_4 x_6 face_axis_5 x_7 face_axis_6 c_9 sol_2 c_10 p0_2 p1_2 c_11 c_12 x_8 face_axis_7 x_9 face_axis_8 x_10 face_axis_9 sol_3 c_13 p0_3 p1_3 c_14 c_15 x_11 face_axis_10 x_12 face_axis_11 x_13 face_axis_12 x_14 face_axis_13 c_16 sol_4 c_17 p0_4 p1_4 c_18 c_19 x_15 face_axis_14 x_16 face_axis_15 x_17 face_axis_16 sol_5 c_20 p0_5 p1_5 c_21 c_22 x_18 face_axis_17 x_19 face_axis_18 x_20 face_axis_19 x_21 face_axis_20 ret_1 K
  let P : ℝ → Prop := fun x => x = -1 ∨ (0 ≤ x ∧ OnBox (s0, s1, s2) (pointAt (l0, l1, l2) (w0, w1, w2) x))
  show P K
  have hl0 : lpnt_0_0 = l0 := h0
  have hl1 : lpnt_1_0 = l1 := h1
  have hl2 : lpnt_2_0 = l2 := h2
  have hw0 : lvec_0_0 = w0 := h3
  have hw1 : lvec_1_0 = w1 := h4
  have hw2 : lvec_2_0 = w2 := h5
  have hx_0 : P x_0 := by left; simp [x_0]
  have hg0 : c_2 = true → w0 ≠ 0 := by
    intro h
    simp only [c_2, decide_eq_true_eq, real_lt_iff, ofSci_eps, real_abs, hw0] at h
    intro hz; rw [hz] at h; simp at h; linarith [eps_pos]
  have hx_3 : c_2 = true → P x_3 := by
    intro hc
    have hw := hg0 hc
    simp only [x_3, x_2, x_1]
    apply ite3 hx_0
    intro h3 h4
    right
    simp only [c_3, decide_eq_true_eq, real_le_iff, real_ofInt] at h3
    simp only [c_4, decide_eq_true_eq, real_le_iff, real_abs, p0_0, p1_0, hl0, hl1, hl2, hw0, hw1, hw2] at h4
    refine ⟨by exact_mod_cast h3, Or.inl ⟨Or.inr ?_, by simpa only [pointAt] using h4.1, by simpa only [pointAt] using h4.2⟩⟩
    simp only [pointAt, sol_0, hl0, hw0, real_ofInt]; push_cast; field_simp; ring
  have hx_6 : c_2 = true → P x_6 := by
    intro hc
    have hw := hg0 hc
    simp only [x_6, x_5, x_4]
    apply ite3 (hx_3 hc)
    intro h3 h4
    right
    simp only [c_6, decide_eq_true_eq, real_le_iff, real_ofInt] at h3
    simp only [c_7, decide_eq_true_eq, real_le_iff, real_abs, p0_1, p1_1, hl0, hl1, hl2, hw0, hw1, hw2] at h4
    refine ⟨by exact_mod_cast h3, Or.inl ⟨Or.inl ?_, by simpa only [pointAt] using h4.1, by simpa only [pointAt] using h4.2⟩⟩
    simp only [pointAt, sol_1, hl0, hw0, real_ofInt]; push_cast; field_simp; ring
  have hx_7 : P x_7 := by
    simp only [x_7]
    exact ite1 hx_6 hx_0
  have hg1 : c_9 = true → w1 ≠ 0 := by
    intro h
    simp only [c_9, decide_eq_true_eq, real_lt_iff, ofSci_eps, real_abs, hw1] at h
    intro hz; rw [hz] at h; simp at h; linarith [eps_pos]
  have hx_10 : c_9 = true → P x_10 := by
    intro hc
    have hw := hg1 hc
    simp only [x_10, x_9, x_8]
    apply ite3 hx_7
    intro h3 h4
    right
    simp only [c_10, decide_eq_true_eq, real_le_iff, real_ofInt] at h3
    simp only [c_11, decide_eq_true_eq, real_le_iff, real_abs, p0_2, p1_2, hl0, hl1, hl2, hw0, hw1, hw2] at h4
    refine ⟨by exact_mod_cast h3, (Or.inr ∘ Or.inl) ⟨Or.inr ?_, by simpa only [pointAt] using h4.1, by simpa only [pointAt] using h4.2⟩⟩
    simp only [pointAt, sol_2, hl1, hw1, real_ofInt]; push_cast; field_simp; ring
  have hx_13 : c_9 = true → P x_13 := by
    intro hc
    have hw := hg1 hc
    simp only [x_13, x_12, x_11]
    apply ite3 (hx_10 hc)
    intro h3 h4
    right
    simp only [c_13, decide_eq_true_eq, real_le_iff, real_ofInt] at h3
    simp only [c_14, decide_eq_true_eq, real_le_iff, real_abs, p0_3, p1_3, hl0, hl1, hl2, hw0, hw1, hw2] at h4
    refine ⟨by exact_mod_cast h3, (Or.inr ∘ Or.inl) ⟨Or.inl ?_, by simpa only [pointAt] using h4.1, by simpa only [pointAt] using h4.2⟩⟩
    simp only [pointAt, sol_3, hl1, hw1, real_ofInt]; push_cast; field_simp; ring
  have hx_14 : P x_14 := by
    simp only [x_14]
    exact ite1 hx_13 hx_7
  have hg2 : c_16 = true → w2 ≠ 0 := by
    intro h
    simp only [c_16, decide_eq_true_eq, real_lt_iff, ofSci_eps, real_abs, hw2] at h
    intro hz; rw [hz] at h; simp at h; linarith [eps_pos]
  have hx_17 : c_16 = true → P x_17 := by
    intro hc
    have hw := hg2 hc
    simp only [x_17, x_16, x_15]
    apply ite3 hx_14
    intro h3 h4
    right
    simp only [c_17, decide_eq_true_eq, real_le_iff, real_ofInt] at h3
    simp only [c_18, decide_eq_true_eq, real_le_iff, real_abs, p0_4, p1_4, hl0, hl1, hl2, hw0, hw1, hw2] at h4
    refine ⟨by exact_mod_cast h3, (Or.inr ∘ Or.inr) ⟨Or.inr ?_, by simpa only [pointAt] using h4.1, by simpa only [pointAt] using h4.2⟩⟩
    simp only [pointAt, sol_4, hl2, hw2, real_ofInt]; push_cast; field_simp; ring
  have hx_20 : c_16 = true → P x_20 := by
    intro hc
    have hw := hg2 hc
    simp only [x_20, x_19, x_18]
    apply ite3 (hx_17 hc)
    intro h3 h4
    right
    simp only [c_20, decide_eq_true_eq, real_le_iff, real_ofInt] at h3
    simp only [c_21, decide_eq_true_eq, real_le_iff, real_abs, p0_5, p1_5, hl0, hl1, hl2, hw0, hw1, hw2] at h4
    refine ⟨by exact_mod_cast h3, (Or.inr ∘ Or.inr) ⟨Or.inl ?_, by simpa only [pointAt] using h4.1, by simpa only [pointAt] using h4.2⟩⟩
    simp only [pointAt, sol_5, hl2, hw2, real_ofInt]; push_cast; field_simp; ring
  have hx_21 : P x_21 := by
    simp only [x_21]
    exact ite1 hx_20 hx_14
  show P ret_1
  simp only [ret_1]
  exact ite1 (fun _ => Or.inl (by simp [ret_0])) hx_21

/-- `mju_rayGeom(…, mjGEOM_BOX, NULL)` -/
noncomputable def rayBox (pos : V3) (m : M9) (size : V3) (pnt vec : V3) : ℝ :=
  mju_rayGeom_box (α := ℝ) pos.1 pos.2.1 pos.2.2 m.1 m.2.1 m.2.2.1 m.2.2.2.1 m.2.2.2.2.1 m.2.2.2.2.2.1
    m.2.2.2.2.2.2.1 m.2.2.2.2.2.2.2.1 m.2.2.2.2.2.2.2.2 size.1 size.2.1 size.2.2 pnt.1 pnt.2.1 pnt.2.2 vec.1 vec.2.1 vec.2.2

theorem box_inv (pos : V3) (m : M9) (size pnt vec : V3) :
    rayBox pos m size pnt vec = -1 ∨ (0 ≤ rayBox pos m size pnt vec ∧
      OnBox size (toLocal pos m (pointAt pnt vec (rayBox pos m size pnt vec)))) := by
  obtain ⟨p0, p1, p2⟩ := pos; obtain ⟨m0, m1, m2, m3, m4, m5, m6, m7, m8⟩ := m
  obtain ⟨s0, s1, s2⟩ := size; obtain ⟨q0, q1, q2⟩ := pnt; obtain ⟨v0, v1, v2⟩ := vec
  rw [toLocal_pointAt]
  exact box_sound_scalar p0 p1 p2 m0 m1 m2 m3 m4 m5 m6 m7 m8 s0 s1 s2 q0 q1 q2 v0 v1 v2

theorem box_hit_on_surface (pos : V3) (m : M9) (size pnt vec : V3) (h : 0 ≤ rayBox pos m size pnt vec) :
    OnBox size (toLocal pos m (pointAt pnt vec (rayBox pos m size pnt vec))) := by
  rcases box_inv pos m size pnt vec with h1 | h1
  · rw [h1] at h; norm_num at h
  · exact h1.2

theorem box_range (pos : V3) (m : M9) (size pnt vec : V3) :
    rayBox pos m size pnt vec = -1 ∨ 0 ≤ rayBox pos m size pnt vec := by
  rcases box_inv pos m size pnt vec with h1 | h1
  · exact Or.inl h1
  · exact Or.inr h1.1

end MjProof.RayLemmas
