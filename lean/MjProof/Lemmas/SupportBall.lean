import MjProof.Lemmas.SupportCert
/-
C15 helper lemmas, part 5: the inner-ball certificate.  `ballIn g c ρ = true` implies that the closed ball of radius
`ρ` about `c` lies in the shape; a ball inside both shapes bounds the penetration depth from below by `2ρ`.
-/
set_option linter.unusedVariables false
set_option linter.unusedSimpArgs false
namespace MjProof.SupportLemmas
open MjProof MjProof.Support

theorem sq_le_of_norm_le {a : V3 ℝ} {r : ℝ} (h : V3.norm a ≤ r) : V3.dot a a ≤ r * r := by
  rw [← norm_sq]; exact mul_self_le_mul_self (norm_nonneg a) h

theorem abs_x_le_norm (a : V3 ℝ) : |a.x| ≤ V3.norm a := by
  rw [norm_real]; apply Real.abs_le_sqrt; rw [dot_real]; nlinarith [mul_self_nonneg a.y, mul_self_nonneg a.z]
theorem abs_y_le_norm (a : V3 ℝ) : |a.y| ≤ V3.norm a := by
  rw [norm_real]; apply Real.abs_le_sqrt; rw [dot_real]; nlinarith [mul_self_nonneg a.x, mul_self_nonneg a.z]
theorem abs_z_le_norm (a : V3 ℝ) : |a.z| ≤ V3.norm a := by
  rw [norm_real]; apply Real.abs_le_sqrt; rw [dot_real]; nlinarith [mul_self_nonneg a.x, mul_self_nonneg a.y]

theorem norm_mono {a b : V3 ℝ} (h : V3.dot a a ≤ V3.dot b b) : V3.norm a ≤ V3.norm b := by
  rw [norm_real, norm_real]; exact Real.sqrt_le_sqrt h

/-- `‖q‖ ≤ ‖c‖ + ‖q − c‖` -/
theorem norm_le_add_sub (q c : V3 ℝ) : V3.norm q ≤ V3.norm c + V3.norm (V3.sub q c) := by
  have : q = V3.add c (V3.sub q c) := by apply V3.ext' <;> simp
  calc V3.norm q = V3.norm (V3.add c (V3.sub q c)) := by rw [← this]
    _ ≤ _ := norm_add_le _ _

theorem abs_le_bounds {x s : ℝ} (h : |x| ≤ s) : -s ≤ x ∧ x ≤ s := abs_le.1 h

theorem clamp_nearest (z t l : ℝ) (hl : 0 ≤ l) (h1 : -l ≤ t) (h2 : t ≤ l) :
    (z - clampSym z l) * (z - clampSym z l) ≤ (z - t) * (z - t) := by
  rw [clampSym_real]
  split
  · nlinarith
  · split
    · nlinarith
    · nlinarith [mul_self_nonneg (z - t)]

theorem min_real (a b : ℝ) : MjNum.min a b = min a b := by
  unfold MjNum.min
  simp only [r_lt]
  split
  · rename_i h; rw [min_eq_left h.le]
  · rename_i h; rw [min_eq_right (not_lt.1 h)]

/-- the ball test in the geom frame is sound -/
theorem ballInLocal_sound (kind : Kind) (size c q : V3 ℝ) (ρ : ℝ) (hρ : 0 ≤ ρ) (hs : SizeOK kind size)
    (h : ballInLocal kind size c ρ = true) (hq : V3.norm (V3.sub q c) ≤ ρ) : memLocal kind size q = true := by
  cases kind <;> simp only [ballInLocal] at h <;> simp only [memLocal]
  · -- sphere
    real_ops_at h; real_ops
    have := norm_le_add_sub q c
    exact sq_le_of_norm_le (by linarith)
  · -- capsule
    real_ops_at h; real_ops
    obtain ⟨hr, hl⟩ := hs
    have cb := clampSym_bounds c.z size.y hl
    have hn := clamp_nearest q.z (clampSym c.z size.y) size.y hl cb.1 cb.2
    -- the point relative to the nearest axis point of the centre
    have e : (⟨q.x, q.y, q.z - clampSym c.z size.y⟩ : V3 ℝ)
        = V3.add ⟨c.x, c.y, c.z - clampSym c.z size.y⟩ (V3.sub q c) := by
      apply V3.ext' <;> simp
    have h1 : V3.norm (⟨q.x, q.y, q.z - clampSym c.z size.y⟩ : V3 ℝ) ≤ size.x := by
      rw [e]; exact le_trans (norm_add_le _ _) (by linarith)
    have h2 := sq_le_of_norm_le h1
    rw [dot_real] at h2
    simp only [] at h2
    linarith
  · -- ellipsoid
    real_ops_at h
    obtain ⟨hpos, hle⟩ := h
    rw [min_real, min_real] at hpos hle
    set smin := min size.x (min size.y size.z) with hsm
    have hx : smin ≤ size.x := min_le_left _ _
    have hy : smin ≤ size.y := le_trans (min_le_right _ _) (min_le_left _ _)
    have hz : smin ≤ size.z := le_trans (min_le_right _ _) (min_le_right _ _)
    have px : 0 < size.x := lt_of_lt_of_le hpos hx
    have py : 0 < size.y := lt_of_lt_of_le hpos hy
    have pz : 0 < size.z := lt_of_lt_of_le hpos hz
    real_ops
    -- scaled difference is at most ‖q − c‖ / smin
    have hd : V3.norm (⟨(q.x - c.x) / size.x, (q.y - c.y) / size.y, (q.z - c.z) / size.z⟩ : V3 ℝ)
        ≤ V3.norm (V3.sub q c) / smin := by
      rw [le_div_iff₀ hpos, ← abs_of_pos hpos, mul_comm, ← norm_scale]
      apply norm_mono
      simp only [dot_real, scale_x, scale_y, scale_z, sub_x, sub_y, sub_z]
      have a1 : (smin * ((q.x - c.x) / size.x)) * (smin * ((q.x - c.x) / size.x)) ≤ (q.x - c.x) * (q.x - c.x) := by
        have : smin * ((q.x - c.x) / size.x) = (smin / size.x) * (q.x - c.x) := by field_simp
        rw [this]
        have r1 : 0 ≤ smin / size.x := div_nonneg hpos.le px.le
        have r2 : smin / size.x ≤ 1 := (div_le_one px).2 hx
        nlinarith [mul_self_nonneg (q.x - c.x), mul_le_one₀ r2 r1 r2]
      have a2 : (smin * ((q.y - c.y) / size.y)) * (smin * ((q.y - c.y) / size.y)) ≤ (q.y - c.y) * (q.y - c.y) := by
        have : smin * ((q.y - c.y) / size.y) = (smin / size.y) * (q.y - c.y) := by field_simp
        rw [this]
        have r1 : 0 ≤ smin / size.y := div_nonneg hpos.le py.le
        have r2 : smin / size.y ≤ 1 := (div_le_one py).2 hy
        nlinarith [mul_self_nonneg (q.y - c.y), mul_le_one₀ r2 r1 r2]
      have a3 : (smin * ((q.z - c.z) / size.z)) * (smin * ((q.z - c.z) / size.z)) ≤ (q.z - c.z) * (q.z - c.z) := by
        have : smin * ((q.z - c.z) / size.z) = (smin / size.z) * (q.z - c.z) := by field_simp
        rw [this]
        have r1 : 0 ≤ smin / size.z := div_nonneg hpos.le pz.le
        have r2 : smin / size.z ≤ 1 := (div_le_one pz).2 hz
        nlinarith [mul_self_nonneg (q.z - c.z), mul_le_one₀ r2 r1 r2]
      linarith
    have e : (⟨q.x / size.x, q.y / size.y, q.z / size.z⟩ : V3 ℝ)
        = V3.add ⟨c.x / size.x, c.y / size.y, c.z / size.z⟩
            ⟨(q.x - c.x) / size.x, (q.y - c.y) / size.y, (q.z - c.z) / size.z⟩ := by
      apply V3.ext' <;> simp <;> ring
    have hdiv : V3.norm (V3.sub q c) / smin ≤ ρ / smin := div_le_div_of_nonneg_right hq hpos.le
    have h1 : V3.norm (⟨q.x / size.x, q.y / size.y, q.z / size.z⟩ : V3 ℝ) ≤ 1 := by
      rw [e]; exact le_trans (norm_add_le _ _) (by linarith)
    have := sq_le_of_norm_le h1
    linarith
  · -- cylinder
    real_ops_at h; real_ops
    obtain ⟨h1, h2⟩ := h
    have e : (⟨q.x, q.y, 0⟩ : V3 ℝ) = V3.add ⟨c.x, c.y, 0⟩ ⟨q.x - c.x, q.y - c.y, 0⟩ := by
      apply V3.ext' <;> simp
    have hm : V3.norm (⟨q.x - c.x, q.y - c.y, 0⟩ : V3 ℝ) ≤ V3.norm (V3.sub q c) := by
      apply norm_mono; simp only [dot_real, sub_x, sub_y, sub_z]; nlinarith [mul_self_nonneg (q.z - c.z)]
    have hr : V3.norm (⟨q.x, q.y, 0⟩ : V3 ℝ) ≤ size.x := by
      rw [e]; exact le_trans (norm_add_le _ _) (by linarith)
    have hr2 := sq_le_of_norm_le hr
    rw [dot_real] at hr2; simp only [] at hr2
    have hz := abs_z_le_norm (V3.sub q c)
    simp only [sub_z] at hz
    have hz2 : |q.z| ≤ size.y := by
      have : |q.z| ≤ |c.z| + |q.z - c.z| := by
        calc |q.z| = |c.z + (q.z - c.z)| := by ring_nf
          _ ≤ _ := abs_add_le _ _
      linarith
    have := abs_le_bounds hz2
    exact ⟨⟨by linarith, this.1⟩, this.2⟩
  · -- box
    real_ops_at h; real_ops
    obtain ⟨⟨h1, h2⟩, h3⟩ := h
    have hx := abs_x_le_norm (V3.sub q c)
    have hy := abs_y_le_norm (V3.sub q c)
    have hz := abs_z_le_norm (V3.sub q c)
    simp only [sub_x, sub_y, sub_z] at hx hy hz
    have bx : |q.x| ≤ size.x := by
      have : |q.x| ≤ |c.x| + |q.x - c.x| := by
        calc |q.x| = |c.x + (q.x - c.x)| := by ring_nf
          _ ≤ _ := abs_add_le _ _
      linarith
    have by' : |q.y| ≤ size.y := by
      have : |q.y| ≤ |c.y| + |q.y - c.y| := by
        calc |q.y| = |c.y + (q.y - c.y)| := by ring_nf
          _ ≤ _ := abs_add_le _ _
      linarith
    have bz : |q.z| ≤ size.z := by
      have : |q.z| ≤ |c.z| + |q.z - c.z| := by
        calc |q.z| = |c.z + (q.z - c.z)| := by ring_nf
          _ ≤ _ := abs_add_le _ _
      linarith
    have a := abs_le_bounds bx
    have b := abs_le_bounds by'
    have c' := abs_le_bounds bz
    exact ⟨⟨⟨⟨⟨a.1, a.2⟩, b.1⟩, b.2⟩, c'.1⟩, c'.2⟩
  · exact absurd h (by simp)
  · exact absurd h (by simp)

theorem toLocal_sub (g : Geom ℝ) (q c : V3 ℝ) :
    V3.sub (toLocal g q) (toLocal g c) = mulMatTVec3 g.mat (V3.sub q c) := by
  unfold toLocal
  apply V3.ext' <;> simp only [mulT_x, mulT_y, mulT_z, sub_x, sub_y, sub_z] <;> ring

/-- the ball test is sound: every point within `ρ` of `c` lies in the geom -/
theorem ballIn_sound (g : Geom ℝ) (hg : WF g) (c q : V3 ℝ) (ρ : ℝ) (hρ : 0 ≤ ρ) (h : ballIn g c ρ = true)
    (hq : V3.norm (V3.sub q c) ≤ ρ) : InGeom g q := by
  unfold InGeom mem
  apply ballInLocal_sound g.kind g.size (toLocal g c) (toLocal g q) ρ hρ hg.size h
  rw [toLocal_sub, norm_real, dot_mulT hg.rot, ← norm_real]; exact hq

/-- a ball of radius `ρ` inside both shapes: no translation shorter than `2ρ` separates them -/
theorem not_separates_of_ball (A B : Geom ℝ) (hA : WF A) (hB : WF B) (c : V3 ℝ) (ρ : ℝ)
    (h : innerBallOK A B c ρ = true) (t : V3 ℝ) (ht : V3.norm t < 2 * ρ) : ¬ Separates A B t := by
  unfold innerBallOK at h
  simp only [Bool.and_eq_true, decide_eq_true_eq] at h
  obtain ⟨⟨hρ, hbA⟩, hbB⟩ := h
  simp only [zero_real, r_le] at hρ
  intro hs
  have hhalf : V3.norm (V3.scale (1 / 2) t) ≤ ρ := by
    rw [norm_scale, abs_of_pos (by norm_num : (0 : ℝ) < 1 / 2)]; linarith
  have ha : InGeom A (V3.sub c (V3.scale (1 / 2) t)) := by
    apply ballIn_sound A hA c _ ρ hρ hbA
    have : V3.sub (V3.sub c (V3.scale (1 / 2) t)) c = V3.neg (V3.scale (1 / 2) t) := by
      apply V3.ext' <;> simp
    rw [this, norm_neg]; exact hhalf
  have hb : InGeom B (V3.add c (V3.scale (1 / 2) t)) := by
    apply ballIn_sound B hB c _ ρ hρ hbB
    have : V3.sub (V3.add c (V3.scale (1 / 2) t)) c = V3.scale (1 / 2) t := by
      apply V3.ext' <;> simp
    rw [this]; exact hhalf
  apply hs _ _ ha hb
  apply V3.ext' <;> simp <;> ring

theorem sepSet_nonempty (A B : Geom ℝ) (hA : WF A) (hB : WF B) : (sepSet A B).Nonempty := by
  have hn : V3.dot (⟨1, 0, 0⟩ : V3 ℝ) ⟨1, 0, 0⟩ = 1 := by simp [dot_real]
  set s := overlapUnit A B ⟨1, 0, 0⟩ + pairSlack A B ⟨1, 0, 0⟩ + 1
  exact ⟨_, _, pen_separates A B hA hB _ hn s (by simp [s]), rfl⟩

theorem penDepth_ge_of_ball (A B : Geom ℝ) (hA : WF A) (hB : WF B) (c : V3 ℝ) (ρ : ℝ)
    (h : innerBallOK A B c ρ = true) : 2 * ρ ≤ penDepth A B := by
  apply le_csInf (sepSet_nonempty A B hA hB)
  rintro r ⟨t, hs, rfl⟩
  by_contra hlt
  exact not_separates_of_ball A B hA hB c ρ h t (not_le.1 hlt) hs

end MjProof.SupportLemmas
