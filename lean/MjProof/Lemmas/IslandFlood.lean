/-
Correctness of the flood fill (`mj_floodFill`, model in `MjProof.Model.Island`): the labels are exactly
the connected components of the (symmetric) CSR adjacency matrix, numbered in the order of their smallest
vertex; the DFS never leaves the arrays (no `none`) and its stack never grows beyond `nnz` entries.
-/
import MjProof.Model.Island
import Mathlib.Logic.Relation

namespace MjProof.Island

/-- well-formed CSR input (column indices are only constrained inside the rows) -/
structure CsrOk (nr : Nat) (rownnz rowadr colind : Array Nat) : Prop where
  nnz_size : rownnz.size = nr
  adr_size : rowadr.size = nr
  rows_in : ∀ v (h : v < nr), rowadr[v]'(by omega) + rownnz[v]'(by omega) ≤ colind.size
  cols_in : ∀ v (h : v < nr) (k : Nat) (hk : k < colind.size),
    rowadr[v]'(by omega) ≤ k → k < rowadr[v]'(by omega) + rownnz[v]'(by omega) → colind[k] < nr

/-- adjacency: v is listed in row u -/
def Adj (rownnz rowadr colind : Array Nat) (u v : Nat) : Prop :=
  ∃ ns, ffNeighbors rownnz rowadr colind u = some ns ∧ v ∈ ns

/-- reachability -/
abbrev Reach (rownnz rowadr colind : Array Nat) : Nat → Nat → Prop :=
  Relation.ReflTransGen (Adj rownnz rowadr colind)

variable {nr : Nat} {rownnz rowadr colind : Array Nat}

/-! ### neighbours -/

theorem ffNeighbors_eq (ok : CsrOk nr rownnz rowadr colind) {v : Nat} (h : v < nr) :
    ffNeighbors rownnz rowadr colind v =
      some ((colind.extract (rowadr[v]'(by have := ok.adr_size; omega))
        (rowadr[v]'(by have := ok.adr_size; omega) + rownnz[v]'(by have := ok.nnz_size; omega))).toList) := by
  have h1 : v < rownnz.size := by have := ok.nnz_size; omega
  have h2 : v < rowadr.size := by have := ok.adr_size; omega
  unfold ffNeighbors
  rw [Array.getElem?_eq_getElem h1, Array.getElem?_eq_getElem h2]
  simp only
  rw [if_pos (ok.rows_in v h)]

theorem ffNeighbors_none_of_ge (ok : CsrOk nr rownnz rowadr colind) {v : Nat} (h : nr ≤ v) :
    ffNeighbors rownnz rowadr colind v = none := by
  have h1 : rownnz[v]? = none := by
    apply Array.getElem?_eq_none; have := ok.nnz_size; omega
  unfold ffNeighbors
  rw [h1]

theorem ffNeighbors_length (ok : CsrOk nr rownnz rowadr colind) {v : Nat} {ns : List Nat}
    (h : ffNeighbors rownnz rowadr colind v = some ns) : rownnz[v]? = some ns.length := by
  by_cases hv : v < nr
  · rw [ffNeighbors_eq ok hv] at h
    have h1 : v < rownnz.size := by have := ok.nnz_size; omega
    have := ok.rows_in v hv
    rw [Array.getElem?_eq_getElem h1]
    injection h with h
    subst h
    simp
    omega
  · rw [ffNeighbors_none_of_ge ok (by omega)] at h
    cases h

theorem adj_lt (ok : CsrOk nr rownnz rowadr colind) {u v : Nat} (h : Adj rownnz rowadr colind u v) :
    u < nr ∧ v < nr := by
  obtain ⟨ns, hns, hv⟩ := h
  by_cases hu : u < nr
  · refine ⟨hu, ?_⟩
    rw [ffNeighbors_eq ok hu] at hns
    injection hns with hns
    subst hns
    rw [Array.mem_toList_iff, Array.mem_iff_getElem] at hv
    obtain ⟨k, hk, rfl⟩ := hv
    rw [Array.getElem_extract]
    rw [Array.size_extract] at hk
    exact ok.cols_in u hu _ (by omega) (by omega) (by omega)
  · rw [ffNeighbors_none_of_ge ok (by omega)] at hns
    cases hns

theorem adj_nnz {u v : Nat} (h : Adj rownnz rowadr colind u v) : rownnz[u]? ≠ some 0 := by
  obtain ⟨ns, hns, hv⟩ := h
  intro h0
  unfold ffNeighbors at hns
  rw [h0] at hns
  cases hr : rowadr[u]? with
  | none => rw [hr] at hns; cases hns
  | some a =>
    rw [hr] at hns
    simp only at hns
    split at hns
    · injection hns with hns
      subst hns
      simp at hv
    · cases hns

theorem reach_lt (ok : CsrOk nr rownnz rowadr colind) {u v : Nat} (h : Reach rownnz rowadr colind u v)
    (hu : u < nr) : v < nr := by
  induction h with
  | refl => exact hu
  | tail _ hab _ => exact (adj_lt ok hab).2

theorem reach_symm (symm : ∀ u v, Adj rownnz rowadr colind u v → Adj rownnz rowadr colind v u) {u v : Nat}
    (h : Reach rownnz rowadr colind u v) : Reach rownnz rowadr colind v u := by
  induction h with
  | refl => exact Relation.ReflTransGen.refl
  | tail _ hbc ih => exact Relation.ReflTransGen.head (symm _ _ hbc) ih

theorem reach_nnz (symm : ∀ u v, Adj rownnz rowadr colind u v → Adj rownnz rowadr colind v u) {i v : Nat}
    (hi : rownnz[i]? ≠ some 0) (h : Reach rownnz rowadr colind i v) : rownnz[v]? ≠ some 0 := by
  rcases Relation.ReflTransGen.cases_tail h with rfl | ⟨u, _, huv⟩
  · exact hi
  · exact adj_nnz (symm _ _ huv)

/-! ### labels as a total function (out of range = unlabelled) -/

/-- label of a vertex; vertices outside the array count as unlabelled -/
def lab (isl : Array Int) (v : Nat) : Int := (isl[v]?).getD (-1)

theorem lab_lt {isl : Array Int} {v : Nat} (h : v < isl.size) : lab isl v = isl[v] := by
  simp [lab, h]

theorem lab_ge {isl : Array Int} {v : Nat} (h : isl.size ≤ v) : lab isl v = -1 := by
  simp [lab, h]

theorem lt_of_lab_ne {isl : Array Int} {v : Nat} (h : lab isl v ≠ -1) : v < isl.size := by
  by_cases hc : v < isl.size
  · exact hc
  · exact absurd (lab_ge (by omega)) h

theorem lab_set {isl : Array Int} {v : Nat} (h : v < isl.size) (x : Int) (w : Nat) :
    lab (isl.set v x) w = if v = w then x else lab isl w := by
  unfold lab
  rw [Array.getElem?_set]
  split <;> simp [*]

theorem lab_replicate (nr v : Nat) : lab (Array.replicate nr (-1)) v = -1 := by
  by_cases h : v < nr
  · rw [lab_lt (by simpa using h)]; simp
  · exact lab_ge (by simpa using h)

/-! ### the inner loop never fails -/

theorem ffInner_total (ok : CsrOk nr rownnz rowadr colind) (c : Nat) (island : Array Int) (stack : List Nat)
    (hs : island.size = nr) (hst : ∀ v ∈ stack, v < nr) :
    ∃ isl', ffInner rownnz rowadr colind c island stack = some isl' ∧ isl'.size = nr := by
  fun_induction ffInner rownnz rowadr colind c island stack with
  | case1 island => exact ⟨_, rfl, hs⟩
  | case2 island v rest h hv ns heq ih =>
    apply ih
    · simpa using hs
    · intro w hw
      rw [List.mem_append, List.mem_reverse] at hw
      rcases hw with hw | hw
      · exact (adj_lt ok ⟨ns, heq, hw⟩).2
      · exact hst w (List.mem_cons_of_mem _ hw)
  | case3 island v rest h hv heq =>
    exfalso
    have := hst v (List.mem_cons_self)
    rw [ffNeighbors_eq ok this] at heq
    cases heq
  | case4 island v rest h hv ih =>
    exact ih hs (fun w hw => hst w (List.mem_cons_of_mem _ hw))
  | case5 island v rest h =>
    exfalso
    have := hst v (List.mem_cons_self)
    omega

/-! ### invariant of the inner loop (DFS number `c` started at vertex `i`, labels `isl0` at its start) -/

structure InnerInv (rownnz rowadr colind : Array Nat) (nr c i : Nat) (isl0 isl : Array Int)
    (stack : List Nat) : Prop where
  size : isl.size = nr
  stk : ∀ v ∈ stack, Reach rownnz rowadr colind i v
  lab_reach : ∀ v, lab isl v = (c : Int) → Reach rownnz rowadr colind i v
  closed : ∀ v, lab isl v = (c : Int) → ∀ w, Adj rownnz rowadr colind v w → lab isl w = (c : Int) ∨ w ∈ stack
  frame : ∀ v, lab isl v = lab isl0 v ∨ (lab isl0 v = -1 ∧ lab isl v = (c : Int))
  start : lab isl i = (c : Int) ∨ i ∈ stack

theorem ffInner_inv {c i : Nat} {isl0 : Array Int}
    (fresh : ∀ v, Reach rownnz rowadr colind i v → lab isl0 v = -1)
    (island : Array Int) (stack : List Nat) (isl' : Array Int)
    (inv : InnerInv rownnz rowadr colind nr c i isl0 island stack)
    (h : ffInner rownnz rowadr colind c island stack = some isl') :
    InnerInv rownnz rowadr colind nr c i isl0 isl' [] := by
  have hc1 : (c : Int) ≠ -1 := by omega
  fun_induction ffInner rownnz rowadr colind c island stack with
  | case1 island =>
    injection h with h
    subst h
    exact inv
  | case2 island v rest hlt hv ns heq ih =>
    apply ih _ h
    have hv' : lab island v = -1 := by rw [lab_lt hlt]; exact hv
    have hrv : Reach rownnz rowadr colind i v := inv.stk v List.mem_cons_self
    have hv0 : lab isl0 v = -1 := fresh v hrv
    refine ⟨by simpa using inv.size, ?_, ?_, ?_, ?_, ?_⟩
    · intro w hw
      rw [List.mem_append, List.mem_reverse] at hw
      rcases hw with hw | hw
      · exact Relation.ReflTransGen.tail hrv ⟨ns, heq, hw⟩
      · exact inv.stk w (List.mem_cons_of_mem _ hw)
    · intro w hw
      rw [lab_set hlt] at hw
      split at hw
      · subst_vars; exact hrv
      · exact inv.lab_reach w hw
    · intro u hu w huw
      have key : lab island w = (c : Int) ∨ w = v ∨ w ∈ ns ∨ w ∈ rest := by
        rw [lab_set hlt] at hu
        split at hu
        · subst_vars
          obtain ⟨ns', hns', hw⟩ := huw
          rw [heq] at hns'
          injection hns' with hns'
          subst hns'
          exact Or.inr (Or.inr (Or.inl hw))
        · rcases inv.closed u hu w huw with h1 | h1
          · exact Or.inl h1
          · rcases List.mem_cons.mp h1 with h2 | h2
            · exact Or.inr (Or.inl h2)
            · exact Or.inr (Or.inr (Or.inr h2))
      rw [lab_set hlt, List.mem_append, List.mem_reverse]
      rcases key with h1 | h1 | h1 | h1
      · left; split
        · rfl
        · exact h1
      · left; rw [if_pos h1.symm]
      · right; left; exact h1
      · right; right; exact h1
    · intro w
      rw [lab_set hlt]
      split
      · subst_vars; right; exact ⟨hv0, rfl⟩
      · exact inv.frame w
    · rw [lab_set hlt]
      rcases inv.start with h1 | h1
      · left; split
        · rfl
        · exact h1
      · rcases List.mem_cons.mp h1 with h2 | h2
        · left; rw [if_pos h2.symm]
        · right; exact List.mem_append_right _ h2
  | case3 island v rest hlt hv heq => cases h
  | case4 island v rest hlt hv ih =>
    apply ih _ h
    have hv' : lab island v ≠ -1 := by rw [lab_lt hlt]; exact hv
    have hrv : Reach rownnz rowadr colind i v := inv.stk v List.mem_cons_self
    have hvc : lab island v = (c : Int) := by
      rcases inv.frame v with h1 | h1
      · rw [fresh v hrv] at h1; exact absurd h1 hv'
      · exact h1.2
    refine ⟨inv.size, ?_, inv.lab_reach, ?_, inv.frame, ?_⟩
    · intro w hw
      exact inv.stk w (List.mem_cons_of_mem _ hw)
    · intro u hu w huw
      rcases inv.closed u hu w huw with h1 | h1
      · exact Or.inl h1
      · rcases List.mem_cons.mp h1 with h2 | h2
        · left; rw [h2]; exact hvc
        · exact Or.inr h2
    · rcases inv.start with h1 | h1
      · exact Or.inl h1
      · rcases List.mem_cons.mp h1 with h2 | h2
        · left; rw [h2]; exact hvc
        · exact Or.inr h2
  | case5 island v rest hlt => cases h

/-- at exit the vertices labelled `c` are exactly those reachable from the start vertex -/
theorem InnerInv.exit {c i : Nat} {isl0 isl' : Array Int}
    (inv : InnerInv rownnz rowadr colind nr c i isl0 isl' []) (v : Nat) :
    lab isl' v = (c : Int) ↔ Reach rownnz rowadr colind i v := by
  constructor
  · exact inv.lab_reach v
  · intro h
    induction h with
    | refl =>
      rcases inv.start with h1 | h1
      · exact h1
      · cases h1
    | tail _ hbc ih =>
      rcases inv.closed _ ih _ hbc with h1 | h1
      · exact h1
      · cases h1

/-! ### invariant of the outer loop (after the vertices `< i` have been processed) -/

structure OuterInv (rownnz rowadr colind : Array Nat) (nr i : Nat) (isl : Array Int) (n : Nat) : Prop where
  size : isl.size = nr
  range : ∀ v, lab isl v = -1 ∨ (0 ≤ lab isl v ∧ lab isl v < (n : Int))
  done : ∀ v, v < i → v < nr → rownnz[v]? ≠ some 0 → lab isl v ≠ -1
  edges : ∀ v, lab isl v ≠ -1 → rownnz[v]? ≠ some 0
  comp : ∀ c, c < n → ∃ s, lab isl s = (c : Int) ∧
    (∀ v, lab isl v = (c : Int) ↔ Reach rownnz rowadr colind s v) ∧
    (∀ v, v < s → v < nr → rownnz[v]? ≠ some 0 → 0 ≤ lab isl v ∧ lab isl v < (c : Int))

theorem OuterInv.init : OuterInv rownnz rowadr colind nr 0 (Array.replicate nr (-1)) 0 := by
  refine ⟨by simp, fun v => Or.inl (lab_replicate nr v), ?_, ?_, ?_⟩
  · intro v hv; omega
  · intro v hv; exact absurd (lab_replicate nr v) hv
  · intro c hc; omega

theorem OuterInv.fresh (symm : ∀ u v, Adj rownnz rowadr colind u v → Adj rownnz rowadr colind v u)
    {i k : Nat} {isl : Array Int} {n : Nat} (inv : OuterInv rownnz rowadr colind nr k isl n)
    (hi : lab isl i = -1) (v : Nat) (hr : Reach rownnz rowadr colind i v) : lab isl v = -1 := by
  rcases inv.range v with h1 | ⟨h1, h2⟩
  · exact h1
  · exfalso
    obtain ⟨s, _, hs, _⟩ := inv.comp (lab isl v).toNat (by omega)
    have e : (((lab isl v).toNat : Nat) : Int) = lab isl v := by omega
    have hsv : Reach rownnz rowadr colind s v := (hs v).mp e.symm
    have hsi : Reach rownnz rowadr colind s i := hsv.trans (reach_symm symm hr)
    have := (hs i).mpr hsi
    omega

theorem OuterInv.step (ok : CsrOk nr rownnz rowadr colind)
    (symm : ∀ u v, Adj rownnz rowadr colind u v → Adj rownnz rowadr colind v u)
    {i : Nat} (hi : i < nr) {isl : Array Int} {n : Nat} (inv : OuterInv rownnz rowadr colind nr i isl n) :
    ∃ st, ffOuterStep rownnz rowadr colind (isl, n) i = some st ∧
      OuterInv rownnz rowadr colind nr (i + 1) st.1 st.2 := by
  have hsz := inv.size
  have h1 : i < isl.size := by omega
  have h2 : i < rownnz.size := by have := ok.nnz_size; omega
  unfold ffOuterStep
  simp only [Array.getElem?_eq_getElem h1, Array.getElem?_eq_getElem h2]
  split
  · rename_i hcond
    refine ⟨_, rfl, inv.size, inv.range, ?_, inv.edges, inv.comp⟩
    intro v hv hvn hnz
    by_cases hvi : v = i
    · subst hvi
      rw [lab_lt h1]
      rcases hcond with hc | hc
      · exact hc
      · rw [Array.getElem?_eq_getElem h2, hc] at hnz
        exact absurd rfl hnz
    · exact inv.done v (by omega) hvn hnz
  · rename_i hcond
    have hli : lab isl i = -1 := by
      rw [lab_lt h1]
      by_cases hc : isl[i] = -1
      · exact hc
      · exact absurd (Or.inl hc) hcond
    have hnzi : rownnz[i]? ≠ some 0 := by
      rw [Array.getElem?_eq_getElem h2]
      intro hc
      injection hc with hc
      exact hcond (Or.inr hc)
    obtain ⟨isl', he, hsz'⟩ := ffInner_total ok n isl [i] inv.size (by simpa using hi)
    rw [he]
    have hfresh := inv.fresh symm hli
    have inv0 : InnerInv rownnz rowadr colind nr n i isl isl [i] := by
      refine ⟨inv.size, ?_, ?_, ?_, fun v => Or.inl rfl, Or.inr List.mem_cons_self⟩
      · intro v hv
        rw [List.mem_singleton] at hv
        subst hv
        exact Relation.ReflTransGen.refl
      · intro v hv
        rcases inv.range v with h | h <;> omega
      · intro v hv
        rcases inv.range v with h | h <;> omega
    have inv1 := ffInner_inv hfresh isl [i] isl' inv0 he
    have hex := inv1.exit
    refine ⟨(isl', n + 1), rfl, ?_⟩
    show OuterInv rownnz rowadr colind nr (i + 1) isl' (n + 1)
    refine ⟨hsz', ?_, ?_, ?_, ?_⟩
    · intro v
      rcases inv1.frame v with h | h
      · rcases inv.range v with h' | h' <;> omega
      · omega
    · intro v hv hvn hnz
      by_cases hvi : v = i
      · subst hvi
        have := (hex v).mpr Relation.ReflTransGen.refl
        omega
      · have := inv.done v (by omega) hvn hnz
        rcases inv1.frame v with h | h <;> omega
    · intro v hv
      rcases inv1.frame v with h | h
      · exact inv.edges v (by omega)
      · exact reach_nnz symm hnzi ((hex v).mp h.2)
    · intro c hc
      by_cases hcn : c < n
      · obtain ⟨s, hs1, hs2, hs3⟩ := inv.comp c hcn
        refine ⟨s, ?_, ?_, ?_⟩
        · rcases inv1.frame s with h | h <;> omega
        · intro v
          rw [← hs2 v]
          rcases inv1.frame v with h | h
          · rw [h]
          · constructor <;> intro h' <;> omega
        · intro v hvs hvn hnz
          have := hs3 v hvs hvn hnz
          rcases inv1.frame v with h | h <;> omega
      · have hcn' : c = n := by omega
        subst hcn'
        refine ⟨i, (hex i).mpr Relation.ReflTransGen.refl, hex, ?_⟩
        intro v hvi hvn hnz
        have := inv.done v hvi hvn hnz
        rcases inv1.frame v with h | h
        · rcases inv.range v with h' | h' <;> omega
        · omega

theorem outer_loop (ok : CsrOk nr rownnz rowadr colind)
    (symm : ∀ u v, Adj rownnz rowadr colind u v → Adj rownnz rowadr colind v u) (k : Nat) (hk : k ≤ nr) :
    ∃ st, (List.range k).foldlM (ffOuterStep rownnz rowadr colind) (Array.replicate nr (-1), 0) = some st ∧
      OuterInv rownnz rowadr colind nr k st.1 st.2 := by
  induction k with
  | zero => exact ⟨_, rfl, OuterInv.init⟩
  | succ k ih =>
    obtain ⟨st, hst, inv⟩ := ih (by omega)
    obtain ⟨st', hst', inv'⟩ := OuterInv.step ok symm (show k < nr by omega) inv
    refine ⟨st', ?_, inv'⟩
    rw [List.range_succ, List.foldlM_append, hst]
    simpa using hst'

/-! ### main theorems -/

theorem ffOuterStep_total (ok : CsrOk nr rownnz rowadr colind) {i : Nat} (hi : i < nr) {isl : Array Int}
    {n : Nat} (hs : isl.size = nr) :
    ∃ st, ffOuterStep rownnz rowadr colind (isl, n) i = some st ∧ st.1.size = nr := by
  have h1 : i < isl.size := by omega
  have h2 : i < rownnz.size := by have := ok.nnz_size; omega
  unfold ffOuterStep
  simp only [Array.getElem?_eq_getElem h1, Array.getElem?_eq_getElem h2]
  split
  · exact ⟨_, rfl, hs⟩
  · obtain ⟨isl', he, hsz'⟩ := ffInner_total ok n isl [i] hs (by simpa using hi)
    rw [he]
    exact ⟨_, rfl, hsz'⟩

theorem outer_loop_total (ok : CsrOk nr rownnz rowadr colind) (k : Nat) (hk : k ≤ nr) :
    ∃ st, (List.range k).foldlM (ffOuterStep rownnz rowadr colind) (Array.replicate nr (-1), 0) = some st ∧
      st.1.size = nr := by
  induction k with
  | zero => exact ⟨_, rfl, by simp⟩
  | succ k ih =>
    obtain ⟨st, hst, hs⟩ := ih (by omega)
    obtain ⟨st', hst', hs'⟩ := ffOuterStep_total ok (show k < nr by omega) (n := st.2) hs
    refine ⟨st', ?_, hs'⟩
    rw [List.range_succ, List.foldlM_append, hst]
    simpa using hst'

/-- `mj_floodFill` never reads or writes outside `island`, `rownnz`, `rowadr`, `colind` on a well-formed CSR
    matrix (symmetry not needed), and returns `nr` labels. -/
theorem floodFill_total (ok : CsrOk nr rownnz rowadr colind) :
    ∃ isl n, floodFill nr rownnz rowadr colind = some (isl, n) ∧ isl.size = nr := by
  obtain ⟨st, hst, hs⟩ := outer_loop_total ok nr (Nat.le_refl _)
  exact ⟨st.1, st.2, hst, hs⟩

/-- The invariant of the outer loop holds at exit. -/
theorem floodFill_inv (ok : CsrOk nr rownnz rowadr colind)
    (symm : ∀ u v, Adj rownnz rowadr colind u v → Adj rownnz rowadr colind v u)
    {isl : Array Int} {n : Nat} (h : floodFill nr rownnz rowadr colind = some (isl, n)) :
    OuterInv rownnz rowadr colind nr nr isl n := by
  obtain ⟨st, hst, inv⟩ := outer_loop ok symm nr (Nat.le_refl _)
  unfold floodFill at h
  rw [hst] at h
  injection h with h
  subst h
  exact inv

/-- For a symmetric well-formed CSR adjacency matrix the labels computed by `mj_floodFill` are exactly the
    connected components, numbered `0 .. n-1` in the order of their smallest vertex. -/
theorem floodFill_components (ok : CsrOk nr rownnz rowadr colind)
    (symm : ∀ u v, Adj rownnz rowadr colind u v → Adj rownnz rowadr colind v u)
    {isl : Array Int} {n : Nat} (h : floodFill nr rownnz rowadr colind = some (isl, n)) :
    -- (0) one label per vertex
    isl.size = nr ∧
    -- (1) -1 exactly for vertices without edges, all other labels in [0, n)
    (∀ v (hv : v < isl.size), (isl[v] = -1 ↔ rownnz[v]? = some 0) ∧ (-1 ≤ isl[v] ∧ isl[v] < (n : Int))) ∧
    -- (2) two labelled vertices share a label iff they are connected
    (∀ u v (hu : u < isl.size) (hv : v < isl.size), isl[u] ≠ -1 → isl[v] ≠ -1 →
        (isl[u] = isl[v] ↔ Relation.ReflTransGen (Adj rownnz rowadr colind) u v)) ∧
    -- (3) every id below n is used
    (∀ c : Nat, c < n → ∃ v, ∃ hv : v < isl.size, isl[v] = (c : Int)) ∧
    -- (4) ids ascend with the smallest vertex of the component
    (∀ u v (hu : u < isl.size) (hv : v < isl.size), isl[u] ≠ -1 → isl[v] ≠ -1 → isl[u] < isl[v] →
        ∃ u', Relation.ReflTransGen (Adj rownnz rowadr colind) u u' ∧
              ∀ v', Relation.ReflTransGen (Adj rownnz rowadr colind) v v' → u' < v') := by
  have inv := floodFill_inv ok symm h
  have hsz := inv.size
  -- the start vertex of the component of a labelled vertex
  have key : ∀ u, lab isl u ≠ -1 → ∃ s, lab isl s = lab isl u ∧
      (∀ v, lab isl v = lab isl u ↔ Reach rownnz rowadr colind s v) ∧
      (∀ v, v < s → v < nr → rownnz[v]? ≠ some 0 → 0 ≤ lab isl v ∧ lab isl v < lab isl u) := by
    intro u hu
    rcases inv.range u with h1 | ⟨h1, h2⟩
    · exact absurd h1 hu
    · have e : (((lab isl u).toNat : Nat) : Int) = lab isl u := by omega
      have := inv.comp (lab isl u).toNat (by omega)
      rw [e] at this
      exact this
  refine ⟨hsz, ?_, ?_, ?_, ?_⟩
  · intro v hv
    rw [← lab_lt hv]
    refine ⟨⟨?_, ?_⟩, ?_⟩
    · intro hl
      have h2 : v < rownnz.size := by have := ok.nnz_size; omega
      by_cases hz : rownnz[v]? = some 0
      · exact hz
      · exact absurd hl (inv.done v (by omega) (by omega) hz)
    · intro hz
      by_cases hl : lab isl v = -1
      · exact hl
      · exact absurd hz (inv.edges v hl)
    · rcases inv.range v with h1 | h1 <;> omega
  · intro u v hu hv hlu hlv
    rw [← lab_lt hu] at hlu ⊢
    rw [← lab_lt hv] at hlv ⊢
    obtain ⟨s, hs1, hs2, _⟩ := key u hlu
    have hsu : Reach rownnz rowadr colind s u := (hs2 u).mp rfl
    constructor
    · intro e
      exact (reach_symm symm hsu).trans ((hs2 v).mp e.symm)
    · intro r
      exact ((hs2 v).mpr (hsu.trans r)).symm
  · intro c hc
    obtain ⟨s, hs1, _, _⟩ := inv.comp c hc
    have hs : s < isl.size := lt_of_lab_ne (by omega)
    exact ⟨s, hs, by rw [← lab_lt hs]; exact hs1⟩
  · intro u v hu hv hlu hlv hlt
    rw [← lab_lt hu] at hlu hlt
    rw [← lab_lt hv] at hlv hlt
    obtain ⟨s, hs1, hs2, hs3⟩ := key u hlu
    obtain ⟨t, ht1, ht2, _⟩ := key v hlv
    have hsu : Reach rownnz rowadr colind s u := (hs2 u).mp rfl
    have htv : Reach rownnz rowadr colind t v := (ht2 v).mp rfl
    refine ⟨s, reach_symm symm hsu, ?_⟩
    intro v' hv'
    have hl' : lab isl v' = lab isl v := (ht2 v').mpr (htv.trans hv')
    have hv'n : v' < nr := by
      have := lt_of_lab_ne (isl := isl) (v := v') (by omega)
      omega
    have hnz : rownnz[v']? ≠ some 0 := inv.edges v' (by omega)
    rcases Nat.lt_trichotomy v' s with h1 | h1 | h1
    · have := hs3 v' h1 hv'n hnz
      omega
    · subst h1; omega
    · exact h1

/-! ### stack bound

The C caller provides `stack` with room for `nnz` ints.  `InnerCalls c isl stack isl' stack'` says that the
evaluation of `ffInner … c isl stack` arrives at the (tail-)recursive call `ffInner … c isl' stack'`; its
three constructors are the three recursive positions of the definition of `ffInner` (reflexivity, the call
after labelling and pushing, the call after skipping a labelled vertex). -/

inductive InnerCalls (rownnz rowadr colind : Array Nat) (c : Nat) :
    Array Int → List Nat → Array Int → List Nat → Prop
  | self (isl : Array Int) (stack : List Nat) : InnerCalls rownnz rowadr colind c isl stack isl stack
  | push {isl : Array Int} {v : Nat} {rest ns : List Nat} {isl' : Array Int} {stack' : List Nat}
      (h : v < isl.size) (hv : isl[v] = -1) (hn : ffNeighbors rownnz rowadr colind v = some ns) :
      InnerCalls rownnz rowadr colind c (isl.set v (c : Int)) (ns.reverse ++ rest) isl' stack' →
      InnerCalls rownnz rowadr colind c isl (v :: rest) isl' stack'
  | skip {isl : Array Int} {v : Nat} {rest : List Nat} {isl' : Array Int} {stack' : List Nat}
      (h : v < isl.size) (hv : isl[v] ≠ -1) :
      InnerCalls rownnz rowadr colind c isl rest isl' stack' →
      InnerCalls rownnz rowadr colind c isl (v :: rest) isl' stack'

/-- the calls related by `InnerCalls` are tail calls of `ffInner`: they return the same result -/
theorem InnerCalls.result {c : Nat} {isl isl' : Array Int} {stack stack' : List Nat}
    (h : InnerCalls rownnz rowadr colind c isl stack isl' stack') :
    ffInner rownnz rowadr colind c isl stack = ffInner rownnz rowadr colind c isl' stack' := by
  induction h with
  | self => rfl
  | push h hv hn _ ih => rw [ffInner, dif_pos h, dif_pos hv, hn]; exact ih
  | skip h hv _ ih => rw [ffInner, dif_pos h, dif_neg hv]; exact ih

/-- `Σ_{v < n} f v` -/
def rsum (f : Nat → Nat) (n : Nat) : Nat := ((List.range n).map f).sum

theorem rsum_succ (f : Nat → Nat) (n : Nat) : rsum f (n + 1) = rsum f n + f n := by
  simp [rsum, List.range_succ]

theorem rsum_le {f g : Nat → Nat} (n : Nat) (h : ∀ w, w < n → f w ≤ g w) : rsum f n ≤ rsum g n := by
  induction n with
  | zero => simp [rsum]
  | succ n ih =>
    rw [rsum_succ, rsum_succ]
    have := ih (fun w hw => h w (by omega))
    have := h n (by omega)
    omega

theorem rsum_update {f g : Nat → Nat} (v : Nat) (hfg : ∀ w, w ≠ v → f w = g w) (n : Nat) (hv : v < n) :
    rsum g n + f v = rsum f n + g v := by
  induction n with
  | zero => omega
  | succ n ih =>
    rw [rsum_succ, rsum_succ]
    by_cases hvn : v = n
    · subst hvn
      have h1 := rsum_le (f := f) (g := g) v (fun w hw => by rw [hfg w (by omega)]; exact Nat.le_refl _)
      have h2 := rsum_le (f := g) (g := f) v (fun w hw => by rw [hfg w (by omega)]; exact Nat.le_refl _)
      omega
    · have := ih (by omega)
      have := hfg n (by omega)
      omega

theorem list_sum_eq_rsum (l : List Nat) : l.sum = rsum (fun v => (l[v]?).getD 0) l.length := by
  induction l with
  | nil => simp [rsum]
  | cons a t ih =>
    rw [List.sum_cons, ih]
    simp [rsum, List.range_succ_eq_map, List.map_map, Function.comp_def]

/-- row weight of vertex `v` -/
def rw_ (rownnz : Array Nat) (v : Nat) : Nat := (rownnz[v]?).getD 0

/-- total row weight of the vertices labelled `c` -/
def wsum (rownnz : Array Nat) (nr : Nat) (isl : Array Int) (c : Nat) : Nat :=
  rsum (fun v => if lab isl v = (c : Int) then rw_ rownnz v else 0) nr

theorem wsum_le_total (ok : CsrOk nr rownnz rowadr colind) (isl : Array Int) (c : Nat) :
    wsum rownnz nr isl c ≤ rownnz.toList.sum := by
  rw [list_sum_eq_rsum, Array.length_toList, ok.nnz_size]
  apply rsum_le
  intro w _
  show (if lab isl w = (c : Int) then rw_ rownnz w else 0) ≤ (rownnz.toList[w]?).getD 0
  split
  · simp [rw_]
  · omega

theorem wsum_set {isl : Array Int} {v : Nat} (c : Nat) (h : v < isl.size) (hs : isl.size = nr)
    (hv : lab isl v ≠ (c : Int)) :
    wsum rownnz nr (isl.set v (c : Int)) c = wsum rownnz nr isl c + rw_ rownnz v := by
  have := rsum_update (f := fun w => if lab isl w = (c : Int) then rw_ rownnz w else 0)
    (g := fun w => if lab (isl.set v (c : Int)) w = (c : Int) then rw_ rownnz w else 0) v
    (by intro w hw
        show (if lab isl w = (c : Int) then rw_ rownnz w else 0) =
          (if lab (isl.set v (c : Int)) w = (c : Int) then rw_ rownnz w else 0)
        have e : lab (isl.set v (c : Int)) w = lab isl w := by
          rw [lab_set h, if_neg (fun e => hw e.symm)]
        rw [e]) nr (by omega)
  simp only [lab_set h, if_true, if_neg hv] at this
  unfold wsum
  simp only [lab_set h]
  omega

/-- In every call of `ffInner` made (directly or by its own recursion) by the outer loop of `mj_floodFill` on
    a well-formed CSR matrix the stack holds at most `nnz = Σ rownnz` entries.  The call for vertex `i` is
    identified by the state `(isl, n)` of the outer loop after the vertices `< i` and the condition under
    which `ffOuterStep` starts a DFS.  Symmetry is not needed. -/
theorem floodFill_stack_bound (ok : CsrOk nr rownnz rowadr colind) {i : Nat} (hi : i < nr)
    {isl : Array Int} {n : Nat}
    (hpre : (List.range i).foldlM (ffOuterStep rownnz rowadr colind) (Array.replicate nr (-1), 0) =
      some (isl, n))
    (hunl : isl[i]? = some (-1)) (hnz : rownnz[i]? ≠ some 0)
    {isl' : Array Int} {stack' : List Nat}
    (hc : InnerCalls rownnz rowadr colind n isl [i] isl' stack') :
    stack'.length ≤ rownnz.toList.sum := by
  have hsz : isl.size = nr := by
    obtain ⟨st, hst, hs⟩ := outer_loop_total ok i (by omega)
    rw [hst] at hpre
    injection hpre with hpre
    subst hpre
    exact hs
  have hli : lab isl i = -1 := by simp [lab, hunl]
  have hwi : 1 ≤ rw_ rownnz i := by
    have h2 : i < rownnz.size := by have := ok.nnz_size; omega
    rw [Array.getElem?_eq_getElem h2] at hnz
    have : rownnz[i] ≠ 0 := fun e => hnz (by rw [e])
    simp only [rw_, Array.getElem?_eq_getElem h2, Option.getD_some]
    omega
  -- invariant of the calls
  have key : ∀ (isl : Array Int) (stack : List Nat) (isl' : Array Int) (stack' : List Nat),
      InnerCalls rownnz rowadr colind n isl stack isl' stack' →
      isl.size = nr → stack.length + (if lab isl i = -1 then 0 else 1) ≤ wsum rownnz nr isl n + 1 →
      isl'.size = nr ∧ stack'.length + (if lab isl' i = -1 then 0 else 1) ≤ wsum rownnz nr isl' n + 1 := by
    intro isl stack isl' stack' hc
    induction hc with
    | self => intro h1 h2; exact ⟨h1, h2⟩
    | @push isl v rest ns isl' stack' h hv hn _ ih =>
      intro h1 h2
      apply ih (by simpa using h1)
      have hlv : lab isl v ≠ (n : Int) := by rw [lab_lt h, hv]; omega
      rw [wsum_set n h h1 hlv]
      have hlen := ffNeighbors_length ok hn
      have : rw_ rownnz v = ns.length := by simp [rw_, hlen]
      simp only [List.length_append, List.length_reverse, List.length_cons] at h2 ⊢
      split at h2 <;> split <;> omega
    | @skip isl v rest isl' stack' h hv _ ih =>
      intro h1 h2
      apply ih h1
      simp only [List.length_cons] at h2
      omega
  obtain ⟨hsz', hb⟩ := key isl [i] isl' stack' hc hsz (by simp [hli])
  have htot := wsum_le_total ok isl' n
  by_cases hl' : lab isl' i = -1
  · rw [if_pos hl'] at hb
    have hi' : i < isl'.size := by omega
    have := wsum_set (rownnz := rownnz) n hi' hsz' (by omega : lab isl' i ≠ (n : Int))
    have := wsum_le_total ok (isl'.set i (n : Int)) n
    omega
  · rw [if_neg hl'] at hb
    omega

/-- the outer loop passes through the state "after the vertices `< i`" (the `hpre` of
    `floodFill_stack_bound`) for every `i < nr`, and continues with `ffOuterStep … i` from there -/
theorem floodFill_split (nr : Nat) (rownnz rowadr colind : Array Nat) (i : Nat) (hi : i < nr) :
    floodFill nr rownnz rowadr colind =
      ((List.range i).foldlM (ffOuterStep rownnz rowadr colind) (Array.replicate nr (-1), 0)).bind fun st =>
        (ffOuterStep rownnz rowadr colind st i).bind fun st' =>
          (List.range' (i + 1) (nr - (i + 1))).foldlM (ffOuterStep rownnz rowadr colind) st' := by
  have e : List.range nr = List.range i ++ i :: List.range' (i + 1) (nr - (i + 1)) := by
    rw [List.range_eq_range', List.range_eq_range']
    have : nr = i + (nr - (i + 1) + 1) := by omega
    conv => lhs; rw [this]
    rw [← List.range'_append_1, List.range'_succ]
    simp
  unfold floodFill
  rw [e, List.foldlM_append]
  rfl

/-! ### non-vacuity: a concrete symmetric graph

`ffInner` is defined by well-founded recursion, which the kernel does not evaluate; the example therefore
runs a fuel-bounded structural copy that is proved to agree with the model whenever the fuel suffices. -/

/-- fuel-bounded copy of `ffInner` (structural recursion, so that the kernel can evaluate it); the outer
    `none` means "out of fuel" -/
def ffInnerF (rownnz rowadr colind : Array Nat) (c : Nat) :
    Nat → Array Int → List Nat → Option (Option (Array Int))
  | 0, _, _ => none
  | _ + 1, island, [] => some (some island)
  | f + 1, island, v :: rest =>
    if h : v < island.size then
      if island[v] = -1 then
        match ffNeighbors rownnz rowadr colind v with
        | some ns => ffInnerF rownnz rowadr colind c f (island.set v (c : Int)) (ns.reverse ++ rest)
        | none => some none
      else ffInnerF rownnz rowadr colind c f island rest
    else some none

theorem ffInnerF_eq {rownnz rowadr colind : Array Nat} {c : Nat} (f : Nat) (island : Array Int)
    (stack : List Nat) (r : Option (Array Int))
    (h : ffInnerF rownnz rowadr colind c f island stack = some r) :
    ffInner rownnz rowadr colind c island stack = r := by
  induction f generalizing island stack with
  | zero => simp [ffInnerF] at h
  | succ f ih =>
    cases stack with
    | nil => simp [ffInnerF] at h; simp [ffInner, h]
    | cons v rest =>
      rw [ffInner]
      rw [ffInnerF] at h
      split at h
      · rename_i hlt
        rw [dif_pos hlt]
        split at h
        · rename_i hv
          rw [dif_pos hv]
          split at h
          · rename_i ns hn
            rw [hn]
            exact ih _ _ h
          · rename_i hn
            rw [hn]
            injection h
        · rename_i hv
          rw [dif_neg hv]
          exact ih _ _ h
      · rename_i hlt
        rw [dif_neg hlt]
        injection h

def ffOuterStepF (rownnz rowadr colind : Array Nat) (f : Nat) (s : Array Int × Nat) (i : Nat) :
    Option (Array Int × Nat) :=
  match s.1[i]?, rownnz[i]? with
  | some isl, some n =>
    if isl ≠ -1 ∨ n = 0 then some s
    else
      match ffInnerF rownnz rowadr colind s.2 f s.1 [i] with
      | some (some island') => some (island', s.2 + 1)
      | _ => none
  | _, _ => none

theorem ffOuterStepF_eq {rownnz rowadr colind : Array Nat} (f : Nat) (s : Array Int × Nat) (i : Nat)
    (r : Array Int × Nat) (h : ffOuterStepF rownnz rowadr colind f s i = some r) :
    ffOuterStep rownnz rowadr colind s i = some r := by
  unfold ffOuterStepF at h
  unfold ffOuterStep
  split at h
  · rename_i isl n h1 h2
    simp only [h1, h2]
    split at h
    · rename_i hc; rw [if_pos hc]; exact h
    · rename_i hc
      rw [if_neg hc]
      split at h
      · rename_i island' he
        rw [ffInnerF_eq _ _ _ _ he]
        exact h
      · cases h
  · cases h

theorem foldlM_F_eq {rownnz rowadr colind : Array Nat} (f : Nat) (l : List Nat) (s r : Array Int × Nat)
    (h : l.foldlM (ffOuterStepF rownnz rowadr colind f) s = some r) :
    l.foldlM (ffOuterStep rownnz rowadr colind) s = some r := by
  induction l generalizing s with
  | nil => exact h
  | cons a t ih =>
    rw [List.foldlM_cons] at h ⊢
    cases hs : ffOuterStepF rownnz rowadr colind f s a with
    | none => rw [hs] at h; cases h
    | some s' =>
      rw [hs] at h
      rw [ffOuterStepF_eq f s a s' hs]
      exact ih s' h

/-- edges 0-3, 3-4, 1-2; vertex 5 has no edges -/
def exNnz : Array Nat := #[1,1,1,2,1,0]
def exAdr : Array Nat := #[0,1,2,3,5,6]
def exCol : Array Nat := #[3,2,1,0,4,3]

theorem exOk : CsrOk 6 exNnz exAdr exCol := ⟨rfl, rfl, by decide, by decide⟩

theorem adj_iff {rownnz rowadr colind : Array Nat} (u v : Nat) :
    Adj rownnz rowadr colind u v ↔ v ∈ (ffNeighbors rownnz rowadr colind u).getD [] := by
  unfold Adj
  cases ffNeighbors rownnz rowadr colind u <;> simp

theorem exSymm : ∀ u v, Adj exNnz exAdr exCol u v → Adj exNnz exAdr exCol v u := by
  intro u v h
  obtain ⟨hu, hv⟩ := adj_lt exOk h
  rw [adj_iff] at h ⊢
  have key : ∀ u, u < 6 → ∀ v, v < 6 → v ∈ (ffNeighbors exNnz exAdr exCol u).getD [] →
      u ∈ (ffNeighbors exNnz exAdr exCol v).getD [] := by decide
  exact key u hu v hv h

theorem exRun : floodFill 6 exNnz exAdr exCol = some (#[0,1,1,0,0,-1], 2) :=
  foldlM_F_eq 10 _ _ _ (by decide)


example : CsrOk 6 exNnz exAdr exCol ∧
    (∀ u v, Adj exNnz exAdr exCol u v → Adj exNnz exAdr exCol v u) ∧
    floodFill 6 exNnz exAdr exCol = some (#[0, 1, 1, 0, 0, -1], 2) :=
  ⟨exOk, exSymm, exRun⟩

/-- the hypotheses of `floodFill_components` are satisfiable (and its conclusion applies to the run above) -/
example := floodFill_components exOk exSymm exRun

/-- the hypotheses of `floodFill_stack_bound` are satisfiable: the DFS started at vertex 1 after vertex 0
    has been processed; after labelling 1 and pushing its neighbour the stack is `[2]`, and `nnz = 6` -/
example : ([2] : List Nat).length ≤ exNnz.toList.sum :=
  floodFill_stack_bound exOk (i := 1) (by decide) (isl := #[0, -1, -1, 0, 0, -1]) (n := 1)
    (foldlM_F_eq 10 _ _ _ (by decide)) (by decide) (by decide)
    (InnerCalls.push (ns := [2]) (by decide) (by decide) (by decide) (InnerCalls.self _ _))

end MjProof.Island
