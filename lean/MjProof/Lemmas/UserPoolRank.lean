import MjProof.Lemmas.UserPoolStep
/-
A ranking function for the `user_threadpool.cc` transition system: every transition without spurious wake-ups strictly
decreases `rank`, so every schedule reaches the end of the destructor within `rank (init N T)` steps.
-/
set_option linter.unusedVariables false
set_option linter.unusedSimpArgs false
namespace MjProof.UserPool

/-- weight of a worker state -/
def wcost : WPc → Nat
  | .fetch => 1
  | .woken => 1
  | .blocked => 0
  | .run _ => 4
  | .fin _ => 3
  | .exitInc => 2
  | .exited => 0

/-- weight of a queue entry: a task 5, a sentinel 3 -/
def icost : Option Nat → Nat
  | some _ => 5
  | none => 3

def qcost : List (Option Nat) → Nat
  | [] => 0
  | x :: q => icost x + qcost q

def sumW (w : Nat → WPc) : Nat → Nat
  | 0 => 0
  | n + 1 => sumW w n + wcost (w (n + 1))

/-- weight of the scheduling thread's position (`N` workers, `T` tasks) -/
def mcost (N T : Nat) : MPc → Nat
  | .done => 0
  | .join k => N - k
  | .dtor => 5 * N + 1
  | .waitBlocked => 5 * N + 2
  | .waitWoken => 5 * N + 3
  | .wait => 5 * N + 3
  | .sched i => 5 * N + 4 + (T - i) * 7

def rank (s : State) : Nat := mcost s.N s.T s.mpc + sumW s.w s.N + qcost s.queue

theorem qcost_append (q : List (Option Nat)) (x : Option Nat) : qcost (q ++ [x]) = qcost q + icost x := by
  induction q with
  | nil => simp [qcost]
  | cons y q ih => simp only [List.cons_append, qcost, ih]; omega

theorem qcost_append_replicate (q : List (Option Nat)) (n : Nat) : qcost (q ++ List.replicate n none) = qcost q + 3 * n := by
  induction n with
  | zero => simp
  | succ n ih =>
    have : q ++ List.replicate (n + 1) none = (q ++ List.replicate n none) ++ [none] := by
      rw [List.replicate_succ', List.append_assoc]
    rw [this, qcost_append, ih]; simp only [icost]; omega

theorem sumW_congr (w w' : Nat → WPc) (n : Nat) (h : ∀ i, 1 ≤ i → i ≤ n → wcost (w i) = wcost (w' i)) : sumW w n = sumW w' n := by
  induction n with
  | zero => rfl
  | succ n ih =>
    simp only [sumW]
    rw [ih (fun i h1 h2 => h i h1 (by omega)), h (n + 1) (by omega) (by omega)]

/-- changing one worker in range changes the sum by the difference of the weights -/
theorem sumW_set (w : Nat → WPc) (n i : Nat) (p : WPc) (h1 : 1 ≤ i) (h2 : i ≤ n) :
    sumW (fun j => if j = i then p else w j) n + wcost (w i) = sumW w n + wcost p := by
  induction n with
  | zero => omega
  | succ n ih =>
    simp only [sumW]
    by_cases hi : i = n + 1
    · subst hi
      have : sumW (fun j => if j = n + 1 then p else w j) n = sumW w n := by
        apply sumW_congr; intro j hj1 hj2
        have : j ≠ n + 1 := by omega
        simp [this]
      rw [this]; simp
      omega
    · have := ih (by omega)
      have hne : n + 1 ≠ i := fun e => hi e.symm
      simp only [if_neg hne]
      omega

/-- waking any set of blocked workers raises the sum by at most one per worker -/
theorem sumW_wakeAll (s : State) (n : Nat) :
    sumW (fun j => if isBlocked s j then WPc.woken else s.w j) n ≤ sumW s.w n + n := by
  induction n with
  | zero => simp [sumW]
  | succ n ih =>
    simp only [sumW]
    by_cases hb : isBlocked s (n + 1) = true
    · have := (isBlocked_range s _ hb).2.2
      simp only [hb, if_true, this, wcost]; omega
    · simp only [hb]; simp; omega

/-- `notify_one` raises the rank by at most 1 -/
theorem rank_wakeOne (s : State) (wk : Option Nat) (hb : ∀ i, wk = some i → isBlocked s i = true) :
    rank (wakeOne s wk) ≤ rank s + 1 := by
  cases wk with
  | none => simp [wakeOne]
  | some i =>
    obtain ⟨h1, h2, hbl⟩ := isBlocked_range s i (hb i rfl)
    have := sumW_set s.w s.N i .woken h1 h2
    rw [hbl] at this
    simp only [wcost] at this
    simp only [wakeOne, setW, rank]
    omega

theorem rank_notifyIn (s : State) (pick : Option Nat) : rank (notifyIn s pick).1 ≤ rank s + 1 := by
  obtain ⟨wk, hspec, hsome, _⟩ := notifyIn_spec s pick
  rw [hspec]; exact rank_wakeOne s wk hsome

theorem rank_notifyExt (s : State) : rank (notifyExt s).1 ≤ rank s + 1 := by
  unfold notifyExt
  split
  · rename_i hb; simp only [rank, hb, mcost]; omega
  · simp

/-- every transition without spurious wake-ups strictly decreases the rank (on states satisfying the invariant) -/
theorem rank_step (s s' : State) (a : Act) (pick : Option Nat) (evs : List Ev) (h : Inv s)
    (ha : a = .main ∨ ∃ i, a = .worker i) (hs : step s a pick = some (s', evs)) : rank s' < rank s := by
  have hc := h.core
  rcases ha with ha | ⟨i, ha⟩
  · subst ha
    simp only [step] at hs
    cases hm : s.mpc with
    | sched k =>
      obtain ⟨hns, hkT⟩ := hc.mpc_sched k hm
      simp only [stepMain, hm, Option.some.injEq, Prod.mk.injEq] at hs
      have hr := rank_notifyIn
        { s with queue := s.queue ++ [some k], nsched := s.nsched + 1, mpc := if k + 1 < s.T then MPc.sched (k + 1) else MPc.wait } pick
      rw [hs.1] at hr
      have hq := qcost_append s.queue (some k)
      have hmid : rank
          { s with queue := s.queue ++ [some k], nsched := s.nsched + 1, mpc := if k + 1 < s.T then MPc.sched (k + 1) else MPc.wait } + 2 ≤ rank s := by
        simp only [rank, hm, hq, icost]
        split
        · rename_i hlt
          simp only [mcost]
          have e1 : s.T - k = (s.T - (k + 1)) + 1 := by omega
          rw [e1]; omega
        · simp only [mcost]
          have e1 : s.T - k = 1 := by omega
          rw [e1]; omega
      omega
    | wait =>
      simp only [stepMain, hm] at hs
      split at hs <;> (simp only [Option.some.injEq, Prod.mk.injEq] at hs; rw [← hs.1]; simp only [rank, hm, mcost]; omega)
    | waitWoken =>
      simp only [stepMain, hm] at hs
      split at hs <;> (simp only [Option.some.injEq, Prod.mk.injEq] at hs; rw [← hs.1]; simp only [rank, hm, mcost]; omega)
    | waitBlocked => simp [stepMain, hm] at hs
    | dtor =>
      have hN0 : ¬ s.N = 0 := by have := hc.nge; omega
      simp only [stepMain, hm, if_neg hN0, Option.some.injEq, Prod.mk.injEq] at hs
      have hst : s' =
          { s with queue := s.queue ++ List.replicate s.N none, mpc := .join 0, w := fun j => if isBlocked s j then .woken else s.w j } := by
        rw [← hs.1]; rfl
      subst hst
      have hw := sumW_wakeAll s s.N
      have hq := qcost_append_replicate s.queue s.N
      simp only [rank, hm, mcost, hq]
      omega
    | join k =>
      obtain ⟨hkN, _⟩ := hc.joined k hm
      simp only [stepMain, hm] at hs
      split at hs
      · simp only [Option.some.injEq, Prod.mk.injEq] at hs
        rw [← hs.1]
        simp only [rank, hm]
        split <;> (simp only [mcost]; omega)
      · simp at hs
    | done => simp [stepMain, hm] at hs
  · subst ha
    simp only [step, stepWorker] at hs
    by_cases hr : 1 ≤ i ∧ i ≤ s.N
    · rw [if_neg (fun hn => hn hr)] at hs
      have hset : ∀ p, sumW (fun j => if j = i then p else s.w j) s.N + wcost (s.w i) = sumW s.w s.N + wcost p :=
        fun p => sumW_set s.w s.N i p hr.1 hr.2
      have hfetch : (s.w i = .fetch ∨ s.w i = .woken) →
          (match s.queue with
            | [] => some (setW s i .blocked, [Ev.lock i, .waitBlock i 0])
            | item :: rest =>
              match item with
              | some t => some ((notifyIn { (setW { s with queue := rest } i (.run t)) with
                    npop := s.npop + 1, takenBy := fun j => if j = t then i else s.takenBy j } pick).1,
                  [Ev.lock i, .waitPass i 0, .notifyOne i 0 (notifyIn { (setW { s with queue := rest } i (.run t)) with
                    npop := s.npop + 1, takenBy := fun j => if j = t then i else s.takenBy j } pick).2, .unlock i])
              | none => some ((notifyIn (setW { s with queue := rest } i .exitInc) pick).1,
                  [Ev.lock i, .waitPass i 0, .notifyOne i 0 (notifyIn (setW { s with queue := rest } i .exitInc) pick).2, .unlock i]))
            = some (s', evs) → rank s' < rank s := by
        intro hw hs
        have hwc : wcost (s.w i) = 1 := by rcases hw with hw | hw <;> rw [hw] <;> rfl
        cases hq : s.queue with
        | nil =>
          rw [hq] at hs
          simp only [Option.some.injEq, Prod.mk.injEq] at hs
          rw [← hs.1]
          have := hset .blocked
          have hb0 : wcost WPc.blocked = 0 := rfl
          rw [hwc, hb0] at this
          simp only [rank, setW, hq, qcost] at this ⊢
          omega
        | cons item rest =>
          rw [hq] at hs
          cases item with
          | some t =>
            simp only [Option.some.injEq, Prod.mk.injEq] at hs
            have hr' := rank_notifyIn { (setW { s with queue := rest } i (.run t)) with
              npop := s.npop + 1, takenBy := fun j => if j = t then i else s.takenBy j } pick
            rw [hs.1] at hr'
            have := hset (.run t)
            have hr4 : wcost (WPc.run t) = 4 := rfl
            rw [hwc, hr4] at this
            simp only [rank, setW, hq, qcost, icost] at this hr' ⊢
            omega
          | none =>
            simp only [Option.some.injEq, Prod.mk.injEq] at hs
            have hr' := rank_notifyIn (setW { s with queue := rest } i .exitInc) pick
            rw [hs.1] at hr'
            have := hset .exitInc
            have he2 : wcost WPc.exitInc = 2 := rfl
            rw [hwc, he2] at this
            simp only [rank, setW, hq, qcost, icost] at this hr' ⊢
            omega
      cases hw : s.w i with
      | fetch => rw [hw] at hs; exact hfetch (Or.inl hw) hs
      | woken => rw [hw] at hs; exact hfetch (Or.inr hw) hs
      | blocked => rw [hw] at hs; simp at hs
      | run t =>
        rw [hw] at hs
        simp only [Option.some.injEq, Prod.mk.injEq] at hs
        rw [← hs.1]
        have := hset (.fin t)
        rw [hw] at this
        simp only [rank, setW, wcost] at this ⊢
        omega
      | fin t =>
        rw [hw] at hs
        simp only [Option.some.injEq, Prod.mk.injEq] at hs
        have hr' := rank_notifyExt
          { (setW s i .fetch) with ctr := s.ctr + 1, nfin := s.nfin + 1, finished := fun j => if j = t then true else s.finished j }
        rw [hs.1] at hr'
        have := hset .fetch
        rw [hw] at this
        simp only [rank, setW, wcost] at this hr' ⊢
        omega
      | exitInc =>
        rw [hw] at hs
        simp only [Option.some.injEq, Prod.mk.injEq] at hs
        have hr' := rank_notifyExt { (setW s i .exited) with ctr := s.ctr + 1, nexit := s.nexit + 1 }
        rw [hs.1] at hr'
        have := hset .exited
        rw [hw] at this
        simp only [rank, setW, wcost] at this hr' ⊢
        omega
      | exited => rw [hw] at hs; simp at hs
    · rw [if_pos hr] at hs; simp at hs

/-- `n` transitions without spurious wake-ups, starting from `s0` -/
inductive RunNS (s0 : State) : Nat → State → Prop where
  | refl : RunNS s0 0 s0
  | step {s' s'' : State} {n : Nat} : RunNS s0 n s' → StepNS s' s'' → RunNS s0 (n + 1) s''

theorem reachNS_of_run (N T : Nat) (n : Nat) (s : State) (h : RunNS (init N T) n s) : ReachNS N T s := by
  induction h with
  | refl => exact ReachNS.init
  | step _ hst ih => exact ReachNS.step ih hst

/-- every run of `n` steps from the initial state satisfies `n + rank ≤ rank (init)` -/
theorem run_bound (N T : Nat) (hN : 1 ≤ N) (n : Nat) (s : State) (h : RunNS (init N T) n s) :
    n + rank s ≤ rank (init N T) := by
  induction h with
  | refl => omega
  | step hrun hst ih =>
    have hinv := inv_reach N T hN _ (reach_of_reachNS N T _ (reachNS_of_run N T _ _ hrun))
    obtain ⟨a, pick, evs, ha, hs⟩ := hst
    have := rank_step _ _ a pick evs hinv ha hs
    omega

end MjProof.UserPool
