import MjProof.Lemmas.RealNum
import MjProof.Model.Orient
import Mathlib.Tactic.Ring
import Mathlib.Tactic.Linarith
import Mathlib.Tactic.NormNum
import Mathlib.Tactic.NormNum.OfScientific
import Mathlib.Tactic.LinearCombination
import Mathlib.Tactic.FieldSimp
import Mathlib.Tactic.Positivity
/-
Helper lemmas over ℝ for the orientation / frame model (`Model/Orient.lean`) shared by C35 and C36:
closed polynomial form of the generated `mjuu_quat2mat`, the normalisation being the identity on unit
quaternions, `mulquat` = Hamilton product on unit quaternions, multiplicativity of `quat2mat`.
-/
set_option linter.unusedTactic false
set_option linter.unreachableTactic false
set_option linter.unusedSimpArgs false
set_option linter.unusedVariables false
namespace MjProof.Orient
open MjProof MjProof.Gen

/-- closes a conjunction of polynomial identities (what `*.mk.injEq` leaves), however many `simp` already closed -/
macro "comp_ring" : tactic =>
  `(tactic| first | done | rfl | ((repeat' constructor) <;> first | ring | (ring_nf; done)))

theorem mjEPS_eq : (mjEPS : ℝ) = 1 / 10 ^ 14 := by
  simp only [mjEPS, real_ofSci]; norm_num
theorem mjEPS_pos : (0 : ℝ) < mjEPS := by rw [mjEPS_eq]; positivity
theorem mjEPS_lt_one : (mjEPS : ℝ) < 1 := by rw [mjEPS_eq]; norm_num
theorem ofSci_half : (MjNum.ofSci 5 true 1 : ℝ) = 1 / 2 := by
  simp only [real_ofSci]; norm_num
theorem ofSci_quarter : (MjNum.ofSci 25 true 2 : ℝ) = 1 / 4 := by
  simp only [real_ofSci]; norm_num
theorem ofSci_1em10 : (MjNum.ofSci 1 true 10 : ℝ) = 1 / 10 ^ 10 := by
  simp only [real_ofSci]; norm_num

/-- squared norm of a quaternion / 3-vector -/
def nsq (q : Q ℝ) : ℝ := q.w * q.w + q.x * q.x + q.y * q.y + q.z * q.z
def nsq3 (v : V3 ℝ) : ℝ := v.x * v.x + v.y * v.y + v.z * v.z

/-- the homogeneous rotation matrix of a quaternion -/
def matF (q : Q ℝ) : M9 ℝ :=
  ⟨q.w*q.w + q.x*q.x - q.y*q.y - q.z*q.z, 2 * (q.x*q.y - q.w*q.z), 2 * (q.x*q.z + q.w*q.y),
   2 * (q.x*q.y + q.w*q.z), q.w*q.w - q.x*q.x + q.y*q.y - q.z*q.z, 2 * (q.y*q.z - q.w*q.x),
   2 * (q.x*q.z - q.w*q.y), 2 * (q.y*q.z + q.w*q.x), q.w*q.w - q.x*q.x - q.y*q.y + q.z*q.z⟩

/-- the generated `mjuu_quat2mat` (with its identity short-cut) is the polynomial matrix (tuple form) -/
theorem mjuu_quat2mat_eq (w x y z : ℝ) :
    mjuu_quat2mat w x y z =
      (w*w + x*x - y*y - z*z, 2 * (x*y - w*z), 2 * (x*z + w*y),
       2 * (x*y + w*z), w*w - x*x + y*y - z*z, 2 * (y*z - w*x),
       2 * (x*z - w*y), 2 * (y*z + w*x), w*w - x*x - y*y + z*z) := by
  simp only [mjuu_quat2mat, real_beq, real_ofInt, decide_eq_true_eq, Bool.decide_and, Bool.and_eq_true]
  push_cast
  split_ifs with h
  · obtain ⟨⟨⟨rfl, rfl⟩, rfl⟩, rfl⟩ := h; simp
  · simp only [Prod.mk.injEq]; comp_ring

/-- `quat2mat` over ℝ is the polynomial matrix -/
theorem quat2mat_eq (q : Q ℝ) : quat2mat q = matF q := by
  simp only [quat2mat, mjuu_quat2mat_eq, matF]

theorem mulvecmat_eq (v : V3 ℝ) (m : M9 ℝ) :
    mulvecmat v m = ⟨m.m0 * v.x + m.m1 * v.y + m.m2 * v.z, m.m3 * v.x + m.m4 * v.y + m.m5 * v.z,
      m.m6 * v.x + m.m7 * v.y + m.m8 * v.z⟩ := by
  simp only [mulvecmat, mjuu_mulvecmat]

theorem crossvec_eq (b c : V3 ℝ) :
    crossvec b c = ⟨b.y * c.z - b.z * c.y, b.z * c.x - b.x * c.z, b.x * c.y - b.y * c.x⟩ := by
  simp only [crossvec, mjuu_crossvec]

theorem dot3_eq (a b : V3 ℝ) : dot3 a b = a.x * b.x + a.y * b.y + a.z * b.z := by
  simp only [dot3, mjuu_dot3]

/-- `mjuu_normvec(q, 4)` leaves a unit quaternion unchanged and returns 1 -/
theorem normvec4_unit (q : Q ℝ) (h : nsq q = 1) : normvec4 q = (q, 1) := by
  have hn : (((L 0 + q.w * q.w) + q.x * q.x) + q.y * q.y) + q.z * q.z = (1 : ℝ) := by
    simp only [L, real_ofInt]; push_cast; unfold nsq at h; linarith
  simp only [normvec4, hn, real_sqrt, Real.sqrt_one, real_abs]
  have h1 : ¬ ((1 : ℝ) < mjEPS) := not_lt.mpr (le_of_lt mjEPS_lt_one)
  have h2 : ¬ ((mjEPS : ℝ) < |1 - L 1|) := by
    simp only [L, real_ofInt]; push_cast; simp; exact le_of_lt mjEPS_pos
  rw [if_neg h1, if_neg h2]

/-- `mjuu_normvec(v, 3)` leaves a unit vector unchanged and returns 1 -/
theorem normvec3_unit (v : V3 ℝ) (h : nsq3 v = 1) : normvec3 v = (v, 1) := by
  have hn : ((L 0 + v.x * v.x) + v.y * v.y) + v.z * v.z = (1 : ℝ) := by
    simp only [L, real_ofInt]; push_cast; unfold nsq3 at h; linarith
  simp only [normvec3, hn, real_sqrt, Real.sqrt_one, real_abs]
  have h1 : ¬ ((1 : ℝ) < mjEPS) := not_lt.mpr (le_of_lt mjEPS_lt_one)
  have h2 : ¬ ((mjEPS : ℝ) < |1 - L 1|) := by
    simp only [L, real_ofInt]; push_cast; simp; exact le_of_lt mjEPS_pos
  rw [if_neg h1, if_neg h2]

theorem nsq_hamilton (a b : Q ℝ) : nsq (hamilton a b) = nsq a * nsq b := by
  simp only [nsq, hamilton]; ring

/-- on unit quaternions `mjuu_mulquat` is the Hamilton product -/
theorem mulquat_unit (a b : Q ℝ) (ha : nsq a = 1) (hb : nsq b = 1) : mulquat a b = hamilton a b := by
  have : nsq (hamilton a b) = 1 := by rw [nsq_hamilton, ha, hb]; norm_num
  simp only [mulquat, normvec4_unit _ this]

theorem nsq_mulquat (a b : Q ℝ) (ha : nsq a = 1) (hb : nsq b = 1) : nsq (mulquat a b) = 1 := by
  rw [mulquat_unit a b ha hb, nsq_hamilton, ha, hb]; norm_num

/-- `R(a ⊗ b) = R(a) R(b)` for the homogeneous rotation matrices (all quaternions) -/
theorem matF_hamilton (a b : Q ℝ) : matF (hamilton a b) = mulmat (matF a) (matF b) := by
  simp only [matF, hamilton, mulmat, M9.mk.injEq]
  comp_ring

theorem hamilton_assoc (a b c : Q ℝ) : hamilton (hamilton a b) c = hamilton a (hamilton b c) := by
  simp only [hamilton, Q.mk.injEq]
  comp_ring

/-- columns of the rotation matrix of a unit quaternion are orthonormal: `Rᵀ R = 1` -/
theorem matF_orthogonal (q : Q ℝ) (h : nsq q = 1) :
    mulmat (transposemat (matF q)) (matF q) = ⟨1, 0, 0, 0, 1, 0, 0, 0, 1⟩ := by
  have h2 : (q.w * q.w + q.x * q.x + q.y * q.y + q.z * q.z) ^ 2 = 1 := by
    unfold nsq at h; rw [h]; norm_num
  simp only [matF, transposemat, mulmat, M9.mk.injEq]
  refine ⟨?_, ?_, ?_, ?_, ?_, ?_, ?_, ?_, ?_⟩ <;> first | (linear_combination h2) | ring

end MjProof.Orient
