import MjProof.Lemmas.SparseD2S
/-
C23: `mju_transposeSparse` over ℝ (counting sort: counts, prefix sums, placement, shift back).
-/
namespace MjProof.Sparse
open MjNum Finset MjProof.LinAlg

variable {nr nc cap capT : Nat}

/-! ### counting -/
section
variable (p : Pat nr nc cap)

/-- column of the `t`-th stored entry of row `r` -/
def colT (r t : Nat) : Nat := nget p.colind (nget p.rowadr r + t)

/-- occurrences of column `c` among the first `m` entries of row `r` -/
def cntRow (r c m : Nat) : Nat := ∑ t ∈ range m, if colT p r t = c then 1 else 0

/-- occurrences of column `c` in the rows `< r` -/
def cntUpto (r c : Nat) : Nat := ∑ r' ∈ range r, cntRow p r' c (nget p.rownnz r')

/-- start of row `c` of the transpose -/
def trStart (c : Nat) : Nat := ∑ c' ∈ range c, cntUpto p nr c'

theorem cntRow_succ (r c m : Nat) : cntRow p r c (m + 1) = cntRow p r c m + (if colT p r m = c then 1 else 0) := by
  unfold cntRow; rw [Finset.sum_range_succ]

theorem cntUpto_succ (r c : Nat) : cntUpto p (r + 1) c = cntUpto p r c + cntRow p r c (nget p.rownnz r) := by
  unfold cntUpto; rw [Finset.sum_range_succ]

theorem trStart_succ (c : Nat) : trStart p (c + 1) = trStart p c + cntUpto p nr c := by
  unfold trStart; rw [Finset.sum_range_succ]

theorem trStart_mono {c c' : Nat} (h : c ≤ c') : trStart p c ≤ trStart p c' := by
  unfold trStart; exact Finset.sum_le_sum_of_subset (Finset.range_mono h)

theorem cntRow_mono (r c : Nat) {m m' : Nat} (h : m ≤ m') : cntRow p r c m ≤ cntRow p r c m' := by
  unfold cntRow; exact Finset.sum_le_sum_of_subset (Finset.range_mono h)

theorem cntUpto_mono (c : Nat) {r r' : Nat} (h : r ≤ r') : cntUpto p r c ≤ cntUpto p r' c := by
  unfold cntUpto; exact Finset.sum_le_sum_of_subset (Finset.range_mono h)

/-- entries processed so far never exceed the total of their column -/
theorem done_le (r c m : Nat) (hr : r < nr) (hm : m ≤ nget p.rownnz r) :
    cntUpto p r c + cntRow p r c m ≤ cntUpto p nr c := by
  have h1 := cntRow_mono p r c hm
  have h2 := cntUpto_succ p r c
  have h3 := cntUpto_mono p c (show r + 1 ≤ nr by omega)
  omega

/-- total number of stored entries -/
theorem trStart_total : trStart p nc = ∑ r ∈ range nr, nget p.rownnz r := by
  unfold trStart cntUpto
  rw [Finset.sum_comm]
  apply Finset.sum_congr rfl
  intro r hr; simp at hr
  unfold cntRow
  rw [Finset.sum_comm]
  have : ∀ t ∈ range (nget p.rownnz r), ∑ c ∈ range nc, (if colT p r t = c then 1 else 0) = 1 := by
    intro t ht; simp at ht
    have hc := p.colT_lt r hr t ht
    rw [Finset.sum_ite_eq]
    simp [colT, hc]
  rw [Finset.sum_congr rfl this]; simp

theorem adr_lt' (r : Nat) (hr : r < nr) (t : Nat) (ht : t < nget p.rownnz r) : nget p.rowadr r + t < cap := by
  have := p.hrow r hr
  rw [getElem_eq_nget, getElem_eq_nget] at this
  omega

/-- phase 1 computes the column counts -/
theorem trCount_spec : ∃ cnt, trCount p.rownnz p.rowadr p.colind 0 nc = some cnt ∧
    ∀ c, c < nc → nget cnt c = cntUpto p nr c := by
  unfold trCount
  refine loopM_inv nr _ _ (fun r (cnt : Vector Nat nc) => ∀ c, c < nc → nget cnt c = cntUpto p r c)
    (by intro c hc; simp [nget, hc, cntUpto]) ?_
  intro r hr cnt Q
  simp only [rd_some _ _ hr, Option.bind_eq_bind, Option.bind_some, Nat.not_lt_zero, if_false, Nat.sub_zero]
  obtain ⟨cnt', h1, h2⟩ := loopM_inv p.rownnz[r] (fun t cnt => trCountEntry p.colind (p.rowadr[r] + t) cnt) cnt
    (fun m (cnt' : Vector Nat nc) => ∀ c, c < nc → nget cnt' c = cntUpto p r c + cntRow p r c m)
    (by intro c hc; rw [Q c hc]; simp [cntRow])
    (by
      intro t ht cnt' Q'
      rw [getElem_eq_nget] at ht
      have hpos := adr_lt' p r hr t ht
      have hcol := p.colT_lt r hr t ht
      unfold trCountEntry
      rw [getElem_eq_nget]
      simp only [rd_some _ _ hpos, Option.bind_eq_bind, Option.bind_some]
      rw [getElem_eq_nget]
      simp only [rd_some _ _ hcol, Option.bind_some, wr_some _ _ _ hcol]
      refine ⟨_, rfl, ?_⟩
      intro c hc
      rw [nget_set, cntRow_succ, getElem_eq_nget]
      unfold colT
      by_cases e : c = nget p.colind (nget p.rowadr r + t)
      · rw [if_pos e, if_pos e.symm, ← e, Q' c hc]; omega
      · rw [if_neg e, if_neg (fun h => e h.symm), Q' c hc]; omega)
  refine ⟨cnt', h1, ?_⟩
  intro c hc
  rw [h2 c hc, cntUpto_succ, getElem_eq_nget]

/-- phase 2 computes the prefix sums -/
theorem trStarts_spec (hnc : 0 < nc) (cnt adr0 : Vector Nat nc) (hcnt : ∀ c, c < nc → nget cnt c = cntUpto p nr c)
    (h0 : nget adr0 0 = 0) :
    ∃ adr, trStarts cnt adr0 = some adr ∧ ∀ c, c < nc → nget adr c = trStart p c := by
  unfold trStarts
  obtain ⟨adr, h1, h2⟩ := loopM_inv (nc - 1) (fun t (adr : Vector Nat nc) => do
      let a ← rd adr t
      let n ← rd cnt t
      wr adr (t + 1) (a + n)) adr0
    (fun m (adr : Vector Nat nc) => ∀ c, c ≤ m → nget adr c = trStart p c)
    (by intro c hc; have : c = 0 := by omega
        subst this; rw [h0]; simp [trStart])
    (by
      intro t ht adr Q
      have ht1 : t < nc := by omega
      have ht2 : t + 1 < nc := by omega
      simp only [rd_some _ _ ht1, Option.bind_eq_bind, Option.bind_some, wr_some _ _ _ ht2]
      refine ⟨_, rfl, ?_⟩
      intro c hc
      rw [nget_set]
      by_cases e : c = t + 1
      · rw [if_pos e, e, trStart_succ, getElem_eq_nget, getElem_eq_nget, Q t le_rfl, hcnt t ht1]
      · rw [if_neg e]; exact Q c (by omega))
  exact ⟨adr, h1, fun c hc => h2 c (by omega)⟩

/-- phase 4 shifts the (advanced) row addresses back -/
theorem trShift_spec (hnc : 0 < nc) (adr : Vector Nat nc) (hadr : ∀ c, c < nc → nget adr c = trStart p (c + 1)) :
    ∃ adr', trShift adr = some adr' ∧ ∀ c, c < nc → nget adr' c = trStart p c := by
  unfold trShift
  obtain ⟨adr1, h1, h2⟩ := loopM_inv (nc - 1) (fun t (adr : Vector Nat nc) => do
      let i := nc - 1 - t
      let a ← rd adr (i - 1)
      wr adr i a) adr
    (fun m (adr1 : Vector Nat nc) => ∀ c, c < nc →
      nget adr1 c = if nc - m ≤ c then trStart p c else trStart p (c + 1))
    (by intro c hc; rw [if_neg (by omega)]; exact hadr c hc)
    (by
      intro t ht adr1 Q
      have hi1 : nc - 1 - t - 1 < nc := by omega
      have hi2 : nc - 1 - t < nc := by omega
      simp only [rd_some _ _ hi1, Option.bind_eq_bind, Option.bind_some, wr_some _ _ _ hi2]
      refine ⟨_, rfl, ?_⟩
      intro c hc
      rw [nget_set]
      by_cases e : c = nc - 1 - t
      · rw [if_pos e, if_pos (by omega), getElem_eq_nget, Q _ hi1, if_neg (by omega), e]
        congr 1; omega
      · rw [if_neg e, Q c hc]
        by_cases h : nc - t ≤ c
        · rw [if_pos h, if_pos (by omega)]
        · rw [if_neg h, if_neg (by omega)])
  rw [h1]
  simp only [Option.bind_eq_bind, Option.bind_some, wr_some _ _ _ hnc]
  refine ⟨_, rfl, ?_⟩
  intro c hc
  rw [nget_set]
  by_cases e : c = 0
  · rw [if_pos e, e]; simp [trStart]
  · rw [if_neg e, h2 c hc, if_pos (by omega)]

/-- entries of column `c` already placed when row `r` has been processed up to its entry `m` -/
def trDone (r m c : Nat) : Nat := cntUpto p r c + cntRow p r c m

/-- invariant of phase 3 -/
structure FillInv (mat : Vector ℝ cap) (r m : Nat) (st : Vector ℝ capT × Vector Nat capT × Vector Nat nc) : Prop where
  adr : ∀ c, c < nc → nget st.2.2 c = trStart p c + trDone p r m c
  part : ∀ c, c < nc → ∀ r', rawPart st.2.1 st.1 (trStart p c) (trDone p r m c) r'
    = (if r' < r then denseOf p mat r' c else 0) + (if r' = r then rowPart p mat r m c else 0)
  le : ∀ c, c < nc → ∀ k, k < trDone p r m c → nget st.2.1 (trStart p c + k) ≤ r
  lt : ∀ c, c < nc → ∀ k, k < trDone p r m c → nget st.2.1 (trStart p c + k) < nr
  mono : ∀ c, c < nc → ∀ k k', k < k' → k' < trDone p r m c →
    nget st.2.1 (trStart p c + k) ≤ nget st.2.1 (trStart p c + k')
  /-- the `k`-th entry of result row `c` is the input row in which the `k`-th occurrence of column `c` lies -/
  pos : ∀ c, c < nc → ∀ k, k < trDone p r m c →
    cntUpto p (nget st.2.1 (trStart p c + k)) c ≤ k ∧ k < cntUpto p (nget st.2.1 (trStart p c + k) + 1) c

theorem trFillEntry_step (mat : Vector ℝ cap) (hcapT : trStart p nc ≤ capT) (r : Nat) (hr : r < nr) (m : Nat)
    (hm : m < nget p.rownnz r) (st : Vector ℝ capT × Vector Nat capT × Vector Nat nc) (I : FillInv p mat r m st) :
    ∃ st', trFillEntry mat p.colind r (nget p.rowadr r + m) st = some st' ∧ FillInv p mat r (m + 1) st' := by
  obtain ⟨res, rcol, adr⟩ := st
  have hpos := adr_lt' p r hr m hm
  have hc0 : colT p r m < nc := p.colT_lt r hr m hm
  obtain ⟨c0, hc0def⟩ : ∃ c0, c0 = colT p r m := ⟨_, rfl⟩
  rw [← hc0def] at hc0
  have e3 : nget p.colind (nget p.rowadr r + m) = c0 := hc0def.symm
  have hdone1 : trDone p r (m + 1) c0 = trDone p r m c0 + 1 := by
    unfold trDone; rw [cntRow_succ, if_pos hc0def.symm]; omega
  have hdoneNe : ∀ c, c ≠ c0 → trDone p r (m + 1) c = trDone p r m c := by
    intro c hc; unfold trDone; rw [cntRow_succ, if_neg (fun h => hc (hc0def.trans h).symm)]; rfl
  have hle : ∀ c m', m' ≤ nget p.rownnz r → trDone p r m' c ≤ cntUpto p nr c := fun c m' h => done_le p r c m' hr h
  have had : nget adr c0 = trStart p c0 + trDone p r m c0 := I.adr c0 hc0
  have hadlt : nget adr c0 < capT := by
    have h1 := hle c0 (m + 1) (by omega)
    have h2 := trStart_succ p c0
    have h3 := trStart_mono p (show c0 + 1 ≤ nc by omega)
    omega
  -- positions already filled differ from the new one
  have hdisj : ∀ c, c < nc → ∀ k, k < trDone p r m c → trStart p c + k ≠ nget adr c0 := by
    intro c hc k hk
    rcases Nat.lt_trichotomy c c0 with h | h | h
    · have h1 := hle c m (by omega)
      have h2 := trStart_succ p c
      have h3 := trStart_mono p (show c + 1 ≤ c0 by omega)
      omega
    · subst h; omega
    · have h1 := hle c0 (m + 1) (by omega)
      have h2 := trStart_succ p c0
      have h3 := trStart_mono p (show c0 + 1 ≤ c by omega)
      omega
  have hres : trFillEntry mat p.colind r (nget p.rowadr r + m) (res, rcol, adr) = some
      (res.set (nget adr c0) (vget mat (nget p.rowadr r + m)) hadlt, rcol.set (nget adr c0) r hadlt,
        adr.set c0 (nget adr c0 + 1) hc0) := by
    unfold trFillEntry
    simp only [rd_some _ _ hpos, Option.bind_eq_bind, Option.bind_some]
    have e1 : p.colind[nget p.rowadr r + m] = c0 := by rw [getElem_eq_nget]; exact e3
    simp only [e1, rd_some _ _ hc0, Option.bind_some, wr_some _ _ _ hc0]
    have e2 : adr[c0] = nget adr c0 := getElem_eq_nget _ _ _
    simp only [e2, wr_some _ _ _ hadlt, Option.bind_some, getElem_eq_vget, Option.pure_def]
  rw [hres]
  refine ⟨_, rfl, ?_, ?_, ?_, ?_, ?_, ?_⟩
  · intro c hc
    show nget (adr.set c0 (nget adr c0 + 1) hc0) c = _
    rw [nget_set]
    by_cases e : c = c0
    · rw [if_pos e, e, hdone1, had]; omega
    · rw [if_neg e, hdoneNe c e]; exact I.adr c hc
  · intro c hc r'
    show rawPart (rcol.set (nget adr c0) r hadlt) (res.set (nget adr c0) _ hadlt) (trStart p c) _ r' = _
    have hold : rawPart (rcol.set (nget adr c0) r hadlt) (res.set (nget adr c0) (vget mat (nget p.rowadr r + m)) hadlt)
        (trStart p c) (trDone p r m c) r' = rawPart rcol res (trStart p c) (trDone p r m c) r' := by
      apply rawPart_congr
      intro k hk
      have := hdisj c hc k hk
      rw [nget_set, vget_set, if_neg this, if_neg this]
      exact ⟨rfl, rfl⟩
    by_cases e : c = c0
    · subst e
      rw [hdone1]
      unfold rawPart
      rw [Finset.sum_range_succ]
      have := hold
      unfold rawPart at this
      rw [this, ← had, nget_set, if_pos rfl, vget_set, if_pos rfl]
      have hp := I.part c hc r'
      unfold rawPart at hp
      rw [hp, rowPart_succ]
      rw [e3, if_pos rfl]
      split_ifs <;> first | ring1 | (exfalso; omega)
    · rw [hdoneNe c e, hold, I.part c hc r', rowPart_succ, e3]
      have : (if c0 = c then vget mat (nget p.rowadr r + m) else 0) = 0 := if_neg (fun h => e h.symm)
      rw [this, add_zero]
  · intro c hc k hk
    show nget (rcol.set (nget adr c0) r hadlt) (trStart p c + k) ≤ r
    rw [nget_set]
    by_cases e : trStart p c + k = nget adr c0
    · rw [if_pos e]
    · rw [if_neg e]
      by_cases ec : c = c0
      · subst ec
        rw [hdone1] at hk
        exact I.le c hc k (by omega)
      · rw [hdoneNe c ec] at hk
        exact I.le c hc k hk
  · intro c hc k hk
    show nget (rcol.set (nget adr c0) r hadlt) (trStart p c + k) < nr
    rw [nget_set]
    by_cases e : trStart p c + k = nget adr c0
    · rw [if_pos e]; exact hr
    · rw [if_neg e]
      by_cases ec : c = c0
      · subst ec
        rw [hdone1] at hk
        exact I.lt c hc k (by omega)
      · rw [hdoneNe c ec] at hk
        exact I.lt c hc k hk
  · intro c hc k k' hkk hk'
    show nget (rcol.set (nget adr c0) r hadlt) (trStart p c + k) ≤ nget (rcol.set (nget adr c0) r hadlt) (trStart p c + k')
    by_cases ec : c = c0
    · subst ec
      rw [hdone1] at hk'
      rw [nget_set, nget_set, if_neg (by omega)]
      by_cases e : k' = trDone p r m c
      · rw [if_pos (by omega)]; exact I.le c hc k (by omega)
      · rw [if_neg (by omega)]; exact I.mono c hc k k' hkk (by omega)
    · rw [hdoneNe c ec] at hk'
      rw [nget_set, nget_set, if_neg (hdisj c hc k (by omega)), if_neg (hdisj c hc k' hk')]
      exact I.mono c hc k k' hkk hk'
  · intro c hc k hk
    show cntUpto p (nget (rcol.set (nget adr c0) r hadlt) (trStart p c + k)) c ≤ k ∧
      k < cntUpto p (nget (rcol.set (nget adr c0) r hadlt) (trStart p c + k) + 1) c
    rw [nget_set]
    by_cases e : trStart p c + k = nget adr c0
    · rw [if_pos e]
      have ec : c = c0 := by
        by_contra ec
        rw [hdoneNe c ec] at hk
        exact hdisj c hc k hk e
      subst ec
      have hk0 : k = trDone p r m c := by omega
      have h1 := cntRow_mono p r c (show m + 1 ≤ nget p.rownnz r by omega)
      have h2 := cntUpto_succ p r c
      have h3 : cntRow p r c (m + 1) = cntRow p r c m + 1 := by rw [cntRow_succ, if_pos hc0def.symm]
      unfold trDone at hk0
      omega
    · rw [if_neg e]
      by_cases ec : c = c0
      · subst ec
        rw [hdone1] at hk
        exact I.pos c hc k (by omega)
      · rw [hdoneNe c ec] at hk
        exact I.pos c hc k hk

theorem FillInv.next (mat : Vector ℝ cap) (r : Nat) (st : Vector ℝ capT × Vector Nat capT × Vector Nat nc)
    (I : FillInv p mat r (nget p.rownnz r) st) : FillInv p mat (r + 1) 0 st := by
  have hd : ∀ c, trDone p (r + 1) 0 c = trDone p r (nget p.rownnz r) c := by
    intro c; unfold trDone; rw [cntUpto_succ]; simp [cntRow]
  refine ⟨?_, ?_, ?_, ?_, ?_, ?_⟩
  · intro c hc; rw [hd]; exact I.adr c hc
  · intro c hc r'
    rw [hd, I.part c hc r', rowPart_full]
    have : rowPart p mat (r + 1) 0 c = 0 := by simp [rowPart]
    rw [this]
    split_ifs <;> first | ring1 | (exfalso; omega) | (subst_vars; ring1)
  · intro c hc k hk; rw [hd] at hk; have := I.le c hc k hk; omega
  · intro c hc k hk; rw [hd] at hk; exact I.lt c hc k hk
  · intro c hc k k' hkk hk'; rw [hd] at hk'; exact I.mono c hc k k' hkk hk'
  · intro c hc k hk; rw [hd] at hk; exact I.pos c hc k hk

/-- phase 3 places every entry -/
theorem trFill_spec (mat : Vector ℝ cap) (hoff : nget p.rowadr 0 = 0) (hcapT : trStart p nc ≤ capT)
    (res0 : Vector ℝ capT) (rcol0 : Vector Nat capT) (adr : Vector Nat nc)
    (hadr : ∀ c, c < nc → nget adr c = trStart p c) :
    ∃ st, trFill mat p.rownnz p.rowadr p.colind 0 (res0, rcol0, adr) = some st ∧ FillInv p mat nr 0 st := by
  unfold trFill
  refine loopM_inv nr _ _ (fun r st => FillInv p mat r 0 st) ?_ ?_
  · refine ⟨?_, ?_, ?_, ?_, ?_, ?_⟩
    · intro c hc; rw [hadr c hc]; simp [trDone, cntUpto, cntRow]
    · intro c hc r'; simp [trDone, cntUpto, cntRow, rawPart, rowPart]
    · intro c hc k hk; simp [trDone, cntUpto, cntRow] at hk
    · intro c hc k hk; simp [trDone, cntUpto, cntRow] at hk
    · intro c hc k k' _ hk; simp [trDone, cntUpto, cntRow] at hk
    · intro c hc k hk; simp [trDone, cntUpto, cntRow] at hk
  · intro r hr st I
    simp only [rd_some _ _ hr, Option.bind_eq_bind, Option.bind_some, Nat.sub_zero]
    obtain ⟨st', h1, h2⟩ := loopM_inv p.rownnz[r] (fun t st => trFillEntry mat p.colind r (p.rowadr[r] + t) st) st
      (fun m st => FillInv p mat r m st) I
      (by
        intro m hm st' I'
        rw [getElem_eq_nget] at hm
        rw [getElem_eq_nget]
        exact trFillEntry_step p mat hcapT r hr m hm st' I')
    refine ⟨st', h1, ?_⟩
    rw [getElem_eq_nget] at h2
    exact h2.next p mat r st'

theorem transposeSparse_spec (mat : Vector ℝ cap) (hnr : 0 < nr) (hnc : 0 < nc) (hoff : nget p.rowadr 0 = 0)
    (hcapT : ∑ r ∈ range nr, nget p.rownnz r ≤ capT) (out : TrOut ℝ nc capT) :
    ∃ out', transposeSparse mat p.rownnz p.rowadr p.colind nc out = some out' ∧
      ∀ c, c < nc →
        nget out'.rownnz c = cntUpto p nr c ∧ nget out'.rowadr c = trStart p c ∧
        (∀ r', denseRaw out'.rownnz out'.rowadr out'.colind out'.res c r' = if r' < nr then denseOf p mat r' c else 0) ∧
        (∀ k, k < cntUpto p nr c → nget out'.colind (trStart p c + k) < nr) ∧
        (∀ k k', k < k' → k' < cntUpto p nr c →
          nget out'.colind (trStart p c + k) ≤ nget out'.colind (trStart p c + k')) ∧
        (∀ k, k < cntUpto p nr c → cntUpto p (nget out'.colind (trStart p c + k)) c ≤ k ∧
          k < cntUpto p (nget out'.colind (trStart p c + k) + 1) c) := by
  have hcap' : trStart p nc ≤ capT := by rw [trStart_total]; exact hcapT
  obtain ⟨cnt, hc1, hc2⟩ := trCount_spec p
  obtain ⟨adr, ha1, ha2⟩ := trStarts_spec p hnc cnt (out.rowadr.set 0 0 hnc) hc2 (by rw [nget_set, if_pos rfl])
  obtain ⟨st, hf1, F⟩ := trFill_spec p mat hoff hcap' out.res out.colind adr ha2
  have hd : ∀ c, trDone p nr 0 c = cntUpto p nr c := by intro c; simp [trDone, cntRow]
  obtain ⟨adr', hs1, hs2⟩ := trShift_spec p hnc st.2.2
    (by intro c hc; rw [F.adr c hc, hd, trStart_succ])
  have hoff' : p.rowadr[0] = 0 := by rw [getElem_eq_nget]; exact hoff
  refine ⟨{ res := st.1, rownnz := cnt, rowadr := adr', colind := st.2.1 }, ?_, ?_⟩
  · unfold transposeSparse
    rw [dif_neg (by omega)]
    simp only [hoff', hc1, ha1, hf1, hs1, Option.bind_eq_bind, Option.bind_some, Option.pure_def]
  · intro c hc
    refine ⟨hc2 c hc, hs2 c hc, ?_, ?_, ?_, ?_⟩
    · intro r'
      show denseRaw cnt adr' st.2.1 st.1 c r' = _
      rw [denseRaw_eq_rawPart, hs2 c hc, hc2 c hc, ← hd, F.part c hc r']
      have : rowPart p mat nr 0 c = 0 := by simp [rowPart]
      rw [this]
      split_ifs <;> first | ring1 | (exfalso; omega) | (subst_vars; ring1)
    · intro k hk; exact F.lt c hc k (by rw [hd]; exact hk)
    · intro k k' hkk hk'; exact F.mono c hc k k' hkk (by rw [hd]; exact hk')
    · intro k hk; exact F.pos c hc k (by rw [hd]; exact hk)

end
end MjProof.Sparse
