import MjProof.Lemmas.Sparse
/-
C23: `mju_mulSymVecSparse` over ℝ on symmetric lower-triangular storage.
-/
namespace MjProof.Sparse
open MjNum Finset MjProof.LinAlg

variable {n cap : Nat}

/-- symmetric lower-triangular storage: every row is non-empty, its last entry is the diagonal and the others
are strictly below it -/
structure SymStore (p : Pat n n cap) : Prop where
  pos : ∀ i, i < n → 0 < nget p.rownnz i
  diag : ∀ i, i < n → nget p.colind (nget p.rowadr i + (nget p.rownnz i - 1)) = i
  low : ∀ i, i < n → ∀ k, k < nget p.rownnz i - 1 → nget p.colind (nget p.rowadr i + k) < i

/-- one row of `mju_mulSymVecSparse` -/
theorem symRow_spec (p : Pat n n cap) (hs : SymStore p) (mat : Vector ℝ cap) (vec : Vector ℝ n) (i : Nat) (hi : i < n)
    (res : Vector ℝ n) (hnz : 0 < p.rownnz[i]) (a : Nat) :
    vget (forRangeRev 0 (p.rownnz[i] - 1) (fun k _ hk (res : Vector ℝ n) =>
          let j := p.col i hi k (by omega)
          have hj : j < n := p.col_lt i hi k (by omega)
          let v := p.val mat i hi k (by omega)
          let res := res.set i (res[i] + v * vec[j])
          res.set j (res[j] + v * vec[i]))
        (res.set i (p.val mat i hi (p.rownnz[i] - 1) (by omega) * vec[i]))) a
      = if a = i then ∑ c ∈ range n, denseOf p mat i c * vget vec c
        else vget res a + denseOf p mat i a * vget vec i := by
  have hK : p.rownnz[i] = nget p.rownnz i := getElem_eq_nget _ _ _
  set K := nget p.rownnz i with hKdef
  have hKpos : 0 < K := hs.pos i hi
  -- abbreviations for the stored entries
  let col := fun k => nget p.colind (nget p.rowadr i + k)
  let val := fun k => vget mat (nget p.rowadr i + k)
  have key := forRangeRev_inv (lo := 0) (hi := p.rownnz[i] - 1) (Nat.zero_le _)
    (s := res.set i (p.val mat i hi (p.rownnz[i] - 1) (by omega) * vec[i]))
    (body := fun k _ hk (res : Vector ℝ n) =>
          let j := p.col i hi k (by omega)
          have hj : j < n := p.col_lt i hi k (by omega)
          let v := p.val mat i hi k (by omega)
          let res := res.set i (res[i] + v * vec[j])
          res.set j (res[j] + v * vec[i]))
    (fun m r => ∀ a, vget r a =
      if a = i then val (K - 1) * vget vec i + ∑ k ∈ Ico m (K - 1), val k * vget vec (col k)
      else vget res a + ∑ k ∈ Ico m (K - 1), (if col k = a then val k else 0) * vget vec i)
    (by
      intro a
      rw [vget_set, p.val_eq, getElem_eq_vget]
      simp only [hK]
      by_cases e : a = i
      · rw [if_pos e, if_pos e]; simp [val, hKdef]
      · rw [if_neg e, if_neg e]; simp)
    (by
      intro k _ hk r R a
      rw [hK] at hk
      have hcol : p.col i hi k (by omega) = col k := p.col_eq i hi k (by omega)
      have hval : p.val mat i hi k (by omega) = val k := p.val_eq mat i hi k (by omega)
      have hlow : col k < i := hs.low i hi k hk
      dsimp only
      have hstep : vget ((r.set i (r[i] + p.val mat i hi k (by omega) * vec[p.col i hi k (by omega)]'(p.col_lt i hi k (by omega))) hi).set
            (p.col i hi k (by omega))
            ((r.set i (r[i] + p.val mat i hi k (by omega) * vec[p.col i hi k (by omega)]'(p.col_lt i hi k (by omega))) hi)[p.col i hi k (by omega)]'(p.col_lt i hi k (by omega))
              + p.val mat i hi k (by omega) * vec[i]) (p.col_lt i hi k (by omega))) a
          = if a = col k then vget r (col k) + val k * vget vec i
            else if a = i then vget r i + val k * vget vec (col k) else vget r a := by
        rw [vget_set]
        simp only [getElem_eq_vget, hcol, hval]
        by_cases e1 : a = col k
        · rw [if_pos e1, if_pos e1, vget_set, if_neg (by omega)]
        · rw [if_neg e1, if_neg e1, vget_set]
      have Ri : vget r i = val (K - 1) * vget vec i + ∑ k' ∈ Ico (k + 1) (K - 1), val k' * vget vec (col k') := by
        rw [R i, if_pos rfl]
      have Rc : vget r (col k) = vget res (col k)
          + ∑ k' ∈ Ico (k + 1) (K - 1), (if col k' = col k then val k' else 0) * vget vec i := by
        rw [R (col k), if_neg (by omega)]
      rw [hstep]
      by_cases e1 : a = col k
      · rw [if_pos e1, if_neg (by omega), Rc, e1,
          Finset.sum_eq_sum_Ico_succ_bot hk (fun k' => (if col k' = col k then val k' else 0) * vget vec i), if_pos rfl]
        ring
      · rw [if_neg e1]
        by_cases e2 : a = i
        · rw [if_pos e2, if_pos e2, Ri, Finset.sum_eq_sum_Ico_succ_bot hk (fun k => val k * vget vec (col k))]; ring
        · rw [if_neg e2, if_neg e2, R a, if_neg e2,
            Finset.sum_eq_sum_Ico_succ_bot hk (fun k' => (if col k' = a then val k' else 0) * vget vec i),
            if_neg (fun h => e1 h.symm)]
          ring)
  rw [key a]
  by_cases e : a = i
  · rw [if_pos e, if_pos e, ← row_sum_eq p mat (vget vec) i hi, ← hKdef]
    have hd : col (K - 1) = i := hs.diag i hi
    rw [show range K = Ico 0 K by simp, ← Finset.sum_Ico_consecutive _ (Nat.zero_le (K - 1)) (by omega : K - 1 ≤ K)]
    have : Ico (K - 1) K = {K - 1} := by
      ext x; simp; omega
    rw [this, Finset.sum_singleton]
    show val (K - 1) * vget vec i + _ = _ + val (K - 1) * vget vec (col (K - 1))
    rw [hd]; ring
  · rw [if_neg e, if_neg e]
    congr 1
    rw [← Finset.sum_mul]
    congr 1
    unfold denseOf denseRaw
    rw [← hKdef, show range K = Ico 0 K by simp,
      ← Finset.sum_Ico_consecutive _ (Nat.zero_le (K - 1)) (by omega : K - 1 ≤ K)]
    have : Ico (K - 1) K = {K - 1} := by
      ext x; simp; omega
    rw [this, Finset.sum_singleton]
    have hd : nget p.colind (nget p.rowadr i + (K - 1)) = i := hs.diag i hi
    rw [hd, if_neg (fun h => e h.symm), add_zero]

theorem SymStore.upper_zero (p : Pat n n cap) (hs : SymStore p) (mat : Vector ℝ cap) (i a : Nat) (hi : i < n)
    (ha : i < a) : denseOf p mat i a = 0 := by
  unfold denseOf denseRaw
  apply Finset.sum_eq_zero
  intro k hk; simp at hk
  rw [if_neg]
  intro e
  by_cases hk2 : k < nget p.rownnz i - 1
  · have := hs.low i hi k hk2; omega
  · have : k = nget p.rownnz i - 1 := by omega
    rw [this, hs.diag i hi] at e; omega

/-- `mju_mulSymVecSparse` on symmetric lower-triangular storage: `res = (D + strict_lower(D)ᵀ) vec` -/
theorem mulSymVecSparse_spec (p : Pat n n cap) (hs : SymStore p) (mat : Vector ℝ cap) (vec : Vector ℝ n) :
    ∃ res, mulSymVecSparse p mat vec = some res ∧ ∀ a, a < n →
      vget res a = ∑ c ∈ range n, denseOf p mat a c * vget vec c
        + ∑ r ∈ Ico (a + 1) n, denseOf p mat r a * vget vec r := by
  unfold mulSymVecSparse
  have key := fold_inv (n := n) (s := some (Vector.replicate n (lit 0 : ℝ)))
    (body := fun i hi (st : Option (Vector ℝ n)) => symStep p mat vec i hi st)
    (fun m st => ∃ res, st = some res ∧ ∀ a, a < n → vget res a =
      (if a < m then ∑ c ∈ range n, denseOf p mat a c * vget vec c else 0)
        + ∑ r ∈ range m, (if a < r then denseOf p mat r a * vget vec r else 0))
    ⟨_, rfl, by intro a ha; rw [vget_replicate]; simp [MjNum.lit]⟩
    (by
      intro i hi st ⟨res, hst, Q⟩
      subst hst
      have hnz : 0 < p.rownnz[i] := by rw [getElem_eq_nget]; exact hs.pos i hi
      unfold symStep
      simp only [dif_pos hnz]
      refine ⟨_, rfl, ?_⟩
      intro a ha
      rw [symRow_spec p hs mat vec i hi res hnz a, Finset.sum_range_succ]
      by_cases e : a = i
      · subst e
        rw [if_pos rfl, if_pos (by omega), if_neg (by omega), add_zero]
        have : ∑ r ∈ range a, (if a < r then denseOf p mat r a * vget vec r else 0) = 0 := by
          apply Finset.sum_eq_zero; intro r hr; simp at hr; rw [if_neg (by omega)]
        rw [this, add_zero]
      · rw [if_neg e, Q a ha]
        by_cases h : a < i
        · rw [if_pos h, if_pos (by omega), if_pos h]; ring
        · rw [if_neg h, if_neg (by omega), if_neg h, hs.upper_zero p mat i a hi (by omega)]; ring)
  obtain ⟨res, h1, h2⟩ := key
  refine ⟨res, h1, ?_⟩
  intro a ha
  rw [h2 a ha, if_pos ha]
  congr 1
  rw [Finset.range_eq_Ico, ← Finset.sum_Ico_consecutive _ (Nat.zero_le (a + 1)) (by omega : a + 1 ≤ n)]
  have : ∑ r ∈ Ico 0 (a + 1), (if a < r then denseOf p mat r a * vget vec r else 0) = 0 := by
    apply Finset.sum_eq_zero; intro r hr; rw [Finset.mem_Ico] at hr; rw [if_neg (by omega)]
  rw [this, zero_add]
  apply Finset.sum_congr rfl
  intro r hr; rw [Finset.mem_Ico] at hr
  rw [if_pos (by omega)]

end MjProof.Sparse
