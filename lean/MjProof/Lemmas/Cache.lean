import MjProof.Model.Cache
/-
Helper lemmas for the asset-cache model (C38): association-list facts, the invariant and its
preservation by every operation, loop invariants for RemoveModel / Reset(model) / Trim.
-/
namespace MjProof.Cache
open List

/-- 2^63: bound on byte counts / capacities under which `size_t` arithmetic does not wrap. -/
def HALF : Nat := 9223372036854775808

def sumSizes (as : List Asset) : Nat := (as.map (·.size)).sum

/-! ### size_t arithmetic without wrap-around -/

theorem wadd_eq {a b : Nat} (h : a + b < W) : wadd a b = a + b := by
  unfold wadd; simp [h]

theorem wsub_eq {a b : Nat} (hb : b ≤ a) : wsub a b = a - b := by
  unfold wsub; simp [hb]

/-! ### `lookup_` as an association list -/

theorem find_nil (id : Nat) : find [] id = none := rfl

theorem find_cons (a : Asset) (as : List Asset) (id : Nat) :
    find (a :: as) id = if a.id = id then some a else find as id := by
  unfold find
  by_cases h : a.id = id <;> simp [h]

theorem find_some {as : List Asset} {id : Nat} {a : Asset} (h : find as id = some a) :
    a ∈ as ∧ a.id = id := by
  induction as with
  | nil => simp [find_nil] at h
  | cons x xs ih =>
    rw [find_cons] at h
    by_cases hx : x.id = id
    · simp [hx] at h; subst h; exact ⟨by simp, hx⟩
    · simp [hx] at h; exact ⟨List.mem_cons_of_mem _ (ih h).1, (ih h).2⟩

theorem find_none {as : List Asset} {id : Nat} : find as id = none ↔ ∀ a ∈ as, a.id ≠ id := by
  induction as with
  | nil => simp [find_nil]
  | cons x xs ih =>
    rw [find_cons]
    by_cases hx : x.id = id
    · simp [hx]
    · simp [hx, ih]

theorem find_mem {as : List Asset} (hnd : (as.map (·.id)).Nodup) {a : Asset} (ha : a ∈ as) :
    find as a.id = some a := by
  induction as with
  | nil => simp at ha
  | cons x xs ih =>
    rw [find_cons]
    simp only [List.map_cons, List.nodup_cons] at hnd
    rcases List.mem_cons.mp ha with rfl | hm
    · simp
    · have : x.id ≠ a.id := by
        intro h; exact hnd.1 (h ▸ List.mem_map_of_mem hm)
      simp [this, ih hnd.2 hm]

theorem find_amap (as : List Asset) (id id' : Nat) (f : Asset → Asset) (hf : ∀ a, (f a).id = a.id) :
    find (amap as id f) id' = if id' = id then (find as id).map f else find as id' := by
  induction as with
  | nil => simp [amap, find_nil]
  | cons x xs ih =>
    have ih' : find (amap xs id f) id' = if id' = id then (find xs id).map f else find xs id' := ih
    show find ((if x.id = id then f x else x) :: amap xs id f) id' = _
    rw [find_cons, find_cons, find_cons, ih']
    by_cases h1 : x.id = id <;> by_cases h2 : id' = id
    · subst h2; simp [h1, hf]
    · have : ¬ id = id' := fun h => h2 h.symm
      simp [h1, h2, this, hf]
    · subst h2; simp [h1]
    · simp [h1, h2]

theorem find_aerase (as : List Asset) (id id' : Nat) :
    find (aerase as id) id' = if id' = id then none else find as id' := by
  induction as with
  | nil => simp [aerase, find_nil]
  | cons x xs ih =>
    have ih' : find (aerase xs id) id' = if id' = id then none else find xs id' := ih
    by_cases h1 : x.id = id
    · have : aerase (x :: xs) id = aerase xs id := by simp [aerase, h1]
      rw [this, ih', find_cons]
      by_cases h2 : id' = id
      · simp [h2]
      · have : ¬ x.id = id' := fun h => h2 (h ▸ h1)
        simp [h2, this]
    · have : aerase (x :: xs) id = x :: aerase xs id := by simp [aerase, h1]
      rw [this, find_cons, ih', find_cons]
      by_cases h2 : id' = id
      · subst h2; simp [h1]
      · simp [h2]

theorem find_append_single (as : List Asset) (a : Asset) (id' : Nat) :
    find (as ++ [a]) id' = match find as id' with
      | some x => some x
      | none => if a.id = id' then some a else none := by
  induction as with
  | nil => simp [find_cons, find_nil]
  | cons x xs ih =>
    rw [List.cons_append, find_cons, find_cons, ih]
    by_cases h : x.id = id' <;> simp [h]

theorem mem_aerase {as : List Asset} {id : Nat} {b : Asset} : b ∈ aerase as id ↔ b ∈ as ∧ b.id ≠ id := by
  simp [aerase]

theorem mem_amap {as : List Asset} {id : Nat} {f : Asset → Asset} {b : Asset} :
    b ∈ amap as id f ↔ ∃ a ∈ as, b = if a.id = id then f a else a := by
  simp [amap, eq_comm]

theorem ids_amap (as : List Asset) (id : Nat) (f : Asset → Asset) (hf : ∀ a, (f a).id = a.id) :
    (amap as id f).map (·.id) = as.map (·.id) := by
  induction as with
  | nil => rfl
  | cons x xs ih =>
    have ih' : (amap xs id f).map (·.id) = xs.map (·.id) := ih
    show (if x.id = id then f x else x).id :: (amap xs id f).map (·.id) = _
    rw [ih']; by_cases h : x.id = id <;> simp [h, hf]

theorem nums_amap (as : List Asset) (id : Nat) (f : Asset → Asset) (hf : ∀ a, (f a).insertNum = a.insertNum) :
    (amap as id f).map (·.insertNum) = as.map (·.insertNum) := by
  induction as with
  | nil => rfl
  | cons x xs ih =>
    have ih' : (amap xs id f).map (·.insertNum) = xs.map (·.insertNum) := ih
    show (if x.id = id then f x else x).insertNum :: (amap xs id f).map (·.insertNum) = _
    rw [ih']; by_cases h : x.id = id <;> simp [h, hf]

theorem length_amap (as : List Asset) (id : Nat) (f : Asset → Asset) : (amap as id f).length = as.length := by
  simp [amap]

theorem aerase_amap (as : List Asset) (id : Nat) (f : Asset → Asset) (hf : ∀ a, (f a).id = a.id) :
    aerase (amap as id f) id = aerase as id := by
  induction as with
  | nil => rfl
  | cons x xs ih =>
    have ih' : aerase (amap xs id f) id = aerase xs id := ih
    show aerase ((if x.id = id then f x else x) :: amap xs id f) id = _
    by_cases h : x.id = id
    · simp only [h, if_true]
      have e1 : aerase (f x :: amap xs id f) id = aerase (amap xs id f) id := by simp [aerase, hf, h]
      have e2 : aerase (x :: xs) id = aerase xs id := by simp [aerase, h]
      rw [e1, e2, ih']
    · simp only [h, if_false]
      have e1 : aerase (x :: amap xs id f) id = x :: aerase (amap xs id f) id := by simp [aerase, h]
      have e2 : aerase (x :: xs) id = x :: aerase xs id := by simp [aerase, h]
      rw [e1, e2, ih']

theorem aerase_sublist (as : List Asset) (id : Nat) : (aerase as id).Sublist as := by
  unfold aerase; exact List.filter_sublist

theorem length_aerase_lt {as : List Asset} {id : Nat} {a : Asset} (h : find as id = some a) :
    (aerase as id).length < as.length := by
  induction as with
  | nil => simp [find_nil] at h
  | cons x xs ih =>
    by_cases hx : x.id = id
    · have : aerase (x :: xs) id = aerase xs id := by simp [aerase, hx]
      rw [this]
      have := (aerase_sublist xs id).length_le
      simp; omega
    · have e : aerase (x :: xs) id = x :: aerase xs id := by simp [aerase, hx]
      rw [find_cons] at h; simp [hx] at h
      rw [e]; simp; exact ih h

/-! ### byte-count sums -/

theorem sumSizes_nil : sumSizes [] = 0 := rfl
theorem sumSizes_cons (a : Asset) (as : List Asset) : sumSizes (a :: as) = a.size + sumSizes as := by
  simp [sumSizes]

theorem sumSizes_append_single (as : List Asset) (a : Asset) : sumSizes (as ++ [a]) = sumSizes as + a.size := by
  simp [sumSizes]

theorem size_le_sumSizes {as : List Asset} {a : Asset} (h : a ∈ as) : a.size ≤ sumSizes as := by
  induction as with
  | nil => simp at h
  | cons x xs ih =>
    rw [sumSizes_cons]
    rcases List.mem_cons.mp h with rfl | hm
    · omega
    · have := ih hm; omega

theorem sumSizes_aerase {as : List Asset} (hnd : (as.map (·.id)).Nodup) {id : Nat} {a : Asset}
    (h : find as id = some a) : sumSizes (aerase as id) + a.size = sumSizes as := by
  induction as with
  | nil => simp [find_nil] at h
  | cons x xs ih =>
    simp only [List.map_cons, List.nodup_cons] at hnd
    rw [find_cons] at h
    by_cases hx : x.id = id
    · simp [hx] at h; subst h
      have hno : ∀ b ∈ xs, b.id ≠ id := by
        intro b hb hbid
        exact hnd.1 (by rw [hx, ← hbid]; exact List.mem_map_of_mem hb)
      have e : aerase (x :: xs) id = xs := by
        simp only [aerase, List.filter_cons, hx, bne_self_eq_false, Bool.false_eq_true, if_false]
        apply List.filter_eq_self.mpr
        intro b hb; simpa using hno b hb
      rw [e, sumSizes_cons]; omega
    · simp [hx] at h
      have e : aerase (x :: xs) id = x :: aerase xs id := by simp [aerase, hx]
      rw [e, sumSizes_cons, sumSizes_cons]
      have := ih hnd.2 h; omega

theorem sumSizes_amap {as : List Asset} (hnd : (as.map (·.id)).Nodup) {id : Nat} {a : Asset}
    (f : Asset → Asset) (h : find as id = some a) :
    sumSizes (amap as id f) + a.size = sumSizes as + (f a).size := by
  induction as with
  | nil => simp [find_nil] at h
  | cons x xs ih =>
    simp only [List.map_cons, List.nodup_cons] at hnd
    rw [find_cons] at h
    show sumSizes ((if x.id = id then f x else x) :: amap xs id f) + a.size = _
    by_cases hx : x.id = id
    · simp [hx] at h; subst h
      have hno : ∀ b ∈ xs, b.id ≠ id := by
        intro b hb hbid
        exact hnd.1 (by rw [hx, ← hbid]; exact List.mem_map_of_mem hb)
      have e : amap xs id f = xs := by
        unfold amap
        conv => rhs; rw [← List.map_id xs]
        apply List.map_congr_left
        intro b hb; simp [hno b hb]
      simp only [hx, if_true]
      rw [e, sumSizes_cons, sumSizes_cons]; omega
    · simp [hx] at h
      simp only [hx, if_false]
      rw [sumSizes_cons, sumSizes_cons]
      have := ih hnd.2 h; omega

theorem sumSizes_amap_same (as : List Asset) (id : Nat) (f : Asset → Asset) (hf : ∀ a, (f a).size = a.size) :
    sumSizes (amap as id f) = sumSizes as := by
  induction as with
  | nil => rfl
  | cons x xs ih =>
    have ih' : sumSizes (amap xs id f) = sumSizes xs := ih
    show sumSizes ((if x.id = id then f x else x) :: amap xs id f) = _
    rw [sumSizes_cons, sumSizes_cons, ih']
    by_cases h : x.id = id <;> simp [h, hf]

/-! ### sets -/

theorem mem_setInsert {x y : Nat} {l : List Nat} : y ∈ setInsert x l ↔ y = x ∨ y ∈ l := by
  unfold setInsert
  by_cases h : x ∈ l
  · simp [h]; intro e; exact e ▸ h
  · simp [h, or_comm]

theorem mem_setErase {x y : Nat} {l : List Nat} : y ∈ setErase x l ↔ y ∈ l ∧ y ≠ x := by
  simp [setErase]

theorem nodup_setInsert {x : Nat} {l : List Nat} (h : l.Nodup) : (setInsert x l).Nodup := by
  unfold setInsert
  by_cases hx : x ∈ l
  · simp [hx, h]
  · simp only [hx, if_false]
    exact List.nodup_append.mpr ⟨h, by simp, by intro a ha b hb; simp at hb; subst hb; intro e; exact hx (e ▸ ha)⟩

theorem nodup_setErase {x : Nat} {l : List Nat} (h : l.Nodup) : (setErase x l).Nodup :=
  h.sublist List.filter_sublist

theorem setErase_of_not_mem {x : Nat} {l : List Nat} (h : x ∉ l) : setErase x l = l := by
  unfold setErase
  apply List.filter_eq_self.mpr
  intro y hy; simp; intro e; exact h (e ▸ hy)

theorem setErase_idem (x : Nat) (l : List Nat) : setErase x (setErase x l) = setErase x l := by
  apply setErase_of_not_mem; simp [mem_setErase]

/-! ### `models_` -/

theorem msGet_nil (m : Nat) : msGet [] m = [] := rfl

theorem msGet_cons (p : Nat × List Nat) (ms : List (Nat × List Nat)) (m : Nat) :
    msGet (p :: ms) m = if p.1 = m then p.2 else msGet ms m := by
  unfold msGet
  by_cases h : p.1 = m <;> simp [h]

theorem hasKey_cons (p : Nat × List Nat) (ms : List (Nat × List Nat)) (m : Nat) :
    hasKey (p :: ms) m = (decide (p.1 = m) || hasKey ms m) := by
  by_cases h : p.1 = m <;> simp [hasKey, h]

theorem msGet_of_not_hasKey {ms : List (Nat × List Nat)} {m : Nat} (h : hasKey ms m = false) : msGet ms m = [] := by
  induction ms with
  | nil => rfl
  | cons p ps ih =>
    rw [hasKey_cons] at h
    simp at h
    rw [msGet_cons]; simp [h.1, ih h.2]

theorem msGet_mapKey (ms : List (Nat × List Nat)) (m m' : Nat) (g : List Nat → List Nat) :
    msGet (ms.map (fun p => if p.1 = m then (p.1, g p.2) else p)) m' =
      if m' = m ∧ hasKey ms m then g (msGet ms m) else msGet ms m' := by
  induction ms with
  | nil => simp [msGet_nil, hasKey]
  | cons p ps ih =>
    rw [List.map_cons, msGet_cons, ih, hasKey_cons, msGet_cons, msGet_cons]
    by_cases h1 : p.1 = m <;> by_cases h2 : m' = m
    · subst h2; simp [h1]
    · have : ¬ m = m' := fun h => h2 h.symm
      simp [h1, h2, this]
    · subst h2; simp [h1]
    · simp [h1, h2]

theorem msGet_append_single (ms : List (Nat × List Nat)) (q : Nat × List Nat) (m' : Nat) :
    msGet (ms ++ [q]) m' = if hasKey ms m' then msGet ms m' else if q.1 = m' then q.2 else [] := by
  induction ms with
  | nil => simp [msGet_cons, msGet_nil, hasKey]
  | cons p ps ih =>
    rw [List.cons_append, msGet_cons, ih, hasKey_cons, msGet_cons]
    by_cases h : p.1 = m' <;> simp [h]

theorem msGet_msInsert (ms : List (Nat × List Nat)) (m id m' : Nat) :
    msGet (msInsert ms m id) m' = if m' = m then setInsert id (msGet ms m) else msGet ms m' := by
  unfold msInsert
  by_cases hk : hasKey ms m = true
  · simp only [hk, if_true]
    rw [msGet_mapKey]
    by_cases h : m' = m <;> simp [h, hk]
  · have hk' : hasKey ms m = false := by simpa using hk
    simp only [hk', Bool.false_eq_true, if_false]
    rw [msGet_append_single]
    by_cases h : m' = m
    · subst h; simp [hk', msGet_of_not_hasKey hk', setInsert]
    · have : ¬ m = m' := fun e => h e.symm
      by_cases hk2 : hasKey ms m' = true
      · simp [h, hk2]
      · have hk2' : hasKey ms m' = false := by simpa using hk2
        simp [h, hk2', this, msGet_of_not_hasKey hk2']

theorem msGet_msErase (ms : List (Nat × List Nat)) (m id m' : Nat) :
    msGet (msErase ms m id) m' = if m' = m then setErase id (msGet ms m) else msGet ms m' := by
  unfold msErase
  by_cases hk : hasKey ms m = true
  · simp only [hk, if_true]
    rw [msGet_mapKey]
    by_cases h : m' = m <;> simp [h, hk]
  · have hk' : hasKey ms m = false := by simpa using hk
    simp only [hk', Bool.false_eq_true, if_false]
    rw [msGet_append_single]
    by_cases h : m' = m
    · subst h; simp [hk', msGet_of_not_hasKey hk', setErase]
    · have : ¬ m = m' := fun e => h e.symm
      by_cases hk2 : hasKey ms m' = true
      · simp [h, hk2]
      · have hk2' : hasKey ms m' = false := by simpa using hk2
        simp [h, hk2', this, msGet_of_not_hasKey hk2']

theorem msGet_msDrop (ms : List (Nat × List Nat)) (m m' : Nat) :
    msGet (msDrop ms m) m' = if m' = m then [] else msGet ms m' := by
  induction ms with
  | nil => simp [msDrop, msGet_nil]
  | cons p ps ih =>
    have ih' : msGet (msDrop ps m) m' = if m' = m then [] else msGet ps m' := ih
    by_cases h1 : p.1 = m
    · have e : msDrop (p :: ps) m = msDrop ps m := by simp [msDrop, h1]
      rw [e, ih', msGet_cons]
      by_cases h2 : m' = m
      · simp [h2]
      · have : ¬ p.1 = m' := fun h => h2 (h ▸ h1)
        simp [h2, this]
    · have e : msDrop (p :: ps) m = p :: msDrop ps m := by simp [msDrop, h1]
      rw [e, msGet_cons, ih', msGet_cons]
      by_cases h2 : m' = m
      · subst h2; simp [h1]
      · simp [h2]

/-- the loop of `Delete` over `references_`. -/
def eraseRefs (ms : List (Nat × List Nat)) (refs : List Nat) (skip : Option Nat) (id : Nat) : List (Nat × List Nat) :=
  refs.foldl (fun ms r => if some r = skip then ms else msErase ms r id) ms

theorem msGet_eraseRefs (refs : List Nat) (ms : List (Nat × List Nat)) (skip : Option Nat) (id m' : Nat) :
    msGet (eraseRefs ms refs skip id) m' =
      if m' ∈ refs ∧ some m' ≠ skip then setErase id (msGet ms m') else msGet ms m' := by
  induction refs generalizing ms with
  | nil => simp [eraseRefs]
  | cons r rs ih =>
    have e : eraseRefs ms (r :: rs) skip id = eraseRefs (if some r = skip then ms else msErase ms r id) rs skip id := rfl
    rw [e, ih]
    by_cases hs : some r = skip
    · simp only [hs, if_true]
      by_cases h : m' = r
      · subst h; simp [hs]
      · simp [h]
    · simp only [hs, if_false]
      rw [msGet_msErase]
      by_cases h : m' = r
      · subst h; simp [hs, setErase_idem]
      · simp [h]

/-! ### the invariant -/

/-- everything except the model/asset cross references and the capacity bound. -/
structure Base (c : Cache) : Prop where
  noub : c.ub = false
  size_eq : c.size = sumSizes c.assets
  size_lt : c.size < HALF
  cap_lt : c.capacity < HALF
  ids_nodup : (c.assets.map (·.id)).Nodup
  nums_nodup : (c.assets.map (·.insertNum)).Nodup
  nums_lt : ∀ a ∈ c.assets, a.insertNum < c.insertNum
  sets_nodup : ∀ m, (msGet c.models m).Nodup

/-- `models_[m]` lists asset `id`  iff  the asset stored under `id` lists `m` in `references_`. -/
def Consistent (c : Cache) : Prop :=
  ∀ m id, id ∈ msGet c.models m ↔ ∃ a, find c.assets id = some a ∧ m ∈ a.refs

structure Wf (c : Cache) : Prop where
  base : Base c
  cons : Consistent c

structure Inv (c : Cache) : Prop where
  wf : Wf c
  size_le : c.size ≤ c.capacity

theorem HALF_lt_W : HALF + HALF = W := by unfold HALF W; omega

theorem base_amap {c : Cache} (hb : Base c) (id : Nat) (f : Asset → Asset)
    (h1 : ∀ a, (f a).id = a.id) (h2 : ∀ a, (f a).insertNum = a.insertNum) (h3 : ∀ a, (f a).size = a.size) :
    Base { c with assets := amap c.assets id f } := by
  refine ⟨hb.noub, ?_, hb.size_lt, hb.cap_lt, ?_, ?_, ?_, hb.sets_nodup⟩
  · show c.size = sumSizes (amap c.assets id f)
    rw [sumSizes_amap_same _ _ _ h3]; exact hb.size_eq
  · show ((amap c.assets id f).map (·.id)).Nodup
    rw [ids_amap _ _ _ h1]; exact hb.ids_nodup
  · show ((amap c.assets id f).map (·.insertNum)).Nodup
    rw [nums_amap _ _ _ h2]; exact hb.nums_nodup
  · intro b hbm
    obtain ⟨a, ha, rfl⟩ := mem_amap.mp hbm
    have := hb.nums_lt a ha
    by_cases h : a.id = id <;> simp [h, h2] <;> exact this

theorem deleteCore_models (c : Cache) (a : Asset) (skip : Option Nat) :
    (deleteCore c a skip).models = eraseRefs c.models a.refs skip a.id := rfl

theorem base_deleteCore {c : Cache} (hb : Base c) {a : Asset} (ha : find c.assets a.id = some a)
    (skip : Option Nat) : Base (deleteCore c a skip) := by
  have hmem := (find_some ha).1
  have hle : a.size ≤ c.size := by rw [hb.size_eq]; exact size_le_sumSizes hmem
  have hlt := hb.size_lt
  have hsub : wsub c.size a.size = c.size - a.size := wsub_eq hle
  have hsum := sumSizes_aerase hb.ids_nodup ha
  refine ⟨hb.noub, ?_, ?_, hb.cap_lt, ?_, ?_, ?_, ?_⟩
  · show wsub c.size a.size = sumSizes (aerase c.assets a.id)
    rw [hsub, hb.size_eq]; omega
  · show wsub c.size a.size < HALF
    rw [hsub]; omega
  · exact hb.ids_nodup.sublist ((aerase_sublist _ _).map _)
  · exact hb.nums_nodup.sublist ((aerase_sublist _ _).map _)
  · intro b hbm; exact hb.nums_lt b (mem_aerase.mp hbm).1
  · intro m
    rw [deleteCore_models, msGet_eraseRefs]
    split
    · exact nodup_setErase (hb.sets_nodup m)
    · exact hb.sets_nodup m

theorem deleteCore_size {c : Cache} (hb : Base c) {a : Asset} (ha : find c.assets a.id = some a)
    (skip : Option Nat) : (deleteCore c a skip).size + a.size = c.size := by
  have hmem := (find_some ha).1
  have hle : a.size ≤ c.size := by rw [hb.size_eq]; exact size_le_sumSizes hmem
  have hlt := hb.size_lt
  have hsub : wsub c.size a.size = c.size - a.size := wsub_eq hle
  show wsub c.size a.size + a.size = c.size
  rw [hsub]; omega

/-- `Delete(asset)` keeps the cross references consistent. -/
theorem cons_deleteCore_none {c : Cache} (hc : Consistent c) {a : Asset} (ha : find c.assets a.id = some a) :
    Consistent (deleteCore c a none) := by
  intro m id
  rw [deleteCore_models, msGet_eraseRefs]
  show _ ↔ ∃ b, find (aerase c.assets a.id) id = some b ∧ m ∈ b.refs
  rw [find_aerase]
  by_cases hid : id = a.id
  · subst hid
    have := hc m a.id
    rw [ha] at this
    by_cases hm : m ∈ a.refs
    · simp [hm, mem_setErase]
    · simp [hm]; intro h; exact hm (by simpa using this.mp h)
  · have := hc m id
    by_cases hm : m ∈ a.refs
    · simp [hm, hid, mem_setErase, this]
    · simp [hm, hid, this]

theorem wf_deleteCore_none {c : Cache} (h : Wf c) {a : Asset} (ha : find c.assets a.id = some a) :
    Wf (deleteCore c a none) :=
  ⟨base_deleteCore h.base ha none, cons_deleteCore_none h.cons ha⟩

/-! ### Insert -/

theorem inv_insert {c : Cache} (h : Inv c) (m id ts d sz : Nat) (hsz : sz < HALF) :
    Inv (insert c m id ts d sz).1 := by
  have hb := h.wf.base
  have hc := h.wf.cons
  have hHW := HALF_lt_W
  have hsl := hb.size_lt
  unfold insert
  cases hf : find c.assets id with
  | none =>
    simp only []
    have hadd : wadd c.size sz = c.size + sz := wadd_eq (by omega)
    by_cases hcap : wadd c.size sz > c.capacity
    · simp only [hcap, if_true]; exact h
    · simp only [hcap, if_false]
      rw [hadd] at hcap ⊢
      have hcl := hb.cap_lt
      have hnone := find_none.mp hf
      refine ⟨⟨⟨hb.noub, ?_, ?_, hb.cap_lt, ?_, ?_, ?_, ?_⟩, ?_⟩, ?_⟩
      · show c.size + sz = sumSizes (c.assets ++ [_])
        rw [sumSizes_append_single, hb.size_eq]
      · show c.size + sz < HALF
        omega
      · show (List.map (fun (x : Asset) => x.id) (c.assets ++ [_])).Nodup
        rw [List.map_append]
        refine List.nodup_append.mpr ⟨hb.ids_nodup, by simp, ?_⟩
        intro x hx y hy
        simp at hy; subst hy
        obtain ⟨a, ha, rfl⟩ := List.mem_map.mp hx
        exact hnone a ha
      · show (List.map (fun (x : Asset) => x.insertNum) (c.assets ++ [_])).Nodup
        rw [List.map_append]
        refine List.nodup_append.mpr ⟨hb.nums_nodup, by simp, ?_⟩
        intro x hx y hy
        simp at hy; subst hy
        obtain ⟨a, ha, rfl⟩ := List.mem_map.mp hx
        exact Nat.ne_of_lt (hb.nums_lt a ha)
      · intro b hbm
        show b.insertNum < c.insertNum + 1
        rcases List.mem_append.mp hbm with hbm | hbm
        · have := hb.nums_lt b hbm; omega
        · simp at hbm; subst hbm; simp
      · intro m'
        show (msGet (msInsert c.models m id) m').Nodup
        rw [msGet_msInsert]
        split
        · exact nodup_setInsert (hb.sets_nodup m)
        · exact hb.sets_nodup m'
      · intro m' id'
        show id' ∈ msGet (msInsert c.models m id) m' ↔ ∃ b, find (c.assets ++ [_]) id' = some b ∧ m' ∈ b.refs
        rw [msGet_msInsert, find_append_single]
        have hcm := hc m' id'
        by_cases hid : id' = id
        · subst hid
          rw [hf] at hcm ⊢
          have hno : id' ∉ msGet c.models m' := by
            intro hmem; obtain ⟨a, ha, _⟩ := hcm.mp hmem; cases ha
          by_cases hm : m' = m
          · subst hm; simp [mem_setInsert]
          · simp [hm, hno]
        · have hid' : ¬ id = id' := fun e => hid e.symm
          by_cases hm : m' = m
          · subst hm
            cases hf' : find c.assets id' with
            | none => rw [hf'] at hcm; simp [mem_setInsert, hid, hid', hcm]
            | some x => rw [hf'] at hcm; simp [mem_setInsert, hid, hcm]
          · cases hf' : find c.assets id' with
            | none => rw [hf'] at hcm; simp [hm, hid', hcm]
            | some x => rw [hf'] at hcm; simp [hm, hcm]
      · show c.size + sz ≤ c.capacity
        omega
  | some a =>
    simp only []
    have hmem := (find_some hf).1
    have haid := (find_some hf).2
    have hle : a.size ≤ c.size := by rw [hb.size_eq]; exact size_le_sumSizes hmem
    have hsub : wsub c.size a.size = c.size - a.size := wsub_eq hle
    have hadd : wadd (wsub c.size a.size) sz = c.size - a.size + sz := by
      rw [hsub]; exact wadd_eq (by omega)
    by_cases hcap : wadd (wsub c.size a.size) sz > c.capacity
    · simp only [hcap, if_true]; exact h
    · simp only [hcap, if_false]
      rw [hadd] at hcap
      -- the cross references after `models_[m].insert(asset); asset->AddReference(m)`
      have hcons : ∀ (f : Asset → Asset), (∀ x, (f x).id = x.id) → (∀ x, (f x).refs = setInsert m x.refs) →
          ∀ m' id', id' ∈ msGet (msInsert c.models m id) m' ↔
            ∃ b, find (amap c.assets id f) id' = some b ∧ m' ∈ b.refs := by
        intro f hf1 hf2 m' id'
        rw [msGet_msInsert, find_amap _ _ _ _ hf1]
        have hcm := hc m' id'
        by_cases hid : id' = id
        · subst hid
          rw [hf] at hcm ⊢
          by_cases hm : m' = m
          · subst hm; simp [mem_setInsert, hf2]
          · simp [hm, hf2, mem_setInsert, hcm]
        · by_cases hm : m' = m
          · subst hm; simp [mem_setInsert, hid, hcm]
          · simp [hm, hid, hcm]
      have hsets : ∀ m', (msGet (msInsert c.models m id) m').Nodup := by
        intro m'
        rw [msGet_msInsert]
        split
        · exact nodup_setInsert (hb.sets_nodup m)
        · exact hb.sets_nodup m'
      by_cases hts : a.ts = ts
      · simp only [hts, if_true]
        have hb' := base_amap hb id (fun x => { x with refs := setInsert m x.refs })
          (fun _ => rfl) (fun _ => rfl) (fun _ => rfl)
        exact ⟨⟨⟨hb'.noub, hb'.size_eq, hb'.size_lt, hb'.cap_lt, hb'.ids_nodup, hb'.nums_nodup, hb'.nums_lt, hsets⟩,
          hcons _ (fun _ => rfl) (fun _ => rfl)⟩, h.size_le⟩
      · simp only [hts, if_false]
        rw [hadd]
        have hsum := sumSizes_amap hb.ids_nodup
          (fun x => { x with refs := setInsert m x.refs, ts := ts, size := sz, data := d }) hf
        simp only [] at hsum
        refine ⟨⟨⟨hb.noub, ?_, ?_, hb.cap_lt, ?_, ?_, ?_, hsets⟩, hcons _ (fun _ => rfl) (fun _ => rfl)⟩, ?_⟩
        · show c.size - a.size + sz = sumSizes (amap c.assets id _)
          have := hb.size_eq; omega
        · show c.size - a.size + sz < HALF
          have := hb.cap_lt; omega
        · dsimp only
          rw [ids_amap]
          · exact hb.ids_nodup
          · intro _; rfl
        · dsimp only
          rw [nums_amap]
          · exact hb.nums_nodup
          · intro _; rfl
        · intro b hbm
          obtain ⟨x, hx, rfl⟩ := mem_amap.mp hbm
          have := hb.nums_lt x hx
          by_cases hxi : x.id = id <;> simp [hxi] <;> exact this
        · show c.size - a.size + sz ≤ c.capacity
          omega

/-! ### PopulateData, DeleteAsset, Reset() -/

theorem cons_amap_refs {c : Cache} (hc : Consistent c) (id : Nat) (f : Asset → Asset)
    (h1 : ∀ a, (f a).id = a.id) (h2 : ∀ a, (f a).refs = a.refs) :
    Consistent { c with assets := amap c.assets id f } := by
  intro m id'
  show id' ∈ msGet c.models m ↔ ∃ b, find (amap c.assets id f) id' = some b ∧ m ∈ b.refs
  rw [find_amap _ _ _ _ h1, hc m id']
  by_cases hid : id' = id
  · subst hid
    cases hf : find c.assets id' <;> simp [h2]
  · simp [hid]

theorem inv_populate {c : Cache} (h : Inv c) (id : Nat) (rts : Option Nat) : Inv (populate c id rts).1 := by
  unfold populate
  cases hf : find c.assets id with
  | none => exact h
  | some a =>
    simp only []
    by_cases hm : isModified rts a.ts = true
    · simp only [hm, if_true]; exact h
    · simp only [hm]
      exact ⟨⟨base_amap h.wf.base id _ (fun _ => rfl) (fun _ => rfl) (fun _ => rfl),
        cons_amap_refs h.wf.cons id _ (fun _ => rfl) (fun _ => rfl)⟩, h.size_le⟩

theorem inv_deleteAsset {c : Cache} (h : Inv c) (id : Nat) : Inv (deleteAsset c id) := by
  unfold deleteAsset
  cases hf : find c.assets id with
  | none => exact h
  | some a =>
    simp only []
    have ha : find c.assets a.id = some a := by rw [(find_some hf).2]; exact hf
    refine ⟨wf_deleteCore_none h.wf ha, ?_⟩
    have := deleteCore_size h.wf.base ha none
    have := h.size_le
    show (deleteCore c a none).size ≤ c.capacity
    omega

theorem inv_resetAll {c : Cache} (h : Inv c) : Inv (resetAll c) := by
  have hb := h.wf.base
  refine ⟨⟨⟨hb.noub, rfl, ?_, hb.cap_lt, by simp [resetAll], by simp [resetAll], by simp [resetAll],
    by intro m; simp [resetAll, msGet_nil]⟩, ?_⟩, by simp [resetAll]⟩
  · show 0 < HALF
    unfold HALF; omega
  · intro m id
    simp [resetAll, msGet_nil, find_nil]

/-! ### Trim / SetCapacity -/

theorem minAsset_none {l : List Asset} : minAsset l = none ↔ l = [] := by
  cases l with
  | nil => simp [minAsset]
  | cons a rest =>
    simp only [minAsset]
    cases minAsset rest with
    | none => simp
    | some b => by_cases hk : keyLt b a = true <;> simp [hk]

theorem minAsset_mem {l : List Asset} {a : Asset} (h : minAsset l = some a) : a ∈ l := by
  induction l generalizing a with
  | nil => simp [minAsset] at h
  | cons x rest ih =>
    simp only [minAsset] at h
    cases hr : minAsset rest with
    | none => rw [hr] at h; simp at h; subst h; simp
    | some b =>
      rw [hr] at h
      by_cases hk : keyLt b x = true
      · simp [hk] at h; subst h; exact List.mem_cons_of_mem _ (ih hr)
      · simp [hk] at h; subst h; simp

theorem keyLt_iff (a b : Asset) :
    keyLt a b = true ↔ a.access < b.access ∨ (a.access = b.access ∧ a.insertNum < b.insertNum) := by
  unfold keyLt
  by_cases e : a.access = b.access
  · simp [e]
  · simp [e]

theorem keyLt_trans {a b c : Asset} (h1 : keyLt a b = true) (h2 : keyLt b c = true) : keyLt a c = true := by
  rw [keyLt_iff] at *; omega

theorem keyLt_of_not {a b : Asset} (h : ¬ keyLt b a = true) (hne : a.insertNum ≠ b.insertNum) : keyLt a b = true := by
  rw [keyLt_iff] at *; omega

theorem keyLt_irrefl (a : Asset) : ¬ keyLt a a = true := by
  rw [keyLt_iff]; omega

/-- `*entries_.begin()` is a lower bound of the `(access, insertNum)` order. -/
theorem minAsset_le {l : List Asset} {a : Asset} (h : minAsset l = some a) : ∀ b ∈ l, ¬ keyLt b a = true := by
  induction l generalizing a with
  | nil => simp
  | cons x rest ih =>
    simp only [minAsset] at h
    intro b hb
    cases hr : minAsset rest with
    | none =>
      rw [hr] at h; simp at h; subst h
      have : rest = [] := minAsset_none.mp hr
      subst this; simp at hb; subst hb
      exact keyLt_irrefl _
    | some m =>
      rw [hr] at h
      by_cases hk : keyLt m x = true
      · simp [hk] at h; subst h
        rcases List.mem_cons.mp hb with rfl | hb'
        · rw [keyLt_iff] at hk ⊢; omega
        · exact ih hr b hb'
      · simp [hk] at h; subst h
        rcases List.mem_cons.mp hb with rfl | hb'
        · exact keyLt_irrefl _
        · have := ih hr b hb'
          rw [keyLt_iff] at hk this ⊢; omega

theorem trimN_inv : ∀ (fuel : Nat) (c : Cache), Wf c → c.assets.length ≤ fuel → Inv (trimN fuel c) := by
  intro fuel
  induction fuel with
  | zero =>
    intro c h hlen
    have he : c.assets = [] := List.eq_nil_of_length_eq_zero (by omega)
    have hs : c.size = 0 := by rw [h.base.size_eq, he]; rfl
    have : ¬ c.size > c.capacity := by omega
    simp only [trimN, this, if_false]
    exact ⟨h, by omega⟩
  | succ n ih =>
    intro c h hlen
    simp only [trimN]
    by_cases hgt : c.size > c.capacity
    · simp only [hgt, if_true]
      cases hmin : minAsset c.assets with
      | none =>
        have he := minAsset_none.mp hmin
        have hs : c.size = 0 := by rw [h.base.size_eq, he]; rfl
        omega
      | some a =>
        simp only []
        have ha : find c.assets a.id = some a := find_mem h.base.ids_nodup (minAsset_mem hmin)
        apply ih _ (wf_deleteCore_none h ha)
        have := length_aerase_lt ha
        show (aerase c.assets a.id).length ≤ n
        omega
    · simp only [hgt, if_false]
      exact ⟨h, by omega⟩

theorem inv_setCapacity {c : Cache} (h : Inv c) (n : Nat) (hn : n < HALF) : Inv (setCapacity c n) := by
  unfold setCapacity trim
  apply trimN_inv _ _ _ (Nat.le_refl _)
  have hb := h.wf.base
  exact ⟨⟨hb.noub, hb.size_eq, hb.size_lt, hn, hb.ids_nodup, hb.nums_nodup, hb.nums_lt, hb.sets_nodup⟩, h.wf.cons⟩

/-! ### RemoveModel / Reset(model): loop invariant -/

/-- invariant of the loops over `models_[m]`; `pending` = elements not yet visited.  For the model
    `m` itself the table entry is not touched by the loop (`Delete(asset, skip = m)`), so consistency
    for `m` is stated against `pending`. -/
structure Loop (m : Nat) (pending : List Nat) (c : Cache) : Prop where
  base : Base c
  size_le : c.size ≤ c.capacity
  cons_other : ∀ m' id, m' ≠ m → (id ∈ msGet c.models m' ↔ ∃ a, find c.assets id = some a ∧ m' ∈ a.refs)
  cons_m1 : ∀ id a, find c.assets id = some a → m ∈ a.refs → id ∈ pending
  cons_m2 : ∀ id ∈ pending, ∃ a, find c.assets id = some a ∧ m ∈ a.refs
  nodup : pending.Nodup

theorem loop_init {c : Cache} (h : Inv c) (m : Nat) : Loop m (msGet c.models m) c := by
  refine ⟨h.wf.base, h.size_le, fun m' id _ => h.wf.cons m' id, ?_, ?_, h.wf.base.sets_nodup m⟩
  · intro id a hf hm; exact (h.wf.cons m id).mpr ⟨a, hf, hm⟩
  · intro id hid; exact (h.wf.cons m id).mp hid

theorem loop_final {c : Cache} {m : Nat} (h : Loop m [] c) : Inv { c with models := msDrop c.models m } := by
  have hb := h.base
  refine ⟨⟨⟨hb.noub, hb.size_eq, hb.size_lt, hb.cap_lt, hb.ids_nodup, hb.nums_nodup, hb.nums_lt, ?_⟩, ?_⟩, h.size_le⟩
  · intro m'
    show (msGet (msDrop c.models m) m').Nodup
    rw [msGet_msDrop]
    split
    · exact List.nodup_nil
    · exact hb.sets_nodup m'
  · intro m' id
    show id ∈ msGet (msDrop c.models m) m' ↔ ∃ a, find c.assets id = some a ∧ m' ∈ a.refs
    rw [msGet_msDrop]
    by_cases hm : m' = m
    · subst hm
      simp only [if_true, List.not_mem_nil, false_iff]
      rintro ⟨a, hf, hma⟩
      exact absurd (h.cons_m1 id a hf hma) (by simp)
    · simp only [hm, if_false]
      exact h.cons_other m' id hm

theorem loop_foldl {m : Nat} (stepf : Cache → Nat → Cache)
    (hstep : ∀ id rest c, Loop m (id :: rest) c → Loop m rest (stepf c id)) :
    ∀ (ids : List Nat) (c : Cache), Loop m ids c → Loop m [] (ids.foldl stepf c) := by
  intro ids
  induction ids with
  | nil => intro c h; exact h
  | cons id rest ih => intro c h; exact ih _ (hstep id rest c h)

theorem removeRefStep_eq {m : Nat} {c : Cache} {id : Nat} {a : Asset} (hf : find c.assets id = some a) :
    removeRefStep m c id =
      if (setErase m a.refs).isEmpty then
        deleteCore { c with assets := amap c.assets id (fun x => { x with refs := setErase m x.refs }) }
          { a with refs := setErase m a.refs } (some m)
      else { c with assets := amap c.assets id (fun x => { x with refs := setErase m x.refs }) } := by
  unfold removeRefStep
  rw [hf]

theorem loop_removeRefStep {m : Nat} (id : Nat) (rest : List Nat) (c : Cache) (h : Loop m (id :: rest) c) :
    Loop m rest (removeRefStep m c id) := by
  obtain ⟨a, hf, hma⟩ := h.cons_m2 id (by simp)
  have haid : a.id = id := (find_some hf).2
  have hnd := List.nodup_cons.mp h.nodup
  rw [removeRefStep_eq hf]
  have hb' := base_amap h.base id (fun x => { x with refs := setErase m x.refs })
    (fun _ => rfl) (fun _ => rfl) (fun _ => rfl)
  have hfind' : ∀ id', find (amap c.assets id (fun x => { x with refs := setErase m x.refs })) id' =
      if id' = id then some { a with refs := setErase m a.refs } else find c.assets id' := by
    intro id'
    rw [find_amap]
    · by_cases hid : id' = id
      · simp [hid, hf]
      · simp [hid]
    · intro _; rfl
  by_cases hemp : (setErase m a.refs).isEmpty = true
  · simp only [hemp, if_true]
    have hnil : setErase m a.refs = [] := List.isEmpty_iff.mp hemp
    have ha' : find (amap c.assets id (fun x => { x with refs := setErase m x.refs }))
        ({ a with refs := setErase m a.refs } : Asset).id = some { a with refs := setErase m a.refs } := by
      rw [hfind']; simp [haid]
    have hbd := base_deleteCore hb' ha' (some m)
    have hsz := deleteCore_size hb' ha' (some m)
    have hassets : (deleteCore { c with assets := amap c.assets id (fun x => { x with refs := setErase m x.refs }) }
        { a with refs := setErase m a.refs } (some m)).assets = aerase c.assets id := by
      show aerase (amap c.assets id _) a.id = aerase c.assets id
      rw [haid, aerase_amap]
      intro _; rfl
    have hmodels : ∀ m', msGet (deleteCore { c with assets := amap c.assets id (fun x => { x with refs := setErase m x.refs }) }
        { a with refs := setErase m a.refs } (some m)).models m' = msGet c.models m' := by
      intro m'
      rw [deleteCore_models, msGet_eraseRefs]
      simp [hnil]
    refine ⟨hbd, ?_, ?_, ?_, ?_, hnd.2⟩
    · have := h.size_le
      have e : ({ c with assets := amap c.assets id (fun x => { x with refs := setErase m x.refs }) } : Cache).size = c.size := rfl
      have e2 : (deleteCore { c with assets := amap c.assets id (fun x => { x with refs := setErase m x.refs }) }
        { a with refs := setErase m a.refs } (some m)).capacity = c.capacity := rfl
      rw [e] at hsz; rw [e2]; omega
    · intro m' id' hm'
      rw [hmodels, hassets, find_aerase]
      by_cases hid : id' = id
      · subst hid
        simp only [if_true]
        constructor
        · intro hmem
          obtain ⟨a0, ha0, hm0⟩ := (h.cons_other m' id' hm').mp hmem
          rw [hf] at ha0; cases ha0
          have : m' ∈ setErase m a.refs := mem_setErase.mpr ⟨hm0, hm'⟩
          rw [hnil] at this; simp at this
        · rintro ⟨b, hb0, _⟩; cases hb0
      · simp only [hid, if_false]
        exact h.cons_other m' id' hm'
    · intro id' b hfb hmb
      rw [hassets, find_aerase] at hfb
      by_cases hid : id' = id
      · simp [hid] at hfb
      · simp only [hid, if_false] at hfb
        have := h.cons_m1 id' b hfb hmb
        simpa [hid] using this
    · intro id' hid'
      have hne : id' ≠ id := fun e => hnd.1 (e ▸ hid')
      obtain ⟨b, hfb, hmb⟩ := h.cons_m2 id' (List.mem_cons_of_mem _ hid')
      exact ⟨b, by rw [hassets, find_aerase]; simp [hne, hfb], hmb⟩
  · simp only [hemp]
    refine ⟨hb', h.size_le, ?_, ?_, ?_, hnd.2⟩
    · intro m' id' hm'
      show id' ∈ msGet c.models m' ↔ ∃ b, find (amap c.assets id _) id' = some b ∧ m' ∈ b.refs
      rw [hfind', h.cons_other m' id' hm']
      by_cases hid : id' = id
      · subst hid
        simp [hf, mem_setErase, hm']
      · simp [hid]
    · intro id' b hfb hmb
      have hfb' : find (amap c.assets id (fun x => { x with refs := setErase m x.refs })) id' = some b := hfb
      rw [hfind'] at hfb'
      by_cases hid : id' = id
      · simp [hid] at hfb'; subst hfb'
        simp [mem_setErase] at hmb
      · simp only [hid, if_false] at hfb'
        have := h.cons_m1 id' b hfb' hmb
        simpa [hid] using this
    · intro id' hid'
      have hne : id' ≠ id := fun e => hnd.1 (e ▸ hid')
      obtain ⟨b, hfb, hmb⟩ := h.cons_m2 id' (List.mem_cons_of_mem _ hid')
      refine ⟨b, ?_, hmb⟩
      show find (amap c.assets id _) id' = some b
      rw [hfind']; simp [hne, hfb]

theorem inv_removeModel {c : Cache} (h : Inv c) (m : Nat) : Inv (removeModel c m) := by
  unfold removeModel
  exact loop_final (loop_foldl _ loop_removeRefStep _ _ (loop_init h m))

theorem loop_resetStep {m : Nat} (id : Nat) (rest : List Nat) (c : Cache) (h : Loop m (id :: rest) c) :
    Loop m rest (resetStep m c id) := by
  obtain ⟨a, hf, hma⟩ := h.cons_m2 id (by simp)
  have haid : a.id = id := (find_some hf).2
  have hnd := List.nodup_cons.mp h.nodup
  have ha : find c.assets a.id = some a := by rw [haid]; exact hf
  have hstep : resetStep m c id = deleteCore c a (some m) := by unfold resetStep; rw [hf]
  rw [hstep]
  have hsz := deleteCore_size h.base ha (some m)
  have hassets : (deleteCore c a (some m)).assets = aerase c.assets id := by
    show aerase c.assets a.id = _; rw [haid]
  refine ⟨base_deleteCore h.base ha (some m), ?_, ?_, ?_, ?_, hnd.2⟩
  · have := h.size_le
    have e2 : (deleteCore c a (some m)).capacity = c.capacity := rfl
    rw [e2]; omega
  · intro m' id' hm'
    rw [deleteCore_models, msGet_eraseRefs, hassets, find_aerase]
    have hsk : some m' ≠ some m := by simpa using hm'
    by_cases hid : id' = id
    · subst hid
      simp only [if_true]
      constructor
      · intro hmem
        by_cases hr : m' ∈ a.refs
        · simp [hr, hsk, mem_setErase, haid] at hmem
        · simp only [hr, false_and, if_false] at hmem
          obtain ⟨a0, ha0, hm0⟩ := (h.cons_other m' id' hm').mp hmem
          rw [hf] at ha0; cases ha0
          exact absurd hm0 hr
      · rintro ⟨b, hb0, _⟩; cases hb0
    · simp only [hid, if_false]
      rw [← h.cons_other m' id' hm']
      by_cases hr : m' ∈ a.refs
      · simp [hr, hsk, mem_setErase, haid, hid]
      · simp [hr]
  · intro id' b hfb hmb
    rw [hassets, find_aerase] at hfb
    by_cases hid : id' = id
    · simp [hid] at hfb
    · simp only [hid, if_false] at hfb
      have := h.cons_m1 id' b hfb hmb
      simpa [hid] using this
  · intro id' hid'
    have hne : id' ≠ id := fun e => hnd.1 (e ▸ hid')
    obtain ⟨b, hfb, hmb⟩ := h.cons_m2 id' (List.mem_cons_of_mem _ hid')
    exact ⟨b, by rw [hassets, find_aerase]; simp [hne, hfb], hmb⟩

theorem inv_resetModel {c : Cache} (h : Inv c) (m : Nat) : Inv (resetModel c m) := by
  unfold resetModel
  exact loop_final (loop_foldl _ loop_resetStep _ _ (loop_init h m))

/-! ### every operation, every history -/

/-- precondition on an operation: byte counts and capacities stay below 2^63 (no `size_t` wrap). -/
def OpOk : Op → Prop
  | .insert _ _ _ _ sz => sz < HALF
  | .setCapacity n => n < HALF
  | _ => True

theorem inv_empty' {cap : Nat} (h : cap < HALF) : Inv (empty cap) := by
  refine ⟨⟨⟨rfl, rfl, ?_, h, by simp [empty], by simp [empty], by simp [empty], by intro m; simp [empty, msGet_nil]⟩, ?_⟩,
    by simp [empty]⟩
  · show 0 < HALF
    unfold HALF; omega
  · intro m id; simp [empty, msGet_nil, find_nil]

theorem inv_step' {c : Cache} (h : Inv c) (op : Op) (hop : OpOk op) : Inv (step c op).1 := by
  cases op with
  | insert m id ts d sz => exact inv_insert h m id ts d sz hop
  | populate id rts => exact inv_populate h id rts
  | hasAsset id => exact h
  | deleteAsset id => exact inv_deleteAsset h id
  | removeModel m => exact inv_removeModel h m
  | resetModel m => exact inv_resetModel h m
  | resetAll => exact inv_resetAll h
  | setCapacity n => exact inv_setCapacity h n hop

theorem inv_run' : ∀ (ops : List Op) (c : Cache), Inv c → (∀ op ∈ ops, OpOk op) → Inv (run c ops) := by
  intro ops
  induction ops with
  | nil => intro c h _; exact h
  | cons op rest ih =>
    intro c h hok
    show Inv (run (step c op).1 rest)
    exact ih _ (inv_step' h op (hok op (by simp))) (fun o ho => hok o (List.mem_cons_of_mem _ ho))

/-! ### lookups return the most recently stored data -/

/-- no operation other than a storing insert creates or alters the `(timestamp, data)` of an asset. -/
def Keeps (c c' : Cache) : Prop :=
  ∀ id a', find c'.assets id = some a' → ∃ a, find c.assets id = some a ∧ a.ts = a'.ts ∧ a.data = a'.data

theorem keeps_refl (c : Cache) : Keeps c c := fun _ a' h => ⟨a', h, rfl, rfl⟩

theorem keeps_trans {c1 c2 c3 : Cache} (h12 : Keeps c1 c2) (h23 : Keeps c2 c3) : Keeps c1 c3 := by
  intro id a3 h3
  obtain ⟨a2, h2, e1, e2⟩ := h23 id a3 h3
  obtain ⟨a1, h1, e3, e4⟩ := h12 id a2 h2
  exact ⟨a1, h1, e3.trans e1, e4.trans e2⟩

theorem keeps_of_assets_eq {c c' : Cache} (h : c'.assets = c.assets) : Keeps c c' := by
  intro id a' hf; rw [h] at hf; exact ⟨a', hf, rfl, rfl⟩

theorem keeps_amap (c c' : Cache) (id : Nat) (f : Asset → Asset) (h : c'.assets = amap c.assets id f)
    (h1 : ∀ a, (f a).id = a.id) (h2 : ∀ a, (f a).ts = a.ts) (h3 : ∀ a, (f a).data = a.data) : Keeps c c' := by
  intro id' a' hf
  rw [h, find_amap _ _ _ _ h1] at hf
  by_cases hid : id' = id
  · subst hid
    simp only [if_true] at hf
    cases hfa : find c.assets id' with
    | none => rw [hfa] at hf; simp at hf
    | some a => rw [hfa] at hf; simp at hf; subst hf; exact ⟨a, rfl, (h2 a).symm, (h3 a).symm⟩
  · simp only [hid, if_false] at hf
    exact ⟨a', hf, rfl, rfl⟩

theorem keeps_deleteCore (c : Cache) (a : Asset) (skip : Option Nat) : Keeps c (deleteCore c a skip) := by
  intro id a' hf
  have hf' : find (aerase c.assets a.id) id = some a' := hf
  rw [find_aerase] at hf'
  by_cases hid : id = a.id
  · simp [hid] at hf'
  · simp only [hid, if_false] at hf'
    exact ⟨a', hf', rfl, rfl⟩

theorem keeps_foldl (stepf : Cache → Nat → Cache) (hs : ∀ c x, Keeps c (stepf c x)) :
    ∀ (l : List Nat) (c : Cache), Keeps c (l.foldl stepf c) := by
  intro l
  induction l with
  | nil => intro c; exact keeps_refl c
  | cons x xs ih => intro c; exact keeps_trans (hs c x) (ih _)

theorem keeps_trimN : ∀ (fuel : Nat) (c : Cache), Keeps c (trimN fuel c) := by
  intro fuel
  induction fuel with
  | zero =>
    intro c; simp only [trimN]
    split
    · exact keeps_of_assets_eq rfl
    · exact keeps_refl c
  | succ n ih =>
    intro c; simp only [trimN]
    split
    · cases minAsset c.assets with
      | none => exact keeps_of_assets_eq rfl
      | some a => exact keeps_trans (keeps_deleteCore c a none) (ih _)
    · exact keeps_refl c

theorem keeps_removeRefStep (m : Nat) (c : Cache) (id : Nat) : Keeps c (removeRefStep m c id) := by
  cases hf : find c.assets id with
  | none =>
    have : removeRefStep m c id = { c with ub := true } := by unfold removeRefStep; rw [hf]
    rw [this]; exact keeps_of_assets_eq rfl
  | some a =>
    rw [removeRefStep_eq hf]
    have h1 : Keeps c { c with assets := amap c.assets id (fun x => { x with refs := setErase m x.refs }) } :=
      keeps_amap c _ id _ rfl (fun _ => rfl) (fun _ => rfl) (fun _ => rfl)
    split
    · exact keeps_trans h1 (keeps_deleteCore _ _ _)
    · exact h1

theorem keeps_resetStep (m : Nat) (c : Cache) (id : Nat) : Keeps c (resetStep m c id) := by
  unfold resetStep
  cases find c.assets id with
  | none => exact keeps_of_assets_eq rfl
  | some a => exact keeps_deleteCore c a (some m)

/-- the asset is absent or cached with a timestamp different from `ts`. -/
def isNewVersion (c : Cache) (id ts : Nat) : Bool :=
  match find c.assets id with
  | none => true
  | some a => a.ts != ts

/-- `some (ts, data)` if `op` is an `Insert` of asset `id` that stores its payload: it is accepted and
    the asset is absent or cached with a different timestamp (otherwise the cached data is kept). -/
def storesFor (c : Cache) (op : Op) (id : Nat) : Option (Nat × Nat) :=
  match op with
  | .insert m id' ts d sz =>
    if id' = id ∧ (insert c m id' ts d sz).2 = true ∧ isNewVersion c id' ts = true then some (ts, d) else none
  | _ => none

theorem storesFor_insert_some {c : Cache} {m id' ts d sz id t dd : Nat} :
    storesFor c (.insert m id' ts d sz) id = some (t, dd) ↔
      (id' = id ∧ (insert c m id' ts d sz).2 = true ∧ isNewVersion c id' ts = true) ∧ ts = t ∧ d = dd := by
  simp only [storesFor]
  by_cases hc : id' = id ∧ (insert c m id' ts d sz).2 = true ∧ isNewVersion c id' ts = true
  · rw [if_pos hc]
    obtain ⟨h1, h2, h3⟩ := hc
    subst h1; simp [h2, h3]
  · rw [if_neg hc]; simp [hc]

theorem storesFor_insert_none {c : Cache} {m id' ts d sz id : Nat} :
    storesFor c (.insert m id' ts d sz) id = none ↔
      ¬ (id' = id ∧ (insert c m id' ts d sz).2 = true ∧ isNewVersion c id' ts = true) := by
  simp only [storesFor]
  by_cases hc : id' = id ∧ (insert c m id' ts d sz).2 = true ∧ isNewVersion c id' ts = true
  · rw [if_pos hc]
    obtain ⟨h1, h2, h3⟩ := hc
    subst h1; simp [h2, h3]
  · rw [if_neg hc]; simp [hc]

/-- the `(timestamp, data)` stored by the most recent storing insert of `id` in the history `ops`
    executed from state `c` (the suffix is searched first). -/
def lastStore (c : Cache) : List Op → Nat → Option (Nat × Nat)
  | [], _ => none
  | op :: rest, id =>
    match lastStore (step c op).1 rest id with
    | some x => some x
    | none => storesFor c op id

theorem step_stores {c : Cache} {op : Op} {id ts d : Nat} (h : storesFor c op id = some (ts, d)) :
    ∃ a', find (step c op).1.assets id = some a' ∧ a'.ts = ts ∧ a'.data = d := by
  cases op with
  | insert m id' ts' d' sz =>
    obtain ⟨⟨hid, hacc, hnew⟩, rfl, rfl⟩ := storesFor_insert_some.mp h
    subst hid
    show ∃ a', find (insert c m id' ts' d' sz).1.assets id' = some a' ∧ _
    unfold isNewVersion at hnew
    unfold insert at hacc ⊢
    cases hf : find c.assets id' with
    | none =>
      rw [hf] at hacc; simp only [] at hacc ⊢
      by_cases hcap : wadd c.size sz > c.capacity
      · simp [hcap] at hacc
      · simp only [hcap, if_false]
        refine ⟨{ id := id', ts := ts', insertNum := c.insertNum, access := 0, size := sz, data := d', refs := [m] },
          ?_, rfl, rfl⟩
        show find (c.assets ++ [_]) id' = _
        rw [find_append_single, hf]; simp
    | some a =>
      rw [hf] at hacc hnew; simp only [] at hacc hnew ⊢
      have hts : ¬ a.ts = ts' := by simpa using hnew
      by_cases hcap : wadd (wsub c.size a.size) sz > c.capacity
      · simp [hcap] at hacc
      · simp only [hcap, if_false, hts]
        refine ⟨{ a with refs := setInsert m a.refs, ts := ts', size := sz, data := d' }, ?_, rfl, rfl⟩
        show find (amap c.assets id' _) id' = _
        rw [find_amap]
        · simp [hf]
        · intro _; rfl
  | _ => simp [storesFor] at h

theorem step_keeps {c : Cache} {op : Op} {id : Nat} (h : storesFor c op id = none) {a' : Asset}
    (hf' : find (step c op).1.assets id = some a') :
    ∃ a, find c.assets id = some a ∧ a.ts = a'.ts ∧ a.data = a'.data := by
  cases op with
  | insert m id' ts d sz =>
    have h := storesFor_insert_none.mp h
    have hf2 : find (insert c m id' ts d sz).1.assets id = some a' := hf'
    unfold isNewVersion at h
    unfold insert at h hf2
    cases hf : find c.assets id' with
    | none =>
      rw [hf] at h hf2; simp only [] at h hf2
      by_cases hcap : wadd c.size sz > c.capacity
      · simp only [hcap, if_true] at hf2
        exact ⟨a', hf2, rfl, rfl⟩
      · simp only [hcap, if_false] at hf2 h
        have hne : ¬ id' = id := by
          intro e; simp [e] at h
        have hf3 : find (c.assets ++ [_]) id = some a' := hf2
        rw [find_append_single] at hf3
        cases hfi : find c.assets id with
        | none => rw [hfi] at hf3; simp [hne] at hf3
        | some x => rw [hfi] at hf3; simp at hf3; subst hf3; exact ⟨x, rfl, rfl, rfl⟩
    | some a =>
      rw [hf] at h hf2; simp only [] at h hf2
      by_cases hcap : wadd (wsub c.size a.size) sz > c.capacity
      · simp only [hcap, if_true] at hf2
        exact ⟨a', hf2, rfl, rfl⟩
      · simp only [hcap, if_false] at hf2 h
        by_cases hts : a.ts = ts
        · simp only [hts, if_true] at hf2
          exact keeps_amap c { c with assets := amap c.assets id' (fun x => { x with refs := setInsert m x.refs }) }
            id' _ rfl (fun _ => rfl) (fun _ => rfl) (fun _ => rfl) id a' hf2
        · simp only [hts, if_false] at hf2
          have hne : ¬ id' = id := by
            intro e; simp [e, hts] at h
          have hf3 : find (amap c.assets id' (fun x =>
            { x with refs := setInsert m x.refs, ts := ts, size := sz, data := d })) id = some a' := hf2
          rw [find_amap] at hf3
          · have : ¬ id = id' := fun e => hne e.symm
            simp only [this, if_false] at hf3
            exact ⟨a', hf3, rfl, rfl⟩
          · intro _; rfl
  | populate id' rts =>
    have hf2 : find (populate c id' rts).1.assets id = some a' := hf'
    unfold populate at hf2
    cases hf : find c.assets id' with
    | none => rw [hf] at hf2; exact ⟨a', hf2, rfl, rfl⟩
    | some a =>
      rw [hf] at hf2; simp only [] at hf2
      by_cases hm : isModified rts a.ts = true
      · simp only [hm, if_true] at hf2; exact ⟨a', hf2, rfl, rfl⟩
      · simp only [hm] at hf2
        exact keeps_amap c { c with assets := amap c.assets id' (fun x => { x with access := x.access + 1 }) }
          id' _ rfl (fun _ => rfl) (fun _ => rfl) (fun _ => rfl) id a' hf2
  | hasAsset id' => exact ⟨a', hf', rfl, rfl⟩
  | deleteAsset id' =>
    have hf2 : find (deleteAsset c id').assets id = some a' := hf'
    unfold deleteAsset at hf2
    cases hf : find c.assets id' with
    | none => rw [hf] at hf2; exact ⟨a', hf2, rfl, rfl⟩
    | some a => rw [hf] at hf2; exact keeps_deleteCore c a none id a' hf2
  | removeModel m =>
    have hf2 : find ((msGet c.models m).foldl (removeRefStep m) c).assets id = some a' := hf'
    exact keeps_foldl _ (keeps_removeRefStep m) _ c id a' hf2
  | resetModel m =>
    have hf2 : find ((msGet c.models m).foldl (resetStep m) c).assets id = some a' := hf'
    exact keeps_foldl _ (keeps_resetStep m) _ c id a' hf2
  | resetAll =>
    have hf2 : find ([] : List Asset) id = some a' := hf'
    simp [find_nil] at hf2
  | setCapacity n =>
    have hf2 : find (trimN c.assets.length { c with capacity := n }).assets id = some a' := hf'
    exact keeps_trimN _ { c with capacity := n } id a' hf2

/-- the cached `(timestamp, data)` of every held asset is the one stored by the most recent storing
    insert of the history (or the initial one if the history has no storing insert for it). -/
theorem find_lastStore : ∀ (ops : List Op) (c : Cache) (id : Nat) (a : Asset),
    find (run c ops).assets id = some a →
      lastStore c ops id = some (a.ts, a.data) ∨
      (lastStore c ops id = none ∧ ∃ a0, find c.assets id = some a0 ∧ a0.ts = a.ts ∧ a0.data = a.data) := by
  intro ops
  induction ops with
  | nil => intro c id a h; exact Or.inr ⟨rfl, a, h, rfl, rfl⟩
  | cons op rest ih =>
    intro c id a h
    have h' : find (run (step c op).1 rest).assets id = some a := h
    simp only [lastStore]
    rcases ih _ id a h' with h1 | ⟨h1, a0, ha0, e1, e2⟩
    · rw [h1]; exact Or.inl rfl
    · rw [h1]
      cases hs : storesFor c op id with
      | some p =>
        obtain ⟨ts, d⟩ := p
        obtain ⟨a1, ha1, e3, e4⟩ := step_stores hs
        rw [ha0] at ha1; cases ha1
        left; simp [← e1, ← e2, e3, e4]
      | none =>
        obtain ⟨a1, ha1, e3, e4⟩ := step_keeps hs ha0
        exact Or.inr ⟨rfl, a1, ha1, e3.trans e1, e4.trans e2⟩

theorem lastStore_mem : ∀ (ops : List Op) (c : Cache) (id ts d : Nat), lastStore c ops id = some (ts, d) →
    ∃ m sz, Op.insert m id ts d sz ∈ ops := by
  intro ops
  induction ops with
  | nil => intro c id ts d h; simp [lastStore] at h
  | cons op rest ih =>
    intro c id ts d h
    simp only [lastStore] at h
    cases hl : lastStore (step c op).1 rest id with
    | some x =>
      rw [hl] at h; simp at h; subst h
      obtain ⟨m, sz, hm⟩ := ih _ id ts d hl
      exact ⟨m, sz, List.mem_cons_of_mem _ hm⟩
    | none =>
      rw [hl] at h; simp only [] at h
      cases op with
      | insert m id' ts' d' sz =>
        obtain ⟨⟨hid, _, _⟩, rfl, rfl⟩ := storesFor_insert_some.mp h
        exact ⟨m, sz, by rw [hid]; simp⟩
      | _ => simp [storesFor] at h

theorem populate_hit {c : Cache} {id : Nat} {rts : Option Nat} {d : Nat} :
    (populate c id rts).2 = some d ↔ ∃ a, find c.assets id = some a ∧ rts = some a.ts ∧ d = a.data := by
  unfold populate
  cases hf : find c.assets id with
  | none => simp
  | some a =>
    simp only []
    cases rts with
    | none => simp [isModified]
    | some r =>
      by_cases hr : r = a.ts
      · subst hr; simp [isModified, eq_comm]
      · simp [isModified, hr]

/-! ### eviction order -/

theorem inj_of_nodup_map {α β : Type} (f : α → β) : ∀ {l : List α}, (l.map f).Nodup →
    ∀ {a b : α}, a ∈ l → b ∈ l → f a = f b → a = b := by
  intro l
  induction l with
  | nil => intro _ a b ha; simp at ha
  | cons x xs ih =>
    intro hnd a b ha hb hab
    simp only [List.map_cons, List.nodup_cons] at hnd
    rcases List.mem_cons.mp ha with rfl | ha' <;> rcases List.mem_cons.mp hb with rfl | hb'
    · rfl
    · exact absurd (hab ▸ List.mem_map_of_mem hb') hnd.1
    · exact absurd (hab ▸ List.mem_map_of_mem ha') hnd.1
    · exact ih hnd.2 ha' hb' hab

theorem trimN_capacity : ∀ (fuel : Nat) (c : Cache), (trimN fuel c).capacity = c.capacity := by
  intro fuel
  induction fuel with
  | zero => intro c; simp only [trimN]; split <;> rfl
  | succ n ih =>
    intro c; simp only [trimN]
    split
    · cases minAsset c.assets with
      | none => rfl
      | some a => simp only []; rw [ih]; rfl
    · rfl

theorem trimN_subset : ∀ (fuel : Nat) (c : Cache) (b : Asset), b ∈ (trimN fuel c).assets → b ∈ c.assets := by
  intro fuel
  induction fuel with
  | zero => intro c b; simp only [trimN]; split <;> exact id
  | succ n ih =>
    intro c b; simp only [trimN]
    split
    · cases minAsset c.assets with
      | none => exact id
      | some a =>
        intro hb
        have : b ∈ aerase c.assets a.id := ih _ b hb
        exact (mem_aerase.mp this).1
    · exact id

theorem trimN_of_le (fuel : Nat) {c : Cache} (h : c.size ≤ c.capacity) : trimN fuel c = c := by
  have : ¬ c.size > c.capacity := by omega
  cases fuel <;> simp [trimN, this]

/-- `Trim` evicts a prefix of the `(access count, insertion number)` order: every evicted asset
    precedes every surviving one. -/
theorem trimN_evicts_min : ∀ (fuel : Nat) (c : Cache), Wf c →
    ∀ a ∈ c.assets, a ∉ (trimN fuel c).assets → ∀ b ∈ (trimN fuel c).assets, keyLt a b = true := by
  intro fuel
  induction fuel with
  | zero =>
    intro c _ a ha hna
    have : (trimN 0 c).assets = c.assets := by simp only [trimN]; split <;> rfl
    rw [this] at hna; exact absurd ha hna
  | succ n ih =>
    intro c hwf a ha hna b hb
    simp only [trimN] at hna hb
    by_cases hgt : c.size > c.capacity
    · simp only [hgt, if_true] at hna hb
      cases hmin : minAsset c.assets with
      | none => rw [hmin] at hna; exact absurd ha hna
      | some a0 =>
        rw [hmin] at hna hb; simp only [] at hna hb
        have ha0 : a0 ∈ c.assets := minAsset_mem hmin
        have hf0 : find c.assets a0.id = some a0 := find_mem hwf.base.ids_nodup ha0
        have hwf1 := wf_deleteCore_none hwf hf0
        have hb1 : b ∈ aerase c.assets a0.id := trimN_subset n _ b hb
        by_cases haa : a = a0
        · subst haa
          have hbc := (mem_aerase.mp hb1).1
          have hne : a.insertNum ≠ b.insertNum := by
            intro e
            have := inj_of_nodup_map (·.insertNum) hwf.base.nums_nodup ha hbc e
            exact (mem_aerase.mp hb1).2 (this ▸ rfl)
          exact keyLt_of_not (minAsset_le hmin b hbc) hne
        · have hid : a.id ≠ a0.id := by
            intro e
            exact haa (inj_of_nodup_map (·.id) hwf.base.ids_nodup ha ha0 e)
          have ha1 : a ∈ (deleteCore c a0 none).assets := mem_aerase.mpr ⟨ha, hid⟩
          exact ih _ hwf1 a ha1 hna b hb
    · simp only [hgt, if_false] at hna
      exact absurd ha hna

/-- `Trim` stops as soon as the size fits: the evicted asset with the greatest key was still needed. -/
theorem trimN_stops_early : ∀ (fuel : Nat) (c : Cache), Wf c → c.assets.length ≤ fuel →
    ∀ a ∈ c.assets, a ∉ (trimN fuel c).assets →
      (∀ b ∈ c.assets, b ∉ (trimN fuel c).assets → ¬ keyLt a b = true) →
      (trimN fuel c).size + a.size > c.capacity := by
  intro fuel
  induction fuel with
  | zero =>
    intro c _ hlen a ha
    have : c.assets = [] := List.eq_nil_of_length_eq_zero (by omega)
    rw [this] at ha; simp at ha
  | succ n ih =>
    intro c hwf hlen a ha hna hmax
    by_cases hgt : c.size > c.capacity
    · cases hmin : minAsset c.assets with
      | none =>
        have he := minAsset_none.mp hmin
        rw [he] at ha; simp at ha
      | some a0 =>
        have hunf : trimN (n + 1) c = trimN n (deleteCore c a0 none) := by
          simp only [trimN, hgt, if_true, hmin]
        rw [hunf] at hna hmax ⊢
        have ha0 : a0 ∈ c.assets := minAsset_mem hmin
        have hf0 : find c.assets a0.id = some a0 := find_mem hwf.base.ids_nodup ha0
        have hwf1 := wf_deleteCore_none hwf hf0
        have hsz := deleteCore_size hwf.base hf0 none
        have hlen1 : (deleteCore c a0 none).assets.length ≤ n := by
          have := length_aerase_lt hf0
          show (aerase c.assets a0.id).length ≤ n
          omega
        have hcap1 : (deleteCore c a0 none).capacity = c.capacity := rfl
        have ha0out : a0 ∉ (trimN n (deleteCore c a0 none)).assets := by
          intro hin
          have := trimN_subset n _ a0 hin
          exact (mem_aerase.mp this).2 rfl
        by_cases hle1 : (deleteCore c a0 none).size ≤ (deleteCore c a0 none).capacity
        · rw [trimN_of_le n hle1] at hna ⊢
          have : a = a0 := by
            by_cases hid : a.id = a0.id
            · exact inj_of_nodup_map (·.id) hwf.base.ids_nodup ha ha0 hid
            · exact absurd (mem_aerase.mpr ⟨ha, hid⟩) hna
          subst this; omega
        · by_cases haa : a = a0
          · subst haa
            exfalso
            -- the queue head of the next iteration is evicted too and has a greater key
            have hgt1 : (deleteCore c a none).size > (deleteCore c a none).capacity := by omega
            cases hmin1 : minAsset (deleteCore c a none).assets with
            | none =>
              have he := minAsset_none.mp hmin1
              have : (deleteCore c a none).size = 0 := by rw [hwf1.base.size_eq, he]; rfl
              omega
            | some a1 =>
              have ha1 : a1 ∈ (deleteCore c a none).assets := minAsset_mem hmin1
              have ha1c : a1 ∈ c.assets := (mem_aerase.mp ha1).1
              have hf1 : find (deleteCore c a none).assets a1.id = some a1 := find_mem hwf1.base.ids_nodup ha1
              have ha1out : a1 ∉ (trimN n (deleteCore c a none)).assets := by
                cases n with
                | zero =>
                  have : (deleteCore c a none).assets = [] := List.eq_nil_of_length_eq_zero (by omega)
                  rw [this] at ha1; simp at ha1
                | succ k =>
                  have : trimN (k + 1) (deleteCore c a none) = trimN k (deleteCore (deleteCore c a none) a1 none) := by
                    simp only [trimN, hgt1, if_true, hmin1]
                  rw [this]
                  intro hin
                  have := trimN_subset k _ a1 hin
                  exact (mem_aerase.mp this).2 rfl
              have hne : a.insertNum ≠ a1.insertNum := by
                intro e
                have := inj_of_nodup_map (·.insertNum) hwf.base.nums_nodup ha ha1c e
                exact (mem_aerase.mp ha1).2 (this ▸ rfl)
              exact hmax a1 ha1c ha1out (keyLt_of_not (minAsset_le hmin a1 ha1c) hne)
          · have hid : a.id ≠ a0.id := by
              intro e
              exact haa (inj_of_nodup_map (·.id) hwf.base.ids_nodup ha ha0 e)
            have ha1 : a ∈ (deleteCore c a0 none).assets := mem_aerase.mpr ⟨ha, hid⟩
            have := ih _ hwf1 hlen1 a ha1 hna (fun b hb hbo => hmax b (mem_aerase.mp hb).1 hbo)
            rw [hcap1] at this; exact this
    · have hle : c.size ≤ c.capacity := by omega
      rw [trimN_of_le _ hle] at hna
      exact absurd ha hna

/-! ### RemoveModel: which assets survive -/

theorem removeRefStep_find_other {m : Nat} {c : Cache} {id0 id : Nat} (hne : id ≠ id0) :
    find (removeRefStep m c id0).assets id = find c.assets id := by
  cases hf : find c.assets id0 with
  | none =>
    have : removeRefStep m c id0 = { c with ub := true } := by unfold removeRefStep; rw [hf]
    rw [this]
  | some a =>
    have haid : a.id = id0 := (find_some hf).2
    rw [removeRefStep_eq hf]
    have h1 : find (amap c.assets id0 (fun x => { x with refs := setErase m x.refs })) id = find c.assets id := by
      rw [find_amap]
      · simp [hne]
      · intro _; rfl
    split
    · show find (aerase (amap c.assets id0 _) a.id) id = _
      rw [find_aerase, haid]; simp only [hne, if_false]; exact h1
    · exact h1

/-- what `RemoveModel(m)` leaves of an asset `a`. -/
def afterRemove (m : Nat) (a : Asset) : Option Asset :=
  if m ∈ a.refs then
    (if (setErase m a.refs).isEmpty then none else some { a with refs := setErase m a.refs })
  else some a

theorem removeRefStep_find_self {m : Nat} {c : Cache} {id : Nat} {a : Asset} (hf : find c.assets id = some a)
    (hm : m ∈ a.refs) : find (removeRefStep m c id).assets id = afterRemove m a := by
  have haid : a.id = id := (find_some hf).2
  rw [removeRefStep_eq hf]
  unfold afterRemove
  simp only [hm, if_true]
  have h1 : find (amap c.assets id (fun x => { x with refs := setErase m x.refs })) id =
      some { a with refs := setErase m a.refs } := by
    rw [find_amap]
    · simp [hf]
    · intro _; rfl
  by_cases hemp : (setErase m a.refs).isEmpty = true
  · simp only [hemp, if_true]
    show find (aerase (amap c.assets id _) a.id) id = none
    rw [find_aerase, haid]; simp
  · simp only [hemp]
    exact h1

theorem removeLoop_find {m id : Nat} {a : Asset} : ∀ (pending : List Nat) (c : Cache), pending.Nodup →
    ((id ∈ pending ∧ m ∈ a.refs ∧ find c.assets id = some a) ∨ (id ∉ pending ∧ find c.assets id = afterRemove m a)) →
    find (pending.foldl (removeRefStep m) c).assets id = afterRemove m a := by
  intro pending
  induction pending with
  | nil =>
    intro c _ h
    rcases h with ⟨hin, _⟩ | ⟨_, h⟩
    · simp at hin
    · exact h
  | cons id0 rest ih =>
    intro c hnd h
    have hnd' := List.nodup_cons.mp hnd
    apply ih _ hnd'.2
    by_cases hid : id = id0
    · subst hid
      rcases h with ⟨_, hm, hf⟩ | ⟨hnin, _⟩
      · exact Or.inr ⟨hnd'.1, removeRefStep_find_self hf hm⟩
      · simp at hnin
    · rw [removeRefStep_find_other hid]
      rcases h with ⟨hin, hm, hf⟩ | ⟨hnin, hf⟩
      · left
        refine ⟨?_, hm, hf⟩
        rcases List.mem_cons.mp hin with e | e
        · exact absurd e hid
        · exact e
      · right
        exact ⟨fun e => hnin (List.mem_cons_of_mem _ e), hf⟩

theorem removeModel_find {c : Cache} (h : Inv c) (m id : Nat) {a : Asset} (hf : find c.assets id = some a) :
    find (removeModel c m).assets id = afterRemove m a := by
  show find ((msGet c.models m).foldl (removeRefStep m) c).assets id = _
  apply removeLoop_find _ _ (h.wf.base.sets_nodup m)
  by_cases hm : m ∈ a.refs
  · exact Or.inl ⟨(h.wf.cons m id).mpr ⟨a, hf, hm⟩, hm, hf⟩
  · right
    refine ⟨?_, ?_⟩
    · intro hin
      obtain ⟨a0, ha0, hm0⟩ := (h.wf.cons m id).mp hin
      rw [hf] at ha0; cases ha0; exact hm hm0
    · rw [hf]; unfold afterRemove; simp [hm]

/-! ### the lists that stand for sets have no duplicates (`references_`, the keys of `models_`) -/

structure Rep (c : Cache) : Prop where
  refs_nodup : ∀ a ∈ c.assets, a.refs.Nodup
  keys_nodup : (c.models.map (·.1)).Nodup

theorem not_mem_keys_of_not_hasKey {ms : List (Nat × List Nat)} {m : Nat} (h : hasKey ms m = false) :
    m ∉ ms.map (·.1) := by
  induction ms with
  | nil => simp
  | cons p ps ih =>
    rw [hasKey_cons] at h
    simp at h
    simp only [List.map_cons, List.mem_cons, not_or]
    exact ⟨fun e => h.1 e.symm, ih h.2⟩

theorem keys_mapKey (ms : List (Nat × List Nat)) (m : Nat) (g : List Nat → List Nat) :
    (ms.map (fun p => if p.1 = m then (p.1, g p.2) else p)).map (·.1) = ms.map (·.1) := by
  induction ms with
  | nil => rfl
  | cons p ps ih =>
    simp only [List.map_cons, ih]
    by_cases h : p.1 = m <;> simp [h]

theorem keys_msInsert {ms : List (Nat × List Nat)} (h : (ms.map (·.1)).Nodup) (m id : Nat) :
    ((msInsert ms m id).map (·.1)).Nodup := by
  unfold msInsert
  by_cases hk : hasKey ms m = true
  · simp only [hk, if_true]; rw [keys_mapKey]; exact h
  · have hk' : hasKey ms m = false := by simpa using hk
    simp only [hk', Bool.false_eq_true, if_false, List.map_append, List.map_cons, List.map_nil]
    refine List.nodup_append.mpr ⟨h, by simp, ?_⟩
    intro a ha b hb
    simp at hb; subst hb
    intro e; exact not_mem_keys_of_not_hasKey hk' (e ▸ ha)

theorem keys_msErase {ms : List (Nat × List Nat)} (h : (ms.map (·.1)).Nodup) (m id : Nat) :
    ((msErase ms m id).map (·.1)).Nodup := by
  unfold msErase
  by_cases hk : hasKey ms m = true
  · simp only [hk, if_true]; rw [keys_mapKey]; exact h
  · have hk' : hasKey ms m = false := by simpa using hk
    simp only [hk', Bool.false_eq_true, if_false, List.map_append, List.map_cons, List.map_nil]
    refine List.nodup_append.mpr ⟨h, by simp, ?_⟩
    intro a ha b hb
    simp at hb; subst hb
    intro e; exact not_mem_keys_of_not_hasKey hk' (e ▸ ha)

theorem keys_eraseRefs (refs : List Nat) (skip : Option Nat) (id : Nat) :
    ∀ {ms : List (Nat × List Nat)}, (ms.map (·.1)).Nodup → ((eraseRefs ms refs skip id).map (·.1)).Nodup := by
  induction refs with
  | nil => intro ms h; exact h
  | cons r rs ih =>
    intro ms h
    have e : eraseRefs ms (r :: rs) skip id = eraseRefs (if some r = skip then ms else msErase ms r id) rs skip id := rfl
    rw [e]
    apply ih
    split
    · exact h
    · exact keys_msErase h r id

theorem keys_msDrop {ms : List (Nat × List Nat)} (h : (ms.map (·.1)).Nodup) (m : Nat) :
    ((msDrop ms m).map (·.1)).Nodup := by
  unfold msDrop
  exact h.sublist (List.filter_sublist.map _)

theorem rep_amap {c : Cache} (h : Rep c) (id : Nat) (f : Asset → Asset) (hf : ∀ a, a.refs.Nodup → (f a).refs.Nodup) :
    Rep { c with assets := amap c.assets id f } := by
  refine ⟨?_, h.keys_nodup⟩
  intro b hb
  obtain ⟨a, ha, rfl⟩ := mem_amap.mp hb
  by_cases hid : a.id = id
  · simp only [hid, if_true]; exact hf a (h.refs_nodup a ha)
  · simp only [hid, if_false]; exact h.refs_nodup a ha

theorem rep_deleteCore {c : Cache} (h : Rep c) (a : Asset) (skip : Option Nat) : Rep (deleteCore c a skip) := by
  refine ⟨?_, ?_⟩
  · intro b hb
    exact h.refs_nodup b (mem_aerase.mp hb).1
  · rw [deleteCore_models]; exact keys_eraseRefs _ _ _ h.keys_nodup

theorem rep_trimN : ∀ (fuel : Nat) (c : Cache), Rep c → Rep (trimN fuel c) := by
  intro fuel
  induction fuel with
  | zero =>
    intro c h; simp only [trimN]
    split
    · exact ⟨h.refs_nodup, h.keys_nodup⟩
    · exact h
  | succ n ih =>
    intro c h; simp only [trimN]
    split
    · cases minAsset c.assets with
      | none => exact ⟨h.refs_nodup, h.keys_nodup⟩
      | some a => exact ih _ (rep_deleteCore h a none)
    · exact h

theorem rep_foldl (stepf : Cache → Nat → Cache) (hs : ∀ c x, Rep c → Rep (stepf c x)) :
    ∀ (l : List Nat) (c : Cache), Rep c → Rep (l.foldl stepf c) := by
  intro l
  induction l with
  | nil => intro c h; exact h
  | cons x xs ih => intro c h; exact ih _ (hs c x h)

theorem rep_removeRefStep (m : Nat) (c : Cache) (id : Nat) (h : Rep c) : Rep (removeRefStep m c id) := by
  cases hf : find c.assets id with
  | none =>
    have : removeRefStep m c id = { c with ub := true } := by unfold removeRefStep; rw [hf]
    rw [this]; exact ⟨h.refs_nodup, h.keys_nodup⟩
  | some a =>
    rw [removeRefStep_eq hf]
    have h1 : Rep { c with assets := amap c.assets id (fun x => { x with refs := setErase m x.refs }) } :=
      rep_amap h id _ (fun _ hx => nodup_setErase hx)
    split
    · exact rep_deleteCore h1 _ _
    · exact h1

theorem rep_resetStep (m : Nat) (c : Cache) (id : Nat) (h : Rep c) : Rep (resetStep m c id) := by
  unfold resetStep
  cases find c.assets id with
  | none => exact ⟨h.refs_nodup, h.keys_nodup⟩
  | some a => exact rep_deleteCore h a (some m)

theorem rep_step {c : Cache} (h : Rep c) (op : Op) : Rep (step c op).1 := by
  cases op with
  | insert m id ts d sz =>
    show Rep (insert c m id ts d sz).1
    unfold insert
    cases hf : find c.assets id with
    | none =>
      simp only []
      split
      · exact h
      · refine ⟨?_, keys_msInsert h.keys_nodup m id⟩
        intro b hb
        rcases List.mem_append.mp hb with hb | hb
        · exact h.refs_nodup b hb
        · simp at hb; subst hb; simp
    | some a =>
      simp only []
      split
      · exact h
      · split
        · have := rep_amap h id (fun x => { x with refs := setInsert m x.refs }) (fun _ hx => nodup_setInsert hx)
          exact ⟨this.refs_nodup, keys_msInsert h.keys_nodup m id⟩
        · have := rep_amap h id (fun x => { x with refs := setInsert m x.refs, ts := ts, size := sz, data := d })
            (fun _ hx => nodup_setInsert hx)
          exact ⟨this.refs_nodup, keys_msInsert h.keys_nodup m id⟩
  | populate id rts =>
    show Rep (populate c id rts).1
    unfold populate
    cases hf : find c.assets id with
    | none => exact h
    | some a =>
      simp only []
      split
      · exact h
      · exact rep_amap h id _ (fun _ hx => hx)
  | hasAsset id => exact h
  | deleteAsset id =>
    show Rep (deleteAsset c id)
    unfold deleteAsset
    cases find c.assets id with
    | none => exact h
    | some a => exact rep_deleteCore h a none
  | removeModel m =>
    show Rep (removeModel c m)
    unfold removeModel
    have := rep_foldl _ (rep_removeRefStep m) (msGet c.models m) c h
    exact ⟨this.refs_nodup, keys_msDrop this.keys_nodup m⟩
  | resetModel m =>
    show Rep (resetModel c m)
    unfold resetModel
    have := rep_foldl _ (rep_resetStep m) (msGet c.models m) c h
    exact ⟨this.refs_nodup, keys_msDrop this.keys_nodup m⟩
  | resetAll =>
    show Rep (resetAll c)
    exact ⟨by intro a ha; simp [resetAll] at ha, by simp [resetAll]⟩
  | setCapacity n =>
    show Rep (trimN _ { c with capacity := n })
    exact rep_trimN _ _ ⟨h.refs_nodup, h.keys_nodup⟩

theorem rep_run' : ∀ (ops : List Op) (c : Cache), Rep c → Rep (run c ops) := by
  intro ops
  induction ops with
  | nil => intro c h; exact h
  | cons op rest ih => intro c h; exact ih _ (rep_step h op)

theorem rep_empty (cap : Nat) : Rep (empty cap) := ⟨by simp [empty], by simp [empty]⟩

end MjProof.Cache
