import MjProof.Model.Cache
/-
Helper lemmas for the asset-cache model (C38): association-list facts, the invariant and its
preservation by every operation, loop invariants for RemoveModel / Reset(model) / Trim.
-/
namespace MjProof.Cache
open List

/-- 2^63: bound on byte counts / capacities under which `size_t` arithmetic does not wrap. -/
def HALF : Nat := 9223372036854775808

def sumSizes (as : List Asset) : Nat := (as.map (·.size)).sum

/-! ### size_t arithmetic without wrap-around -/

theorem wadd_eq {a b : Nat} (h : a + b < W) : wadd a b = a + b := by
  unfold wadd; exact Nat.mod_eq_of_lt h

theorem wsub_eq {a b : Nat} (hb : b ≤ a) (ha : a < W) : wsub a b = a - b := by
  unfold wsub W at *; omega

/-! ### `lookup_` as an association list -/

theorem find_nil (id : Nat) : find [] id = none := rfl

theorem find_cons (a : Asset) (as : List Asset) (id : Nat) :
    find (a :: as) id = if a.id = id then some a else find as id := by
  unfold find
  by_cases h : a.id = id <;> simp [h]

theorem find_some {as : List Asset} {id : Nat} {a : Asset} (h : find as id = some a) :
    a ∈ as ∧ a.id = id := by
  induction as with
  | nil => simp [find_nil] at h
  | cons x xs ih =>
    rw [find_cons] at h
    by_cases hx : x.id = id
    · simp [hx] at h; subst h; exact ⟨by simp, hx⟩
    · simp [hx] at h; exact ⟨List.mem_cons_of_mem _ (ih h).1, (ih h).2⟩

theorem find_none {as : List Asset} {id : Nat} : find as id = none ↔ ∀ a ∈ as, a.id ≠ id := by
  induction as with
  | nil => simp [find_nil]
  | cons x xs ih =>
    rw [find_cons]
    by_cases hx : x.id = id
    · simp [hx]
    · simp [hx, ih]

theorem find_mem {as : List Asset} (hnd : (as.map (·.id)).Nodup) {a : Asset} (ha : a ∈ as) :
    find as a.id = some a := by
  induction as with
  | nil => simp at ha
  | cons x xs ih =>
    rw [find_cons]
    simp only [List.map_cons, List.nodup_cons] at hnd
    rcases List.mem_cons.mp ha with rfl | hm
    · simp
    · have : x.id ≠ a.id := by
        intro h; exact hnd.1 (h ▸ List.mem_map_of_mem hm)
      simp [this, ih hnd.2 hm]

theorem find_amap (as : List Asset) (id id' : Nat) (f : Asset → Asset) (hf : ∀ a, (f a).id = a.id) :
    find (amap as id f) id' = if id' = id then (find as id).map f else find as id' := by
  induction as with
  | nil => simp [amap, find_nil]
  | cons x xs ih =>
    have ih' : find (amap xs id f) id' = if id' = id then (find xs id).map f else find xs id' := ih
    show find ((if x.id = id then f x else x) :: amap xs id f) id' = _
    rw [find_cons, find_cons, find_cons, ih']
    by_cases h1 : x.id = id <;> by_cases h2 : id' = id
    · subst h2; simp [h1, hf]
    · have : ¬ id = id' := fun h => h2 h.symm
      simp [h1, h2, this, hf]
    · subst h2; simp [h1]
    · simp [h1, h2]

theorem find_aerase (as : List Asset) (id id' : Nat) :
    find (aerase as id) id' = if id' = id then none else find as id' := by
  induction as with
  | nil => simp [aerase, find_nil]
  | cons x xs ih =>
    have ih' : find (aerase xs id) id' = if id' = id then none else find xs id' := ih
    by_cases h1 : x.id = id
    · have : aerase (x :: xs) id = aerase xs id := by simp [aerase, h1]
      rw [this, ih', find_cons]
      by_cases h2 : id' = id
      · simp [h2]
      · have : ¬ x.id = id' := fun h => h2 (h ▸ h1)
        simp [h2, this]
    · have : aerase (x :: xs) id = x :: aerase xs id := by simp [aerase, h1]
      rw [this, find_cons, ih', find_cons]
      by_cases h2 : id' = id
      · subst h2; simp [h1]
      · simp [h2]

theorem find_append_single (as : List Asset) (a : Asset) (id' : Nat) :
    find (as ++ [a]) id' = match find as id' with
      | some x => some x
      | none => if a.id = id' then some a else none := by
  induction as with
  | nil => simp [find_cons, find_nil]
  | cons x xs ih =>
    rw [List.cons_append, find_cons, find_cons, ih]
    by_cases h : x.id = id' <;> simp [h]

theorem mem_aerase {as : List Asset} {id : Nat} {b : Asset} : b ∈ aerase as id ↔ b ∈ as ∧ b.id ≠ id := by
  simp [aerase]

theorem mem_amap {as : List Asset} {id : Nat} {f : Asset → Asset} {b : Asset} :
    b ∈ amap as id f ↔ ∃ a ∈ as, b = if a.id = id then f a else a := by
  simp [amap, eq_comm]

theorem ids_amap (as : List Asset) (id : Nat) (f : Asset → Asset) (hf : ∀ a, (f a).id = a.id) :
    (amap as id f).map (·.id) = as.map (·.id) := by
  induction as with
  | nil => rfl
  | cons x xs ih =>
    have ih' : (amap xs id f).map (·.id) = xs.map (·.id) := ih
    show (if x.id = id then f x else x).id :: (amap xs id f).map (·.id) = _
    rw [ih']; by_cases h : x.id = id <;> simp [h, hf]

theorem nums_amap (as : List Asset) (id : Nat) (f : Asset → Asset) (hf : ∀ a, (f a).insertNum = a.insertNum) :
    (amap as id f).map (·.insertNum) = as.map (·.insertNum) := by
  induction as with
  | nil => rfl
  | cons x xs ih =>
    have ih' : (amap xs id f).map (·.insertNum) = xs.map (·.insertNum) := ih
    show (if x.id = id then f x else x).insertNum :: (amap xs id f).map (·.insertNum) = _
    rw [ih']; by_cases h : x.id = id <;> simp [h, hf]

theorem length_amap (as : List Asset) (id : Nat) (f : Asset → Asset) : (amap as id f).length = as.length := by
  simp [amap]

theorem aerase_amap (as : List Asset) (id : Nat) (f : Asset → Asset) (hf : ∀ a, (f a).id = a.id) :
    aerase (amap as id f) id = aerase as id := by
  induction as with
  | nil => rfl
  | cons x xs ih =>
    have ih' : aerase (amap xs id f) id = aerase xs id := ih
    show aerase ((if x.id = id then f x else x) :: amap xs id f) id = _
    by_cases h : x.id = id
    · simp only [h, if_true]
      have e1 : aerase (f x :: amap xs id f) id = aerase (amap xs id f) id := by simp [aerase, hf, h]
      have e2 : aerase (x :: xs) id = aerase xs id := by simp [aerase, h]
      rw [e1, e2, ih']
    · simp only [h, if_false]
      have e1 : aerase (x :: amap xs id f) id = x :: aerase (amap xs id f) id := by simp [aerase, h]
      have e2 : aerase (x :: xs) id = x :: aerase xs id := by simp [aerase, h]
      rw [e1, e2, ih']

theorem aerase_sublist (as : List Asset) (id : Nat) : (aerase as id).Sublist as := by
  unfold aerase; exact List.filter_sublist

theorem length_aerase_lt {as : List Asset} {id : Nat} {a : Asset} (h : find as id = some a) :
    (aerase as id).length < as.length := by
  induction as with
  | nil => simp [find_nil] at h
  | cons x xs ih =>
    by_cases hx : x.id = id
    · have : aerase (x :: xs) id = aerase xs id := by simp [aerase, hx]
      rw [this]
      have := (aerase_sublist xs id).length_le
      simp; omega
    · have e : aerase (x :: xs) id = x :: aerase xs id := by simp [aerase, hx]
      rw [find_cons] at h; simp [hx] at h
      rw [e]; simp; exact ih h

/-! ### byte-count sums -/

theorem sumSizes_nil : sumSizes [] = 0 := rfl
theorem sumSizes_cons (a : Asset) (as : List Asset) : sumSizes (a :: as) = a.size + sumSizes as := by
  simp [sumSizes]

theorem sumSizes_append_single (as : List Asset) (a : Asset) : sumSizes (as ++ [a]) = sumSizes as + a.size := by
  simp [sumSizes]

theorem size_le_sumSizes {as : List Asset} {a : Asset} (h : a ∈ as) : a.size ≤ sumSizes as := by
  induction as with
  | nil => simp at h
  | cons x xs ih =>
    rw [sumSizes_cons]
    rcases List.mem_cons.mp h with rfl | hm
    · omega
    · have := ih hm; omega

theorem sumSizes_aerase {as : List Asset} (hnd : (as.map (·.id)).Nodup) {id : Nat} {a : Asset}
    (h : find as id = some a) : sumSizes (aerase as id) + a.size = sumSizes as := by
  induction as with
  | nil => simp [find_nil] at h
  | cons x xs ih =>
    simp only [List.map_cons, List.nodup_cons] at hnd
    rw [find_cons] at h
    by_cases hx : x.id = id
    · simp [hx] at h; subst h
      have hno : ∀ b ∈ xs, b.id ≠ id := by
        intro b hb hbid
        exact hnd.1 (by rw [hx, ← hbid]; exact List.mem_map_of_mem hb)
      have e : aerase (x :: xs) id = xs := by
        simp only [aerase, List.filter_cons, hx, bne_self_eq_false, Bool.false_eq_true, if_false]
        apply List.filter_eq_self.mpr
        intro b hb; simpa using hno b hb
      rw [e, sumSizes_cons]; omega
    · simp [hx] at h
      have e : aerase (x :: xs) id = x :: aerase xs id := by simp [aerase, hx]
      rw [e, sumSizes_cons, sumSizes_cons]
      have := ih hnd.2 h; omega

theorem sumSizes_amap {as : List Asset} (hnd : (as.map (·.id)).Nodup) {id : Nat} {a : Asset}
    (f : Asset → Asset) (h : find as id = some a) :
    sumSizes (amap as id f) + a.size = sumSizes as + (f a).size := by
  induction as with
  | nil => simp [find_nil] at h
  | cons x xs ih =>
    simp only [List.map_cons, List.nodup_cons] at hnd
    rw [find_cons] at h
    show sumSizes ((if x.id = id then f x else x) :: amap xs id f) + a.size = _
    by_cases hx : x.id = id
    · simp [hx] at h; subst h
      have hno : ∀ b ∈ xs, b.id ≠ id := by
        intro b hb hbid
        exact hnd.1 (by rw [hx, ← hbid]; exact List.mem_map_of_mem hb)
      have e : amap xs id f = xs := by
        unfold amap
        conv => rhs; rw [← List.map_id xs]
        apply List.map_congr_left
        intro b hb; simp [hno b hb]
      simp only [hx, if_true]
      rw [e, sumSizes_cons, sumSizes_cons]; omega
    · simp [hx] at h
      simp only [hx, if_false]
      rw [sumSizes_cons, sumSizes_cons]
      have := ih hnd.2 h; omega

theorem sumSizes_amap_same (as : List Asset) (id : Nat) (f : Asset → Asset) (hf : ∀ a, (f a).size = a.size) :
    sumSizes (amap as id f) = sumSizes as := by
  induction as with
  | nil => rfl
  | cons x xs ih =>
    have ih' : sumSizes (amap xs id f) = sumSizes xs := ih
    show sumSizes ((if x.id = id then f x else x) :: amap xs id f) = _
    rw [sumSizes_cons, sumSizes_cons, ih']
    by_cases h : x.id = id <;> simp [h, hf]

/-! ### sets -/

theorem mem_setInsert {x y : Nat} {l : List Nat} : y ∈ setInsert x l ↔ y = x ∨ y ∈ l := by
  unfold setInsert
  by_cases h : x ∈ l
  · simp [h]; intro e; exact e ▸ h
  · simp [h, or_comm]

theorem mem_setErase {x y : Nat} {l : List Nat} : y ∈ setErase x l ↔ y ∈ l ∧ y ≠ x := by
  simp [setErase]

theorem nodup_setInsert {x : Nat} {l : List Nat} (h : l.Nodup) : (setInsert x l).Nodup := by
  unfold setInsert
  by_cases hx : x ∈ l
  · simp [hx, h]
  · simp only [hx, if_false]
    exact List.nodup_append.mpr ⟨h, by simp, by intro a ha b hb; simp at hb; subst hb; intro e; exact hx (e ▸ ha)⟩

theorem nodup_setErase {x : Nat} {l : List Nat} (h : l.Nodup) : (setErase x l).Nodup :=
  h.sublist List.filter_sublist

theorem setErase_of_not_mem {x : Nat} {l : List Nat} (h : x ∉ l) : setErase x l = l := by
  unfold setErase
  apply List.filter_eq_self.mpr
  intro y hy; simp; intro e; exact h (e ▸ hy)

theorem setErase_idem (x : Nat) (l : List Nat) : setErase x (setErase x l) = setErase x l := by
  apply setErase_of_not_mem; simp [mem_setErase]

/-! ### `models_` -/

theorem msGet_nil (m : Nat) : msGet [] m = [] := rfl

theorem msGet_cons (p : Nat × List Nat) (ms : List (Nat × List Nat)) (m : Nat) :
    msGet (p :: ms) m = if p.1 = m then p.2 else msGet ms m := by
  unfold msGet
  by_cases h : p.1 = m <;> simp [h]

theorem hasKey_cons (p : Nat × List Nat) (ms : List (Nat × List Nat)) (m : Nat) :
    hasKey (p :: ms) m = (decide (p.1 = m) || hasKey ms m) := by
  by_cases h : p.1 = m <;> simp [hasKey, h]

theorem msGet_of_not_hasKey {ms : List (Nat × List Nat)} {m : Nat} (h : hasKey ms m = false) : msGet ms m = [] := by
  induction ms with
  | nil => rfl
  | cons p ps ih =>
    rw [hasKey_cons] at h
    simp at h
    rw [msGet_cons]; simp [h.1, ih h.2]

theorem msGet_mapKey (ms : List (Nat × List Nat)) (m m' : Nat) (g : List Nat → List Nat) :
    msGet (ms.map (fun p => if p.1 = m then (p.1, g p.2) else p)) m' =
      if m' = m ∧ hasKey ms m then g (msGet ms m) else msGet ms m' := by
  induction ms with
  | nil => simp [msGet_nil, hasKey]
  | cons p ps ih =>
    rw [List.map_cons, msGet_cons, ih, hasKey_cons, msGet_cons, msGet_cons]
    by_cases h1 : p.1 = m <;> by_cases h2 : m' = m
    · subst h2; simp [h1]
    · have : ¬ m = m' := fun h => h2 h.symm
      simp [h1, h2, this]
    · subst h2; simp [h1]
    · simp [h1, h2]

theorem msGet_append_single (ms : List (Nat × List Nat)) (q : Nat × List Nat) (m' : Nat) :
    msGet (ms ++ [q]) m' = if hasKey ms m' then msGet ms m' else if q.1 = m' then q.2 else [] := by
  induction ms with
  | nil => simp [msGet_cons, msGet_nil, hasKey]
  | cons p ps ih =>
    rw [List.cons_append, msGet_cons, ih, hasKey_cons, msGet_cons]
    by_cases h : p.1 = m' <;> simp [h]

theorem msGet_msInsert (ms : List (Nat × List Nat)) (m id m' : Nat) :
    msGet (msInsert ms m id) m' = if m' = m then setInsert id (msGet ms m) else msGet ms m' := by
  unfold msInsert
  by_cases hk : hasKey ms m = true
  · simp only [hk, if_true]
    rw [msGet_mapKey]
    by_cases h : m' = m <;> simp [h, hk]
  · have hk' : hasKey ms m = false := by simpa using hk
    simp only [hk', Bool.false_eq_true, if_false]
    rw [msGet_append_single]
    by_cases h : m' = m
    · subst h; simp [hk', msGet_of_not_hasKey hk', setInsert]
    · have : ¬ m = m' := fun e => h e.symm
      by_cases hk2 : hasKey ms m' = true
      · simp [h, hk2]
      · have hk2' : hasKey ms m' = false := by simpa using hk2
        simp [h, hk2', this, msGet_of_not_hasKey hk2']

theorem msGet_msErase (ms : List (Nat × List Nat)) (m id m' : Nat) :
    msGet (msErase ms m id) m' = if m' = m then setErase id (msGet ms m) else msGet ms m' := by
  unfold msErase
  by_cases hk : hasKey ms m = true
  · simp only [hk, if_true]
    rw [msGet_mapKey]
    by_cases h : m' = m <;> simp [h, hk]
  · have hk' : hasKey ms m = false := by simpa using hk
    simp only [hk', Bool.false_eq_true, if_false]
    rw [msGet_append_single]
    by_cases h : m' = m
    · subst h; simp [hk', msGet_of_not_hasKey hk', setErase]
    · have : ¬ m = m' := fun e => h e.symm
      by_cases hk2 : hasKey ms m' = true
      · simp [h, hk2]
      · have hk2' : hasKey ms m' = false := by simpa using hk2
        simp [h, hk2', this, msGet_of_not_hasKey hk2']

theorem msGet_msDrop (ms : List (Nat × List Nat)) (m m' : Nat) :
    msGet (msDrop ms m) m' = if m' = m then [] else msGet ms m' := by
  induction ms with
  | nil => simp [msDrop, msGet_nil]
  | cons p ps ih =>
    have ih' : msGet (msDrop ps m) m' = if m' = m then [] else msGet ps m' := ih
    by_cases h1 : p.1 = m
    · have e : msDrop (p :: ps) m = msDrop ps m := by simp [msDrop, h1]
      rw [e, ih', msGet_cons]
      by_cases h2 : m' = m
      · simp [h2]
      · have : ¬ p.1 = m' := fun h => h2 (h ▸ h1)
        simp [h2, this]
    · have e : msDrop (p :: ps) m = p :: msDrop ps m := by simp [msDrop, h1]
      rw [e, msGet_cons, ih', msGet_cons]
      by_cases h2 : m' = m
      · subst h2; simp [h1]
      · simp [h2]

/-- the loop of `Delete` over `references_`. -/
def eraseRefs (ms : List (Nat × List Nat)) (refs : List Nat) (skip : Option Nat) (id : Nat) : List (Nat × List Nat) :=
  refs.foldl (fun ms r => if some r = skip then ms else msErase ms r id) ms

theorem msGet_eraseRefs (refs : List Nat) (ms : List (Nat × List Nat)) (skip : Option Nat) (id m' : Nat) :
    msGet (eraseRefs ms refs skip id) m' =
      if m' ∈ refs ∧ some m' ≠ skip then setErase id (msGet ms m') else msGet ms m' := by
  induction refs generalizing ms with
  | nil => simp [eraseRefs]
  | cons r rs ih =>
    have e : eraseRefs ms (r :: rs) skip id = eraseRefs (if some r = skip then ms else msErase ms r id) rs skip id := rfl
    rw [e, ih]
    by_cases hs : some r = skip
    · simp only [hs, if_true]
      by_cases h : m' = r
      · subst h; simp [hs]
      · simp [h]
    · simp only [hs, if_false]
      rw [msGet_msErase]
      by_cases h : m' = r
      · subst h; simp [hs, setErase_idem]
      · simp [h]

/-! ### the invariant -/

/-- everything except the model/asset cross references and the capacity bound. -/
structure Base (c : Cache) : Prop where
  noub : c.ub = false
  size_eq : c.size = sumSizes c.assets
  size_lt : c.size < HALF
  cap_lt : c.capacity < HALF
  ids_nodup : (c.assets.map (·.id)).Nodup
  nums_nodup : (c.assets.map (·.insertNum)).Nodup
  nums_lt : ∀ a ∈ c.assets, a.insertNum < c.insertNum
  sets_nodup : ∀ m, (msGet c.models m).Nodup

/-- `models_[m]` lists asset `id`  iff  the asset stored under `id` lists `m` in `references_`. -/
def Consistent (c : Cache) : Prop :=
  ∀ m id, id ∈ msGet c.models m ↔ ∃ a, find c.assets id = some a ∧ m ∈ a.refs

structure Wf (c : Cache) : Prop where
  base : Base c
  cons : Consistent c

structure Inv (c : Cache) : Prop where
  wf : Wf c
  size_le : c.size ≤ c.capacity

theorem HALF_lt_W : HALF + HALF = W := by unfold HALF W; omega

theorem base_amap {c : Cache} (hb : Base c) (id : Nat) (f : Asset → Asset)
    (h1 : ∀ a, (f a).id = a.id) (h2 : ∀ a, (f a).insertNum = a.insertNum) (h3 : ∀ a, (f a).size = a.size) :
    Base { c with assets := amap c.assets id f } := by
  refine ⟨hb.noub, ?_, hb.size_lt, hb.cap_lt, ?_, ?_, ?_, hb.sets_nodup⟩
  · show c.size = sumSizes (amap c.assets id f)
    rw [sumSizes_amap_same _ _ _ h3]; exact hb.size_eq
  · show ((amap c.assets id f).map (·.id)).Nodup
    rw [ids_amap _ _ _ h1]; exact hb.ids_nodup
  · show ((amap c.assets id f).map (·.insertNum)).Nodup
    rw [nums_amap _ _ _ h2]; exact hb.nums_nodup
  · intro b hbm
    obtain ⟨a, ha, rfl⟩ := mem_amap.mp hbm
    have := hb.nums_lt a ha
    by_cases h : a.id = id <;> simp [h, h2] <;> exact this

theorem deleteCore_models (c : Cache) (a : Asset) (skip : Option Nat) :
    (deleteCore c a skip).models = eraseRefs c.models a.refs skip a.id := rfl

theorem base_deleteCore {c : Cache} (hb : Base c) {a : Asset} (ha : find c.assets a.id = some a)
    (skip : Option Nat) : Base (deleteCore c a skip) := by
  have hmem := (find_some ha).1
  have hle : a.size ≤ c.size := by rw [hb.size_eq]; exact size_le_sumSizes hmem
  have hlt := hb.size_lt
  have hsub : wsub c.size a.size = c.size - a.size := wsub_eq hle (by have := HALF_lt_W; omega)
  have hsum := sumSizes_aerase hb.ids_nodup ha
  refine ⟨hb.noub, ?_, ?_, hb.cap_lt, ?_, ?_, ?_, ?_⟩
  · show wsub c.size a.size = sumSizes (aerase c.assets a.id)
    rw [hsub, hb.size_eq]; omega
  · show wsub c.size a.size < HALF
    rw [hsub]; omega
  · exact hb.ids_nodup.sublist ((aerase_sublist _ _).map _)
  · exact hb.nums_nodup.sublist ((aerase_sublist _ _).map _)
  · intro b hbm; exact hb.nums_lt b (mem_aerase.mp hbm).1
  · intro m
    rw [deleteCore_models, msGet_eraseRefs]
    split
    · exact nodup_setErase (hb.sets_nodup m)
    · exact hb.sets_nodup m

theorem deleteCore_size {c : Cache} (hb : Base c) {a : Asset} (ha : find c.assets a.id = some a)
    (skip : Option Nat) : (deleteCore c a skip).size + a.size = c.size := by
  have hmem := (find_some ha).1
  have hle : a.size ≤ c.size := by rw [hb.size_eq]; exact size_le_sumSizes hmem
  have hlt := hb.size_lt
  have hsub : wsub c.size a.size = c.size - a.size := wsub_eq hle (by have := HALF_lt_W; omega)
  show wsub c.size a.size + a.size = c.size
  rw [hsub]; omega

/-- `Delete(asset)` keeps the cross references consistent. -/
theorem cons_deleteCore_none {c : Cache} (hc : Consistent c) {a : Asset} (ha : find c.assets a.id = some a) :
    Consistent (deleteCore c a none) := by
  intro m id
  rw [deleteCore_models, msGet_eraseRefs]
  show _ ↔ ∃ b, find (aerase c.assets a.id) id = some b ∧ m ∈ b.refs
  rw [find_aerase]
  by_cases hid : id = a.id
  · subst hid
    have := hc m a.id
    rw [ha] at this
    by_cases hm : m ∈ a.refs
    · simp [hm, mem_setErase]
    · simp [hm]; intro h; exact hm (by simpa using this.mp h)
  · have := hc m id
    by_cases hm : m ∈ a.refs
    · simp [hm, hid, mem_setErase, this]
    · simp [hm, hid, this]

theorem wf_deleteCore_none {c : Cache} (h : Wf c) {a : Asset} (ha : find c.assets a.id = some a) :
    Wf (deleteCore c a none) :=
  ⟨base_deleteCore h.base ha none, cons_deleteCore_none h.cons ha⟩

end MjProof.Cache
