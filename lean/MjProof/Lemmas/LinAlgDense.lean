import MjProof.Lemmas.LinAlgBand
/-
C23: dense products that accumulate with `mju_addToScl` (`mju_mulMatTVec`, `mju_sqrMatTD`) over ℝ.
-/
namespace MjProof.LinAlg
open MjNum Finset

theorem vget_addToSclSlice {nd ns : Nat} (res : Vector ℝ nd) (roff : Nat) (src : Vector ℝ ns) (soff len : Nat)
    (scl : ℝ) (hd : roff + len ≤ nd) (hs : soff + len ≤ ns) (a : Nat) :
    vget (addToSclSlice res roff src soff len scl hd hs) a =
      if roff ≤ a ∧ a < roff + len then vget res a + vget src (soff + (a - roff)) * scl else vget res a := by
  unfold addToSclSlice
  have key := fold_inv (n := len) (s := res)
    (body := fun t ht (res : Vector ℝ nd) =>
      res.set (roff + t) (res[roff + t]'(by omega) + src[soff + t]'(by omega) * scl) (by omega))
    (fun m d => ∀ a, vget d a =
      if roff ≤ a ∧ a < roff + m then vget res a + vget src (soff + (a - roff)) * scl else vget res a)
    (by intro a; rw [if_neg (by omega)])
    (by
      intro t ht d Q a
      rw [vget_set, getElem_eq_vget, getElem_eq_vget, Q a]
      by_cases e : a = roff + t
      · subst e
        rw [if_pos rfl, if_pos (by omega), Q (roff + t), if_neg (by omega)]
        congr 2; congr 1; omega
      · rw [if_neg e]
        by_cases h : roff ≤ a ∧ a < roff + t
        · rw [if_pos h, if_pos (by omega)]
        · rw [if_neg h, if_neg (by omega)])
  exact key a

theorem real_beq_zero'' (x : ℝ) : (MjNum.beq x (lit 0) = true) = (x = 0) := by
  simp [MjNum.lit]

/-- `mju_mulMatTVec` is the transposed matrix–vector product -/
theorem mulMatTVec_spec {nr nc : Nat} (M : Vector ℝ (nr * nc)) (v : Vector ℝ nr) (c : Nat) (hc : c < nc) :
    vget (mulMatTVec M v) c = ∑ r ∈ range nr, mget M r c * vget v r := by
  unfold mulMatTVec
  have key := fold_inv (n := nr) (s := Vector.replicate nc (lit 0 : ℝ))
    (body := fun r hr (res : Vector ℝ nc) =>
      let tmp := v[r]
      if beq tmp (lit 0) then res
      else addToSclSlice res 0 M (r * nc) nc tmp (by omega) (row_le hr))
    (fun m res => ∀ c, c < nc → vget res c = ∑ r ∈ range m, mget M r c * vget v r)
    (by intro c hc; rw [vget_replicate]; simp [MjNum.lit])
    (by
      intro r hr res Q c hc
      dsimp only
      rw [Finset.sum_range_succ, ← Q c hc]
      by_cases hz : vget v r = 0
      · rw [if_pos (by rw [real_beq_zero'', getElem_eq_vget]; exact hz), hz]; ring
      · rw [if_neg (by rw [real_beq_zero'', getElem_eq_vget]; exact hz), vget_addToSclSlice, if_pos (by omega),
          mget_eq_vget_flat M r c hr hc, getElem_eq_vget]
        congr 2)
  exact key c hc


/-- one `mju_addToScl(res+i0*nc, mat+j*nc, scl, i0+1)` in matrix coordinates -/
theorem mget_addToSclRow {nr nc : Nat} (res : Vector ℝ (nc * nc)) (M : Vector ℝ (nr * nc)) (i0 j : Nat)
    (hi0 : i0 < nc) (hj : j < nr) (scl : ℝ) (h1 : i0 * nc + (i0 + 1) ≤ nc * nc) (h2 : j * nc + (i0 + 1) ≤ nr * nc)
    (i k : Nat) (hi : i < nc) (hk : k < nc) :
    mget (addToSclSlice res (i0 * nc) M (j * nc) (i0 + 1) scl h1 h2) i k =
      if i = i0 ∧ k ≤ i0 then mget res i k + mget M j k * scl else mget res i k := by
  rw [mget_eq_vget_flat _ i k hi hk, vget_addToSclSlice, ← mget_eq_vget_flat _ i k hi hk]
  have c1 := flat_le_iff (nt := nc) (i := i) (j := k) (m := i0) (c := 0) hk (by omega)
  have c2 := flat_lt_iff (nt := nc) (i := i) (j := k) (m := i0) (c := i0 + 1) hk (by omega)
  simp only [Nat.add_zero] at c1
  by_cases hin : i0 * nc ≤ i * nc + k ∧ i * nc + k < i0 * nc + (i0 + 1)
  · have him : i = i0 := by
      rcases c1.mp hin.1 with h | h
      · rcases c2.mp hin.2 with h' | h' <;> omega
      · exact h.1
    subst him
    have hk2 : k < i + 1 := by
      rcases c2.mp hin.2 with h | h
      · omega
      · exact h.2
    rw [if_pos hin, if_pos ⟨rfl, by omega⟩, mget_eq_vget_flat M j k hj hk]
    congr 3; omega
  · rw [if_neg hin, if_neg]
    rintro ⟨rfl, h⟩
    exact hin ⟨c1.mpr (Or.inr ⟨rfl, by omega⟩), c2.mpr (Or.inr ⟨rfl, by omega⟩)⟩

/-- lower triangle accumulated by `mju_sqrMatTD` before the mirror loop -/
theorem sqrMatTD_lower {nr nc : Nat} (M : Vector ℝ (nr * nc)) (d : Vector ℝ nr) (i k : Nat) (hi : i < nc) (hk : k < nc) :
    mget (Nat.fold nr (fun j hj (res : Vector ℝ (nc * nc)) =>
      if beq d[j] (lit 0) then res
      else
        Nat.fold nc (fun i hi (res : Vector ℝ (nc * nc)) =>
          let tmp := at2 M j i hj hi
          if beq tmp (lit 0) then res
          else addToSclSlice res (i * nc) M (j * nc) (i + 1) (tmp * d[j])
            (by have := idx_lt (nc := nc) hi hi; omega) (by have := idx_lt (nc := nc) hj hi; omega)) res)
      (Vector.replicate (nc * nc) (lit 0 : ℝ))) i k
      = if k ≤ i then ∑ j ∈ range nr, mget M j i * vget d j * mget M j k else 0 := by
  have key := fold_inv (n := nr) (s := Vector.replicate (nc * nc) (lit 0 : ℝ))
    (body := fun j hj (res : Vector ℝ (nc * nc)) =>
      if beq d[j] (lit 0) then res
      else
        Nat.fold nc (fun i hi (res : Vector ℝ (nc * nc)) =>
          let tmp := at2 M j i hj hi
          if beq tmp (lit 0) then res
          else addToSclSlice res (i * nc) M (j * nc) (i + 1) (tmp * d[j])
            (by have := idx_lt (nc := nc) hi hi; omega) (by have := idx_lt (nc := nc) hj hi; omega)) res)
    (fun m res => ∀ i k, i < nc → k < nc →
      mget res i k = if k ≤ i then ∑ j ∈ range m, mget M j i * vget d j * mget M j k else 0)
    (by intro i k _ _
        have hz : (lit 0 : ℝ) = 0 := by simp [MjNum.lit]
        rw [hz, mget_replicate_zero]; simp)
    (by
      intro j hj res Q i k hi hk
      have target : (if k ≤ i then ∑ j' ∈ range (j + 1), mget M j' i * vget d j' * mget M j' k else 0)
          = mget res i k + (if k ≤ i then mget M j i * vget d j * mget M j k else 0) := by
        rw [Q i k hi hk]
        by_cases h : k ≤ i
        · rw [if_pos h, if_pos h, if_pos h, Finset.sum_range_succ]
        · rw [if_neg h, if_neg h, if_neg h]; ring
      rw [target]
      by_cases hz : vget d j = 0
      · rw [if_pos (by rw [real_beq_zero'', getElem_eq_vget]; exact hz), hz]
        split_ifs <;> ring
      · rw [if_neg (by rw [real_beq_zero'', getElem_eq_vget]; exact hz)]
        have inner := fold_inv (n := nc) (s := res)
          (body := fun i hi (res : Vector ℝ (nc * nc)) =>
            let tmp := at2 M j i hj hi
            if beq tmp (lit 0) then res
            else addToSclSlice res (i * nc) M (j * nc) (i + 1) (tmp * d[j])
              (by have := idx_lt (nc := nc) hi hi; omega) (by have := idx_lt (nc := nc) hj hi; omega))
          (fun m2 r => ∀ i k, i < nc → k < nc → mget r i k =
            mget res i k + (if i < m2 ∧ k ≤ i then mget M j i * vget d j * mget M j k else 0))
          (by intro i k _ _; rw [if_neg (by omega)]; ring)
          (by
            intro i0 hi0 r R i k hi hk
            dsimp only
            by_cases hz2 : mget M j i0 = 0
            · rw [if_pos (by rw [real_beq_zero'', at2_eq_mget]; exact hz2), R i k hi hk]
              by_cases h : i < i0 ∧ k ≤ i
              · rw [if_pos h, if_pos (by omega)]
              · rw [if_neg h]
                by_cases h2 : i < i0 + 1 ∧ k ≤ i
                · have : i = i0 := by omega
                  rw [if_pos h2, this, hz2]; ring
                · rw [if_neg h2]
            · rw [if_neg (by rw [real_beq_zero'', at2_eq_mget]; exact hz2),
                mget_addToSclRow r M i0 j hi0 hj _ _ _ i k hi hk, R i k hi hk, at2_eq_mget, getElem_eq_vget]
              by_cases h : i = i0 ∧ k ≤ i0
              · obtain ⟨rfl, h2⟩ := h
                rw [if_pos ⟨rfl, h2⟩, if_neg (by omega), if_pos (by omega)]; ring
              · rw [if_neg h]
                by_cases h2 : i < i0 ∧ k ≤ i
                · rw [if_pos h2, if_pos (by omega)]
                · rw [if_neg h2, if_neg (by omega)])
        rw [inner i k hi hk]
        congr 1
        by_cases h : k ≤ i
        · rw [if_pos ⟨hi, h⟩, if_pos h]
        · rw [if_neg (by omega), if_neg h])
  exact key i k hi hk

/-- `mju_sqrMatTD` computes `Mᵀ diag M` -/
theorem sqrMatTD_spec {nr nc : Nat} (M : Vector ℝ (nr * nc)) (d : Vector ℝ nr) (a b : Nat) (ha : a < nc) (hb : b < nc) :
    mget (sqrMatTD M d) a b = ∑ j ∈ range nr, mget M j a * vget d j * mget M j b := by
  unfold sqrMatTD
  simp only []
  rw [mirrorLower_spec]
  by_cases h : a < b
  · rw [if_pos h, sqrMatTD_lower M d b a hb ha, if_pos (by omega)]
    apply Finset.sum_congr rfl; intro j _; ring
  · rw [if_neg h, sqrMatTD_lower M d a b ha hb, if_pos (by omega)]

end MjProof.LinAlg
