import MjProof.Lemmas.SparseTranspose
/-
C23: row supernodes — the `res_rowsuper` output of `mju_transposeSparse` and `mju_superSparse`.

`rowsuper[i]` must be the number of rows following row `i` whose sparsity pattern (number of entries and sequence of
column indices) is identical to that of row `i`: the consumers reuse the column indices of row `i` for those rows.
-/
namespace MjProof.Sparse
open MjNum Finset MjProof.LinAlg

variable {nr nc cap capT : Nat}

/-! ### checked loops: unrolling, two independent loops run in lock-step -/

theorem loopM_zero {σ : Type} (body : Nat → σ → Option σ) (s : σ) : loopM 0 body s = some s := by
  simp [loopM]

theorem loopM_succ {σ : Type} (n : Nat) (body : Nat → σ → Option σ) (s : σ) :
    loopM (n + 1) body s = (loopM n body s).bind (body n) := by
  unfold loopM
  rw [Nat.fold_succ]

/-- a loop over a pair of states whose body treats the components independently is the pair of the two loops -/
theorem loopM_pair {σ τ : Type} (n : Nat) (f : Nat → σ → Option σ) (g : Nat → τ → Option τ) (s : σ) (t : τ) :
    loopM n (fun i (st : σ × τ) => (f i st.1).bind (fun a => (g i st.2).bind (fun b => some (a, b)))) (s, t)
      = (loopM n f s).bind (fun a => (loopM n g t).bind (fun b => some (a, b))) := by
  induction n with
  | zero => simp [loopM_zero]
  | succ n ih =>
    rw [loopM_succ, loopM_succ, loopM_succ, ih]
    cases h1 : loopM n f s with
    | none => simp
    | some a =>
      cases h2 : loopM n g t with
      | none =>
        simp only [Option.bind_some, Option.bind_none]
        cases f n a <;> simp
      | some b => simp

/-! ### run lengths -/

/-- `s` is the length of the run of non-zero flags starting at `j` -/
def RunIs (f : Nat → Nat) (j s : Nat) : Prop := (∀ d, d < s → f (j + d) ≠ 0) ∧ f (j + s) = 0

/-- the accumulation loop turns 0/1 flags (last flag 0) into run lengths -/
theorem superAccum_spec {n : Nat} (sup : Vector Nat n) (hf : ∀ i, nget sup i ≤ 1) (hlast : nget sup (n - 1) = 0) :
    ∃ sup', superAccum sup = some sup' ∧ ∀ j, j < n → RunIs (nget sup) j (nget sup' j) := by
  unfold superAccum
  obtain ⟨sup', h1, h2⟩ := loopM_inv (n - 1) (fun t (sup : Vector Nat n) => do
      let i := n - 2 - t
      let s ← rd sup i
      if s ≠ 0 then
        let s1 ← rd sup (i + 1)
        wr sup i (s + s1)
      else pure sup) sup
    (fun t (cur : Vector Nat n) => ∀ j, j < n →
      (n - 1 - t ≤ j → RunIs (nget sup) j (nget cur j)) ∧ (j < n - 1 - t → nget cur j = nget sup j))
    (by
      intro j hj
      refine ⟨?_, fun _ => rfl⟩
      intro hge
      have : j = n - 1 := by omega
      subst this
      refine ⟨?_, ?_⟩
      · intro d hd; rw [hlast] at hd; omega
      · rw [hlast]; exact hlast)
    (by
      intro t ht cur Q
      have hi : n - 2 - t < n := by omega
      have hi1 : n - 2 - t + 1 < n := by omega
      have hcur : nget cur (n - 2 - t) = nget sup (n - 2 - t) := (Q _ hi).2 (by omega)
      simp only [rd_some _ _ hi, Option.bind_eq_bind, Option.bind_some, getElem_eq_nget]
      by_cases hz : nget cur (n - 2 - t) = 0
      · rw [if_neg (by simpa using hz)]
        refine ⟨_, rfl, ?_⟩
        intro j hj
        refine ⟨?_, ?_⟩
        · intro hge
          by_cases e : j = n - 2 - t
          · subst e
            rw [hz]
            exact ⟨fun d hd => by omega, by rw [Nat.add_zero, ← hcur]; exact hz⟩
          · exact (Q j hj).1 (by omega)
        · intro hlt; exact (Q j hj).2 (by omega)
      · rw [if_pos (by simpa using hz)]
        simp only [rd_some _ _ hi1, Option.bind_some, wr_some _ _ _ hi, getElem_eq_nget]
        refine ⟨_, rfl, ?_⟩
        intro j hj
        rw [nget_set]
        refine ⟨?_, ?_⟩
        · intro hge
          by_cases e : j = n - 2 - t
          · rw [if_pos e]
            subst e
            obtain ⟨r1, r2⟩ := (Q _ hi1).1 (by omega)
            have hone : nget cur (n - 2 - t) = 1 := by
              have := hf (n - 2 - t); rw [← hcur] at this; omega
            rw [hone]
            refine ⟨?_, ?_⟩
            · intro d hd
              by_cases d0 : d = 0
              · subst d0; rw [Nat.add_zero, ← hcur, hone]; omega
              · have := r1 (d - 1) (by omega)
                rwa [show n - 2 - t + 1 + (d - 1) = n - 2 - t + d by omega] at this
            · rwa [show n - 2 - t + 1 + nget cur (n - 2 - t + 1) = n - 2 - t + (1 + nget cur (n - 2 - t + 1)) by omega] at r2
          · rw [if_neg e]; exact (Q j hj).1 (by omega)
        · intro hlt
          rw [if_neg (by omega)]
          exact (Q j hj).2 (by omega))
  refine ⟨sup', h1, ?_⟩
  intro j hj
  exact (h2 j hj).1 (by omega)

theorem RunIs.unique {f : Nat → Nat} {j s s' : Nat} (h : RunIs f j s) (h' : RunIs f j s') : s = s' := by
  rcases Nat.lt_trichotomy s s' with e | e | e
  · exact absurd h.2 (h'.1 s e)
  · exact e
  · exact absurd h'.2 (h.1 s' e)

theorem RunIs.tail {f : Nat → Nat} {j s : Nat} (h : RunIs f j (s + 1)) : RunIs f (j + 1) s := by
  refine ⟨fun d hd => ?_, ?_⟩
  · have := h.1 (d + 1) (by omega)
    rwa [show j + (d + 1) = j + 1 + d by omega] at this
  · have := h.2
    rwa [show j + (s + 1) = j + 1 + s by omega] at this

/-- a run of flags whose steps are related by a reflexive transitive relation relates its start to every member -/
theorem RunIs.chain {f : Nat → Nat} {S : Nat → Nat → Prop} (hrefl : ∀ a, S a a)
    (htrans : ∀ a b c, S a b → S b c → S a c) (hstep : ∀ i, f i ≠ 0 → S i (i + 1)) {r s : Nat} (h : RunIs f r s) :
    ∀ j, j ≤ s → S r (r + j) := by
  intro j
  induction j with
  | zero => intro _; exact hrefl r
  | succ j ih =>
    intro hj
    exact htrans _ _ _ (ih (by omega)) (hstep (r + j) (h.1 j (by omega)))

/-! ### `mju_transposeSparse`: the flags before accumulation -/
section
variable (p : Pat nr nc cap)

/-- the `t`-th stored entry of row `r` is column `c` and is not immediately preceded, in its row, by column `c - 1` -/
def badAt (r t c : Nat) : Prop := colT p r t = c ∧ (t = 0 ∨ colT p r (t - 1) + 1 ≠ c)

/-- no such entry in the rows `< r` and among the first `m` entries of row `r` -/
def NoBad (r m c : Nat) : Prop :=
  (∀ r', r' < r → ∀ t, t < nget p.rownnz r' → ¬ badAt p r' t c) ∧ (∀ t, t < m → ¬ badAt p r t c)

/-- `res_rowsuper[i]` after the init loop: result rows `i`, `i+1` have the same number of entries -/
def flag0 (i : Nat) : Nat := if i + 1 < nc ∧ cntUpto p nr i = cntUpto p nr (i + 1) then 1 else 0

open Classical in
/-- `res_rowsuper[i]` when the marking has processed the rows `< r` and `m` entries of row `r` -/
noncomputable def flagAt (r m i : Nat) : Nat := if flag0 p i ≠ 0 ∧ NoBad p r m (i + 1) then 1 else 0

theorem flagAt_le (r m i : Nat) : flagAt p r m i ≤ 1 := by
  unfold flagAt; split_ifs <;> omega

open Classical in
theorem flagAt_congr {r m r' m' i : Nat} (h : NoBad p r m (i + 1) ↔ NoBad p r' m' (i + 1)) :
    flagAt p r m i = flagAt p r' m' i := by
  unfold flagAt
  simp only [h]

theorem NoBad_zero (c : Nat) : NoBad p 0 0 c := ⟨fun _ h => by omega, fun _ h => by omega⟩

theorem NoBad_succ (r m c : Nat) : NoBad p r (m + 1) c ↔ NoBad p r m c ∧ ¬ badAt p r m c := by
  unfold NoBad
  constructor
  · intro ⟨h1, h2⟩
    exact ⟨⟨h1, fun t ht => h2 t (by omega)⟩, h2 m (by omega)⟩
  · intro ⟨⟨h1, h2⟩, h3⟩
    refine ⟨h1, fun t ht => ?_⟩
    by_cases e : t = m
    · subst e; exact h3
    · exact h2 t (by omega)

theorem NoBad_next (r c : Nat) : NoBad p (r + 1) 0 c ↔ NoBad p r (nget p.rownnz r) c := by
  unfold NoBad
  constructor
  · intro ⟨h1, _⟩
    exact ⟨fun r' hr' => h1 r' (by omega), fun t ht => h1 r (by omega) t ht⟩
  · intro ⟨h1, h2⟩
    refine ⟨fun r' hr' t ht => ?_, fun t ht => by omega⟩
    by_cases e : r' = r
    · subst e; exact h2 t ht
    · exact h1 r' (by omega) t ht

/-- the init loop of `res_rowsuper` -/
theorem trSuperInit_spec (hnc : 0 < nc) (cnt sup0 : Vector Nat nc) (hcnt : ∀ c, c < nc → nget cnt c = cntUpto p nr c) :
    ∃ sup, trSuperInit cnt sup0 = some sup ∧ ∀ i, i < nc → nget sup i = flag0 p i := by
  unfold trSuperInit
  obtain ⟨sup1, h1, h2⟩ := loopM_inv (nc - 1) (fun i (sup : Vector Nat nc) => do
      let a ← rd cnt i
      let b ← rd cnt (i + 1)
      wr sup i (if a = b then 1 else 0)) sup0
    (fun m (sup : Vector Nat nc) => ∀ i, i < m → nget sup i = flag0 p i)
    (by intro i hi; omega)
    (by
      intro m hm sup Q
      have hm0 : m < nc := by omega
      have hm1 : m + 1 < nc := by omega
      simp only [rd_some _ _ hm0, rd_some _ _ hm1, Option.bind_eq_bind, Option.bind_some, wr_some _ _ _ hm0,
        getElem_eq_nget]
      refine ⟨_, rfl, ?_⟩
      intro i hi
      rw [nget_set]
      by_cases e : i = m
      · rw [if_pos e, e, hcnt m hm0, hcnt (m + 1) hm1]
        unfold flag0
        by_cases h : cntUpto p nr m = cntUpto p nr (m + 1)
        · rw [if_pos h, if_pos ⟨hm1, h⟩]
        · rw [if_neg h, if_neg (fun hh => h hh.2)]
      · rw [if_neg e]; exact Q i (by omega))
  rw [h1]
  have hl : nc - 1 < nc := by omega
  simp only [Option.bind_eq_bind, Option.bind_some, wr_some _ _ _ hl]
  refine ⟨_, rfl, ?_⟩
  intro i hi
  rw [nget_set]
  by_cases e : i = nc - 1
  · rw [if_pos e, e]
    unfold flag0
    rw [if_neg (by omega)]
  · rw [if_neg e]; exact h2 i (by omega)

/-- one marking step -/
theorem trMarkEntry_step (r : Nat) (hr : r < nr) (m : Nat) (hm : m < nget p.rownnz r) (sup : Vector Nat nc) (cp1 : Nat)
    (hsup : ∀ i, i < nc → nget sup i = flagAt p r m i)
    (hcp : cp1 = if m = 0 then 0 else colT p r (m - 1) + 1) :
    ∃ sup', trMarkEntry p.colind (nget p.rowadr r + m) (sup, cp1) = some (sup', colT p r m + 1) ∧
      ∀ i, i < nc → nget sup' i = flagAt p r (m + 1) i := by
  have hpos := adr_lt' p r hr m hm
  have hc0 : colT p r m < nc := p.colT_lt r hr m hm
  obtain ⟨c, hcdef⟩ : ∃ c, c = colT p r m := ⟨_, rfl⟩
  rw [← hcdef] at hc0 ⊢
  have e1 : p.colind[nget p.rowadr r + m] = c := by rw [getElem_eq_nget]; exact hcdef.symm
  unfold trMarkEntry
  simp only [rd_some _ _ hpos, Option.bind_eq_bind, Option.bind_some, e1]
  by_cases hb : 0 < c ∧ c ≠ cp1
  · -- a bad occurrence of column `c`: `res_rowsuper[c-1]` becomes (or stays) 0
    rw [if_pos hb]
    have hc1 : c - 1 < nc := by omega
    have hbad : badAt p r m c := by
      refine ⟨hcdef.symm, ?_⟩
      by_cases m0 : m = 0
      · exact Or.inl m0
      · right; rw [hcp, if_neg m0] at hb; exact fun h => hb.2 h.symm
    have hnew : ∀ i, i < nc → flagAt p r (m + 1) i = if i = c - 1 then 0 else flagAt p r m i := by
      intro i hi
      by_cases e : i = c - 1
      · rw [if_pos e]
        have : i + 1 = c := by omega
        unfold flagAt
        rw [if_neg]
        rw [NoBad_succ, this]
        exact fun h => h.2.2 hbad
      · rw [if_neg e]
        have hnb : ¬ badAt p r m (i + 1) := by
          intro h
          have := h.1
          rw [← hcdef] at this
          omega
        have : NoBad p r (m + 1) (i + 1) ↔ NoBad p r m (i + 1) := by
          rw [NoBad_succ]; exact ⟨fun h => h.1, fun h => ⟨h, hnb⟩⟩
        exact flagAt_congr p this
    simp only [rd_some _ _ hc1, Option.bind_some, getElem_eq_nget]
    by_cases hs : nget sup (c - 1) = 0
    · rw [if_neg (by simpa using hs)]
      refine ⟨sup, rfl, ?_⟩
      intro i hi
      rw [hnew i hi]
      by_cases e : i = c - 1
      · rw [if_pos e, e]; exact hs
      · rw [if_neg e]; exact hsup i hi
    · rw [if_pos (by simpa using hs)]
      simp only [wr_some _ _ _ hc1, Option.bind_some, Option.pure_def]
      refine ⟨_, rfl, ?_⟩
      intro i hi
      rw [hnew i hi, nget_set]
      by_cases e : i = c - 1
      · rw [if_pos e, if_pos e]
      · rw [if_neg e, if_neg e]; exact hsup i hi
  · rw [if_neg hb]
    refine ⟨sup, rfl, ?_⟩
    intro i hi
    rw [hsup i hi]
    have hnb : ¬ badAt p r m (i + 1) := by
      intro h
      have h1 := h.1
      rw [← hcdef] at h1
      have hcp' : c = cp1 := by
        by_contra hne
        exact hb ⟨by omega, hne⟩
      rcases h.2 with m0 | hne
      · rw [hcp, if_pos m0] at hcp'; omega
      · by_cases m0 : m = 0
        · rw [hcp, if_pos m0] at hcp'; omega
        · rw [hcp, if_neg m0] at hcp'; omega
    have : NoBad p r (m + 1) (i + 1) ↔ NoBad p r m (i + 1) := by
      rw [NoBad_succ]; exact ⟨fun h => h.1, fun h => ⟨h, hnb⟩⟩
    exact (flagAt_congr p this).symm

/-- the marking pass -/
theorem trMark_spec (sup : Vector Nat nc) (hsup : ∀ i, i < nc → nget sup i = flag0 p i) :
    ∃ sup', trMark p.rownnz p.rowadr p.colind 0 sup = some sup' ∧ ∀ i, i < nc → nget sup' i = flagAt p nr 0 i := by
  unfold trMark
  refine loopM_inv nr _ _ (fun r (sup : Vector Nat nc) => ∀ i, i < nc → nget sup i = flagAt p r 0 i) ?_ ?_
  · intro i hi
    rw [hsup i hi]
    unfold flagAt
    by_cases h : flag0 p i = 0
    · rw [h, if_neg (fun hh => hh.1 rfl)]
    · rw [if_pos ⟨h, NoBad_zero p _⟩]
      unfold flag0 at h ⊢
      split_ifs at h ⊢ <;> simp_all
  · intro r hr sup Q
    simp only [rd_some _ _ hr, Option.bind_eq_bind, Option.bind_some, Nat.sub_zero]
    obtain ⟨st', h1, h2⟩ := loopM_inv p.rownnz[r] (fun t st => trMarkEntry p.colind (p.rowadr[r] + t) st) (sup, 0)
      (fun m (st : Vector Nat nc × Nat) => (∀ i, i < nc → nget st.1 i = flagAt p r m i) ∧
        st.2 = if m = 0 then 0 else colT p r (m - 1) + 1)
      ⟨Q, by simp⟩
      (by
        intro m hm st I
        rw [getElem_eq_nget] at hm
        rw [getElem_eq_nget]
        obtain ⟨sup', e1, e2⟩ := trMarkEntry_step p r hr m hm st.1 st.2 I.1 I.2
        refine ⟨_, e1, e2, ?_⟩
        simp)
    rw [h1]
    refine ⟨_, rfl, ?_⟩
    intro i hi
    rw [h2.1 i hi, getElem_eq_nget]
    exact flagAt_congr p (NoBad_next p r (i + 1)).symm
end

/-- phase 3 with `res_rowsuper`: the placement of phase 3 and the marking pass, independent of each other -/
theorem trFillS_eq (mat : Vector ℝ cap) (rownnz rowadr : Vector Nat nr) (colind : Vector Nat cap) (rowOffset : Nat)
    (fs : Vector ℝ capT × Vector Nat capT × Vector Nat nc) (sup : Vector Nat nc) :
    trFillS mat rownnz rowadr colind rowOffset (fs, sup)
      = (trFill mat rownnz rowadr colind rowOffset fs).bind (fun a =>
          (trMark rownnz rowadr colind rowOffset sup).bind (fun b => some (a, b))) := by
  unfold trFillS trFill trMark
  rw [← loopM_pair]
  congr 1
  funext r st
  cases h1 : rd rowadr r with
  | none => simp
  | some a =>
    cases h2 : rd rownnz r with
    | none => simp
    | some nz =>
      simp only [Option.bind_eq_bind, Option.bind_some, Option.pure_def]
      have := loopM_pair nz (fun t => trFillEntry mat colind r (a - rowOffset + t))
        (fun t => trMarkEntry colind (a - rowOffset + t)) st.1 (st.2, 0)
      unfold trFillEntryS
      simp only [Option.bind_eq_bind, Option.pure_def]
      rw [this]
      cases loopM nz (fun t => trFillEntry mat colind r (a - rowOffset + t)) st.1 <;> simp
      cases loopM nz (fun t => trMarkEntry colind (a - rowOffset + t)) (st.2, 0) <;> simp

/-! ### what the flags mean: identical result rows -/

/-- rows `a`, `b` of a CSR-style pattern have the same number of entries and the same column indices, in order -/
def SameRow {n cp : Nat} (rownnz rowadr : Vector Nat n) (colind : Vector Nat cp) (a b : Nat) : Prop :=
  nget rownnz a = nget rownnz b ∧
    ∀ k, k < nget rownnz a → nget colind (nget rowadr a + k) = nget colind (nget rowadr b + k)

theorem SameRow.refl {n cp : Nat} (rownnz rowadr : Vector Nat n) (colind : Vector Nat cp) (a : Nat) :
    SameRow rownnz rowadr colind a a := ⟨rfl, fun _ _ => rfl⟩

theorem SameRow.trans {n cp : Nat} {rownnz rowadr : Vector Nat n} {colind : Vector Nat cp} {a b c : Nat}
    (h1 : SameRow rownnz rowadr colind a b) (h2 : SameRow rownnz rowadr colind b c) :
    SameRow rownnz rowadr colind a c :=
  ⟨h1.1.trans h2.1, fun k hk => (h1.2 k hk).trans (h2.2 k (by rw [← h1.1]; exact hk))⟩

section
variable (p : Pat nr nc cap)

/-- the columns stored in every row are strictly increasing -/
def SortedRows : Prop := ∀ r k k', k < k' → k' < nget p.rownnz r → colT p r k < colT p r k'

theorem cntRow_le_of_noBad (r i n : Nat) (h : ∀ t, t < n → ¬ badAt p r t (i + 1)) :
    cntRow p r (i + 1) n ≤ cntRow p r i n := by
  have key : ∀ m, m + 1 ≤ n → cntRow p r (i + 1) (m + 1) ≤ cntRow p r i m := by
    intro m
    induction m with
    | zero =>
      intro hm
      have hb := h 0 (by omega)
      have : colT p r 0 ≠ i + 1 := fun e => hb ⟨e, Or.inl rfl⟩
      rw [cntRow_succ, if_neg this]
      simp [cntRow]
    | succ m ih =>
      intro hm
      rw [cntRow_succ p r (i + 1) (m + 1), cntRow_succ p r i m]
      have h1 := ih (by omega)
      have hb := h (m + 1) (by omega)
      by_cases e : colT p r (m + 1) = i + 1
      · have : colT p r m = i := by
          by_contra hne
          apply hb
          refine ⟨e, Or.inr ?_⟩
          rw [Nat.add_sub_cancel]
          omega
        rw [if_pos e, if_pos this]; omega
      · rw [if_neg e]; omega
  cases n with
  | zero => simp [cntRow]
  | succ n => exact le_trans (key n le_rfl) (cntRow_mono p r i (by omega))

theorem flagAt_ne_zero {i : Nat} (hf : flagAt p nr 0 i ≠ 0) :
    (i + 1 < nc ∧ cntUpto p nr i = cntUpto p nr (i + 1)) ∧ NoBad p nr 0 (i + 1) := by
  unfold flagAt at hf
  by_cases h : flag0 p i ≠ 0 ∧ NoBad p nr 0 (i + 1)
  · refine ⟨?_, h.2⟩
    have := h.1
    unfold flag0 at this
    by_contra hh
    rw [if_neg hh] at this
    exact this rfl
  · rw [if_neg h] at hf; exact absurd rfl hf

theorem flagAt_of {i : Nat} (h1 : i + 1 < nc) (h2 : cntUpto p nr i = cntUpto p nr (i + 1)) (h3 : NoBad p nr 0 (i + 1)) :
    flagAt p nr 0 i ≠ 0 := by
  unfold flagAt
  have : flag0 p i ≠ 0 := by unfold flag0; rw [if_pos ⟨h1, h2⟩]; omega
  rw [if_pos ⟨this, h3⟩]; omega

/-- a flag that survives the marking: the two columns have the same number of entries in every row -/
theorem cntRow_eq_of_flag {i : Nat} (hf : flagAt p nr 0 i ≠ 0) :
    ∀ r, r < nr → cntRow p r i (nget p.rownnz r) = cntRow p r (i + 1) (nget p.rownnz r) := by
  obtain ⟨⟨_, hcnt⟩, hnb⟩ := flagAt_ne_zero p hf
  have hle : ∀ r ∈ range nr, cntRow p r (i + 1) (nget p.rownnz r) ≤ cntRow p r i (nget p.rownnz r) := by
    intro r hr; simp at hr
    exact cntRow_le_of_noBad p r i _ (fun t ht => hnb.1 r hr t ht)
  have := (Finset.sum_eq_sum_iff_of_le hle).mp (by unfold cntUpto at hcnt; exact hcnt.symm)
  intro r hr
  exact (this r (by simpa using hr)).symm

theorem cntUpto_eq_of_rows {c c' : Nat}
    (h : ∀ r, r < nr → cntRow p r c (nget p.rownnz r) = cntRow p r c' (nget p.rownnz r)) :
    ∀ a, a ≤ nr → cntUpto p a c = cntUpto p a c' := by
  intro a ha
  unfold cntUpto
  apply Finset.sum_congr rfl
  intro r hr; simp at hr
  exact h r (by omega)

/-- the position of an entry inside its result row determines the input row it came from -/
theorem pos_unique {c c' a b k : Nat} (hfun : ∀ x, x ≤ nr → cntUpto p x c = cntUpto p x c') (ha : a < nr) (hb : b < nr)
    (ha1 : cntUpto p a c ≤ k) (ha2 : k < cntUpto p (a + 1) c) (hb1 : cntUpto p b c' ≤ k)
    (hb2 : k < cntUpto p (b + 1) c') : a = b := by
  rcases Nat.lt_trichotomy a b with h | h | h
  · have h1 := cntUpto_mono p c (show a + 1 ≤ b by omega)
    have h2 := hfun b (by omega)
    omega
  · exact h
  · have h1 := cntUpto_mono p c' (show b + 1 ≤ a by omega)
    have h2 := hfun a (by omega)
    omega

/-- what phase 3 guarantees about the column indices `tc` of the result -/
def TrPos (tc : Vector Nat capT) : Prop :=
  ∀ c, c < nc → ∀ k, k < cntUpto p nr c → nget tc (trStart p c + k) < nr ∧
    cntUpto p (nget tc (trStart p c + k)) c ≤ k ∧ k < cntUpto p (nget tc (trStart p c + k) + 1) c

/-- soundness: a flag that survives the marking joins two identical result rows -/
theorem sameRow_of_flag (tc : Vector Nat capT) (H : TrPos p tc) {i : Nat} (hf : flagAt p nr 0 i ≠ 0) :
    i + 1 < nc ∧ cntUpto p nr i = cntUpto p nr (i + 1) ∧
      ∀ k, k < cntUpto p nr i → nget tc (trStart p i + k) = nget tc (trStart p (i + 1) + k) := by
  obtain ⟨⟨h1, hcnt⟩, _⟩ := flagAt_ne_zero p hf
  refine ⟨h1, hcnt, ?_⟩
  intro k hk
  have hfun := cntUpto_eq_of_rows p (cntRow_eq_of_flag p hf)
  obtain ⟨a1, a2, a3⟩ := H i (by omega) k hk
  obtain ⟨b1, b2, b3⟩ := H (i + 1) h1 k (by rw [← hcnt]; exact hk)
  exact pos_unique p hfun a1 b1 a2 a3 b2 b3

theorem succ_not_lt_of_same (f g E1 E2 : Nat → Nat) (T a : Nat) (hf : ∀ x y, x ≤ y → f x ≤ f y)
    (hg : ∀ x y, x ≤ y → g x ≤ g y)
    (h1 : ∀ k, k < T → f (E1 k) ≤ k ∧ k < f (E1 k + 1)) (h2 : ∀ k, k < T → g (E2 k) ≤ k ∧ k < g (E2 k + 1))
    (hE : ∀ k, k < T → E1 k = E2 k) (hab : f a = g a) (hgT : g (a + 1) ≤ T) : ¬ f (a + 1) < g (a + 1) := by
  intro hlt
  have hk : f (a + 1) < T := by omega
  obtain ⟨e1, e2⟩ := h1 _ hk
  obtain ⟨e3, e4⟩ := h2 _ hk
  rw [← hE _ hk] at e3 e4
  have hge : a + 1 ≤ E1 (f (a + 1)) := by
    by_contra hh
    have := hf (E1 (f (a + 1)) + 1) (a + 1) (by omega)
    omega
  have := hg (a + 1) (E1 (f (a + 1))) hge
  omega

/-- exactness for sorted input rows: identical adjacent result rows keep their flag -/
theorem flag_of_sameRow (tc : Vector Nat capT) (H : TrPos p tc) (hs : SortedRows p) {i : Nat} (h1 : i + 1 < nc)
    (hcnt : cntUpto p nr i = cntUpto p nr (i + 1))
    (hsame : ∀ k, k < cntUpto p nr i → nget tc (trStart p i + k) = nget tc (trStart p (i + 1) + k)) :
    flagAt p nr 0 i ≠ 0 := by
  -- the two columns have the same number of entries in every initial segment of the rows
  have hfun : ∀ a, a ≤ nr → cntUpto p a i = cntUpto p a (i + 1) := by
    intro a
    induction a with
    | zero => intro _; simp [cntUpto]
    | succ a ih =>
      intro ha
      have hab := ih (by omega)
      have m1 : ∀ c x y, x ≤ y → cntUpto p x c ≤ cntUpto p y c := fun c x y h => cntUpto_mono p c h
      have n1 : ¬ cntUpto p (a + 1) i < cntUpto p (a + 1) (i + 1) := succ_not_lt_of_same (fun x => cntUpto p x i) (fun x => cntUpto p x (i + 1))
        (fun k => nget tc (trStart p i + k)) (fun k => nget tc (trStart p (i + 1) + k)) (cntUpto p nr i) a
        (m1 i) (m1 (i + 1)) (fun k hk => (H i (by omega) k hk).2)
        (fun k hk => (H (i + 1) h1 k (by rw [← hcnt]; exact hk)).2) hsame hab
        (by rw [hcnt]; exact cntUpto_mono p (i + 1) ha)
      have n2 : ¬ cntUpto p (a + 1) (i + 1) < cntUpto p (a + 1) i := succ_not_lt_of_same (fun x => cntUpto p x (i + 1)) (fun x => cntUpto p x i)
        (fun k => nget tc (trStart p (i + 1) + k)) (fun k => nget tc (trStart p i + k)) (cntUpto p nr i) a
        (m1 (i + 1)) (m1 i) (fun k hk => (H (i + 1) h1 k (by rw [← hcnt]; exact hk)).2)
        (fun k hk => (H i (by omega) k hk).2) (fun k hk => (hsame k hk).symm) hab.symm
        (cntUpto_mono p i ha)
      omega
  have hrows : ∀ r, r < nr → cntRow p r i (nget p.rownnz r) = cntRow p r (i + 1) (nget p.rownnz r) := by
    intro r hr
    have e1 := cntUpto_succ p r i
    have e2 := cntUpto_succ p r (i + 1)
    have e3 := hfun r (by omega)
    have e4 := hfun (r + 1) (by omega)
    omega
  refine flagAt_of p h1 hcnt ⟨?_, fun t ht => by omega⟩
  intro r hr t ht hbad
  -- the row contains column i+1, hence column i; sortedness puts it immediately before
  have hpos : cntRow p r (i + 1) (nget p.rownnz r) ≠ 0 := by
    intro h0
    unfold cntRow at h0
    have := (Finset.sum_eq_zero_iff.mp h0) t (by simpa using ht)
    rw [if_pos hbad.1] at this
    omega
  have hex : ∃ t', t' < nget p.rownnz r ∧ colT p r t' = i := by
    by_contra hne
    apply hpos
    rw [← hrows r hr]
    unfold cntRow
    apply Finset.sum_eq_zero
    intro t' ht'
    rw [if_neg (fun e => hne ⟨t', by simpa using ht', e⟩)]
  obtain ⟨t', ht', hc'⟩ := hex
  have hc := hbad.1
  have hlt : t' < t := by
    rcases Nat.lt_trichotomy t' t with h | h | h
    · exact h
    · subst h; omega
    · have := hs r t t' h ht'; omega
  rcases hbad.2 with h0 | hne
  · omega
  · apply hne
    by_cases e : t' = t - 1
    · rw [← e, hc']
    · have q1 := hs r t' (t - 1) (by omega) (by omega)
      have q2 := hs r (t - 1) t (by omega) ht
      omega
end

/-! ### `mju_transposeSparse` with `res_rowsuper` -/
section
variable (p : Pat nr nc cap)

theorem flagAt_out (i : Nat) (hi : nc ≤ i + 1) : flagAt p nr 0 i = 0 := by
  unfold flagAt
  rw [if_neg]
  intro h
  apply h.1
  unfold flag0
  rw [if_neg (by omega)]

theorem transposeSparseS_spec (mat : Vector ℝ cap) (hnr : 0 < nr) (hnc : 0 < nc) (hoff : nget p.rowadr 0 = 0)
    (hcapT : ∑ r ∈ range nr, nget p.rownnz r ≤ capT) (out : TrOut ℝ nc capT) (sup0 : Vector Nat nc) :
    ∃ out' sup, transposeSparse mat p.rownnz p.rowadr p.colind nc out = some out' ∧
      transposeSparseS mat p.rownnz p.rowadr p.colind nc out sup0 = some (out', sup) ∧
      (∀ c, c < nc → RunIs (flagAt p nr 0) c (nget sup c)) ∧
      (∀ i, flagAt p nr 0 i ≠ 0 → i + 1 < nc ∧ SameRow out'.rownnz out'.rowadr out'.colind i (i + 1)) ∧
      (SortedRows p → ∀ i, i + 1 < nc → SameRow out'.rownnz out'.rowadr out'.colind i (i + 1) →
        flagAt p nr 0 i ≠ 0) := by
  have hcap' : trStart p nc ≤ capT := by rw [trStart_total]; exact hcapT
  obtain ⟨cnt, hc1, hc2⟩ := trCount_spec p
  obtain ⟨sup1, hi1, hi2⟩ := trSuperInit_spec p hnc cnt sup0 hc2
  obtain ⟨adr, ha1, ha2⟩ := trStarts_spec p hnc cnt (out.rowadr.set 0 0 hnc) hc2 (by rw [nget_set, if_pos rfl])
  obtain ⟨st, hf1, F⟩ := trFill_spec p mat hoff hcap' out.res out.colind adr ha2
  obtain ⟨sup2, hm1, hm2⟩ := trMark_spec p sup1 hi2
  have hd : ∀ c, trDone p nr 0 c = cntUpto p nr c := by intro c; simp [trDone, cntRow]
  obtain ⟨adr', hs1, hs2⟩ := trShift_spec p hnc st.2.2
    (by intro c hc; rw [F.adr c hc, hd, trStart_succ])
  have hfun : nget sup2 = flagAt p nr 0 := by
    funext i
    by_cases hi : i < nc
    · exact hm2 i hi
    · rw [flagAt_out p i (by omega)]
      unfold nget; rw [dif_neg hi]
  obtain ⟨sup3, hacc1, hacc2⟩ := superAccum_spec sup2
    (by intro i; rw [hfun]; exact flagAt_le p nr 0 i)
    (by rw [hfun]; exact flagAt_out p _ (by omega))
  have hoff' : p.rowadr[0] = 0 := by rw [getElem_eq_nget]; exact hoff
  have H : TrPos p st.2.1 := by
    intro c hc k hk
    exact ⟨F.lt c hc k (by rw [hd]; exact hk), F.pos c hc k (by rw [hd]; exact hk)⟩
  refine ⟨{ res := st.1, rownnz := cnt, rowadr := adr', colind := st.2.1 }, sup3, ?_, ?_, ?_, ?_, ?_⟩
  · unfold transposeSparse
    rw [dif_neg (by omega)]
    simp only [hoff', hc1, ha1, hf1, hs1, Option.bind_eq_bind, Option.bind_some, Option.pure_def]
  · unfold transposeSparseS
    rw [dif_neg (by omega)]
    simp only [hoff', hc1, hi1, ha1, trFillS_eq, hf1, hm1, hs1, hacc1, Option.bind_eq_bind, Option.bind_some,
      Option.pure_def]
  · intro c hc
    rw [← hfun]; exact hacc2 c hc
  · intro i hf
    obtain ⟨h1, h2, h3⟩ := sameRow_of_flag p st.2.1 H hf
    refine ⟨h1, ?_, ?_⟩
    · show nget cnt i = nget cnt (i + 1)
      rw [hc2 i (by omega), hc2 (i + 1) h1]; exact h2
    · intro k hk
      show nget st.2.1 (nget adr' i + k) = nget st.2.1 (nget adr' (i + 1) + k)
      rw [hs2 i (by omega), hs2 (i + 1) h1]
      exact h3 k (by rw [← hc2 i (by omega)]; exact hk)
  · intro hs i h1 hsame
    obtain ⟨e1, e2⟩ := hsame
    have e1' : cntUpto p nr i = cntUpto p nr (i + 1) := by
      have : nget cnt i = nget cnt (i + 1) := e1
      rwa [hc2 i (by omega), hc2 (i + 1) h1] at this
    refine flag_of_sameRow p st.2.1 H hs h1 e1' ?_
    intro k hk
    have := e2 k (by show k < nget cnt i; rw [hc2 i (by omega)]; exact hk)
    have e3 : nget st.2.1 (nget adr' i + k) = nget st.2.1 (nget adr' (i + 1) + k) := this
    rwa [hs2 i (by omega), hs2 (i + 1) h1] at e3
end

/-! ### `mju_superSparse` -/
section
variable (p : Pat nr nc cap)

open Classical in
/-- rows `r`, `r+1` of the pattern are identical -/
noncomputable def flagS (r : Nat) : Nat :=
  if r + 1 < nr ∧ SameRow p.rownnz p.rowadr p.colind r (r + 1) then 1 else 0

theorem flagS_le (r : Nat) : flagS p r ≤ 1 := by unfold flagS; split_ifs <;> omega

theorem superFlag_eq (r : Nat) (h : r + 1 < nr) : superFlag p r h = flagS p r := by
  have hr : r < nr := by omega
  unfold superFlag flagS SameRow
  by_cases hn : p.rownnz[r] = p.rownnz[r + 1]
  · have hn' : nget p.rownnz r = nget p.rownnz (r + 1) := by
      rwa [getElem_eq_nget, getElem_eq_nget] at hn
    rw [dif_pos hn]
    by_cases hall : ∀ k (hk : k < p.rownnz[r]), p.col r hr k hk = p.col (r + 1) h k (hn ▸ hk)
    · rw [if_pos hall, if_pos]
      refine ⟨h, hn', ?_⟩
      intro k hk
      have hk' : k < p.rownnz[r] := by rwa [getElem_eq_nget]
      have := hall k hk'
      rwa [p.col_eq, p.col_eq] at this
    · rw [if_neg hall, if_neg]
      intro hh
      apply hall
      intro k hk
      rw [p.col_eq, p.col_eq]
      exact hh.2.2 k (by rwa [getElem_eq_nget] at hk)
  · rw [dif_neg hn, if_neg]
    intro hh
    apply hn
    rw [getElem_eq_nget, getElem_eq_nget]
    exact hh.2.1

theorem superSparse_spec (hnr : 0 < nr) (sup0 : Vector Nat nr) :
    ∃ sup, superSparse p sup0 = some sup ∧ ∀ r, r < nr → RunIs (flagS p) r (nget sup r) := by
  unfold superSparse
  rw [if_neg (by omega)]
  have key := fold_inv (n := nr - 1) (s := sup0)
    (body := fun r hr (sup : Vector Nat nr) => sup.set r (superFlag p r (by omega)) (by omega))
    (fun m (sup : Vector Nat nr) => ∀ i, i < m → nget sup i = flagS p i)
    (by intro i hi; omega)
    (by
      intro m hm sup Q i hi
      rw [nget_set]
      by_cases e : i = m
      · rw [if_pos e, e]; exact superFlag_eq p m (by omega)
      · rw [if_neg e]; exact Q i (by omega))
  have hl : nr - 1 < nr := by omega
  simp only [Option.bind_eq_bind, wr_some _ _ _ hl, Option.bind_some]
  generalize Nat.fold (nr - 1) (fun r hr (sup : Vector Nat nr) => sup.set r (superFlag p r (by omega)) (by omega)) sup0
    = sup1 at key ⊢
  have hfun : nget (sup1.set (nr - 1) 0 hl) = flagS p := by
    funext i
    rw [nget_set]
    by_cases e : i = nr - 1
    · rw [if_pos e]; unfold flagS; rw [if_neg (by omega)]
    · rw [if_neg e]
      by_cases hi : i < nr
      · exact key i (by omega)
      · unfold nget flagS; rw [dif_neg hi, if_neg (by omega)]
  obtain ⟨sup3, h1, h2⟩ := superAccum_spec (sup1.set (nr - 1) 0 hl)
    (by intro i; rw [hfun]; exact flagS_le p i)
    (by rw [hfun]; unfold flagS; rw [if_neg (by omega)])
  refine ⟨sup3, h1, ?_⟩
  intro r hr
  rw [← hfun]; exact h2 r hr
end

end MjProof.Sparse
