import MjProof.Model.Integrate
import MjProof.Lemmas.Spatial
import Mathlib.Tactic.Ring
import Mathlib.Tactic.Linarith
import Mathlib.Tactic.NormNum
import Mathlib.Tactic.FieldSimp
import Mathlib.Tactic.Positivity
/-
C05 helper lemmas over ℝ about the hand model `MjProof/Model/Integrate.lean` and the generated kernels it uses
(`mju_quatIntegrate`, `mju_normalize3/4`, `mju_clip`, `mju_max`).  The closed forms of the generated spatial
kernels come from `MjProof/Lemmas/Spatial.lean` (proved there from the generated definitions).
-/
namespace MjProof.Integrate
open MjProof MjProof.Gen MjProof.Spatial

/-! ### quaternion integration -/

/-- squared norm of a quaternion given as a tuple -/
def nsq4 (q : ℝ × ℝ × ℝ × ℝ) : ℝ := q.1 * q.1 + q.2.1 * q.2.1 + q.2.2.1 * q.2.2.1 + q.2.2.2 * q.2.2.2
def nsq3 (v : ℝ × ℝ × ℝ) : ℝ := v.1 * v.1 + v.2.1 * v.2.1 + v.2.2 * v.2.2

theorem nsq4_nonneg (q : ℝ × ℝ × ℝ × ℝ) : 0 ≤ nsq4 q := sumsq4_nonneg _ _ _ _
theorem nsq3_nonneg (v : ℝ × ℝ × ℝ) : 0 ≤ nsq3 v := sumsq3_nonneg _ _ _

/-- `mju_normalize3` always returns a unit vector (reset to (1,0,0) below mjMINVAL, divided otherwise) -/
theorem normalize3_unit (v0 v1 v2 : ℝ) :
    let n := mju_normalize3 v0 v1 v2
    n.2.1 * n.2.1 + n.2.2.1 * n.2.2.1 + n.2.2.2 * n.2.2.2 = 1 := by
  intro n
  simp only [n, mju_normalize3_eq]
  split_ifs with h
  · norm_num
  · have hs : 0 < Real.sqrt (v0*v0 + v1*v1 + v2*v2) := lt_of_lt_of_le minval_pos (not_lt.mp h)
    exact unit3_of_div _ _ _ _ hs (Real.mul_self_sqrt (sumsq3_nonneg _ _ _))

/-- `mju_axisAngle2Quat` of a unit axis is a unit quaternion (both branches of `angle == 0`) -/
theorem axisAngle_unit (x0 x1 x2 a : ℝ) (h : x0*x0 + x1*x1 + x2*x2 = 1) :
    nsq4 (mju_axisAngle2Quat x0 x1 x2 a) = 1 := by
  simp only [mju_axisAngle2Quat_eq, nsq4]
  have := Real.sin_sq_add_cos_sq (a * (1/2))
  have e : Real.cos (a * (1/2)) * Real.cos (a * (1/2)) + x0 * Real.sin (a * (1/2)) * (x0 * Real.sin (a * (1/2)))
      + x1 * Real.sin (a * (1/2)) * (x1 * Real.sin (a * (1/2))) + x2 * Real.sin (a * (1/2)) * (x2 * Real.sin (a * (1/2)))
      = Real.cos (a * (1/2)) ^ 2 + (x0*x0 + x1*x1 + x2*x2) * Real.sin (a * (1/2)) ^ 2 := by ring
  rw [e, h]; linarith

theorem mulQuat_nsq (a0 a1 a2 a3 b0 b1 b2 b3 : ℝ) :
    nsq4 (mju_mulQuat a0 a1 a2 a3 b0 b1 b2 b3) = nsq4 (a0, a1, a2, a3) * nsq4 (b0, b1, b2, b3) := by
  simp only [mju_mulQuat_eq, nsq4]; ring

/-- the three branches of `mju_normalize4` -/
theorem normalize4_cases (q0 q1 q2 q3 : ℝ) :
    let s := Real.sqrt (nsq4 (q0, q1, q2, q3))
    let r := (mju_normalize4 q0 q1 q2 q3).2
    ((s < minval ∨ minval < |s - 1|) ∧ nsq4 r = 1) ∨ (minval ≤ s ∧ |s - 1| ≤ minval ∧ r = (q0, q1, q2, q3)) := by
  intro s r
  simp only [r, s, mju_normalize4_eq, nsq4]
  split_ifs with h1 h2
  · left; exact ⟨Or.inl h1, by norm_num⟩
  · left
    have hs : 0 < Real.sqrt (q0*q0 + q1*q1 + q2*q2 + q3*q3) := lt_of_lt_of_le minval_pos (not_lt.mp h1)
    exact ⟨Or.inr h2, unit4_of_div _ _ _ _ _ hs (Real.mul_self_sqrt (sumsq4_nonneg _ _ _ _))⟩
  · right; exact ⟨not_lt.mp h1, not_lt.mp h2, rfl⟩

/-- the integration step multiplies the normalised quaternion by a unit quaternion -/
theorem quatIntegrate_nsq (q0 q1 q2 q3 v0 v1 v2 h : ℝ) :
    nsq4 (mju_quatIntegrate q0 q1 q2 q3 v0 v1 v2 h) = nsq4 (mju_normalize4 q0 q1 q2 q3).2 := by
  rw [mju_quatIntegrate_eq]
  simp only []
  rw [mulQuat_nsq]
  have hu := axisAngle_unit _ _ _ (h * (mju_normalize3 v0 v1 v2).1) (normalize3_unit v0 v1 v2)
  have e : nsq4 ((mju_axisAngle2Quat (mju_normalize3 v0 v1 v2).2.1 (mju_normalize3 v0 v1 v2).2.2.1
      (mju_normalize3 v0 v1 v2).2.2.2 (h * (mju_normalize3 v0 v1 v2).1)).1,
      (mju_axisAngle2Quat (mju_normalize3 v0 v1 v2).2.1 (mju_normalize3 v0 v1 v2).2.2.1
      (mju_normalize3 v0 v1 v2).2.2.2 (h * (mju_normalize3 v0 v1 v2).1)).2.1,
      (mju_axisAngle2Quat (mju_normalize3 v0 v1 v2).2.1 (mju_normalize3 v0 v1 v2).2.2.1
      (mju_normalize3 v0 v1 v2).2.2.2 (h * (mju_normalize3 v0 v1 v2).1)).2.2.1,
      (mju_axisAngle2Quat (mju_normalize3 v0 v1 v2).2.1 (mju_normalize3 v0 v1 v2).2.2.1
      (mju_normalize3 v0 v1 v2).2.2.2 (h * (mju_normalize3 v0 v1 v2).1)).2.2.2) = 1 := hu
  rw [e, mul_one]

/-- every result of the generated `mju_quatIntegrate` is within mjMINVAL of unit norm -/
theorem integrateQuat_near_unit (q : ℝ × ℝ × ℝ × ℝ) (w : ℝ × ℝ × ℝ) (h : ℝ) :
    |Real.sqrt (nsq4 (integrateQuat q w h)) - 1| ≤ minval := by
  obtain ⟨q0, q1, q2, q3⟩ := q
  simp only [integrateQuat]
  rw [quatIntegrate_nsq]
  rcases normalize4_cases q0 q1 q2 q3 with ⟨_, e⟩ | ⟨_, hb, e⟩
  · rw [e, Real.sqrt_one, sub_self, abs_zero]; exact minval_pos.le
  · rw [e]; exact hb

/-- exactly unit whenever `mju_normalize4` resets or divides, or the input is exactly unit -/
theorem integrateQuat_unit_of (q : ℝ × ℝ × ℝ × ℝ) (w : ℝ × ℝ × ℝ) (h : ℝ)
    (hq : Real.sqrt (nsq4 q) < minval ∨ minval < |Real.sqrt (nsq4 q) - 1| ∨ nsq4 q = 1) :
    nsq4 (integrateQuat q w h) = 1 := by
  obtain ⟨q0, q1, q2, q3⟩ := q
  simp only [integrateQuat]
  rw [quatIntegrate_nsq]
  rcases normalize4_cases q0 q1 q2 q3 with ⟨_, e⟩ | ⟨h1, hb, e⟩
  · exact e
  · rw [e]
    rcases hq with h' | h' | h'
    · exact absurd h' (not_lt.mpr h1)
    · exact absurd h' (not_lt.mpr hb)
    · exact h'

/-! ### `mj_integratePosInd`: structure of the result -/

/-- the quaternion slots of a qpos vector with the given joint layout -/
def quatsOf {α : Type} : List JType → List α → Option (List (α × α × α × α))
  | [], [] => some []
  | [], _ => none
  | .free :: ts, qp => do
      let (_, r1) ← take3 qp
      let (q, r2) ← take4 r1
      let rest ← quatsOf ts r2
      pure (q :: rest)
  | .ball :: ts, qp => do
      let (q, r) ← take4 qp
      let rest ← quatsOf ts r
      pure (q :: rest)
  | .slide :: ts, qp => do
      let (_, r) ← take1 qp
      quatsOf ts r
  | .hinge :: ts, qp => do
      let (_, r) ← take1 qp
      quatsOf ts r

theorem integratePos_quatsOf (ts : List JType) (h : ℝ) : ∀ (qp qv qp' : List ℝ),
    integratePos ts qp qv h = some qp' →
    ∃ qs ws, quatsOf ts qp = some qs ∧ qs.length = ws.length ∧
      quatsOf ts qp' = some (List.zipWith (fun q w => integrateQuat q w h) qs ws) := by
  induction ts with
  | nil =>
    intro qp qv qp' H
    rcases qp with _ | ⟨a, qp⟩ <;> rcases qv with _ | ⟨b, qv⟩ <;> simp [integratePos] at H
    subst H
    exact ⟨[], [], by simp [quatsOf], rfl, by simp [quatsOf]⟩
  | cons t ts ih =>
    intro qp qv qp' H
    cases t with
    | free =>
      rcases qp with _ | ⟨p0, _ | ⟨p1, _ | ⟨p2, _ | ⟨q0, _ | ⟨q1, _ | ⟨q2, _ | ⟨q3, qp2⟩⟩⟩⟩⟩⟩⟩ <;>
        try (simp [integratePos, take3, take4] at H; done)
      rcases qv with _ | ⟨v0, _ | ⟨v1, _ | ⟨v2, _ | ⟨w0, _ | ⟨w1, _ | ⟨w2, qv2⟩⟩⟩⟩⟩⟩ <;>
        try (simp [integratePos, take3, take4] at H; done)
      cases hr : integratePos ts qp2 qv2 h with
      | none => simp [integratePos, take3, take4, hr] at H
      | some rest =>
      simp [integratePos, take3, take4, hr] at H
      subst H
      obtain ⟨qs, ws, h1, h2, h3⟩ := ih _ _ _ hr
      refine ⟨(q0, q1, q2, q3) :: qs, (w0, w1, w2) :: ws, ?_, by simp [h2], ?_⟩
      · simp [quatsOf, take3, take4, h1]
      · simp [quatsOf, take3, take4, h3]
    | ball =>
      rcases qp with _ | ⟨q0, _ | ⟨q1, _ | ⟨q2, _ | ⟨q3, qp2⟩⟩⟩⟩ <;>
        try (simp [integratePos, take3, take4] at H; done)
      rcases qv with _ | ⟨w0, _ | ⟨w1, _ | ⟨w2, qv2⟩⟩⟩ <;>
        try (simp [integratePos, take3, take4] at H; done)
      cases hr : integratePos ts qp2 qv2 h with
      | none => simp [integratePos, take3, take4, hr] at H
      | some rest =>
      simp [integratePos, take3, take4, hr] at H
      subst H
      obtain ⟨qs, ws, h1, h2, h3⟩ := ih _ _ _ hr
      refine ⟨(q0, q1, q2, q3) :: qs, (w0, w1, w2) :: ws, ?_, by simp [h2], ?_⟩
      · simp [quatsOf, take4, h1]
      · simp [quatsOf, take4, h3]
    | slide =>
      rcases qp with _ | ⟨x, qp2⟩ <;> try (simp [integratePos, take1] at H; done)
      rcases qv with _ | ⟨v, qv2⟩ <;> try (simp [integratePos, take1] at H; done)
      cases hr : integratePos ts qp2 qv2 h with
      | none => simp [integratePos, take1, hr] at H
      | some rest =>
      simp [integratePos, take1, hr] at H
      subst H
      obtain ⟨qs, ws, h1, h2, h3⟩ := ih _ _ _ hr
      exact ⟨qs, ws, by simp [quatsOf, take1, h1], h2, by simp [quatsOf, take1, h3]⟩
    | hinge =>
      rcases qp with _ | ⟨x, qp2⟩ <;> try (simp [integratePos, take1] at H; done)
      rcases qv with _ | ⟨v, qv2⟩ <;> try (simp [integratePos, take1] at H; done)
      cases hr : integratePos ts qp2 qv2 h with
      | none => simp [integratePos, take1, hr] at H
      | some rest =>
      simp [integratePos, take1, hr] at H
      subst H
      obtain ⟨qs, ws, h1, h2, h3⟩ := ih _ _ _ hr
      exact ⟨qs, ws, by simp [quatsOf, take1, h1], h2, by simp [quatsOf, take1, h3]⟩

/-- the result of `mj_integratePosInd` has the length of `qpos` -/
theorem integratePos_length' (ts : List JType) (h : ℝ) : ∀ (qp qv qp' : List ℝ),
    integratePos ts qp qv h = some qp' → qp'.length = qp.length := by
  induction ts with
  | nil =>
    intro qp qv qp' H
    rcases qp with _ | ⟨a, qp⟩ <;> rcases qv with _ | ⟨b, qv⟩ <;> simp [integratePos] at H
    subst H; rfl
  | cons t ts ih =>
    intro qp qv qp' H
    cases t with
    | free =>
      rcases qp with _ | ⟨p0, _ | ⟨p1, _ | ⟨p2, _ | ⟨q0, _ | ⟨q1, _ | ⟨q2, _ | ⟨q3, qp2⟩⟩⟩⟩⟩⟩⟩ <;>
        try (simp [integratePos, take3, take4] at H; done)
      rcases qv with _ | ⟨v0, _ | ⟨v1, _ | ⟨v2, _ | ⟨w0, _ | ⟨w1, _ | ⟨w2, qv2⟩⟩⟩⟩⟩⟩ <;>
        try (simp [integratePos, take3, take4] at H; done)
      cases hr : integratePos ts qp2 qv2 h with
      | none => simp [integratePos, take3, take4, hr] at H
      | some rest =>
      simp [integratePos, take3, take4, hr] at H
      subst H
      simp [ih _ _ _ hr]
    | ball =>
      rcases qp with _ | ⟨q0, _ | ⟨q1, _ | ⟨q2, _ | ⟨q3, qp2⟩⟩⟩⟩ <;>
        try (simp [integratePos, take3, take4] at H; done)
      rcases qv with _ | ⟨w0, _ | ⟨w1, _ | ⟨w2, qv2⟩⟩⟩ <;>
        try (simp [integratePos, take3, take4] at H; done)
      cases hr : integratePos ts qp2 qv2 h with
      | none => simp [integratePos, take3, take4, hr] at H
      | some rest =>
      simp [integratePos, take3, take4, hr] at H
      subst H
      simp [ih _ _ _ hr]
    | slide =>
      rcases qp with _ | ⟨x, qp2⟩ <;> try (simp [integratePos, take1] at H; done)
      rcases qv with _ | ⟨v, qv2⟩ <;> try (simp [integratePos, take1] at H; done)
      cases hr : integratePos ts qp2 qv2 h with
      | none => simp [integratePos, take1, hr] at H
      | some rest =>
      simp [integratePos, take1, hr] at H
      subst H
      simp [ih _ _ _ hr]
    | hinge =>
      rcases qp with _ | ⟨x, qp2⟩ <;> try (simp [integratePos, take1] at H; done)
      rcases qv with _ | ⟨v, qv2⟩ <;> try (simp [integratePos, take1] at H; done)
      cases hr : integratePos ts qp2 qv2 h with
      | none => simp [integratePos, take1, hr] at H
      | some rest =>
      simp [integratePos, take1, hr] at H
      subst H
      simp [ih _ _ _ hr]

theorem forall_zipWith {β γ δ : Type} (f : β → γ → δ) (P : δ → Prop) (hP : ∀ a b, P (f a b)) :
    ∀ (l1 : List β) (l2 : List γ), ∀ x ∈ List.zipWith f l1 l2, P x := by
  intro l1 l2 x hx
  rw [List.mem_iff_getElem] at hx
  obtain ⟨i, hi, rfl⟩ := hx
  rw [List.getElem_zipWith]
  exact hP _ _

/-! ### `mju_addToScl` combinations -/

theorem axpy_nil (s : ℝ) : axpy ([] : List ℝ) [] s = [] := rfl
theorem axpy_cons (r v : ℝ) (rs vs : List ℝ) (s : ℝ) : axpy (r :: rs) (v :: vs) s = (r + v * s) :: axpy rs vs s := rfl

def map3 (f : ℝ → ℝ → ℝ → ℝ) : List ℝ → List ℝ → List ℝ → List ℝ
  | a :: as, b :: bs, c :: cs => f a b c :: map3 f as bs cs
  | _, _, _ => []
def map4 (f : ℝ → ℝ → ℝ → ℝ → ℝ) : List ℝ → List ℝ → List ℝ → List ℝ → List ℝ
  | a :: as, b :: bs, c :: cs, d :: ds => f a b c d :: map4 f as bs cs ds
  | _, _, _, _ => []

theorem comb1_eq (n : ℕ) (a : ℝ) : ∀ (x : List ℝ), x.length = n → comb n [(x, a)] = x.map (fun u => a * u) := by
  induction n with
  | zero => intro x hx; rw [List.length_eq_zero_iff.mp hx]; rfl
  | succ n ih =>
    intro x hx
    rcases x with _ | ⟨u, x⟩
    · simp at hx
    · have := ih x (by simpa using hx)
      simp only [comb, List.foldl_cons, List.foldl_nil, List.replicate_succ, axpy_cons, List.map_cons] at this ⊢
      rw [this]
      simp only [real_ofInt, Int.cast_zero, zero_add, mul_comm]

theorem comb2_eq (n : ℕ) (a b : ℝ) : ∀ (x y : List ℝ), x.length = n → y.length = n →
    comb n [(x, a), (y, b)] = List.zipWith (fun u v => a * u + b * v) x y := by
  induction n with
  | zero => intro x y hx hy; rw [List.length_eq_zero_iff.mp hx, List.length_eq_zero_iff.mp hy]; rfl
  | succ n ih =>
    intro x y hx hy
    rcases x with _ | ⟨u, x⟩
    · simp at hx
    rcases y with _ | ⟨v, y⟩
    · simp at hy
    have := ih x y (by simpa using hx) (by simpa using hy)
    simp only [comb, List.foldl_cons, List.foldl_nil, List.replicate_succ, axpy_cons, List.zipWith_cons_cons] at this ⊢
    rw [this]
    congr 1
    simp only [real_ofInt, Int.cast_zero]; ring

theorem comb3_eq (n : ℕ) (a b c : ℝ) : ∀ (x y z : List ℝ), x.length = n → y.length = n → z.length = n →
    comb n [(x, a), (y, b), (z, c)] = map3 (fun u v w => a * u + b * v + c * w) x y z := by
  induction n with
  | zero =>
    intro x y z hx hy hz
    rw [List.length_eq_zero_iff.mp hx, List.length_eq_zero_iff.mp hy, List.length_eq_zero_iff.mp hz]; rfl
  | succ n ih =>
    intro x y z hx hy hz
    rcases x with _ | ⟨u, x⟩
    · simp at hx
    rcases y with _ | ⟨v, y⟩
    · simp at hy
    rcases z with _ | ⟨w, z⟩
    · simp at hz
    have := ih x y z (by simpa using hx) (by simpa using hy) (by simpa using hz)
    simp only [comb, List.foldl_cons, List.foldl_nil, List.replicate_succ, axpy_cons, map3] at this ⊢
    rw [this]
    congr 1
    simp only [real_ofInt, Int.cast_zero]; ring

theorem comb4_eq (n : ℕ) (a b c e : ℝ) : ∀ (x y z t : List ℝ), x.length = n → y.length = n → z.length = n →
    t.length = n →
    comb n [(x, a), (y, b), (z, c), (t, e)] = map4 (fun u v w s => a * u + b * v + c * w + e * s) x y z t := by
  induction n with
  | zero =>
    intro x y z t hx hy hz ht
    rw [List.length_eq_zero_iff.mp hx, List.length_eq_zero_iff.mp hy, List.length_eq_zero_iff.mp hz,
      List.length_eq_zero_iff.mp ht]; rfl
  | succ n ih =>
    intro x y z t hx hy hz ht
    rcases x with _ | ⟨u, x⟩
    · simp at hx
    rcases y with _ | ⟨v, y⟩
    · simp at hy
    rcases z with _ | ⟨w, z⟩
    · simp at hz
    rcases t with _ | ⟨s, t⟩
    · simp at ht
    have := ih x y z t (by simpa using hx) (by simpa using hy) (by simpa using hz) (by simpa using ht)
    simp only [comb, List.foldl_cons, List.foldl_nil, List.replicate_succ, axpy_cons, map4] at this ⊢
    rw [this]
    congr 1
    simp only [real_ofInt, Int.cast_zero]; ring

theorem axpy_eq (r v : List ℝ) (s : ℝ) : axpy r v s = List.zipWith (fun a b => a + s * b) r v := by
  simp only [axpy]
  congr 1
  funext a b
  ring

/-! ### `mju_clip`, `mju_max` over ℝ -/

theorem mju_clip_eq (x lo hi : ℝ) : mju_clip x lo hi = if x < lo then lo else if hi < x then hi else x := by
  simp only [mju_clip, real_lt_iff]

theorem mju_clip_mem (x lo hi : ℝ) (h : lo ≤ hi) : lo ≤ mju_clip x lo hi ∧ mju_clip x lo hi ≤ hi := by
  rw [mju_clip_eq]
  split_ifs with h1 h2
  · exact ⟨le_refl _, h⟩
  · exact ⟨h, le_refl _⟩
  · exact ⟨not_lt.mp h1, not_lt.mp h2⟩

theorem mju_clip_of_mem (x lo hi : ℝ) (h1 : lo ≤ x) (h2 : x ≤ hi) : mju_clip x lo hi = x := by
  rw [mju_clip_eq, if_neg (not_lt.mpr h1), if_neg (not_lt.mpr h2)]

theorem mju_max_eq (a b : ℝ) : mju_max a b = max a b := by
  simp only [mju_max, real_le_iff]
  split_ifs with h
  · exact (max_eq_left h).symm
  · exact (max_eq_right (le_of_lt (not_le.mp h))).symm

theorem mjMINVAL_real : (RK4.mjMINVAL : ℝ) = minval := by
  simp only [RK4.mjMINVAL]; exact ofSci_minval
theorem mjPI_real : (RK4.mjPI : ℝ) = piLit := by
  simp only [RK4.mjPI]; exact ofSci_pi

/-! ### `mj_nextActivation` -/

theorem nextActivation_mem (p : ActSlot ℝ) (h act adot : ℝ) (hl : p.actlimited = true)
    (hd : p.dyntype ≠ RK4.mjDYN_DCMOTOR) (hr : p.lo ≤ p.hi) :
    p.lo ≤ nextActivation p h act adot ∧ nextActivation p h act adot ≤ p.hi := by
  simp only [nextActivation]
  rw [if_pos ⟨hd, hl⟩]
  exact mju_clip_mem _ _ _ hr

theorem nextActivation_euler (p : ActSlot ℝ) (h act adot : ℝ) (h1 : p.dyntype ≠ RK4.mjDYN_FILTEREXACT)
    (h2 : p.dyntype ≠ RK4.mjDYN_DCMOTOR) :
    nextActRaw p h act adot = act + h * adot := by
  have h1' : ¬ (p.dyntype = RK4.mjDYN_FILTEREXACT ∧ p.offset = p.actnum - 1) := fun hh => h1 hh.1
  simp only [nextActRaw, if_neg h1', if_neg h2]; ring

theorem filterExact_eq (t h act u : ℝ) (ht : minval ≤ t) :
    filterExact t h act ((u - act) / t) = act + (u - act) * (1 - Real.exp (-h / t)) := by
  have ht0 : 0 < t := lt_of_lt_of_le minval_pos ht
  simp only [filterExact, mju_max_eq, mjMINVAL_real, max_eq_right ht, real_ofInt, real_exp]
  have : (u - act) / t * t = u - act := by field_simp
  rw [this]; norm_num

/-! ### `mj_advance`, `mj_RungeKutta` -/

theorem axpy_length (r v : List ℝ) (s : ℝ) : (axpy r v s).length = min r.length v.length := by
  simp [axpy]

theorem foldl_axpy_length (n : ℕ) : ∀ (terms : List (List ℝ × ℝ)) (acc : List ℝ), acc.length = n →
    (∀ t ∈ terms, t.1.length = n) →
    (terms.foldl (fun acc t => axpy acc t.1 t.2) acc).length = n := by
  intro terms
  induction terms with
  | nil => intro acc h _; simpa using h
  | cons t ts ih =>
    intro acc h ht
    simp only [List.foldl_cons]
    apply ih
    · rw [axpy_length, h, ht t (by simp)]; simp
    · intro t' h'; exact ht t' (by simp [h'])

theorem comb_length (n : ℕ) (terms : List (List ℝ × ℝ)) (ht : ∀ t ∈ terms, t.1.length = n) :
    (comb n terms).length = n := by
  simp only [comb]
  exact foldl_axpy_length n terms _ (by simp) ht

/-- what a successful `advance` returns -/
theorem advance_some (P : Params ℝ) (s s' : State ℝ) (adot qacc : List ℝ) (vo : Option (List ℝ)) :
    advance P s adot qacc vo = some s' →
    s'.time = s.time + P.h ∧ s'.qvel = axpy s.qvel qacc P.h ∧ qacc.length = s.qvel.length ∧
    integratePos P.jtypes s.qpos (vo.getD (axpy s.qvel qacc P.h)) P.h = some s'.qpos ∧
    (if s.act.isEmpty ∨ P.actuationDisabled then s'.act = s.act
     else advanceAct P.actuators P.h s.act adot = some s'.act) := by
  intro H
  unfold advance at H
  simp only [Option.bind_eq_bind, Option.pure_def] at H
  split_ifs at H with h1 h2 h2
  · simp at H
  · simp only [Option.bind_some, Option.bind_eq_some_iff] at H
    obtain ⟨qp, hq, hs⟩ := H
    cases hs
    refine ⟨rfl, rfl, not_not.mp h2, by cases vo <;> exact hq, ?_⟩
    rw [if_pos h1]
  · simp only [Option.bind_eq_some_iff] at H
    obtain ⟨a, ha, H⟩ := H
    simp at H
  · simp only [Option.bind_eq_some_iff] at H
    obtain ⟨a, ha, qp, hq, hs⟩ := H
    cases hs
    refine ⟨rfl, rfl, not_not.mp h2, by cases vo <;> exact hq, ?_⟩
    rw [if_neg h1]; exact ha

theorem allLen_iff (n : ℕ) (ls : List (List ℝ)) : allLen n ls = true ↔ ∀ l ∈ ls, l.length = n := by
  simp [allLen, List.all_eq_true]

/-- what a successful `stage` returns -/
theorem stage_some (P : Params ℝ) (x0 x : State ℝ) (vs : List (List ℝ)) (fs : List (Deriv ℝ)) (coefs : List ℝ) :
    stage P x0 vs fs coefs = some x →
    (∀ l ∈ vs, l.length = x0.qvel.length) ∧ (∀ f ∈ fs, f.qacc.length = x0.qvel.length) ∧
    (∀ f ∈ fs, f.actDot.length = x0.act.length) ∧
    x.time = x0.time + (coefs.foldl (· + ·) 0) * P.h ∧
    x.qvel = axpy x0.qvel (comb x0.qvel.length ((fs.map (·.qacc)).zip coefs)) P.h ∧
    x.act = axpy x0.act (comb x0.act.length ((fs.map (·.actDot)).zip coefs)) P.h ∧
    integratePos P.jtypes x0.qpos (comb x0.qvel.length (vs.zip coefs)) P.h = some x.qpos := by
  intro H
  unfold stage at H
  simp only [] at H
  split_ifs at H with hg
  simp only [Option.bind_eq_bind, Option.pure_def, Option.bind_eq_some_iff] at H
  obtain ⟨qp, hq, hs⟩ := H
  cases hs
  simp only [not_or, not_not, Bool.not_eq_true, ne_eq] at hg
  obtain ⟨_, _, h3, h4, h5⟩ := hg
  have h3' := (allLen_iff _ _).mp (by simpa using h3)
  have h4' := (allLen_iff _ _).mp (by simpa using h4)
  have h5' := (allLen_iff _ _).mp (by simpa using h5)
  refine ⟨h3', ?_, ?_, ?_, rfl, rfl, hq⟩
  · intro f hf; exact h4' _ (List.mem_map_of_mem hf)
  · intro f hf; exact h5' _ (List.mem_map_of_mem hf)
  · simp [real_ofInt]

/-- the generated tableau over ℝ -/
theorem rk4A_real : (RK4.A : List ℝ) = [1/2, 0, 0, 0, 1/2, 0, 0, 0, 1] := by
  simp only [RK4.A, real_ofInt, ofSci_half]; norm_num
theorem rk4B_real : (RK4.B : List ℝ) = [1/6, 1/3, 1/3, 1/6] := by
  simp only [RK4.B, real_ofInt]; norm_num

/-- unfolding of the modelled `mj_RungeKutta` with the generated tableau evaluated over ℝ -/
theorem rk4_some (P : Params ℝ) (x0 : State ℝ) (f0 f1 f2 f3 : Deriv ℝ) (r : RK4Result ℝ) :
    rk4 P x0 f0 f1 f2 f3 = some r →
    stage P x0 [x0.qvel] [f0] [1/2] = some r.x1 ∧
    stage P x0 [x0.qvel, r.x1.qvel] [f0, f1] [0, 1/2] = some r.x2 ∧
    stage P x0 [x0.qvel, r.x1.qvel, r.x2.qvel] [f0, f1, f2] [0, 0, 1] = some r.x3 ∧
    f3.qacc.length = x0.qvel.length ∧ f3.actDot.length = x0.act.length ∧
    advance P x0
      (comb x0.act.length [(f0.actDot, 1/6), (f1.actDot, 1/3), (f2.actDot, 1/3), (f3.actDot, 1/6)])
      (comb x0.qvel.length [(f0.qacc, 1/6), (f1.qacc, 1/3), (f2.qacc, 1/3), (f3.qacc, 1/6)])
      (some (comb x0.qvel.length [(x0.qvel, 1/6), (r.x1.qvel, 1/3), (r.x2.qvel, 1/3), (r.x3.qvel, 1/6)]))
      = some r.final := by
  intro H
  unfold rk4 at H
  rw [rk4A_real, rk4B_real] at H
  simp only [Option.bind_eq_bind, Option.pure_def, Option.bind_eq_some_iff] at H
  obtain ⟨x1, h1, x2, h2, x3, h3, H⟩ := H
  split_ifs at H with hg
  simp only [Option.bind_eq_some_iff] at H
  obtain ⟨fin, hf, hs⟩ := H
  cases hs
  simp only [not_or, Bool.not_eq_true] at hg
  have g1 := (allLen_iff _ _).mp (by simpa using hg.1) f3.qacc (by simp)
  have g2 := (allLen_iff _ _).mp (by simpa using hg.2) f3.actDot (by simp)
  exact ⟨h1, h2, h3, g1, g2, hf⟩

/-- unit quaternion, |w| ≥ mjMINVAL: right-multiplication by exp(h w / 2) -/
theorem integrateQuat_exp' (q : ℝ × ℝ × ℝ × ℝ) (w : ℝ × ℝ × ℝ) (h : ℝ) (hq : nsq4 q = 1)
    (hw : minval ≤ Real.sqrt (nsq3 w)) :
    integrateQuat q w h =
      mulQuat q (Real.cos (h * Real.sqrt (nsq3 w) * (1/2)),
        w.1 / Real.sqrt (nsq3 w) * Real.sin (h * Real.sqrt (nsq3 w) * (1/2)),
        w.2.1 / Real.sqrt (nsq3 w) * Real.sin (h * Real.sqrt (nsq3 w) * (1/2)),
        w.2.2 / Real.sqrt (nsq3 w) * Real.sin (h * Real.sqrt (nsq3 w) * (1/2))) := by
  obtain ⟨q0, q1, q2, q3⟩ := q
  obtain ⟨w0, w1, w2⟩ := w
  simp only [nsq4, nsq3] at hq hw ⊢
  simp only [integrateQuat, mulQuat, mju_quatIntegrate_eq]
  rw [mju_normalize4_of_unit _ _ _ _ hq, mju_normalize3_eq, if_neg (not_lt.mpr hw)]
  simp only [mju_axisAngle2Quat_eq]

/-- unit quaternion, |w| < mjMINVAL (axis reset to x): rotation by the (tiny) angle h|w| about x -/
theorem integrateQuat_exp_small' (q : ℝ × ℝ × ℝ × ℝ) (w : ℝ × ℝ × ℝ) (h : ℝ) (hq : nsq4 q = 1)
    (hw : Real.sqrt (nsq3 w) < minval) :
    integrateQuat q w h =
      mulQuat q (Real.cos (h * Real.sqrt (nsq3 w) * (1/2)), Real.sin (h * Real.sqrt (nsq3 w) * (1/2)), 0, 0) := by
  obtain ⟨q0, q1, q2, q3⟩ := q
  obtain ⟨w0, w1, w2⟩ := w
  simp only [nsq4, nsq3] at hq hw ⊢
  simp only [integrateQuat, mulQuat, mju_quatIntegrate_eq]
  rw [mju_normalize4_of_unit _ _ _ _ hq, mju_normalize3_eq, if_pos hw]
  simp only [mju_axisAngle2Quat_eq, one_mul, zero_mul]

/-! ### activation blocks -/

theorem nextActBlock_mem (a : Actuator ℝ) (h : ℝ) (hl : a.actlimited = true) (hd : a.dyntype ≠ RK4.mjDYN_DCMOTOR)
    (hr : a.lo ≤ a.hi) : ∀ (blk dots r : List ℝ) (k : ℕ), nextActBlock a h k blk dots = some r →
    ∀ x ∈ r, a.lo ≤ x ∧ x ≤ a.hi := by
  intro blk
  induction blk with
  | nil =>
    intro dots r k H
    rcases dots with _ | ⟨d, dots⟩ <;> simp [nextActBlock] at H
    subst H; simp
  | cons b blk ih =>
    intro dots r k H
    rcases dots with _ | ⟨d, dots⟩
    · simp [nextActBlock] at H
    · cases hr' : nextActBlock a h (k + 1) blk dots with
      | none => simp [nextActBlock, hr'] at H
      | some rest =>
        simp [nextActBlock, hr'] at H
        subst H
        intro x hx
        rcases List.mem_cons.mp hx with rfl | hx
        · exact nextActivation_mem (a.slot k) h b _ hl hd hr
        · exact ih _ _ _ hr' x hx

theorem reanchorBlock_id (a : Actuator ℝ) (blk : List ℝ)
    (hw : a.dyntype ≠ RK4.mjDYN_INTEGRATOR ∨ (wrapPeriod a ≤ 0 ∧ a.gaintype ≠ RK4.mjGAIN_SO3)) :
    reanchorBlock a blk = some blk := by
  unfold reanchorBlock
  rcases hw with hw | ⟨h1, h2⟩
  · rw [if_pos hw]
  · have hp : ¬ ((MjNum.ofInt 0 : ℝ) < wrapPeriod a) := by
      simp only [real_ofInt, Int.cast_zero]; exact not_lt.mpr h1
    by_cases g1 : a.dyntype ≠ RK4.mjDYN_INTEGRATOR
    · rw [if_pos g1]
    · rw [if_neg g1]
      simp only [if_neg hp, if_neg h2]

/-! ### the re-anchoring applied after the clamp: a concrete witness -/

/-- the directed probe of checks/c05.py: integrated-velocity servo with actrange [-1, 1] on a ball joint -/
noncomputable def probeAct : Actuator ℝ :=
  { dyntype := RK4.mjDYN_INTEGRATOR, gaintype := RK4.mjGAIN_FIXED, biastype := RK4.mjBIAS_AFFINE,
    trntype := RK4.mjTRN_JOINT, actnum := 1, actlimited := true, disabled := false, lo := -1, hi := 1,
    dynprm0 := 1, dynprm2 := 0, dynprm5 := 0, dynprm7 := 0, dynprm8 := 0, gainprm0 := 10, gainprm5 := 0,
    biasprm1 := -10, biasprm3 := 0, biasprm4 := 0, biasprm5 := 0, refsite := -1, trnJointType := RK4.mjJNT_BALL,
    gear0 := 1, gear1 := 0, gear2 := 0, gear3 := 0, gear4 := 0, gear5 := 0, velocity := 0, length := -3 }

theorem piLit_bounds : 3 < piLit ∧ piLit < 4 := by
  unfold piLit; constructor <;> norm_num

theorem probe_period : wrapPeriod probeAct = 2 * piLit := by
  simp only [wrapPeriod, probeAct, RK4.mjGAIN_FIXED, RK4.mjBIAS_AFFINE, RK4.mjDYN_INTEGRATOR, RK4.mjDYN_NONE,
    RK4.mjGAIN_PID, RK4.mjTRN_SITE, RK4.mjTRN_JOINT, RK4.mjTRN_JOINTINPARENT, RK4.mjJNT_BALL, mjPI_real,
    mju_norm3, real_beq, real_ofInt, real_sqrt]
  norm_num

theorem probe_round : mjuRound ((1 - (-3 : ℝ)) / (2 * piLit)) = 1 := by
  have hb := piLit_bounds
  have hx0 : (0 : ℝ) ≤ (1 - (-3 : ℝ)) / (2 * piLit) := by
    apply div_nonneg <;> linarith
  have hx1 : (1 - (-3 : ℝ)) / (2 * piLit) < 1 := by
    rw [div_lt_one (by linarith)]; linarith
  have hxh : (1 / 2 : ℝ) ≤ (1 - (-3 : ℝ)) / (2 * piLit) := by
    rw [le_div_iff₀ (by linarith)]; linarith
  have hfl : (Int.floor ((1 - (-3 : ℝ)) / (2 * piLit)) : ℤ) = 0 := by
    rw [Int.floor_eq_zero_iff]; exact ⟨hx0, hx1⟩
  have hfloor : MjNum.floor ((1 - (-3 : ℝ)) / (2 * piLit)) = ((Int.floor ((1 - (-3 : ℝ)) / (2 * piLit)) : ℤ) : ℝ) := rfl
  simp only [mjuRound, roundC, real_ofInt, real_lt_iff, real_le_iff, ofSci_half, hfloor, hfl]
  have h1 : ¬ ((2147483647 : ℤ) : ℝ) < (1 - (-3 : ℝ)) / (2 * piLit) := by
    push_cast; linarith
  have h2 : ¬ (1 - (-3 : ℝ)) / (2 * piLit) < ((-2147483648 : ℤ) : ℝ) := by
    push_cast; linarith
  rw [if_neg h1, if_neg h2, if_pos (by push_cast; exact hx0)]
  push_cast
  rw [if_pos (by linarith)]
  norm_num

end MjProof.Integrate
