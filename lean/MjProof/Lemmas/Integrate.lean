import MjProof.Model.Integrate
import MjProof.Lemmas.Spatial
import Mathlib.Tactic.Ring
import Mathlib.Tactic.Linarith
import Mathlib.Tactic.NormNum
import Mathlib.Tactic.FieldSimp
import Mathlib.Tactic.Positivity
/-
C05 helper lemmas over ℝ about the hand model `MjProof/Model/Integrate.lean` and the generated kernels it uses
(`mju_quatIntegrate`, `mju_normalize3/4`, `mju_clip`, `mju_max`).  The closed forms of the generated spatial
kernels come from `MjProof/Lemmas/Spatial.lean` (proved there from the generated definitions).
-/
namespace MjProof.Integrate
open MjProof MjProof.Gen MjProof.Spatial

/-! ### quaternion integration -/

/-- squared norm of a quaternion given as a tuple -/
def nsq4 (q : ℝ × ℝ × ℝ × ℝ) : ℝ := q.1 * q.1 + q.2.1 * q.2.1 + q.2.2.1 * q.2.2.1 + q.2.2.2 * q.2.2.2
def nsq3 (v : ℝ × ℝ × ℝ) : ℝ := v.1 * v.1 + v.2.1 * v.2.1 + v.2.2 * v.2.2

theorem nsq4_nonneg (q : ℝ × ℝ × ℝ × ℝ) : 0 ≤ nsq4 q := sumsq4_nonneg _ _ _ _
theorem nsq3_nonneg (v : ℝ × ℝ × ℝ) : 0 ≤ nsq3 v := sumsq3_nonneg _ _ _

/-- `mju_normalize3` always returns a unit vector (reset to (1,0,0) below mjMINVAL, divided otherwise) -/
theorem normalize3_unit (v0 v1 v2 : ℝ) :
    let n := mju_normalize3 v0 v1 v2
    n.2.1 * n.2.1 + n.2.2.1 * n.2.2.1 + n.2.2.2 * n.2.2.2 = 1 := by
  intro n
  simp only [n, mju_normalize3_eq]
  split_ifs with h
  · norm_num
  · have hs : 0 < Real.sqrt (v0*v0 + v1*v1 + v2*v2) := lt_of_lt_of_le minval_pos (not_lt.mp h)
    exact unit3_of_div _ _ _ _ hs (Real.mul_self_sqrt (sumsq3_nonneg _ _ _))

/-- `mju_axisAngle2Quat` of a unit axis is a unit quaternion (both branches of `angle == 0`) -/
theorem axisAngle_unit (x0 x1 x2 a : ℝ) (h : x0*x0 + x1*x1 + x2*x2 = 1) :
    nsq4 (mju_axisAngle2Quat x0 x1 x2 a) = 1 := by
  simp only [mju_axisAngle2Quat_eq, nsq4]
  have := Real.sin_sq_add_cos_sq (a * (1/2))
  have e : Real.cos (a * (1/2)) * Real.cos (a * (1/2)) + x0 * Real.sin (a * (1/2)) * (x0 * Real.sin (a * (1/2)))
      + x1 * Real.sin (a * (1/2)) * (x1 * Real.sin (a * (1/2))) + x2 * Real.sin (a * (1/2)) * (x2 * Real.sin (a * (1/2)))
      = Real.cos (a * (1/2)) ^ 2 + (x0*x0 + x1*x1 + x2*x2) * Real.sin (a * (1/2)) ^ 2 := by ring
  rw [e, h]; linarith

theorem mulQuat_nsq (a0 a1 a2 a3 b0 b1 b2 b3 : ℝ) :
    nsq4 (mju_mulQuat a0 a1 a2 a3 b0 b1 b2 b3) = nsq4 (a0, a1, a2, a3) * nsq4 (b0, b1, b2, b3) := by
  simp only [mju_mulQuat_eq, nsq4]; ring

/-- the three branches of `mju_normalize4` -/
theorem normalize4_cases (q0 q1 q2 q3 : ℝ) :
    let s := Real.sqrt (nsq4 (q0, q1, q2, q3))
    let r := (mju_normalize4 q0 q1 q2 q3).2
    ((s < minval ∨ minval < |s - 1|) ∧ nsq4 r = 1) ∨ (minval ≤ s ∧ |s - 1| ≤ minval ∧ r = (q0, q1, q2, q3)) := by
  intro s r
  simp only [r, s, mju_normalize4_eq, nsq4]
  split_ifs with h1 h2
  · left; exact ⟨Or.inl h1, by norm_num⟩
  · left
    have hs : 0 < Real.sqrt (q0*q0 + q1*q1 + q2*q2 + q3*q3) := lt_of_lt_of_le minval_pos (not_lt.mp h1)
    exact ⟨Or.inr h2, unit4_of_div _ _ _ _ _ hs (Real.mul_self_sqrt (sumsq4_nonneg _ _ _ _))⟩
  · right; exact ⟨not_lt.mp h1, not_lt.mp h2, rfl⟩

/-- the integration step multiplies the normalised quaternion by a unit quaternion -/
theorem quatIntegrate_nsq (q0 q1 q2 q3 v0 v1 v2 h : ℝ) :
    nsq4 (mju_quatIntegrate q0 q1 q2 q3 v0 v1 v2 h) = nsq4 (mju_normalize4 q0 q1 q2 q3).2 := by
  rw [mju_quatIntegrate_eq]
  simp only []
  rw [mulQuat_nsq]
  have hu := axisAngle_unit _ _ _ (h * (mju_normalize3 v0 v1 v2).1) (normalize3_unit v0 v1 v2)
  have e : nsq4 ((mju_axisAngle2Quat (mju_normalize3 v0 v1 v2).2.1 (mju_normalize3 v0 v1 v2).2.2.1
      (mju_normalize3 v0 v1 v2).2.2.2 (h * (mju_normalize3 v0 v1 v2).1)).1,
      (mju_axisAngle2Quat (mju_normalize3 v0 v1 v2).2.1 (mju_normalize3 v0 v1 v2).2.2.1
      (mju_normalize3 v0 v1 v2).2.2.2 (h * (mju_normalize3 v0 v1 v2).1)).2.1,
      (mju_axisAngle2Quat (mju_normalize3 v0 v1 v2).2.1 (mju_normalize3 v0 v1 v2).2.2.1
      (mju_normalize3 v0 v1 v2).2.2.2 (h * (mju_normalize3 v0 v1 v2).1)).2.2.1,
      (mju_axisAngle2Quat (mju_normalize3 v0 v1 v2).2.1 (mju_normalize3 v0 v1 v2).2.2.1
      (mju_normalize3 v0 v1 v2).2.2.2 (h * (mju_normalize3 v0 v1 v2).1)).2.2.2) = 1 := hu
  rw [e, mul_one]

/-- every result of the generated `mju_quatIntegrate` is within mjMINVAL of unit norm -/
theorem integrateQuat_near_unit (q : ℝ × ℝ × ℝ × ℝ) (w : ℝ × ℝ × ℝ) (h : ℝ) :
    |Real.sqrt (nsq4 (integrateQuat q w h)) - 1| ≤ minval := by
  obtain ⟨q0, q1, q2, q3⟩ := q
  simp only [integrateQuat]
  rw [quatIntegrate_nsq]
  rcases normalize4_cases q0 q1 q2 q3 with ⟨_, e⟩ | ⟨_, hb, e⟩
  · rw [e, Real.sqrt_one, sub_self, abs_zero]; exact minval_pos.le
  · rw [e]; exact hb

/-- exactly unit whenever `mju_normalize4` resets or divides, or the input is exactly unit -/
theorem integrateQuat_unit_of (q : ℝ × ℝ × ℝ × ℝ) (w : ℝ × ℝ × ℝ) (h : ℝ)
    (hq : Real.sqrt (nsq4 q) < minval ∨ minval < |Real.sqrt (nsq4 q) - 1| ∨ nsq4 q = 1) :
    nsq4 (integrateQuat q w h) = 1 := by
  obtain ⟨q0, q1, q2, q3⟩ := q
  simp only [integrateQuat]
  rw [quatIntegrate_nsq]
  rcases normalize4_cases q0 q1 q2 q3 with ⟨_, e⟩ | ⟨h1, hb, e⟩
  · exact e
  · rw [e]
    rcases hq with h' | h' | h'
    · exact absurd h' (not_lt.mpr h1)
    · exact absurd h' (not_lt.mpr hb)
    · exact h'

end MjProof.Integrate
