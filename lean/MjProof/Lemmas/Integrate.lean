import MjProof.Model.Integrate
import MjProof.Lemmas.Spatial
import Mathlib.Tactic.Ring
import Mathlib.Tactic.Linarith
import Mathlib.Tactic.NormNum
import Mathlib.Tactic.FieldSimp
import Mathlib.Tactic.Positivity
/-
C05 helper lemmas over ℝ about the hand model `MjProof/Model/Integrate.lean` and the generated kernels it uses
(`mju_quatIntegrate`, `mju_normalize3/4`, `mju_clip`, `mju_max`).  The closed forms of the generated spatial
kernels come from `MjProof/Lemmas/Spatial.lean` (proved there from the generated definitions).
-/
namespace MjProof.Integrate
open MjProof MjProof.Gen MjProof.Spatial

/-! ### quaternion integration -/

/-- squared norm of a quaternion given as a tuple -/
def nsq4 (q : ℝ × ℝ × ℝ × ℝ) : ℝ := q.1 * q.1 + q.2.1 * q.2.1 + q.2.2.1 * q.2.2.1 + q.2.2.2 * q.2.2.2
def nsq3 (v : ℝ × ℝ × ℝ) : ℝ := v.1 * v.1 + v.2.1 * v.2.1 + v.2.2 * v.2.2

theorem nsq4_nonneg (q : ℝ × ℝ × ℝ × ℝ) : 0 ≤ nsq4 q := sumsq4_nonneg _ _ _ _
theorem nsq3_nonneg (v : ℝ × ℝ × ℝ) : 0 ≤ nsq3 v := sumsq3_nonneg _ _ _

/-- `mju_normalize3` always returns a unit vector (reset to (1,0,0) below mjMINVAL, divided otherwise) -/
theorem normalize3_unit (v0 v1 v2 : ℝ) :
    let n := mju_normalize3 v0 v1 v2
    n.2.1 * n.2.1 + n.2.2.1 * n.2.2.1 + n.2.2.2 * n.2.2.2 = 1 := by
  intro n
  simp only [n, mju_normalize3_eq]
  split_ifs with h
  · norm_num
  · have hs : 0 < Real.sqrt (v0*v0 + v1*v1 + v2*v2) := lt_of_lt_of_le minval_pos (not_lt.mp h)
    exact unit3_of_div _ _ _ _ hs (Real.mul_self_sqrt (sumsq3_nonneg _ _ _))

/-- `mju_axisAngle2Quat` of a unit axis is a unit quaternion (both branches of `angle == 0`) -/
theorem axisAngle_unit (x0 x1 x2 a : ℝ) (h : x0*x0 + x1*x1 + x2*x2 = 1) :
    nsq4 (mju_axisAngle2Quat x0 x1 x2 a) = 1 := by
  simp only [mju_axisAngle2Quat_eq, nsq4]
  have := Real.sin_sq_add_cos_sq (a * (1/2))
  have e : Real.cos (a * (1/2)) * Real.cos (a * (1/2)) + x0 * Real.sin (a * (1/2)) * (x0 * Real.sin (a * (1/2)))
      + x1 * Real.sin (a * (1/2)) * (x1 * Real.sin (a * (1/2))) + x2 * Real.sin (a * (1/2)) * (x2 * Real.sin (a * (1/2)))
      = Real.cos (a * (1/2)) ^ 2 + (x0*x0 + x1*x1 + x2*x2) * Real.sin (a * (1/2)) ^ 2 := by ring
  rw [e, h]; linarith

theorem mulQuat_nsq (a0 a1 a2 a3 b0 b1 b2 b3 : ℝ) :
    nsq4 (mju_mulQuat a0 a1 a2 a3 b0 b1 b2 b3) = nsq4 (a0, a1, a2, a3) * nsq4 (b0, b1, b2, b3) := by
  simp only [mju_mulQuat_eq, nsq4]; ring

/-- the three branches of `mju_normalize4` -/
theorem normalize4_cases (q0 q1 q2 q3 : ℝ) :
    let s := Real.sqrt (nsq4 (q0, q1, q2, q3))
    let r := (mju_normalize4 q0 q1 q2 q3).2
    ((s < minval ∨ minval < |s - 1|) ∧ nsq4 r = 1) ∨ (minval ≤ s ∧ |s - 1| ≤ minval ∧ r = (q0, q1, q2, q3)) := by
  intro s r
  simp only [r, s, mju_normalize4_eq, nsq4]
  split_ifs with h1 h2
  · left; exact ⟨Or.inl h1, by norm_num⟩
  · left
    have hs : 0 < Real.sqrt (q0*q0 + q1*q1 + q2*q2 + q3*q3) := lt_of_lt_of_le minval_pos (not_lt.mp h1)
    exact ⟨Or.inr h2, unit4_of_div _ _ _ _ _ hs (Real.mul_self_sqrt (sumsq4_nonneg _ _ _ _))⟩
  · right; exact ⟨not_lt.mp h1, not_lt.mp h2, rfl⟩

/-- the integration step multiplies the normalised quaternion by a unit quaternion -/
theorem quatIntegrate_nsq (q0 q1 q2 q3 v0 v1 v2 h : ℝ) :
    nsq4 (mju_quatIntegrate q0 q1 q2 q3 v0 v1 v2 h) = nsq4 (mju_normalize4 q0 q1 q2 q3).2 := by
  rw [mju_quatIntegrate_eq]
  simp only []
  rw [mulQuat_nsq]
  have hu := axisAngle_unit _ _ _ (h * (mju_normalize3 v0 v1 v2).1) (normalize3_unit v0 v1 v2)
  have e : nsq4 ((mju_axisAngle2Quat (mju_normalize3 v0 v1 v2).2.1 (mju_normalize3 v0 v1 v2).2.2.1
      (mju_normalize3 v0 v1 v2).2.2.2 (h * (mju_normalize3 v0 v1 v2).1)).1,
      (mju_axisAngle2Quat (mju_normalize3 v0 v1 v2).2.1 (mju_normalize3 v0 v1 v2).2.2.1
      (mju_normalize3 v0 v1 v2).2.2.2 (h * (mju_normalize3 v0 v1 v2).1)).2.1,
      (mju_axisAngle2Quat (mju_normalize3 v0 v1 v2).2.1 (mju_normalize3 v0 v1 v2).2.2.1
      (mju_normalize3 v0 v1 v2).2.2.2 (h * (mju_normalize3 v0 v1 v2).1)).2.2.1,
      (mju_axisAngle2Quat (mju_normalize3 v0 v1 v2).2.1 (mju_normalize3 v0 v1 v2).2.2.1
      (mju_normalize3 v0 v1 v2).2.2.2 (h * (mju_normalize3 v0 v1 v2).1)).2.2.2) = 1 := hu
  rw [e, mul_one]

/-- every result of the generated `mju_quatIntegrate` is within mjMINVAL of unit norm -/
theorem integrateQuat_near_unit (q : ℝ × ℝ × ℝ × ℝ) (w : ℝ × ℝ × ℝ) (h : ℝ) :
    |Real.sqrt (nsq4 (integrateQuat q w h)) - 1| ≤ minval := by
  obtain ⟨q0, q1, q2, q3⟩ := q
  simp only [integrateQuat]
  rw [quatIntegrate_nsq]
  rcases normalize4_cases q0 q1 q2 q3 with ⟨_, e⟩ | ⟨_, hb, e⟩
  · rw [e, Real.sqrt_one, sub_self, abs_zero]; exact minval_pos.le
  · rw [e]; exact hb

/-- exactly unit whenever `mju_normalize4` resets or divides, or the input is exactly unit -/
theorem integrateQuat_unit_of (q : ℝ × ℝ × ℝ × ℝ) (w : ℝ × ℝ × ℝ) (h : ℝ)
    (hq : Real.sqrt (nsq4 q) < minval ∨ minval < |Real.sqrt (nsq4 q) - 1| ∨ nsq4 q = 1) :
    nsq4 (integrateQuat q w h) = 1 := by
  obtain ⟨q0, q1, q2, q3⟩ := q
  simp only [integrateQuat]
  rw [quatIntegrate_nsq]
  rcases normalize4_cases q0 q1 q2 q3 with ⟨_, e⟩ | ⟨h1, hb, e⟩
  · exact e
  · rw [e]
    rcases hq with h' | h' | h'
    · exact absurd h' (not_lt.mpr h1)
    · exact absurd h' (not_lt.mpr hb)
    · exact h'

/-! ### `mj_integratePosInd`: structure of the result -/

/-- the quaternion slots of a qpos vector with the given joint layout -/
def quatsOf {α : Type} : List JType → List α → Option (List (α × α × α × α))
  | [], [] => some []
  | [], _ => none
  | .free :: ts, qp => do
      let (_, r1) ← take3 qp
      let (q, r2) ← take4 r1
      let rest ← quatsOf ts r2
      pure (q :: rest)
  | .ball :: ts, qp => do
      let (q, r) ← take4 qp
      let rest ← quatsOf ts r
      pure (q :: rest)
  | .slide :: ts, qp => do
      let (_, r) ← take1 qp
      quatsOf ts r
  | .hinge :: ts, qp => do
      let (_, r) ← take1 qp
      quatsOf ts r

theorem integratePos_quatsOf (ts : List JType) (h : ℝ) : ∀ (qp qv qp' : List ℝ),
    integratePos ts qp qv h = some qp' →
    ∃ qs ws, quatsOf ts qp = some qs ∧ qs.length = ws.length ∧
      quatsOf ts qp' = some (List.zipWith (fun q w => integrateQuat q w h) qs ws) := by
  induction ts with
  | nil =>
    intro qp qv qp' H
    rcases qp with _ | ⟨a, qp⟩ <;> rcases qv with _ | ⟨b, qv⟩ <;> simp [integratePos] at H
    subst H
    exact ⟨[], [], by simp [quatsOf], rfl, by simp [quatsOf]⟩
  | cons t ts ih =>
    intro qp qv qp' H
    cases t with
    | free =>
      rcases qp with _ | ⟨p0, _ | ⟨p1, _ | ⟨p2, _ | ⟨q0, _ | ⟨q1, _ | ⟨q2, _ | ⟨q3, qp2⟩⟩⟩⟩⟩⟩⟩ <;>
        try (simp [integratePos, take3, take4] at H; done)
      rcases qv with _ | ⟨v0, _ | ⟨v1, _ | ⟨v2, _ | ⟨w0, _ | ⟨w1, _ | ⟨w2, qv2⟩⟩⟩⟩⟩⟩ <;>
        try (simp [integratePos, take3, take4] at H; done)
      cases hr : integratePos ts qp2 qv2 h with
      | none => simp [integratePos, take3, take4, hr] at H
      | some rest =>
      simp [integratePos, take3, take4, hr] at H
      subst H
      obtain ⟨qs, ws, h1, h2, h3⟩ := ih _ _ _ hr
      refine ⟨(q0, q1, q2, q3) :: qs, (w0, w1, w2) :: ws, ?_, by simp [h2], ?_⟩
      · simp [quatsOf, take3, take4, h1]
      · simp [quatsOf, take3, take4, h3]
    | ball =>
      rcases qp with _ | ⟨q0, _ | ⟨q1, _ | ⟨q2, _ | ⟨q3, qp2⟩⟩⟩⟩ <;>
        try (simp [integratePos, take3, take4] at H; done)
      rcases qv with _ | ⟨w0, _ | ⟨w1, _ | ⟨w2, qv2⟩⟩⟩ <;>
        try (simp [integratePos, take3, take4] at H; done)
      cases hr : integratePos ts qp2 qv2 h with
      | none => simp [integratePos, take3, take4, hr] at H
      | some rest =>
      simp [integratePos, take3, take4, hr] at H
      subst H
      obtain ⟨qs, ws, h1, h2, h3⟩ := ih _ _ _ hr
      refine ⟨(q0, q1, q2, q3) :: qs, (w0, w1, w2) :: ws, ?_, by simp [h2], ?_⟩
      · simp [quatsOf, take4, h1]
      · simp [quatsOf, take4, h3]
    | slide =>
      rcases qp with _ | ⟨x, qp2⟩ <;> try (simp [integratePos, take1] at H; done)
      rcases qv with _ | ⟨v, qv2⟩ <;> try (simp [integratePos, take1] at H; done)
      cases hr : integratePos ts qp2 qv2 h with
      | none => simp [integratePos, take1, hr] at H
      | some rest =>
      simp [integratePos, take1, hr] at H
      subst H
      obtain ⟨qs, ws, h1, h2, h3⟩ := ih _ _ _ hr
      exact ⟨qs, ws, by simp [quatsOf, take1, h1], h2, by simp [quatsOf, take1, h3]⟩
    | hinge =>
      rcases qp with _ | ⟨x, qp2⟩ <;> try (simp [integratePos, take1] at H; done)
      rcases qv with _ | ⟨v, qv2⟩ <;> try (simp [integratePos, take1] at H; done)
      cases hr : integratePos ts qp2 qv2 h with
      | none => simp [integratePos, take1, hr] at H
      | some rest =>
      simp [integratePos, take1, hr] at H
      subst H
      obtain ⟨qs, ws, h1, h2, h3⟩ := ih _ _ _ hr
      exact ⟨qs, ws, by simp [quatsOf, take1, h1], h2, by simp [quatsOf, take1, h3]⟩

/-- the result of `mj_integratePosInd` has the length of `qpos` -/
theorem integratePos_length' (ts : List JType) (h : ℝ) : ∀ (qp qv qp' : List ℝ),
    integratePos ts qp qv h = some qp' → qp'.length = qp.length := by
  induction ts with
  | nil =>
    intro qp qv qp' H
    rcases qp with _ | ⟨a, qp⟩ <;> rcases qv with _ | ⟨b, qv⟩ <;> simp [integratePos] at H
    subst H; rfl
  | cons t ts ih =>
    intro qp qv qp' H
    cases t with
    | free =>
      rcases qp with _ | ⟨p0, _ | ⟨p1, _ | ⟨p2, _ | ⟨q0, _ | ⟨q1, _ | ⟨q2, _ | ⟨q3, qp2⟩⟩⟩⟩⟩⟩⟩ <;>
        try (simp [integratePos, take3, take4] at H; done)
      rcases qv with _ | ⟨v0, _ | ⟨v1, _ | ⟨v2, _ | ⟨w0, _ | ⟨w1, _ | ⟨w2, qv2⟩⟩⟩⟩⟩⟩ <;>
        try (simp [integratePos, take3, take4] at H; done)
      cases hr : integratePos ts qp2 qv2 h with
      | none => simp [integratePos, take3, take4, hr] at H
      | some rest =>
      simp [integratePos, take3, take4, hr] at H
      subst H
      simp [ih _ _ _ hr]
    | ball =>
      rcases qp with _ | ⟨q0, _ | ⟨q1, _ | ⟨q2, _ | ⟨q3, qp2⟩⟩⟩⟩ <;>
        try (simp [integratePos, take3, take4] at H; done)
      rcases qv with _ | ⟨w0, _ | ⟨w1, _ | ⟨w2, qv2⟩⟩⟩ <;>
        try (simp [integratePos, take3, take4] at H; done)
      cases hr : integratePos ts qp2 qv2 h with
      | none => simp [integratePos, take3, take4, hr] at H
      | some rest =>
      simp [integratePos, take3, take4, hr] at H
      subst H
      simp [ih _ _ _ hr]
    | slide =>
      rcases qp with _ | ⟨x, qp2⟩ <;> try (simp [integratePos, take1] at H; done)
      rcases qv with _ | ⟨v, qv2⟩ <;> try (simp [integratePos, take1] at H; done)
      cases hr : integratePos ts qp2 qv2 h with
      | none => simp [integratePos, take1, hr] at H
      | some rest =>
      simp [integratePos, take1, hr] at H
      subst H
      simp [ih _ _ _ hr]
    | hinge =>
      rcases qp with _ | ⟨x, qp2⟩ <;> try (simp [integratePos, take1] at H; done)
      rcases qv with _ | ⟨v, qv2⟩ <;> try (simp [integratePos, take1] at H; done)
      cases hr : integratePos ts qp2 qv2 h with
      | none => simp [integratePos, take1, hr] at H
      | some rest =>
      simp [integratePos, take1, hr] at H
      subst H
      simp [ih _ _ _ hr]

theorem forall_zipWith {β γ δ : Type} (f : β → γ → δ) (P : δ → Prop) (hP : ∀ a b, P (f a b)) :
    ∀ (l1 : List β) (l2 : List γ), ∀ x ∈ List.zipWith f l1 l2, P x := by
  intro l1 l2 x hx
  rw [List.mem_iff_getElem] at hx
  obtain ⟨i, hi, rfl⟩ := hx
  rw [List.getElem_zipWith]
  exact hP _ _

/-! ### `mju_addToScl` combinations -/

theorem axpy_nil (s : ℝ) : axpy ([] : List ℝ) [] s = [] := rfl
theorem axpy_cons (r v : ℝ) (rs vs : List ℝ) (s : ℝ) : axpy (r :: rs) (v :: vs) s = (r + v * s) :: axpy rs vs s := rfl

def map3 (f : ℝ → ℝ → ℝ → ℝ) : List ℝ → List ℝ → List ℝ → List ℝ
  | a :: as, b :: bs, c :: cs => f a b c :: map3 f as bs cs
  | _, _, _ => []
def map4 (f : ℝ → ℝ → ℝ → ℝ → ℝ) : List ℝ → List ℝ → List ℝ → List ℝ → List ℝ
  | a :: as, b :: bs, c :: cs, d :: ds => f a b c d :: map4 f as bs cs ds
  | _, _, _, _ => []

theorem comb1_eq (n : ℕ) (a : ℝ) : ∀ (x : List ℝ), x.length = n → comb n [(x, a)] = x.map (fun u => a * u) := by
  induction n with
  | zero => intro x hx; rw [List.length_eq_zero_iff.mp hx]; rfl
  | succ n ih =>
    intro x hx
    rcases x with _ | ⟨u, x⟩
    · simp at hx
    · have := ih x (by simpa using hx)
      simp only [comb, List.foldl_cons, List.foldl_nil, List.replicate_succ, axpy_cons, List.map_cons] at this ⊢
      rw [this]
      simp only [real_ofInt, Int.cast_zero, zero_add, mul_comm]

theorem comb2_eq (n : ℕ) (a b : ℝ) : ∀ (x y : List ℝ), x.length = n → y.length = n →
    comb n [(x, a), (y, b)] = List.zipWith (fun u v => a * u + b * v) x y := by
  induction n with
  | zero => intro x y hx hy; rw [List.length_eq_zero_iff.mp hx, List.length_eq_zero_iff.mp hy]; rfl
  | succ n ih =>
    intro x y hx hy
    rcases x with _ | ⟨u, x⟩
    · simp at hx
    rcases y with _ | ⟨v, y⟩
    · simp at hy
    have := ih x y (by simpa using hx) (by simpa using hy)
    simp only [comb, List.foldl_cons, List.foldl_nil, List.replicate_succ, axpy_cons, List.zipWith_cons_cons] at this ⊢
    rw [this]
    congr 1
    simp only [real_ofInt, Int.cast_zero]; ring

theorem comb3_eq (n : ℕ) (a b c : ℝ) : ∀ (x y z : List ℝ), x.length = n → y.length = n → z.length = n →
    comb n [(x, a), (y, b), (z, c)] = map3 (fun u v w => a * u + b * v + c * w) x y z := by
  induction n with
  | zero =>
    intro x y z hx hy hz
    rw [List.length_eq_zero_iff.mp hx, List.length_eq_zero_iff.mp hy, List.length_eq_zero_iff.mp hz]; rfl
  | succ n ih =>
    intro x y z hx hy hz
    rcases x with _ | ⟨u, x⟩
    · simp at hx
    rcases y with _ | ⟨v, y⟩
    · simp at hy
    rcases z with _ | ⟨w, z⟩
    · simp at hz
    have := ih x y z (by simpa using hx) (by simpa using hy) (by simpa using hz)
    simp only [comb, List.foldl_cons, List.foldl_nil, List.replicate_succ, axpy_cons, map3] at this ⊢
    rw [this]
    congr 1
    simp only [real_ofInt, Int.cast_zero]; ring

theorem comb4_eq (n : ℕ) (a b c e : ℝ) : ∀ (x y z t : List ℝ), x.length = n → y.length = n → z.length = n →
    t.length = n →
    comb n [(x, a), (y, b), (z, c), (t, e)] = map4 (fun u v w s => a * u + b * v + c * w + e * s) x y z t := by
  induction n with
  | zero =>
    intro x y z t hx hy hz ht
    rw [List.length_eq_zero_iff.mp hx, List.length_eq_zero_iff.mp hy, List.length_eq_zero_iff.mp hz,
      List.length_eq_zero_iff.mp ht]; rfl
  | succ n ih =>
    intro x y z t hx hy hz ht
    rcases x with _ | ⟨u, x⟩
    · simp at hx
    rcases y with _ | ⟨v, y⟩
    · simp at hy
    rcases z with _ | ⟨w, z⟩
    · simp at hz
    rcases t with _ | ⟨s, t⟩
    · simp at ht
    have := ih x y z t (by simpa using hx) (by simpa using hy) (by simpa using hz) (by simpa using ht)
    simp only [comb, List.foldl_cons, List.foldl_nil, List.replicate_succ, axpy_cons, map4] at this ⊢
    rw [this]
    congr 1
    simp only [real_ofInt, Int.cast_zero]; ring

theorem axpy_eq (r v : List ℝ) (s : ℝ) : axpy r v s = List.zipWith (fun a b => a + s * b) r v := by
  simp only [axpy]
  congr 1
  funext a b
  ring

end MjProof.Integrate
