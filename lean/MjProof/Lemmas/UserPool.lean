import MjProof.Model.UserPool
/-
Invariant of the `user_threadpool.cc` transition system (`Model/UserPool.lean`) and its preservation by every
transition (with spurious wake-ups).  Core Lean only (omega / simp).
-/
set_option linter.unusedVariables false
set_option linter.unusedSimpArgs false
namespace MjProof.UserPool

/-! ### small arithmetic helpers -/

def b2n (b : Bool) : Nat := if b then 1 else 0

/-- `Σ_{t<n} f t` -/
def sumTo (f : Nat → Nat) : Nat → Nat
  | 0 => 0
  | n + 1 => sumTo f n + f n

theorem sumTo_congr (f g : Nat → Nat) (n : Nat) (h : ∀ t, t < n → f t = g t) : sumTo f n = sumTo g n := by
  induction n with
  | zero => rfl
  | succ n ih =>
    simp only [sumTo]
    rw [ih (fun t ht => h t (by omega)), h n (by omega)]

/-- raising one summand from 0 to 1 raises the sum by one -/
theorem sumTo_set (f g : Nat → Nat) (n k : Nat) (hk : k < n) (hf : f k = 0) (hg : g k = 1)
    (h : ∀ t, t ≠ k → f t = g t) : sumTo g n = sumTo f n + 1 := by
  induction n with
  | zero => omega
  | succ n ih =>
    simp only [sumTo]
    by_cases hkn : k = n
    · subst hkn
      rw [sumTo_congr g f k (fun t ht => (h t (by omega)).symm), hf, hg]
    · rw [ih (by omega), ← h n (fun e => hkn e.symm)]
      omega

theorem sumTo_le (f : Nat → Nat) (n : Nat) (h : ∀ t, t < n → f t ≤ 1) : sumTo f n ≤ n := by
  induction n with
  | zero => simp [sumTo]
  | succ n ih =>
    simp only [sumTo]
    have := ih (fun t ht => h t (by omega))
    have := h n (by omega)
    omega

/-- a sum of 0/1 terms that reaches `n` has all terms 1 -/
theorem sumTo_full (f : Nat → Nat) (n : Nat) (h : ∀ t, t < n → f t ≤ 1) (hs : n ≤ sumTo f n) :
    ∀ t, t < n → f t = 1 := by
  induction n with
  | zero => intro t ht; omega
  | succ n ih =>
    simp only [sumTo] at hs
    have h1 := sumTo_le f n (fun t ht => h t (by omega))
    have h2 := h n (by omega)
    intro t ht
    by_cases htn : t = n
    · subst htn; omega
    · exact ih (fun t ht => h t (by omega)) (by omega) t (by omega)

theorem b2n_le (b : Bool) : b2n b ≤ 1 := by cases b <;> simp [b2n]

/-! ### `notify_one` on `cv_in_` -/

theorem firstBlocked_some (s : State) (n i : Nat) (h : firstBlocked s n = some i) : isBlocked s i = true := by
  induction n with
  | zero => simp [firstBlocked] at h
  | succ n ih =>
    simp only [firstBlocked] at h
    split at h
    · rename_i j hj; injection h with h; subst h; exact ih hj
    · split at h
      · injection h with h; subst h; assumption
      · simp at h

theorem firstBlocked_none (s : State) (n : Nat) (h : firstBlocked s n = none) :
    ∀ i, 1 ≤ i → i ≤ n → isBlocked s i = false := by
  induction n with
  | zero => intro i h1 h2; omega
  | succ n ih =>
    simp only [firstBlocked] at h
    split at h
    · simp at h
    · rename_i hn
      split at h
      · simp at h
      · rename_i hb
        intro i h1 h2
        by_cases hi : i = n + 1
        · subst hi; simpa using hb
        · exact ih hn i h1 (by omega)

theorem isBlocked_range (s : State) (i : Nat) (h : isBlocked s i = true) : 1 ≤ i ∧ i ≤ s.N ∧ s.w i = .blocked := by
  simp only [isBlocked, Bool.and_eq_true, decide_eq_true_eq, beq_iff_eq] at h
  exact ⟨h.1.1, h.1.2, h.2⟩

/-- wake the worker named by `wk` (if any) -/
def wakeOne (s : State) (wk : Option Nat) : State :=
  match wk with
  | some i => setW s i .woken
  | none => s

/-- `notify_one`: some blocked worker becomes `woken`; nobody only if nobody is blocked -/
theorem notifyIn_spec (s : State) (pick : Option Nat) :
    ∃ wk, notifyIn s pick = (wakeOne s wk, wk) ∧ (∀ i, wk = some i → isBlocked s i = true) ∧
      (wk = none → ∀ i, isBlocked s i = false) := by
  have hnone : firstBlocked s s.N = none → ∀ i, isBlocked s i = false := by
    intro h i
    by_cases hr : 1 ≤ i ∧ i ≤ s.N
    · exact firstBlocked_none s s.N h i hr.1 hr.2
    · simp only [isBlocked]
      simp [hr]
  have hfb : ∃ wk, (match firstBlocked s s.N with
        | some i => (setW s i .woken, some i)
        | none => (s, none)) = (wakeOne s wk, wk) ∧ (∀ i, wk = some i → isBlocked s i = true) ∧
      (wk = none → ∀ i, isBlocked s i = false) := by
    cases hf : firstBlocked s s.N with
    | some i =>
      refine ⟨some i, rfl, ?_, by simp⟩
      intro j hj; injection hj with hj; subst hj; exact firstBlocked_some s s.N _ hf
    | none => exact ⟨none, rfl, by simp, fun _ => hnone hf⟩
  unfold notifyIn
  cases pick with
  | none => exact hfb
  | some p =>
    simp only
    by_cases hp : isBlocked s p = true
    · rw [if_pos hp]
      refine ⟨some p, rfl, ?_, by simp⟩
      intro j hj; injection hj with hj; subst hj; exact hp
    · rw [if_neg hp]; exact hfb

/-! ### the invariant -/

/-- worker `i` holds task `t` (popped, body not yet acknowledged by `++ctr_`) -/
def holds (s : State) (i t : Nat) : Prop := s.w i = .run t ∨ s.w i = .fin t

/-- a worker that will take a step without being notified -/
def active (p : WPc) : Prop := p = .fetch ∨ p = .woken ∨ (∃ t, p = .run t) ∨ (∃ t, p = .fin t)

/-- the destructor has pushed its sentinels -/
def postDtor (m : MPc) : Prop := (∃ k, m = .join k) ∨ m = .done

/-- has not popped a sentinel yet -/
def live (p : WPc) : Bool :=
  match p with
  | .exitInc => false
  | .exited => false
  | _ => true

def cntLive (w : Nat → WPc) : Nat → Nat
  | 0 => 0
  | n + 1 => cntLive w n + b2n (live (w (n + 1)))

theorem cntLive_congr (w w' : Nat → WPc) (n : Nat) (h : ∀ i, 1 ≤ i → i ≤ n → live (w i) = live (w' i)) :
    cntLive w n = cntLive w' n := by
  induction n with
  | zero => rfl
  | succ n ih =>
    simp only [cntLive]
    rw [ih (fun i h1 h2 => h i h1 (by omega)), h (n + 1) (by omega) (by omega)]

theorem cntLive_all (w : Nat → WPc) (n : Nat) (h : ∀ i, 1 ≤ i → i ≤ n → live (w i) = true) : cntLive w n = n := by
  induction n with
  | zero => rfl
  | succ n ih =>
    simp only [cntLive]
    rw [ih (fun i h1 h2 => h i h1 (by omega)), h (n + 1) (by omega) (by omega)]
    simp [b2n]

theorem cntLive_pos (w : Nat → WPc) (n i : Nat) (h1 : 1 ≤ i) (h2 : i ≤ n) (h : live (w i) = true) : 1 ≤ cntLive w n := by
  induction n with
  | zero => omega
  | succ n ih =>
    simp only [cntLive]
    by_cases hi : i = n + 1
    · subst hi; rw [h]; simp [b2n]
    · have := ih (by omega); omega

/-- a live worker in range becoming non-live lowers the count by one -/
theorem cntLive_dec (w : Nat → WPc) (n i : Nat) (p : WPc) (h1 : 1 ≤ i) (h2 : i ≤ n) (h : live (w i) = true) (hp : live p = false) :
    cntLive (fun j => if j = i then p else w j) n + 1 = cntLive w n := by
  induction n with
  | zero => omega
  | succ n ih =>
    simp only [cntLive]
    by_cases hi : i = n + 1
    · subst hi
      have : cntLive (fun j => if j = n + 1 then p else w j) n = cntLive w n := by
        apply cntLive_congr; intro j hj1 hj2
        have : j ≠ n + 1 := by omega
        simp [this]
      rw [this]
      simp only [if_true, hp, h, b2n]
      simp
    · have := ih (by omega)
      have hne : n + 1 ≠ i := fun e => hi e.symm
      simp only [if_neg hne]
      omega

structure Core (s : State) : Prop where
  nge : 1 ≤ s.N
  pop_le : s.npop ≤ s.nsched
  sched_le : s.nsched ≤ s.T
  queue_eq : ∃ j, s.queue = (List.range' s.npop (s.nsched - s.npop)).map some ++ List.replicate j none ∧
      (¬ postDtor s.mpc → j = 0) ∧ (postDtor s.mpc → j = cntLive s.w s.N)
  holds_lt : ∀ i t, holds s i t → t < s.npop ∧ s.takenBy t = i ∧ s.finished t = false
  task_st : ∀ t, t < s.npop → (1 ≤ s.takenBy t ∧ s.takenBy t ≤ s.N) ∧
      ((s.w (s.takenBy t) = .run t ∧ s.execCnt t = 0 ∧ s.finished t = false) ∨
       (s.w (s.takenBy t) = .fin t ∧ s.execCnt t = 1 ∧ s.finished t = false) ∨
       (s.finished t = true ∧ s.execCnt t = 1)) ∧ (s.execCnt t = 1 → s.execBy t = s.takenBy t)
  untouched : ∀ t, s.npop ≤ t → s.execCnt t = 0 ∧ s.finished t = false
  ctr_eq : s.ctr = s.nfin + s.nexit
  nfin_eq : s.nfin = sumTo (fun t => b2n (s.finished t)) s.npop
  pre : ¬ postDtor s.mpc → s.nexit = 0 ∧ ∀ i, s.w i ≠ .exitInc ∧ s.w i ≠ .exited
  mpc_sched : ∀ i, s.mpc = .sched i → s.nsched = i ∧ i < s.T
  mpc_rest : (∀ i, s.mpc ≠ .sched i) → s.nsched = s.T
  blocked_ctr : s.mpc = .waitBlocked → s.ctr < s.T
  past_wait : (s.mpc = .dtor ∨ postDtor s.mpc) → s.npop = s.T ∧ ∀ t, t < s.T → s.finished t = true
  post_noblock : postDtor s.mpc → ∀ i, 1 ≤ i → i ≤ s.N → s.w i ≠ .blocked
  joined : ∀ k, s.mpc = .join k → k < s.N ∧ ∀ i, 1 ≤ i → i ≤ k → s.w i = .exited
  alldone : s.mpc = .done → ∀ i, 1 ≤ i → i ≤ s.N → s.w i = .exited

/-- no lost wake-up: before the destructor, a non-empty queue comes with a worker that will look at it -/
def WakeOK (s : State) : Prop := ¬ postDtor s.mpc → s.queue ≠ [] → ∃ i, 1 ≤ i ∧ i ≤ s.N ∧ active (s.w i)

structure Inv (s : State) : Prop where
  core : Core s
  wake : WakeOK s

theorem inv_init (N T : Nat) (hN : 1 ≤ N) : Inv (init N T) := by
  refine ⟨?_, ?_⟩
  · by_cases hT : T = 0
    · constructor <;> simp [init, hT, holds, postDtor, sumTo] <;> try omega
    · constructor <;> simp [init, hT, holds, postDtor, sumTo] <;> try omega
  · intro _ hq; simp [init] at hq

end MjProof.UserPool
