import MjProof.Model.MjxState
import MjProof.Lemmas.State
/-
Helper lemmas for C44 (MJX state API): the Python loops coincide with the C-model loops on
well-formed tables and correctly shaped data; two tables whose symbolic forms agree have equal loops.
Core Lean only.
-/
namespace MjProof.MjxState
open List MjProof.State

/-! ### the selected bits -/

theorem specNat_of_range {n : Nat} {spec : Int} (h0 : 0 ≤ spec) (h1 : spec < 2 ^ n) :
    specNat n spec = spec.toNat := by
  unfold specNat
  rw [Int.emod_eq_of_lt h0 h1]

theorem two_pow_pos (n : Nat) : (0 : Int) < 2 ^ n := Int.pow_pos (by decide)

theorem specNat_mod (n : Nat) (spec : Int) : specNat n (spec % 2 ^ n) = specNat n spec := by
  unfold specNat
  rw [Int.emod_emod_of_dvd _ (Int.dvd_refl _)]

theorem mod_range (n : Nat) (spec : Int) : 0 ≤ spec % 2 ^ n ∧ spec % 2 ^ n < 2 ^ n :=
  ⟨Int.emod_nonneg _ (Int.ne_of_gt (two_pow_pos n)), Int.emod_lt_of_pos _ (two_pow_pos n)⟩

/-! ### `liftE` -/

@[simp] theorem liftE_ok {β : Type} (v : β) : liftE (.ok v : Except Err β) = .ok v := rfl
@[simp] theorem liftE_error {β : Type} (e : Err) : liftE (.error e : Except Err β) = .error (liftErr e) := rfl

theorem liftE_bind_pure {β γ : Type} (x : Except Err β) (f : β → γ) :
    liftE (x >>= fun r => pure (f r)) = (liftE x >>= fun r => pure (f r)) := by
  cases x <;> rfl

section
variable {σ φ α : Type} [DecidableEq φ] {t : Table σ φ} {sz : σ}

/-! ### Python loops = C-model loops (well-formed table, shaped data) -/

theorem getLoop_eq (hwf : WF t) {d : Data φ α} (hd : Shaped t sz d) (sig : Nat) (is : List Nat) :
    MjxState.getLoop t d sig is = liftE (State.getLoop t sz d sig is) := by
  induction is with
  | nil => rfl
  | cons i is ih =>
    unfold MjxState.getLoop State.getLoop
    by_cases hb : sig.testBit i = true
    · simp only [hb, ↓reduceIte]
      cases hl : t.lookup i with
      | none => rfl
      | some e =>
        obtain ⟨he, _⟩ := lookup_mem hl
        obtain ⟨h1, _⟩ := elem_len hwf hd (sz := sz) he
        simp only [readN_full h1, ih]
        cases State.getLoop t sz d sig is <;> rfl
    · simp only [hb, Bool.false_eq_true, ↓reduceIte]
      exact ih

theorem sizeLoop_cons_ok {sig i : Nat} {is : List Nat} {e : Elem σ φ} {n : Nat}
    (hb : sig.testBit i = true) (hl : t.lookup i = some e)
    (h : State.sizeLoop t sz sig (i :: is) = .ok n) :
    ∃ r, State.sizeLoop t sz sig is = .ok r ∧ n = e.size sz + r := by
  unfold State.sizeLoop at h
  simp only [hb, ↓reduceIte, hl] at h
  cases hr : State.sizeLoop t sz sig is with
  | error x => rw [hr] at h; cases h
  | ok r =>
    rw [hr] at h
    refine ⟨r, rfl, ?_⟩
    cases h; rfl

theorem setLoop_eq (hwf : WF t) (scalar : φ → Bool) (cast : α → α)
    (hsc : ∀ e, e ∈ t.elems → scalar e.field = true → e.size sz = 1) (sig : Nat) :
    ∀ (is : List Nat) (st : List α) (d : Data φ α), Shaped t sz d →
      State.sizeLoop t sz sig is = .ok st.length →
      MjxState.setLoop t sz scalar cast sig st d is = liftE (State.setLoop t sz cast sig st d is) := by
  intro is
  induction is with
  | nil => intro st d _ _; rfl
  | cons i is ih =>
    intro st d hd hs
    rw [setLoop_cons]
    unfold MjxState.setLoop
    by_cases hb : sig.testBit i = true
    · simp only [hb, ↓reduceIte]
      cases hl : t.lookup i with
      | none => rfl
      | some e =>
        obtain ⟨he, _⟩ := lookup_mem hl
        obtain ⟨h1, h2⟩ := elem_len hwf hd (sz := sz) he
        obtain ⟨r, hr, hn⟩ := sizeLoop_cons_ok hb hl hs
        have hle : e.size sz ≤ st.length := by omega
        have htake : (st.take (e.size sz)).length = e.size sz := by
          rw [List.length_take]; omega
        have hsrc : (if e.special.isSome = true then st.map cast else st).take (e.cnt sz)
            = (if e.special.isSome = true then (st.take (e.size sz)).map cast else st.take (e.size sz)) := by
          rw [h2]
          split
          · rw [List.map_take]
          · rfl
        have hsl : e.cnt sz ≤ (if e.special.isSome = true then st.map cast else st).length := by
          rw [h2]; split <;> simp [hle]
        simp only [writeN_full h1 hsl, hsrc]
        have hv' : (if e.special.isSome = true then (st.take (e.size sz)).map cast else st.take (e.size sz)).length
            = e.size sz := by
          split <;> simp [hle]
        have hrec := ih (st.drop (e.size sz))
          (upd d e.field (if e.special.isSome = true then (st.take (e.size sz)).map cast else st.take (e.size sz)))
          (shaped_upd hd (by rw [hv', ← hwf.size_alloc e he sz]))
          (by rw [hr, List.length_drop]; congr 1; omega)
        by_cases hscal : scalar e.field = true
        · have h1' : e.size sz = 1 := hsc e he hscal
          simp only [hscal, ↓reduceIte]
          generalize hv : (if e.special.isSome = true then (st.take (e.size sz)).map cast else st.take (e.size sz)) = v' at *
          match v', hv' with
          | [x], _ =>
            show MjxState.setLoop t sz scalar cast sig (st.drop (e.size sz)) (upd d e.field [x]) is = _
            rw [hrec, h2]
            rfl
          | [], h => simp [h1'] at h
          | _ :: _ :: _, h => simp [h1'] at h
        · simp only [hscal, Bool.false_eq_true, ↓reduceIte]
          have : (st.take (e.size sz)).length = (d e.field).length := by rw [htake, h1, h2]
          simp only [this, ne_eq, not_true_eq_false, ↓reduceIte]
          rw [hrec, h2]
          rfl
    · simp only [hb, Bool.false_eq_true, ↓reduceIte]
      exact ih st d hd (by
        unfold State.sizeLoop at hs
        simpa only [hb, Bool.false_eq_true, ↓reduceIte] using hs)

/-! ### two tables with related lookups have equal C-model loops -/

/-- what the loops use of an element -/
def ElemSem (sz : σ) (a b : Elem σ φ) : Prop :=
  a.size sz = b.size sz ∧ a.cnt sz = b.cnt sz ∧ a.field = b.field ∧ a.special.isSome = b.special.isSome

def OptRel (sz : σ) : Option (Elem σ φ) → Option (Elem σ φ) → Prop
  | none, none => True
  | some a, some b => ElemSem sz a b
  | _, _ => False

def LookupRel (t1 t2 : Table σ φ) (sz : σ) (i : Nat) : Prop := OptRel sz (t1.lookup i) (t2.lookup i)

variable {t1 t2 : Table σ φ}

theorem sizeLoop_congr (sig : Nat) (is : List Nat) (h : ∀ i, i ∈ is → LookupRel t1 t2 sz i) :
    State.sizeLoop t1 sz sig is = State.sizeLoop t2 sz sig is := by
  induction is with
  | nil => rfl
  | cons i is ih =>
    have hi := h i (by simp)
    have ih' := ih (fun j hj => h j (by simp [hj]))
    unfold State.sizeLoop
    by_cases hb : sig.testBit i = true
    · simp only [hb, ↓reduceIte]
      unfold LookupRel at hi
      cases h1 : t1.lookup i with
      | none =>
        cases h2 : t2.lookup i with
        | none => rfl
        | some b => rw [h1, h2] at hi; exact False.elim hi
      | some a =>
        cases h2 : t2.lookup i with
        | none => rw [h1, h2] at hi; exact False.elim hi
        | some b =>
          rw [h1, h2] at hi
          have hi : ElemSem sz a b := hi
          simp only [ih', hi.1]
    · simp only [hb, Bool.false_eq_true, ↓reduceIte]
      exact ih'

theorem getLoop_congr (d : Data φ α) (sig : Nat) (is : List Nat) (h : ∀ i, i ∈ is → LookupRel t1 t2 sz i) :
    State.getLoop t1 sz d sig is = State.getLoop t2 sz d sig is := by
  induction is with
  | nil => rfl
  | cons i is ih =>
    have hi := h i (by simp)
    have ih' := ih (fun j hj => h j (by simp [hj]))
    unfold State.getLoop
    by_cases hb : sig.testBit i = true
    · simp only [hb, ↓reduceIte]
      unfold LookupRel at hi
      cases h1 : t1.lookup i with
      | none =>
        cases h2 : t2.lookup i with
        | none => rfl
        | some b => rw [h1, h2] at hi; exact False.elim hi
      | some a =>
        cases h2 : t2.lookup i with
        | none => rw [h1, h2] at hi; exact False.elim hi
        | some b =>
          rw [h1, h2] at hi
          have hi : ElemSem sz a b := hi
          simp only [ih', hi.2.1, hi.2.2.1]
    · simp only [hb, Bool.false_eq_true, ↓reduceIte]
      exact ih'

theorem setLoop_congr (cast : α → α) (sig : Nat) :
    ∀ (is : List Nat) (st : List α) (d : Data φ α), (∀ i, i ∈ is → LookupRel t1 t2 sz i) →
      State.setLoop t1 sz cast sig st d is = State.setLoop t2 sz cast sig st d is := by
  intro is
  induction is with
  | nil => intro st d _; rfl
  | cons i is ih =>
    intro st d h
    have hi := h i (by simp)
    have ih' := fun st d => ih st d (fun j hj => h j (by simp [hj]))
    rw [setLoop_cons, setLoop_cons]
    by_cases hb : sig.testBit i = true
    · simp only [hb, ↓reduceIte]
      unfold LookupRel at hi
      cases h1 : t1.lookup i with
      | none =>
        cases h2 : t2.lookup i with
        | none => rfl
        | some b => rw [h1, h2] at hi; exact False.elim hi
      | some a =>
        cases h2 : t2.lookup i with
        | none => rw [h1, h2] at hi; exact False.elim hi
        | some b =>
          rw [h1, h2] at hi
          have hi : ElemSem sz a b := hi
          simp only [ih', hi.2.1, hi.2.2.1, hi.2.2.2]
    · simp only [hb, Bool.false_eq_true, ↓reduceIte]
      exact ih' st d

theorem checkSig_congr (hn : t1.nstate = t2.nstate) (sig : Int) : checkSig t1 sig = checkSig t2 sig := by
  unfold checkSig; rw [hn]

theorem stateSize_congr (hn : t1.nstate = t2.nstate) (h : ∀ i, LookupRel t1 t2 sz i) (sig : Int) :
    State.stateSize t1 sz sig = State.stateSize t2 sz sig := by
  unfold State.stateSize
  rw [checkSig_congr hn, hn]
  cases checkSig t2 sig with
  | error e => rfl
  | ok s => exact sizeLoop_congr _ _ (fun i _ => h i)

theorem getState_congr (hn : t1.nstate = t2.nstate) (h : ∀ i, LookupRel t1 t2 sz i) (d : Data φ α)
    (sig : Int) : State.getState t1 sz d sig = State.getState t2 sz d sig := by
  unfold State.getState
  rw [checkSig_congr hn, hn]
  cases checkSig t2 sig with
  | error e => rfl
  | ok s => exact getLoop_congr d _ _ (fun i _ => h i)

theorem setState_congr (hn : t1.nstate = t2.nstate) (h : ∀ i, LookupRel t1 t2 sz i) (cast : α → α)
    (st : List α) (sig : Int) (d : Data φ α) :
    State.setState t1 sz cast st sig d = State.setState t2 sz cast st sig d := by
  unfold State.setState
  rw [checkSig_congr hn, hn]
  cases checkSig t2 sig with
  | error e => rfl
  | ok s => exact setLoop_congr cast _ _ st d (fun i _ => h i)

end

/-! ### symbolic agreement is sound -/

section
variable {ν φ : Type} [DecidableEq ν] [DecidableEq φ]

theorem agreeElem_sem {a b : SymElem ν φ} (h : agreeElem a b = true) (sz : ν → Nat) :
    a.bit = b.bit ∧ ElemSem sz a.toElem b.toElem := by
  unfold agreeElem at h
  simp only [Bool.and_eq_true, beq_iff_eq, decide_eq_true_eq] at h
  obtain ⟨⟨⟨⟨_, hbit⟩, hf⟩, hs⟩, hsp⟩ := h
  refine ⟨hbit, SizeExpr.equiv_sound hs sz, ?_, hf, ?_⟩
  · unfold Elem.cnt SymElem.toElem
    cases ha : a.special <;> cases hb : b.special <;> rw [ha, hb] at hsp
    · exact SizeExpr.equiv_sound hs sz
    · cases hsp
    · cases hsp
    · exact SizeExpr.equiv_sound hsp sz
  · unfold SymElem.toElem
    cases ha : a.special <;> cases hb : b.special <;> rw [ha, hb] at hsp <;> first | rfl | cases hsp

theorem agreeElems_lookup (sz : ν → Nat) (i : Nat) :
    ∀ (as bs : List (SymElem ν φ)), agreeElems as bs = true →
      OptRel sz ((as.map SymElem.toElem).find? (fun e => e.bit == i)) ((bs.map SymElem.toElem).find? (fun e => e.bit == i))
  | [], [], _ => by simp [OptRel]
  | [], _ :: _, h => by simp [agreeElems] at h
  | _ :: _, [], h => by simp [agreeElems] at h
  | a :: as, b :: bs, h => by
    simp only [agreeElems, Bool.and_eq_true] at h
    obtain ⟨hab, hrest⟩ := h
    obtain ⟨hbit, hsem⟩ := agreeElem_sem hab sz
    simp only [List.map_cons, List.find?_cons]
    have hb' : b.toElem.bit = a.toElem.bit := by simp [SymElem.toElem, hbit]
    rw [hb']
    by_cases hi : (a.toElem.bit == i) = true
    · simp only [hi]; exact hsem
    · simp only [hi]; exact agreeElems_lookup sz i as bs hrest

theorem agreeTables_sound {fields : List φ} {a b : SymTable ν φ} (h : agreeTables fields a b = true) :
    a.toTable.nstate = b.toTable.nstate
    ∧ (∀ sz i, LookupRel a.toTable b.toTable sz i)
    ∧ (∀ f, f ∈ fields → ∀ sz, a.toTable.alloc f sz = b.toTable.alloc f sz)
    ∧ (∀ f, f ∈ fields → a.toTable.isBool f = b.toTable.isBool f) := by
  unfold agreeTables at h
  simp only [Bool.and_eq_true, beq_iff_eq, List.all_eq_true] at h
  obtain ⟨⟨hn, he⟩, hf⟩ := h
  refine ⟨hn, ?_, ?_, ?_⟩
  · intro sz i
    unfold LookupRel Table.lookup
    simp only [SymTable.toTable]
    exact agreeElems_lookup sz i a.elems b.elems he
  · intro f hfm sz
    exact SizeExpr.equiv_sound (hf f hfm).1 sz
  · intro f hfm
    exact (hf f hfm).2

end

end MjProof.MjxState
