import MjProof.Lemmas.CTypeRound
/-
C49 helper lemmas: every AST returned by `parseType` is well formed (`WF`) or is the special
function-pointer value type.  The only obstacle is the special string `void *(*)(void *)`, which
`parsePtr` accepts at every recursion step: it cannot be reached below the top of the innermost
level because no level string has a `(` before a `)` (`noOC`).
-/
namespace MjProof.CType

/-- no `(` is followed (anywhere later) by a `)` -/
def noOC : Str → Bool
  | [] => true
  | c :: cs => (if c = 40 then !cs.contains 41 else true) && noOC cs

theorem noOC_special : noOC special = false := by decide

theorem noOC_append {a b : Str} (h : noOC (a ++ b) = true) : noOC a = true ∧ noOC b = true := by
  induction a with
  | nil => exact ⟨rfl, h⟩
  | cons c cs ih =>
    simp only [List.cons_append, noOC, Bool.and_eq_true] at h ⊢
    obtain ⟨h1, h2⟩ := h
    obtain ⟨i1, i2⟩ := ih h2
    refine ⟨⟨?_, i1⟩, i2⟩
    by_cases hc : c = 40
    · simp only [hc, if_true, Bool.not_eq_true', List.contains_eq_mem, decide_eq_false_iff_not,
        List.mem_append, not_or] at h1 ⊢
      exact h1.1
    · simp [hc]

theorem noOC_of_no_open {s : Str} (h : 40 ∉ s) : noOC s = true := by
  induction s with
  | nil => rfl
  | cons c cs ih =>
    have hc : c ≠ 40 := fun e => h (by simp [e])
    simp [noOC, hc, ih (fun m => h (by simp [m]))]

theorem noOC_of_no_close {s : Str} (h : 41 ∉ s) : noOC s = true := by
  induction s with
  | nil => rfl
  | cons c cs ih =>
    have hcs : 41 ∉ cs := fun m => h (by simp [m])
    simp only [noOC, Bool.and_eq_true, ih hcs, and_true]
    by_cases hc : c = 40
    · simp [hc, hcs]
    · simp [hc]

theorem noOC_pre_suf {pre suf : Str} (h1 : 40 ∉ pre) (h2 : 41 ∉ suf) : noOC (pre ++ suf) = true := by
  induction pre with
  | nil => exact noOC_of_no_close h2
  | cons c cs ih =>
    have hc : c ≠ 40 := fun e => h1 (by simp [e])
    simp [noOC, hc, ih (fun m => h1 (by simp [m]))]

theorem noOC_lstrip {s : Str} (h : noOC s = true) : noOC (lstrip s) = true := by
  have := List.takeWhile_append_dropWhile (p := isWs) (l := s)
  rw [← this] at h
  exact (noOC_append h).2

theorem noOC_rstrip {s : Str} (h : noOC s = true) : noOC (rstrip s) = true := by
  have := List.takeWhile_append_dropWhile (p := isWs) (l := s.reverse)
  have hs : s = (s.reverse.dropWhile isWs).reverse ++ (s.reverse.takeWhile isWs).reverse := by
    rw [← List.reverse_append, this, List.reverse_reverse]
  rw [hs] at h
  exact (noOC_append h).1

theorem noOC_strip {s : Str} (h : noOC s = true) : noOC (strip s) = true :=
  noOC_rstrip (noOC_lstrip h)

/-! ### facts about the pieces -/

theorem splitFirst_not_mem {c : Nat} {s pre rest : Str} (h : splitFirst c s = some (pre, rest)) : c ∉ pre := by
  induction s generalizing pre with
  | nil => simp [splitFirst] at h
  | cons x xs ih =>
    simp only [splitFirst] at h
    by_cases hx : x = c
    · simp only [hx, if_true, Option.some.injEq, Prod.mk.injEq] at h
      rw [← h.1]; simp
    · simp only [hx, if_false, Option.map_eq_some_iff] at h
      obtain ⟨⟨p1, p2⟩, hp, he⟩ := h
      simp only [Prod.mk.injEq] at he
      rw [← he.1]
      rw [he.2] at hp
      intro hm
      rcases List.mem_cons.mp hm with e | hm
      · exact hx e.symm
      · exact ih hp hm

theorem splitLast_not_mem {c : Nat} {s pre post : Str} (h : splitLast c s = some (pre, post)) : c ∉ post := by
  induction s generalizing pre with
  | nil => simp [splitLast] at h
  | cons x xs ih =>
    simp only [splitLast] at h
    cases hs : splitLast c xs with
    | some p =>
      obtain ⟨p1, p2⟩ := p
      simp only [hs, Option.some.injEq, Prod.mk.injEq] at h
      rw [h.2] at hs
      exact ih hs
    | none =>
      simp only [hs] at h
      by_cases hx : x = c
      · simp only [hx, if_true, Option.some.injEq, Prod.mk.injEq] at h
        rw [← h.2]
        intro hm
        have : splitLast c xs ≠ none := by
          clear h ih hs
          induction xs with
          | nil => simp at hm
          | cons y ys ih2 =>
            simp only [splitLast]
            cases h3 : splitLast c ys with
            | some q => simp
            | none =>
              rcases List.mem_cons.mp hm with e | hm
              · simp [e]
              · exact absurd h3 (ih2 hm)
        exact this hs
      · simp [hx] at h

theorem groups_ne_nil : ∀ f s g, groups f s = some g → g ≠ [] := by
  intro f
  cases f with
  | zero => intro s g h; simp [groups] at h
  | succ f =>
    intro s g h
    simp only [groups] at h
    split at h
    · split at h
      · split at h
        · simp at h
        · split at h
          · simp only [Option.some.injEq] at h; rw [← h]; simp
          · simp only [Option.map_eq_some_iff] at h
            obtain ⟨a, _, ha⟩ := h
            rw [← ha]; simp
      · simp at h
    · simp at h

theorem findArr_spec {s pre : Str} {g : List Str} (h : findArr s = some (pre, g)) :
    (∃ suf, s = pre ++ suf) ∧ g ≠ [] := by
  induction s generalizing pre with
  | nil => simp [findArr] at h
  | cons c cs ih =>
    simp only [findArr] at h
    split at h
    · rename_i g' hg
      simp only [Option.some.injEq, Prod.mk.injEq] at h
      refine ⟨⟨c :: cs, by rw [← h.1]; rfl⟩, ?_⟩
      rw [← h.2]
      by_cases hc : c = 91
      · simp only [hc, if_true] at hg
        exact groups_ne_nil _ _ _ hg
      · simp [hc] at hg
    · simp only [Option.map_eq_some_iff] at h
      obtain ⟨⟨p1, p2⟩, hp, he⟩ := h
      simp only [Prod.mk.injEq] at he
      rw [he.2] at hp
      obtain ⟨⟨suf, hsuf⟩, hne⟩ := ih hp
      refine ⟨⟨suf, ?_⟩, hne⟩
      rw [← he.1, hsuf]; rfl

theorem mapMOpt_ne_nil {α β : Type} (f : α → Option β) : ∀ (l : List α) (r : List β),
    mapMOpt f l = some r → l ≠ [] → r ≠ [] := by
  intro l r h hl
  cases l with
  | nil => exact absurd rfl hl
  | cons a as =>
    simp only [mapMOpt] at h
    split at h
    · simp only [Option.some.injEq] at h; rw [← h]; simp
    · simp at h

/-! ### results of the parser are well formed -/

theorem wfName_of_valid {ws : List Str} (hv : validWords ws = true) (hc : kConst ∉ ws) (hvol : kVolatile ∉ ws) :
    wfName (joinSp ws) = true := by
  obtain ⟨_, hclean⟩ := validWords_clean hv
  simp only [wfName, splitWs_joinSp ws hclean, hv, beq_self_eq_true, Bool.true_and,
    Bool.and_eq_true, Bool.not_eq_true', List.contains_eq_mem, decide_eq_false_iff_not]
  exact ⟨hc, hvol⟩

theorem valQuals_spec {ws ws' : List Str} {c v : Bool} (h : valQuals ws = some (ws', c, v)) :
    kConst ∉ ws' ∧ kVolatile ∉ ws' := by
  unfold valQuals at h
  split at h
  · simp at h
  · simp only [Option.some.injEq, Prod.mk.injEq] at h
    rw [← h.1]
    constructor <;> intro hm <;> simp at hm

/-- results of `parsePtr` on a string without `( … )`: well formed, never an array -/
theorem parsePtrAux_wf : ∀ f s inn t, parsePtrAux f s inn = some t → noOC s = true →
    (∀ i, inn = some i → WF i = true) → WF t = true ∧ t.isArray = false := by
  intro f
  induction f with
  | zero => intro s inn t h; simp [parsePtrAux] at h
  | succ f ih =>
    intro s inn t h hs hinn
    have hns : s ≠ special := by
      intro e; rw [e, noOC_special] at hs; exact absurd hs (by simp)
    simp only [parsePtrAux, hns, if_false] at h
    split at h
    · rename_i pre post hsl
      split at h
      · simp at h
      · rename_i c v r hq
        have hpre : noOC (strip pre) = true := by
          have := splitLast_eq hsl
          rw [this] at hs
          exact noOC_strip (noOC_append hs).1
        by_cases he : (strip pre).isEmpty = true
        · simp only [he, if_true] at h
          cases hi : inn with
          | none => simp [hi] at h
          | some i =>
            simp only [hi, Option.some.injEq] at h
            rw [← h]
            simp [WF, CType.isArray, hinn i hi]
        · simp only [he] at h
          cases hr : parsePtrAux f (strip pre) inn with
          | none => simp [hr] at h
          | some inner =>
            simp only [hr, Bool.false_eq_true, if_false, Option.some.injEq] at h
            rw [← h]
            simp [WF, CType.isArray, (ih _ _ _ hr hpre hinn).1]
    · split at h
      · simp at h
      · split at h
        · simp at h
        · rename_i ws c v hq
          split at h
          · rename_i hv
            simp only [Option.some.injEq] at h
            rw [← h]
            obtain ⟨h1, h2⟩ := valQuals_spec hq
            simp [WF, CType.isArray, wfName_of_valid hv h1 h2]
          · simp at h

theorem parseLevel_wf {s : Str} {inn : Option CType} {t : CType} (h : parseLevel s inn = some t)
    (hs : noOC s = true) (hinn : ∀ i, inn = some i → WF i = true) : WF t = true := by
  unfold parseLevel at h
  split at h
  · rename_i pre contents hf
    obtain ⟨⟨suf, hsuf⟩, hne⟩ := findArr_spec hf
    split at h
    · rename_i exts inner hm hp
      simp only [Option.some.injEq] at h
      rw [← h]
      have hpre : noOC (strip pre) = true := by
        rw [hsuf] at hs; exact noOC_strip (noOC_append hs).1
      obtain ⟨w1, w2⟩ := parsePtrAux_wf _ _ _ _ hp hpre hinn
      have hex := mapMOpt_ne_nil _ _ _ hm hne
      have : exts.isEmpty = false := by
        cases exts with
        | nil => exact absurd rfl hex
        | cons _ _ => rfl
      simp [WF, this, w1, w2]
    · simp at h
  · exact (parsePtrAux_wf _ _ _ _ h hs hinn).1

theorem parseLevel_special (acc : Option CType) : parseLevel special acc = some specialType := by
  have h1 : findArr special = none := by decide
  simp only [parseLevel, h1, parsePtr]
  simp [parsePtrAux, specialType]

theorem parseNest_wf : ∀ f s acc t, parseNest f s acc = some t → (∀ i, acc = some i → WF i = true) →
    WF t = true ∨ t = specialType := by
  intro f
  induction f with
  | zero => intro s acc t h; simp [parseNest] at h
  | succ f ih =>
    intro s acc t h hacc
    simp only [parseNest] at h
    split at h
    · rename_i hsp
      rw [hsp, parseLevel_special] at h
      simp only [Option.some.injEq] at h
      exact Or.inr h.symm
    · split at h
      · rename_i hsf
        split at h
        · simp at h
        · rename_i hc
          have hcl : 41 ∉ s := by simpa using hc
          exact Or.inl (parseLevel_wf h (noOC_of_no_close hcl) hacc)
      · rename_i pre rest hsf
        split at h
        · simp at h
        · rename_i mid suf hsl
          split at h
          · simp at h
          · rename_i r hr
            have hlev : WF r = true :=
              parseLevel_wf hr (noOC_pre_suf (splitFirst_not_mem hsf) (splitLast_not_mem hsl)) hacc
            exact ih _ _ _ h (by intro i hi; simp only [Option.some.injEq] at hi; rw [← hi]; exact hlev)

theorem parseType_wf {s : Str} {t : CType} (h : parseType s = some t) : WF t = true ∨ t = specialType :=
  parseNest_wf _ _ _ _ h (by intro i hi; simp at hi)

end MjProof.CType
