import MjProof.Model.Energy
import MjProof.Lemmas.RealNum
import Mathlib.Algebra.BigOperators.Fin
import Mathlib.Algebra.BigOperators.Group.Finset.Basic
import Mathlib.Algebra.BigOperators.Ring.Finset
import Mathlib.Tactic.Ring
import Mathlib.Tactic.Linarith
import Mathlib.Tactic.NormNum
/-
Real-number reading of Model/Energy.lean (kinetic energy, C08).
-/
namespace MjProof.Energy
open MjProof

theorem r_mul (a b : ℝ) : @HMul.hMul ℝ ℝ ℝ (@instHMul ℝ (MjNum.toMul)) a b = a * b := rfl
theorem r_add (a b : ℝ) : @HAdd.hAdd ℝ ℝ ℝ (@instHAdd ℝ (MjNum.toAdd)) a b = a + b := rfl
theorem zero_real : (zero : ℝ) = 0 := by simp [zero]
theorem half_real : (half : ℝ) = 1 / 2 := by simp [half]; norm_num

variable {n : ℕ}

/-- the symmetric matrix stored by the rows: diagonal, plus every stored strict-lower entry at `(row, col)`
    and mirrored at `(col, row)` -/
noncomputable def symMat (rows : Fin n → SymRow ℝ n) (i j : Fin n) : ℝ :=
  if i = j then (rows i).diag
  else (((rows i).offs.filter (fun p => p.1 = j)).map (·.2)).sum +
       (((rows j).offs.filter (fun p => p.1 = i)).map (·.2)).sum

theorem symMat_symm (rows : Fin n → SymRow ℝ n) (i j : Fin n) : symMat rows i j = symMat rows j i := by
  unfold symMat
  by_cases h : i = j
  · subst h; rfl
  · have h' : ¬ j = i := fun e => h e.symm
    simp only [h, h', if_false]; ring

theorem foldl_add_map {β : Type} (g : β → ℝ) (l : List β) (s0 : ℝ) :
    l.foldl (fun s p => @HAdd.hAdd ℝ ℝ ℝ (@instHAdd ℝ (MjNum.toAdd)) s (g p)) s0 = s0 + (l.map g).sum := by
  induction l generalizing s0 with
  | nil => simp
  | cons a l ih => simp only [List.foldl_cons, List.map_cons, List.sum_cons, ih, r_add]; ring

theorem addLower_real (r : SymRow ℝ n) (v : Fin n → ℝ) (s : ℝ) :
    addLower r v s = s + (r.offs.map (fun p => p.2 * v p.1)).sum := by
  unfold addLower
  have := foldl_add_map (fun p : Fin n × ℝ => p.2 * v p.1) r.offs.reverse s
  simp only [r_mul] at this ⊢
  rw [this, List.map_reverse, List.sum_reverse]

theorem addUpper_real (r : SymRow ℝ n) (i : Fin n) (x s : ℝ) :
    addUpper r i x s = s + ((r.offs.filter (fun p => p.1 = i)).map (·.2)).sum * x := by
  unfold addUpper
  have h1 : ∀ (l : List (Fin n × ℝ)) (s : ℝ),
      l.foldl (fun s p => if p.1 = i then @HAdd.hAdd ℝ ℝ ℝ (@instHAdd ℝ (MjNum.toAdd)) s
        (@HMul.hMul ℝ ℝ ℝ (@instHMul ℝ (MjNum.toMul)) p.2 x) else s) s
        = s + ((l.filter (fun p => p.1 = i)).map (·.2)).sum * x := by
    intro l
    induction l with
    | nil => intro s; simp
    | cons a l ih =>
      intro s
      simp only [List.foldl_cons]
      rw [ih]
      by_cases ha : a.1 = i
      · simp only [ha, if_true, List.filter_cons, decide_true, List.map_cons, List.sum_cons, r_add, r_mul]
        ring
      · simp only [ha, if_false, List.filter_cons, decide_false]
        simp
  rw [h1, List.filter_reverse, List.map_reverse, List.sum_reverse]

/-- sum over a list of pairs whose first components are all different from `i` of `[p.1 = j]`-filtered values -/
theorem sum_filter_col (l : List (Fin n × ℝ)) (v : Fin n → ℝ) :
    (l.map (fun p => p.2 * v p.1)).sum = ∑ j, ((l.filter (fun p => p.1 = j)).map (·.2)).sum * v j := by
  induction l with
  | nil => simp
  | cons a l ih =>
    simp only [List.map_cons, List.sum_cons, ih, List.filter_cons]
    have : ∀ j, ((if decide (a.1 = j) = true then a :: l.filter (fun p => p.1 = j)
        else l.filter (fun p => p.1 = j)).map (·.2)).sum * v j =
        (if a.1 = j then a.2 * v j else 0) + ((l.filter (fun p => p.1 = j)).map (·.2)).sum * v j := by
      intro j
      by_cases h : a.1 = j
      · simp [h]; ring
      · simp [h]
    simp only [this, Finset.sum_add_distrib, Finset.sum_ite_eq, Finset.mem_univ, if_true]

theorem foldl_upper_real (rows : Fin n → SymRow ℝ n) (v : Fin n → ℝ) (i : Fin n) (l : List (Fin n)) (s : ℝ) :
    l.foldl (fun s i' => if i < i' then addUpper (rows i') i (v i') s else s) s =
      s + (l.map (fun i' => if i < i' then
        (((rows i').offs.filter (fun p => p.1 = i)).map (·.2)).sum * v i' else 0)).sum := by
  induction l generalizing s with
  | nil => simp
  | cons a l ih =>
    simp only [List.foldl_cons, List.map_cons, List.sum_cons]
    rw [ih]
    by_cases h : i < a
    · simp only [h, if_true, addUpper_real]; ring
    · simp only [h, if_false]; ring

/-- well-formedness as a proposition -/
def WF (rows : Fin n → SymRow ℝ n) : Prop := ∀ i, ∀ p ∈ (rows i).offs, p.1 < i

theorem wf_iff (rows : Fin n → SymRow ℝ n) : wf rows = true ↔ WF rows := by
  unfold wf WF
  simp [List.all_eq_true]

theorem filter_eq_nil_of_wf {rows : Fin n → SymRow ℝ n} (h : WF rows) {i j : Fin n} (hij : i ≤ j) :
    (rows i).offs.filter (fun p => p.1 = j) = [] := by
  rw [List.filter_eq_nil_iff]
  intro p hp
  have := h i p hp
  simp only [decide_eq_true_eq]
  intro e
  rw [e] at this
  exact absurd this (not_lt.mpr hij)

/-- **`mju_mulSymVecSparse` is the product with the stored symmetric matrix.** -/
theorem mulSymVec_eq (rows : Fin n → SymRow ℝ n) (h : WF rows) (v : Fin n → ℝ) (i : Fin n) :
    mulSymVec rows v i = ∑ j, symMat rows i j * v j := by
  unfold mulSymVec
  simp only []
  rw [foldl_upper_real, addLower_real, sum_filter_col, r_mul]
  have hfin : ((List.finRange n).map (fun i' => if i < i' then
        (((rows i').offs.filter (fun p => p.1 = i)).map (·.2)).sum * v i' else 0)).sum =
      ∑ j, (if i < j then (((rows j).offs.filter (fun p => p.1 = i)).map (·.2)).sum * v j else 0) := by
    rw [← List.ofFn_eq_map, List.sum_ofFn]
  rw [hfin]
  have hrow : ∀ j, symMat rows i j * v j =
      (if j = i then (rows i).diag * v i else 0) +
      (((rows i).offs.filter (fun p => p.1 = j)).map (·.2)).sum * v j +
      (if i < j then (((rows j).offs.filter (fun p => p.1 = i)).map (·.2)).sum * v j else 0) := by
    intro j
    unfold symMat
    by_cases hij : i = j
    · subst hij
      simp [filter_eq_nil_of_wf h (le_refl i)]
    · have hji : ¬ j = i := fun e => hij e.symm
      simp only [hij, hji, if_false, zero_add]
      by_cases hlt : i < j
      · simp only [hlt, if_true]; ring
      · have hle : j ≤ i := not_lt.mp hlt
        rw [filter_eq_nil_of_wf h hle]
        simp [hlt]
  simp only [hrow, Finset.sum_add_distrib, Finset.sum_ite_eq', Finset.mem_univ, if_true]

/-! ### `mju_dot` -/
theorem dotAcc_real (r0 r1 r2 r3 : ℝ) (l : List (ℝ × ℝ)) :
    dotAcc r0 r1 r2 r3 l = r0 + r1 + r2 + r3 + (l.map (fun p => p.1 * p.2)).sum := by
  fun_induction dotAcc r0 r1 r2 r3 l with
  | case1 r0 r1 r2 r3 a0 a1 a2 a3 rest ih =>
    rw [ih]; simp only [r_add, r_mul, List.map_cons, List.sum_cons]; ring
  | case2 r0 r1 r2 r3 a0 a1 a2 => simp only [r_add, r_mul, List.map_cons, List.sum_cons, List.map_nil, List.sum_nil]; ring
  | case3 r0 r1 r2 r3 a0 a1 => simp only [r_add, r_mul, List.map_cons, List.sum_cons, List.map_nil, List.sum_nil]; ring
  | case4 r0 r1 r2 r3 a0 => simp only [r_add, r_mul, List.map_cons, List.sum_cons, List.map_nil, List.sum_nil]; ring
  | case5 r0 r1 r2 r3 => simp only [r_add, List.map_nil, List.sum_nil]; ring

theorem dot_real (l : List (ℝ × ℝ)) : dot l = (l.map (fun p => p.1 * p.2)).sum := by
  unfold dot; rw [dotAcc_real, zero_real]; ring

theorem energyVel_real (rows : Fin n → SymRow ℝ n) (h : WF rows) (v : Fin n → ℝ) :
    energyVel rows v = 1 / 2 * ∑ i, v i * ∑ j, symMat rows i j * v j := by
  unfold energyVel
  rw [dot_real, half_real, r_mul, List.map_map]
  congr 1
  rw [← List.ofFn_eq_map, List.sum_ofFn]
  refine Finset.sum_congr rfl (fun i _ => ?_)
  simp only [Function.comp]
  rw [mulSymVec_eq rows h v i]; ring

/-- `mju_sym2dense` returns the stored symmetric matrix when no row stores a column twice -/
theorem denseEntry_eq (rows : Fin n → SymRow ℝ n) (h : WF rows)
    (hnd : ∀ i, ((rows i).offs.map (·.1)).Nodup) (i j : Fin n) :
    denseEntry rows i j = symMat rows i j := by
  have key : ∀ (l : List (Fin n × ℝ)) (c : Fin n), (l.map (·.1)).Nodup →
      l.foldl (fun acc p => if p.1 = c then p.2 else acc) (zero : ℝ) =
        ((l.filter (fun p => p.1 = c)).map (·.2)).sum := by
    intro l c
    -- generalise the accumulator: if `c` does not occur the accumulator is kept
    have gen : ∀ (l : List (Fin n × ℝ)) (acc : ℝ), (l.map (·.1)).Nodup →
        l.foldl (fun acc p => if p.1 = c then p.2 else acc) acc =
          if c ∈ l.map (·.1) then ((l.filter (fun p => p.1 = c)).map (·.2)).sum else acc := by
      intro l
      induction l with
      | nil => intro acc _; simp
      | cons a l ih =>
        intro acc hnd
        rw [List.map_cons, List.nodup_cons] at hnd
        simp only [List.foldl_cons]
        rw [ih _ hnd.2]
        by_cases ha : a.1 = c
        · have hc : c ∉ l.map (·.1) := ha ▸ hnd.1
          have hf : l.filter (fun p => p.1 = c) = [] := by
            rw [List.filter_eq_nil_iff]
            intro p hp
            simp only [decide_eq_true_eq]
            intro e
            exact hc (List.mem_map.mpr ⟨p, hp, e⟩)
          simp [ha, hc, hf]
        · have hne : ¬ c = a.1 := fun e => ha e.symm
          simp only [ha, if_false, List.filter_cons, decide_false, List.map_cons, List.mem_cons, hne, false_or]
          simp
    intro hnd
    rw [gen l zero hnd]
    by_cases hc : c ∈ l.map (·.1)
    · simp [hc]
    · have hf : l.filter (fun p => p.1 = c) = [] := by
        rw [List.filter_eq_nil_iff]
        intro p hp
        simp only [decide_eq_true_eq]
        intro e
        exact hc (List.mem_map.mpr ⟨p, hp, e⟩)
      simp [hc, hf, zero_real]
  unfold denseEntry symMat
  by_cases hij : i = j
  · simp [hij]
  · simp only [hij, if_false]
    by_cases hlt : j < i
    · simp only [hlt, if_true]
      rw [key _ _ (hnd i), filter_eq_nil_of_wf h (le_of_lt hlt)]
      simp
    · have hlt' : i < j := lt_of_le_of_ne (not_lt.mp hlt) hij
      simp only [hlt, if_false]
      rw [key _ _ (hnd j), filter_eq_nil_of_wf h (le_of_lt hlt')]
      simp


/-! ### real-number reading of the joint loops of `mj_energyPos` / `mj_springdamper` -/

theorem noSpring_real (k p0 p1 : ℝ) : noSpring k p0 p1 = true ↔ k = 0 ∧ p0 = 0 ∧ p1 = 0 := by
  simp [noSpring, polyIsZero, zero_real]

theorem polyPotential_real (k p0 p1 x : ℝ) :
    Gen.c08_polyPotential k p0 p1 x = 1 / 2 * k * x ^ 2 + p0 / 3 * x ^ 3 + p1 / 4 * x ^ 4 := by
  simp only [Gen.c08_polyPotential, real_ofInt, real_ofSci]
  show (OfScientific.ofScientific 5 true 1 : ℝ) * k * (x * x) + p0 / ((3 : ℤ) : ℝ) * (x * x * x) +
    p1 / ((4 : ℤ) : ℝ) * (x * x * x * x) = _
  have h5 : (OfScientific.ofScientific 5 true 1 : ℝ) = 1 / 2 := by norm_num
  rw [h5]
  push_cast
  ring

theorem polyForce_real (k p0 p1 x : ℝ) : Gen.c08_polyForce k p0 p1 x = k + p0 * x + p1 * x ^ 2 := by
  simp only [Gen.c08_polyForce, real_ofInt]
  show k + p0 * (((1 : ℤ) : ℝ) * x) + p1 * (((1 : ℤ) : ℝ) * x * x) = _
  push_cast
  ring

/-- parameters of a slide / hinge joint spring -/
structure ScalarSpring where
  k : ℝ
  p0 : ℝ
  p1 : ℝ
  qspring : ℝ

/-- joint `j` as both engine loops see it: it owns dof `j`, displacement `q j - qspring` -/
def scalarJoint (P : Fin n → ScalarSpring) (q : Fin n → ℝ) (j : Fin n) : JointSpring ℝ :=
  ⟨(P j).k, (P j).p0, (P j).p1, j.val, [Disp.scalar (q j) (P j).qspring]⟩

/-- contribution of joint `j` to the potential, WITHOUT the skip test -/
noncomputable def potTerm (P : Fin n → ScalarSpring) (q : Fin n → ℝ) (j : Fin n) : ℝ :=
  Gen.c08_polyPotential (P j).k (P j).p0 (P j).p1 (q j - (P j).qspring)

/-- force on dof `j`, WITHOUT the skip test -/
noncomputable def forceTerm (P : Fin n → ScalarSpring) (q : Fin n → ℝ) (j : Fin n) : ℝ :=
  -(q j - (P j).qspring) * Gen.c08_polyForce (P j).k (P j).p0 (P j).p1 (q j - (P j).qspring)

/-- the skip test of `mj_energyPos` only drops terms that are zero -/
theorem jointPotential_scalar (P : Fin n → ScalarSpring) (q : Fin n → ℝ) (j : Fin n) (e : ℝ) :
    jointPotential e (scalarJoint P q j) = e + potTerm P q j := by
  unfold jointPotential scalarJoint potTerm
  by_cases h : noSpring (P j).k (P j).p0 (P j).p1 = true
  · rw [if_pos h]
    obtain ⟨hk, h0, h1⟩ := (noSpring_real _ _ _).mp h
    rw [polyPotential_real, hk, h0, h1]
    ring
  · simp only [h, List.foldl_cons, List.foldl_nil, Disp.x]
    rfl

theorem foldl_jointPotential (P : Fin n → ScalarSpring) (q : Fin n → ℝ) (l : List (Fin n)) (e : ℝ) :
    (l.map (scalarJoint P q)).foldl jointPotential e = e + (l.map (potTerm P q)).sum := by
  induction l generalizing e with
  | nil => simp
  | cons a l ih => simp only [List.map_cons, List.foldl_cons, List.sum_cons, ih, jointPotential_scalar]; ring

/-- the skip test of `mj_springdamper` only drops forces that are zero: one joint -/
theorem jointForce_scalar (P : Fin n → ScalarSpring) (q : Fin n → ℝ) (i : Fin n) (f : ℕ → ℝ) (m : ℕ) :
    jointForce f (scalarJoint P q i) m =
      if noSpring (P i).k (P i).p0 (P i).p1 = true then f m else if m = i.val then forceTerm P q i else f m := by
  unfold jointForce scalarJoint
  by_cases h : noSpring (P i).k (P i).p0 (P i).p1 = true
  · simp only [h, if_true]
  · simp only [h, dispForce, forceTerm]
    rfl

theorem foldl_jointForce (P : Fin n → ScalarSpring) (q : Fin n → ℝ) (l : List (Fin n)) (hl : l.Nodup)
    (f : ℕ → ℝ) (j : Fin n) :
    (l.map (scalarJoint P q)).foldl jointForce f j.val =
      if j ∈ l ∧ ¬ noSpring (P j).k (P j).p0 (P j).p1 = true then forceTerm P q j else f j.val := by
  induction l generalizing f with
  | nil => simp
  | cons a l ih =>
    have hnd := List.nodup_cons.mp hl
    simp only [List.map_cons, List.foldl_cons]
    rw [ih hnd.2, jointForce_scalar]
    by_cases hja : j = a
    · subst hja
      have : j ∉ l := hnd.1
      by_cases hs : noSpring (P j).k (P j).p0 (P j).p1 = true <;> simp [this, hs]
    · have hv : ¬ j.val = a.val := fun e => hja (Fin.ext e)
      by_cases hm : j ∈ l <;> by_cases hs : noSpring (P j).k (P j).p0 (P j).p1 = true <;>
        by_cases hsa : noSpring (P a).k (P a).p0 (P a).p1 = true <;> simp [hm, hs, hsa, hja, hv]

/-- a skipped joint has zero force anyway -/
theorem forceTerm_of_noSpring (P : Fin n → ScalarSpring) (q : Fin n → ℝ) (j : Fin n)
    (h : noSpring (P j).k (P j).p0 (P j).p1 = true) : forceTerm P q j = 0 := by
  obtain ⟨hk, h0, h1⟩ := (noSpring_real _ _ _).mp h
  simp [forceTerm, polyForce_real, hk, h0, h1]

end MjProof.Energy
