import MjProof.Model.Energy
import MjProof.Lemmas.RealNum
import Mathlib.Algebra.BigOperators.Fin
import Mathlib.Algebra.BigOperators.Group.Finset.Basic
import Mathlib.Algebra.BigOperators.Ring.Finset
import Mathlib.Tactic.Ring
import Mathlib.Tactic.Linarith
import Mathlib.Tactic.NormNum
/-
Real-number reading of Model/Energy.lean (kinetic energy, C08).
-/
namespace MjProof.Energy
open MjProof

theorem r_mul (a b : ℝ) : @HMul.hMul ℝ ℝ ℝ (@instHMul ℝ (MjNum.toMul)) a b = a * b := rfl
theorem r_add (a b : ℝ) : @HAdd.hAdd ℝ ℝ ℝ (@instHAdd ℝ (MjNum.toAdd)) a b = a + b := rfl
theorem zero_real : (zero : ℝ) = 0 := by simp [zero]
theorem half_real : (half : ℝ) = 1 / 2 := by simp [half]; norm_num

variable {n : ℕ}

/-- the symmetric matrix stored by the rows: diagonal, plus every stored strict-lower entry at `(row, col)`
    and mirrored at `(col, row)` -/
noncomputable def symMat (rows : Fin n → SymRow ℝ n) (i j : Fin n) : ℝ :=
  if i = j then (rows i).diag
  else (((rows i).offs.filter (fun p => p.1 = j)).map (·.2)).sum +
       (((rows j).offs.filter (fun p => p.1 = i)).map (·.2)).sum

theorem symMat_symm (rows : Fin n → SymRow ℝ n) (i j : Fin n) : symMat rows i j = symMat rows j i := by
  unfold symMat
  by_cases h : i = j
  · subst h; rfl
  · have h' : ¬ j = i := fun e => h e.symm
    simp only [h, h', if_false]; ring

theorem foldl_add_map {β : Type} (g : β → ℝ) (l : List β) (s0 : ℝ) :
    l.foldl (fun s p => @HAdd.hAdd ℝ ℝ ℝ (@instHAdd ℝ (MjNum.toAdd)) s (g p)) s0 = s0 + (l.map g).sum := by
  induction l generalizing s0 with
  | nil => simp
  | cons a l ih => simp only [List.foldl_cons, List.map_cons, List.sum_cons, ih, r_add]; ring

theorem addLower_real (r : SymRow ℝ n) (v : Fin n → ℝ) (s : ℝ) :
    addLower r v s = s + (r.offs.map (fun p => p.2 * v p.1)).sum := by
  unfold addLower
  have := foldl_add_map (fun p : Fin n × ℝ => p.2 * v p.1) r.offs.reverse s
  simp only [r_mul] at this ⊢
  rw [this, List.map_reverse, List.sum_reverse]

theorem addUpper_real (r : SymRow ℝ n) (i : Fin n) (x s : ℝ) :
    addUpper r i x s = s + ((r.offs.filter (fun p => p.1 = i)).map (·.2)).sum * x := by
  unfold addUpper
  have h1 : ∀ (l : List (Fin n × ℝ)) (s : ℝ),
      l.foldl (fun s p => if p.1 = i then @HAdd.hAdd ℝ ℝ ℝ (@instHAdd ℝ (MjNum.toAdd)) s
        (@HMul.hMul ℝ ℝ ℝ (@instHMul ℝ (MjNum.toMul)) p.2 x) else s) s
        = s + ((l.filter (fun p => p.1 = i)).map (·.2)).sum * x := by
    intro l
    induction l with
    | nil => intro s; simp
    | cons a l ih =>
      intro s
      simp only [List.foldl_cons]
      rw [ih]
      by_cases ha : a.1 = i
      · simp only [ha, if_true, List.filter_cons, decide_true, List.map_cons, List.sum_cons, r_add, r_mul]
        ring
      · simp only [ha, if_false, List.filter_cons, decide_false]
        simp
  rw [h1, List.filter_reverse, List.map_reverse, List.sum_reverse]

/-- sum over a list of pairs whose first components are all different from `i` of `[p.1 = j]`-filtered values -/
theorem sum_filter_col (l : List (Fin n × ℝ)) (v : Fin n → ℝ) :
    (l.map (fun p => p.2 * v p.1)).sum = ∑ j, ((l.filter (fun p => p.1 = j)).map (·.2)).sum * v j := by
  induction l with
  | nil => simp
  | cons a l ih =>
    simp only [List.map_cons, List.sum_cons, ih, List.filter_cons]
    have : ∀ j, ((if decide (a.1 = j) = true then a :: l.filter (fun p => p.1 = j)
        else l.filter (fun p => p.1 = j)).map (·.2)).sum * v j =
        (if a.1 = j then a.2 * v j else 0) + ((l.filter (fun p => p.1 = j)).map (·.2)).sum * v j := by
      intro j
      by_cases h : a.1 = j
      · simp [h]; ring
      · simp [h]
    simp only [this, Finset.sum_add_distrib, Finset.sum_ite_eq, Finset.mem_univ, if_true]

theorem foldl_upper_real (rows : Fin n → SymRow ℝ n) (v : Fin n → ℝ) (i : Fin n) (l : List (Fin n)) (s : ℝ) :
    l.foldl (fun s i' => if i < i' then addUpper (rows i') i (v i') s else s) s =
      s + (l.map (fun i' => if i < i' then
        (((rows i').offs.filter (fun p => p.1 = i)).map (·.2)).sum * v i' else 0)).sum := by
  induction l generalizing s with
  | nil => simp
  | cons a l ih =>
    simp only [List.foldl_cons, List.map_cons, List.sum_cons]
    rw [ih]
    by_cases h : i < a
    · simp only [h, if_true, addUpper_real]; ring
    · simp only [h, if_false]; ring

/-- well-formedness as a proposition -/
def WF (rows : Fin n → SymRow ℝ n) : Prop := ∀ i, ∀ p ∈ (rows i).offs, p.1 < i

theorem wf_iff (rows : Fin n → SymRow ℝ n) : wf rows = true ↔ WF rows := by
  unfold wf WF
  simp [List.all_eq_true]

theorem filter_eq_nil_of_wf {rows : Fin n → SymRow ℝ n} (h : WF rows) {i j : Fin n} (hij : i ≤ j) :
    (rows i).offs.filter (fun p => p.1 = j) = [] := by
  rw [List.filter_eq_nil_iff]
  intro p hp
  have := h i p hp
  simp only [decide_eq_true_eq]
  intro e
  rw [e] at this
  exact absurd this (not_lt.mpr hij)

/-- **`mju_mulSymVecSparse` is the product with the stored symmetric matrix.** -/
theorem mulSymVec_eq (rows : Fin n → SymRow ℝ n) (h : WF rows) (v : Fin n → ℝ) (i : Fin n) :
    mulSymVec rows v i = ∑ j, symMat rows i j * v j := by
  unfold mulSymVec
  simp only []
  rw [foldl_upper_real, addLower_real, sum_filter_col, r_mul]
  have hfin : ((List.finRange n).map (fun i' => if i < i' then
        (((rows i').offs.filter (fun p => p.1 = i)).map (·.2)).sum * v i' else 0)).sum =
      ∑ j, (if i < j then (((rows j).offs.filter (fun p => p.1 = i)).map (·.2)).sum * v j else 0) := by
    rw [← List.ofFn_eq_map, List.sum_ofFn]
  rw [hfin]
  have hrow : ∀ j, symMat rows i j * v j =
      (if j = i then (rows i).diag * v i else 0) +
      (((rows i).offs.filter (fun p => p.1 = j)).map (·.2)).sum * v j +
      (if i < j then (((rows j).offs.filter (fun p => p.1 = i)).map (·.2)).sum * v j else 0) := by
    intro j
    unfold symMat
    by_cases hij : i = j
    · subst hij
      simp [filter_eq_nil_of_wf h (le_refl i)]
    · have hji : ¬ j = i := fun e => hij e.symm
      simp only [hij, hji, if_false, zero_add]
      by_cases hlt : i < j
      · simp only [hlt, if_true]; ring
      · have hle : j ≤ i := not_lt.mp hlt
        rw [filter_eq_nil_of_wf h hle]
        simp [hlt]
  simp only [hrow, Finset.sum_add_distrib, Finset.sum_ite_eq', Finset.mem_univ, if_true]

/-! ### `mju_dot` -/
theorem dotAcc_real (r0 r1 r2 r3 : ℝ) (l : List (ℝ × ℝ)) :
    dotAcc r0 r1 r2 r3 l = r0 + r1 + r2 + r3 + (l.map (fun p => p.1 * p.2)).sum := by
  fun_induction dotAcc r0 r1 r2 r3 l with
  | case1 r0 r1 r2 r3 a0 a1 a2 a3 rest ih =>
    rw [ih]; simp only [r_add, r_mul, List.map_cons, List.sum_cons]; ring
  | case2 r0 r1 r2 r3 a0 a1 a2 => simp only [r_add, r_mul, List.map_cons, List.sum_cons, List.map_nil, List.sum_nil]; ring
  | case3 r0 r1 r2 r3 a0 a1 => simp only [r_add, r_mul, List.map_cons, List.sum_cons, List.map_nil, List.sum_nil]; ring
  | case4 r0 r1 r2 r3 a0 => simp only [r_add, r_mul, List.map_cons, List.sum_cons, List.map_nil, List.sum_nil]; ring
  | case5 r0 r1 r2 r3 => simp only [r_add, List.map_nil, List.sum_nil]; ring

theorem dot_real (l : List (ℝ × ℝ)) : dot l = (l.map (fun p => p.1 * p.2)).sum := by
  unfold dot; rw [dotAcc_real, zero_real]; ring

theorem energyVel_real (rows : Fin n → SymRow ℝ n) (h : WF rows) (v : Fin n → ℝ) :
    energyVel rows v = 1 / 2 * ∑ i, v i * ∑ j, symMat rows i j * v j := by
  unfold energyVel
  rw [dot_real, half_real, r_mul, List.map_map]
  congr 1
  rw [← List.ofFn_eq_map, List.sum_ofFn]
  refine Finset.sum_congr rfl (fun i _ => ?_)
  simp only [Function.comp]
  rw [mulSymVec_eq rows h v i]; ring

/-- `mju_sym2dense` returns the stored symmetric matrix when no row stores a column twice -/
theorem denseEntry_eq (rows : Fin n → SymRow ℝ n) (h : WF rows)
    (hnd : ∀ i, ((rows i).offs.map (·.1)).Nodup) (i j : Fin n) :
    denseEntry rows i j = symMat rows i j := by
  have key : ∀ (l : List (Fin n × ℝ)) (c : Fin n), (l.map (·.1)).Nodup →
      l.foldl (fun acc p => if p.1 = c then p.2 else acc) (zero : ℝ) =
        ((l.filter (fun p => p.1 = c)).map (·.2)).sum := by
    intro l c
    -- generalise the accumulator: if `c` does not occur the accumulator is kept
    have gen : ∀ (l : List (Fin n × ℝ)) (acc : ℝ), (l.map (·.1)).Nodup →
        l.foldl (fun acc p => if p.1 = c then p.2 else acc) acc =
          if c ∈ l.map (·.1) then ((l.filter (fun p => p.1 = c)).map (·.2)).sum else acc := by
      intro l
      induction l with
      | nil => intro acc _; simp
      | cons a l ih =>
        intro acc hnd
        rw [List.map_cons, List.nodup_cons] at hnd
        simp only [List.foldl_cons]
        rw [ih _ hnd.2]
        by_cases ha : a.1 = c
        · have hc : c ∉ l.map (·.1) := ha ▸ hnd.1
          have hf : l.filter (fun p => p.1 = c) = [] := by
            rw [List.filter_eq_nil_iff]
            intro p hp
            simp only [decide_eq_true_eq]
            intro e
            exact hc (List.mem_map.mpr ⟨p, hp, e⟩)
          simp [ha, hc, hf]
        · have hne : ¬ c = a.1 := fun e => ha e.symm
          simp only [ha, if_false, List.filter_cons, decide_false, List.map_cons, List.mem_cons, hne, false_or]
          simp
    intro hnd
    rw [gen l zero hnd]
    by_cases hc : c ∈ l.map (·.1)
    · simp [hc]
    · have hf : l.filter (fun p => p.1 = c) = [] := by
        rw [List.filter_eq_nil_iff]
        intro p hp
        simp only [decide_eq_true_eq]
        intro e
        exact hc (List.mem_map.mpr ⟨p, hp, e⟩)
      simp [hc, hf, zero_real]
  unfold denseEntry symMat
  by_cases hij : i = j
  · simp [hij]
  · simp only [hij, if_false]
    by_cases hlt : j < i
    · simp only [hlt, if_true]
      rw [key _ _ (hnd i), filter_eq_nil_of_wf h (le_of_lt hlt)]
      simp
    · have hlt' : i < j := lt_of_le_of_ne (not_lt.mp hlt) hij
      simp only [hlt, if_false]
      rw [key _ _ (hnd j), filter_eq_nil_of_wf h (le_of_lt hlt')]
      simp

end MjProof.Energy
