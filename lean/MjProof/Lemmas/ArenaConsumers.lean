import MjProof.Model.ArenaConsumers
/-
Helper lemmas for Props/C20.lean: the environment, the allocator's two answers, soundness of the
syntactic discipline `guarded`, and the execution of the X-macro allocation loops.
-/
namespace MjProof.ArenaConsumers
open MjProof.Arena

/-! ### environment -/

theorem lookup_nullify (p : Var → Bool) : ∀ (env : List (Var × Val)) (v : Var),
    lookup (nullify p env) v = (lookup env v).map (fun x => if p v then none else x)
  | [], _ => rfl
  | (w, x) :: rest, v => by
    simp only [nullify, lookup]
    by_cases h : w = v
    · subst h; simp
    · simp [h, lookup_nullify p rest v]

theorem lookup_cons_self (env : List (Var × Val)) (v : Var) (x : Val) : lookup ((v, x) :: env) v = some x := by
  simp [lookup]

theorem lookup_cons_ne (env : List (Var × Val)) {v w : Var} (x : Val) (h : w ≠ v) :
    lookup ((w, x) :: env) v = lookup env v := by
  simp [lookup, h]

/-- bindings prepended for other keys do not change a lookup. -/
theorem lookup_append_of_keys (env : List (Var × Val)) (v : Var) :
    ∀ bs : List (Var × Val), (∀ b ∈ bs, b.1 ≠ v) → lookup (bs ++ env) v = lookup env v
  | [], _ => rfl
  | (w, x) :: rest, h => by
    have hw : w ≠ v := h (w, x) (by simp)
    simp only [List.cons_append, lookup, hw, if_false]
    exact lookup_append_of_keys env v rest (fun b hb => h b (by simp [hb]))

/-! ### the allocator answers NULL (state unchanged) or a pointer -/

theorem arenaAlloc_cases (c : Cfg) (s : State) (bytes al : Nat) :
    arenaAlloc c s bytes al = (.null, s) ∨
    ∃ p s', arenaAlloc c s bytes al = (.ptr p, s') ∧ s'.pstack = s.pstack ∧ s'.pbase = s.pbase ∧
      s'.frames = s.frames ∧ s'.threadlock = s.threadlock := by
  unfold arenaAlloc
  simp only
  generalize (if fastmod s.parena al ≠ 0 then sub64 al (fastmod s.parena al) else 0) = pad
  split
  · exact Or.inl rfl
  · exact Or.inr ⟨_, _, rfl, rfl, rfl, rfl, rfl⟩

/-! ### soundness of `guarded` -/

/-- the static facts hold of a dynamic state (`k` = stack depth at entry of the program). -/
structure Agrees (f : Facts) (d : D) (k : Nat) : Prop where
  nn : ∀ v ∈ f.nn, ∃ p, lookup d.env v = some (some p)
  bd : ∀ v ∈ f.bd, ∃ x, lookup d.env v = some x
  dep : d.depth = k + f.dep

theorem actFacts_sound {f f' : Facts} {d : D} {k : Nat} {a : Act} (h : actFacts f a = some f')
    (ag : Agrees f d k) : ∃ d', runAct d a = .ok d' ∧ Agrees f' d' k := by
  cases a with
  | warn w =>
    cases w <;> (simp only [actFacts, Option.some.injEq] at h; subst h
                 exact ⟨_, rfl, ⟨ag.nn, ag.bd, ag.dep⟩⟩)
  | clearEfc =>
    simp only [actFacts, Option.some.injEq] at h; subst h
    refine ⟨_, rfl, ⟨?_, ?_, ag.dep⟩⟩
    · intro v hv
      simp only [List.mem_filter, Bool.not_eq_eq_eq_not, Bool.not_true] at hv
      obtain ⟨p, hp⟩ := ag.nn v hv.1
      exact ⟨p, by simp [lookup_nullify, hp, hv.2]⟩
    · intro v hv
      obtain ⟨x, hx⟩ := ag.bd v hv
      exact ⟨if v.isFld = true then none else x, by simp only [lookup_nullify, hx, Option.map_some]⟩
  | parenaToCon => simp only [actFacts, Option.some.injEq] at h; subst h; exact ⟨_, rfl, ⟨ag.nn, ag.bd, ag.dep⟩⟩
  | saveParena => simp only [actFacts, Option.some.injEq] at h; subst h; exact ⟨_, rfl, ⟨ag.nn, ag.bd, ag.dep⟩⟩
  | clearIsland =>
    simp only [actFacts, Option.some.injEq] at h; subst h
    refine ⟨_, rfl, ⟨?_, ?_, ag.dep⟩⟩
    · intro v hv
      simp only [List.mem_filter, Bool.not_eq_eq_eq_not, Bool.not_true] at hv
      obtain ⟨p, hp⟩ := ag.nn v hv.1
      exact ⟨p, by simp [lookup_nullify, hp, hv.2]⟩
    · intro v hv
      obtain ⟨x, hx⟩ := ag.bd v hv
      exact ⟨if v.isIsland = true then none else x, by simp only [lookup_nullify, hx, Option.map_some]⟩
  | markStack =>
    simp only [actFacts, Option.some.injEq] at h; subst h
    exact ⟨_, rfl, ⟨ag.nn, ag.bd, by simp [ag.dep]; omega⟩⟩
  | freeStack =>
    simp only [actFacts] at h
    split at h
    · simp at h
    · next hd =>
      simp only [Option.some.injEq] at h; subst h
      have : d.depth ≠ 0 := by rw [ag.dep]; omega
      refine ⟨{ d with depth := d.depth - 1 }, by simp [runAct, this], ⟨ag.nn, ag.bd, ?_⟩⟩
      simp only [ag.dep]; omega
  | addNcon n => simp only [actFacts, Option.some.injEq] at h; subst h; exact ⟨_, rfl, ⟨ag.nn, ag.bd, ag.dep⟩⟩

theorem actsFacts_sound : ∀ {acts : List Act} {f f' : Facts} {d : D} {k : Nat}, actsFacts f acts = some f' →
    Agrees f d k → ∃ d', runActs d acts = .ok d' ∧ Agrees f' d' k
  | [], f, f', d, k, h, ag => by
    simp only [actsFacts, Option.some.injEq] at h; subst h; exact ⟨d, rfl, ag⟩
  | a :: rest, f, f', d, k, h, ag => by
    simp only [actsFacts] at h
    split at h
    · next f1 h1 =>
      obtain ⟨d1, hr, ag1⟩ := actFacts_sound h1 ag
      obtain ⟨d2, hr2, ag2⟩ := actsFacts_sound h ag1
      exact ⟨d2, by simp [runActs, hr, hr2], ag2⟩
    · simp at h

/-- on bound variables `anyNull` answers; `false` means every tested variable holds a pointer. -/
theorem anyNull_bound (env : List (Var × Val)) : ∀ ts : List Var, (∀ v ∈ ts, ∃ x, lookup env v = some x) →
    (anyNull env ts = .ok true) ∨ (anyNull env ts = .ok false ∧ ∀ v ∈ ts, ∃ p, lookup env v = some (some p))
  | [], _ => Or.inr ⟨rfl, by simp⟩
  | t :: rest, h => by
    obtain ⟨x, hx⟩ := h t (by simp)
    have ih := anyNull_bound env rest (fun v hv => h v (by simp [hv]))
    cases x with
    | none =>
      left
      simp only [anyNull, hx]
      rcases ih with ih | ih
      · simp [ih]
      · simp [ih.1]
    | some p =>
      simp only [anyNull, hx]
      rcases ih with ih | ih
      · exact Or.inl ih
      · refine Or.inr ⟨ih.1, ?_⟩
        intro v hv
        simp only [List.mem_cons] at hv
        rcases hv with rfl | hv
        · exact ⟨p, hx⟩
        · exact ih.2 v hv

def Outcome.isFault : Outcome → Bool
  | .fault _ => true
  | _ => false

def Outcome.isRet : Outcome → Bool
  | .ret _ => true
  | _ => false

theorem exitOk_sound {f : Facts} {e : Exit} {d : D} {k : Nat} (h : exitOk f e = true) (ag : Agrees f d k) :
    (exitOutcome e).isFault = false ∧ ((exitOutcome e).isRet = true → d.depth = k) := by
  cases e with
  | ret code =>
    simp only [exitOk, decide_eq_true_eq] at h
    exact ⟨rfl, fun _ => by rw [ag.dep, h]; rfl⟩
  | retVoid =>
    simp only [exitOk, decide_eq_true_eq] at h
    exact ⟨rfl, fun _ => by rw [ag.dep, h]; rfl⟩
  | error => exact ⟨rfl, fun h' => by simp [exitOutcome, Outcome.isRet] at h'⟩

/-- **Soundness of the discipline.**  A program in which every dereference is dominated by a success
    test on that variable (since its last assignment), every tested variable is bound and every
    returning exit has released the program's stack marks, never faults, and returns with the stack
    depth it was entered with. -/
theorem guarded_sound (c : Cfg) : ∀ (p : List Stmt) (f : Facts) (d : D) (k : Nat),
    guarded f p = true → Agrees f d k →
    (run c p d).1.isFault = false ∧ ((run c p d).1.isRet = true → (run c p d).2.depth = k)
  | [], f, d, k, h, ag => by
    simp only [guarded, decide_eq_true_eq] at h
    exact ⟨rfl, fun _ => by simp only [run]; rw [ag.dep, h]; rfl⟩
  | .act a :: rest, f, d, k, h, ag => by
    simp only [guarded] at h
    split at h
    · next f1 h1 =>
      obtain ⟨d1, hr, ag1⟩ := actFacts_sound h1 ag
      simp only [run, hr]
      exact guarded_sound c rest f1 d1 k h ag1
    · simp at h
  | .alloc dst bytes al :: rest, f, d, k, h, ag => by
    simp only [guarded] at h
    have agree : ∀ x : Val, ∀ a' : State,
        Agrees { f with nn := f.nn.filter (fun v => !decide (v = dst)), bd := dst :: f.bd } { d with a := a', env := (dst, x) :: d.env } k := by
      intro x a'
      refine ⟨?_, ?_, ag.dep⟩
      · intro v hv
        simp only [List.mem_filter, Bool.not_eq_eq_eq_not, Bool.not_true, decide_eq_false_iff_not] at hv
        obtain ⟨p, hp⟩ := ag.nn v hv.1
        exact ⟨p, by simp only [lookup_cons_ne _ _ (Ne.symm hv.2), hp]⟩
      · intro v hv
        simp only [List.mem_cons] at hv
        by_cases hvd : v = dst
        · subst hvd; exact ⟨x, lookup_cons_self _ _ _⟩
        · rcases hv with hv | hv
          · exact absurd hv hvd
          · obtain ⟨y, hy⟩ := ag.bd v hv
            exact ⟨y, by simp only [lookup_cons_ne _ _ (Ne.symm hvd), hy]⟩
    rcases arenaAlloc_cases c d.a bytes al with hn | ⟨p, s', hp, _⟩
    · simp only [run, hn]
      exact guarded_sound c rest _ _ k h (agree none d.a)
    · simp only [run, hp]
      exact guarded_sound c rest _ _ k h (agree (some p) s')
  | .ifNull tested body e :: rest, f, d, k, h, ag => by
    simp only [guarded, Bool.and_eq_true, List.all_eq_true, decide_eq_true_eq] at h
    obtain ⟨⟨hbd, hbody⟩, hrest⟩ := h
    rcases anyNull_bound d.env tested (fun v hv => ag.bd v (hbd v hv)) with hn | ⟨hn, hall⟩
    · simp only [run, hn]
      split at hbody
      · next f1 h1 =>
        obtain ⟨d1, hr, ag1⟩ := actsFacts_sound h1 ag
        simp only [hr]
        exact exitOk_sound hbody ag1
      · simp at hbody
    · simp only [run, hn]
      refine guarded_sound c rest _ d k hrest ⟨?_, ag.bd, ag.dep⟩
      intro v hv
      simp only [List.mem_append] at hv
      rcases hv with hv | hv
      · exact hall v hv
      · exact ag.nn v hv
  | .load v :: rest, f, d, k, h, ag => by
    simp only [guarded, Bool.and_eq_true, decide_eq_true_eq] at h
    obtain ⟨p, hp⟩ := ag.nn v h.1
    simp only [run, deref, hp]
    exact guarded_sound c rest f d k h.2 ag
  | .store v :: rest, f, d, k, h, ag => by
    simp only [guarded, Bool.and_eq_true, decide_eq_true_eq] at h
    obtain ⟨p, hp⟩ := ag.nn v h.1
    simp only [run, deref, hp]
    exact guarded_sound c rest f d k h.2 ag
  | .exit e :: rest, f, d, k, h, ag => by
    simp only [guarded] at h
    simp only [run]
    exact exitOk_sound h ag

/-- the X-macro loops satisfy the discipline whatever the request list (induction on the list). -/
theorem guarded_xmacro (g : Group) (fail : List Act) (tail : List Stmt) :
    ∀ (reqs : List (Nat × Nat)) (i : Nat) (f : Facts),
      (∀ f' : Facts, f'.dep = f.dep → (∃ f'', actsFacts f' fail = some f'' ∧ f''.dep = 0)) →
      (∀ f' : Facts, f'.dep = f.dep → guarded f' tail = true) →
      guarded f (xmacro g fail i reqs ++ tail) = true
  | [], _, f, _, ht => by simpa [xmacro] using ht f rfl
  | (b, al) :: rest, i, f, hf, ht => by
    simp only [xmacro, List.cons_append, guarded, Bool.and_eq_true, List.all_eq_true, decide_eq_true_eq]
    refine ⟨⟨by simp, ?_⟩, ?_⟩
    · obtain ⟨f'', h1, h2⟩ := hf { f with nn := f.nn.filter (fun v => !decide (v = Var.fld g i)), bd := Var.fld g i :: f.bd } rfl
      simp [h1, exitOk, h2]
    · exact guarded_xmacro g fail tail rest (i + 1) _ (fun f' h' => hf f' (by simpa using h'))
        (fun f' h' => ht f' (by simpa using h'))

end MjProof.ArenaConsumers
