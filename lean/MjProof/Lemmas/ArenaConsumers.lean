import MjProof.Model.ArenaConsumers
/-
Helper lemmas for Props/C20.lean: the environment, the allocator's two answers, soundness of the
syntactic discipline `guarded`, and the execution of the X-macro allocation loops.
-/
namespace MjProof.ArenaConsumers
open MjProof.Arena

/-! ### environment -/

theorem lookup_nullify (p : Var → Bool) : ∀ (env : List (Var × Val)) (v : Var),
    lookup (nullify p env) v = (lookup env v).map (fun x => if p v then none else x)
  | [], _ => rfl
  | (w, x) :: rest, v => by
    simp only [nullify, lookup]
    by_cases h : w = v
    · subst h; simp
    · simp [h, lookup_nullify p rest v]

theorem lookup_cons_self (env : List (Var × Val)) (v : Var) (x : Val) : lookup ((v, x) :: env) v = some x := by
  simp [lookup]

theorem lookup_cons_ne (env : List (Var × Val)) {v w : Var} (x : Val) (h : w ≠ v) :
    lookup ((w, x) :: env) v = lookup env v := by
  simp [lookup, h]

/-- bindings prepended for other keys do not change a lookup. -/
theorem lookup_append_of_keys (env : List (Var × Val)) (v : Var) :
    ∀ bs : List (Var × Val), (∀ b ∈ bs, b.1 ≠ v) → lookup (bs ++ env) v = lookup env v
  | [], _ => rfl
  | (w, x) :: rest, h => by
    have hw : w ≠ v := h (w, x) (by simp)
    simp only [List.cons_append, lookup, hw, if_false]
    exact lookup_append_of_keys env v rest (fun b hb => h b (by simp [hb]))

/-! ### the allocator answers NULL (state unchanged) or a pointer -/

theorem arenaAlloc_cases (c : Cfg) (s : State) (bytes al : Nat) :
    arenaAlloc c s bytes al = (.null, s) ∨
    ∃ p s', arenaAlloc c s bytes al = (.ptr p, s') ∧ s'.pstack = s.pstack ∧ s'.pbase = s.pbase ∧
      s'.frames = s.frames ∧ s'.threadlock = s.threadlock := by
  unfold arenaAlloc
  simp only
  generalize (if fastmod s.parena al ≠ 0 then sub64 al (fastmod s.parena al) else 0) = pad
  split
  · exact Or.inl rfl
  · exact Or.inr ⟨_, _, rfl, rfl, rfl, rfl, rfl⟩

/-! ### soundness of `guarded` -/

/-- the static facts hold of a dynamic state (`k` = stack depth at entry of the program). -/
structure Agrees (f : Facts) (d : D) (k : Nat) : Prop where
  nn : ∀ v ∈ f.nn, ∃ p, lookup d.env v = some (some p)
  bd : ∀ v ∈ f.bd, ∃ x, lookup d.env v = some x
  dep : d.depth = k + f.dep

theorem actFacts_sound {f f' : Facts} {d : D} {k : Nat} {a : Act} (h : actFacts f a = some f')
    (ag : Agrees f d k) : ∃ d', runAct d a = .ok d' ∧ Agrees f' d' k := by
  cases a with
  | warn w =>
    cases w <;> (simp only [actFacts, Option.some.injEq] at h; subst h
                 exact ⟨_, rfl, ⟨ag.nn, ag.bd, ag.dep⟩⟩)
  | clearEfc =>
    simp only [actFacts, Option.some.injEq] at h; subst h
    refine ⟨_, rfl, ⟨?_, ?_, ag.dep⟩⟩
    · intro v hv
      simp only [List.mem_filter, Bool.not_eq_eq_eq_not, Bool.not_true] at hv
      obtain ⟨p, hp⟩ := ag.nn v hv.1
      exact ⟨p, by simp [lookup_nullify, hp, hv.2]⟩
    · intro v hv
      obtain ⟨x, hx⟩ := ag.bd v hv
      exact ⟨if v.isFld = true then none else x, by simp only [lookup_nullify, hx, Option.map_some]⟩
  | parenaToCon => simp only [actFacts, Option.some.injEq] at h; subst h; exact ⟨_, rfl, ⟨ag.nn, ag.bd, ag.dep⟩⟩
  | saveParena => simp only [actFacts, Option.some.injEq] at h; subst h; exact ⟨_, rfl, ⟨ag.nn, ag.bd, ag.dep⟩⟩
  | clearIsland =>
    simp only [actFacts, Option.some.injEq] at h; subst h
    refine ⟨_, rfl, ⟨?_, ?_, ag.dep⟩⟩
    · intro v hv
      simp only [List.mem_filter, Bool.not_eq_eq_eq_not, Bool.not_true] at hv
      obtain ⟨p, hp⟩ := ag.nn v hv.1
      exact ⟨p, by simp [lookup_nullify, hp, hv.2]⟩
    · intro v hv
      obtain ⟨x, hx⟩ := ag.bd v hv
      exact ⟨if v.isIsland = true then none else x, by simp only [lookup_nullify, hx, Option.map_some]⟩
  | markStack =>
    simp only [actFacts, Option.some.injEq] at h; subst h
    exact ⟨_, rfl, ⟨ag.nn, ag.bd, by simp [ag.dep]; omega⟩⟩
  | freeStack =>
    simp only [actFacts] at h
    split at h
    · simp at h
    · next hd =>
      simp only [Option.some.injEq] at h; subst h
      have : d.depth ≠ 0 := by rw [ag.dep]; omega
      refine ⟨{ d with depth := d.depth - 1 }, by simp [runAct, this], ⟨ag.nn, ag.bd, ?_⟩⟩
      simp only [ag.dep]; omega
  | addNcon n => simp only [actFacts, Option.some.injEq] at h; subst h; exact ⟨_, rfl, ⟨ag.nn, ag.bd, ag.dep⟩⟩

theorem actsFacts_sound : ∀ {acts : List Act} {f f' : Facts} {d : D} {k : Nat}, actsFacts f acts = some f' →
    Agrees f d k → ∃ d', runActs d acts = .ok d' ∧ Agrees f' d' k
  | [], f, f', d, k, h, ag => by
    simp only [actsFacts, Option.some.injEq] at h; subst h; exact ⟨d, rfl, ag⟩
  | a :: rest, f, f', d, k, h, ag => by
    simp only [actsFacts] at h
    split at h
    · next f1 h1 =>
      obtain ⟨d1, hr, ag1⟩ := actFacts_sound h1 ag
      obtain ⟨d2, hr2, ag2⟩ := actsFacts_sound h ag1
      exact ⟨d2, by simp [runActs, hr, hr2], ag2⟩
    · simp at h

/-- on bound variables `anyNull` answers; `false` means every tested variable holds a pointer. -/
theorem anyNull_bound (env : List (Var × Val)) : ∀ ts : List Var, (∀ v ∈ ts, ∃ x, lookup env v = some x) →
    (anyNull env ts = .ok true) ∨ (anyNull env ts = .ok false ∧ ∀ v ∈ ts, ∃ p, lookup env v = some (some p))
  | [], _ => Or.inr ⟨rfl, by simp⟩
  | t :: rest, h => by
    obtain ⟨x, hx⟩ := h t (by simp)
    have ih := anyNull_bound env rest (fun v hv => h v (by simp [hv]))
    cases x with
    | none =>
      left
      simp only [anyNull, hx]
      rcases ih with ih | ih
      · simp [ih]
      · simp [ih.1]
    | some p =>
      simp only [anyNull, hx]
      rcases ih with ih | ih
      · exact Or.inl ih
      · refine Or.inr ⟨ih.1, ?_⟩
        intro v hv
        simp only [List.mem_cons] at hv
        rcases hv with rfl | hv
        · exact ⟨p, hx⟩
        · exact ih.2 v hv

def Outcome.isFault : Outcome → Bool
  | .fault _ => true
  | _ => false

def Outcome.isRet : Outcome → Bool
  | .ret _ => true
  | _ => false

theorem exitOk_sound {f : Facts} {e : Exit} {d : D} {k : Nat} (h : exitOk f e = true) (ag : Agrees f d k) :
    (exitOutcome e).isFault = false ∧ ((exitOutcome e).isRet = true → d.depth = k) := by
  cases e with
  | ret code =>
    simp only [exitOk, decide_eq_true_eq] at h
    exact ⟨rfl, fun _ => by rw [ag.dep, h]; rfl⟩
  | retVoid =>
    simp only [exitOk, decide_eq_true_eq] at h
    exact ⟨rfl, fun _ => by rw [ag.dep, h]; rfl⟩
  | error => exact ⟨rfl, fun h' => by simp [exitOutcome, Outcome.isRet] at h'⟩

/-- **Soundness of the discipline.**  A program in which every dereference is dominated by a success
    test on that variable (since its last assignment), every tested variable is bound and every
    returning exit has released the program's stack marks, never faults, and returns with the stack
    depth it was entered with. -/
theorem guarded_sound (c : Cfg) : ∀ (p : List Stmt) (f : Facts) (d : D) (k : Nat),
    guarded f p = true → Agrees f d k →
    (run c p d).1.isFault = false ∧ ((run c p d).1.isRet = true → (run c p d).2.depth = k)
  | [], f, d, k, h, ag => by
    simp only [guarded, decide_eq_true_eq] at h
    exact ⟨rfl, fun _ => by simp only [run]; rw [ag.dep, h]; rfl⟩
  | .act a :: rest, f, d, k, h, ag => by
    simp only [guarded] at h
    split at h
    · next f1 h1 =>
      obtain ⟨d1, hr, ag1⟩ := actFacts_sound h1 ag
      simp only [run, hr]
      exact guarded_sound c rest f1 d1 k h ag1
    · simp at h
  | .alloc dst bytes al :: rest, f, d, k, h, ag => by
    simp only [guarded] at h
    have agree : ∀ x : Val, ∀ a' : State,
        Agrees { f with nn := f.nn.filter (fun v => !decide (v = dst)), bd := dst :: f.bd } { d with a := a', env := (dst, x) :: d.env } k := by
      intro x a'
      refine ⟨?_, ?_, ag.dep⟩
      · intro v hv
        simp only [List.mem_filter, Bool.not_eq_eq_eq_not, Bool.not_true, decide_eq_false_iff_not] at hv
        obtain ⟨p, hp⟩ := ag.nn v hv.1
        exact ⟨p, by simp only [lookup_cons_ne _ _ (Ne.symm hv.2), hp]⟩
      · intro v hv
        simp only [List.mem_cons] at hv
        by_cases hvd : v = dst
        · subst hvd; exact ⟨x, lookup_cons_self _ _ _⟩
        · rcases hv with hv | hv
          · exact absurd hv hvd
          · obtain ⟨y, hy⟩ := ag.bd v hv
            exact ⟨y, by simp only [lookup_cons_ne _ _ (Ne.symm hvd), hy]⟩
    rcases arenaAlloc_cases c d.a bytes al with hn | ⟨p, s', hp, _⟩
    · simp only [run, hn]
      exact guarded_sound c rest _ _ k h (agree none d.a)
    · simp only [run, hp]
      exact guarded_sound c rest _ _ k h (agree (some p) s')
  | .ifNull tested body e :: rest, f, d, k, h, ag => by
    simp only [guarded, Bool.and_eq_true, List.all_eq_true, decide_eq_true_eq] at h
    obtain ⟨⟨hbd, hbody⟩, hrest⟩ := h
    rcases anyNull_bound d.env tested (fun v hv => ag.bd v (hbd v hv)) with hn | ⟨hn, hall⟩
    · simp only [run, hn]
      split at hbody
      · next f1 h1 =>
        obtain ⟨d1, hr, ag1⟩ := actsFacts_sound h1 ag
        simp only [hr, failExit]
        exact exitOk_sound hbody ag1
      · simp at hbody
    · simp only [run, hn]
      refine guarded_sound c rest _ d k hrest ⟨?_, ag.bd, ag.dep⟩
      intro v hv
      simp only [List.mem_append] at hv
      rcases hv with hv | hv
      · exact hall v hv
      · exact ag.nn v hv
  | .load v :: rest, f, d, k, h, ag => by
    simp only [guarded, Bool.and_eq_true, decide_eq_true_eq] at h
    obtain ⟨p, hp⟩ := ag.nn v h.1
    simp only [run, deref, hp]
    exact guarded_sound c rest f d k h.2 ag
  | .store v :: rest, f, d, k, h, ag => by
    simp only [guarded, Bool.and_eq_true, decide_eq_true_eq] at h
    obtain ⟨p, hp⟩ := ag.nn v h.1
    simp only [run, deref, hp]
    exact guarded_sound c rest f d k h.2 ag
  | .exit e :: rest, f, d, k, h, ag => by
    simp only [guarded] at h
    simp only [run]
    exact exitOk_sound h ag

/-- the X-macro loops satisfy the discipline whatever the request list (induction on the list). -/
theorem guarded_xmacro (g : Group) (fail : List Act) (tail : List Stmt) :
    ∀ (reqs : List (Nat × Nat)) (i : Nat) (f : Facts),
      (∀ f' : Facts, f'.dep = f.dep → (∃ f'', actsFacts f' fail = some f'' ∧ f''.dep = 0)) →
      (∀ f' : Facts, f'.dep = f.dep → guarded f' tail = true) →
      guarded f (xmacro g fail i reqs ++ tail) = true
  | [], _, f, _, ht => by simpa [xmacro] using ht f rfl
  | (b, al) :: rest, i, f, hf, ht => by
    simp only [xmacro, List.cons_append, guarded, Bool.and_eq_true, List.all_eq_true, decide_eq_true_eq]
    refine ⟨⟨by simp, ?_⟩, ?_⟩
    · obtain ⟨f'', h1, h2⟩ := hf { f with nn := f.nn.filter (fun v => !decide (v = Var.fld g i)), bd := Var.fld g i :: f.bd } rfl
      simp [h1, exitOk, h2]
    · exact guarded_xmacro g fail tail rest (i + 1) _ (fun f' h' => hf f' (by simpa using h'))
        (fun f' h' => ht f' (by simpa using h'))

/-! ### execution of the X-macro allocation loops -/

/-- every field other than `a` (except `pstack`) and `env` coincides. -/
structure SameScalars (d d' : D) : Prop where
  ncon : d'.ncon = d.ncon
  nefc : d'.nefc = d.nefc
  nisland : d'.nisland = d.nisland
  nidof : d'.nidof = d.nidof
  nJ : d'.nJ = d.nJ
  nY : d'.nY = d.nY
  nA : d'.nA = d.nA
  wCon : d'.wCon = d.wCon
  wCnstr : d'.wCnstr = d.wCnstr
  parenaOld : d'.parenaOld = d.parenaOld
  depth : d'.depth = d.depth
  pstack : d'.a.pstack = d.a.pstack

theorem SameScalars.refl (d : D) : SameScalars d d := ⟨rfl, rfl, rfl, rfl, rfl, rfl, rfl, rfl, rfl, rfl, rfl, rfl⟩

theorem SameScalars.trans {d d1 d2 : D} (h1 : SameScalars d d1) (h2 : SameScalars d1 d2) : SameScalars d d2 :=
  ⟨h2.ncon.trans h1.ncon, h2.nefc.trans h1.nefc, h2.nisland.trans h1.nisland, h2.nidof.trans h1.nidof,
   h2.nJ.trans h1.nJ, h2.nY.trans h1.nY, h2.nA.trans h1.nA, h2.wCon.trans h1.wCon, h2.wCnstr.trans h1.wCnstr,
   h2.parenaOld.trans h1.parenaOld, h2.depth.trans h1.depth, h2.pstack.trans h1.pstack⟩

/-- `d'` is `d` after successful allocations into fields `k ≥ lo` of group `g`: new bindings, all
    non-NULL, are prepended; `parena` moved; nothing else changed. -/
structure Grown (g : Group) (lo : Nat) (d d' : D) : Prop where
  same : SameScalars d d'
  env : ∃ bs : List (Var × Val), d'.env = bs ++ d.env ∧
          ∀ b ∈ bs, (∃ k, lo ≤ k ∧ b.1 = Var.fld g k) ∧ ∃ p, b.2 = some p

theorem Grown.refl (g : Group) (lo : Nat) (d : D) : Grown g lo d d :=
  ⟨SameScalars.refl d, [], rfl, by simp⟩

/-- a variable that is not a field `k ≥ lo` of group `g` is not touched. -/
theorem Grown.lookup_other {g : Group} {lo : Nat} {d d' : D} (h : Grown g lo d d') (v : Var)
    (hv : ∀ k, lo ≤ k → v ≠ Var.fld g k) : lookup d'.env v = lookup d.env v := by
  obtain ⟨bs, he, hb⟩ := h.env
  rw [he]
  apply lookup_append_of_keys
  intro b hbm
  obtain ⟨⟨k, hk, hk2⟩, _⟩ := hb b hbm
  rw [hk2]
  exact fun e => hv k hk e.symm

/-- the state in which the failure block of entry `i + j` runs. -/
def failState (g : Group) (d1 : D) (k : Nat) : D := { d1 with env := (Var.fld g k, none) :: d1.env }

/-- **Execution of an X-macro allocation loop** over the request list `reqs` (entries `i, i+1, …` of
    group `g`): either every allocation succeeded, control reaches `tail` and every field of the loop
    holds a pointer; or the first refused allocation `i + j` bound its field to NULL, left the arena
    untouched, and the function returned 0 after running the failure block – no field is dereferenced
    and no later request is made. -/
theorem run_xmacro (c : Cfg) (g : Group) (fail : List Act) (tail : List Stmt) :
    ∀ (reqs : List (Nat × Nat)) (i : Nat) (d : D),
      (∃ d', Grown g i d d' ∧ run c (xmacro g fail i reqs ++ tail) d = run c tail d' ∧
          ∀ j, j < reqs.length → ∃ p, lookup d'.env (Var.fld g (i + j)) = some (some p))
      ∨ (∃ d1 j, Grown g i d d1 ∧ j < reqs.length ∧
          run c (xmacro g fail i reqs ++ tail) d =
            failExit (.ret 0) (failState g d1 (i + j)) (runActs (failState g d1 (i + j)) fail))
  | [], i, d => Or.inl ⟨d, Grown.refl g i d, by simp [xmacro], by simp⟩
  | (b, al) :: rest, i, d => by
    simp only [xmacro, List.cons_append]
    rcases arenaAlloc_cases c d.a b al with hn | ⟨p, s', hp, hps, _⟩
    · -- refused: the failure block runs
      right
      refine ⟨d, 0, Grown.refl g i d, by simp, ?_⟩
      simp only [run, hn, anyNull, lookup_cons_self, Nat.add_zero, failState]
    · -- granted: continue with the next entry
      let d1 : D := { d with a := s', env := (Var.fld g i, some p) :: d.env }
      have hg1 : Grown g i d d1 :=
        ⟨⟨rfl, rfl, rfl, rfl, rfl, rfl, rfl, rfl, rfl, rfl, rfl, hps⟩,
         [(Var.fld g i, some p)], rfl, by simp⟩
      have hstep : run c (Stmt.alloc (Var.fld g i) b al :: Stmt.ifNull [Var.fld g i] fail (Exit.ret 0) ::
                      (xmacro g fail (i + 1) rest ++ tail)) d = run c (xmacro g fail (i + 1) rest ++ tail) d1 := by
        simp only [run, hp, anyNull, lookup_cons_self, d1]
      rw [hstep]
      have compose : ∀ d', Grown g (i + 1) d1 d' → Grown g i d d' := by
        intro d' h'
        refine ⟨hg1.same.trans h'.same, ?_⟩
        obtain ⟨bs, he, hb⟩ := h'.env
        refine ⟨bs ++ [(Var.fld g i, some p)], by simp [he, d1], ?_⟩
        intro b hbm
        simp only [List.mem_append, List.mem_singleton] at hbm
        rcases hbm with hbm | rfl
        · obtain ⟨⟨k, hk, hk2⟩, hp2⟩ := hb b hbm
          exact ⟨⟨k, by omega, hk2⟩, hp2⟩
        · exact ⟨⟨i, Nat.le_refl i, rfl⟩, p, rfl⟩
      rcases run_xmacro c g fail tail rest (i + 1) d1 with ⟨d', hg, hr, hnn⟩ | ⟨d2, j, hg, hj, hr⟩
      · left
        refine ⟨d', compose d' hg, hr, ?_⟩
        intro j hj
        cases j with
        | zero =>
          refine ⟨p, ?_⟩
          rw [Nat.add_zero, hg.lookup_other (Var.fld g i) (fun k hk e => by injection e with _ e2; omega)]
          exact lookup_cons_self _ _ _
        | succ j' =>
          obtain ⟨q, hq⟩ := hnn j' (by simpa using hj)
          exact ⟨q, by rw [show i + (j' + 1) = i + 1 + j' by omega]; exact hq⟩
      · right
        refine ⟨d2, j + 1, compose d2 hg, by simpa using hj, ?_⟩
        rw [hr, show i + (j + 1) = i + 1 + j by omega]

/-- after `nullify p`, a variable selected by `p` is NULL if bound at all. -/
theorem lookup_after_nullify (p : Var → Bool) (env : List (Var × Val)) (v : Var) (x : Val) (hv : p v = true)
    (h : lookup (nullify p env) v = some x) : x = none := by
  rw [lookup_nullify] at h
  cases hl : lookup env v with
  | none => simp [hl] at h
  | some y => simp [hl, hv] at h; exact h.symm

/-- what the model's `mj_clearEfc` leaves: every arena pointer field is NULL. -/
theorem lookup_after_nullify_isFld (env : List (Var × Val)) (v : Var) (x : Val) (hv : v.isFld = true)
    (h : lookup (nullify Var.isFld env) v = some x) : x = none := by
  rw [lookup_nullify] at h
  cases hl : lookup env v with
  | none => simp [hl] at h
  | some y => simp [hl, hv] at h; exact h.symm

end MjProof.ArenaConsumers
