import MjProof.Lemmas.UserPool
/-
Preservation of the invariant of `Lemmas/UserPool.lean` by every transition of the `user_threadpool.cc` model.
-/
set_option linter.unusedVariables false
set_option linter.unusedSimpArgs false
namespace MjProof.UserPool

theorem setW_w (s : State) (i : Nat) (p : WPc) (j : Nat) : (setW s i p).w j = if j = i then p else s.w j := rfl

theorem active_woken : active .woken := Or.inr (Or.inl rfl)

/-- waking a blocked worker (notification or spurious) preserves the invariant -/
theorem core_wake (s : State) (i : Nat) (h : Core s) (hb : isBlocked s i = true) : Core (setW s i .woken) := by
  obtain ⟨hi1, hi2, hbl⟩ := isBlocked_range s i hb
  have hw : ∀ j, (setW s i .woken).w j = if j = i then .woken else s.w j := fun j => rfl
  have hlive : ∀ j, live ((setW s i .woken).w j) = live (s.w j) := by
    intro j; rw [hw]; by_cases hj : j = i
    · subst hj; simp [hbl, live]
    · simp [hj]
  have hholds : ∀ j t, holds (setW s i .woken) j t ↔ holds s j t := by
    intro j t; simp only [holds, hw]; by_cases hj : j = i
    · subst hj; simp [hbl]
    · simp [hj]
  constructor
  · exact h.nge
  · exact h.pop_le
  · exact h.sched_le
  · obtain ⟨j, hq, h0, h1⟩ := h.queue_eq
    refine ⟨j, hq, h0, ?_⟩
    intro hp; rw [h1 hp]
    exact cntLive_congr _ _ _ (fun k _ _ => (hlive k).symm)
  · intro j t hh; exact h.holds_lt j t ((hholds j t).mp hh)
  · intro t ht
    obtain ⟨hr, hst, hby⟩ := h.task_st t ht
    refine ⟨hr, ?_, hby⟩
    have hne : s.takenBy t ≠ i ∨ s.takenBy t = i := by omega
    show ((setW s i .woken).w (s.takenBy t) = _ ∧ _) ∨ ((setW s i .woken).w (s.takenBy t) = _ ∧ _) ∨ _
    rw [hw]
    by_cases hti : s.takenBy t = i
    · rw [hti, hbl] at hst
      rcases hst with ⟨h1, _⟩ | ⟨h1, _⟩ | h3
      · simp at h1
      · simp at h1
      · exact Or.inr (Or.inr h3)
    · simp only [if_neg hti]; exact hst
  · exact h.untouched
  · exact h.ctr_eq
  · exact h.nfin_eq
  · intro hp
    obtain ⟨h1, h2⟩ := h.pre hp
    refine ⟨h1, fun j => ?_⟩
    rw [hw]; by_cases hj : j = i
    · simp [hj]
    · simp only [if_neg hj]; exact h2 j
  · exact h.mpc_sched
  · exact h.mpc_rest
  · exact h.blocked_ctr
  · exact h.past_wait
  · intro hp j hj1 hj2
    rw [hw]; by_cases hj : j = i
    · simp [hj]
    · simp only [if_neg hj]; exact h.post_noblock hp j hj1 hj2
  · intro k hk
    obtain ⟨h1, h2⟩ := h.joined k hk
    refine ⟨h1, fun j hj1 hj2 => ?_⟩
    have := h2 j hj1 hj2
    rw [hw]; by_cases hj : j = i
    · subst hj; rw [hbl] at this; simp at this
    · simp only [if_neg hj]; exact this
  · intro hd j hj1 hj2
    have := h.alldone hd j hj1 hj2
    rw [hw]; by_cases hj : j = i
    · subst hj; rw [hbl] at this; simp at this
    · simp only [if_neg hj]; exact this

theorem core_wakeOne (s : State) (wk : Option Nat) (h : Core s) (hb : ∀ i, wk = some i → isBlocked s i = true) :
    Core (wakeOne s wk) := by
  cases wk with
  | none => exact h
  | some i => exact core_wake s i h (hb i rfl)

/-- active workers stay active when a blocked one is woken -/
theorem wakeOK_wake (s : State) (i : Nat) (h : WakeOK s) (hb : isBlocked s i = true) : WakeOK (setW s i .woken) := by
  obtain ⟨hi1, hi2, hbl⟩ := isBlocked_range s i hb
  intro _ _
  exact ⟨i, hi1, hi2, by rw [setW_w]; simp [active]⟩

theorem inv_wake (s : State) (i : Nat) (h : Inv s) (hb : isBlocked s i = true) : Inv (setW s i .woken) :=
  ⟨core_wake s i h.core hb, wakeOK_wake s i h.wake hb⟩

/-- after a `notify_one` issued before the destructor there is an active worker: either there was one already, or
    every worker was blocked and one of them has been woken -/
theorem wakeOK_notify (s : State) (wk : Option Nat) (hN : 1 ≤ s.N)
    (hpre : ∀ i, s.w i ≠ .exitInc ∧ s.w i ≠ .exited)
    (hsome : ∀ i, wk = some i → isBlocked s i = true) (hnone : wk = none → ∀ i, isBlocked s i = false) :
    ∃ i, 1 ≤ i ∧ i ≤ (wakeOne s wk).N ∧ active ((wakeOne s wk).w i) := by
  cases wk with
  | some i =>
    obtain ⟨hi1, hi2, _⟩ := isBlocked_range s i (hsome i rfl)
    exact ⟨i, hi1, hi2, by show active ((setW s i .woken).w i); rw [setW_w]; simp [active]⟩
  | none =>
    have hb := hnone rfl 1
    simp only [isBlocked, Bool.and_eq_false_iff, decide_eq_false_iff_not, beq_eq_false_iff_ne] at hb
    refine ⟨1, by omega, hN, ?_⟩
    show active (s.w 1)
    rcases hb with hb | hb
    · omega
    · have := hpre 1
      cases hw1 : s.w 1 <;> simp_all [active]

theorem wakeOne_mpc (s : State) (wk : Option Nat) (m : MPc) :
    { wakeOne s wk with mpc := m } = wakeOne { s with mpc := m } wk := by
  cases wk <;> rfl

theorem not_post_sched (i : Nat) : ¬ postDtor (.sched i) := by
  intro h; rcases h with ⟨k, hk⟩ | hk <;> simp at hk
theorem not_post_wait : ¬ postDtor .wait := by
  intro h; rcases h with ⟨k, hk⟩ | hk <;> simp at hk
theorem not_post_waitBlocked : ¬ postDtor .waitBlocked := by
  intro h; rcases h with ⟨k, hk⟩ | hk <;> simp at hk
theorem not_post_waitWoken : ¬ postDtor .waitWoken := by
  intro h; rcases h with ⟨k, hk⟩ | hk <;> simp at hk
theorem not_post_dtor : ¬ postDtor .dtor := by
  intro h; rcases h with ⟨k, hk⟩ | hk <;> simp at hk

/-- `Schedule(task i)` -/
theorem inv_main_sched (s s' : State) (pick : Option Nat) (evs : List Ev) (i : Nat) (h : Inv s) (hm : s.mpc = .sched i)
    (hs : stepMain s pick = some (s', evs)) : Inv s' := by
  have hc := h.core
  obtain ⟨hns, hiT⟩ := hc.mpc_sched i hm
  have hnp : ¬ postDtor s.mpc := by rw [hm]; exact not_post_sched i
  obtain ⟨hnexit, hpre⟩ := hc.pre hnp
  simp only [stepMain, hm] at hs
  obtain ⟨wk, hspec, hsome, hnone⟩ := notifyIn_spec
    { s with queue := s.queue ++ [some i], nsched := s.nsched + 1, mpc := if i + 1 < s.T then MPc.sched (i + 1) else MPc.wait } pick
  simp only [hspec, Option.some.injEq, Prod.mk.injEq] at hs
  obtain ⟨hs', _⟩ := hs
  subst hs'
  -- the state before the wake-up
  have hnew : ¬ postDtor (if i + 1 < s.T then MPc.sched (i + 1) else MPc.wait) := by
    split
    · exact not_post_sched _
    · exact not_post_wait
  have hmid : Core { s with queue := s.queue ++ [some i], nsched := s.nsched + 1,
                            mpc := if i + 1 < s.T then MPc.sched (i + 1) else MPc.wait } := by
    refine { nge := hc.nge, pop_le := ?_, sched_le := ?_, queue_eq := ?_, holds_lt := hc.holds_lt, task_st := hc.task_st,
             untouched := hc.untouched, ctr_eq := hc.ctr_eq, nfin_eq := hc.nfin_eq, pre := ?_, mpc_sched := ?_,
             mpc_rest := ?_, blocked_ctr := ?_, past_wait := ?_, post_noblock := ?_, joined := ?_, alldone := ?_ }
    · have := hc.pop_le; show s.npop ≤ s.nsched + 1; omega
    · show s.nsched + 1 ≤ s.T; omega
    · obtain ⟨j, hq, h0, _⟩ := hc.queue_eq
      have hj := h0 hnp
      subst hj
      refine ⟨0, ?_, fun _ => rfl, fun hp => absurd hp hnew⟩
      show s.queue ++ [some i] = _
      have hpl := hc.pop_le
      have e : s.nsched + 1 - s.npop = (s.nsched - s.npop) + 1 := by omega
      rw [hq, e, List.range'_concat]
      simp only [List.replicate_zero, List.append_nil, List.map_append, List.map_cons, List.map_nil, Nat.one_mul]
      have : s.npop + (s.nsched - s.npop) = i := by omega
      rw [this]
    · intro _; exact ⟨hnexit, hpre⟩
    · intro k hk
      show s.nsched + 1 = k ∧ k < s.T
      split at hk
      · injection hk with hk; omega
      · simp at hk
    · intro hall
      show s.nsched + 1 = s.T
      by_cases hlt : i + 1 < s.T
      · exact absurd (by simp [hlt]) (hall (i + 1))
      · omega
    · intro hk; split at hk <;> simp at hk
    · intro hk; rcases hk with hk | hk
      · split at hk <;> simp at hk
      · exact absurd hk hnew
    · intro hk; exact absurd hk hnew
    · intro k hk; split at hk <;> simp at hk
    · intro hk; split at hk <;> simp at hk
  refine ⟨core_wakeOne _ wk hmid hsome, ?_⟩
  intro _ _
  exact wakeOK_notify _ wk hc.nge hpre hsome hnone

/-- `WaitCount(T)`: the check of the predicate -/
theorem inv_main_wait (s s' : State) (pick : Option Nat) (evs : List Ev) (h : Inv s)
    (hm : s.mpc = .wait ∨ s.mpc = .waitWoken) (hs : stepMain s pick = some (s', evs)) : Inv s' := by
  have hc := h.core
  have hnp : ¬ postDtor s.mpc := by
    rcases hm with hm | hm <;> rw [hm]
    · exact not_post_wait
    · exact not_post_waitWoken
  have hnsched : s.nsched = s.T := hc.mpc_rest (by intro i hi; rcases hm with hm | hm <;> rw [hm] at hi <;> simp at hi)
  obtain ⟨hnexit, hpre⟩ := hc.pre hnp
  have hs2 : (if s.T ≤ s.ctr then some ({ s with mpc := .dtor }, [Ev.lock 0, .waitPass 0 1, .unlock 0])
      else some ({ s with mpc := .waitBlocked }, [Ev.lock 0, .waitBlock 0 1])) = some (s', evs) := by
    rcases hm with hm | hm <;> simpa only [stepMain, hm] using hs
  by_cases hpass : s.T ≤ s.ctr
  · rw [if_pos hpass] at hs2
    simp only [Option.some.injEq, Prod.mk.injEq] at hs2
    obtain ⟨hs', _⟩ := hs2
    subst hs'
    -- all tasks are finished
    have hfin : s.T ≤ s.nfin := by have := hc.ctr_eq; omega
    have hle := sumTo_le (fun t => b2n (s.finished t)) s.npop (fun t _ => b2n_le _)
    have hpl := hc.pop_le
    have hnpop : s.npop = s.T := by have := hc.nfin_eq; omega
    have hall : ∀ t, t < s.T → s.finished t = true := by
      intro t ht
      have := sumTo_full (fun t => b2n (s.finished t)) s.npop (fun t _ => b2n_le _) (by have := hc.nfin_eq; omega) t (by omega)
      simp only [b2n] at this
      split at this
      · assumption
      · omega
    refine ⟨{ nge := hc.nge, pop_le := hc.pop_le, sched_le := hc.sched_le, queue_eq := ?_, holds_lt := hc.holds_lt,
              task_st := hc.task_st, untouched := hc.untouched, ctr_eq := hc.ctr_eq, nfin_eq := hc.nfin_eq, pre := ?_,
              mpc_sched := ?_, mpc_rest := fun _ => hnsched, blocked_ctr := ?_, past_wait := fun _ => ⟨hnpop, hall⟩,
              post_noblock := ?_, joined := ?_, alldone := ?_ }, ?_⟩
    · obtain ⟨j, hq, h0, _⟩ := hc.queue_eq
      exact ⟨j, hq, fun _ => h0 hnp, fun hp => absurd hp not_post_dtor⟩
    · intro _; exact ⟨hnexit, hpre⟩
    · intro i hi; simp at hi
    · intro hk; simp at hk
    · intro hp; exact absurd hp not_post_dtor
    · intro k hk; simp at hk
    · intro hk; simp at hk
    · intro _ hq; exact h.wake hnp hq
  · rw [if_neg hpass] at hs2
    simp only [Option.some.injEq, Prod.mk.injEq] at hs2
    obtain ⟨hs', _⟩ := hs2
    subst hs'
    refine ⟨{ nge := hc.nge, pop_le := hc.pop_le, sched_le := hc.sched_le, queue_eq := ?_, holds_lt := hc.holds_lt,
              task_st := hc.task_st, untouched := hc.untouched, ctr_eq := hc.ctr_eq, nfin_eq := hc.nfin_eq, pre := ?_,
              mpc_sched := ?_, mpc_rest := fun _ => hnsched, blocked_ctr := ?_, past_wait := ?_,
              post_noblock := ?_, joined := ?_, alldone := ?_ }, ?_⟩
    · obtain ⟨j, hq, h0, _⟩ := hc.queue_eq
      exact ⟨j, hq, fun _ => h0 hnp, fun hp => absurd hp not_post_waitBlocked⟩
    · intro _; exact ⟨hnexit, hpre⟩
    · intro i hi; simp at hi
    · intro _; show s.ctr < s.T; omega
    · intro hk; rcases hk with hk | hk
      · simp at hk
      · exact absurd hk not_post_waitBlocked
    · intro hp; exact absurd hp not_post_waitBlocked
    · intro k hk; simp at hk
    · intro hk; simp at hk
    · intro _ hq; exact h.wake hnp hq

/-- spurious wake-up of the scheduling thread -/
theorem inv_spuriousMain (s : State) (h : Inv s) (hm : s.mpc = .waitBlocked) : Inv { s with mpc := .waitWoken } := by
  have hc := h.core
  have hnp : ¬ postDtor s.mpc := by rw [hm]; exact not_post_waitBlocked
  have hnsched : s.nsched = s.T := hc.mpc_rest (by intro i hi; rw [hm] at hi; simp at hi)
  refine ⟨{ nge := hc.nge, pop_le := hc.pop_le, sched_le := hc.sched_le, queue_eq := ?_, holds_lt := hc.holds_lt,
            task_st := hc.task_st, untouched := hc.untouched, ctr_eq := hc.ctr_eq, nfin_eq := hc.nfin_eq, pre := ?_,
            mpc_sched := ?_, mpc_rest := fun _ => hnsched, blocked_ctr := ?_, past_wait := ?_,
            post_noblock := ?_, joined := ?_, alldone := ?_ }, ?_⟩
  · obtain ⟨j, hq, h0, _⟩ := hc.queue_eq
    exact ⟨j, hq, fun _ => h0 hnp, fun hp => absurd hp not_post_waitWoken⟩
  · intro _; exact hc.pre hnp
  · intro i hi; simp at hi
  · intro hk; simp at hk
  · intro hk; rcases hk with hk | hk
    · simp at hk
    · exact absurd hk not_post_waitWoken
  · intro hp; exact absurd hp not_post_waitWoken
  · intro k hk; simp at hk
  · intro hk; simp at hk
  · intro _ hq; exact h.wake hnp hq

theorem post_join (k : Nat) : postDtor (.join k) := Or.inl ⟨k, rfl⟩
theorem post_done : postDtor .done := Or.inr rfl

/-- `~ThreadPool()`: push the sentinels, `notify_all` -/
theorem inv_main_dtor (s s' : State) (pick : Option Nat) (evs : List Ev) (h : Inv s) (hm : s.mpc = .dtor)
    (hs : stepMain s pick = some (s', evs)) : Inv s' := by
  have hc := h.core
  have hN := hc.nge
  have hnp : ¬ postDtor s.mpc := by rw [hm]; exact not_post_dtor
  have hnsched : s.nsched = s.T := hc.mpc_rest (by intro i hi; rw [hm] at hi; simp at hi)
  obtain ⟨hnexit, hpre⟩ := hc.pre hnp
  obtain ⟨hnpop, hall⟩ := hc.past_wait (Or.inl hm)
  have hN0 : ¬ s.N = 0 := by omega
  simp only [stepMain, hm, if_neg hN0, Option.some.injEq, Prod.mk.injEq] at hs
  obtain ⟨hs', _⟩ := hs
  have hst : s' = { s with queue := s.queue ++ List.replicate s.N none, mpc := .join 0,
                           w := fun j => if isBlocked s j then .woken else s.w j } := by
    rw [← hs']; rfl
  subst hst
  have hlive : ∀ j, live (if isBlocked s j then WPc.woken else s.w j) = true := by
    intro j
    split
    · rfl
    · have := hpre j
      cases hwj : s.w j <;> simp_all [live]
  have hhold : ∀ j t, ((if isBlocked s j then WPc.woken else s.w j) = .run t ∨ (if isBlocked s j then WPc.woken else s.w j) = .fin t) →
      holds s j t := by
    intro j t hh
    by_cases hb : isBlocked s j = true
    · simp [hb] at hh
    · simpa [hb, holds] using hh
  refine ⟨{ nge := hN, pop_le := hc.pop_le, sched_le := hc.sched_le, queue_eq := ?_, holds_lt := ?_,
            task_st := ?_, untouched := hc.untouched, ctr_eq := hc.ctr_eq, nfin_eq := hc.nfin_eq, pre := ?_,
            mpc_sched := ?_, mpc_rest := fun _ => hnsched, blocked_ctr := ?_, past_wait := fun _ => ⟨hnpop, hall⟩,
            post_noblock := ?_, joined := ?_, alldone := ?_ }, ?_⟩
  all_goals (try dsimp only)
  · obtain ⟨j, hq, h0, _⟩ := hc.queue_eq
    have hj := h0 hnp
    subst hj
    refine ⟨s.N, ?_, fun hp => absurd (post_join 0) hp, fun _ => ?_⟩
    · show s.queue ++ List.replicate s.N none = _
      rw [hq]
      have : s.nsched - s.npop = 0 := by omega
      simp [this]
    · show s.N = cntLive (fun j => if isBlocked s j then WPc.woken else s.w j) s.N
      exact (cntLive_all _ _ (fun j _ _ => hlive j)).symm
  · intro j t hh
    exact hc.holds_lt j t (hhold j t hh)
  · intro t ht
    obtain ⟨hr, hst, hby⟩ := hc.task_st t ht
    refine ⟨hr, Or.inr (Or.inr ?_), hby⟩
    have hf := hall t (by omega)
    rcases hst with ⟨_, _, h3⟩ | ⟨_, _, h3⟩ | h3
    · rw [hf] at h3; simp at h3
    · rw [hf] at h3; simp at h3
    · exact h3
  · intro hp; exact absurd (post_join 0) hp
  · intro i hi; simp at hi
  · intro hk; simp at hk
  · intro _ j hj1 hj2
    by_cases hb : isBlocked s j = true
    · simp [hb]
    · simp only [hb]
      intro hbl
      apply hb
      have hbl' : s.w j = .blocked := by simpa using hbl
      simp [isBlocked, hj1, hj2, hbl']
  · intro k hk
    simp only [MPc.join.injEq] at hk
    subst hk
    exact ⟨by omega, fun i h1 h2 => by omega⟩
  · intro hk; simp at hk
  · intro hp; exact absurd (post_join 0) hp

/-- `thread.join()` -/
theorem inv_main_join (s s' : State) (pick : Option Nat) (evs : List Ev) (k : Nat) (h : Inv s) (hm : s.mpc = .join k)
    (hs : stepMain s pick = some (s', evs)) : Inv s' := by
  have hc := h.core
  have hp : postDtor s.mpc := by rw [hm]; exact post_join k
  have hnsched : s.nsched = s.T := hc.mpc_rest (by intro i hi; rw [hm] at hi; simp at hi)
  obtain ⟨hkN, hjoined⟩ := hc.joined k hm
  simp only [stepMain, hm] at hs
  split at hs
  · rename_i hex
    simp only [Option.some.injEq, Prod.mk.injEq] at hs
    obtain ⟨hs', _⟩ := hs
    subst hs'
    have hnew : postDtor (if k + 1 < s.N then MPc.join (k + 1) else MPc.done) := by
      split
      · exact post_join _
      · exact post_done
    refine ⟨{ nge := hc.nge, pop_le := hc.pop_le, sched_le := hc.sched_le, queue_eq := ?_, holds_lt := hc.holds_lt,
              task_st := hc.task_st, untouched := hc.untouched, ctr_eq := hc.ctr_eq, nfin_eq := hc.nfin_eq, pre := ?_,
              mpc_sched := ?_, mpc_rest := fun _ => hnsched, blocked_ctr := ?_,
              past_wait := fun _ => hc.past_wait (Or.inr hp),
              post_noblock := fun _ => hc.post_noblock hp, joined := ?_, alldone := ?_ }, ?_⟩
    all_goals (try dsimp only)
    · obtain ⟨j, hq, _, h1⟩ := hc.queue_eq
      exact ⟨j, hq, fun hn => absurd hnew hn, fun _ => h1 hp⟩
    · intro hn; exact absurd hnew hn
    · intro i hi; split at hi <;> simp at hi
    · intro hk; split at hk <;> simp at hk
    · intro k' hk'
      split at hk'
      · rename_i hlt
        simp only [MPc.join.injEq] at hk'
        subst hk'
        refine ⟨hlt, fun i h1 h2 => ?_⟩
        by_cases hi : i = k + 1
        · subst hi; exact hex
        · exact hjoined i h1 (by omega)
      · simp at hk'
    · intro hd i h1 h2
      split at hd
      · simp at hd
      · by_cases hi : i = k + 1
        · subst hi; exact hex
        · exact hjoined i h1 (by omega)
    · intro hn; exact absurd hnew hn
  · simp at hs

/-- facts about a change of one worker's pc between two pcs that hold no task -/
theorem holds_setW_idle (s : State) (i : Nat) (p : WPc) (hold : ∀ t, s.w i ≠ .run t ∧ s.w i ≠ .fin t)
    (hnew : ∀ t, p ≠ .run t ∧ p ≠ .fin t) (j t : Nat) : holds (setW s i p) j t ↔ holds s j t := by
  simp only [holds, setW_w]
  by_cases hj : j = i
  · subst hj
    simp [hold t, hnew t]
  · simp [hj]

/-- the task table is unaffected when a worker that holds no task changes to a pc that holds no task -/
theorem task_st_setW_idle (s : State) (i : Nat) (p : WPc) (hc : Core s) (hold : ∀ t, s.w i ≠ .run t ∧ s.w i ≠ .fin t)
    (t : Nat) (ht : t < s.npop) :
    (1 ≤ s.takenBy t ∧ s.takenBy t ≤ s.N) ∧
      (((setW s i p).w (s.takenBy t) = .run t ∧ s.execCnt t = 0 ∧ s.finished t = false) ∨
       ((setW s i p).w (s.takenBy t) = .fin t ∧ s.execCnt t = 1 ∧ s.finished t = false) ∨
       (s.finished t = true ∧ s.execCnt t = 1)) ∧ (s.execCnt t = 1 → s.execBy t = s.takenBy t) := by
  obtain ⟨hr, hst, hby⟩ := hc.task_st t ht
  refine ⟨hr, ?_, hby⟩
  rw [setW_w]
  by_cases hti : s.takenBy t = i
  · rw [hti] at hst
    rcases hst with ⟨h1, _⟩ | ⟨h1, _⟩ | h3
    · exact absurd h1 (hold t).1
    · exact absurd h1 (hold t).2
    · exact Or.inr (Or.inr h3)
  · simp only [if_neg hti]; exact hst

/-- worker blocks in `cv_in_.wait`: the queue is empty -/
theorem inv_worker_block (s : State) (i : Nat) (h : Inv s) (hr : 1 ≤ i ∧ i ≤ s.N)
    (hw : s.w i = .fetch ∨ s.w i = .woken) (hq : s.queue = []) : Inv (setW s i .blocked) := by
  have hc := h.core
  have hold : ∀ t, s.w i ≠ .run t ∧ s.w i ≠ .fin t := by
    intro t; rcases hw with hw | hw <;> rw [hw] <;> simp
  have hlivei : live (s.w i) = true := by rcases hw with hw | hw <;> rw [hw] <;> rfl
  -- the destructor has not pushed its sentinels yet: otherwise the queue would hold one for this live worker
  have hnp : ¬ postDtor s.mpc := by
    intro hp
    obtain ⟨j, hqe, _, h1⟩ := hc.queue_eq
    have hj := h1 hp
    have hpos := cntLive_pos s.w s.N i hr.1 hr.2 hlivei
    rw [hq] at hqe
    have hlen := congrArg List.length hqe
    simp at hlen
    omega
  have hlive : ∀ j, live ((setW s i .blocked).w j) = live (s.w j) := by
    intro j; rw [setW_w]; by_cases hj : j = i
    · subst hj; rw [if_pos rfl, hlivei]; rfl
    · simp [hj]
  refine ⟨{ nge := hc.nge, pop_le := hc.pop_le, sched_le := hc.sched_le, queue_eq := ?_, holds_lt := ?_,
            task_st := ?_, untouched := hc.untouched, ctr_eq := hc.ctr_eq, nfin_eq := hc.nfin_eq, pre := ?_,
            mpc_sched := hc.mpc_sched, mpc_rest := hc.mpc_rest, blocked_ctr := hc.blocked_ctr, past_wait := hc.past_wait,
            post_noblock := fun hp => absurd hp hnp, joined := ?_, alldone := ?_ }, ?_⟩
  · obtain ⟨j, hqe, h0, h1⟩ := hc.queue_eq
    exact ⟨j, hqe, h0, fun hp => absurd hp hnp⟩
  · intro j t hh
    exact hc.holds_lt j t ((holds_setW_idle s i .blocked hold (by intro t; simp) j t).mp hh)
  · intro t ht; exact task_st_setW_idle s i .blocked hc hold t ht
  · intro _
    obtain ⟨h1, h2⟩ := hc.pre hnp
    refine ⟨h1, fun j => ?_⟩
    rw [setW_w]; by_cases hj : j = i
    · simp [hj]
    · simp only [if_neg hj]; exact h2 j
  · intro k hk; exact absurd (by show postDtor s.mpc; rw [show s.mpc = .join k from hk]; exact post_join k) hnp
  · intro hk; exact absurd (by show postDtor s.mpc; rw [show s.mpc = .done from hk]; exact post_done) hnp
  · intro _ hq'; exact absurd hq hq'

/-- head of the queue: a task is always the next unpopped one; a sentinel only once all tasks are popped -/
theorem queue_head (a b j : Nat) (item : Option Nat) (rest : List (Option Nat))
    (hq : item :: rest = (List.range' a b).map some ++ List.replicate j none) :
    (∀ t, item = some t → t = a ∧ 1 ≤ b ∧ rest = (List.range' (a + 1) (b - 1)).map some ++ List.replicate j none) ∧
    (item = none → b = 0 ∧ 1 ≤ j ∧ rest = List.replicate (j - 1) none) := by
  cases b with
  | zero =>
    simp only [List.range'_zero, List.map_nil, List.nil_append] at hq
    cases j with
    | zero => simp at hq
    | succ j =>
      simp only [List.replicate_succ, List.cons.injEq] at hq
      obtain ⟨h1, h2⟩ := hq
      subst h1
      refine ⟨fun t ht => by simp at ht, fun _ => ⟨rfl, by omega, by simpa using h2⟩⟩
  | succ b =>
    rw [List.range'_succ] at hq
    simp only [List.map_cons, List.cons_append, List.cons.injEq] at hq
    obtain ⟨h1, h2⟩ := hq
    subst h1
    refine ⟨fun t ht => ?_, fun hn => by simp at hn⟩
    simp only [Option.some.injEq] at ht
    subst ht
    exact ⟨rfl, by omega, by simpa using h2⟩

/-- worker pops a task -/
theorem inv_worker_pop_task (s s' : State) (i t : Nat) (rest : List (Option Nat)) (pick : Option Nat) (h : Inv s)
    (hr : 1 ≤ i ∧ i ≤ s.N) (hw : s.w i = .fetch ∨ s.w i = .woken) (hq : s.queue = some t :: rest)
    (hs : s' = (notifyIn { (setW { s with queue := rest } i (.run t)) with
                             npop := s.npop + 1, takenBy := fun j => if j = t then i else s.takenBy j } pick).1) : Inv s' := by
  have hc := h.core
  have hold : ∀ t, s.w i ≠ .run t ∧ s.w i ≠ .fin t := by
    intro t; rcases hw with hw | hw <;> rw [hw] <;> simp
  obtain ⟨j, hqe, h0, h1⟩ := hc.queue_eq
  rw [hq] at hqe
  obtain ⟨htn, hb1, hrest⟩ := (queue_head _ _ _ _ _ hqe).1 t rfl
  have hlt : s.npop < s.nsched := by omega
  -- all tasks popped would contradict a task at the head: the wait has not been passed
  have hnpast : ¬ (s.mpc = .dtor ∨ postDtor s.mpc) := by
    intro hp
    have hnp := (hc.past_wait hp).1
    have : s.nsched ≤ s.T := hc.sched_le
    omega
  have hnp : ¬ postDtor s.mpc := fun hp => hnpast (Or.inr hp)
  have hj := h0 hnp
  obtain ⟨hunt_e, hunt_f⟩ := hc.untouched t (by omega)
  obtain ⟨wk, hspec, hsome, hnone⟩ := notifyIn_spec { (setW { s with queue := rest } i (.run t)) with
      npop := s.npop + 1, takenBy := fun j => if j = t then i else s.takenBy j } pick
  rw [hspec] at hs
  subst hs
  have hmid : Core { (setW { s with queue := rest } i (.run t)) with
      npop := s.npop + 1, takenBy := fun j => if j = t then i else s.takenBy j } := by
    refine { nge := hc.nge, pop_le := ?_, sched_le := hc.sched_le, queue_eq := ?_, holds_lt := ?_,
             task_st := ?_, untouched := ?_, ctr_eq := hc.ctr_eq, nfin_eq := ?_, pre := ?_,
             mpc_sched := hc.mpc_sched, mpc_rest := hc.mpc_rest, blocked_ctr := hc.blocked_ctr,
             past_wait := fun hp => absurd hp hnpast, post_noblock := fun hp => absurd hp hnp,
             joined := ?_, alldone := ?_ }
    all_goals (try dsimp only [setW])
    · omega
    · refine ⟨j, ?_, h0, fun hp => absurd hp hnp⟩
      rw [hrest]
      have : s.nsched - s.npop - 1 = s.nsched - (s.npop + 1) := by omega
      rw [this]
    · intro k t' hh
      simp only [holds] at hh
      by_cases hk : k = i
      · subst hk
        simp only [if_true, WPc.run.injEq] at hh
        rcases hh with hh | hh
        · subst hh; exact ⟨by omega, by simp, hunt_f⟩
        · simp at hh
      · simp only [if_neg hk] at hh
        obtain ⟨a1, a2, a3⟩ := hc.holds_lt k t' hh
        have hne : t' ≠ t := by omega
        exact ⟨by omega, by simp [hne, a2], a3⟩
    · intro t' ht'
      by_cases hne : t' = t
      · subst hne
        simp only [if_true]
        exact ⟨hr, Or.inl ⟨by simp, hunt_e, hunt_f⟩, fun h1 => by omega⟩
      · simp only [if_neg hne]
        have := task_st_setW_idle s i (.run t) hc hold t' (by omega)
        simpa only [setW_w] using this
    · intro t' ht'
      exact hc.untouched t' (by omega)
    · show s.nfin = sumTo (fun t => b2n (s.finished t)) (s.npop + 1)
      simp only [sumTo]
      rw [← htn, hunt_f, htn]
      have := hc.nfin_eq
      simp only [b2n, Bool.false_eq_true, if_false, Nat.add_zero]
      simpa only [b2n] using this
    · intro _
      obtain ⟨h1', h2'⟩ := hc.pre hnp
      refine ⟨h1', fun k => ?_⟩
      by_cases hk : k = i
      · simp [hk]
      · simp only [if_neg hk]; exact h2' k
    · intro k hk; exact absurd (by rw [show s.mpc = .join k from hk]; exact post_join k) hnp
    · intro hk; exact absurd (by rw [show s.mpc = .done from hk]; exact post_done) hnp
  refine ⟨core_wakeOne _ wk hmid hsome, ?_⟩
  intro _ _
  -- worker `i` is running its task: it is active, and is not the one woken
  refine ⟨i, hr.1, ?_, ?_⟩
  · cases wk <;> exact hr.2
  · cases wk with
    | none => show active (if i = i then WPc.run t else s.w i); simp [active]
    | some k =>
      have hkb := (isBlocked_range _ k (hsome k rfl)).2.2
      show active ((setW _ k .woken).w i)
      rw [setW_w]
      by_cases hik : i = k
      · simp [hik, active]
      · simp only [if_neg hik]
        show active (if i = i then WPc.run t else s.w i)
        simp [active]

/-- worker pops a sentinel (nullptr) -/
theorem inv_worker_pop_none (s s' : State) (i : Nat) (rest : List (Option Nat)) (pick : Option Nat) (h : Inv s)
    (hr : 1 ≤ i ∧ i ≤ s.N) (hw : s.w i = .fetch ∨ s.w i = .woken) (hq : s.queue = none :: rest)
    (hs : s' = (notifyIn (setW { s with queue := rest } i .exitInc) pick).1) : Inv s' := by
  have hc := h.core
  have hold : ∀ t, s.w i ≠ .run t ∧ s.w i ≠ .fin t := by
    intro t; rcases hw with hw | hw <;> rw [hw] <;> simp
  have hlivei : live (s.w i) = true := by rcases hw with hw | hw <;> rw [hw] <;> rfl
  obtain ⟨j, hqe, h0, h1⟩ := hc.queue_eq
  rw [hq] at hqe
  obtain ⟨hb0, hj1, hrest⟩ := (queue_head _ _ _ _ _ hqe).2 rfl
  have hp : postDtor s.mpc := by
    apply Classical.byContradiction; intro hnp; have := h0 hnp; omega
  have hjl := h1 hp
  obtain ⟨wk, hspec, hsome, hnone⟩ := notifyIn_spec (setW { s with queue := rest } i .exitInc) pick
  rw [hspec] at hs
  subst hs
  have hmid : Core (setW { s with queue := rest } i .exitInc) := by
    refine { nge := hc.nge, pop_le := hc.pop_le, sched_le := hc.sched_le, queue_eq := ?_, holds_lt := ?_,
             task_st := ?_, untouched := hc.untouched, ctr_eq := hc.ctr_eq, nfin_eq := hc.nfin_eq, pre := fun hn => absurd hp hn,
             mpc_sched := hc.mpc_sched, mpc_rest := hc.mpc_rest, blocked_ctr := hc.blocked_ctr,
             past_wait := hc.past_wait, post_noblock := ?_, joined := ?_, alldone := ?_ }
    all_goals (try dsimp only [setW])
    · refine ⟨j - 1, ?_, fun hn => absurd hp hn, fun _ => ?_⟩
      · rw [hrest, hb0]; simp
      · show j - 1 = cntLive (fun k => if k = i then WPc.exitInc else s.w k) s.N
        have := cntLive_dec s.w s.N i .exitInc hr.1 hr.2 hlivei rfl
        omega
    · intro k t hh
      exact hc.holds_lt k t ((holds_setW_idle { s with queue := rest } i .exitInc hold (by intro t; simp) k t).mp hh)
    · intro t ht
      have := task_st_setW_idle s i .exitInc hc hold t ht
      simpa only [setW_w] using this
    · intro _ k hk1 hk2
      show (if k = i then WPc.exitInc else s.w k) ≠ .blocked
      by_cases hk : k = i
      · simp [hk]
      · simp only [if_neg hk]; exact hc.post_noblock hp k hk1 hk2
    · intro k hk
      obtain ⟨a1, a2⟩ := hc.joined k hk
      refine ⟨a1, fun k' h1' h2' => ?_⟩
      have := a2 k' h1' h2'
      show (if k' = i then WPc.exitInc else s.w k') = .exited
      by_cases hk' : k' = i
      · subst hk'; rcases hw with hw | hw <;> rw [hw] at this <;> simp at this
      · simp only [if_neg hk']; exact this
    · intro hd k' h1' h2'
      have := hc.alldone hd i hr.1 hr.2
      rcases hw with hw | hw <;> rw [hw] at this <;> simp at this
  refine ⟨core_wakeOne _ wk hmid hsome, ?_⟩
  intro hn _
  exact absurd (by cases wk <;> exact hp) hn

/-- worker runs the task body -/
theorem inv_worker_run (s : State) (i t : Nat) (h : Inv s) (hr : 1 ≤ i ∧ i ≤ s.N) (hw : s.w i = .run t) :
    Inv { (setW s i (.fin t)) with execCnt := fun j => if j = t then s.execCnt j + 1 else s.execCnt j,
                                   execBy := fun j => if j = t then i else s.execBy j } := by
  have hc := h.core
  obtain ⟨htn, htk, htf⟩ := hc.holds_lt i t (Or.inl hw)
  obtain ⟨_, hst, _⟩ := hc.task_st t htn
  have hexec : s.execCnt t = 0 := by
    rw [htk, hw] at hst
    rcases hst with ⟨_, h2, _⟩ | ⟨h1, _⟩ | ⟨h3, _⟩
    · exact h2
    · simp at h1
    · rw [htf] at h3; simp at h3
  have hlive : ∀ j, live (if j = i then WPc.fin t else s.w j) = live (s.w j) := by
    intro j; by_cases hj : j = i
    · subst hj; rw [if_pos rfl, hw]; rfl
    · simp [hj]
  refine ⟨{ nge := hc.nge, pop_le := hc.pop_le, sched_le := hc.sched_le, queue_eq := ?_, holds_lt := ?_,
            task_st := ?_, untouched := ?_, ctr_eq := hc.ctr_eq, nfin_eq := hc.nfin_eq, pre := ?_,
            mpc_sched := hc.mpc_sched, mpc_rest := hc.mpc_rest, blocked_ctr := hc.blocked_ctr,
            past_wait := hc.past_wait, post_noblock := ?_, joined := ?_, alldone := ?_ }, ?_⟩
  all_goals (try dsimp only [setW])
  · obtain ⟨j, hqe, h0, h1⟩ := hc.queue_eq
    refine ⟨j, hqe, h0, fun hp => ?_⟩
    rw [h1 hp]
    exact cntLive_congr _ _ _ (fun k _ _ => (hlive k).symm)
  · intro k t' hh
    simp only [holds] at hh
    by_cases hk : k = i
    · subst hk
      simp only [if_true, WPc.fin.injEq] at hh
      rcases hh with hh | hh
      · simp at hh
      · subst hh; exact ⟨htn, htk, htf⟩
    · simp only [if_neg hk] at hh
      exact hc.holds_lt k t' hh
  · intro t' ht'
    obtain ⟨hr', hst', hby'⟩ := hc.task_st t' ht'
    by_cases hne : t' = t
    · subst hne
      simp only [if_true]
      refine ⟨hr', Or.inr (Or.inl ⟨?_, by omega, htf⟩), fun _ => htk.symm⟩
      rw [htk]; simp
    · simp only [if_neg hne]
      refine ⟨hr', ?_, hby'⟩
      by_cases hti : s.takenBy t' = i
      · rw [hti, hw] at hst'
        simp only [hti, if_true]
        rcases hst' with ⟨h1, _⟩ | ⟨h1, _⟩ | h3
        · simp only [WPc.run.injEq] at h1; exact absurd h1.symm hne
        · simp at h1
        · exact Or.inr (Or.inr h3)
      · simp only [if_neg hti]; exact hst'
  · intro t' ht'
    have hne : t' ≠ t := by omega
    simp only [if_neg hne]
    exact hc.untouched t' ht'
  · intro hn
    obtain ⟨h1', h2'⟩ := hc.pre hn
    refine ⟨h1', fun k => ?_⟩
    by_cases hk : k = i
    · simp [hk]
    · simp only [if_neg hk]; exact h2' k
  · intro hp k hk1 hk2
    by_cases hk : k = i
    · simp [hk]
    · simp only [if_neg hk]; exact hc.post_noblock hp k hk1 hk2
  · intro k hk
    obtain ⟨a1, a2⟩ := hc.joined k hk
    refine ⟨a1, fun k' h1' h2' => ?_⟩
    have := a2 k' h1' h2'
    by_cases hk' : k' = i
    · subst hk'; rw [hw] at this; simp at this
    · simp only [if_neg hk']; exact this
  · intro hd k' h1' h2'
    have := hc.alldone hd i hr.1 hr.2
    rw [hw] at this; simp at this
  · intro _ _
    exact ⟨i, hr.1, hr.2, by show active (if i = i then WPc.fin t else s.w i); simp [active]⟩

/-- `cv_ext_.notify_one()` on a state: the scheduling thread goes from `waitBlocked` to `waitWoken` -/
theorem notifyExt_fst (s : State) : (notifyExt s).1 = { s with mpc := if s.mpc = .waitBlocked then .waitWoken else s.mpc } := by
  unfold notifyExt
  split
  · rename_i hb; simp [hb]
  · rename_i hb; simp [hb]

theorem post_ext (m : MPc) : postDtor (if m = .waitBlocked then .waitWoken else m) ↔ postDtor m := by
  split
  · rename_i hb; subst hb
    constructor
    · intro hp; exact absurd hp not_post_waitWoken
    · intro hp; exact absurd hp not_post_waitBlocked
  · exact Iff.rfl

/-- core of `inv_worker_fin`, with the new pc `m` of the scheduling thread made explicit -/
theorem inv_worker_fin_aux (s : State) (i t : Nat) (m : MPc) (h : Inv s) (hr : 1 ≤ i ∧ i ≤ s.N) (hw : s.w i = .fin t)
    (hm : (s.mpc = .waitBlocked ∧ m = .waitWoken) ∨ (s.mpc ≠ .waitBlocked ∧ m = s.mpc)) :
    Inv { s with mpc := m, w := fun j => if j = i then .fetch else s.w j, ctr := s.ctr + 1, nfin := s.nfin + 1,
                 finished := fun j => if j = t then true else s.finished j } := by
  have hc := h.core
  obtain ⟨htn, htk, htf⟩ := hc.holds_lt i t (Or.inr hw)
  obtain ⟨_, hst, hby⟩ := hc.task_st t htn
  have hexec : s.execCnt t = 1 := by
    rw [htk, hw] at hst
    rcases hst with ⟨h1, _⟩ | ⟨_, h2, _⟩ | ⟨_, h3⟩
    · simp at h1
    · exact h2
    · exact h3
  have hnpast : ¬ (s.mpc = .dtor ∨ postDtor s.mpc) := by
    intro hp
    obtain ⟨a1, a2⟩ := hc.past_wait hp
    have := a2 t (by omega)
    rw [htf] at this; simp at this
  have hnp : ¬ postDtor s.mpc := fun hp => hnpast (Or.inr hp)
  have hnsched : ∀ k, m = .sched k → s.mpc = .sched k := by
    intro k hk; rcases hm with ⟨_, h2⟩ | ⟨_, h2⟩
    · rw [h2] at hk; simp at hk
    · rw [← h2]; exact hk
  have hnsched' : ∀ k, s.mpc = .sched k → m = .sched k := by
    intro k hk; rcases hm with ⟨h1, _⟩ | ⟨_, h2⟩
    · rw [h1] at hk; simp at hk
    · rw [h2]; exact hk
  have hmb : m ≠ .waitBlocked := by
    rcases hm with ⟨_, h2⟩ | ⟨h1, h2⟩
    · rw [h2]; simp
    · rw [h2]; exact h1
  have hmd : m ≠ .dtor := by
    rcases hm with ⟨_, h2⟩ | ⟨_, h2⟩
    · rw [h2]; simp
    · rw [h2]; exact fun hd => hnpast (Or.inl hd)
  have hnp' : ¬ postDtor m := by
    rcases hm with ⟨_, h2⟩ | ⟨_, h2⟩
    · rw [h2]; exact not_post_waitWoken
    · rw [h2]; exact hnp
  refine ⟨{ nge := hc.nge, pop_le := hc.pop_le, sched_le := hc.sched_le, queue_eq := ?_, holds_lt := ?_,
            task_st := ?_, untouched := ?_, ctr_eq := ?_, nfin_eq := ?_, pre := ?_,
            mpc_sched := fun k hk => hc.mpc_sched k (hnsched k hk),
            mpc_rest := fun hall => hc.mpc_rest (fun k hk => hall k (hnsched' k hk)),
            blocked_ctr := fun hk => absurd hk hmb,
            past_wait := ?_, post_noblock := fun hp => absurd hp hnp', joined := ?_, alldone := ?_ }, ?_⟩
  all_goals (try dsimp only)
  · obtain ⟨j, hqe, h0, h1⟩ := hc.queue_eq
    exact ⟨j, hqe, fun _ => h0 hnp, fun hp => absurd hp hnp'⟩
  · intro k t' hh
    simp only [holds] at hh
    by_cases hk : k = i
    · subst hk; simp at hh
    · simp only [if_neg hk] at hh
      obtain ⟨a1, a2, a3⟩ := hc.holds_lt k t' hh
      have hne : t' ≠ t := by intro e; subst e; omega
      exact ⟨a1, a2, by simp [hne, a3]⟩
  · intro t' ht'
    obtain ⟨hr', hst', hby'⟩ := hc.task_st t' ht'
    by_cases hne : t' = t
    · subst hne
      simp only [if_true]
      exact ⟨hr', Or.inr (Or.inr ⟨trivial, hexec⟩), hby'⟩
    · simp only [if_neg hne]
      refine ⟨hr', ?_, hby'⟩
      by_cases hti : s.takenBy t' = i
      · rw [hti, hw] at hst'
        simp only [hti, if_true]
        rcases hst' with ⟨h1, _⟩ | ⟨h1, _⟩ | h3
        · simp at h1
        · simp only [WPc.fin.injEq] at h1; exact absurd h1.symm hne
        · exact Or.inr (Or.inr h3)
      · simp only [if_neg hti]; exact hst'
  · intro t' ht'
    have hne : t' ≠ t := by omega
    simp only [if_neg hne]
    exact hc.untouched t' ht'
  · have := hc.ctr_eq; omega
  · have h1 := hc.nfin_eq
    rw [h1]
    exact (sumTo_set (fun t => b2n (s.finished t)) (fun t' => b2n (if t' = t then true else s.finished t')) s.npop t htn
      (by simp [htf, b2n]) (by simp [b2n]) (fun t' hne => by simp [hne])).symm
  · intro _
    obtain ⟨h1', h2'⟩ := hc.pre hnp
    refine ⟨h1', fun k => ?_⟩
    by_cases hk : k = i
    · simp [hk]
    · simp only [if_neg hk]; exact h2' k
  · intro hp
    rcases hp with hp | hp
    · exact absurd hp hmd
    · exact absurd hp hnp'
  · intro k hk; exact absurd (by rw [hk]; exact post_join k) hnp'
  · intro hk; exact absurd (by rw [hk]; exact post_done) hnp'
  · intro _ _
    exact ⟨i, hr.1, hr.2, by show active (if i = i then WPc.fetch else s.w i); simp [active]⟩

/-- worker acknowledges a finished task: `++ctr_; cv_ext_.notify_one()` -/
theorem inv_worker_fin (s s' : State) (i t : Nat) (h : Inv s) (hr : 1 ≤ i ∧ i ≤ s.N) (hw : s.w i = .fin t)
    (hs : s' = (notifyExt { (setW s i .fetch) with ctr := s.ctr + 1, nfin := s.nfin + 1, finished := fun j => if j = t then true else s.finished j }).1) : Inv s' := by
  by_cases hb : s.mpc = .waitBlocked
  · have := inv_worker_fin_aux s i t .waitWoken h hr hw (Or.inl ⟨hb, rfl⟩)
    simp only [notifyExt, setW, hb, if_true] at hs
    rw [hs]; exact this
  · have := inv_worker_fin_aux s i t s.mpc h hr hw (Or.inr ⟨hb, rfl⟩)
    simp only [notifyExt, setW, hb, if_false] at hs
    rw [hs]; exact this

/-- worker acknowledges its sentinel: `++ctr_; cv_ext_.notify_one(); break` -/
theorem inv_worker_exitInc (s s' : State) (i : Nat) (h : Inv s) (hr : 1 ≤ i ∧ i ≤ s.N) (hw : s.w i = .exitInc)
    (hs : s' = (notifyExt { (setW s i .exited) with ctr := s.ctr + 1, nexit := s.nexit + 1 }).1) : Inv s' := by
  have hc := h.core
  have hold : ∀ t, s.w i ≠ .run t ∧ s.w i ≠ .fin t := by intro t; rw [hw]; simp
  have hp : postDtor s.mpc := by
    apply Classical.byContradiction; intro hnp
    exact (hc.pre hnp).2 i |>.1 hw
  have hnb : s.mpc ≠ .waitBlocked := by
    intro hb; rw [hb] at hp; exact not_post_waitBlocked hp
  rw [notifyExt_fst] at hs
  simp only [setW, hnb, if_false] at hs
  subst hs
  have hlive : ∀ j, live (if j = i then WPc.exited else s.w j) = live (s.w j) := by
    intro j; by_cases hj : j = i
    · subst hj; rw [if_pos rfl, hw]; rfl
    · simp [hj]
  refine ⟨{ nge := hc.nge, pop_le := hc.pop_le, sched_le := hc.sched_le, queue_eq := ?_, holds_lt := ?_,
            task_st := ?_, untouched := hc.untouched, ctr_eq := ?_, nfin_eq := hc.nfin_eq, pre := fun hn => absurd hp hn,
            mpc_sched := hc.mpc_sched, mpc_rest := hc.mpc_rest, blocked_ctr := fun hk => absurd hk hnb,
            past_wait := hc.past_wait, post_noblock := ?_, joined := ?_, alldone := ?_ }, ?_⟩
  all_goals (try dsimp only)
  · obtain ⟨j, hqe, h0, h1⟩ := hc.queue_eq
    refine ⟨j, hqe, h0, fun _ => ?_⟩
    rw [h1 hp]
    exact cntLive_congr _ _ _ (fun k _ _ => (hlive k).symm)
  · intro k t hh
    exact hc.holds_lt k t ((holds_setW_idle s i .exited hold (by intro t; simp) k t).mp hh)
  · intro t ht
    have := task_st_setW_idle s i .exited hc hold t ht
    simpa only [setW_w] using this
  · have := hc.ctr_eq; omega
  · intro _ k hk1 hk2
    by_cases hk : k = i
    · simp [hk]
    · simp only [if_neg hk]; exact hc.post_noblock hp k hk1 hk2
  · intro k hk
    obtain ⟨a1, a2⟩ := hc.joined k hk
    refine ⟨a1, fun k' h1' h2' => ?_⟩
    by_cases hk' : k' = i
    · simp [hk']
    · simp only [if_neg hk']; exact a2 k' h1' h2'
  · intro hd k' h1' h2'
    by_cases hk' : k' = i
    · simp [hk']
    · simp only [if_neg hk']; exact hc.alldone hd k' h1' h2'
  · intro hn _; exact absurd hp hn

/-- every transition (spurious wake-ups included) preserves the invariant -/
theorem inv_step (s s' : State) (a : Act) (pick : Option Nat) (evs : List Ev) (h : Inv s)
    (hs : step s a pick = some (s', evs)) : Inv s' := by
  cases a with
  | main =>
    simp only [step] at hs
    cases hm : s.mpc with
    | sched i => exact inv_main_sched s s' pick evs i h hm hs
    | wait => exact inv_main_wait s s' pick evs h (Or.inl hm) hs
    | waitWoken => exact inv_main_wait s s' pick evs h (Or.inr hm) hs
    | waitBlocked => simp [stepMain, hm] at hs
    | dtor => exact inv_main_dtor s s' pick evs h hm hs
    | join k => exact inv_main_join s s' pick evs k h hm hs
    | done => simp [stepMain, hm] at hs
  | worker i =>
    simp only [step, stepWorker] at hs
    by_cases hr : 1 ≤ i ∧ i ≤ s.N
    · rw [if_neg (fun hn => hn hr)] at hs
      have hfetch : (s.w i = .fetch ∨ s.w i = .woken) →
          (match s.queue with
            | [] => some (setW s i .blocked, [Ev.lock i, .waitBlock i 0])
            | item :: rest =>
              match item with
              | some t => some ((notifyIn { (setW { s with queue := rest } i (.run t)) with
                    npop := s.npop + 1, takenBy := fun j => if j = t then i else s.takenBy j } pick).1,
                  [Ev.lock i, .waitPass i 0, .notifyOne i 0 (notifyIn { (setW { s with queue := rest } i (.run t)) with
                    npop := s.npop + 1, takenBy := fun j => if j = t then i else s.takenBy j } pick).2, .unlock i])
              | none => some ((notifyIn (setW { s with queue := rest } i .exitInc) pick).1,
                  [Ev.lock i, .waitPass i 0, .notifyOne i 0 (notifyIn (setW { s with queue := rest } i .exitInc) pick).2, .unlock i]))
            = some (s', evs) → Inv s' := by
        intro hw hs
        cases hq : s.queue with
        | nil =>
          rw [hq] at hs
          simp only [Option.some.injEq, Prod.mk.injEq] at hs
          rw [← hs.1]; exact inv_worker_block s i h hr hw hq
        | cons item rest =>
          rw [hq] at hs
          cases item with
          | some t =>
            simp only [Option.some.injEq, Prod.mk.injEq] at hs
            exact inv_worker_pop_task s s' i t rest pick h hr hw hq hs.1.symm
          | none =>
            simp only [Option.some.injEq, Prod.mk.injEq] at hs
            exact inv_worker_pop_none s s' i rest pick h hr hw hq hs.1.symm
      cases hw : s.w i with
      | fetch => rw [hw] at hs; exact hfetch (Or.inl hw) hs
      | woken => rw [hw] at hs; exact hfetch (Or.inr hw) hs
      | blocked => rw [hw] at hs; simp at hs
      | run t =>
        rw [hw] at hs
        simp only [Option.some.injEq, Prod.mk.injEq] at hs
        rw [← hs.1]; exact inv_worker_run s i t h hr hw
      | fin t =>
        rw [hw] at hs
        simp only [Option.some.injEq, Prod.mk.injEq] at hs
        exact inv_worker_fin s s' i t h hr hw hs.1.symm
      | exitInc =>
        rw [hw] at hs
        simp only [Option.some.injEq, Prod.mk.injEq] at hs
        exact inv_worker_exitInc s s' i h hr hw hs.1.symm
      | exited => rw [hw] at hs; simp at hs
    · rw [if_pos hr] at hs; simp at hs
  | spurious i =>
    simp only [step] at hs
    split at hs
    · rename_i hb
      simp only [Option.some.injEq, Prod.mk.injEq] at hs
      rw [← hs.1]; exact inv_wake s i h hb
    · simp at hs
  | spuriousMain =>
    simp only [step] at hs
    split at hs
    · rename_i hb
      simp only [Option.some.injEq, Prod.mk.injEq] at hs
      rw [← hs.1]; exact inv_spuriousMain s h hb
    · simp at hs

theorem step_N (s s' : State) (a : Act) (pick : Option Nat) (evs : List Ev)
    (hs : step s a pick = some (s', evs)) : True := trivial

theorem inv_reach (N T : Nat) (hN : 1 ≤ N) (s : State) (h : Reach N T s) : Inv s := by
  induction h with
  | init => exact inv_init N T hN
  | step _ hst ih =>
    obtain ⟨a, pick, evs, hs⟩ := hst
    exact inv_step _ _ a pick evs ih hs

theorem reach_of_reachNS (N T : Nat) (s : State) (h : ReachNS N T s) : Reach N T s := by
  induction h with
  | init => exact Reach.init
  | step _ hst ih =>
    obtain ⟨a, pick, evs, _, hs⟩ := hst
    exact Reach.step ih ⟨a, pick, evs, hs⟩

end MjProof.UserPool
