import MjProof.Lemmas.CType
/-
C49 helper lemmas: `int(str(n)) = n` for the model's `parseInt` / `intStr`, and the array-suffix
search (`findArr` / `groups`) on the text printed by `extentsStr`.
-/
namespace MjProof.CType

/-! ### digits -/

/-- characters printed by `intStr` -/
def numChar (c : Nat) : Bool := (digitVal c).isSome || c == 45

theorem digitVal_digitChar : ∀ d, d < 10 → digitVal (digitChar d) = some d := by decide

theorem numChar_digitChar (d : Nat) : numChar (digitChar d) = true := by
  unfold digitChar
  split <;> decide

theorem numChar_facts {c : Nat} (h : numChar c = true) :
    isWs c = false ∧ c ≠ 93 ∧ c ≠ 91 ∧ c ≠ 40 ∧ c ≠ 41 ∧ c ≠ 42 := by
  simp only [numChar, Bool.or_eq_true, beq_iff_eq] at h
  have hn : (48 ≤ c ∧ c ≤ 57) ∨ c = 45 := by
    rcases h with h | h
    · left
      simp only [digitVal] at h
      by_cases hc : 48 ≤ c ∧ c ≤ 57
      · exact hc
      · simp [hc] at h
    · exact Or.inr h
  have h128 : c < 128 := by omega
  simp only [isWs, h128, if_true, Bool.or_eq_false_iff, Bool.and_eq_false_iff, decide_eq_false_iff_not]
  omega

/-- value accumulated by reading the decimal digits of `n` after `a` -/
def shiftAux : Nat → Nat → Nat → Nat
  | 0, a, _ => a
  | f + 1, a, n => if n < 10 then a * 10 + n else shiftAux f a (n / 10) * 10 + n % 10

theorem shiftAux_zero : ∀ f n, n < f → shiftAux f 0 n = n := by
  intro f
  induction f with
  | zero => intro n h; omega
  | succ f ih =>
    intro n h
    simp only [shiftAux]
    by_cases hn : n < 10
    · simp [hn]
    · simp only [hn, if_false]
      rw [ih (n / 10) (by omega)]
      omega

theorem digitsAux_digit (a : Nat) (pd : Bool) (d : Nat) (hd : d < 10) (cs : Str) :
    digitsAux a pd (digitChar d :: cs) = digitsAux (a * 10 + d) true cs := by
  simp [digitsAux, digitVal_digitChar d hd]

theorem digitsAux_natDigitsAux : ∀ f n, n < f → ∀ a pd acc,
    digitsAux a pd (natDigitsAux f n acc) = digitsAux (shiftAux f a n) true acc := by
  intro f
  induction f with
  | zero => intro n h; omega
  | succ f ih =>
    intro n h a pd acc
    simp only [natDigitsAux, shiftAux]
    by_cases hn : n < 10
    · simp only [hn, if_true]
      exact digitsAux_digit a pd n hn acc
    · simp only [hn, if_false]
      rw [ih (n / 10) (by omega), digitsAux_digit _ _ _ (by omega)]

theorem parseNat_natDigits (n : Nat) : parseNat (natDigits n) = some n := by
  simp only [parseNat, natDigits]
  rw [digitsAux_natDigitsAux (n + 1) n (by omega), shiftAux_zero (n + 1) n (by omega)]
  simp [digitsAux]

theorem natDigitsAux_chars : ∀ f n acc, (∀ c ∈ acc, numChar c = true) →
    ∀ c ∈ natDigitsAux f n acc, numChar c = true := by
  intro f
  induction f with
  | zero => intro n acc h; simpa [natDigitsAux] using h
  | succ f ih =>
    intro n acc h
    simp only [natDigitsAux]
    split
    · intro c hc
      rcases List.mem_cons.mp hc with rfl | hc
      · exact numChar_digitChar _
      · exact h c hc
    · apply ih
      intro c hc
      rcases List.mem_cons.mp hc with rfl | hc
      · exact numChar_digitChar _
      · exact h c hc

theorem natDigits_ne_nil (n : Nat) : natDigits n ≠ [] := by
  unfold natDigits
  -- first unfolding step always emits a digit or recurses with a non-empty accumulator
  simp only [natDigitsAux]
  split
  · simp
  · have : ∀ f m acc, acc ≠ [] → natDigitsAux f m acc ≠ [] := by
      intro f
      induction f with
      | zero => intro m acc h; simpa [natDigitsAux] using h
      | succ f ih =>
        intro m acc h
        simp only [natDigitsAux]
        split
        · simp
        · exact ih _ _ (by simp)
    exact this _ _ _ (by simp)

theorem natDigits_chars (n : Nat) : ∀ c ∈ natDigits n, numChar c = true :=
  natDigitsAux_chars _ _ [] (by simp)

theorem intStr_chars (n : Int) : ∀ c ∈ intStr n, numChar c = true := by
  cases n with
  | ofNat m => exact natDigits_chars m
  | negSucc m =>
    intro c hc
    rcases List.mem_cons.mp hc with rfl | hc
    · decide
    · exact natDigits_chars _ c hc

theorem intStr_ne_nil (n : Int) : intStr n ≠ [] := by
  cases n with
  | ofNat m => exact natDigits_ne_nil m
  | negSucc m => simp [intStr]

/-- a string of `numChar`s has no whitespace to strip -/
theorem strip_numChars {s : Str} (h : ∀ c ∈ s, numChar c = true) : strip s = s := by
  cases hs : s with
  | nil => rfl
  | cons a l =>
    subst hs
    apply strip_of_noEdge
    refine ⟨⟨a, l, rfl, (numChar_facts (h a (by simp))).1⟩, ?_⟩
    cases hr : (a :: l).reverse with
    | nil => simp at hr
    | cons b l' =>
      refine ⟨b, l', rfl, (numChar_facts (h b ?_)).1⟩
      have : b ∈ (a :: l).reverse := by rw [hr]; simp
      exact List.mem_reverse.mp this

theorem digit_head_ne_sign {m : Nat} : ∀ c r, natDigits m = c :: r → c ≠ 45 ∧ c ≠ 43 := by
  intro c r h
  have hc : numChar c = true := natDigits_chars m c (by rw [h]; simp)
  -- the head of natDigits is a digit character: it is produced by digitChar
  have hd : ∀ f n acc, (∀ x r', acc = x :: r' → (digitVal x).isSome = true) → 0 < f ∨ acc ≠ [] →
      ∀ x r', natDigitsAux f n acc = x :: r' → (digitVal x).isSome = true := by
    intro f
    induction f with
    | zero =>
      intro n acc h1 h2 x r' hx
      simp only [natDigitsAux] at hx
      exact h1 x r' hx
    | succ f ih =>
      intro n acc h1 _ x r' hx
      simp only [natDigitsAux] at hx
      split at hx
      · rename_i hlt
        simp only [List.cons.injEq] at hx
        rw [← hx.1, digitVal_digitChar n hlt]; rfl
      · refine ih (n / 10) _ ?_ (Or.inr (by simp)) x r' hx
        intro y r'' hy
        simp only [List.cons.injEq] at hy
        rw [← hy.1, digitVal_digitChar _ (by omega)]; rfl
  have := hd (m + 1) m [] (by simp) (Or.inl (by omega)) c r h
  constructor
  · intro e; subst e; revert this; decide
  · intro e; subst e; revert this; decide

theorem parseInt_intStr (n : Int) : parseInt (intStr n) = some n := by
  unfold parseInt
  rw [strip_numChars (intStr_chars n)]
  cases n with
  | ofNat m =>
    simp only [intStr]
    split
    · rename_i r heq
      exact absurd rfl (digit_head_ne_sign _ _ heq).1
    · rename_i r heq
      exact absurd rfl (digit_head_ne_sign _ _ heq).2
    · rw [parseNat_natDigits]; rfl
  | negSucc m =>
    simp only [intStr, parseNat_natDigits]
    rfl

/-! ### extents -/

theorem extentsStr_chars (e : List Int) : ∀ c ∈ extentsStr e, c = 91 ∨ c = 93 ∨ numChar c = true := by
  induction e with
  | nil => simp [extentsStr]
  | cons n r ih =>
    intro c hc
    simp only [extentsStr, List.mem_cons, List.mem_append] at hc
    rcases hc with h | h | h | h
    · exact Or.inl h
    · exact Or.inr (Or.inr (intStr_chars n c h))
    · exact Or.inr (Or.inl h)
    · exact ih c h

theorem extentsStr_no_paren (e : List Int) : 40 ∉ extentsStr e ∧ 41 ∉ extentsStr e ∧ 42 ∉ extentsStr e := by
  refine ⟨?_, ?_, ?_⟩ <;> intro h <;> rcases extentsStr_chars e _ h with h | h | h <;>
    first | (revert h; decide) | skip
  all_goals (have := numChar_facts h; simp at this)

theorem takeWhile_append_stop {p : Nat → Bool} {a : Str} {x : Nat} {b : Str}
    (ha : ∀ c ∈ a, p c = true) (hx : p x = false) :
    (a ++ x :: b).takeWhile p = a ∧ (a ++ x :: b).dropWhile p = x :: b := by
  induction a with
  | nil => simp [hx]
  | cons c cs ih =>
    have hc := ha c (by simp)
    have := ih (fun d hd => ha d (by simp [hd]))
    simp [hc, this.1, this.2]

theorem groups_extentsStr : ∀ (e : List Int) (f : Nat), e ≠ [] → e.length < f →
    groups f (extentsStr e) = some (e.map intStr) := by
  intro e
  induction e with
  | nil => intro f h; exact absurd rfl h
  | cons n r ih =>
    intro f _ hf
    cases f with
    | zero => omega
    | succ f =>
      have hstop := takeWhile_append_stop (p := (· != 93)) (a := intStr n) (x := 93) (b := extentsStr r)
        (by intro c hc; have := (numChar_facts (intStr_chars n c hc)).2.1; simpa using this) (by decide)
      have hne : (intStr n).isEmpty = false := by
        have := intStr_ne_nil n
        cases h : intStr n with
        | nil => exact absurd h this
        | cons _ _ => rfl
      simp only [extentsStr, groups, hstop.1, hstop.2, hne]
      cases r with
      | nil => simp [extentsStr]
      | cons m r' =>
        have hd : (extentsStr (m :: r')).dropWhile isWs = extentsStr (m :: r') := by
          have hw : isWs 91 = false := by decide
          simp [extentsStr, hw]
        have hne2 : (extentsStr (m :: r')).isEmpty = false := by simp [extentsStr]
        simp only [hd, hne2]
        rw [ih f (by simp) (by simp only [List.length_cons] at hf ⊢; omega)]
        simp

theorem extentsStr_length (e : List Int) : e.length ≤ (extentsStr e).length := by
  induction e with
  | nil => simp [extentsStr]
  | cons n r ih => simp only [extentsStr, List.length_cons, List.length_append]; omega

theorem findArr_none {s : Str} (h : 91 ∉ s) : findArr s = none := by
  induction s with
  | nil => rfl
  | cons c cs ih =>
    have hc : c ≠ 91 := fun e => h (by simp [e])
    simp [findArr, hc, ih (fun m => h (by simp [m]))]

theorem findArr_append {pre : Str} (hpre : 91 ∉ pre) (e : List Int) (he : e ≠ []) :
    findArr (pre ++ extentsStr e) = some (pre, e.map intStr) := by
  induction pre with
  | nil =>
    cases e with
    | nil => exact absurd rfl he
    | cons n r =>
      have hg := groups_extentsStr (n :: r) ((intStr n ++ 93 :: extentsStr r).length + 2) (by simp) (by
        have := extentsStr_length r
        simp only [List.length_cons, List.length_append]; omega)
      simp only [List.nil_append, extentsStr, findArr, if_true]
      simp only [extentsStr] at hg
      rw [hg]
  | cons c cs ih =>
    have hc : c ≠ 91 := fun e => hpre (by simp [e])
    simp [findArr, hc, ih (fun m => hpre (by simp [m]))]

theorem mapMOpt_parseInt (e : List Int) : mapMOpt parseInt (e.map intStr) = some e := by
  induction e with
  | nil => rfl
  | cons n r ih => simp [mapMOpt, parseInt_intStr, ih]

end MjProof.CType
