import MjProof.Num
import Mathlib.Analysis.SpecialFunctions.Trigonometric.Inverse
import Mathlib.Analysis.SpecialFunctions.Trigonometric.Arctan
import Mathlib.Analysis.SpecialFunctions.Log.Basic
import Mathlib.Analysis.SpecialFunctions.Sqrt
import Mathlib.Algebra.Order.Floor.Defs
import Mathlib.Tactic.Ring
import Mathlib.Tactic.Linarith
/-
The real-number instance of `MjNum` used by the proofs (noncomputable; never executed).
`atan2 y x` is defined as in C (angle of the point (x, y) in (−π, π]).
-/
namespace MjProof
open Classical

noncomputable def realAtan2 (y x : ℝ) : ℝ :=
  if 0 < x then Real.arctan (y / x)
  else if x < 0 then (if 0 ≤ y then Real.arctan (y / x) + Real.pi else Real.arctan (y / x) - Real.pi)
  else if 0 < y then Real.pi / 2 else if y < 0 then -(Real.pi / 2) else 0

noncomputable instance instMjNumReal : MjNum ℝ where
  ofInt := fun n => (n : ℝ)
  ofSci := fun m s e => (OfScientific.ofScientific m s e : ℝ)
  decLt := fun a b => Classical.propDecidable (a < b)
  decLe := fun a b => Classical.propDecidable (a ≤ b)
  beq := fun a b => decide (a = b)
  sqrt := Real.sqrt
  sin := Real.sin
  cos := Real.cos
  tan := Real.tan
  asin := Real.arcsin
  acos := Real.arccos
  atan2 := realAtan2
  exp := Real.exp
  log := Real.log
  abs := fun x => |x|
  floor := fun x => (Int.floor x : ℝ)
  ceil := fun x => (Int.ceil x : ℝ)
  isNaN := fun _ => false

/-- literals of the generic code are the real literals -/
@[simp] theorem real_ofInt (n : Int) : (MjNum.ofInt n : ℝ) = (n : ℝ) := rfl
@[simp] theorem real_ofSci (m : Nat) (s : Bool) (e : Nat) :
    (MjNum.ofSci m s e : ℝ) = (OfScientific.ofScientific m s e : ℝ) := rfl
theorem real_lt_iff (a b : ℝ) : (@LT.lt ℝ (MjNum.toLT) a b) ↔ a < b := Iff.rfl
theorem real_le_iff (a b : ℝ) : (@LE.le ℝ (MjNum.toLE) a b) ↔ a ≤ b := Iff.rfl

@[simp] theorem real_sqrt (x : ℝ) : MjNum.sqrt x = Real.sqrt x := rfl
@[simp] theorem real_sin (x : ℝ) : MjNum.sin x = Real.sin x := rfl
@[simp] theorem real_cos (x : ℝ) : MjNum.cos x = Real.cos x := rfl
@[simp] theorem real_abs (x : ℝ) : MjNum.abs x = |x| := rfl
@[simp] theorem real_exp (x : ℝ) : MjNum.exp x = Real.exp x := rfl
@[simp] theorem real_log (x : ℝ) : MjNum.log x = Real.log x := rfl
@[simp] theorem real_acos (x : ℝ) : MjNum.acos x = Real.arccos x := rfl
@[simp] theorem real_asin (x : ℝ) : MjNum.asin x = Real.arcsin x := rfl
@[simp] theorem real_atan2 (y x : ℝ) : MjNum.atan2 y x = realAtan2 y x := rfl

@[simp] theorem real_beq (a b : ℝ) : MjNum.beq a b = decide (a = b) := rfl
@[simp] theorem real_tan (x : ℝ) : MjNum.tan x = Real.tan x := rfl
@[simp] theorem real_isNaN (x : ℝ) : MjNum.isNaN x = false := rfl

end MjProof
