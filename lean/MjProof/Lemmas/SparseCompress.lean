import MjProof.Lemmas.SparseD2S
/-
C23: `mju_compressSparse` over ℝ: the in-place shift preserves the kept entries of every row.
-/
namespace MjProof.Sparse
open MjNum Finset MjProof.LinAlg

variable {cap : Nat}

/-- an entry is kept by `mju_compressSparse` -/
def keepEntry (removeSmall : Bool) (minval v : ℝ) : Prop := ¬ (removeSmall = true ∧ |v| ≤ minval)

noncomputable instance (removeSmall : Bool) (minval v : ℝ) : Decidable (keepEntry removeSmall minval v) :=
  Classical.propDecidable _

section row
variable (removeSmall : Bool) (minval : ℝ) (mat0 : Vector ℝ cap) (colind0 : Vector Nat cap) (A0 : Nat)

/-- number of kept entries among the first `t` of the row starting at `A0` -/
noncomputable def keptCnt (t : Nat) : Nat :=
  ∑ t' ∈ range t, if keepEntry removeSmall minval (vget mat0 (A0 + t')) then 1 else 0

/-- kept part of the row, column `c` -/
noncomputable def keptPart (t c : Nat) : ℝ :=
  ∑ t' ∈ range t, if nget colind0 (A0 + t') = c ∧ keepEntry removeSmall minval (vget mat0 (A0 + t'))
    then vget mat0 (A0 + t') else 0

theorem keptCnt_le (t : Nat) : keptCnt removeSmall minval mat0 A0 t ≤ t := by
  unfold keptCnt
  calc _ ≤ ∑ _t' ∈ range t, 1 := Finset.sum_le_sum (fun i _ => by split <;> omega)
    _ = t := by simp

/-- invariant of the inner loop after `t` entries of the row have been read -/
structure CRowInv (matS : Vector ℝ cap) (colindS : Vector Nat cap) (a0 t : Nat)
    (st : Vector ℝ cap × Vector Nat cap × Nat × Nat) : Prop where
  adr : st.2.2.1 = a0 + keptCnt removeSmall minval mat0 A0 t
  nnz : st.2.2.2 = if removeSmall then keptCnt removeSmall minval mat0 A0 t else 0
  above : ∀ pos, A0 + t ≤ pos → vget st.1 pos = vget mat0 pos ∧ nget st.2.1 pos = nget colind0 pos
  below : ∀ pos, pos < a0 → vget st.1 pos = vget matS pos ∧ nget st.2.1 pos = nget colindS pos
  part : ∀ c, rawPart st.2.1 st.1 a0 (keptCnt removeSmall minval mat0 A0 t) c
    = keptPart removeSmall minval mat0 colind0 A0 t c

theorem compressEntry_step (matS : Vector ℝ cap) (colindS : Vector Nat cap) (a0 K0 t : Nat) (ha : a0 ≤ A0)
    (hK : A0 + K0 ≤ cap) (ht : t < K0) (st : Vector ℝ cap × Vector Nat cap × Nat × Nat)
    (I : CRowInv removeSmall minval mat0 colind0 A0 matS colindS a0 t st) :
    ∃ st', compressEntry removeSmall minval (A0 + t) st = some st' ∧
      CRowInv removeSmall minval mat0 colind0 A0 matS colindS a0 (t + 1) st' := by
  obtain ⟨mat, colind, adr, nnz⟩ := st
  have hpos : A0 + t < cap := by omega
  have hadr : adr = a0 + keptCnt removeSmall minval mat0 A0 t := I.adr
  have hcnt := keptCnt_le removeSmall minval mat0 A0 t
  have hv : mat[A0 + t] = vget mat0 (A0 + t) := by
    rw [getElem_eq_vget]; exact (I.above (A0 + t) le_rfl).1
  have hc : colind[A0 + t] = nget colind0 (A0 + t) := by
    rw [getElem_eq_nget]; exact (I.above (A0 + t) le_rfl).2
  by_cases hkeep : keepEntry removeSmall minval (vget mat0 (A0 + t))
  · -- kept
    have hcond : ¬ (removeSmall = true ∧ |vget mat0 (A0 + t)| ≤ minval) := hkeep
    have e1 : keptCnt removeSmall minval mat0 A0 (t + 1) = keptCnt removeSmall minval mat0 A0 t + 1 := by
      unfold keptCnt; rw [Finset.sum_range_succ, if_pos hkeep]
    have hadrlt : adr < cap := by omega
    have hres : compressEntry removeSmall minval (A0 + t) (mat, colind, adr, nnz)
        = some (mat.set adr (vget mat0 (A0 + t)) hadrlt, colind.set adr (nget colind0 (A0 + t)) hadrlt, adr + 1,
            if removeSmall then nnz + 1 else nnz) := by
      unfold compressEntry
      simp only [rd_some _ _ hpos, Option.bind_eq_bind, Option.bind_some, hv, hc, real_abs, if_neg hcond]
      by_cases e : adr = A0 + t
      · rw [if_neg (by simpa using e)]
        subst e
        simp only [Option.pure_def]
        congr 2
        · rw [← hv]; exact (Vector.set_getElem_self _).symm
        · congr 1
          rw [← hc]; exact (Vector.set_getElem_self _).symm
      · rw [if_pos e]
        simp only [wr_some _ _ _ hadrlt, Option.bind_some, Option.pure_def]
    rw [hres]
    refine ⟨_, rfl, ?_, ?_, ?_, ?_, ?_⟩
    · show adr + 1 = _
      rw [e1, hadr]; omega
    · show (if removeSmall then nnz + 1 else nnz) = _
      have := I.nnz
      simp only at this
      rw [e1, this]
      cases removeSmall <;> simp
    · intro pos hp
      show vget (mat.set adr _ hadrlt) pos = _ ∧ nget (colind.set adr _ hadrlt) pos = _
      rw [vget_set, nget_set, if_neg (by omega), if_neg (by omega)]
      exact I.above pos (by omega)
    · intro pos hp
      show vget (mat.set adr _ hadrlt) pos = _ ∧ nget (colind.set adr _ hadrlt) pos = _
      rw [vget_set, nget_set, if_neg (by omega), if_neg (by omega)]
      exact I.below pos hp
    · intro c
      show rawPart (colind.set adr _ hadrlt) (mat.set adr _ hadrlt) a0 _ c = _
      rw [e1]
      unfold rawPart keptPart
      rw [Finset.sum_range_succ, Finset.sum_range_succ, ← hadr, nget_set, if_pos rfl, vget_set, if_pos rfl]
      have hprev : ∑ k ∈ range (keptCnt removeSmall minval mat0 A0 t),
          (if nget (colind.set adr (nget colind0 (A0 + t)) hadrlt) (a0 + k) = c
            then vget (mat.set adr (vget mat0 (A0 + t)) hadrlt) (a0 + k) else 0)
          = rawPart colind mat a0 (keptCnt removeSmall minval mat0 A0 t) c := by
        unfold rawPart
        apply Finset.sum_congr rfl
        intro k hk; simp at hk
        have e2 : nget (colind.set adr (nget colind0 (A0 + t)) hadrlt) (a0 + k) = nget colind (a0 + k) := by
          rw [nget_set, if_neg (by omega)]
        have e3 : vget (mat.set adr (vget mat0 (A0 + t)) hadrlt) (a0 + k) = vget mat (a0 + k) := by
          rw [vget_set, if_neg (by omega)]
        rw [e2, e3]
      rw [hprev, I.part c]
      unfold keptPart
      congr 1
      by_cases hcc : nget colind0 (A0 + t) = c
      · rw [if_pos hcc, if_pos ⟨hcc, hkeep⟩]
      · rw [if_neg hcc, if_neg (fun h => hcc h.1)]
  · -- dropped
    have hcond : removeSmall = true ∧ |vget mat0 (A0 + t)| ≤ minval := by
      unfold keepEntry at hkeep; exact not_not.mp hkeep
    have e1 : keptCnt removeSmall minval mat0 A0 (t + 1) = keptCnt removeSmall minval mat0 A0 t := by
      unfold keptCnt; rw [Finset.sum_range_succ, if_neg hkeep]; rfl
    have hres : compressEntry removeSmall minval (A0 + t) (mat, colind, adr, nnz) = some (mat, colind, adr, nnz) := by
      unfold compressEntry
      simp only [rd_some _ _ hpos, Option.bind_eq_bind, Option.bind_some, hv, real_abs, if_pos hcond, Option.pure_def]
    rw [hres]
    refine ⟨_, rfl, ?_, ?_, ?_, I.below, ?_⟩
    · rw [e1]; exact I.adr
    · rw [e1]; exact I.nnz
    · intro pos hp; exact I.above pos (by omega)
    · intro c
      rw [e1, I.part c]
      unfold keptPart
      rw [Finset.sum_range_succ, if_neg (fun h => hkeep h.2), add_zero]

theorem keptCnt_all (hrs : removeSmall = false) (t : Nat) : keptCnt removeSmall minval mat0 A0 t = t := by
  unfold keptCnt
  have : ∀ t' ∈ range t, (if keepEntry removeSmall minval (vget mat0 (A0 + t')) then 1 else 0) = 1 := by
    intro t' _
    rw [if_pos]
    unfold keepEntry; simp [hrs]
  rw [Finset.sum_congr rfl this]; simp

end row

variable {nr nc : Nat}

section outer
variable (removeSmall : Bool) (minval : ℝ) (p : Pat nr nc cap) (mat0 : Vector ℝ cap)

/-- kept entries of row `r` -/
noncomputable def keptRow (r : Nat) : Nat :=
  keptCnt removeSmall minval mat0 (nget p.rowadr r) (nget p.rownnz r)

/-- new start address of row `r` -/
noncomputable def newAdr (r : Nat) : Nat := ∑ r' ∈ range r, keptRow removeSmall minval p mat0 r'

/-- the matrix represented after compression: the kept entries -/
noncomputable def denseKept (r c : Nat) : ℝ :=
  keptPart removeSmall minval mat0 p.colind (nget p.rowadr r) (nget p.rownnz r) c

theorem newAdr_succ (r : Nat) :
    newAdr removeSmall minval p mat0 (r + 1) = newAdr removeSmall minval p mat0 r + keptRow removeSmall minval p mat0 r := by
  unfold newAdr; rw [Finset.sum_range_succ]

theorem newAdr_mono {r r' : Nat} (h : r ≤ r') : newAdr removeSmall minval p mat0 r ≤ newAdr removeSmall minval p mat0 r' := by
  unfold newAdr
  exact Finset.sum_le_sum_of_subset (Finset.range_mono h)

/-- invariant of the row loop of `mju_compressSparse` -/
structure CInv (r : Nat) (st : Csr ℝ nr cap × Nat) : Prop where
  adr : st.2 = newAdr removeSmall minval p mat0 r
  bound : r < nr → st.2 ≤ nget p.rowadr r
  rows : ∀ r', r ≤ r' → nget st.1.rowadr r' = nget p.rowadr r' ∧ nget st.1.rownnz r' = nget p.rownnz r'
  above : ∀ pos, r < nr → nget p.rowadr r ≤ pos →
    vget st.1.mat pos = vget mat0 pos ∧ nget st.1.colind pos = nget p.colind pos
  done : ∀ r', r' < r → nget st.1.rowadr r' = newAdr removeSmall minval p mat0 r' ∧
    nget st.1.rownnz r' = keptRow removeSmall minval p mat0 r' ∧
    ∀ c, rawPart st.1.colind st.1.mat (newAdr removeSmall minval p mat0 r') (keptRow removeSmall minval p mat0 r') c
      = denseKept removeSmall minval p mat0 r' c

theorem compressRow_step (hord : ∀ r, r + 1 < nr → nget p.rowadr r + nget p.rownnz r ≤ nget p.rowadr (r + 1))
    (r : Nat) (hr : r < nr) (st : Csr ℝ nr cap × Nat) (I : CInv removeSmall minval p mat0 r st) :
    ∃ st', compressRow removeSmall minval r st = some st' ∧ CInv removeSmall minval p mat0 (r + 1) st' := by
  obtain ⟨m, adr⟩ := st
  have hA : m.rowadr[r] = nget p.rowadr r := by rw [getElem_eq_nget]; exact (I.rows r le_rfl).1
  have hK : m.rownnz[r] = nget p.rownnz r := by rw [getElem_eq_nget]; exact (I.rows r le_rfl).2
  have hcap : nget p.rowadr r + nget p.rownnz r ≤ cap := by
    have := p.hrow r hr
    rwa [getElem_eq_nget, getElem_eq_nget] at this
  have hadr : adr = newAdr removeSmall minval p mat0 r := I.adr
  have hbound : adr ≤ nget p.rowadr r := I.bound hr
  -- inner loop
  obtain ⟨inner, hinner, J⟩ := loopM_inv (nget p.rownnz r)
    (fun t st => compressEntry removeSmall minval (nget p.rowadr r + t) st) (m.mat, m.colind, adr, 0)
    (fun t st => CRowInv removeSmall minval mat0 p.colind (nget p.rowadr r) m.mat m.colind adr t st)
    ⟨by simp [keptCnt], by simp [keptCnt], fun pos hp => I.above pos hr (by omega), fun _ _ => ⟨rfl, rfl⟩,
      by intro c; simp [keptCnt, keptPart, rawPart]⟩
    (fun t ht st' I' => compressEntry_step removeSmall minval mat0 p.colind (nget p.rowadr r) m.mat m.colind adr
      (nget p.rownnz r) t hbound hcap ht st' I')
  -- the result
  have hres : compressRow removeSmall minval r (m, adr) = some
      ({ mat := inner.1,
         rownnz := if removeSmall then m.rownnz.set r inner.2.2.2 hr else m.rownnz,
         rowadr := m.rowadr.set r adr hr, colind := inner.2.1 }, inner.2.2.1) := by
    unfold compressRow
    simp only [rd_some _ _ hr, wr_some _ _ _ hr, Option.bind_eq_bind, Option.bind_some, hA, hK, hinner,
      Option.pure_def]
    cases removeSmall <;> simp [wr_some _ _ _ hr]
  rw [hres]
  refine ⟨_, rfl, ?_, ?_, ?_, ?_, ?_⟩
  · show inner.2.2.1 = _
    rw [J.adr, newAdr_succ, hadr]; rfl
  · intro hr1
    show inner.2.2.1 ≤ _
    rw [J.adr]
    have h1 := keptCnt_le removeSmall minval mat0 (nget p.rowadr r) (nget p.rownnz r)
    have h2 := hord r hr1
    omega
  · intro r' hr'
    show nget (m.rowadr.set r adr hr) r' = _ ∧
      nget (if removeSmall then m.rownnz.set r inner.2.2.2 hr else m.rownnz) r' = _
    rw [nget_set, if_neg (by omega)]
    refine ⟨(I.rows r' (by omega)).1, ?_⟩
    cases removeSmall
    · exact (I.rows r' (by omega)).2
    · simp only [if_true]; rw [nget_set, if_neg (by omega)]; exact (I.rows r' (by omega)).2
  · intro pos hr1 hp
    have h2 := hord r hr1
    exact J.above pos (by omega)
  · intro r' hr'
    show nget (m.rowadr.set r adr hr) r' = _ ∧
      nget (if removeSmall then m.rownnz.set r inner.2.2.2 hr else m.rownnz) r' = _ ∧
      ∀ c, rawPart inner.2.1 inner.1 _ _ c = _
    rcases Nat.lt_succ_iff_lt_or_eq.mp hr' with hlt | rfl
    · obtain ⟨d1, d2, d3⟩ := I.done r' hlt
      refine ⟨by rw [nget_set, if_neg (by omega)]; exact d1, ?_, ?_⟩
      · cases removeSmall
        · exact d2
        · simp only [if_true]; rw [nget_set, if_neg (by omega)]; exact d2
      · intro c
        rw [← d3 c]
        apply rawPart_congr
        intro k hk
        have h1 := newAdr_succ removeSmall minval p mat0 r'
        have h2 := newAdr_mono removeSmall minval p mat0 (show r' + 1 ≤ r' + (r' - r') + 1 by omega)
        have h3 := newAdr_mono removeSmall minval p mat0 (show r' + 1 ≤ r by omega)
        have := J.below (newAdr removeSmall minval p mat0 r' + k) (by omega)
        exact ⟨this.2, this.1⟩
    · refine ⟨by rw [nget_set, if_pos rfl]; exact hadr, ?_, ?_⟩
      · cases removeSmall
        · simp only [Bool.false_eq_true, if_false]
          rw [(I.rows r' le_rfl).2]
          unfold keptRow
          exact (keptCnt_all false minval mat0 _ rfl _).symm
        · simp only [if_true]
          rw [nget_set, if_pos rfl]
          have := J.nnz
          simp only [if_true] at this
          rw [this]; rfl
      · intro c
        rw [← hadr]
        exact J.part c

theorem compressSparse_spec (hord : ∀ r, r + 1 < nr → nget p.rowadr r + nget p.rownnz r ≤ nget p.rowadr (r + 1))
    (hnr : 0 < nr) (hrs : removeSmall = decide ((lit 0 : ℝ) ≤ minval)) :
    ∃ out ret, compressSparse { mat := mat0, rownnz := p.rownnz, rowadr := p.rowadr, colind := p.colind } minval
        = some (out, ret) ∧
      ret = newAdr removeSmall minval p mat0 nr ∧
      ∀ r, r < nr → nget out.rowadr r = newAdr removeSmall minval p mat0 r ∧
        nget out.rownnz r = keptRow removeSmall minval p mat0 r ∧
        ∀ c, denseRaw out.rownnz out.rowadr out.colind out.mat r c = denseKept removeSmall minval p mat0 r c := by
  obtain ⟨st, hst, I⟩ := loopM_inv nr (compressRow removeSmall minval)
    (({ mat := mat0, rownnz := p.rownnz, rowadr := p.rowadr, colind := p.colind } : Csr ℝ nr cap), 0)
    (fun r st => CInv removeSmall minval p mat0 r st)
    ⟨by simp [newAdr], fun _ => Nat.zero_le _, fun _ _ => ⟨rfl, rfl⟩, fun _ _ _ => ⟨rfl, rfl⟩,
      fun r' hr' => by omega⟩
    (fun r hr st I => compressRow_step removeSmall minval p mat0 hord r hr st I)
  have hrows : ∀ r, r < nr → nget st.1.rowadr r = newAdr removeSmall minval p mat0 r ∧
      nget st.1.rownnz r = keptRow removeSmall minval p mat0 r ∧
      ∀ c, denseRaw st.1.rownnz st.1.rowadr st.1.colind st.1.mat r c = denseKept removeSmall minval p mat0 r c := by
    intro r hr
    obtain ⟨d1, d2, d3⟩ := I.done r hr
    refine ⟨d1, d2, ?_⟩
    intro c
    rw [denseRaw_eq_rawPart, d1, d2]
    exact d3 c
  refine ⟨st.1, st.1.rowadr[nr - 1] + st.1.rownnz[nr - 1], ?_, ?_, hrows⟩
  · unfold compressSparse
    rw [← hrs, hst]
    simp [hnr]
  · rw [getElem_eq_nget, getElem_eq_nget, (hrows (nr - 1) (by omega)).1, (hrows (nr - 1) (by omega)).2.1,
      ← newAdr_succ]
    congr 1
    omega

/-- without a threshold (`minval < 0`) the kept matrix is the represented matrix -/
theorem denseKept_all (hrs : removeSmall = false) (r c : Nat) :
    denseKept removeSmall minval p mat0 r c = denseOf p mat0 r c := by
  unfold denseKept keptPart denseOf denseRaw
  apply Finset.sum_congr rfl
  intro k _
  have : keepEntry removeSmall minval (vget mat0 (nget p.rowadr r + k)) := by unfold keepEntry; simp [hrs]
  simp [this]

end outer
end MjProof.Sparse
