import MjProof.Lemmas.RealNum
import MjProof.Gen.Kernels
import Mathlib.Analysis.Real.Sqrt
import Mathlib.Tactic.Ring
import Mathlib.Tactic.Linarith
import Mathlib.Tactic.NormNum
import Mathlib.Tactic.LinearCombination
import Mathlib.Tactic.FieldSimp
import Mathlib.Tactic.Positivity
/-
C13 helper lemmas: closed forms over ℝ of the *generated* raw colliders (`MjProof/Gen/Kernels.lean`,
regenerated from `src/engine/engine_collision_primitive.c`, `engine_collision_box.c`,
`engine_util_spatial.c` of the working tree on every run) and the small amount of Euclidean geometry
(3-vectors as triples) that the property theorems of `Props/C13.lean` need.

Every `…_eq` lemma is proved from the generated definition by unfolding and a case split over the
branches of the C code (early `return 0` outside the margin, the coincident-centre fallback of
`mjraw_SphereSphere`, the `mjMINVAL` guard of `mju_normalize3`, `mju_clip`).
-/
namespace MjProof.Collide
open MjProof MjProof.Gen

/- This file deliberately does not import `MjProof.Lemmas.Spatial` (owned by C24): the few shared facts
   (`minval`, the closed form of `mju_normalize3`) are re-proved here from the generated definitions. -/

abbrev Vec3 := ℝ × ℝ × ℝ
/-- row-major 3×3 matrix, as MuJoCo stores it -/
abbrev Mat3 := ℝ × ℝ × ℝ × ℝ × ℝ × ℝ × ℝ × ℝ × ℝ

def matDet (a : Mat3) : ℝ :=
  match a with
  | (a0, a1, a2, a3, a4, a5, a6, a7, a8) =>
    a0 * (a4 * a8 - a5 * a7) - a1 * (a3 * a8 - a5 * a6) + a2 * (a3 * a7 - a4 * a6)

/-- mjMINVAL = 1e-15 as the translator prints the double (`1.0000000000000001e-15`) -/
noncomputable def minval : ℝ := 10000000000000001 / 10 ^ 31
theorem minval_pos : 0 < minval := by unfold minval; norm_num
theorem minval_lt_one : minval < 1 := by unfold minval; norm_num
theorem ofSci_minval : (MjNum.ofSci 10000000000000001 true 31 : ℝ) = minval := by
  simp only [real_ofSci, minval]; norm_num
theorem ofSci_half : (MjNum.ofSci 5 true 1 : ℝ) = 1 / 2 := by
  simp only [real_ofSci]; norm_num
theorem ofSci_quarter : (MjNum.ofSci 25 true 2 : ℝ) = 1 / 4 := by
  simp only [real_ofSci]; norm_num

theorem sumsq3_nonneg (a b c : ℝ) : 0 ≤ a*a + b*b + c*c :=
  add_nonneg (add_nonneg (mul_self_nonneg a) (mul_self_nonneg b)) (mul_self_nonneg c)

theorem unit3_of_div (a b c n : ℝ) (hn : 0 < n) (hsq : n * n = a*a + b*b + c*c) :
    a / n * (a / n) + b / n * (b / n) + c / n * (c / n) = 1 := by
  have hne : n ≠ 0 := ne_of_gt hn
  have e : a / n * (a / n) + b / n * (b / n) + c / n * (c / n) = (a*a + b*b + c*c) / (n * n) := by
    field_simp
  rw [e, ← hsq]
  exact div_self (mul_ne_zero hne hne)

/-- closed form of the generated `mju_normalize3`: (norm, (1,0,0) below mjMINVAL, else v / norm) -/
theorem mju_normalize3_eq (v0 v1 v2 : ℝ) :
    mju_normalize3 v0 v1 v2 =
      (Real.sqrt (v0*v0 + v1*v1 + v2*v2),
        if Real.sqrt (v0*v0 + v1*v1 + v2*v2) < minval then ((1 : ℝ), (0 : ℝ), (0 : ℝ)) else
          (v0 / Real.sqrt (v0*v0 + v1*v1 + v2*v2), v1 / Real.sqrt (v0*v0 + v1*v1 + v2*v2),
           v2 / Real.sqrt (v0*v0 + v1*v1 + v2*v2))) := by
  simp only [mju_normalize3, real_sqrt, real_ofInt, decide_eq_true_eq, real_lt_iff, ofSci_minval]
  split_ifs with h
  · simp
  · simp only [Prod.mk.injEq]; refine ⟨trivial, ?_, ?_, ?_⟩ <;> (push_cast; ring)

/-- returns (norm, normalised vector) like the C function (return value, in-place result) -/
noncomputable def normalize3 (v : Vec3) : ℝ × Vec3 :=
  mju_normalize3 (α := ℝ) v.1 v.2.1 v.2.2

/-! ### 3-vectors -/

def dot3 (a b : Vec3) : ℝ := a.1 * b.1 + a.2.1 * b.2.1 + a.2.2 * b.2.2
def sub3 (a b : Vec3) : Vec3 := (a.1 - b.1, a.2.1 - b.2.1, a.2.2 - b.2.2)
def add3 (a b : Vec3) : Vec3 := (a.1 + b.1, a.2.1 + b.2.1, a.2.2 + b.2.2)
def scl3 (a : Vec3) (s : ℝ) : Vec3 := (a.1 * s, a.2.1 * s, a.2.2 * s)
def cross3 (a b : Vec3) : Vec3 :=
  (a.2.1 * b.2.2 - a.2.2 * b.2.1, a.2.2 * b.1 - a.1 * b.2.2, a.1 * b.2.1 - a.2.1 * b.1)
/-- Euclidean norm -/
noncomputable def norm3 (a : Vec3) : ℝ := Real.sqrt (dot3 a a)
/-- Euclidean distance -/
noncomputable def dist3 (a b : Vec3) : ℝ := norm3 (sub3 a b)

theorem dot3_self_nonneg (a : Vec3) : 0 ≤ dot3 a a := sumsq3_nonneg _ _ _
theorem norm3_nonneg (a : Vec3) : 0 ≤ norm3 a := Real.sqrt_nonneg _
theorem norm3_sq (a : Vec3) : norm3 a * norm3 a = dot3 a a := Real.mul_self_sqrt (dot3_self_nonneg a)
theorem dot3_sub_comm (a b : Vec3) : dot3 (sub3 a b) (sub3 a b) = dot3 (sub3 b a) (sub3 b a) := by
  simp only [dot3, sub3]; ring
theorem dist3_comm (a b : Vec3) : dist3 a b = dist3 b a := by
  simp only [dist3, norm3, dot3_sub_comm a b]

/-- result record of a raw collider as the translator scalarises it:
    (return value, dist, normal[0..2], pos[0..2], tangent[0..2]) -/
abbrev RawCon := Int × ℝ × ℝ × ℝ × ℝ × ℝ × ℝ × ℝ × ℝ × ℝ × ℝ
def RawCon.ret (c : RawCon) : Int := c.1
def RawCon.dist (c : RawCon) : ℝ := c.2.1
def RawCon.normal (c : RawCon) : Vec3 := (c.2.2.1, c.2.2.2.1, c.2.2.2.2.1)
def RawCon.pos (c : RawCon) : Vec3 := (c.2.2.2.2.2.1, c.2.2.2.2.2.2.1, c.2.2.2.2.2.2.2.1)
def RawCon.tangent (c : RawCon) : Vec3 :=
  (c.2.2.2.2.2.2.2.2.1, c.2.2.2.2.2.2.2.2.2.1, c.2.2.2.2.2.2.2.2.2.2)

/-- the incoming contents of `con[0]` (returned unchanged on the early-return path) -/
structure PreCon where
  dist : ℝ
  normal : Vec3
  pos : Vec3
  tangent : Vec3

def PreCon.unchanged (c : PreCon) : RawCon :=
  (0, c.dist, c.normal.1, c.normal.2.1, c.normal.2.2, c.pos.1, c.pos.2.1, c.pos.2.2,
   c.tangent.1, c.tangent.2.1, c.tangent.2.2)

def mkCon (dist : ℝ) (n p : Vec3) : RawCon :=
  (1, dist, n.1, n.2.1, n.2.2, p.1, p.2.1, p.2.2, 0, 0, 0)

/-! ### uncurrying wrappers of the generated kernels (no logic of their own)
`z1`, `z2` are the third columns (`mat[2], mat[5], mat[8]`) of the geoms' orientation matrices. -/

noncomputable def sphereSphere (con : PreCon) (margin : ℝ) (c1 z1 : Vec3) (r1 : ℝ) (c2 z2 : Vec3)
    (r2 : ℝ) : RawCon :=
  mjraw_SphereSphere (α := ℝ) con.dist con.normal.1 con.normal.2.1 con.normal.2.2 con.pos.1 con.pos.2.1
    con.pos.2.2 con.tangent.1 con.tangent.2.1 con.tangent.2.2 margin c1.1 c1.2.1 c1.2.2 z1.1 z1.2.1 z1.2.2
    r1 c2.1 c2.2.1 c2.2.2 z2.1 z2.2.1 z2.2.2 r2

/-- `mjraw_PlaneSphere` does not read `con[0].normal` (it always writes it), so the generated kernel has
    no such inputs; `p1`, `n` are the plane's position and normal (third column of its matrix) -/
noncomputable def planeSphere (con : PreCon) (margin : ℝ) (p1 n : Vec3) (c2 : Vec3) (r2 : ℝ) : RawCon :=
  mjraw_PlaneSphere (α := ℝ) con.dist con.pos.1 con.pos.2.1 con.pos.2.2 con.tangent.1 con.tangent.2.1
    con.tangent.2.2 margin p1.1 p1.2.1 p1.2.2 n.1 n.2.1 n.2.2 c2.1 c2.2.1 c2.2.2 r2

noncomputable def sphereCapsule (con : PreCon) (margin : ℝ) (c1 z1 : Vec3) (r1 : ℝ) (p2 a : Vec3)
    (r2 len : ℝ) : RawCon :=
  mjraw_SphereCapsule (α := ℝ) con.dist con.normal.1 con.normal.2.1 con.normal.2.2 con.pos.1 con.pos.2.1
    con.pos.2.2 con.tangent.1 con.tangent.2.1 con.tangent.2.2 margin c1.1 c1.2.1 c1.2.2 z1.1 z1.2.1 z1.2.2
    r1 p2.1 p2.2.1 p2.2.2 a.1 a.2.1 a.2.2 r2 len

noncomputable def clampVec3 (v lim : Vec3) : Vec3 :=
  mju_clampVec3 (α := ℝ) v.1 v.2.1 v.2.2 lim.1 lim.2.1 lim.2.2

/-- (err, frame[0..8]) -/
noncomputable def makeFrame (x y : Vec3) : Int × Mat3 :=
  mju_makeFrame (α := ℝ) x.1 x.2.1 x.2.2 y.1 y.2.1 y.2.2

/-! ### `mju_normalize3` -/

theorem normalize3_fst (v : Vec3) : (normalize3 v).1 = norm3 v := by
  obtain ⟨v0, v1, v2⟩ := v
  simp only [normalize3, mju_normalize3_eq, norm3, dot3]

/-- the result of `mju_normalize3` is a unit vector for every input -/
theorem normalize3_snd_unit (v : Vec3) : dot3 (normalize3 v).2 (normalize3 v).2 = 1 := by
  obtain ⟨v0, v1, v2⟩ := v
  simp only [normalize3, mju_normalize3_eq]
  split_ifs with h
  · simp [dot3]
  · have hn : minval ≤ Real.sqrt (v0*v0 + v1*v1 + v2*v2) := not_lt.mp h
    have hpos : 0 < Real.sqrt (v0*v0 + v1*v1 + v2*v2) := lt_of_lt_of_le minval_pos hn
    have hsq := Real.mul_self_sqrt (sumsq3_nonneg v0 v1 v2)
    simp only [dot3]
    exact unit3_of_div _ _ _ _ hpos hsq

theorem normalize3_snd_of_ge (v : Vec3) (h : minval ≤ norm3 v) :
    (normalize3 v).2 = (v.1 / norm3 v, v.2.1 / norm3 v, v.2.2 / norm3 v) := by
  obtain ⟨v0, v1, v2⟩ := v
  simp only [norm3, dot3] at h
  simp only [normalize3, mju_normalize3_eq, norm3, dot3, if_neg (not_lt.mpr h)]

theorem normalize3_snd_of_lt (v : Vec3) (h : norm3 v < minval) : (normalize3 v).2 = (1, 0, 0) := by
  obtain ⟨v0, v1, v2⟩ := v
  simp only [norm3, dot3] at h
  simp only [normalize3, mju_normalize3_eq, if_pos h]

/-- a unit vector is returned unchanged, with norm 1 -/
theorem normalize3_of_unit (v : Vec3) (h : dot3 v v = 1) : normalize3 v = (1, v) := by
  obtain ⟨v0, v1, v2⟩ := v
  simp only [dot3] at h
  have h1 : ¬ ((1 : ℝ) < minval) := not_lt.mpr minval_lt_one.le
  simp only [normalize3, mju_normalize3_eq, h, Real.sqrt_one, if_neg h1, div_one]

/-! ### `mjraw_SphereSphere` -/

/-- the contact normal of `mjraw_SphereSphere`: the normalised centre difference, or — when the centres
    are within mjMINVAL — the normalised cross product of the two z axes (which `mju_normalize3` itself
    replaces by (1,0,0) when the axes are parallel) -/
noncomputable def ssNormal (c1 z1 c2 z2 : Vec3) : Vec3 :=
  if (normalize3 (sub3 c2 c1)).1 < minval then (normalize3 (cross3 z1 z2)).2
  else (normalize3 (sub3 c2 c1)).2

theorem sphereSphere_eq (con : PreCon) (margin : ℝ) (c1 z1 : Vec3) (r1 : ℝ) (c2 z2 : Vec3) (r2 : ℝ) :
    sphereSphere con margin c1 z1 r1 c2 z2 r2 =
      if (margin + r1 + r2) * (margin + r1 + r2) < dot3 (sub3 c1 c2) (sub3 c1 c2) then con.unchanged
      else
        mkCon (Real.sqrt (dot3 (sub3 c1 c2) (sub3 c1 c2)) - r1 - r2) (ssNormal c1 z1 c2 z2)
          (add3 (scl3 (ssNormal c1 z1 c2 z2)
            (r1 + (Real.sqrt (dot3 (sub3 c1 c2) (sub3 c1 c2)) - r1 - r2) / 2)) c1) := by
  obtain ⟨c10, c11, c12⟩ := c1; obtain ⟨c20, c21, c22⟩ := c2
  obtain ⟨z10, z11, z12⟩ := z1; obtain ⟨z20, z21, z22⟩ := z2
  obtain ⟨cd, ⟨cn0, cn1, cn2⟩, ⟨cp0, cp1, cp2⟩, ⟨ct0, ct1, ct2⟩⟩ := con
  simp only [sphereSphere, mjraw_SphereSphere, mju_dot3, ssNormal, normalize3, sub3, cross3, dot3, add3,
    scl3, mkCon, PreCon.unchanged, real_sqrt, real_ofInt, decide_eq_true_eq, real_lt_iff, ofSci_minval]
  by_cases h0 : (margin + r1 + r2) * (margin + r1 + r2) <
      (c10 - c20) * (c10 - c20) + (c11 - c21) * (c11 - c21) + (c12 - c22) * (c12 - c22) <;>
  by_cases h1 : (mju_normalize3 (c20 - c10) (c21 - c11) (c22 - c12)).1 < minval <;>
  simp [h0, h1]

/-! ### `mjraw_PlaneSphere` -/

theorem planeSphere_eq (con : PreCon) (margin : ℝ) (p1 n c2 : Vec3) (r2 : ℝ) :
    planeSphere con margin p1 n c2 r2 =
      if margin + r2 < dot3 (sub3 c2 p1) n then
        (0, con.dist, n.1, n.2.1, n.2.2, con.pos.1, con.pos.2.1, con.pos.2.2,
          con.tangent.1, con.tangent.2.1, con.tangent.2.2)
      else
        mkCon (dot3 (sub3 c2 p1) n - r2) n
          (add3 c2 (scl3 n (-(dot3 (sub3 c2 p1) n - r2) / 2 - r2))) := by
  obtain ⟨p10, p11, p12⟩ := p1; obtain ⟨c20, c21, c22⟩ := c2; obtain ⟨n0, n1, n2⟩ := n
  obtain ⟨cd, ⟨cn0, cn1, cn2⟩, ⟨cp0, cp1, cp2⟩, ⟨ct0, ct1, ct2⟩⟩ := con
  simp only [planeSphere, mjraw_PlaneSphere, mju_dot3, sub3, dot3, add3, scl3, mkCon, real_ofInt,
    decide_eq_true_eq, real_lt_iff]
  by_cases h0 : margin + r2 < (c20 - p10) * n0 + (c21 - p11) * n1 + (c22 - p12) * n2 <;> simp [h0]

/-! ### `mjraw_SphereCapsule` -/

/-- the generated `mju_clip(x, lo, hi)` on ℝ -/
noncomputable def clip (x lo hi : ℝ) : ℝ := mju_clip (α := ℝ) x lo hi

theorem clip_eq (x lo hi : ℝ) : clip x lo hi = if x < lo then lo else if hi < x then hi else x := by
  simp only [clip, mju_clip, real_lt_iff]

/-- the point of the capsule's segment that `mjraw_SphereCapsule` selects -/
noncomputable def capsulePoint (c1 p2 a : Vec3) (len : ℝ) : Vec3 :=
  add3 (scl3 a (clip (dot3 a (sub3 c1 p2)) (-len) len)) p2

/-- `mjraw_SphereCapsule` is `mjraw_SphereSphere` against the sphere of radius `size2[0]` centred at the
    clamped projection of the sphere centre on the capsule's axis (same z axes passed through) -/
theorem sphereCapsule_eq (con : PreCon) (margin : ℝ) (c1 z1 : Vec3) (r1 : ℝ) (p2 a : Vec3) (r2 len : ℝ) :
    sphereCapsule con margin c1 z1 r1 p2 a r2 len =
      sphereSphere con margin c1 z1 r1 (capsulePoint c1 p2 a len) a r2 := by
  obtain ⟨c10, c11, c12⟩ := c1; obtain ⟨p20, p21, p22⟩ := p2
  obtain ⟨z10, z11, z12⟩ := z1; obtain ⟨a0, a1, a2⟩ := a
  obtain ⟨cd, ⟨cn0, cn1, cn2⟩, ⟨cp0, cp1, cp2⟩, ⟨ct0, ct1, ct2⟩⟩ := con
  rfl

/-! ### `mju_clampVec` (n = 3) -/

theorem clampVec3_eq (v lim : Vec3) :
    clampVec3 v lim =
      (if 0 < lim.1 then clip v.1 (-lim.1) lim.1 else v.1,
       if 0 < lim.2.1 then clip v.2.1 (-lim.2.1) lim.2.1 else v.2.1,
       if 0 < lim.2.2 then clip v.2.2 (-lim.2.2) lim.2.2 else v.2.2) := by
  obtain ⟨v0, v1, v2⟩ := v; obtain ⟨l0, l1, l2⟩ := lim
  simp only [clampVec3, mju_clampVec3, clip, real_ofInt, decide_eq_true_eq, real_lt_iff, Int.cast_zero]

/-! ### scalar facts about clamping -/

theorem clip_mem (x lo hi : ℝ) (h : lo ≤ hi) : lo ≤ clip x lo hi ∧ clip x lo hi ≤ hi := by
  rw [clip_eq]; split_ifs <;> constructor <;> linarith

/-- the clamp is the point of `[lo, hi]` nearest to `x` -/
theorem clip_nearest (x lo hi t : ℝ) (ht : lo ≤ t ∧ t ≤ hi) :
    (clip x lo hi - x) * (clip x lo hi - x) ≤ (t - x) * (t - x) := by
  rw [clip_eq]; split_ifs <;> nlinarith

/-! ### `mju_makeFrame` -/

/-- the y axis after the "undefined y axis" fallback of `mju_makeFrame`, cell by cell as generated -/
noncomputable def frameY (x1 : ℝ) (y : Vec3) : Vec3 :=
  (if dot3 y y < 1 / 4 then 0 else y.1,
   if dot3 y y < 1 / 4 then (if x1 < 1 / 2 ∧ -(1 / 2) < x1 then 1 else 0) else y.2.1,
   if dot3 y y < 1 / 4 then (if x1 < 1 / 2 ∧ -(1 / 2) < x1 then 0 else 1) else y.2.2)

theorem makeFrame_eq (x y : Vec3) :
    makeFrame x y =
      (if (normalize3 x).1 < 1 / 2 then 1 else 0,
       (normalize3 x).2.1, (normalize3 x).2.2.1, (normalize3 x).2.2.2,
       (normalize3 (sub3 (frameY (normalize3 x).2.2.1 y)
          (scl3 (normalize3 x).2 (dot3 (normalize3 x).2 (frameY (normalize3 x).2.2.1 y))))).2.1,
       (normalize3 (sub3 (frameY (normalize3 x).2.2.1 y)
          (scl3 (normalize3 x).2 (dot3 (normalize3 x).2 (frameY (normalize3 x).2.2.1 y))))).2.2.1,
       (normalize3 (sub3 (frameY (normalize3 x).2.2.1 y)
          (scl3 (normalize3 x).2 (dot3 (normalize3 x).2 (frameY (normalize3 x).2.2.1 y))))).2.2.2,
       cross3 (normalize3 x).2 (normalize3 (sub3 (frameY (normalize3 x).2.2.1 y)
          (scl3 (normalize3 x).2 (dot3 (normalize3 x).2 (frameY (normalize3 x).2.2.1 y))))).2) := by
  obtain ⟨x0, x1, x2⟩ := x; obtain ⟨y0, y1, y2⟩ := y
  simp only [makeFrame, mju_makeFrame, mju_dot3, normalize3, frameY, sub3, scl3, dot3, cross3, real_ofInt,
    decide_eq_true_eq, real_lt_iff, ofSci_half, ofSci_quarter, Int.cast_zero, Int.cast_one]
  rfl

/-- Gram–Schmidt + cross product: a unit `X` and a unit `Y` orthogonal to it span a right-handed
    orthonormal frame with `Z = X × Y` -/
theorem frame_of_orthonormal_pair (X Y : Vec3) (hX : dot3 X X = 1) (hY : dot3 Y Y = 1)
    (hXY : dot3 X Y = 0) :
    dot3 (cross3 X Y) (cross3 X Y) = 1 ∧ dot3 X (cross3 X Y) = 0 ∧ dot3 Y (cross3 X Y) = 0 ∧
    matDet (X.1, X.2.1, X.2.2, Y.1, Y.2.1, Y.2.2, (cross3 X Y).1, (cross3 X Y).2.1, (cross3 X Y).2.2) = 1 := by
  obtain ⟨a, b, c⟩ := X; obtain ⟨d, e, f⟩ := Y
  simp only [dot3, cross3, matDet] at *
  have hL : (b*f - c*e)*(b*f - c*e) + (c*d - a*f)*(c*d - a*f) + (a*e - b*d)*(a*e - b*d)
      = (a*a + b*b + c*c) * (d*d + e*e + f*f) - (a*d + b*e + c*f)^2 := by ring
  refine ⟨?_, by ring, by ring, ?_⟩
  · rw [hL, hX, hY, hXY]; ring
  · have : a * (e * (a*e - b*d) - f * (c*d - a*f)) - b * (d * (a*e - b*d) - f * (b*f - c*e))
        + c * (d * (c*d - a*f) - e * (b*f - c*e))
        = (a*a + b*b + c*c) * (d*d + e*e + f*f) - (a*d + b*e + c*f)^2 := by ring
    rw [this, hX, hY, hXY]; ring

/-- the Gram–Schmidt residual of the fallback y axis is never short: its squared length is ≥ 1/4 -/
theorem frameY_residual_ge (x y : Vec3) (hx : dot3 x x = 1) (hy : dot3 y y < 1 / 4) :
    1 / 4 ≤ dot3 (sub3 (frameY x.2.1 y) (scl3 x (dot3 x (frameY x.2.1 y))))
                (sub3 (frameY x.2.1 y) (scl3 x (dot3 x (frameY x.2.1 y)))) := by
  obtain ⟨x0, x1, x2⟩ := x; obtain ⟨y0, y1, y2⟩ := y
  simp only [dot3] at hx hy
  simp only [frameY, dot3, sub3, scl3, hy, ↓reduceIte]
  by_cases hc : x1 < 1 / 2 ∧ -(1 / 2) < x1
  · simp only [hc, and_self, ↓reduceIte]
    nlinarith [hc.1, hc.2, mul_self_nonneg x0, mul_self_nonneg x2]
  · simp only [hc, ↓reduceIte]
    have h1 : 1 / 4 ≤ x1 * x1 := by
      rcases not_and_or.mp hc with h | h
      · nlinarith [not_lt.mp h]
      · nlinarith [not_lt.mp h]
    nlinarith [mul_self_nonneg x0, mul_self_nonneg x2]

/-! ### projections of the result records -/

@[simp] theorem mkCon_ret (d : ℝ) (n p : Vec3) : (mkCon d n p).ret = 1 := rfl
@[simp] theorem mkCon_dist (d : ℝ) (n p : Vec3) : (mkCon d n p).dist = d := rfl
@[simp] theorem mkCon_normal (d : ℝ) (n p : Vec3) : (mkCon d n p).normal = n := rfl
@[simp] theorem mkCon_pos (d : ℝ) (n p : Vec3) : (mkCon d n p).pos = p := rfl
@[simp] theorem mkCon_tangent (d : ℝ) (n p : Vec3) : (mkCon d n p).tangent = (0, 0, 0) := rfl
@[simp] theorem unchanged_ret (c : PreCon) : c.unchanged.ret = 0 := rfl

def row0 (m : Mat3) : Vec3 := (m.1, m.2.1, m.2.2.1)
def row1 (m : Mat3) : Vec3 := (m.2.2.2.1, m.2.2.2.2.1, m.2.2.2.2.2.1)
def row2 (m : Mat3) : Vec3 := (m.2.2.2.2.2.2.1, m.2.2.2.2.2.2.2.1, m.2.2.2.2.2.2.2.2)

/-- the rows of `m` are an orthonormal basis -/
def Orthonormal (m : Mat3) : Prop :=
  dot3 (row0 m) (row0 m) = 1 ∧ dot3 (row1 m) (row1 m) = 1 ∧ dot3 (row2 m) (row2 m) = 1 ∧
  dot3 (row0 m) (row1 m) = 0 ∧ dot3 (row0 m) (row2 m) = 0 ∧ dot3 (row1 m) (row2 m) = 0

end MjProof.Collide
