import MjProof.Model.LRSlices
/- Helper lemmas about `Model/LRSlices.lean`. -/
set_option linter.unusedVariables false
namespace MjProof.LRSlices

theorem numLoop_ge (n t : Nat) : ∀ (fuel num : Nat), n ≤ (num + fuel) * t → n ≤ numLoop n t fuel num * t := by
  intro fuel
  induction fuel with
  | zero => intro num h; simpa [numLoop] using h
  | succ f ih =>
    intro num h
    unfold numLoop
    by_cases hlt : num * t < n
    · rw [if_pos hlt]
      apply ih
      have : num + 1 + f = num + (f + 1) := by omega
      rw [this]; exact h
    · rw [if_neg hlt]; omega

theorem mem_slice (n num i j : Nat) : j ∈ slice n num i ↔ i * num ≤ j ∧ j < i * num + num ∧ j < n := by
  unfold slice
  simp only [List.mem_filter, List.mem_map, List.mem_range, decide_eq_true_eq]
  constructor
  · rintro ⟨⟨k, hk, rfl⟩, hn⟩
    exact ⟨by omega, by omega, hn⟩
  · rintro ⟨h1, h2, h3⟩
    exact ⟨⟨j - i * num, by omega, by omega⟩, h3⟩

end MjProof.LRSlices
