import MjProof.Model.ThreadPool
/-
Invariant of the thread-pool transition system (`MjProof/Model/ThreadPool.lean`) and its preservation
by every step.  Core Lean only.
-/
namespace MjProof.ThreadPool

/-! ### finite sums over worker ids `1..N` -/

theorem sumTo_congr {f g : Nat → Nat} {N : Nat} (h : ∀ i, 1 ≤ i → i ≤ N → f i = g i) :
    sumTo f N = sumTo g N := by
  induction N with
  | zero => rfl
  | succ n ih =>
    simp only [sumTo]
    rw [ih (fun i h1 h2 => h i h1 (by omega)), h (n + 1) (by omega) (by omega)]

theorem sumTo_update {f g : Nat → Nat} {N i : Nat} (hi1 : 1 ≤ i) (hiN : i ≤ N)
    (h : ∀ j, j ≠ i → g j = f j) : sumTo g N + f i = sumTo f N + g i := by
  induction N with
  | zero => omega
  | succ n ih =>
    simp only [sumTo]
    by_cases hin : i = n + 1
    · subst hin
      have : sumTo g n = sumTo f n := sumTo_congr (fun j _ h2 => h j (by omega))
      omega
    · have := ih (by omega)
      have := h (n + 1) (by omega)
      omega

theorem sumTo_le {f : Nat → Nat} (h : ∀ i, f i ≤ 1) (N : Nat) : sumTo f N ≤ N := by
  induction N with
  | zero => simp [sumTo]
  | succ n ih => simp only [sumTo]; have := h (n + 1); omega

theorem sumTo_zero {f : Nat → Nat} {N : Nat} (h : ∀ i, 1 ≤ i → i ≤ N → f i = 0) : sumTo f N = 0 := by
  induction N with
  | zero => rfl
  | succ n ih =>
    simp only [sumTo]
    rw [ih (fun i h1 h2 => h i h1 (by omega)), h (n + 1) (by omega) (by omega)]

theorem exists_zero_of_sumTo_lt {f : Nat → Nat} (h1 : ∀ i, f i ≤ 1) {N : Nat} (h : sumTo f N < N) :
    ∃ i, 1 ≤ i ∧ i ≤ N ∧ f i = 0 := by
  induction N with
  | zero => simp [sumTo] at h
  | succ n ih =>
    simp only [sumTo] at h
    by_cases hz : f (n + 1) = 0
    · exact ⟨n + 1, by omega, by omega, hz⟩
    · have := h1 (n + 1)
      obtain ⟨i, a, b, c⟩ := ih (by omega)
      exact ⟨i, a, by omega, c⟩

theorem all_one_of_le_sumTo {f : Nat → Nat} (h1 : ∀ i, f i ≤ 1) {N : Nat} (h : N ≤ sumTo f N) :
    ∀ i, 1 ≤ i → i ≤ N → f i = 1 := by
  intro i hi1 hiN
  by_cases hz : f i = 1
  · exact hz
  · exfalso
    have h0 : f i = 0 := by have := h1 i; omega
    -- replace f i by 1: the sum grows by one, but is still at most N
    have hg : ∀ j, (fun j => if j = i then 1 else f j) j ≤ 1 := by
      intro j; show (if j = i then 1 else f j) ≤ 1; split <;> simp [h1]
    have hu := sumTo_update (f := f) (g := fun j => if j = i then 1 else f j) hi1 hiN
      (by intro j hj; simp [hj])
    have := sumTo_le hg N
    simp only [if_true] at hu
    omega

/-! ### the invariant -/

inductive Phase where
  | none                                   -- no pool object
  | spawning (i : Nat)                     -- constructor running; threads `< i` exist
  | quiet                                  -- pool exists, no batch in flight
  | batch (np : Bool)                      -- `signal_` flipped; `np`: the `notify_all` is still to come
  | destroying (np : Bool) (j : Nat)       -- `signal_ = 0`; threads `< j` joined

def phase (s : State) : Phase :=
  match s.mpc with
  | .idle => if s.alive then .quiet else .none
  | .serial _ => if s.alive then .quiet else .none
  | .spawn i => .spawning i
  | .dNext => .quiet
  | .dNdone => .quiet
  | .dSigLoad => .quiet
  | .dSigStore _ => .quiet
  | .dNotify => .batch true
  | .dFetch => .batch false
  | .dExec _ => .batch false
  | .dSpin => .batch false
  | .delStore _ => .quiet
  | .delNotify _ => .destroying true 1
  | .delJoin j _ => .destroying false j

/-- what may be said about worker `idx` in each phase -/
def WOK (ph : Phase) (sig : Int) (idx : Nat) (x : Worker) : Prop :=
  match ph with
  | .none => x.pc = .unborn
  | .spawning i =>
    if idx < i then (x.pc = .wait ∨ x.pc = .sleep) ∧ x.status = sig else x.pc = .unborn
  | .quiet => (x.pc = .wait ∨ x.pc = .sleep) ∧ x.status = sig
  | .batch np =>
    match x.pc with
    | .wait => x.status = sig ∨ x.status = -sig            -- finished the batch / not yet in it
    | .sleep => x.status = sig ∨ (x.status = -sig ∧ np = true)
    | .load => True
    | .fetch => x.status = sig
    | .exec _ => x.status = sig
    | .fin => x.status = sig
    | .unborn => False
    | .halted => False
  | .destroying np j =>
    if idx < j then x.pc = .unborn else
    match x.pc with
    | .wait => x.status ≠ 0
    | .sleep => x.status ≠ 0 ∧ np = true
    | .load => True
    | .halted => True
    | .unborn => False
    | .fetch => False
    | .exec _ => False
    | .fin => False

/-- worker `i` has finished the current batch (it is counted in `ndone_`) -/
def post (s : State) (i : Nat) : Prop :=
  ((s.w i).pc = .wait ∨ (s.w i).pc = .sleep) ∧ (s.w i).status = s.signal

instance (s : State) (i : Nat) : Decidable (post s i) := by unfold post; infer_instance

def postCount (s : State) : Nat := sumTo (fun i => if post s i then 1 else 0) s.N

/-- some thread is inside the task function for task `t` -/
def held (s : State) (t : Nat) : Prop := s.mpc = .dExec t ∨ ∃ i, (s.w i).pc = .exec t

/-- ownership of the task ids handed out by `next_.fetch_add` in the current batch -/
structure Own (s : State) : Prop where
  le_one : ∀ t, s.execCnt t ≤ 1
  held_m : ∀ t, s.mpc = .dExec t → s.execCnt t = 0 ∧ t < s.next ∧ t < s.reqN
  held_w : ∀ t i, (s.w i).pc = .exec t → s.execCnt t = 0 ∧ t < s.next ∧ t < s.reqN
  claimed : ∀ t, t < s.next → t < s.reqN → s.execCnt t = 1 ∨ held s t
  ran : ∀ t, 0 < s.execCnt t → t < s.next ∧ t < s.reqN ∧ s.execBy t ≤ s.N
  uniq : ∀ i j t, (s.w i).pc = .exec t → (s.w j).pc = .exec t → i = j
  uniq0 : ∀ i t, s.mpc = .dExec t → (s.w i).pc ≠ .exec t

def Done (s : State) : Prop := ∀ t, s.execCnt t = if t < s.reqN then 1 else 0

def PoolOK (s : State) : Prop := 1 ≤ s.N ∧ (s.signal = 1 ∨ s.signal = -1)

def Fresh (s : State) : Prop := ∀ t, s.execCnt t = 0

def BatchOK (s : State) : Prop :=
  s.alive = true ∧ PoolOK s ∧ s.ntask = s.reqN ∧ s.ndone = postCount s ∧ Own s

def PreOK (s : State) : Prop := s.alive = true ∧ PoolOK s ∧ s.ntask = s.reqN ∧ Fresh s

def Glob (s : State) : Prop :=
  match s.mpc with
  | .idle => Done s ∧ (if s.alive then PoolOK s else s.N = 0)
  | .serial i =>
    i < s.reqN ∧ (∀ t, s.execCnt t = if t < i then 1 else 0) ∧ (∀ t, s.execBy t = 0) ∧
      (if s.alive then PoolOK s else s.N = 0)
  | .spawn i => Done s ∧ 1 ≤ i ∧ i ≤ s.N ∧ s.signal = 1 ∧ s.alive = false
  | .dNext => PreOK s
  | .dNdone => PreOK s ∧ s.next = 0
  | .dSigLoad => PreOK s ∧ s.next = 0 ∧ s.ndone = 0
  | .dSigStore v => PreOK s ∧ s.next = 0 ∧ s.ndone = 0 ∧ v = -s.signal
  | .dNotify => BatchOK s
  | .dFetch => BatchOK s
  | .dExec _ => BatchOK s
  | .dSpin => BatchOK s ∧ s.reqN < s.next
  | .delStore _ => Done s ∧ s.alive = true ∧ PoolOK s
  | .delNotify _ => Done s ∧ 1 ≤ s.N ∧ s.signal = 0
  | .delJoin j _ => Done s ∧ 1 ≤ j ∧ j ≤ s.N ∧ s.signal = 0

structure Inv (s : State) : Prop where
  outside : ∀ i, (i = 0 ∨ s.N < i) → (s.w i).pc = .unborn
  workers : ∀ i, 1 ≤ i → i ≤ s.N → WOK (phase s) s.signal i (s.w i)
  glob : Glob s

theorem inv_init : Inv init := by
  refine ⟨?_, ?_, ?_⟩
  · intro i _; rfl
  · intro i h1 h2; simp [init] at h2; omega
  · simp [Glob, init, Done]

/-! ### preservation of the batch part -/

theorem postCount_setW {s : State} {i : Nat} {x : Worker} (hi1 : 1 ≤ i) (hiN : i ≤ s.N) :
    postCount (setW s i x) + (if post s i then 1 else 0)
      = postCount s + (if (x.pc = .wait ∨ x.pc = .sleep) ∧ x.status = s.signal then 1 else 0) := by
  unfold postCount
  have := sumTo_update (f := fun j => if post s j then 1 else 0)
    (g := fun j => if post (setW s i x) j then 1 else 0) hi1 hiN (by intro j hj; simp [post, setW, hj])
  simpa [post, setW] using this

theorem own_setW_nonexec {s : State} {i : Nat} {x : Worker} (h : Own s)
    (h1 : ∀ t, (s.w i).pc ≠ .exec t) (h2 : ∀ t, x.pc ≠ .exec t) : Own (setW s i x) := by
  obtain ⟨a1, a2, a2w, a3, a4, a5, a6⟩ := h
  constructor
  all_goals simp only [held, setW] at *
  all_goals grind

/-- a worker step that neither enters nor leaves the task function and does not change whether the
    worker is counted in `ndone_` -/
theorem batch_setW_frame {s : State} {i : Nat} {x : Worker} (h : BatchOK s) (hi : 1 ≤ i ∧ i ≤ s.N)
    (h1 : ∀ t, (s.w i).pc ≠ .exec t) (h2 : ∀ t, x.pc ≠ .exec t)
    (hp : post s i ↔ ((x.pc = .wait ∨ x.pc = .sleep) ∧ x.status = s.signal)) :
    BatchOK (setW s i x) := by
  obtain ⟨b1, b2, b3, b4, b5⟩ := h
  refine ⟨b1, b2, b3, ?_, own_setW_nonexec b5 h1 h2⟩
  have := postCount_setW (s := s) (x := x) hi.1 hi.2
  show s.ndone = _
  by_cases hq : post s i
  · rw [if_pos hq, if_pos (hp.mp hq)] at this; omega
  · rw [if_neg hq, if_neg (fun h => hq (hp.mpr h))] at this; omega

theorem batch_wfetch_succ {s : State} {i : Nat} (h : BatchOK s) (hi : 1 ≤ i ∧ i ≤ s.N)
    (hpc : (s.w i).pc = .fetch) (hlt : s.next < s.ntask) :
    BatchOK { setW s i ⟨.exec s.next, (s.w i).status⟩ with next := s.next + 1 } := by
  obtain ⟨b1, b2, b3, b4, b5⟩ := h
  refine ⟨b1, b2, b3, ?_, ?_⟩
  · have := postCount_setW (s := s) (x := ⟨.exec s.next, (s.w i).status⟩) hi.1 hi.2
    simp [post, hpc] at this
    show s.ndone = postCount (setW s i _)
    omega
  · obtain ⟨a1, a2, a2w, a3, a4, a5, a6⟩ := b5
    constructor
    all_goals simp only [held, setW] at *
    all_goals grind

theorem batch_wfetch_fail {s : State} {i : Nat} (h : BatchOK s) (hi : 1 ≤ i ∧ i ≤ s.N)
    (hpc : (s.w i).pc = .fetch) (hst : (s.w i).status = s.signal) (hlt : ¬ s.next < s.ntask) :
    BatchOK { setW s i ⟨.fin, (s.w i).status⟩ with next := s.next + 1 } := by
  obtain ⟨b1, b2, b3, b4, b5⟩ := h
  refine ⟨b1, b2, b3, ?_, ?_⟩
  · have := postCount_setW (s := s) (x := ⟨.fin, (s.w i).status⟩) hi.1 hi.2
    simp [post, hpc] at this
    show s.ndone = postCount (setW s i _)
    omega
  · obtain ⟨a1, a2, a2w, a3, a4, a5, a6⟩ := b5
    constructor
    all_goals simp only [held, setW] at *
    all_goals grind

theorem batch_wexec {s : State} {i t : Nat} (h : BatchOK s) (hi : 1 ≤ i ∧ i ≤ s.N)
    (hpc : (s.w i).pc = .exec t) :
    BatchOK { setW s i ⟨.fetch, (s.w i).status⟩ with
      execCnt := fun u => if u = t then s.execCnt u + 1 else s.execCnt u,
      execBy := fun u => if u = t then i else s.execBy u } := by
  obtain ⟨b1, b2, b3, b4, b5⟩ := h
  refine ⟨b1, b2, b3, ?_, ?_⟩
  · have := postCount_setW (s := s) (x := ⟨.fetch, (s.w i).status⟩) hi.1 hi.2
    simp [post, hpc] at this
    show s.ndone = postCount (setW s i _)
    omega
  · obtain ⟨a1, a2, a2w, a3, a4, a5, a6⟩ := b5
    constructor
    all_goals simp only [held, setW] at *
    all_goals grind

theorem batch_wfin {s : State} {i : Nat} (h : BatchOK s) (hi : 1 ≤ i ∧ i ≤ s.N)
    (hpc : (s.w i).pc = .fin) (hst : (s.w i).status = s.signal) :
    BatchOK { setW s i ⟨.wait, (s.w i).status⟩ with ndone := s.ndone + 1 } := by
  obtain ⟨b1, b2, b3, b4, b5⟩ := h
  refine ⟨b1, b2, b3, ?_, ?_⟩
  · have := postCount_setW (s := s) (x := ⟨.wait, (s.w i).status⟩) hi.1 hi.2
    simp only [post, hpc, hst, true_or, and_self, if_true] at this
    show s.ndone + 1 = postCount (setW s i ⟨.wait, (s.w i).status⟩)
    simp only [hst]
    simp at this
    omega
  · obtain ⟨a1, a2, a2w, a3, a4, a5, a6⟩ := b5
    constructor
    all_goals simp only [held, setW] at *
    all_goals grind

/-- `signal_.store(-signal_)`: the batch starts, nobody has finished it, nothing is claimed -/
theorem batch_enter {s : State} {v : Int} (h : PreOK s) (hn : s.next = 0) (hd : s.ndone = 0)
    (hv : v = -s.signal)
    (hw : ∀ i, 1 ≤ i → i ≤ s.N → ((s.w i).pc = .wait ∨ (s.w i).pc = .sleep) ∧ (s.w i).status = s.signal)
    (ho : ∀ i, (i = 0 ∨ s.N < i) → (s.w i).pc = .unborn) :
    BatchOK { s with mpc := .dNotify, signal := v } := by
  obtain ⟨p1, p2, p3, p4⟩ := h
  have hex : ∀ i t, (s.w i).pc ≠ .exec t := by
    intro i t
    by_cases hi : 1 ≤ i ∧ i ≤ s.N
    · have := (hw i hi.1 hi.2).1; grind
    · have := ho i (by omega); grind
  refine ⟨p1, ⟨p2.1, by have := p2.2; show v = 1 ∨ v = -1; omega⟩, p3, ?_, ?_⟩
  · show s.ndone = sumTo _ s.N
    rw [hd, sumTo_zero]
    intro i h1 h2
    have := (hw i h1 h2).2
    have := p2.2
    simp only [post]
    have hne : ¬ (((s.w i).pc = .wait ∨ (s.w i).pc = .sleep) ∧ (s.w i).status = v) := by
      intro hc
      have := hc.2
      omega
    simp [hne]
  · simp only [Fresh] at p4
    constructor
    all_goals simp only [held] at *
    all_goals grind

theorem batch_wake {s : State} (h : BatchOK s) (hm : s.mpc = .dNotify) :
    BatchOK { wakeAll s with mpc := .dFetch } := by
  obtain ⟨b1, b2, b3, b4, b5⟩ := h
  refine ⟨b1, b2, b3, ?_, ?_⟩
  · show s.ndone = sumTo _ s.N
    rw [b4]
    apply sumTo_congr
    intro i _ _
    simp only [post, wakeAll]
    grind
  · obtain ⟨a1, a2, a2w, a3, a4, a5, a6⟩ := b5
    constructor
    all_goals simp only [held, wakeAll] at *
    all_goals grind

theorem batch_mfetch_succ {s : State} (h : BatchOK s) (hm : s.mpc = .dFetch) (hlt : s.next < s.ntask) :
    BatchOK { s with mpc := .dExec s.next, next := s.next + 1 } := by
  obtain ⟨b1, b2, b3, b4, b5⟩ := h
  refine ⟨b1, b2, b3, b4, ?_⟩
  obtain ⟨a1, a2, a2w, a3, a4, a5, a6⟩ := b5
  constructor
  all_goals simp only [held] at *
  all_goals grind

theorem batch_mfetch_fail {s : State} (h : BatchOK s) (hm : s.mpc = .dFetch) (hlt : ¬ s.next < s.ntask) :
    BatchOK { s with mpc := .dSpin, next := s.next + 1 } := by
  obtain ⟨b1, b2, b3, b4, b5⟩ := h
  refine ⟨b1, b2, b3, b4, ?_⟩
  obtain ⟨a1, a2, a2w, a3, a4, a5, a6⟩ := b5
  constructor
  all_goals simp only [held] at *
  all_goals grind

theorem batch_mexec {s : State} {t : Nat} (h : BatchOK s) (hm : s.mpc = .dExec t) :
    BatchOK { s with
      mpc := .dFetch
      execCnt := fun u => if u = t then s.execCnt u + 1 else s.execCnt u
      execBy := fun u => if u = t then 0 else s.execBy u } := by
  obtain ⟨b1, b2, b3, b4, b5⟩ := h
  refine ⟨b1, b2, b3, b4, ?_⟩
  obtain ⟨a1, a2, a2w, a3, a4, a5, a6⟩ := b5
  constructor
  all_goals simp only [held] at *
  all_goals grind

/-- `ndone_ >= nthread` is read: every worker has finished the batch and every task ran exactly once -/
theorem batch_complete {s : State} (h : BatchOK s) (hm : s.mpc = .dSpin) (hn : s.reqN < s.next)
    (hd : ¬ s.ndone < s.N) (ho : ∀ i, (i = 0 ∨ s.N < i) → (s.w i).pc = .unborn) :
    (∀ i, 1 ≤ i → i ≤ s.N → post s i) ∧ Done s ∧ (∀ t, t < s.reqN → s.execBy t ≤ s.N) ∧
      (∀ i t, (s.w i).pc ≠ .exec t) := by
  obtain ⟨b1, b2, b3, b4, b5⟩ := h
  have hall := all_one_of_le_sumTo (f := fun i => if post s i then 1 else 0)
    (by intro i; show (if post s i then 1 else 0) ≤ 1; split <;> simp) (N := s.N)
    (by unfold postCount at b4; omega)
  have hpost : ∀ i, 1 ≤ i → i ≤ s.N → post s i := by
    intro i h1 h2
    have := hall i h1 h2
    by_cases hp : post s i
    · exact hp
    · simp [hp] at this
  have hnoexec : ∀ i t, (s.w i).pc ≠ .exec t := by
    intro i t hc
    by_cases hi : 1 ≤ i ∧ i ≤ s.N
    · have := (hpost i hi.1 hi.2).1; grind
    · have := ho i (by omega); grind
  obtain ⟨a1, a2, a2w, a3, a4, a5, a6⟩ := b5
  refine ⟨hpost, ?_, ?_, hnoexec⟩
  · intro t
    by_cases ht : t < s.reqN
    · simp only [ht, if_true]
      rcases a3 t (by omega) ht with h | h | ⟨i, h⟩
      · exact h
      · simp [hm] at h
      · exact absurd h (hnoexec i t)
    · simp only [ht, if_false]
      have := a4 t
      omega
  · intro t ht
    rcases a3 t (by omega) ht with h | h | ⟨i, h⟩
    · exact (a4 t (by omega)).2.2
    · simp [hm] at h
    · exact absurd h (hnoexec i t)

/-! ### every step preserves the invariant -/

set_option linter.unusedSimpArgs false

theorem inv_call {s s' : State} {c : Api} {evs : List Ev} (h : Inv s)
    (hs : step s (.call c) = some (s', evs)) : Inv s' := by
  obtain ⟨ho, hw, hg⟩ := h
  simp only [step] at hs
  split at hs
  · rename_i hidle
    simp only [Glob, hidle] at hg
    simp only [phase, hidle] at hw
    cases c with
    | threadpool k =>
      simp only [stepCall, beginCreate] at hs
      repeat' split at hs
      all_goals (simp at hs; obtain ⟨rfl, _⟩ := hs)
      all_goals refine ⟨?_, ?_, ?_⟩
      all_goals first
        | (intro i hi; simp; grind)
        | (intro i h1 h2; simp [phase, WOK, hidle] at *; grind)
        | (simp [Glob, Done, numThread, PreOK, Fresh, PoolOK, hidle] at *; grind)
    | dispatch n => 
      simp only [stepCall] at hs
      repeat' split at hs
      all_goals (simp at hs; obtain ⟨rfl, _⟩ := hs)
      all_goals refine ⟨?_, ?_, ?_⟩
      all_goals first
        | (intro i hi; simp; grind)
        | (intro i h1 h2; simp [phase, WOK, hidle] at *; grind)
        | (simp [Glob, Done, numThread, PreOK, Fresh, PoolOK, hidle] at *; grind)
  · simp at hs

theorem inv_main {s s' : State} {evs : List Ev} (h : Inv s)
    (hs : step s .main = some (s', evs)) : Inv s' := by
  obtain ⟨ho, hw, hg⟩ := h
  simp only [step, stepMain, beginCreate] at hs
  split at hs
  all_goals rename_i hpc
  all_goals simp only [Glob, hpc] at hg
  all_goals simp only [phase, hpc] at hw
  case h_6 v =>
    simp at hs; obtain ⟨rfl, _⟩ := hs
    have hb := batch_enter hg.1 hg.2.1 hg.2.2.1 hg.2.2.2 (by simpa [WOK] using hw) ho
    refine ⟨ho, ?_, by simpa [Glob] using hb⟩
    intro i h1 h2
    have := hw i h1 h2
    have := hg.1.2.1.2
    simp [phase, WOK] at *
    grind
  case h_7 =>
    simp at hs; obtain ⟨rfl, _⟩ := hs
    have hb := batch_wake hg hpc
    refine ⟨?_, ?_, by simpa [Glob] using hb⟩
    · intro i hi; simp [wakeAll] at hi ⊢; grind
    · intro i h1 h2; have := hw i h1 h2; simp [phase, WOK, wakeAll] at *; grind
  case h_8 =>
    split at hs
    · rename_i hlt
      simp at hs; obtain ⟨rfl, _⟩ := hs
      have hb := batch_mfetch_succ hg hpc hlt
      exact ⟨ho, by simpa [phase] using hw, by simpa [Glob] using hb⟩
    · rename_i hlt
      simp at hs; obtain ⟨rfl, _⟩ := hs
      have hb := batch_mfetch_fail hg hpc hlt
      refine ⟨ho, by simpa [phase] using hw, ?_⟩
      have := hg.2.2.1
      simp only [Glob]
      exact ⟨hb, by show s.reqN < s.next + 1; omega⟩
  case h_9 t =>
    simp at hs; obtain ⟨rfl, _⟩ := hs
    have hb := batch_mexec hg hpc
    exact ⟨ho, by simpa [phase] using hw, by simpa [Glob] using hb⟩
  case h_10 =>
    split at hs
    · simp at hs; obtain ⟨rfl, _⟩ := hs
      exact ⟨ho, by simpa [phase, hpc] using hw, by simpa [Glob, hpc] using hg⟩
    · rename_i hd
      simp at hs; obtain ⟨rfl, _⟩ := hs
      obtain ⟨hp, hdone, _, _⟩ := batch_complete hg.1 hpc hg.2 hd ho
      obtain ⟨b1, b2, _⟩ := hg.1
      refine ⟨ho, ?_, ?_⟩
      · intro i h1 h2
        have := hp i h1 h2
        simp [phase, b1, WOK, post] at *
        exact this
      · simp [Glob, b1]
        exact ⟨hdone, b2⟩
  all_goals try (repeat' split at hs)
  all_goals try (simp at hs; done)
  all_goals (try (simp at hs; obtain ⟨rfl, _⟩ := hs))
  all_goals refine ⟨?_, ?_, ?_⟩
  all_goals try first
      | (intro i hi; simp [setW, wakeAll]; grind)
      | (intro i hi; have hwi := hw i; have hoi := ho i; simp [setW, wakeAll, WOK] at *; grind)
      | (intro i h1 h2; simp [phase, WOK, hpc, setW, wakeAll, PoolOK, PreOK, BatchOK] at *; grind)
      | (simp [Glob, Done, numThread, PreOK, Fresh, PoolOK, hpc, setW, wakeAll] at *; grind)

def inBatch (s : State) : Prop := phase s = .batch true ∨ phase s = .batch false

theorem glob_batch_frame {s s' : State} (hm : s'.mpc = s.mpc) (hn : s.next ≤ s'.next)
    (hr : s'.reqN = s.reqN) (hg : Glob s) (hin : inBatch s) (hb : BatchOK s → BatchOK s') : Glob s' := by
  unfold Glob at hg ⊢
  rw [hm]
  cases hmm : s.mpc <;> simp only [hmm, inBatch, phase] at hg hin ⊢
  all_goals try (split at hin <;> simp at hin)
  all_goals try simp at hin
  · exact hb hg
  · exact hb hg
  · exact hb hg
  · exact ⟨hb hg.1, by omega⟩

macro "batch_frame " s:ident hg0:ident hm:ident " with " t:term : tactic =>
  `(tactic| (apply glob_batch_frame (s := $s) (hg := $hg0) <;>
      first | rfl | (simp [setW]; done) | (simp [inBatch, phase, $hm:ident]; done) | exact $t))

theorem inv_worker_load {s s' : State} {i : Nat} {evs : List Ev} (h : Inv s)
    (hi : 1 ≤ i ∧ i ≤ s.N) (hpc : (s.w i).pc = .load)
    (hs : (if s.signal = 0 then some (setW s i ⟨.halted, s.signal⟩, [Ev.load i .signal s.signal])
      else some (setW s i ⟨.fetch, s.signal⟩, [Ev.load i .signal s.signal])) = some (s', evs)) : Inv s' := by
  obtain ⟨ho, hw, hg⟩ := h
  have hwi := hw i hi.1 hi.2
  have hg0 := hg
  split at hs
  all_goals rename_i hsig
  all_goals (simp at hs; obtain ⟨rfl, _⟩ := hs)
  all_goals (cases hm : s.mpc <;> simp only [Glob, phase, hm, WOK, hpc] at hg hw hwi)
  all_goals try (split at hwi <;> simp at hwi; done)
  all_goals try (simp at hwi; done)
  all_goals try (cases ha : s.alive <;> simp [ha] at hwi; done)
  all_goals refine ⟨?_, ?_, ?_⟩
  all_goals try first
      | (intro j hj; simp [setW] at hj ⊢; grind)
      | (intro j h1 h2; simp [phase, WOK, hm, setW, PoolOK, PreOK, BatchOK] at *; grind)
      | (simp [Glob, Done, numThread, PreOK, Fresh, PoolOK, hm, setW] at *; grind)
  all_goals first
      | batch_frame s hg0 hm with (fun hb => batch_setW_frame (i := i) (x := ⟨.fetch, s.signal⟩) hb hi (by simp [hpc]) (by simp)
            (by simp [post, hpc]))
      | (exfalso; simp [BatchOK, PoolOK] at hg; grind)

theorem inv_worker_fetch {s s' : State} {i : Nat} {evs : List Ev} (h : Inv s)
    (hi : 1 ≤ i ∧ i ≤ s.N) (hpc : (s.w i).pc = .fetch)
    (hs : (if s.next < s.ntask then
      some ({ setW s i ⟨.exec s.next, (s.w i).status⟩ with next := s.next + 1 }, [Ev.fadd i .next s.next])
    else some ({ setW s i ⟨.fin, (s.w i).status⟩ with next := s.next + 1 }, [Ev.fadd i .next s.next]))
      = some (s', evs)) : Inv s' := by
  obtain ⟨ho, hw, hg⟩ := h
  have hwi := hw i hi.1 hi.2
  have hg0 := hg
  split at hs
  all_goals rename_i hlt
  all_goals (simp at hs; obtain ⟨rfl, _⟩ := hs)
  all_goals (cases hm : s.mpc <;> simp only [Glob, phase, hm, WOK, hpc] at hg hw hwi)
  all_goals try (split at hwi <;> simp at hwi; done)
  all_goals try (simp at hwi; done)
  all_goals try (cases ha : s.alive <;> simp [ha] at hwi; done)
  all_goals refine ⟨?_, ?_, ?_⟩
  all_goals try first
      | (intro j hj; simp [setW] at hj ⊢; grind)
      | (intro j h1 h2; simp [phase, WOK, hm, setW, PoolOK, PreOK, BatchOK] at *; grind)
  all_goals first
      | batch_frame s hg0 hm with (fun hb => batch_wfetch_succ hb hi hpc hlt)
      | batch_frame s hg0 hm with (fun hb => batch_wfetch_fail hb hi hpc hwi hlt)

theorem inv_worker_exec {s s' : State} {i t : Nat} {evs : List Ev} (h : Inv s)
    (hi : 1 ≤ i ∧ i ≤ s.N) (hpc : (s.w i).pc = .exec t)
    (hs : some ({ setW s i ⟨.fetch, (s.w i).status⟩ with
              execCnt := fun u => if u = t then s.execCnt u + 1 else s.execCnt u,
              execBy := fun u => if u = t then i else s.execBy u }, [Ev.exec i i t]) = some (s', evs)) :
    Inv s' := by
  obtain ⟨ho, hw, hg⟩ := h
  have hwi := hw i hi.1 hi.2
  have hg0 := hg
  simp at hs; obtain ⟨rfl, _⟩ := hs
  cases hm : s.mpc <;> simp only [Glob, phase, hm, WOK, hpc] at hg hw hwi
  all_goals try (split at hwi <;> simp at hwi; done)
  all_goals try (simp at hwi; done)
  all_goals try (cases ha : s.alive <;> simp [ha] at hwi; done)
  all_goals refine ⟨?_, ?_, ?_⟩
  all_goals try first
      | (intro j hj; simp [setW] at hj ⊢; grind)
      | (intro j h1 h2; simp [phase, WOK, hm, setW, PoolOK, PreOK, BatchOK] at *; grind)
  all_goals batch_frame s hg0 hm with (fun hb => batch_wexec hb hi hpc)

theorem inv_worker_fin {s s' : State} {i : Nat} {evs : List Ev} (h : Inv s)
    (hi : 1 ≤ i ∧ i ≤ s.N) (hpc : (s.w i).pc = .fin)
    (hs : some ({ setW s i ⟨.wait, (s.w i).status⟩ with ndone := s.ndone + 1 }, [Ev.fadd i .ndone s.ndone])
      = some (s', evs)) : Inv s' := by
  obtain ⟨ho, hw, hg⟩ := h
  have hwi := hw i hi.1 hi.2
  have hg0 := hg
  simp at hs; obtain ⟨rfl, _⟩ := hs
  cases hm : s.mpc <;> simp only [Glob, phase, hm, WOK, hpc] at hg hw hwi
  all_goals try (split at hwi <;> simp at hwi; done)
  all_goals try (simp at hwi; done)
  all_goals try (cases ha : s.alive <;> simp [ha] at hwi; done)
  all_goals refine ⟨?_, ?_, ?_⟩
  all_goals try first
      | (intro j hj; simp [setW] at hj ⊢; grind)
      | (intro j h1 h2; simp [phase, WOK, hm, setW, PoolOK, PreOK, BatchOK] at *; grind)
  all_goals batch_frame s hg0 hm with (fun hb => batch_wfin hb hi hpc hwi)

theorem inv_spurious {s s' : State} {i : Nat} {evs : List Ev} (h : Inv s)
    (hs : step s (.spurious i) = some (s', evs)) : Inv s' := by
  simp only [step, stepSpurious] at hs
  split at hs
  · rename_i hpc
    obtain ⟨ho, hw, hg⟩ := h
    have hi : 1 ≤ i ∧ i ≤ s.N := by
      by_cases hc : 1 ≤ i ∧ i ≤ s.N
      · exact hc
      · have := ho i (by omega)
        simp [this] at hpc
    have hwi := hw i hi.1 hi.2
    have hg0 := hg
    simp at hs; obtain ⟨rfl, _⟩ := hs
    cases hm : s.mpc <;> simp only [Glob, phase, hm, WOK, hpc] at hg hw hwi
    all_goals try (cases ha : s.alive <;> simp [ha] at hwi; done)
    all_goals refine ⟨?_, ?_, ?_⟩
    all_goals try first
        | (intro j hj; simp [setW] at hj ⊢; grind)
        | (intro j h1 h2; simp [phase, WOK, hm, setW, PoolOK, PreOK, BatchOK] at *; grind)
        | (simp [Glob, Done, numThread, PreOK, Fresh, PoolOK, hm, setW] at *; grind)
    all_goals batch_frame s hg0 hm with (fun hb => batch_setW_frame (i := i) (x := ⟨.wait, (s.w i).status⟩) hb hi (by simp [hpc]) (by simp)
            (by simp [post, hpc]))
  · simp at hs

theorem inv_worker_wait {s s' : State} {i : Nat} {evs : List Ev} (h : Inv s)
    (hi : 1 ≤ i ∧ i ≤ s.N) (hpc : (s.w i).pc = .wait)
    (hs : (if s.signal ≠ (s.w i).status then some (setW s i ⟨.load, (s.w i).status⟩, [Ev.waitPass i (s.w i).status])
      else some (setW s i ⟨.sleep, (s.w i).status⟩, [Ev.waitBlock i (s.w i).status])) = some (s', evs)) : Inv s' := by
  obtain ⟨ho, hw, hg⟩ := h
  have hwi := hw i hi.1 hi.2
  have hg0 := hg
  split at hs
  all_goals rename_i hsig
  all_goals (simp at hs; obtain ⟨rfl, _⟩ := hs)
  all_goals (cases hm : s.mpc <;> simp only [Glob, phase, hm, WOK, hpc] at hg hw hwi)
  all_goals refine ⟨?_, ?_, ?_⟩
  all_goals try first
      | (intro j hj; simp [setW]; grind)
      | (intro j h1 h2; simp [phase, WOK, hm, setW, PoolOK, PreOK, BatchOK] at *; grind)
      | (simp [Glob, Done, numThread, PreOK, Fresh, PoolOK, hm, setW] at *; grind)
  all_goals first
      | exact glob_batch_frame (s := s) rfl (Nat.le_refl _) rfl hg0 (by simp [inBatch, phase, hm]) (fun hb =>
          batch_setW_frame (i := i) (x := ⟨.load, (s.w i).status⟩) hb hi (by simp [hpc]) (by simp)
            (by simp [post, hpc]; intro h; exact hsig h.symm))
      | exact glob_batch_frame (s := s) rfl (Nat.le_refl _) rfl hg0 (by simp [inBatch, phase, hm]) (fun hb =>
          batch_setW_frame (i := i) (x := ⟨.sleep, (s.w i).status⟩) hb hi (by simp [hpc]) (by simp)
            (by simp [post, hpc]))

theorem inv_worker {s s' : State} {i : Nat} {evs : List Ev} (h : Inv s)
    (hs : step s (.worker i) = some (s', evs)) : Inv s' := by
  simp only [step, stepWorker] at hs
  have hi : 1 ≤ i ∧ i ≤ s.N := by
    by_cases hc : 1 ≤ i ∧ i ≤ s.N
    · exact hc
    · have := h.outside i (by omega)
      simp [this] at hs
  split at hs
  · simp at hs
  · simp at hs
  · simp at hs
  · rename_i hpc; exact inv_worker_wait h hi hpc hs
  · rename_i hpc; exact inv_worker_load h hi hpc hs
  · rename_i hpc; exact inv_worker_fetch h hi hpc hs
  · rename_i t hpc; exact inv_worker_exec h hi hpc hs
  · rename_i hpc; exact inv_worker_fin h hi hpc hs

/-- every step preserves the invariant -/
theorem inv_step {s s' : State} {a : Act} {evs : List Ev} (h : Inv s)
    (hs : step s a = some (s', evs)) : Inv s' := by
  cases a with
  | call c => exact inv_call h hs
  | main => exact inv_main h hs
  | worker i => exact inv_worker h hs
  | spurious i => exact inv_spurious h hs

theorem inv_of_reachable {s : State} (h : Reachable s) : Inv s := by
  induction h with
  | init => exact inv_init
  | step _ hs ih => exact inv_step ih hs

end MjProof.ThreadPool
