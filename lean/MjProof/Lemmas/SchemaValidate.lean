import MjProof.Spec.SchemaWF
/-
C41 helper lemmas: `_validate` (model) accepts exactly the schemas satisfying the declarative rules `WF`.
-/
namespace MjProof.Schema

variable {N : Nat}

/-! ## combinators -/

@[simp] theorem chk_ok (b : Bool) (l : Line N) (c : Cls) : chk b l c = .ok () ↔ b = false := by
  unfold chk; cases b <;> simp

@[simp] theorem andThen_ok (a b : Except (Err N) Unit) : (a ⨾ b) = .ok () ↔ a = .ok () ∧ b = .ok () := by
  unfold andThen
  cases a with
  | error e => simp
  | ok u => cases u; simp

theorem forAll_ok {α : Type} (f : α → Except (Err N) Unit) (l : List α) :
    forAll f l = .ok () ↔ ∀ x ∈ l, f x = .ok () := by
  induction l with
  | nil => simp [forAll]
  | cons x xs ih =>
    simp only [forAll, List.mem_cons, forall_eq_or_imp]
    cases h : f x with
    | error e => simp
    | ok u => cases u; simp [ih]

/-! ## member projections -/

theorem mem_memberAttrs {ms : List (Member N)} {a : Attr N} : a ∈ memberAttrs ms ↔ Member.attr a ∈ ms := by
  induction ms with
  | nil => simp [memberAttrs]
  | cons m ms ih => cases m <;> simp [memberAttrs, ih]

theorem mem_memberUses {ms : List (Member N)} {u : Use N} : u ∈ memberUses ms ↔ Member.use u ∈ ms := by
  induction ms with
  | nil => simp [memberUses]
  | cons m ms ih => cases m <;> simp [memberUses, ih]

theorem mem_memberChildren {ms : List (Member N)} {c : Child N} : c ∈ memberChildren ms ↔ Member.child c ∈ ms := by
  induction ms with
  | nil => simp [memberChildren]
  | cons m ms ih => cases m <;> simp [memberChildren, ih]

theorem mem_memberCons {ms : List (Member N)} {c : Constraint N} : c ∈ memberCons ms ↔ Member.con c ∈ ms := by
  induction ms with
  | nil => simp [memberCons]
  | cons m ms ih => cases m <;> simp [memberCons, ih]

/-! ## children and duplicate-attribute loops -/

theorem checkChildren_ok (s : Schema N) (seen : List String) (cs : List (Child N)) :
    checkChildren s seen cs = .ok () ↔
      (∀ c ∈ cs, c.name ∈ elementNames s ∧ c.name ∉ seen) ∧ (cs.map (·.name)).Nodup := by
  induction cs generalizing seen with
  | nil => simp [checkChildren]
  | cons c cs ih =>
    simp only [checkChildren, andThen_ok, chk_ok, ih, List.mem_cons, forall_eq_or_imp, List.map_cons,
      List.nodup_cons, List.mem_map, decide_eq_false_iff_not, Decidable.not_not]
    constructor
    · rintro ⟨h1, h2, h3, h4⟩
      refine ⟨⟨⟨h1, h2⟩, fun x hx => ⟨(h3 x hx).1, fun h => (h3 x hx).2 (Or.inr h)⟩⟩, ?_, h4⟩
      rintro ⟨x, hx, hxe⟩
      exact (h3 x hx).2 (Or.inl hxe)
    · rintro ⟨⟨⟨h1, h2⟩, h3⟩, h4, h5⟩
      refine ⟨h1, h2, fun x hx => ⟨(h3 x hx).1, ?_⟩, h5⟩
      rintro (h | h)
      · exact h4 ⟨x, hx, h⟩
      · exact (h3 x hx).2 h

theorem seenLine_none {seen : List (String × Line N)} {n : String} :
    seenLine seen n = none ↔ n ∉ seen.map (·.1) := by
  unfold seenLine
  simp only [Option.map_eq_none_iff, List.find?_eq_none, List.mem_map, not_exists, not_and]
  constructor
  · intro h x hx hxe
    have := h x hx
    simp [hxe] at this
  · intro h x hx
    have := h x hx
    simpa using this

theorem checkDupAttrs_ok (eline : Line N) (seen : List (String × Line N)) (as : List (Attr N)) :
    checkDupAttrs eline seen as = .ok () ↔
      (∀ a ∈ as, a.name ∉ seen.map (·.1)) ∧ (as.map (·.name)).Nodup := by
  induction as generalizing seen with
  | nil => simp [checkDupAttrs]
  | cons a as ih =>
    simp only [checkDupAttrs]
    cases hs : seenLine seen a.name with
    | some l =>
      have : ¬ (a.name ∉ seen.map (·.1)) := by
        intro h; rw [seenLine_none.mpr h] at hs; cases hs
      simp only [reduceCtorEq, false_iff]
      rintro ⟨h1, _⟩
      exact this (h1 a (List.mem_cons_self))
    | none =>
      have hn := seenLine_none.mp hs
      rw [ih]
      simp only [List.map_cons, List.mem_cons, List.nodup_cons, forall_eq_or_imp, not_or]
      constructor
      · rintro ⟨h1, h2⟩
        refine ⟨⟨hn, fun x hx => (h1 x hx).2⟩, ?_, h2⟩
        intro hmem
        obtain ⟨x, hx, hxe⟩ := List.mem_map.mp hmem
        exact (h1 x hx).1 hxe
      · rintro ⟨⟨_, h1⟩, h2, h3⟩
        refine ⟨fun x hx => ⟨fun h => h2 (List.mem_map.mpr ⟨x, hx, h⟩), h1 x hx⟩, h3⟩

/-! ## `_check_group_cycle` -/

theorem checkCycleMembers_ok (s : Schema N) (n : String) (st : List String) (ms : List (Member N)) :
    checkCycleMembers s n st ms = .ok () ↔
      ∀ u : Use N, Member.use u ∈ ms → checkCycle s u.group (st ++ [n]) u.line = .ok () := by
  induction ms with
  | nil => simp [checkCycleMembers]
  | cons m ms ih =>
    cases m with
    | use u =>
      rw [checkCycleMembers]
      cases h : checkCycle s u.group (st ++ [n]) u.line with
      | error e =>
        simp only [reduceCtorEq, false_iff]
        intro hall
        have := hall u (List.mem_cons_self)
        rw [h] at this; cases this
      | ok x =>
        cases x
        simp only [ih, List.mem_cons, Member.use.injEq]
        constructor
        · rintro hall v (hv | hv)
          · subst hv; exact h
          · exact hall v hv
        · intro hall v hv; exact hall v (Or.inr hv)
    | attr a => rw [checkCycleMembers]; simp [ih]
    | child a => rw [checkCycleMembers]; simp [ih]
    | const a => rw [checkCycleMembers]; simp [ih]
    | con a => rw [checkCycleMembers]; simp [ih]

/-- One unfolding of `_check_group_cycle`. -/
theorem checkCycle_ok (s : Schema N) (n : String) (st : List String) (l : Line N) :
    checkCycle s n st l = .ok () ↔
      n ∉ st ∧ ∀ g, findGroup s n = some g → ∀ u : Use N, Member.use u ∈ g.members →
        checkCycle s u.group (st ++ [n]) u.line = .ok () := by
  rw [checkCycle]
  by_cases hs : n ∈ st
  · simp [hs]
  · simp only [hs, ↓reduceDIte, not_false_eq_true, true_and]
    split
    · rename_i hf; simp [hf]
    · rename_i g hf
      simp only [hf, Option.some.injEq, forall_eq']
      exact checkCycleMembers_ok s n st g.members

theorem Reach.snoc {s : Schema N} {a b c : String} (h : Reach s a b) (e : UseEdge s b c) : Reach s a c := by
  induction h with
  | step e1 => exact .trans e1 (.step e)
  | trans e1 _ ih => exact .trans e1 (ih e)

theorem Reach.source_declared {s : Schema N} {a b : String} (h : Reach s a b) : ∃ g, findGroup s a = some g := by
  cases h with
  | step e => obtain ⟨g, _, hg, _⟩ := e; exact ⟨g, hg⟩
  | trans e _ => obtain ⟨g, _, hg, _⟩ := e; exact ⟨g, hg⟩

/-- Along any `use` path that starts at a successfully checked group, the check of the end point also
    succeeded, on a stack containing the start. -/
theorem checkCycle_along {s : Schema N} {a c : String} (h : Reach s a c) :
    ∀ (st : List String) (l : Line N), checkCycle s a st l = .ok () →
      ∃ (st' : List String) (l' : Line N), a ∈ st' ∧ checkCycle s c st' l' = .ok () := by
  induction h with
  | @step a b e =>
    intro st l hok
    obtain ⟨g, u, hg, hu, hub⟩ := e
    have := ((checkCycle_ok s a st l).mp hok).2 g hg u hu
    exact ⟨st ++ [a], u.line, by simp, hub ▸ this⟩
  | @trans a b c e _ ih =>
    intro st l hok
    obtain ⟨g, u, hg, hu, hub⟩ := e
    have h1 := ((checkCycle_ok s a st l).mp hok).2 g hg u hu
    rw [hub] at h1
    obtain ⟨st', l', hmem, hok'⟩ := ih (st ++ [a]) u.line h1
    -- the stack only grows
    exact ⟨st', l', hmem, hok'⟩

/-- The stack handed down only grows: strengthen `checkCycle_along` to keep every earlier entry. -/
theorem checkCycle_along' {s : Schema N} {a c : String} (h : Reach s a c) :
    ∀ (st : List String) (l : Line N), checkCycle s a st l = .ok () →
      ∃ (st' : List String) (l' : Line N), (∀ x ∈ st ++ [a], x ∈ st') ∧ checkCycle s c st' l' = .ok () := by
  induction h with
  | @step a b e =>
    intro st l hok
    obtain ⟨g, u, hg, hu, hub⟩ := e
    have := ((checkCycle_ok s a st l).mp hok).2 g hg u hu
    exact ⟨st ++ [a], u.line, fun x hx => hx, hub ▸ this⟩
  | @trans a b c e _ ih =>
    intro st l hok
    obtain ⟨g, u, hg, hu, hub⟩ := e
    have h1 := ((checkCycle_ok s a st l).mp hok).2 g hg u hu
    rw [hub] at h1
    obtain ⟨st', l', hmem, hok'⟩ := ih (st ++ [a]) u.line h1
    exact ⟨st', l', fun x hx => hmem x (by simp at hx ⊢; exact Or.inl hx), hok'⟩

theorem checkCycle_sound {s : Schema N}
    (h : ∀ g ∈ s.groups, checkCycle s g.name [] g.line = .ok ()) : NoUseCycle s := by
  intro n hr
  obtain ⟨g, hg⟩ := hr.source_declared
  have hgm : g ∈ s.groups := List.mem_of_find?_eq_some hg
  have hgn : g.name = n := findGroup_name hg
  have h0 := h g hgm
  rw [hgn] at h0
  obtain ⟨st', l', hmem, hok⟩ := checkCycle_along' hr [] g.line h0
  have := ((checkCycle_ok s n st' l').mp hok).1
  exact this (hmem n (by simp))

theorem checkCycle_complete {s : Schema N} (hno : NoUseCycle s) (n : String) (st : List String) (l : Line N)
    (hinv : ∀ x ∈ st, Reach s x n) : checkCycle s n st l = .ok () := by
  have hn : n ∉ st := fun hmem => hno n (hinv n hmem)
  rw [checkCycle_ok]
  refine ⟨hn, fun g hg u hu => ?_⟩
  have he : UseEdge s n u.group := ⟨g, u, hg, hu, rfl⟩
  have _hlt := unvisited_lt hg hn
  apply checkCycle_complete hno
  intro x hx
  rcases List.mem_append.mp hx with hx | hx
  · exact (hinv x hx).snoc he
  · rw [List.mem_singleton.mp hx]; exact .step he
termination_by unvisited s st

theorem checkCycle_all_iff (s : Schema N) :
    (∀ g ∈ s.groups, checkCycle s g.name [] g.line = .ok ()) ↔ NoUseCycle s :=
  ⟨checkCycle_sound, fun hno g _ => checkCycle_complete hno g.name [] g.line (by simp)⟩

end MjProof.Schema
