import MjProof.Spec.SchemaWF
/-
C41 helper lemmas: `_validate` (model) accepts exactly the schemas satisfying the declarative rules `WF`.
-/
namespace MjProof.Schema

variable {N : Nat}

/-! ## combinators -/

@[simp] theorem chk_ok (b : Bool) (l : Line N) (c : Cls) : chk b l c = .ok () ↔ b = false := by
  unfold chk; cases b <;> simp

@[simp] theorem andThen_ok (a b : Except (Err N) Unit) : (a ⨾ b) = .ok () ↔ a = .ok () ∧ b = .ok () := by
  unfold andThen
  cases a with
  | error e => simp
  | ok u => cases u; simp

theorem forAll_ok {α : Type} (f : α → Except (Err N) Unit) (l : List α) :
    forAll f l = .ok () ↔ ∀ x ∈ l, f x = .ok () := by
  induction l with
  | nil => simp [forAll]
  | cons x xs ih =>
    simp only [forAll, List.mem_cons, forall_eq_or_imp]
    cases h : f x with
    | error e => simp
    | ok u => cases u; simp [ih]

/-! ## member projections -/

theorem mem_memberAttrs {ms : List (Member N)} {a : Attr N} : a ∈ memberAttrs ms ↔ Member.attr a ∈ ms := by
  induction ms with
  | nil => simp [memberAttrs]
  | cons m ms ih => cases m <;> simp [memberAttrs, ih]

theorem mem_memberUses {ms : List (Member N)} {u : Use N} : u ∈ memberUses ms ↔ Member.use u ∈ ms := by
  induction ms with
  | nil => simp [memberUses]
  | cons m ms ih => cases m <;> simp [memberUses, ih]

theorem mem_memberChildren {ms : List (Member N)} {c : Child N} : c ∈ memberChildren ms ↔ Member.child c ∈ ms := by
  induction ms with
  | nil => simp [memberChildren]
  | cons m ms ih => cases m <;> simp [memberChildren, ih]

theorem mem_memberCons {ms : List (Member N)} {c : Constraint N} : c ∈ memberCons ms ↔ Member.con c ∈ ms := by
  induction ms with
  | nil => simp [memberCons]
  | cons m ms ih => cases m <;> simp [memberCons, ih]

/-! ## children and duplicate-attribute loops -/

theorem checkChildren_ok (s : Schema N) (seen : List String) (cs : List (Child N)) :
    checkChildren s seen cs = .ok () ↔
      (∀ c ∈ cs, c.name ∈ elementNames s ∧ c.name ∉ seen) ∧ (cs.map (·.name)).Nodup := by
  induction cs generalizing seen with
  | nil => simp [checkChildren]
  | cons c cs ih =>
    simp only [checkChildren, andThen_ok, chk_ok, ih, List.mem_cons, forall_eq_or_imp, List.map_cons,
      List.nodup_cons, List.mem_map, decide_eq_false_iff_not, Decidable.not_not]
    constructor
    · rintro ⟨h1, h2, h3, h4⟩
      refine ⟨⟨⟨h1, h2⟩, fun x hx => ⟨(h3 x hx).1, fun h => (h3 x hx).2 (Or.inr h)⟩⟩, ?_, h4⟩
      rintro ⟨x, hx, hxe⟩
      exact (h3 x hx).2 (Or.inl hxe)
    · rintro ⟨⟨⟨h1, h2⟩, h3⟩, h4, h5⟩
      refine ⟨h1, h2, fun x hx => ⟨(h3 x hx).1, ?_⟩, h5⟩
      rintro (h | h)
      · exact h4 ⟨x, hx, h⟩
      · exact (h3 x hx).2 h

theorem seenLine_none {seen : List (String × Line N)} {n : String} :
    seenLine seen n = none ↔ n ∉ seen.map (·.1) := by
  unfold seenLine
  simp only [Option.map_eq_none_iff, List.find?_eq_none, List.mem_map, not_exists, not_and]
  constructor
  · intro h x hx hxe
    have := h x hx
    simp [hxe] at this
  · intro h x hx
    have := h x hx
    simpa using this

theorem checkDupAttrs_ok (eline : Line N) (seen : List (String × Line N)) (as : List (Attr N)) :
    checkDupAttrs eline seen as = .ok () ↔
      (∀ a ∈ as, a.name ∉ seen.map (·.1)) ∧ (as.map (·.name)).Nodup := by
  induction as generalizing seen with
  | nil => simp [checkDupAttrs]
  | cons a as ih =>
    simp only [checkDupAttrs]
    cases hs : seenLine seen a.name with
    | some l =>
      have : ¬ (a.name ∉ seen.map (·.1)) := by
        intro h; rw [seenLine_none.mpr h] at hs; cases hs
      simp only [reduceCtorEq, false_iff]
      rintro ⟨h1, _⟩
      exact this (h1 a (List.mem_cons_self))
    | none =>
      have hn := seenLine_none.mp hs
      rw [ih]
      simp only [List.map_cons, List.mem_cons, List.nodup_cons, forall_eq_or_imp, not_or]
      constructor
      · rintro ⟨h1, h2⟩
        refine ⟨⟨hn, fun x hx => (h1 x hx).2⟩, ?_, h2⟩
        intro hmem
        obtain ⟨x, hx, hxe⟩ := List.mem_map.mp hmem
        exact (h1 x hx).1 hxe
      · rintro ⟨⟨_, h1⟩, h2, h3⟩
        refine ⟨fun x hx => ⟨fun h => h2 (List.mem_map.mpr ⟨x, hx, h⟩), h1 x hx⟩, h3⟩

/-! ## `_check_group_cycle` -/

theorem checkCycleMembers_ok (s : Schema N) (n : String) (st : List String) (ms : List (Member N)) :
    checkCycleMembers s n st ms = .ok () ↔
      ∀ u : Use N, Member.use u ∈ ms → checkCycle s u.group (st ++ [n]) u.line = .ok () := by
  induction ms with
  | nil => simp [checkCycleMembers]
  | cons m ms ih =>
    cases m with
    | use u =>
      rw [checkCycleMembers]
      cases h : checkCycle s u.group (st ++ [n]) u.line with
      | error e =>
        simp only [reduceCtorEq, false_iff]
        intro hall
        have := hall u (List.mem_cons_self)
        rw [h] at this; cases this
      | ok x =>
        cases x
        simp only [ih, List.mem_cons, Member.use.injEq]
        constructor
        · rintro hall v (hv | hv)
          · subst hv; exact h
          · exact hall v hv
        · intro hall v hv; exact hall v (Or.inr hv)
    | attr a => rw [checkCycleMembers]; simp [ih]
    | child a => rw [checkCycleMembers]; simp [ih]
    | const a => rw [checkCycleMembers]; simp [ih]
    | con a => rw [checkCycleMembers]; simp [ih]

/-- One unfolding of `_check_group_cycle`. -/
theorem checkCycle_ok (s : Schema N) (n : String) (st : List String) (l : Line N) :
    checkCycle s n st l = .ok () ↔
      n ∉ st ∧ ∀ g, findGroup s n = some g → ∀ u : Use N, Member.use u ∈ g.members →
        checkCycle s u.group (st ++ [n]) u.line = .ok () := by
  rw [checkCycle]
  by_cases hs : n ∈ st
  · simp [hs]
  · simp only [hs, ↓reduceDIte, not_false_eq_true, true_and]
    split
    · rename_i hf; simp [hf]
    · rename_i g hf
      simp only [hf, Option.some.injEq, forall_eq']
      exact checkCycleMembers_ok s n st g.members

theorem Reach.snoc {s : Schema N} {a b c : String} (h : Reach s a b) (e : UseEdge s b c) : Reach s a c := by
  induction h with
  | step e1 => exact .trans e1 (.step e)
  | trans e1 _ ih => exact .trans e1 (ih e)

theorem Reach.source_declared {s : Schema N} {a b : String} (h : Reach s a b) : ∃ g, findGroup s a = some g := by
  cases h with
  | step e => obtain ⟨g, _, hg, _⟩ := e; exact ⟨g, hg⟩
  | trans e _ => obtain ⟨g, _, hg, _⟩ := e; exact ⟨g, hg⟩

/-- Along any `use` path that starts at a successfully checked group, the check of the end point also
    succeeded, on a stack that contains the start and everything below it. -/
theorem checkCycle_along' {s : Schema N} {a c : String} (h : Reach s a c) :
    ∀ (st : List String) (l : Line N), checkCycle s a st l = .ok () →
      ∃ (st' : List String) (l' : Line N), (∀ x ∈ st ++ [a], x ∈ st') ∧ checkCycle s c st' l' = .ok () := by
  induction h with
  | @step a b e =>
    intro st l hok
    obtain ⟨g, u, hg, hu, hub⟩ := e
    have := ((checkCycle_ok s a st l).mp hok).2 g hg u hu
    exact ⟨st ++ [a], u.line, fun x hx => hx, hub ▸ this⟩
  | @trans a b c e _ ih =>
    intro st l hok
    obtain ⟨g, u, hg, hu, hub⟩ := e
    have h1 := ((checkCycle_ok s a st l).mp hok).2 g hg u hu
    rw [hub] at h1
    obtain ⟨st', l', hmem, hok'⟩ := ih (st ++ [a]) u.line h1
    exact ⟨st', l', fun x hx => hmem x (List.mem_append_left _ hx), hok'⟩

theorem checkCycle_sound {s : Schema N}
    (h : ∀ g ∈ s.groups, checkCycle s g.name [] g.line = .ok ()) : NoUseCycle s := by
  intro n hr
  obtain ⟨g, hg⟩ := hr.source_declared
  have hgm : g ∈ s.groups := List.mem_of_find?_eq_some hg
  have hgn : g.name = n := findGroup_name hg
  have h0 := h g hgm
  rw [hgn] at h0
  obtain ⟨st', l', hmem, hok⟩ := checkCycle_along' hr [] g.line h0
  have := ((checkCycle_ok s n st' l').mp hok).1
  exact this (hmem n (by simp))

theorem checkCycle_complete {s : Schema N} (hno : NoUseCycle s) (n : String) (st : List String) (l : Line N)
    (hinv : ∀ x ∈ st, Reach s x n) : checkCycle s n st l = .ok () := by
  have hn : n ∉ st := fun hmem => hno n (hinv n hmem)
  rw [checkCycle_ok]
  refine ⟨hn, fun g hg u hu => ?_⟩
  have he : UseEdge s n u.group := ⟨g, u, hg, hu, rfl⟩
  have _hlt := unvisited_lt hg hn
  apply checkCycle_complete hno
  intro x hx
  rcases List.mem_append.mp hx with hx | hx
  · exact (hinv x hx).snoc he
  · rw [List.mem_singleton.mp hx]; exact .step he
termination_by unvisited s st

theorem checkCycle_all_iff (s : Schema N) :
    (∀ g ∈ s.groups, checkCycle s g.name [] g.line = .ok ()) ↔ NoUseCycle s :=
  ⟨checkCycle_sound, fun hno g _ => checkCycle_complete hno g.name [] g.line (by simp)⟩

/-! ## `_group_attrs`: the path argument of the model is immaterial on acyclic schemas -/

theorem groupMembersAttrs_congr (s : Schema N) (n : String) (st1 st2 : List String) (ms : List (Member N))
    (h : ∀ u : Use N, Member.use u ∈ ms →
      groupAttrs s u.group (st1 ++ [n]) = groupAttrs s u.group (st2 ++ [n])) :
    groupMembersAttrs s n st1 ms = groupMembersAttrs s n st2 ms := by
  induction ms with
  | nil => rw [groupMembersAttrs, groupMembersAttrs]
  | cons m ms ih =>
    have ih' := ih (fun u hu => h u (List.mem_cons_of_mem _ hu))
    cases m with
    | use u =>
      rw [groupMembersAttrs, groupMembersAttrs, ih', h u List.mem_cons_self]
    | attr a => rw [groupMembersAttrs, groupMembersAttrs, ih']
    | child a => rw [groupMembersAttrs, groupMembersAttrs, ih']
    | const a => rw [groupMembersAttrs, groupMembersAttrs, ih']
    | con a => rw [groupMembersAttrs, groupMembersAttrs, ih']

theorem groupAttrs_stack_indep {s : Schema N} (hno : NoUseCycle s) (n : String) (st1 st2 : List String)
    (h1 : ∀ x ∈ st1, Reach s x n) (h2 : ∀ x ∈ st2, Reach s x n) :
    groupAttrs s n st1 = groupAttrs s n st2 := by
  have hn1 : n ∉ st1 := fun hmem => hno n (h1 n hmem)
  have hn2 : n ∉ st2 := fun hmem => hno n (h2 n hmem)
  rw [groupAttrs, groupAttrs]
  simp only [hn1, hn2, ↓reduceDIte]
  split
  · rfl
  · rename_i g hg
    apply groupMembersAttrs_congr
    intro u hu
    have he : UseEdge s n u.group := ⟨g, u, hg, hu, rfl⟩
    have _l1 := unvisited_lt hg hn1
    have _l2 := unvisited_lt hg hn2
    apply groupAttrs_stack_indep hno
    · intro x hx
      rcases List.mem_append.mp hx with hx | hx
      · exact (h1 x hx).snoc he
      · rw [List.mem_singleton.mp hx]; exact .step he
    · intro x hx
      rcases List.mem_append.mp hx with hx | hx
      · exact (h2 x hx).snoc he
      · rw [List.mem_singleton.mp hx]; exact .step he
termination_by unvisited s st1 + unvisited s st2
decreasing_by omega

theorem groupMembersAttrs_eq_expanded (s : Schema N) (n : String) (ms : List (Member N))
    (h : ∀ u : Use N, Member.use u ∈ ms → groupAttrs s u.group ([] ++ [n]) = groupAttrs s u.group []) :
    groupMembersAttrs s n [] ms = expandedAttrs s ms := by
  induction ms with
  | nil => rw [groupMembersAttrs, expandedAttrs]
  | cons m ms ih =>
    have ih' := ih (fun u hu => h u (List.mem_cons_of_mem _ hu))
    cases m with
    | use u => rw [groupMembersAttrs, expandedAttrs, ih', h u List.mem_cons_self]
    | attr a => rw [groupMembersAttrs, expandedAttrs, ih']
    | child a => rw [groupMembersAttrs, expandedAttrs, ih'] <;> (intro _ hc; cases hc)
    | const a => rw [groupMembersAttrs, expandedAttrs, ih'] <;> (intro _ hc; cases hc)
    | con a => rw [groupMembersAttrs, expandedAttrs, ih'] <;> (intro _ hc; cases hc)

/-- On a schema without `use` cycle the model's `groupAttrs` satisfies the recursion equation of Python's
    `_group_attrs` (which carries no path): the attributes of a group are those of its members, in order,
    with every `use` replaced by the attributes of the group used. -/
theorem groupAttrs_unfold' {s : Schema N} (hno : NoUseCycle s) {n : String} {g : Group N}
    (hf : findGroup s n = some g) : groupAttrs s n [] = expandedAttrs s g.members := by
  rw [groupAttrs]
  simp only [List.not_mem_nil, ↓reduceDIte]
  split
  · rename_i h; rw [hf] at h; cases h
  · rename_i g' hg'
    rw [hf] at hg'; cases hg'
    apply groupMembersAttrs_eq_expanded
    intro u hu
    have he : UseEdge s n u.group := ⟨g, u, hf, hu, rfl⟩
    apply groupAttrs_stack_indep hno
    · intro x hx
      simp only [List.nil_append, List.mem_singleton] at hx
      rw [hx]; exact .step he
    · simp

/-! ## `_validate_attr` -/

theorem mem_namespaces {s : Schema N} {t : Option String} : t ∈ namespaces s ↔ IsNamespace s t := by
  unfold namespaces IsNamespace
  simp only [List.mem_filterMap, List.mem_flatMap]
  constructor
  · rintro ⟨a, ⟨ms, hms, ha⟩, h⟩
    split at h
    · rename_i hid
      exact ⟨ms, hms, a, mem_memberAttrs.mp ha, hid, by simpa using h⟩
    · cases h
  · rintro ⟨ms, hms, b, hb, hid, ht⟩
    exact ⟨b, ⟨ms, hms, mem_memberAttrs.mpr hb⟩, by simp [hid, ht]⟩

theorem targetIn_iff {t : Option String} {names : List String} :
    targetIn t names = true ↔ ∃ n, t = some n ∧ n ∈ names := by
  cases t <;> simp [targetIn]

theorem Hi.isNum_iff {h : Hi} : h.isNum = true ↔ ∃ n, h = .num n := by
  cases h <;> simp [Hi.isNum]

theorem Hi.ltNat_false {h : Hi} {n : Nat} : h.ltNat n = false ↔ ∀ k, h = .num k → n ≤ k := by
  cases h <;> simp [Hi.ltNat]

theorem Arity.isScalar_iff {a : Arity} : a.isScalar = true ↔ a = ⟨1, .num 1⟩ := by
  cases a with
  | mk lo hi => simp [Arity.isScalar]

theorem Arity.isScalar_false {a : Arity} : a.isScalar = false ↔ a ≠ ⟨1, .num 1⟩ := by
  have := @Arity.isScalar_iff a
  cases h : a.isScalar <;> simp_all

theorem badMinMax_false {numeric : Bool} {o : Option FacetVal} :
    badMinMax numeric o = false ↔ ∀ v, o = some v → numeric = true ∧ v.isNumeric = true := by
  cases o <;> simp [badMinMax]

theorem minGtMax_false {a b : Option FacetVal} :
    minGtMax a b = false ↔ ∀ lo hi, a = some lo → b = some hi → lo.key ≤ hi.key := by
  cases a <;> cases b <;> simp [minGtMax, Int.not_lt]

theorem validateDefault_ok (s : Schema N) (a : Attr N) (d : Default) :
    validateDefault s a d = .ok () ↔ DefaultWF s a d := by
  unfold validateDefault DefaultWF
  cases hty : a.type <;> cases d <;>
    simp [chk_ok, andThen_ok, Hi.ltNat_false, Arity.isScalar_false, Nat.not_lt] <;>
    first
      | exact Decidable.or_iff_not_imp_left.symm
      | (constructor <;> intro h <;> (first | exact h.symm | exact h))

theorem validateAttr_ok (s : Schema N) (a : Attr N) :
    validateAttr s (namespaces s) a = .ok () ↔ AttrWF s a := by
  unfold validateAttr
  simp only [andThen_ok, chk_ok]
  constructor
  · rintro ⟨h1, h2, h3, h4, h5, h6, h7, h8, h9, h10, h11⟩
    refine ⟨?_, ?_, ?_, ?_, ?_, ?_, ?_, ?_, ?_, ?_, ?_⟩
    · intro ht
      have : targetIn a.target (enumNames s) = true := by
        rcases ht with ht | ht <;> simpa [ht] using h1
      exact targetIn_iff.mp this
    · intro ht
      have : a.target ∈ namespaces s := by simpa [ht] using h2
      exact mem_namespaces.mp this
    · intro ht
      have : a.arity.isScalar = true := by rcases ht with ht | ht <;> simpa [ht] using h3
      exact Arity.isScalar_iff.mp this
    · intro ht
      have : a.arity.hi.isNum = true := by simpa [ht] using h4
      exact Hi.isNum_iff.mp this
    · rintro ⟨v, hv⟩
      have := h5
      simp only [hv, Option.isSome_some, true_and, decide_eq_false_iff_not, Decidable.not_not] at this
      exact this
    · exact badMinMax_false.mp h6
    · exact badMinMax_false.mp h7
    · exact minGtMax_false.mp h8
    · intro ht
      simpa [ht] using h9
    · intro ht
      have := h10
      simp only [ht, true_and, decide_eq_false_iff_not] at this
      cases hd : a.default with
      | none => rfl
      | some d => simp [hd] at this
    · intro d hd
      rw [hd] at h11
      exact (validateDefault_ok s a d).mp h11
  · intro w
    refine ⟨?_, ?_, ?_, ?_, ?_, ?_, ?_, ?_, ?_, ?_, ?_⟩
    · by_cases ht : a.type = .enum ∨ a.type = .flags
      · have := targetIn_iff.mpr (w.enumTarget ht)
        simp [this]
      · simp [ht]
    · by_cases ht : a.type = .ref
      · have := mem_namespaces.mpr (w.refTarget ht)
        simp [this]
      · simp [ht]
    · by_cases ht : a.type = .file ∨ a.type = .bool
      · have := Arity.isScalar_iff.mpr (w.fileBoolScalar ht)
        simp [this]
      · simp [ht]
    · by_cases ht : a.type = .chars
      · have := Hi.isNum_iff.mpr (w.charsBounded ht)
        simp [this]
      · simp [ht]
    · cases hp : a.facets.get "pattern" with
      | none => simp
      | some v =>
        have := w.patternText ⟨v, hp⟩
        simp [this]
    · exact badMinMax_false.mpr w.minNumeric
    · exact badMinMax_false.mpr w.maxNumeric
    · exact minGtMax_false.mpr w.minLeMax
    · by_cases ht : truthy (a.facets.get "positive") = true
      · simp [w.positiveNumeric ht]
      · simp [ht]
    · by_cases ht : truthy (a.facets.get "required") = true
      · simp [w.requiredNoDefault ht]
      · simp [ht]
    · cases hd : a.default with
      | none => rfl
      | some d => exact (validateDefault_ok s a d).mpr (w.default d hd)

/-! ## groups, uses, elements -/

theorem checkConNames_ok (names : List String) (con : Constraint N) :
    checkConNames names con = .ok () ↔ ∀ b ∈ con.bundles, ∀ n ∈ b, n ∈ names := by
  unfold checkConNames
  simp only [chk_ok, List.any_eq_false, List.any_eq_true, decide_eq_true_eq, not_exists, not_and,
    Decidable.not_not]

theorem mem_attrNames {ms : List (Member N)} {n : String} :
    n ∈ (memberAttrs ms).map (·.name) ↔ ∃ a : Attr N, Member.attr a ∈ ms ∧ a.name = n := by
  simp only [List.mem_map, mem_memberAttrs]

theorem validateGroup_ok (g : Group N) :
    validateGroup g = .ok () ↔
      (∀ c : Constraint N, Member.con c ∈ g.members → ∀ b ∈ c.bundles, ∀ n ∈ b,
        ∃ a : Attr N, Member.attr a ∈ g.members ∧ a.name = n) ∧
      (g.variant = true →
        (∀ u : Use N, Member.use u ∉ g.members) ∧
        (∀ a : Attr N, Member.attr a ∈ g.members → truthy (a.facets.get "required") = false)) := by
  unfold validateGroup
  simp only [andThen_ok, forAll_ok, checkConNames_ok, mem_memberCons, mem_attrNames]
  apply and_congr Iff.rfl
  cases hv : g.variant with
  | false => simp
  | true =>
    simp only [↓reduceIte, forAll_ok, true_imp_iff]
    constructor
    · intro h
      refine ⟨fun u hu => ?_, fun a ha => ?_⟩
      · have := h _ hu; cases this
      · have := h _ ha; simpa using this
    · rintro ⟨h1, h2⟩ m hm
      cases m with
      | use u => exact absurd hm (h1 u)
      | attr a => simpa using h2 a hm
      | child _ => rfl
      | const _ => rfl
      | con _ => rfl

theorem checkUses_ok (s : Schema N) (ms : List (Member N)) :
    checkUses s ms = .ok () ↔ ∀ u : Use N, Member.use u ∈ ms → u.group ∈ groupNames s := by
  unfold checkUses
  simp only [forAll_ok, chk_ok, mem_memberUses, decide_eq_false_iff_not, Decidable.not_not]

theorem isBadNameFacet_false {o : Option FacetVal} :
    isBadNameFacet o = false ↔ ∀ v, o = some v → ∃ n, v = .str n := by
  cases o with
  | none => simp [isBadNameFacet]
  | some v => cases v <;> simp [isBadNameFacet]

theorem danglingAlias_false {s : Schema N} {o : Option FacetVal} :
    danglingAlias s o = false ↔ ∀ n, o = some (.str n) → n ∈ elementNames s := by
  cases o with
  | none => simp [danglingAlias]
  | some v => cases v <;> simp [danglingAlias]

theorem checkElementCon_ok (names : List String) (con : Constraint N) :
    checkElementCon names con = .ok () ↔
      (∀ b ∈ con.bundles, ∀ n ∈ b, n ∈ names) ∧ (con.kind = .requires → ∃ x y, con.bundles = [[x], [y]]) := by
  unfold checkElementCon
  simp only [andThen_ok, checkConNames_ok, chk_ok]
  apply and_congr Iff.rfl
  by_cases hk : con.kind = .requires
  · simp only [hk, true_and, true_imp_iff, decide_eq_false_iff_not]
    constructor
    · intro h
      match hb : con.bundles with
      | [[x], [y]] => exact ⟨x, y, rfl⟩
      | [] => simp [hb] at h
      | [_] => simp [hb] at h
      | _ :: _ :: _ :: _ => simp [hb] at h
      | [[], _] => simp [hb] at h
      | [_ :: _ :: _, _] => simp [hb] at h
      | [[_], []] => simp [hb] at h
      | [[_], _ :: _ :: _] => simp [hb] at h
    · rintro ⟨x, y, hxy⟩
      simp [hxy]
  · simp [hk]

theorem validateElement_ok (s : Schema N) (e : Element N) :
    validateElement s e = .ok () ↔
      ((∀ v, e.facets.get "xml" = some v → ∃ n, v = .str n) ∧
       (∀ v, e.facets.get "alias" = some v → ∃ n, v = .str n ∧ n ∈ elementNames s)) ∧
      ((∀ c : Child N, Member.child c ∈ e.members → c.name ∈ elementNames s) ∧
       ((memberChildren e.members).map (·.name)).Nodup) ∧
      ((expandedAttrs s e.members).map (·.name)).Nodup ∧
      (∀ c : Constraint N, Member.con c ∈ e.members →
        (∀ b ∈ c.bundles, ∀ n ∈ b, ∃ a ∈ expandedAttrs s e.members, a.name = n) ∧
        (c.kind = .requires → ∃ x y, c.bundles = [[x], [y]])) := by
  unfold validateElement
  simp only [andThen_ok, chk_ok, isBadNameFacet_false, danglingAlias_false, checkChildren_ok, checkDupAttrs_ok,
    forAll_ok, checkElementCon_ok, mem_memberCons, mem_memberChildren, List.map_nil, List.not_mem_nil,
    not_false_eq_true, and_true, implies_true, true_and, List.mem_map]
  constructor
  · rintro ⟨h1, h2, h3, h4, h5, h6⟩
    refine ⟨⟨h1, fun v hv => ?_⟩, h4, h5, h6⟩
    obtain ⟨n, hn⟩ := h2 v hv
    exact ⟨n, hn, h3 n (hn ▸ hv)⟩
  · rintro ⟨⟨h1, h2⟩, h4, h5, h6⟩
    refine ⟨h1, fun v hv => ?_, fun n hn => ?_, h4, h5, h6⟩
    · obtain ⟨n, hn, _⟩ := h2 v hv; exact ⟨n, hn⟩
    · obtain ⟨m, hm, hmem⟩ := h2 _ hn
      cases hm; exact hmem

/-! ## `_validate` -/

theorem mem_containers {s : Schema N} {ms : List (Member N)} :
    ms ∈ containers s ↔ (∃ g ∈ s.groups, g.members = ms) ∨ (∃ e ∈ s.elements, e.members = ms) := by
  simp [containers]

/-- The validator accepts exactly the well-formed schemas. -/
theorem validate_ok_iff (s : Schema N) : validate s = .ok () ↔ WF s := by
  unfold validate
  simp only [andThen_ok, forAll_ok, checkCycle_all_iff, validateGroup_ok, checkUses_ok, validateElement_ok,
    validateAttr_ok, mem_memberAttrs]
  constructor
  · rintro ⟨h1, h2, h3, h4, h5⟩
    exact ⟨h1, fun g hg => (h2 g hg).1, fun g hg => (h2 g hg).2, h3, fun e he => (h4 e he).1,
      fun e he => (h4 e he).2.1, fun e he => (h4 e he).2.2.1, fun e he => (h4 e he).2.2.2, h5⟩
  · intro w
    exact ⟨w.noUseCycle, fun g hg => ⟨w.groupConstraints g hg, w.variantGroups g hg⟩, w.noDanglingUse,
      fun e he => ⟨w.elementFacets e he, w.children e he, w.expandedNodup e he, w.elementConstraints e he⟩,
      w.attrs⟩

end MjProof.Schema
