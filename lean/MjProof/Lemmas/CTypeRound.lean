import MjProof.Lemmas.CTypeParse
/-
C49 helper lemmas: the value-type level (`valPrefix`) and the assembly of the round trip
`parseType (decl t) = some t` for well-formed `t`.
-/
namespace MjProof.CType

/-! ### words of a valid name are clean -/

theorem clean_of_decide {w : Str} (h1 : w ≠ []) (h2 : w.all plainChar = true) : Clean w :=
  ⟨h1, fun c hc => List.all_eq_true.mp h2 c hc⟩

theorem clean_kConst : Clean kConst := clean_of_decide (by decide) (by decide)
theorem clean_kVolatile : Clean kVolatile := clean_of_decide (by decide) (by decide)
theorem clean_kStruct : Clean kStruct := clean_of_decide (by decide) (by decide)

theorem intKw_ident (w : Str)
    (h : intKeywords.contains w = true) :
    isIdent w = true := by
  simp only [intKeywords, List.contains_eq_mem, List.mem_cons, List.not_mem_nil, or_false, decide_eq_true_eq] at h
  rcases h with h | h | h | h | h | h <;> subst h <;> decide

theorem validWords_clean {ws : List Str} (h : validWords ws = true) : ws ≠ [] ∧ ∀ w ∈ ws, Clean w := by
  simp only [validWords, Bool.and_eq_true, Bool.or_eq_true] at h
  rcases h.1 with hp | hi
  · -- the identifier / `struct identifier` pattern
    match ws, hp with
    | [w], hp =>
      simp only [validPattern] at hp
      exact ⟨by simp, fun v hv => by rw [List.mem_singleton.mp hv]; exact isIdent_clean hp⟩
    | [s, w], hp =>
      simp only [validPattern, Bool.and_eq_true, beq_iff_eq] at hp
      refine ⟨by simp, fun v hv => ?_⟩
      rcases List.mem_cons.mp hv with rfl | hv
      · rw [hp.1]; exact clean_kStruct
      · rw [List.mem_singleton.mp hv]; exact isIdent_clean hp.2
    | [], hp => simp [validPattern] at hp
    | _ :: _ :: _ :: _, hp => simp [validPattern] at hp
  · simp only [Bool.not_eq_true'] at hi
    refine ⟨fun e => by simp [e] at hi, fun w hw => ?_⟩
    have hall := hi.2
    simp only [validIntegral, Bool.and_eq_true, List.all_eq_true, Bool.or_eq_true] at hall
    rcases hall.1 w hw with h | h
    · exact isIdent_clean (intKw_ident w h)
    · exact isIdent_clean h

/-! ### blanks at the ends -/

theorem reverse_head_mem {w : Str} (h : w ≠ []) : ∃ b l, w.reverse = b :: l ∧ b ∈ w := by
  cases hr : w.reverse with
  | nil => simp at hr; exact absurd hr h
  | cons b l =>
    refine ⟨b, l, rfl, ?_⟩
    have : b ∈ w.reverse := by rw [hr]; simp
    exact List.mem_reverse.mp this

/-- empty, or not ending in whitespace -/
def EndOk (x : Str) : Prop := x = [] ∨ ∃ b l, x.reverse = b :: l ∧ isWs b = false

theorem endOk_clean {w : Str} (h : Clean w) : ∃ b l, w.reverse = b :: l ∧ isWs b = false := by
  obtain ⟨b, l, hr, hb⟩ := reverse_head_mem h.1
  exact ⟨b, l, hr, plain_not_ws (h.2 b hb)⟩

theorem endOk_append {x y : Str} (hy : ∃ b l, y.reverse = b :: l ∧ isWs b = false) :
    ∃ b l, (x ++ y).reverse = b :: l ∧ isWs b = false := by
  obtain ⟨b, l, hr, hb⟩ := hy
  exact ⟨b, l ++ x.reverse, by simp [hr], hb⟩

theorem spWords_end {ws : List Str} (hne : ws ≠ []) (h : ∀ w ∈ ws, Clean w) :
    ∃ b l, (spWords ws).reverse = b :: l ∧ isWs b = false := by
  induction ws with
  | nil => exact absurd rfl hne
  | cons w ws ih =>
    by_cases hws : ws = []
    · subst hws
      have := endOk_append (x := [32]) (endOk_clean (h w (by simp)))
      simpa [spWords] using this
    · have := ih hws (fun v hv => h v (by simp [hv]))
      have h2 := endOk_append (x := 32 :: w) this
      simpa [spWords] using h2

theorem joinSp_noEdge {ws : List Str} (hne : ws ≠ []) (h : ∀ w ∈ ws, Clean w) : NoEdgeWs (joinSp ws) := by
  cases ws with
  | nil => exact absurd rfl hne
  | cons w ws =>
    have hw := h w (by simp)
    rw [joinSp_cons]
    constructor
    · cases w with
      | nil => exact absurd rfl hw.1
      | cons a l => exact ⟨a, l ++ spWords ws, by simp, plain_not_ws (hw.2 a (by simp))⟩
    · by_cases hws : ws = []
      · subst hws
        simpa [spWords] using endOk_clean hw
      · exact endOk_append (spWords_end hws (fun v hv => h v (by simp [hv])))

theorem extentsStr_end {e : List Int} (he : e ≠ []) : ∃ l, (extentsStr e).reverse = 93 :: l := by
  induction e with
  | nil => exact absurd rfl he
  | cons n r ih =>
    by_cases hr : r = []
    · subst hr; exact ⟨(intStr n).reverse ++ [91], by simp [extentsStr]⟩
    · obtain ⟨l, hl⟩ := ih hr
      exact ⟨l ++ (93 :: (intStr n).reverse ++ [91]), by simp [extentsStr, hl]⟩

theorem declFrames_end : ∀ (fs : List Frame) (a : Bool), EndOk (declFrames fs a []) := by
  intro fs
  induction fs with
  | nil => intro a; exact Or.inl rfl
  | cons f fs ih =>
    intro a
    cases f with
    | ptr c v r =>
      right
      obtain ⟨_, _, _, _, _, _, hedge⟩ := ptrQualWords_facts c v r
      have hp : ∃ b l, (42 :: (spWords (ptrQualWords c v r) ++ sep (declFrames fs false []))).reverse = b :: l ∧
          isWs b = false := by
        rcases ih false with h | h
        · rw [h]
          cases hr : (42 :: spWords (ptrQualWords c v r)).reverse with
          | nil => simp at hr
          | cons b l => exact ⟨b, l, by simpa [sep] using hr, hedge b l hr⟩
        · have hne : (declFrames fs false []).isEmpty = false := by
            obtain ⟨b, l, hr, _⟩ := h
            cases hd : declFrames fs false [] with
            | nil => simp [hd] at hr
            | cons _ _ => rfl
          have := endOk_append (x := 42 :: (spWords (ptrQualWords c v r) ++ [32])) h
          simpa [sep, hne] using this
      simp only [declFrames]
      cases a with
      | false => simpa using hp
      | true =>
        exact ⟨41, (42 :: (spWords (ptrQualWords c v r) ++ sep (declFrames fs false []))).reverse ++ [40],
          by simp, by decide⟩
    | arr e =>
      simp only [declFrames]
      by_cases he : e = []
      · subst he; simpa [extentsStr] using ih true
      · right
        obtain ⟨l, hl⟩ := extentsStr_end he
        exact endOk_append ⟨93, l, hl, by decide⟩

/-! ### the value level -/

theorem spWords_singleton_joinSp {ws : List Str} (h : ws ≠ []) : spWords [joinSp ws] = spWords ws := by
  cases ws with
  | nil => exact absurd rfl h
  | cons w ws => simp [spWords, joinSp_cons]

theorem valPrefix_eq {name : Str} {ws : List Str} (hn : name = joinSp ws) (hne : ws ≠ []) (c v : Bool) :
    valPrefix name c v = joinSp (qualWords c v ++ ws) := by
  unfold valPrefix
  rw [hn]
  cases hq : qualWords c v with
  | nil => simp [joinSp]
  | cons q Q =>
    simp only [List.cons_append, joinSp_cons, spWords_append, spWords_singleton_joinSp hne]

theorem qualWords_clean (c v : Bool) : ∀ w ∈ qualWords c v, Clean w := by
  intro w hw
  cases c <;> cases v <;> simp [qualWords] at hw
  · rw [hw]; exact clean_kVolatile
  · rw [hw]; exact clean_kConst
  · rcases hw with rfl | rfl
    · exact clean_kConst
    · exact clean_kVolatile

/-- unpacked `wfName` -/
theorem wfName_unpack {name : Str} (h : wfName name = true) :
    ∃ ws : List Str, name = joinSp ws ∧ validWords ws = true ∧ kConst ∉ ws ∧ kVolatile ∉ ws := by
  simp only [wfName, Bool.and_eq_true, beq_iff_eq, Bool.not_eq_true', List.contains_eq_mem,
    decide_eq_false_iff_not] at h
  exact ⟨_, h.1.1.1, h.1.1.2, h.1.2, h.2⟩

theorem valQuals_words {ws : List Str} (hc : kConst ∉ ws) (hv : kVolatile ∉ ws) (c v : Bool) :
    valQuals (qualWords c v ++ ws) = some (ws, c, v) := by
  have h1 : ws.count kConst = 0 := List.count_eq_zero.mpr hc
  have h2 : ws.count kVolatile = 0 := List.count_eq_zero.mpr hv
  have h3 : ws.filter (fun w => !(w == kConst || w == kVolatile)) = ws := by
    apply List.filter_eq_self.mpr
    intro a ha
    have ha1 : a ≠ kConst := fun e => hc (e ▸ ha)
    have ha2 : a ≠ kVolatile := fun e => hv (e ▸ ha)
    simp [ha1, ha2]
  have hcnt1 : ¬ ((qualWords c v ++ ws).count kConst > 1 ∨ (qualWords c v ++ ws).count kVolatile > 1) := by
    rw [List.count_append, List.count_append, h1, h2]
    cases c <;> cases v <;> decide
  have hf : (qualWords c v ++ ws).filter (fun w => !(w == kConst || w == kVolatile)) = ws := by
    rw [List.filter_append, h3]
    have : (qualWords c v).filter (fun w => !(w == kConst || w == kVolatile)) = [] := by
      cases c <;> cases v <;> decide
    rw [this]; rfl
  have hcc : (qualWords c v ++ ws).contains kConst = c := by
    have : (qualWords c v ++ ws).contains kConst = (qualWords c v).contains kConst := by
      rw [Bool.eq_iff_iff]; simp [hc]
    rw [this]; cases c <;> cases v <;> decide
  have hcv : (qualWords c v ++ ws).contains kVolatile = v := by
    have : (qualWords c v ++ ws).contains kVolatile = (qualWords c v).contains kVolatile := by
      rw [Bool.eq_iff_iff]; simp [hv]
    rw [this]; cases c <;> cases v <;> decide
  unfold valQuals
  rw [if_neg hcnt1, hf, hcc, hcv]

theorem mem_joinSp_plain {ws : List Str} (h : ∀ w ∈ ws, Clean w) {c : Nat} (hc : c ∈ joinSp ws) :
    c = 32 ∨ plainChar c = true := by
  rcases mem_joinSp hc with h1 | ⟨w, hw, hcw⟩
  · exact Or.inl h1
  · exact Or.inr ((h w hw).2 c hcw)

theorem joinSp_goodL {ws : List Str} (hne : ws ≠ []) (h : ∀ w ∈ ws, Clean w) :
    GoodL (joinSp ws) ∧ 42 ∉ joinSp ws := by
  have key : ∀ c, c ≠ 32 → plainChar c = false → c ∉ joinSp ws := by
    intro c h1 h2 hc
    rcases mem_joinSp_plain h hc with h3 | h3
    · exact h1 h3
    · rw [h2] at h3; exact absurd h3 (by simp)
  exact ⟨⟨⟨key _ (by decide) (by decide), key _ (by decide) (by decide), key _ (by decide) (by decide),
    key _ (by decide) (by decide)⟩, joinSp_noEdge hne h⟩, key _ (by decide) (by decide)⟩

/-- the level of the value type: qualifiers and name parse back -/
theorem parsePtr_valPrefix {name : Str} (h : wfName name = true) (c v : Bool) :
    GoodL (valPrefix name c v) ∧ parsePtr (valPrefix name c v) none = some (.value name c v) := by
  obtain ⟨ws, hn, hvalid, hc, hv⟩ := wfName_unpack h
  obtain ⟨hne, hclean⟩ := validWords_clean hvalid
  have hall : ∀ w ∈ qualWords c v ++ ws, Clean w := by
    intro w hw
    rcases List.mem_append.mp hw with hw | hw
    · exact qualWords_clean c v w hw
    · exact hclean w hw
  have hne' : qualWords c v ++ ws ≠ [] := by
    intro e
    exact hne (List.append_eq_nil_iff.mp e).2
  rw [valPrefix_eq hn hne c v]
  obtain ⟨hg, hstar⟩ := joinSp_goodL hne' hall
  refine ⟨hg, ?_⟩
  have hname : joinSp ws = name := hn.symm
  unfold parsePtr
  simp only [parsePtrAux, ne_special_of_no_paren hg.noParen.1, if_false, splitLast_none hstar,
    Option.isSome_none, Bool.false_eq_true, splitWs_joinSp _ hall, valQuals_words hc hv, hvalid, if_true, hname]

/-! ### assembly -/

theorem strip_decl {L : Str} (hL : NoEdgeWs L) (fs : List Frame) :
    strip (L ++ sep (declFrames fs false [])) = L ++ sep (declFrames fs false []) := by
  apply strip_of_noEdge
  obtain ⟨⟨a, l, rfl, ha⟩, hend⟩ := hL
  refine ⟨⟨a, _, rfl, ha⟩, ?_⟩
  rcases declFrames_end fs false with h | h
  · rw [h]; simpa [sep] using hend
  · have hne : (declFrames fs false []).isEmpty = false := by
      obtain ⟨b, l', hr, _⟩ := h
      cases hd : declFrames fs false [] with
      | nil => simp [hd] at hr
      | cons _ _ => rfl
    have := endOk_append (x := a :: l ++ [32]) h
    simpa [sep, hne] using this

theorem roundtrip_frames {name : Str} (h : wfName name = true) (c v : Bool) (fs : List Frame)
    (hok : okFrames false fs = true) :
    parseType (decl (build (.value name c v) fs)) = some (build (.value name c v) fs) := by
  obtain ⟨hg, hp⟩ := parsePtr_valPrefix h c v
  have hd : decl (build (.value name c v) fs) = valPrefix name c v ++ sep (declFrames fs false []) := by
    simp [decl, declWith_build, declWith_value, CType.isArray]
  rw [hd]
  unfold parseType
  simp only [strip_decl hg.edge fs]
  exact parseNest_frames fs _ none _ _ hg hp hok (by omega)

end MjProof.CType
