import MjProof.Model.Pid
import MjProof.Model.Cable
import MjProof.Lemmas.RealNum
import Mathlib.Tactic.FieldSimp
import Mathlib.Tactic.Positivity
import Mathlib.Tactic.NormNum
import Mathlib.Analysis.SpecialFunctions.Exp
/-
Helper lemmas for C51 over the reals: clip bounds, the Euler round trip `act + ((x - act)/dt)*dt = x`, the
shape of the generated cable kernels.
-/
namespace MjProof
open MjProof.Gen

namespace Pid

theorem clip_mem (x lo hi : ℝ) (h : lo ≤ hi) : lo ≤ clip x lo hi ∧ clip x lo hi ≤ hi := by
  unfold clip
  by_cases h1 : x < lo
  · simp [h1, h]
  · by_cases h2 : hi < x
    · simp [h1, h2, h]
    · simp only [h1, h2, if_false]
      exact ⟨not_lt.mp h1, not_lt.mp h2⟩

theorem clip_abs_sub (x p w : ℝ) (hw : 0 ≤ w) : |clip x (p - w) (p + w) - p| ≤ w := by
  have h := clip_mem x (p - w) (p + w) (by linarith)
  rw [abs_le]
  constructor <;> linarith [h.1, h.2]

theorem clip_of_mem (x lo hi : ℝ) (h1 : lo ≤ x) (h2 : x ≤ hi) : clip x lo hi = x := by
  unfold clip
  simp [not_lt.mpr h1, not_lt.mpr h2]

/-- the Euler advance undoes the plugin's division by the time step -/
theorem euler_roundtrip (act x dt : ℝ) (hdt : dt ≠ 0) : act + (x - act) / dt * dt = x := by
  field_simp
  ring

/-- the engine advances the plugin-owned slots by the Euler rule -/
def OwnEuler (c : Cfg ℝ) : Prop := c.dyn ≠ Dyn.filterexact ∨ c.ownExact = false

theorem nextOwn_euler (c : Cfg ℝ) (h : OwnEuler c) (act actdot : ℝ) :
    nextOwn c act actdot = act + actdot * c.dt := by
  unfold nextOwn
  rcases h with h | h
  · simp [h]
  · simp [h]

theorem hasI_iff (c : Cfg ℝ) : hasI c = true ↔ c.ki ≠ 0 := by
  unfold hasI
  simp

/-- the integral used in the force and in `act_dot` lies in the clamp range -/
theorem integralOf_mem (c : Cfg ℝ) (s : St ℝ) (e M : ℝ) (hM : c.imax = some M) (h0 : 0 ≤ M) :
    -M ≤ integralOf c s e ∧ integralOf c s e ≤ M := by
  unfold integralOf
  by_cases hI : hasI c = true
  · simp only [hI, if_true, hM]
    exact clip_mem _ _ _ (by linarith)
  · simp only [hI]
    simp only [Bool.false_eq_true, if_false, real_ofInt, Int.cast_zero]
    constructor <;> linarith

/-- `0 < 1 - exp(-x) ≤ x` for `x > 0`: the exact-filter advance is a contraction of the Euler one -/
theorem exact_factor_bounds (dt tau : ℝ) (hdt : 0 < dt) (htau : 0 < tau) :
    0 < tau * (1 - Real.exp (-dt / tau)) ∧ tau * (1 - Real.exp (-dt / tau)) ≤ dt := by
  have hx : 0 < dt / tau := div_pos hdt htau
  have e1 : Real.exp (-dt / tau) < 1 := by
    rw [neg_div]; exact Real.exp_lt_one_iff.mpr (by linarith)
  have e2 : 1 - dt / tau ≤ Real.exp (-dt / tau) := by
    have := Real.add_one_le_exp (-dt / tau)
    rw [neg_div] at this ⊢; linarith
  constructor
  · exact mul_pos htau (by linarith)
  · have : tau * (1 - Real.exp (-dt / tau)) ≤ tau * (dt / tau) := by
      apply mul_le_mul_of_nonneg_left _ htau.le; linarith
    calc tau * (1 - Real.exp (-dt / tau)) ≤ tau * (dt / tau) := this
      _ = dt := by field_simp

end Pid

namespace Cable

/-- `mju_quat2Vel(q, 1)` exactly as it is inlined in the generated kernels (read off `LocalStress` with
stiffness (-1,-1,-1,1) and zero reference) -/
noncomputable def quatVel (q0 q1 q2 q3 : ℝ) : ℝ × ℝ × ℝ :=
  cable_LocalStress_nopull (α := ℝ) (-1) (-1) (-1) 1 q0 q1 q2 q3 0 0 0

theorem stress_nopull_eq (k0 k1 k2 k3 q0 q1 q2 q3 w0 w1 w2 : ℝ) :
    cable_LocalStress_nopull k0 k1 k2 k3 q0 q1 q2 q3 w0 w1 w2 =
      ((-k0) * ((quatVel q0 q1 q2 q3).1 - w0) / k3, (-k1) * ((quatVel q0 q1 q2 q3).2.1 - w1) / k3,
       (-k2) * ((quatVel q0 q1 q2 q3).2.2 - w2) / k3) := by
  simp only [cable_LocalStress_nopull, quatVel]
  simp

theorem rotVecQuat_zero (q0 q1 q2 q3 : ℝ) : cable_rotVecQuat (0 : ℝ) 0 0 q0 q1 q2 q3 = (0, 0, 0) := by
  simp [cable_rotVecQuat]

/-- the pulled-back stress is the plain one rotated by the inverse orientation -/
theorem stress_pull_eq (k0 k1 k2 k3 q0 q1 q2 q3 w0 w1 w2 : ℝ) :
    cable_LocalStress_pull k0 k1 k2 k3 q0 q1 q2 q3 w0 w1 w2 =
      (let t := cable_LocalStress_nopull k0 k1 k2 k3 q0 q1 q2 q3 w0 w1 w2
       cable_rotVecQuat t.1 t.2.1 t.2.2 q0 (-q1) (-q2) (-q3)) := by
  simp only [cable_LocalStress_pull, cable_LocalStress_nopull]

theorem subQuat_id (a0 a1 a2 a3 : ℝ) : cable_subQuat a0 a1 a2 a3 1 0 0 0 = quatVel a0 a1 a2 a3 := by
  simp only [cable_subQuat, quatVel, cable_LocalStress_nopull]
  simp

theorem quatDiff_id (a0 a1 a2 a3 : ℝ) : cable_QuatDiff a0 a1 a2 a3 1 0 0 0 = (a0, a1, a2, a3) := by
  simp [cable_QuatDiff]

/-- curvature of a rotation-free relative orientation `(w, 0, 0, 0)`, `w > 0`, is zero -/
theorem quatVel_straight (w : ℝ) (hw : 0 < w) : quatVel w 0 0 0 = (0, 0, 0) := by
  simp only [quatVel, cable_LocalStress_nopull]
  simp [realAtan2, hw]
  intro h
  exfalso
  norm_num at h

end Cable
end MjProof
