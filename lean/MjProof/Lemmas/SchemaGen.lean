import MjProof.Model.SchemaGen
import MjProof.Model.SchemaGenExtract
/-
Round-trip lemmas for the C42 extraction functions: generic text lemmas, then one section per artefact.
-/
namespace MjProof.SchemaGen
open MjProof.Schema

/-! ## generic -/

theorem dropPrefix?_append (p r : Txt) : dropPrefix? p (p ++ r) = some r := by
  induction p with
  | nil => cases r <;> simp [dropPrefix?]
  | cons a p ih => simp [dropPrefix?, ih]

theorem dropSuffix?_append (p r : Txt) : dropSuffix? p (r ++ p) = some r := by
  simp [dropSuffix?, dropPrefix?_append]

theorem takeWhile_ne_append {c : Char} {k r : Txt} (h : c ∉ k) : (k ++ c :: r).takeWhile (· ≠ c) = k := by
  rw [List.takeWhile_append_of_pos]
  · simp
  · intro a ha; simp only [ne_eq, decide_not, Bool.not_eq_eq_eq_not, Bool.not_true, decide_eq_false_iff_not]
    rintro rfl; exact h ha

theorem dropWhile_ne_append {c : Char} {k r : Txt} (h : c ∉ k) : (k ++ c :: r).dropWhile (· ≠ c) = c :: r := by
  rw [List.dropWhile_append_of_pos]
  · simp
  · intro a ha; simp only [ne_eq, decide_not, Bool.not_eq_eq_eq_not, Bool.not_true, decide_eq_false_iff_not]
    rintro rfl; exact h ha

theorem takeWhile_ne_self {c : Char} {k : Txt} (h : c ∉ k) : k.takeWhile (· ≠ c) = k := by
  induction k with
  | nil => rfl
  | cons a k ih =>
    have ha : a ≠ c := fun e => h (e ▸ List.mem_cons_self)
    have := ih (fun hk => h (List.mem_cons_of_mem _ hk))
    simp only [List.takeWhile_cons, ne_eq, ha, not_false_eq_true, decide_true, if_true, this]

theorem dropWhile_ne_self {c : Char} {k : Txt} (h : c ∉ k) : k.dropWhile (· ≠ c) = [] := by
  induction k with
  | nil => rfl
  | cons a k ih =>
    have ha : a ≠ c := fun e => h (e ▸ List.mem_cons_self)
    have := ih (fun hk => h (List.mem_cons_of_mem _ hk))
    simp only [List.dropWhile_cons, ne_eq, ha, not_false_eq_true, decide_true, if_true, this]

theorem splitCh_ne_nil (c : Char) (t : Txt) : splitCh c t ≠ [] := by
  induction t with
  | nil => simp [splitCh]
  | cons x r ih =>
    simp only [splitCh]
    split
    · simp
    · split <;> simp

theorem splitCh_append {c : Char} {l : Txt} (h : c ∉ l) (r : Txt) : splitCh c (l ++ c :: r) = l :: splitCh c r := by
  induction l with
  | nil => simp [splitCh]
  | cons a l ih =>
    have ha : a ≠ c := fun e => h (e ▸ List.mem_cons_self)
    have := ih (fun hk => h (List.mem_cons_of_mem _ hk))
    simp [splitCh, ha, this]

theorem splitCh_of_not_mem {c : Char} {l : Txt} (h : c ∉ l) : splitCh c l = [l] := by
  induction l with
  | nil => simp [splitCh]
  | cons a l ih =>
    have ha : a ≠ c := fun e => h (e ▸ List.mem_cons_self)
    have := ih (fun hk => h (List.mem_cons_of_mem _ hk))
    simp [splitCh, ha, this]

/-- Lines each terminated by a newline. -/
def unlines (ls : List Txt) : Txt := ls.flatMap (· ++ ['\n'])

@[simp] theorem unlines_nil : unlines [] = [] := rfl
@[simp] theorem unlines_cons (l : Txt) (ls : List Txt) : unlines (l :: ls) = l ++ '\n' :: unlines ls := by
  simp [unlines]
theorem unlines_append (a b : List Txt) : unlines (a ++ b) = unlines a ++ unlines b := by
  simp [unlines]

theorem linesOf_unlines_append {ls : List Txt} (h : ∀ l ∈ ls, '\n' ∉ l) (t : Txt) :
    linesOf (unlines ls ++ t) = ls ++ linesOf t := by
  induction ls with
  | nil => simp
  | cons l ls ih =>
    have hl := h l List.mem_cons_self
    have := ih (fun x hx => h x (List.mem_cons_of_mem _ hx))
    simp only [unlines_cons, List.cons_append, List.append_assoc]
    unfold linesOf at *
    rw [splitCh_append hl, this]

theorem linesOf_unlines {ls : List Txt} (h : ∀ l ∈ ls, '\n' ∉ l) : linesOf (unlines ls) = ls ++ [[]] := by
  have := linesOf_unlines_append h []
  simpa [linesOf, splitCh] using this

theorem joinWith_cons_cons (sep x y : Txt) (r : List Txt) :
    joinWith sep (x :: y :: r) = x ++ sep ++ joinWith sep (y :: r) := rfl

theorem joinNL_snoc_nil (xs : List Txt) : joinNL (xs ++ [[]]) = unlines xs := by
  induction xs with
  | nil => rfl
  | cons x xs ih =>
    cases xs with
    | nil => simp [joinNL, joinWith]
    | cons y ys =>
      simp only [joinNL, List.cons_append, joinWith_cons_cons] at ih ⊢
      simp [ih]

theorem joinNL_append_nl {ls : List Txt} (h : ls ≠ []) : joinNL ls ++ ['\n'] = unlines ls := by
  induction ls with
  | nil => exact absurd rfl h
  | cons x xs ih =>
    cases xs with
    | nil => simp [joinNL, joinWith]
    | cons y ys =>
      have := ih (by simp)
      simp only [joinNL, joinWith_cons_cons] at this ⊢
      simp [this]

theorem natStr_isDigit {n : Nat} {c : Char} (h : c ∈ natStr n) : c.isDigit = true :=
  Nat.isDigit_of_mem_toDigits (by omega) (by omega) h

theorem natStr_ne_nil (n : Nat) : natStr n ≠ [] := Nat.toDigits_ne_nil

theorem parseNat?_natStr (n : Nat) : parseNat? (natStr n) = some n := by
  unfold parseNat?
  have h1 : natStr n ≠ [] := natStr_ne_nil n
  have h2 : (natStr n).all Char.isDigit = true := by
    simp only [List.all_eq_true]; exact fun c hc => natStr_isDigit hc
  simp only [h1, ne_eq, not_false_eq_true, h2, and_self, if_true]
  simp [natStr, Nat.ofDigitChars_toDigits]

theorem not_mem_natStr {n : Nat} {c : Char} (h : c.isDigit = false) : c ∉ natStr n :=
  fun hc => by simp [natStr_isDigit hc] at h

theorem linesOf_joinNL {ls : List Txt} (h : ∀ l ∈ ls, '\n' ∉ l) (hne : ls ≠ []) : linesOf (joinNL ls) = ls := by
  induction ls with
  | nil => exact absurd rfl hne
  | cons x xs ih =>
    have hx := h x List.mem_cons_self
    cases xs with
    | nil => simpa [joinNL, joinWith, linesOf] using splitCh_of_not_mem hx
    | cons y ys =>
      have := ih (fun l hl => h l (List.mem_cons_of_mem _ hl)) (by simp)
      simp only [joinNL, joinWith_cons_cons, linesOf, List.append_assoc, List.singleton_append] at this ⊢
      rw [splitCh_append hx, this]

theorem dropWhile_spaces {m : Nat} {x : Txt} (h : x.head? ≠ some ' ') :
    (spaces m ++ ' ' :: x).dropWhile (· = ' ') = x := by
  have h1 : (spaces m ++ ' ' :: x) = spaces (m + 1) ++ x := by
    simp [spaces, List.replicate_succ']
  rw [h1, List.dropWhile_append_of_pos]
  · cases x with
    | nil => rfl
    | cons a x =>
      have : a ≠ ' ' := fun e => h (by simp [e])
      simp [List.dropWhile_cons, this]
  · intro a ha
    simp only [spaces, List.mem_replicate] at ha
    simp [ha.2]


theorem dropPrefix?_common (c p s : Txt) : dropPrefix? (c ++ p) (c ++ s) = dropPrefix? p s := by
  induction c with
  | nil => rfl
  | cons a c ih => simp [dropPrefix?, ih]

theorem dropPrefix?_head_ne {a b : Char} (p s : Txt) (h : a ≠ b) : dropPrefix? (a :: p) (b :: s) = none := by
  simp [dropPrefix?, h]

theorem dropPrefix?_cons_nil (a : Char) (p : Txt) : dropPrefix? (a :: p) [] = none := rfl

theorem not_mem_append {c : Char} {a b : Txt} (ha : c ∉ a) (hb : c ∉ b) : c ∉ a ++ b := by
  simp [ha, hb]

/-! ## `mjcf_map.h` -/

/-- Lexical well-formedness of the map rows (what the schema lexer guarantees for identifiers, quoted keywords and
    IDENT/NUMBER values): no newline anywhere, no space in an enum name, no double quote in a keyword, a constant does
    not start with a space. -/
def MapWF (rows : MapRows) : Prop :=
  ∀ e ∈ rows, '\n' ∉ e.1 ∧ ' ' ∉ e.1 ∧
    ∀ kv ∈ e.2, '"' ∉ kv.1 ∧ '\n' ∉ kv.1 ∧ '\n' ∉ kv.2 ∧ kv.2.head? ≠ some ' '

theorem lit_mjMap : L "inline constexpr mjMap " = 'i' :: (L "nline constexpr " ++ ('m' :: L "jMap ")) := rfl
theorem lit_int : L "inline constexpr int " = 'i' :: (L "nline constexpr " ++ ('i' :: L "nt ")) := rfl
theorem lit_row : L "  {\"" = ' ' :: ' ' :: '{' :: '"' :: [] := rfl
theorem lit_row3 : L "  {" = ' ' :: ' ' :: '{' :: [] := rfl
theorem lit_qc : L "\"," = ['"', ','] := rfl
theorem lit_enum : L "// enum " = '/' :: L "/ enum " := rfl
theorem lit_close : L "};" = ['}', ';'] := rfl
theorem lit_sz : L "_sz = " = '_' :: 's' :: 'z' :: ' ' :: '=' :: ' ' :: [] := rfl
theorem lit_sz3 : L "_sz" = ['_', 's', 'z'] := rfl
theorem lit_eq : L " = " = [' ', '=', ' '] := rfl
theorem lit_rc : L "}," = ['}', ','] := rfl

theorem mapTok_nil : mapTok [] = none := by
  simp only [mapTok, lit_mjMap, lit_row, lit_int, dropPrefix?_cons_nil]

theorem mapTok_comment (n : Txt) : mapTok (L "// enum " ++ n) = none := by
  simp only [mapTok, lit_mjMap, lit_row, lit_int, lit_enum, List.cons_append]
  rw [dropPrefix?_head_ne _ _ (by decide), dropPrefix?_head_ne _ _ (by decide), dropPrefix?_head_ne _ _ (by decide)]

theorem mapTok_close : mapTok (L "};") = none := by
  simp only [mapTok, lit_mjMap, lit_row, lit_int, lit_close]
  rw [dropPrefix?_head_ne _ _ (by decide), dropPrefix?_head_ne _ _ (by decide), dropPrefix?_head_ne _ _ (by decide)]

theorem mapTok_start (n : Txt) : mapTok (L "inline constexpr mjMap " ++ n ++ L "_map[] = {") = some (.start n) := by
  simp only [mapTok, List.append_assoc, dropPrefix?_append]
  rw [dropSuffix?_append]; rfl

theorem mapRowLine_eq (w : Nat) (k v : Txt) :
    mapRowLine w (k, v)
      = L "  {\"" ++ (k ++ '"' :: ',' :: (spaces (w + 1 - (quote k ++ [',']).length) ++ ' ' :: (v ++ L "},"))) := by
  simp only [mapRowLine, ljust, lit_row, lit_row3, List.cons_append, List.nil_append, List.append_assoc]
  simp only [quote, List.cons_append, List.nil_append, List.append_assoc]

theorem mapTok_row (w : Nat) {k v : Txt} (hk : '"' ∉ k) (hv : v.head? ≠ some ' ') :
    mapTok (mapRowLine w (k, v)) = some (.row k v) := by
  have h0 : dropPrefix? (L "inline constexpr mjMap ") (mapRowLine w (k, v)) = none := by
    simp only [mapRowLine, lit_mjMap, lit_row3, List.cons_append]
    exact dropPrefix?_head_ne _ _ (by decide)
  rw [mapTok, h0]
  simp only [mapRowLine_eq, dropPrefix?_append]
  rw [takeWhile_ne_append hk, dropWhile_ne_append hk]
  have e2 : ∀ x : Txt, ('"' :: ',' :: x) = L "\"," ++ x := by
    intro x; simp only [lit_qc, List.cons_append, List.nil_append]
  rw [e2, dropPrefix?_append]
  have hv' : (v ++ L "},").head? ≠ some ' ' := by
    cases v with
    | nil => simp [lit_rc]
    | cons a v => simpa using hv
  simp only [dropWhile_spaces hv', dropSuffix?_append, Option.map_some]

theorem mapTok_sz {n : Txt} (k : Nat) (hn : ' ' ∉ n) :
    mapTok (L "inline constexpr int " ++ n ++ L "_sz = " ++ natStr k ++ [';']) = some (.sz n k) := by
  have h0 : dropPrefix? (L "inline constexpr mjMap ") (L "inline constexpr int " ++ n ++ L "_sz = " ++ natStr k ++ [';']) = none := by
    rw [lit_mjMap, lit_int]
    simp only [List.append_assoc, List.cons_append, dropPrefix?, if_true, dropPrefix?_common]
    exact dropPrefix?_head_ne _ _ (by decide)
  have h1 : dropPrefix? (L "  {\"") (L "inline constexpr int " ++ n ++ L "_sz = " ++ natStr k ++ [';']) = none := by
    rw [lit_row, lit_int]
    simp only [List.append_assoc, List.cons_append]
    exact dropPrefix?_head_ne _ _ (by decide)
  rw [mapTok, h0, h1]
  simp only [List.append_assoc, dropPrefix?_append]
  have e : n ++ (L "_sz = " ++ (natStr k ++ [';'])) = (n ++ L "_sz") ++ ' ' :: (L " = " ++ (natStr k ++ [';'])).tail := by
    simp only [lit_sz, lit_sz3, lit_eq, List.cons_append, List.nil_append, List.append_assoc, List.tail_cons]
  have hn' : ' ' ∉ n ++ L "_sz" := by
    rw [lit_sz3]; exact not_mem_append hn (by decide)
  rw [e, takeWhile_ne_append hn', dropWhile_ne_append hn', dropSuffix?_append]
  have e2 : ' ' :: (L " = " ++ (natStr k ++ [';'])).tail = L " = " ++ (natStr k ++ [';']) := by
    simp only [lit_eq, List.cons_append, List.nil_append, List.tail_cons]
  rw [e2, dropPrefix?_append]
  simp only [dropSuffix?_append, parseNat?_natStr, Option.map_some]


/-- The tokens of one enum block. -/
def blockToks (e : Txt × List (Txt × Txt)) : List MapTok :=
  MapTok.start e.1 :: e.2.map (fun kv => MapTok.row kv.1 kv.2) ++ [MapTok.sz e.1 e.2.length]

theorem filterMap_rows (w : Nat) (l : List (Txt × Txt)) (hl : ∀ kv ∈ l, '"' ∉ kv.1 ∧ kv.2.head? ≠ some ' ') :
    (l.map (mapRowLine w)).filterMap mapTok = l.map (fun kv => MapTok.row kv.1 kv.2) := by
  induction l with
  | nil => rfl
  | cons kv l ih =>
    have := hl kv List.mem_cons_self
    obtain ⟨k, v⟩ := kv
    simp only [List.map_cons, List.filterMap_cons, mapTok_row w this.1 this.2]
    rw [ih (fun x hx => hl x (List.mem_cons_of_mem _ hx))]

theorem filterMap_mapBlock {e : Txt × List (Txt × Txt)}
    (h : ' ' ∉ e.1 ∧ ∀ kv ∈ e.2, '"' ∉ kv.1 ∧ kv.2.head? ≠ some ' ') :
    (mapBlock e).filterMap mapTok = blockToks e := by
  obtain ⟨n, items⟩ := e
  simp only at h
  unfold mapBlock blockToks
  simp only [List.cons_append, List.nil_append, List.filterMap_cons, List.filterMap_append, List.filterMap_nil]
  rw [mapTok_comment, mapTok_start, mapTok_close, mapTok_sz _ h.1, mapTok_nil, filterMap_rows _ _ h.2]

theorem foldl_rows (done : MapRows) (n : Txt) (acc items : List (Txt × Txt)) (rest : List MapTok) :
    (items.map (fun kv => MapTok.row kv.1 kv.2) ++ rest).foldl mapStep (some ⟨done, some (n, acc)⟩)
      = rest.foldl mapStep (some ⟨done, some (n, acc ++ items)⟩) := by
  induction items generalizing acc with
  | nil => simp
  | cons kv items ih => simp [mapStep, ih]

theorem foldl_block (done : MapRows) (e : Txt × List (Txt × Txt)) (rest : List MapTok) :
    (blockToks e ++ rest).foldl mapStep (some ⟨done, none⟩) = rest.foldl mapStep (some ⟨done ++ [e], none⟩) := by
  obtain ⟨n, items⟩ := e
  simp only [blockToks, List.cons_append, List.foldl_cons, mapStep, List.append_assoc]
  rw [foldl_rows]
  simp [mapStep]

theorem foldl_blocks (done rows : MapRows) :
    (rows.flatMap blockToks).foldl mapStep (some ⟨done, none⟩) = some ⟨done ++ rows, none⟩ := by
  induction rows generalizing done with
  | nil => simp
  | cons e rows ih =>
    rw [List.flatMap_cons, foldl_block, ih]; simp


theorem mapBlock_no_nl {e : Txt × List (Txt × Txt)}
    (h : '\n' ∉ e.1 ∧ ∀ kv ∈ e.2, '\n' ∉ kv.1 ∧ '\n' ∉ kv.2) : ∀ l ∈ mapBlock e, '\n' ∉ l := by
  obtain ⟨n, items⟩ := e
  intro l hl
  simp only [mapBlock, List.cons_append, List.nil_append, List.mem_cons, List.mem_append, List.mem_map,
    List.not_mem_nil, or_false] at hl
  have hd : '\n' ∉ natStr items.length := not_mem_natStr (by decide)
  have hn := h.1
  rcases hl with rfl | rfl | ⟨kv, hkv, rfl⟩ | rfl | rfl | rfl
  · exact not_mem_append (by simp [L]) hn
  · exact not_mem_append (not_mem_append (by simp [L]) hn) (by simp [L])
  · have := h.2 kv hkv
    simp only [mapRowLine, ljust, quote, spaces]
    refine not_mem_append (not_mem_append (not_mem_append (not_mem_append (by simp [L]) ?_) (by simp)) this.2) (by simp [L])
    refine not_mem_append (not_mem_append ?_ (by simp)) ?_
    · simp [this.1]
    · simp [List.mem_replicate]
  · simp [L]
  · exact not_mem_append (not_mem_append (not_mem_append (not_mem_append (by simp [L]) hn) (by simp [L])) hd) (by simp)
  · simp

theorem extractMap_renderMap {rows : MapRows} (h : MapWF rows) : extractMap (renderMap rows) = some rows := by
  unfold extractMap renderMap
  rw [List.append_assoc, dropPrefix?_append, Option.bind_some, dropSuffix?_append, Option.bind_some]
  have hnl : ∀ l ∈ rows.flatMap mapBlock, '\n' ∉ l := by
    intro l hl
    obtain ⟨e, he, hle⟩ := List.mem_flatMap.1 hl
    have := h e he
    exact mapBlock_no_nl ⟨this.1, fun kv hkv => ⟨(this.2.2 kv hkv).2.1, (this.2.2 kv hkv).2.2.1⟩⟩ l hle
  have hlines : (linesOf (joinNL (rows.flatMap mapBlock))).filterMap mapTok = (rows.flatMap mapBlock).filterMap mapTok := by
    by_cases hne : rows.flatMap mapBlock = []
    · rw [hne]; simp [joinNL, joinWith, linesOf, splitCh, mapTok_nil]
    · rw [linesOf_joinNL hnl hne]
  have htoks : (rows.flatMap mapBlock).filterMap mapTok = rows.flatMap blockToks := by
    clear hnl hlines
    induction rows with
    | nil => rfl
    | cons e rows ih =>
      have he := h e List.mem_cons_self
      simp only [List.flatMap_cons, List.filterMap_append]
      rw [filterMap_mapBlock ⟨he.2.1, fun kv hkv => ⟨(he.2.2 kv hkv).1, (he.2.2 kv hkv).2.2.2⟩⟩,
        ih (fun x hx => h x (List.mem_cons_of_mem _ hx))]
  rw [hlines, htoks, foldl_blocks]
  simp [mapFinish]


/-! ## `mjcf_table.inc` -/

def IsSep (c : Char) : Prop := c = ' ' ∨ c = '\n' ∨ c = ','

theorem scan_out_sep {ws : Txt} (h : ∀ c ∈ ws, IsSep c) (r : Txt) : scan .out (ws ++ r) = scan .out r := by
  induction ws with
  | nil => rfl
  | cons c ws ih =>
    have hc : c = ' ' ∨ c = '\n' ∨ c = ',' := h c List.mem_cons_self
    rw [List.cons_append, scan, if_pos hc]
    exact ih (fun x hx => h x (List.mem_cons_of_mem _ hx))

theorem scan_inEntry_sep {ws : Txt} (h : ∀ c ∈ ws, IsSep c) (acc : List Txt) (r : Txt) :
    scan (.inEntry acc) (ws ++ r) = scan (.inEntry acc) r := by
  induction ws with
  | nil => rfl
  | cons c ws ih =>
    have hc : c = ' ' ∨ c = '\n' ∨ c = ',' := h c List.mem_cons_self
    have h1 : c ≠ '"' := by rcases hc with rfl | rfl | rfl <;> decide
    have h2 : c ≠ '}' := by rcases hc with rfl | rfl | rfl <;> decide
    rw [List.cons_append, scan, if_neg h1, if_neg h2, if_pos hc]
    exact ih (fun x hx => h x (List.mem_cons_of_mem _ hx))

theorem scan_inStr {s : Txt} (h : '"' ∉ s) (acc : List Txt) (cur r : Txt) :
    scan (.inStr acc cur) (s ++ '"' :: r) = scan (.inEntry (acc ++ [cur ++ s])) r := by
  induction s generalizing cur with
  | nil => simp [scan]
  | cons c s ih =>
    have hc : c ≠ '"' := fun e => h (e ▸ List.mem_cons_self)
    rw [List.cons_append, scan, if_neg hc, ih (fun hx => h (List.mem_cons_of_mem _ hx))]
    simp

theorem scan_quote {s : Txt} (h : '"' ∉ s) (acc : List Txt) (r : Txt) :
    scan (.inEntry acc) (quote s ++ r) = scan (.inEntry (acc ++ [s])) r := by
  have : quote s ++ r = '"' :: (s ++ '"' :: r) := by simp [quote]
  rw [this, scan, if_pos rfl, scan_inStr h]; simp

theorem spaces_sep (n : Nat) : ∀ c ∈ spaces n, IsSep c := by
  intro c hc
  simp only [spaces, List.mem_replicate] at hc
  exact Or.inl hc.2

def consEntry (e : List Txt) (p : List (List Txt) × Txt) : List (List Txt) × Txt := (e :: p.1, p.2)

theorem wrapGo_ne_nil (indent : Nat) (line : Txt) (ps : List Txt) : wrapGo indent line ps ≠ [] := by
  induction ps generalizing line with
  | nil => simp [wrapGo]
  | cons p ps ih =>
    simp only [wrapGo]
    split
    · simp
    · exact ih _

/-- Scanning the lines of a wrapped row, started after a prefix that leaves the scanner inside the entry. -/
theorem scan_wrapGo (indent : Nat) (ps : List Txt) (hps : ∀ p ∈ ps, '"' ∉ p) (rest : Txt) :
    ∀ (pre line : Txt) (acc : List Txt), (∀ X, scan .out (pre ++ (line ++ X)) = scan (.inEntry acc) X) →
      scan .out (pre ++ (unlines (wrapGo indent line (ps.map quote)) ++ rest))
        = (scan .out rest).map (consEntry (acc ++ ps)) := by
  induction ps with
  | nil =>
    intro pre line acc h
    have e : unlines (wrapGo indent line ([] : List Txt)) ++ rest = line ++ ('}' :: ([',', '\n'] ++ rest)) := by
      simp [wrapGo, lit_rc]
    rw [List.map_nil, e, h, scan, if_neg (by decide), if_pos rfl,
      scan_out_sep (by intro c hc; simp only [List.mem_cons, List.not_mem_nil, or_false] at hc; rcases hc with rfl | rfl <;> simp [IsSep])]
    simp only [List.append_nil]; rfl
  | cons p ps ih =>
    intro pre line acc h
    have hp := hps p List.mem_cons_self
    have hps' := fun x hx => hps x (List.mem_cons_of_mem _ hx)
    simp only [List.map_cons, wrapGo]
    split
    · -- wrapped: the line ends with a comma, the part starts the next line
      have e : pre ++ (unlines ((line ++ [',']) :: wrapGo indent (spaces (indent + 4) ++ quote p) (ps.map quote)) ++ rest)
          = (pre ++ line ++ [',', '\n']) ++ (unlines (wrapGo indent (spaces (indent + 4) ++ quote p) (ps.map quote)) ++ rest) := by
        simp
      rw [e, ih hps' (pre ++ line ++ [',', '\n']) (spaces (indent + 4) ++ quote p) (acc ++ [p])]
      · simp
      · intro X
        have e2 : pre ++ line ++ [',', '\n'] ++ (spaces (indent + 4) ++ quote p ++ X)
            = pre ++ (line ++ (([',', '\n'] ++ spaces (indent + 4)) ++ (quote p ++ X))) := by simp
        rw [e2, h, scan_inEntry_sep, scan_quote hp]
        intro c hc
        simp only [List.mem_append, List.mem_cons, List.not_mem_nil, or_false] at hc
        rcases hc with (rfl | rfl) | hc
        · simp [IsSep]
        · simp [IsSep]
        · exact spaces_sep _ c hc
    · rw [ih hps' pre (line ++ L ", " ++ quote p) (acc ++ [p])]
      · simp
      · intro X
        have e2 : pre ++ (line ++ L ", " ++ quote p ++ X) = pre ++ (line ++ ([',', ' '] ++ (quote p ++ X))) := by
          simp [show L ", " = [',', ' '] from rfl]
        rw [e2, h, scan_inEntry_sep, scan_quote hp]
        intro c hc
        simp only [List.mem_cons, List.not_mem_nil, or_false] at hc
        rcases hc with rfl | rfl <;> simp [IsSep]

theorem scan_wrapRow (indent : Nat) (parts : List Txt) (hne : parts ≠ []) (hps : ∀ p ∈ parts, '"' ∉ p) (rest : Txt) :
    scan .out (unlines (wrapRow indent (parts.map quote)) ++ rest) = (scan .out rest).map (consEntry parts) := by
  cases parts with
  | nil => exact absurd rfl hne
  | cons p ps =>
    have hp := hps p List.mem_cons_self
    have := scan_wrapGo indent ps (fun x hx => hps x (List.mem_cons_of_mem _ hx)) rest [] (spaces indent ++ '{' :: quote p) [p]
      (by
        intro X
        have e : ([] : Txt) ++ (spaces indent ++ '{' :: quote p ++ X) = spaces indent ++ ('{' :: (quote p ++ X)) := by simp
        rw [e, scan_out_sep (spaces_sep _), scan, if_neg (by decide), if_pos rfl, scan_quote hp]; simp)
    simpa [wrapRow] using this

/-- Lexical well-formedness of the table items: no double quote in a name (identifiers, cardinalities), rows are
    non-empty, constraint specs are single-line. -/
def TableWF (items : List TItem) : Prop :=
  ∀ it ∈ items, match it with
    | .row _ parts cons => parts ≠ [] ∧ (∀ p ∈ parts, '"' ∉ p) ∧ ∀ c ∈ cons, c.1 ≠ '\n' ∧ '\n' ∉ c.2
    | _ => True

theorem scan_items (items : List TItem) (h : TableWF items) (rest : Txt) :
    scan .out (unlines (items.flatMap itemLines) ++ rest)
      = (scan .out rest).map (fun p => (itemEntries items ++ p.1, p.2)) := by
  induction items with
  | nil => simp [itemEntries]
  | cons it items ih =>
    have hit := h it List.mem_cons_self
    have ih' := ih (fun x hx => h x (List.mem_cons_of_mem _ hx))
    rw [List.flatMap_cons, unlines_append, List.append_assoc]
    cases it with
    | row i parts cons =>
      simp only at hit
      rw [show itemLines (.row i parts cons) = wrapRow i (parts.map quote) from rfl,
        scan_wrapRow i parts hit.1 hit.2.1, ih']
      simp [itemEntries, consEntry, Option.map_map, Function.comp_def]
    | opn i =>
      have e : itemLines (.opn i) = wrapRow i ([['<']].map quote) := by
        simp [itemLines, wrapRow, wrapGo, quote, show L "{\"<\"}," = ['{', '"', '<', '"', '}', ','] from rfl, lit_rc]
      rw [e, scan_wrapRow i [['<']] (by simp) (by simp), ih']
      simp [itemEntries, consEntry, Option.map_map, Function.comp_def]
    | cls i =>
      have e : itemLines (.cls i) = wrapRow i ([['>']].map quote) := by
        simp [itemLines, wrapRow, wrapGo, quote, show L "{\">\"}," = ['{', '"', '>', '"', '}', ','] from rfl, lit_rc]
      rw [e, scan_wrapRow i [['>']] (by simp) (by simp), ih']
      simp [itemEntries, consEntry, Option.map_map, Function.comp_def]
    | blank =>
      have e : unlines (itemLines .blank) ++ (unlines (items.flatMap itemLines) ++ rest)
          = ['\n'] ++ (unlines (items.flatMap itemLines) ++ rest) := by simp [itemLines]
      rw [e, scan_out_sep (by intro c hc; simp at hc; simp [hc, IsSep]), ih']
      simp [itemEntries]

theorem parseCon_conLine (c : Nat × Char × Txt) : parseCon (conLine c) = some c := by
  obtain ⟨n, k, spec⟩ := c
  unfold parseCon conLine
  simp only [List.append_assoc, dropPrefix?_append]
  have hd : ',' ∉ natStr n := not_mem_natStr (by decide)
  have e : natStr n ++ (L ", '" ++ ([k] ++ (L "', " ++ (quote spec ++ L "},"))))
      = natStr n ++ ',' :: ([' ', '\''] ++ (k :: (L "', \"" ++ (spec ++ L "\"},")))) := by
    simp [quote, show L ", '" = [',', ' ', '\''] from rfl, show L "', " = ['\'', ',', ' '] from rfl,
      show L "', \"" = ['\'', ',', ' ', '"'] from rfl, show L "\"}," = ['"', '}', ','] from rfl, lit_rc]
  rw [e, takeWhile_ne_append hd, dropWhile_ne_append hd, parseNat?_natStr]
  have e2 : ',' :: ([' ', '\''] ++ (k :: (L "', \"" ++ (spec ++ L "\"},")))) = L ", '" ++ (k :: (L "', \"" ++ (spec ++ L "\"},"))) := by
    simp [show L ", '" = [',', ' ', '\''] from rfl]
  rw [e2, dropPrefix?_append]
  simp only [dropPrefix?_append, dropSuffix?_append, Option.map_some]

theorem allSome_map_some {α : Type} (l : List α) : allSome (l.map some) = some l := by
  induction l with
  | nil => rfl
  | cons x l ih => simp [allSome, ih]

theorem mem_conRows {x : Nat × Char × Txt} {n : Nat} {items : List TItem} (h : x ∈ conRows n items) :
    ∃ i parts cons, TItem.row i parts cons ∈ items ∧ (x.2.1, x.2.2) ∈ cons := by
  induction items generalizing n with
  | nil => simp [conRows] at h
  | cons it items ih =>
    cases it with
    | row i parts cons =>
      simp only [conRows, List.mem_append, List.mem_map] at h
      rcases h with ⟨c, hc, rfl⟩ | h
      · exact ⟨i, parts, cons, List.mem_cons_self, by simpa using hc⟩
      · obtain ⟨i', p', c', hm, hx⟩ := ih h
        exact ⟨i', p', c', List.mem_cons_of_mem _ hm, hx⟩
    | opn i =>
      simp only [conRows] at h
      obtain ⟨i', p', c', hm, hx⟩ := ih h
      exact ⟨i', p', c', List.mem_cons_of_mem _ hm, hx⟩
    | cls i =>
      simp only [conRows] at h
      obtain ⟨i', p', c', hm, hx⟩ := ih h
      exact ⟨i', p', c', List.mem_cons_of_mem _ hm, hx⟩
    | blank =>
      simp only [conRows] at h
      obtain ⟨i', p', c', hm, hx⟩ := ih h
      exact ⟨i', p', c', List.mem_cons_of_mem _ hm, hx⟩

theorem conLine_no_nl {c : Nat × Char × Txt} (h1 : c.2.1 ≠ '\n') (h2 : '\n' ∉ c.2.2) : '\n' ∉ conLine c := by
  obtain ⟨n, k, spec⟩ := c
  simp only at h1 h2
  unfold conLine
  have hd : '\n' ∉ natStr n := not_mem_natStr (by decide)
  refine not_mem_append (not_mem_append (not_mem_append (not_mem_append (not_mem_append (not_mem_append (by simp [L]) hd) (by simp [L])) ?_) (by simp [L])) ?_) (by simp [L])
  · simpa using fun e => h1 e.symm
  · simp [quote, h2]

theorem conLine_ne_nil (c : Nat × Char × Txt) : conLine c ≠ [] := by
  simp [conLine, lit_row3]

theorem extractTable_renderTable {items : List TItem} (h : TableWF items) (hne : items.flatMap itemLines ≠ []) :
    extractTable (renderTable items) = some (tableFacts items) := by
  unfold extractTable renderTable
  have e1 : tableHeader ++ tableOpen ++ joinNL (items.flatMap itemLines) ++ tableMid
        ++ joinNL ((conRows 0 items).map conLine) ++ tableEnd
      = (tableHeader ++ tableOpen) ++ (unlines (items.flatMap itemLines)
        ++ (('}' :: tableMidRest) ++ (joinNL ((conRows 0 items).map conLine) ++ tableEnd))) := by
    rw [← joinNL_append_nl hne]
    simp [tableMid]
  rw [e1, dropPrefix?_append, Option.bind_some, scan_items items h]
  have e2 : scan .out ('}' :: tableMidRest ++ (joinNL ((conRows 0 items).map conLine) ++ tableEnd))
      = some ([], '}' :: tableMidRest ++ (joinNL ((conRows 0 items).map conLine) ++ tableEnd)) := by
    simp [scan]
  rw [e2]
  simp only [Option.map_some, Option.bind_some, List.append_nil, dropPrefix?_append, dropSuffix?_append]
  have hnl : ∀ l ∈ (conRows 0 items).map conLine, '\n' ∉ l := by
    intro l hl
    obtain ⟨c, hc, rfl⟩ := List.mem_map.1 hl
    obtain ⟨i, parts, cons, hm, hx⟩ := mem_conRows hc
    have := h _ hm
    simp only at this
    have := this.2.2 _ hx
    exact conLine_no_nl this.1 this.2
  have hl : (linesOf (joinNL ((conRows 0 items).map conLine))).filter (· ≠ []) = (conRows 0 items).map conLine := by
    by_cases hc : (conRows 0 items).map conLine = []
    · rw [hc]; simp [joinNL, joinWith, linesOf, splitCh]
    · rw [linesOf_joinNL hnl hc, List.filter_eq_self]
      intro l hl
      obtain ⟨c, _, rfl⟩ := List.mem_map.1 hl
      simpa using conLine_ne_nil c
  rw [hl, List.map_map]
  have : parseCon ∘ conLine = some := funext parseCon_conLine
  rw [this, allSome_map_some]
  rfl


/-! ## `mjcf_default_table.inc` -/

theorem field_spec {c : Char} {f : Txt} (hc : c ∉ f) (l' rest : Txt) :
    field c (c :: l') (f ++ ((c :: l') ++ rest)) = some (f, rest) := by
  unfold field
  rw [List.cons_append, takeWhile_ne_append hc, dropWhile_ne_append hc]
  rw [show c :: (l' ++ rest) = (c :: l') ++ rest from rfl, dropPrefix?_append]
  rfl

theorem splitCS_join {vs : List Txt} (hne : vs ≠ []) (h : ∀ v ∈ vs, ',' ∉ v) : splitCS (joinWith (L ", ") vs) = vs := by
  have single : ∀ v : Txt, ',' ∉ v → splitCS v = [v] := by
    intro v hv
    induction v with
    | nil => rfl
    | cons a v ih =>
      have ha : a ≠ ',' := fun e => hv (e ▸ List.mem_cons_self)
      have := ih (fun hx => hv (List.mem_cons_of_mem _ hx))
      cases v with
      | nil => simp [splitCS, ha]
      | cons b v => rw [splitCS, this]; exact fun _ e _ => ha e
  have step : ∀ (v r : Txt), ',' ∉ v → splitCS (v ++ (',' :: ' ' :: r)) = v :: splitCS r := by
    intro v r hv
    induction v with
    | nil => simp [splitCS]
    | cons a v ih =>
      have ha : a ≠ ',' := fun e => hv (e ▸ List.mem_cons_self)
      have := ih (fun hx => hv (List.mem_cons_of_mem _ hx))
      rw [List.cons_append, splitCS, this]
      exact fun _ e _ => ha e
  induction vs with
  | nil => exact absurd rfl hne
  | cons v vs ih =>
    have hv := h v List.mem_cons_self
    cases vs with
    | nil => simpa [joinWith] using single v hv
    | cons w ws =>
      have := ih (by simp) (fun x hx => h x (List.mem_cons_of_mem _ hx))
      have e : L ", " = [',', ' '] := rfl
      rw [e] at this ⊢
      rw [joinWith_cons_cons]
      simp only [List.append_assoc, List.cons_append, List.nil_append]
      rw [step v _ hv, this]

/-- Lexical well-formedness of a default-table row (identifiers, C type dimensions, `repr` / `(double)CONST` values). -/
def DRowWF (r : DRow) : Prop :=
  '"' ∉ r.attr ∧ '\n' ∉ r.attr ∧ ',' ∉ r.spec ∧ '\n' ∉ r.spec ∧ ')' ∉ r.path ∧ '\n' ∉ r.path ∧
  ',' ∉ r.len ∧ '\n' ∉ r.len ∧ ∀ v ∈ r.values, ',' ∉ v ∧ '}' ∉ v ∧ '\n' ∉ v

theorem litO : L "\", (int)offsetof(" = '"' :: L ", (int)offsetof(" := rfl
theorem litC : L ", " = ',' :: [' '] := rfl
theorem litP : L "), " = ')' :: L ", " := rfl
theorem litB : L ", {" = ',' :: L " {" := rfl
theorem litE : L "}}," = '}' :: L "}," := rfl

def dVals (r : DRow) : Txt := if r.values.isEmpty then ['0'] else joinWith (L ", ") r.values
def dUnset (r : DRow) : Txt := if r.unset then ['1'] else ['0']

theorem dRowLine_eq (r : DRow) :
    dRowLine r = L "  {\"" ++ (r.attr ++ (('"' :: L ", (int)offsetof(") ++ (r.spec ++ ((',' :: [' ']) ++ (r.path ++ ((')' :: L ", ")
      ++ (natStr r.kind ++ ((',' :: [' ']) ++ (r.len ++ ((',' :: [' ']) ++ (natStr r.ndecl ++ ((',' :: [' '])
      ++ (dUnset r ++ ((',' :: L " {") ++ (dVals r ++ (('}' :: L "},") ++ [])))))))))))))))) := by
  simp only [dRowLine, dVals, dUnset, quote, lit_row, lit_row3, litC, litP, litB, litE, List.cons_append, List.nil_append,
    List.append_assoc, List.append_nil]

theorem not_mem_joinWith {c : Char} {sep : Txt} {vs : List Txt} (hs : c ∉ sep) (h : ∀ v ∈ vs, c ∉ v) :
    c ∉ joinWith sep vs := by
  induction vs with
  | nil => simp [joinWith]
  | cons v vs ih =>
    cases vs with
    | nil => simpa [joinWith] using h v List.mem_cons_self
    | cons w ws =>
      rw [joinWith_cons_cons]
      exact not_mem_append (not_mem_append (h v List.mem_cons_self) hs) (ih (fun x hx => h x (List.mem_cons_of_mem _ hx)))

theorem parseDRow_dRowLine {r : DRow} (h : DRowWF r) : parseDRow (dRowLine r) = some r := by
  obtain ⟨h1, _, h2, _, h3, _, h4, _, h5⟩ := h
  have hk : ',' ∉ natStr r.kind := not_mem_natStr (by decide)
  have hn : ',' ∉ natStr r.ndecl := not_mem_natStr (by decide)
  have hu : ',' ∉ dUnset r := by unfold dUnset; split <;> simp
  have hv : '}' ∉ dVals r := by
    unfold dVals; split
    · simp
    · exact not_mem_joinWith (by simp [litC]) (fun v hv => (h5 v hv).2.1)
  rw [dRowLine_eq, parseDRow, dropPrefix?_append, Option.bind_some]
  simp only [litO, litC, litP, litB, litE]
  rw [field_spec h1, Option.bind_some]; simp only
  rw [field_spec h2, Option.bind_some]; simp only
  rw [field_spec h3, Option.bind_some]; simp only
  rw [field_spec hk, Option.bind_some]; simp only
  rw [field_spec h4, Option.bind_some]; simp only
  rw [field_spec hn, Option.bind_some]; simp only
  rw [field_spec hu, Option.bind_some]; simp only
  rw [field_spec hv, Option.bind_some]; simp only
  rw [parseNat?_natStr, Option.bind_some, parseNat?_natStr, Option.bind_some]
  obtain ⟨attr, spec, path, kind, len, unset, values⟩ := r
  simp only [DRow.ndecl, dVals, dUnset] at *
  cases values with
  | nil => cases unset <;> simp
  | cons v vs =>
    have hs := splitCS_join (vs := v :: vs) (by simp) (fun x hx => (h5 x hx).1)
    cases unset <;> simp [hs]

theorem litI : L "\", " = '"' :: L ", " := rfl
theorem litS : L ", (int)(sizeof(" = ',' :: L " (int)(sizeof(" := rfl

theorem parseIdx_dIndexLine {key : Txt} (h1 : '"' ∉ rootOf key) (h2 : ',' ∉ arrayOf key) :
    parseIdx (dIndexLine key) = some (rootOf key, arrayOf key) := by
  have e : dIndexLine key = L "  {\"" ++ (rootOf key ++ (('"' :: L ", ") ++ (arrayOf key ++ ((',' :: L " (int)(sizeof(")
      ++ (arrayOf key ++ L ") / sizeof(" ++ arrayOf key ++ L "[0]))},"))))) := by
    simp only [dIndexLine, quote, lit_row, lit_row3, litC, litS, List.cons_append, List.nil_append, List.append_assoc]
  rw [e, parseIdx, dropPrefix?_append, Option.bind_some]
  simp only [litI, litS]
  rw [field_spec h1, Option.bind_some]; simp only
  rw [field_spec h2, Option.bind_some]; simp only
  simp

theorem parseDRow_close : parseDRow (L "};") = none := by
  rw [parseDRow, lit_row, lit_close, dropPrefix?_head_ne _ _ (by decide)]; rfl

theorem parseIdx_close : parseIdx (L "};") = none := by
  rw [parseIdx, lit_row, lit_close, dropPrefix?_head_ne _ _ (by decide)]; rfl

theorem litEntry : L "static const mjXDefaultEntry " = 's' :: (L "tatic const mjXDefault" ++ ('E' :: L "ntry ")) := rfl
theorem litIdxStart : dIdxStart = 's' :: (L "tatic const mjXDefault" ++ ('T' :: L "able kDefaultTables[] = {")) := rfl

def S0 (done : List (Txt × List DRow)) : Option DAcc := some ⟨done, none, none, false⟩

theorem dStep_start (done : List (Txt × List DRow)) (arr : Txt) :
    dStep (S0 done) (L "static const mjXDefaultEntry " ++ (arr ++ L "[] = {")) = some ⟨done, some (arr, []), none, false⟩ := by
  simp only [dStep, S0, Option.bind_some, Bool.false_eq_true, if_false, dropPrefix?_append,
    dropSuffix?_append, Option.map_some]

theorem dStep_row (done : List (Txt × List DRow)) (arr : Txt) (rows : List DRow) {r : DRow} (h : DRowWF r) :
    dStep (some ⟨done, some (arr, rows), none, false⟩) (dRowLine r) = some ⟨done, some (arr, rows ++ [r]), none, false⟩ := by
  simp only [dStep, Option.bind_some, Bool.false_eq_true, if_false, parseDRow_dRowLine h]

theorem dStep_close (done : List (Txt × List DRow)) (arr : Txt) (rows : List DRow) :
    dStep (some ⟨done, some (arr, rows), none, false⟩) (L "};") = S0 (done ++ [(arr, rows)]) := by
  simp only [dStep, Option.bind_some, Bool.false_eq_true, if_false, parseDRow_close, if_true, S0]

theorem dStep_blank (done : List (Txt × List DRow)) : dStep (S0 done) [] = S0 done := by
  simp only [dStep, S0, Option.bind_some, Bool.false_eq_true, if_false, litEntry, dropPrefix?_cons_nil, if_true]

theorem dStep_idxStart (done : List (Txt × List DRow)) : dStep (S0 done) dIdxStart = some ⟨done, none, some [], false⟩ := by
  have e : dropPrefix? (L "static const mjXDefaultEntry ") dIdxStart = none := by
    rw [litEntry, litIdxStart]
    simp only [dropPrefix?, if_true, dropPrefix?_common]
    exact dropPrefix?_head_ne _ _ (by decide)
  have ne : dIdxStart ≠ [] := by rw [litIdxStart]; simp
  simp only [dStep, S0, Option.bind_some, Bool.false_eq_true, if_false, e, ne, if_true]

theorem dStep_idxRow (done : List (Txt × List DRow)) (rows : List (Txt × Txt)) {key : Txt}
    (h1 : '"' ∉ rootOf key) (h2 : ',' ∉ arrayOf key) :
    dStep (some ⟨done, none, some rows, false⟩) (dIndexLine key)
      = some ⟨done, none, some (rows ++ [(rootOf key, arrayOf key)]), false⟩ := by
  simp only [dStep, Option.bind_some, Bool.false_eq_true, if_false, parseIdx_dIndexLine h1 h2]

theorem dStep_idxClose (done : List (Txt × List DRow)) (rows : List (Txt × Txt)) :
    dStep (some ⟨done, none, some rows, false⟩) (L "};") = some ⟨done, none, some rows, true⟩ := by
  simp only [dStep, Option.bind_some, Bool.false_eq_true, if_false, parseIdx_close, if_true]

theorem dStep_tail (a : DAcc) (h : a.closed = true) {l : Txt} (hl : l ∈ dTailLines) : dStep (some a) l = some a := by
  simp only [dStep, Option.bind_some, h, if_true, hl]

/-- Well-formedness of the (sorted) default tables: keys are `Struct` or `Struct.sub` identifiers, rows are well-formed. -/
def DefaultWF (st : List (Txt × List DRow)) : Prop :=
  ∀ e ∈ st, '\n' ∉ e.1 ∧ ',' ∉ e.1 ∧ '"' ∉ e.1 ∧ ∀ r ∈ e.2, DRowWF r

theorem foldl_dRows (done : List (Txt × List DRow)) (arr : Txt) (acc rows : List DRow) (h : ∀ r ∈ rows, DRowWF r)
    (rest : List Txt) :
    (rows.map dRowLine ++ rest).foldl dStep (some ⟨done, some (arr, acc), none, false⟩)
      = rest.foldl dStep (some ⟨done, some (arr, acc ++ rows), none, false⟩) := by
  induction rows generalizing acc with
  | nil => simp
  | cons r rows ih =>
    rw [List.map_cons, List.cons_append, List.foldl_cons, dStep_row _ _ _ (h r List.mem_cons_self),
      ih _ (fun x hx => h x (List.mem_cons_of_mem _ hx))]
    simp

theorem foldl_dTable (done : List (Txt × List DRow)) (e : Txt × List DRow) (h : ∀ r ∈ e.2, DRowWF r) (rest : List Txt) :
    (dTableLines e ++ rest).foldl dStep (S0 done) = rest.foldl dStep (S0 (done ++ [(arrayOf e.1, e.2)])) := by
  obtain ⟨k, rows⟩ := e
  simp only [dTableLines, List.cons_append, List.nil_append, List.append_assoc, List.foldl_cons]
  rw [dStep_start, foldl_dRows _ _ _ _ h]
  simp only [List.cons_append, List.nil_append, List.foldl_cons, dStep_close, dStep_blank]

theorem foldl_dTables (done st : List (Txt × List DRow)) (h : ∀ e ∈ st, ∀ r ∈ e.2, DRowWF r) (rest : List Txt) :
    (st.flatMap dTableLines ++ rest).foldl dStep (S0 done)
      = rest.foldl dStep (S0 (done ++ st.map fun e => (arrayOf e.1, e.2))) := by
  induction st generalizing done with
  | nil => simp
  | cons e st ih =>
    rw [List.flatMap_cons, List.append_assoc, foldl_dTable _ _ (h e List.mem_cons_self),
      ih _ (fun x hx => h x (List.mem_cons_of_mem _ hx))]
    simp

theorem foldl_dIdx (done : List (Txt × List DRow)) (acc : List (Txt × Txt)) (keys : List Txt)
    (h : ∀ k ∈ keys, '"' ∉ rootOf k ∧ ',' ∉ arrayOf k) (rest : List Txt) :
    (keys.map dIndexLine ++ rest).foldl dStep (some ⟨done, none, some acc, false⟩)
      = rest.foldl dStep (some ⟨done, none, some (acc ++ keys.map fun k => (rootOf k, arrayOf k)), false⟩) := by
  induction keys generalizing acc with
  | nil => simp
  | cons k keys ih =>
    have hk := h k List.mem_cons_self
    rw [List.map_cons, List.cons_append, List.foldl_cons, dStep_idxRow _ _ hk.1 hk.2,
      ih _ (fun x hx => h x (List.mem_cons_of_mem _ hx))]
    simp

theorem zipIdx_maps (st : List (Txt × List DRow)) :
    zipIdx (st.map fun e => (arrayOf e.1, e.2)) (st.map fun e => (rootOf e.1, arrayOf e.1))
      = some (st.map fun e => (arrayOf e.1, rootOf e.1, e.2)) := by
  induction st with
  | nil => rfl
  | cons e st ih => simp [zipIdx, ih]

theorem not_mem_arrayOf {c : Char} {k : Txt} (hc : c ∉ k) (h1 : c ≠ '_') (h2 : c ∉ L "kDefaults_") : c ∉ arrayOf k := by
  unfold arrayOf dotsToUnderscore
  refine not_mem_append h2 ?_
  intro hm
  obtain ⟨x, hx, hxe⟩ := List.mem_map.1 hm
  by_cases hd : x = '.'
  · simp [hd] at hxe; exact h1 hxe.symm
  · simp [hd] at hxe; exact hc (hxe ▸ hx)

theorem not_mem_rootOf {c : Char} {k : Txt} (hc : c ∉ k) : c ∉ rootOf k := by
  unfold rootOf
  exact fun hm => hc ((List.takeWhile_sublist _).mem hm)

theorem dRowLine_no_nl {r : DRow} (h : DRowWF r) : '\n' ∉ dRowLine r := by
  obtain ⟨_, h1, _, h2, _, h3, _, h4, h5⟩ := h
  have hk : '\n' ∉ natStr r.kind := not_mem_natStr (by decide)
  have hn : '\n' ∉ natStr r.ndecl := not_mem_natStr (by decide)
  have hu : '\n' ∉ dUnset r := by unfold dUnset; split <;> simp
  have hv : '\n' ∉ dVals r := by
    unfold dVals; split
    · simp
    · exact not_mem_joinWith (by simp [litC]) (fun v hv => (h5 v hv).2.2)
  rw [dRowLine_eq]
  refine not_mem_append (by simp [L]) (not_mem_append h1 (not_mem_append (by simp [L]) (not_mem_append h2
    (not_mem_append (by simp) (not_mem_append h3 (not_mem_append (by simp [L]) (not_mem_append hk (not_mem_append (by simp)
    (not_mem_append h4 (not_mem_append (by simp) (not_mem_append hn (not_mem_append (by simp) (not_mem_append hu
    (not_mem_append (by simp [L]) (not_mem_append hv (by simp [L]))))))))))))))))

theorem dTableLines_no_nl {e : Txt × List DRow} (hk : '\n' ∉ e.1) (h : ∀ r ∈ e.2, DRowWF r) :
    ∀ l ∈ dTableLines e, '\n' ∉ l := by
  obtain ⟨k, rows⟩ := e
  intro l hl
  simp only [dTableLines, List.cons_append, List.nil_append, List.mem_cons, List.mem_append, List.mem_map,
    List.not_mem_nil, or_false] at hl
  rcases hl with rfl | ⟨r, hr, rfl⟩ | rfl | rfl
  · exact not_mem_append (not_mem_append (by simp [L]) (not_mem_arrayOf hk (by decide) (by simp [L]))) (by simp [L])
  · exact dRowLine_no_nl (h r hr)
  · simp [L]
  · simp

theorem dIndexLine_no_nl {k : Txt} (hk : '\n' ∉ k) : '\n' ∉ dIndexLine k := by
  have ha := not_mem_arrayOf hk (by decide) (by simp [L])
  unfold dIndexLine
  refine not_mem_append (not_mem_append (not_mem_append (not_mem_append (not_mem_append (not_mem_append (not_mem_append
    (not_mem_append (by simp [L]) ?_) (by simp [L])) ha) (by simp [L])) ha) (by simp [L])) ha) (by simp [L])
  simp [quote, not_mem_rootOf hk]

theorem extractDefault_renderDefault {ts : List (Txt × List DRow)} (h : DefaultWF (sortedTables ts)) :
    extractDefault (renderDefault ts) = some (defaultFacts ts) := by
  unfold extractDefault renderDefault defaultFacts
  generalize sortedTables ts = st at h ⊢
  simp only
  have tailMem : ∀ l ∈ [L "};", L "static const int kDefaultTablesN = (int)(sizeof(kDefaultTables) / sizeof(kDefaultTables[0]));",
      L "// clang-format on"], '\n' ∉ l := by
    intro l hl
    simp only [List.mem_cons, List.not_mem_nil, or_false] at hl
    rcases hl with rfl | rfl | rfl <;> simp [L]
  let body : List Txt := st.flatMap dTableLines ++ ([dIdxStart] ++ (st.map (fun e => dIndexLine e.1) ++
    [L "};", L "static const int kDefaultTablesN = (int)(sizeof(kDefaultTables) / sizeof(kDefaultTables[0]));",
     L "// clang-format on"]))
  have e1 : joinNL ([defaultHeader] ++ st.flatMap dTableLines ++ [L "static const mjXDefaultTable kDefaultTables[] = {"]
        ++ st.map (fun e => dIndexLine e.1) ++ [L "};",
          L "static const int kDefaultTablesN = (int)(sizeof(kDefaultTables) / sizeof(kDefaultTables[0]));",
          L "// clang-format on"]) ++ ['\n']
      = (defaultHeader ++ ['\n']) ++ unlines body := by
    rw [joinNL_append_nl (by simp)]
    simp [body, unlines_append, dIdxStart]
  rw [e1, dropPrefix?_append, Option.bind_some]
  have hnl : ∀ l ∈ body, '\n' ∉ l := by
    intro l hl
    simp only [body, List.mem_append, List.mem_flatMap, List.mem_cons, List.mem_map, List.not_mem_nil, or_false] at hl
    rcases hl with ⟨e, he, hle⟩ | rfl | ⟨e, he, rfl⟩ | hl
    · exact dTableLines_no_nl (h e he).1 (h e he).2.2.2 l hle
    · rw [litIdxStart]; simp [L]
    · exact dIndexLine_no_nl (h e he).1
    · exact tailMem l (by simpa using hl)
  rw [linesOf_unlines hnl]
  simp only [body, List.append_assoc]
  rw [← S0, foldl_dTables _ _ (fun e he => (h e he).2.2.2)]
  simp only [List.nil_append, List.cons_append, List.foldl_cons, dStep_idxStart]
  have emap : st.map (fun e => dIndexLine e.1) = (st.map (·.1)).map dIndexLine := by
    rw [List.map_map]; rfl
  rw [emap,
    foldl_dIdx _ _ _ (by
      intro k hk
      obtain ⟨e, he, rfl⟩ := List.mem_map.1 hk
      have := h e he
      exact ⟨not_mem_rootOf this.2.2.1, not_mem_arrayOf this.2.1 (by decide) (by simp [L])⟩)]
  simp only [List.foldl_cons, dStep_idxClose, List.nil_append]
  rw [dStep_tail _ rfl (by simp [dTailLines]), dStep_tail _ rfl (by simp [dTailLines]),
    dStep_tail _ rfl (by simp [dTailLines])]
  simp only [List.foldl_nil, dFinish, List.map_map, Function.comp_def]
  exact zipIdx_maps st

end MjProof.SchemaGen
