import MjProof.Model.SchemaGen
import MjProof.Model.SchemaGenExtract
/-
Round-trip lemmas for the C42 extraction functions: generic text lemmas, then one section per artefact.
-/
namespace MjProof.SchemaGen
open MjProof.Schema

/-! ## generic -/

theorem dropPrefix?_append (p r : Txt) : dropPrefix? p (p ++ r) = some r := by
  induction p with
  | nil => cases r <;> simp [dropPrefix?]
  | cons a p ih => simp [dropPrefix?, ih]

theorem dropSuffix?_append (p r : Txt) : dropSuffix? p (r ++ p) = some r := by
  simp [dropSuffix?, dropPrefix?_append]

theorem takeWhile_ne_append {c : Char} {k r : Txt} (h : c ∉ k) : (k ++ c :: r).takeWhile (· ≠ c) = k := by
  rw [List.takeWhile_append_of_pos]
  · simp
  · intro a ha; simp only [ne_eq, decide_not, Bool.not_eq_eq_eq_not, Bool.not_true, decide_eq_false_iff_not]
    rintro rfl; exact h ha

theorem dropWhile_ne_append {c : Char} {k r : Txt} (h : c ∉ k) : (k ++ c :: r).dropWhile (· ≠ c) = c :: r := by
  rw [List.dropWhile_append_of_pos]
  · simp
  · intro a ha; simp only [ne_eq, decide_not, Bool.not_eq_eq_eq_not, Bool.not_true, decide_eq_false_iff_not]
    rintro rfl; exact h ha

theorem takeWhile_ne_self {c : Char} {k : Txt} (h : c ∉ k) : k.takeWhile (· ≠ c) = k := by
  induction k with
  | nil => rfl
  | cons a k ih =>
    have ha : a ≠ c := fun e => h (e ▸ List.mem_cons_self)
    have := ih (fun hk => h (List.mem_cons_of_mem _ hk))
    simp only [List.takeWhile_cons, ne_eq, ha, not_false_eq_true, decide_true, if_true, this]

theorem dropWhile_ne_self {c : Char} {k : Txt} (h : c ∉ k) : k.dropWhile (· ≠ c) = [] := by
  induction k with
  | nil => rfl
  | cons a k ih =>
    have ha : a ≠ c := fun e => h (e ▸ List.mem_cons_self)
    have := ih (fun hk => h (List.mem_cons_of_mem _ hk))
    simp only [List.dropWhile_cons, ne_eq, ha, not_false_eq_true, decide_true, if_true, this]

theorem splitCh_ne_nil (c : Char) (t : Txt) : splitCh c t ≠ [] := by
  induction t with
  | nil => simp [splitCh]
  | cons x r ih =>
    simp only [splitCh]
    split
    · simp
    · split <;> simp

theorem splitCh_append {c : Char} {l : Txt} (h : c ∉ l) (r : Txt) : splitCh c (l ++ c :: r) = l :: splitCh c r := by
  induction l with
  | nil => simp [splitCh]
  | cons a l ih =>
    have ha : a ≠ c := fun e => h (e ▸ List.mem_cons_self)
    have := ih (fun hk => h (List.mem_cons_of_mem _ hk))
    simp [splitCh, ha, this]

theorem splitCh_of_not_mem {c : Char} {l : Txt} (h : c ∉ l) : splitCh c l = [l] := by
  induction l with
  | nil => simp [splitCh]
  | cons a l ih =>
    have ha : a ≠ c := fun e => h (e ▸ List.mem_cons_self)
    have := ih (fun hk => h (List.mem_cons_of_mem _ hk))
    simp [splitCh, ha, this]

/-- Lines each terminated by a newline. -/
def unlines (ls : List Txt) : Txt := ls.flatMap (· ++ ['\n'])

@[simp] theorem unlines_nil : unlines [] = [] := rfl
@[simp] theorem unlines_cons (l : Txt) (ls : List Txt) : unlines (l :: ls) = l ++ '\n' :: unlines ls := by
  simp [unlines]
theorem unlines_append (a b : List Txt) : unlines (a ++ b) = unlines a ++ unlines b := by
  simp [unlines]

theorem linesOf_unlines_append {ls : List Txt} (h : ∀ l ∈ ls, '\n' ∉ l) (t : Txt) :
    linesOf (unlines ls ++ t) = ls ++ linesOf t := by
  induction ls with
  | nil => simp
  | cons l ls ih =>
    have hl := h l List.mem_cons_self
    have := ih (fun x hx => h x (List.mem_cons_of_mem _ hx))
    simp only [unlines_cons, List.cons_append, List.append_assoc]
    unfold linesOf at *
    rw [splitCh_append hl, this]

theorem linesOf_unlines {ls : List Txt} (h : ∀ l ∈ ls, '\n' ∉ l) : linesOf (unlines ls) = ls ++ [[]] := by
  have := linesOf_unlines_append h []
  simpa [linesOf, splitCh] using this

theorem joinWith_cons_cons (sep x y : Txt) (r : List Txt) :
    joinWith sep (x :: y :: r) = x ++ sep ++ joinWith sep (y :: r) := rfl

theorem joinNL_snoc_nil (xs : List Txt) : joinNL (xs ++ [[]]) = unlines xs := by
  induction xs with
  | nil => rfl
  | cons x xs ih =>
    cases xs with
    | nil => simp [joinNL, joinWith]
    | cons y ys =>
      simp only [joinNL, List.cons_append, joinWith_cons_cons] at ih ⊢
      simp [ih]

theorem joinNL_append_nl {ls : List Txt} (h : ls ≠ []) : joinNL ls ++ ['\n'] = unlines ls := by
  induction ls with
  | nil => exact absurd rfl h
  | cons x xs ih =>
    cases xs with
    | nil => simp [joinNL, joinWith]
    | cons y ys =>
      have := ih (by simp)
      simp only [joinNL, joinWith_cons_cons] at this ⊢
      simp [this]

theorem natStr_isDigit {n : Nat} {c : Char} (h : c ∈ natStr n) : c.isDigit = true :=
  Nat.isDigit_of_mem_toDigits (by omega) (by omega) h

theorem natStr_ne_nil (n : Nat) : natStr n ≠ [] := Nat.toDigits_ne_nil

theorem parseNat?_natStr (n : Nat) : parseNat? (natStr n) = some n := by
  unfold parseNat?
  have h1 : natStr n ≠ [] := natStr_ne_nil n
  have h2 : (natStr n).all Char.isDigit = true := by
    simp only [List.all_eq_true]; exact fun c hc => natStr_isDigit hc
  simp only [h1, ne_eq, not_false_eq_true, h2, and_self, if_true]
  simp [natStr, Nat.ofDigitChars_toDigits]

theorem not_mem_natStr {n : Nat} {c : Char} (h : c.isDigit = false) : c ∉ natStr n :=
  fun hc => by simp [natStr_isDigit hc] at h

theorem linesOf_joinNL {ls : List Txt} (h : ∀ l ∈ ls, '\n' ∉ l) (hne : ls ≠ []) : linesOf (joinNL ls) = ls := by
  induction ls with
  | nil => exact absurd rfl hne
  | cons x xs ih =>
    have hx := h x List.mem_cons_self
    cases xs with
    | nil => simpa [joinNL, joinWith, linesOf] using splitCh_of_not_mem hx
    | cons y ys =>
      have := ih (fun l hl => h l (List.mem_cons_of_mem _ hl)) (by simp)
      simp only [joinNL, joinWith_cons_cons, linesOf, List.append_assoc, List.singleton_append] at this ⊢
      rw [splitCh_append hx, this]

theorem dropWhile_spaces {m : Nat} {x : Txt} (h : x.head? ≠ some ' ') :
    (spaces m ++ ' ' :: x).dropWhile (· = ' ') = x := by
  have h1 : (spaces m ++ ' ' :: x) = spaces (m + 1) ++ x := by
    simp [spaces, List.replicate_succ']
  rw [h1, List.dropWhile_append_of_pos]
  · cases x with
    | nil => rfl
    | cons a x =>
      have : a ≠ ' ' := fun e => h (by simp [e])
      simp [List.dropWhile_cons, this]
  · intro a ha
    simp only [spaces, List.mem_replicate] at ha
    simp [ha.2]


theorem dropPrefix?_common (c p s : Txt) : dropPrefix? (c ++ p) (c ++ s) = dropPrefix? p s := by
  induction c with
  | nil => rfl
  | cons a c ih => simp [dropPrefix?, ih]

theorem dropPrefix?_head_ne {a b : Char} (p s : Txt) (h : a ≠ b) : dropPrefix? (a :: p) (b :: s) = none := by
  simp [dropPrefix?, h]

theorem dropPrefix?_cons_nil (a : Char) (p : Txt) : dropPrefix? (a :: p) [] = none := rfl

theorem not_mem_append {c : Char} {a b : Txt} (ha : c ∉ a) (hb : c ∉ b) : c ∉ a ++ b := by
  simp [ha, hb]

/-! ## `mjcf_map.h` -/

/-- Lexical well-formedness of the map rows (what the schema lexer guarantees for identifiers, quoted keywords and
    IDENT/NUMBER values): no newline anywhere, no space in an enum name, no double quote in a keyword, a constant does
    not start with a space. -/
def MapWF (rows : MapRows) : Prop :=
  ∀ e ∈ rows, '\n' ∉ e.1 ∧ ' ' ∉ e.1 ∧
    ∀ kv ∈ e.2, '"' ∉ kv.1 ∧ '\n' ∉ kv.1 ∧ '\n' ∉ kv.2 ∧ kv.2.head? ≠ some ' '

theorem lit_mjMap : L "inline constexpr mjMap " = 'i' :: (L "nline constexpr " ++ ('m' :: L "jMap ")) := rfl
theorem lit_int : L "inline constexpr int " = 'i' :: (L "nline constexpr " ++ ('i' :: L "nt ")) := rfl
theorem lit_row : L "  {\"" = ' ' :: ' ' :: '{' :: '"' :: [] := rfl
theorem lit_row3 : L "  {" = ' ' :: ' ' :: '{' :: [] := rfl
theorem lit_qc : L "\"," = ['"', ','] := rfl
theorem lit_enum : L "// enum " = '/' :: L "/ enum " := rfl
theorem lit_close : L "};" = ['}', ';'] := rfl
theorem lit_sz : L "_sz = " = '_' :: 's' :: 'z' :: ' ' :: '=' :: ' ' :: [] := rfl
theorem lit_sz3 : L "_sz" = ['_', 's', 'z'] := rfl
theorem lit_eq : L " = " = [' ', '=', ' '] := rfl
theorem lit_rc : L "}," = ['}', ','] := rfl

theorem mapTok_nil : mapTok [] = none := by
  simp only [mapTok, lit_mjMap, lit_row, lit_int, dropPrefix?_cons_nil]

theorem mapTok_comment (n : Txt) : mapTok (L "// enum " ++ n) = none := by
  simp only [mapTok, lit_mjMap, lit_row, lit_int, lit_enum, List.cons_append]
  rw [dropPrefix?_head_ne _ _ (by decide), dropPrefix?_head_ne _ _ (by decide), dropPrefix?_head_ne _ _ (by decide)]

theorem mapTok_close : mapTok (L "};") = none := by
  simp only [mapTok, lit_mjMap, lit_row, lit_int, lit_close]
  rw [dropPrefix?_head_ne _ _ (by decide), dropPrefix?_head_ne _ _ (by decide), dropPrefix?_head_ne _ _ (by decide)]

theorem mapTok_start (n : Txt) : mapTok (L "inline constexpr mjMap " ++ n ++ L "_map[] = {") = some (.start n) := by
  simp only [mapTok, List.append_assoc, dropPrefix?_append]
  rw [dropSuffix?_append]; rfl

theorem mapRowLine_eq (w : Nat) (k v : Txt) :
    mapRowLine w (k, v)
      = L "  {\"" ++ (k ++ '"' :: ',' :: (spaces (w + 1 - (quote k ++ [',']).length) ++ ' ' :: (v ++ L "},"))) := by
  simp only [mapRowLine, ljust, lit_row, lit_row3, List.cons_append, List.nil_append, List.append_assoc]
  simp only [quote, List.cons_append, List.nil_append, List.append_assoc]

theorem mapTok_row (w : Nat) {k v : Txt} (hk : '"' ∉ k) (hv : v.head? ≠ some ' ') :
    mapTok (mapRowLine w (k, v)) = some (.row k v) := by
  have h0 : dropPrefix? (L "inline constexpr mjMap ") (mapRowLine w (k, v)) = none := by
    simp only [mapRowLine, lit_mjMap, lit_row3, List.cons_append]
    exact dropPrefix?_head_ne _ _ (by decide)
  rw [mapTok, h0]
  simp only [mapRowLine_eq, dropPrefix?_append]
  rw [takeWhile_ne_append hk, dropWhile_ne_append hk]
  have e2 : ∀ x : Txt, ('"' :: ',' :: x) = L "\"," ++ x := by
    intro x; simp only [lit_qc, List.cons_append, List.nil_append]
  rw [e2, dropPrefix?_append]
  have hv' : (v ++ L "},").head? ≠ some ' ' := by
    cases v with
    | nil => simp [lit_rc]
    | cons a v => simpa using hv
  simp only [dropWhile_spaces hv', dropSuffix?_append, Option.map_some]

theorem mapTok_sz {n : Txt} (k : Nat) (hn : ' ' ∉ n) :
    mapTok (L "inline constexpr int " ++ n ++ L "_sz = " ++ natStr k ++ [';']) = some (.sz n k) := by
  have h0 : dropPrefix? (L "inline constexpr mjMap ") (L "inline constexpr int " ++ n ++ L "_sz = " ++ natStr k ++ [';']) = none := by
    rw [lit_mjMap, lit_int]
    simp only [List.append_assoc, List.cons_append, dropPrefix?, if_true, dropPrefix?_common]
    exact dropPrefix?_head_ne _ _ (by decide)
  have h1 : dropPrefix? (L "  {\"") (L "inline constexpr int " ++ n ++ L "_sz = " ++ natStr k ++ [';']) = none := by
    rw [lit_row, lit_int]
    simp only [List.append_assoc, List.cons_append]
    exact dropPrefix?_head_ne _ _ (by decide)
  rw [mapTok, h0, h1]
  simp only [List.append_assoc, dropPrefix?_append]
  have e : n ++ (L "_sz = " ++ (natStr k ++ [';'])) = (n ++ L "_sz") ++ ' ' :: (L " = " ++ (natStr k ++ [';'])).tail := by
    simp only [lit_sz, lit_sz3, lit_eq, List.cons_append, List.nil_append, List.append_assoc, List.tail_cons]
  have hn' : ' ' ∉ n ++ L "_sz" := by
    rw [lit_sz3]; exact not_mem_append hn (by decide)
  rw [e, takeWhile_ne_append hn', dropWhile_ne_append hn', dropSuffix?_append]
  have e2 : ' ' :: (L " = " ++ (natStr k ++ [';'])).tail = L " = " ++ (natStr k ++ [';']) := by
    simp only [lit_eq, List.cons_append, List.nil_append, List.tail_cons]
  rw [e2, dropPrefix?_append]
  simp only [dropSuffix?_append, parseNat?_natStr, Option.map_some]


/-- The tokens of one enum block. -/
def blockToks (e : Txt × List (Txt × Txt)) : List MapTok :=
  MapTok.start e.1 :: e.2.map (fun kv => MapTok.row kv.1 kv.2) ++ [MapTok.sz e.1 e.2.length]

theorem filterMap_rows (w : Nat) (l : List (Txt × Txt)) (hl : ∀ kv ∈ l, '"' ∉ kv.1 ∧ kv.2.head? ≠ some ' ') :
    (l.map (mapRowLine w)).filterMap mapTok = l.map (fun kv => MapTok.row kv.1 kv.2) := by
  induction l with
  | nil => rfl
  | cons kv l ih =>
    have := hl kv List.mem_cons_self
    obtain ⟨k, v⟩ := kv
    simp only [List.map_cons, List.filterMap_cons, mapTok_row w this.1 this.2]
    rw [ih (fun x hx => hl x (List.mem_cons_of_mem _ hx))]

theorem filterMap_mapBlock {e : Txt × List (Txt × Txt)}
    (h : ' ' ∉ e.1 ∧ ∀ kv ∈ e.2, '"' ∉ kv.1 ∧ kv.2.head? ≠ some ' ') :
    (mapBlock e).filterMap mapTok = blockToks e := by
  obtain ⟨n, items⟩ := e
  simp only at h
  unfold mapBlock blockToks
  simp only [List.cons_append, List.nil_append, List.filterMap_cons, List.filterMap_append, List.filterMap_nil]
  rw [mapTok_comment, mapTok_start, mapTok_close, mapTok_sz _ h.1, mapTok_nil, filterMap_rows _ _ h.2]

theorem foldl_rows (done : MapRows) (n : Txt) (acc items : List (Txt × Txt)) (rest : List MapTok) :
    (items.map (fun kv => MapTok.row kv.1 kv.2) ++ rest).foldl mapStep (some ⟨done, some (n, acc)⟩)
      = rest.foldl mapStep (some ⟨done, some (n, acc ++ items)⟩) := by
  induction items generalizing acc with
  | nil => simp
  | cons kv items ih => simp [mapStep, ih]

theorem foldl_block (done : MapRows) (e : Txt × List (Txt × Txt)) (rest : List MapTok) :
    (blockToks e ++ rest).foldl mapStep (some ⟨done, none⟩) = rest.foldl mapStep (some ⟨done ++ [e], none⟩) := by
  obtain ⟨n, items⟩ := e
  simp only [blockToks, List.cons_append, List.foldl_cons, mapStep, List.append_assoc]
  rw [foldl_rows]
  simp [mapStep]

theorem foldl_blocks (done rows : MapRows) :
    (rows.flatMap blockToks).foldl mapStep (some ⟨done, none⟩) = some ⟨done ++ rows, none⟩ := by
  induction rows generalizing done with
  | nil => simp
  | cons e rows ih =>
    rw [List.flatMap_cons, foldl_block, ih]; simp


theorem mapBlock_no_nl {e : Txt × List (Txt × Txt)}
    (h : '\n' ∉ e.1 ∧ ∀ kv ∈ e.2, '\n' ∉ kv.1 ∧ '\n' ∉ kv.2) : ∀ l ∈ mapBlock e, '\n' ∉ l := by
  obtain ⟨n, items⟩ := e
  intro l hl
  simp only [mapBlock, List.cons_append, List.nil_append, List.mem_cons, List.mem_append, List.mem_map,
    List.not_mem_nil, or_false] at hl
  have hd : '\n' ∉ natStr items.length := not_mem_natStr (by decide)
  have hn := h.1
  rcases hl with rfl | rfl | ⟨kv, hkv, rfl⟩ | rfl | rfl | rfl
  · exact not_mem_append (by simp [L]) hn
  · exact not_mem_append (not_mem_append (by simp [L]) hn) (by simp [L])
  · have := h.2 kv hkv
    simp only [mapRowLine, ljust, quote, spaces]
    refine not_mem_append (not_mem_append (not_mem_append (not_mem_append (by simp [L]) ?_) (by simp)) this.2) (by simp [L])
    refine not_mem_append (not_mem_append ?_ (by simp)) ?_
    · simp only [List.mem_cons, List.mem_append, List.not_mem_nil, or_false, not_or]
      exact ⟨by decide, this.1, by decide⟩
    · simp [List.mem_replicate]
  · simp [L]
  · exact not_mem_append (not_mem_append (not_mem_append (not_mem_append (by simp [L]) hn) (by simp [L])) hd) (by simp)
  · simp

theorem extractMap_renderMap {rows : MapRows} (h : MapWF rows) : extractMap (renderMap rows) = some rows := by
  unfold extractMap renderMap
  simp only [List.append_assoc, dropPrefix?_append]
  rw [dropSuffix?_append]
  simp only
  have hnl : ∀ l ∈ rows.flatMap mapBlock, '\n' ∉ l := by
    intro l hl
    obtain ⟨e, he, hle⟩ := List.mem_flatMap.1 hl
    have := h e he
    exact mapBlock_no_nl ⟨this.1, fun kv hkv => ⟨(this.2.2 kv hkv).2.1, (this.2.2 kv hkv).2.2.1⟩⟩ l hle
  have hlines : (linesOf (joinNL (rows.flatMap mapBlock))).filterMap mapTok = (rows.flatMap mapBlock).filterMap mapTok := by
    by_cases hne : rows.flatMap mapBlock = []
    · rw [hne]; simp [joinNL, joinWith, linesOf, splitCh, mapTok_nil]
    · rw [linesOf_joinNL hnl hne]
  have htoks : (rows.flatMap mapBlock).filterMap mapTok = rows.flatMap blockToks := by
    clear hnl hlines
    induction rows with
    | nil => rfl
    | cons e rows ih =>
      have he := h e List.mem_cons_self
      simp only [List.flatMap_cons, List.filterMap_append]
      rw [filterMap_mapBlock ⟨he.2.1, fun kv hkv => ⟨(he.2.2 kv hkv).1, (he.2.2 kv hkv).2.2.2⟩⟩,
        ih (fun x hx => h x (List.mem_cons_of_mem _ hx))]
  rw [hlines, htoks, foldl_blocks]
  simp

end MjProof.SchemaGen
