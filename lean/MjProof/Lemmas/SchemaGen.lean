import MjProof.Model.SchemaGen
import MjProof.Model.SchemaGenExtract
/-
Round-trip lemmas for the C42 extraction functions: generic text lemmas, then one section per artefact.
-/
namespace MjProof.SchemaGen
open MjProof.Schema

/-! ## generic -/

theorem dropPrefix?_append (p r : Txt) : dropPrefix? p (p ++ r) = some r := by
  induction p with
  | nil => cases r <;> simp [dropPrefix?]
  | cons a p ih => simp [dropPrefix?, ih]

theorem dropSuffix?_append (p r : Txt) : dropSuffix? p (r ++ p) = some r := by
  simp [dropSuffix?, dropPrefix?_append]

theorem takeWhile_ne_append {c : Char} {k r : Txt} (h : c ∉ k) : (k ++ c :: r).takeWhile (· ≠ c) = k := by
  rw [List.takeWhile_append_of_pos]
  · simp
  · intro a ha; simp only [ne_eq, decide_not, Bool.not_eq_eq_eq_not, Bool.not_true, decide_eq_false_iff_not]
    rintro rfl; exact h ha

theorem dropWhile_ne_append {c : Char} {k r : Txt} (h : c ∉ k) : (k ++ c :: r).dropWhile (· ≠ c) = c :: r := by
  rw [List.dropWhile_append_of_pos]
  · simp
  · intro a ha; simp only [ne_eq, decide_not, Bool.not_eq_eq_eq_not, Bool.not_true, decide_eq_false_iff_not]
    rintro rfl; exact h ha

theorem takeWhile_ne_self {c : Char} {k : Txt} (h : c ∉ k) : k.takeWhile (· ≠ c) = k := by
  induction k with
  | nil => rfl
  | cons a k ih =>
    have ha : a ≠ c := fun e => h (e ▸ List.mem_cons_self)
    have := ih (fun hk => h (List.mem_cons_of_mem _ hk))
    simp only [List.takeWhile_cons, ne_eq, ha, not_false_eq_true, decide_true, if_true, this]

theorem dropWhile_ne_self {c : Char} {k : Txt} (h : c ∉ k) : k.dropWhile (· ≠ c) = [] := by
  induction k with
  | nil => rfl
  | cons a k ih =>
    have ha : a ≠ c := fun e => h (e ▸ List.mem_cons_self)
    have := ih (fun hk => h (List.mem_cons_of_mem _ hk))
    simp only [List.dropWhile_cons, ne_eq, ha, not_false_eq_true, decide_true, if_true, this]

theorem splitCh_ne_nil (c : Char) (t : Txt) : splitCh c t ≠ [] := by
  induction t with
  | nil => simp [splitCh]
  | cons x r ih =>
    simp only [splitCh]
    split
    · simp
    · split <;> simp

theorem splitCh_append {c : Char} {l : Txt} (h : c ∉ l) (r : Txt) : splitCh c (l ++ c :: r) = l :: splitCh c r := by
  induction l with
  | nil => simp [splitCh]
  | cons a l ih =>
    have ha : a ≠ c := fun e => h (e ▸ List.mem_cons_self)
    have := ih (fun hk => h (List.mem_cons_of_mem _ hk))
    simp [splitCh, ha, this]

theorem splitCh_of_not_mem {c : Char} {l : Txt} (h : c ∉ l) : splitCh c l = [l] := by
  induction l with
  | nil => simp [splitCh]
  | cons a l ih =>
    have ha : a ≠ c := fun e => h (e ▸ List.mem_cons_self)
    have := ih (fun hk => h (List.mem_cons_of_mem _ hk))
    simp [splitCh, ha, this]

/-- Lines each terminated by a newline. -/
def unlines (ls : List Txt) : Txt := ls.flatMap (· ++ ['\n'])

@[simp] theorem unlines_nil : unlines [] = [] := rfl
@[simp] theorem unlines_cons (l : Txt) (ls : List Txt) : unlines (l :: ls) = l ++ '\n' :: unlines ls := by
  simp [unlines]
theorem unlines_append (a b : List Txt) : unlines (a ++ b) = unlines a ++ unlines b := by
  simp [unlines]

theorem linesOf_unlines_append {ls : List Txt} (h : ∀ l ∈ ls, '\n' ∉ l) (t : Txt) :
    linesOf (unlines ls ++ t) = ls ++ linesOf t := by
  induction ls with
  | nil => simp
  | cons l ls ih =>
    have hl := h l List.mem_cons_self
    have := ih (fun x hx => h x (List.mem_cons_of_mem _ hx))
    simp only [unlines_cons, List.cons_append, List.append_assoc]
    unfold linesOf at *
    rw [splitCh_append hl, this]

theorem linesOf_unlines {ls : List Txt} (h : ∀ l ∈ ls, '\n' ∉ l) : linesOf (unlines ls) = ls ++ [[]] := by
  have := linesOf_unlines_append h []
  simpa [linesOf, splitCh] using this

theorem joinWith_cons_cons (sep x y : Txt) (r : List Txt) :
    joinWith sep (x :: y :: r) = x ++ sep ++ joinWith sep (y :: r) := rfl

theorem joinNL_snoc_nil (xs : List Txt) : joinNL (xs ++ [[]]) = unlines xs := by
  induction xs with
  | nil => rfl
  | cons x xs ih =>
    cases xs with
    | nil => simp [joinNL, joinWith]
    | cons y ys =>
      simp only [joinNL, List.cons_append, joinWith_cons_cons] at ih ⊢
      simp [ih]

theorem joinNL_append_nl {ls : List Txt} (h : ls ≠ []) : joinNL ls ++ ['\n'] = unlines ls := by
  induction ls with
  | nil => exact absurd rfl h
  | cons x xs ih =>
    cases xs with
    | nil => simp [joinNL, joinWith]
    | cons y ys =>
      have := ih (by simp)
      simp only [joinNL, joinWith_cons_cons] at this ⊢
      simp [this]

theorem natStr_isDigit {n : Nat} {c : Char} (h : c ∈ natStr n) : c.isDigit = true :=
  Nat.isDigit_of_mem_toDigits (by omega) (by omega) h

theorem natStr_ne_nil (n : Nat) : natStr n ≠ [] := Nat.toDigits_ne_nil

theorem parseNat?_natStr (n : Nat) : parseNat? (natStr n) = some n := by
  unfold parseNat?
  have h1 : natStr n ≠ [] := natStr_ne_nil n
  have h2 : (natStr n).all Char.isDigit = true := by
    simp only [List.all_eq_true]; exact fun c hc => natStr_isDigit hc
  simp only [h1, ne_eq, not_false_eq_true, h2, and_self, if_true]
  simp [natStr, Nat.ofDigitChars_toDigits]

theorem not_mem_natStr {n : Nat} {c : Char} (h : c.isDigit = false) : c ∉ natStr n :=
  fun hc => by simp [natStr_isDigit hc] at h

theorem linesOf_joinNL {ls : List Txt} (h : ∀ l ∈ ls, '\n' ∉ l) (hne : ls ≠ []) : linesOf (joinNL ls) = ls := by
  induction ls with
  | nil => exact absurd rfl hne
  | cons x xs ih =>
    have hx := h x List.mem_cons_self
    cases xs with
    | nil => simpa [joinNL, joinWith, linesOf] using splitCh_of_not_mem hx
    | cons y ys =>
      have := ih (fun l hl => h l (List.mem_cons_of_mem _ hl)) (by simp)
      simp only [joinNL, joinWith_cons_cons, linesOf, List.append_assoc, List.singleton_append] at this ⊢
      rw [splitCh_append hx, this]

theorem dropWhile_spaces {m : Nat} {x : Txt} (h : x.head? ≠ some ' ') :
    (spaces m ++ ' ' :: x).dropWhile (· = ' ') = x := by
  have h1 : (spaces m ++ ' ' :: x) = spaces (m + 1) ++ x := by
    simp [spaces, List.replicate_succ']
  rw [h1, List.dropWhile_append_of_pos]
  · cases x with
    | nil => rfl
    | cons a x =>
      have : a ≠ ' ' := fun e => h (by simp [e])
      simp [List.dropWhile_cons, this]
  · intro a ha
    simp only [spaces, List.mem_replicate] at ha
    simp [ha.2]

end MjProof.SchemaGen
