import MjProof.Model.CType
namespace MjProof.CType

/-- The numeral lists of `Model/CType.lean` spell the intended words (`kw` converts a string literal). -/
theorem constants_spelled :
    kConst = kw "const" ∧ kVolatile = kw "volatile" ∧ kRestrict = kw "restrict" ∧ kStruct = kw "struct" ∧
    kNullable = kw "nullable" ∧ kSigned = kw "signed" ∧ kUnsigned = kw "unsigned" ∧ kShort = kw "short" ∧
    kLong = kw "long" ∧ kInt = kw "int" ∧ kChar = kw "char" ∧ special = kw "void *(*)(void *)" ∧
    invalidNames = [
      "auto", "break", "case", "const", "continue", "default", "do", "else",
      "enum", "extern", "for", "goto", "if", "inline", "register", "restrict",
      "return", "sizeof", "static", "struct", "switch", "typedef", "union",
      "volatile", "while", "_Alignas", "_Atomic", "_Generic", "_Imaginary",
      "_Noreturn", "_Static_assert", "_Thread_local", "__attribute__", "_Pragma"].map kw := by
  decide

/-- `dS` decodes the numeral of a text: bytes, big-endian, after a leading 1. -/
example : dS 0x16d6a744e756d = kw "mjtNum" := by decide

end MjProof.CType
