import MjProof.Model.DofChain
/-
Helper lemmas about the dof-chain model (`MjProof/Model/DofChain.lean`): which dofs `mj_mergeChain` emits.
`Anc par k s`: dof `k` is reached from the shifted dof index `s` by following the parent map (`k` moves the body
whose last dof is `s - 1`).
-/
namespace MjProof.DofChain

/-- well-formed shifted parent map: "none" has no parent, every parent index is smaller -/
def ParWF (par : Nat → Nat) : Prop := par 0 = 0 ∧ ∀ s, 0 < s → par s < s

inductive Anc (par : Nat → Nat) (k : Nat) : Nat → Prop
  | here : Anc par k (k + 1)
  | up {s : Nat} : 0 < s → Anc par k (par s) → Anc par k s

theorem Anc.not_zero {par : Nat → Nat} {k : Nat} : ¬ Anc par k 0 := by
  intro h
  cases h with
  | up h0 _ => exact Nat.lt_irrefl 0 h0

theorem anc_unfold {par : Nat → Nat} {k s : Nat} (hs : 0 < s) :
    Anc par k s ↔ (s = k + 1 ∨ Anc par k (par s)) := by
  constructor
  · intro h
    cases h with
    | here => exact Or.inl rfl
    | up _ h' => exact Or.inr h'
  · rintro (h | h)
    · subst h; exact Anc.here
    · exact Anc.up hs h

theorem Anc.lt {par : Nat → Nat} (hp : ParWF par) {k s : Nat} (h : Anc par k s) : k < s := by
  induction h with
  | here => exact Nat.lt_succ_self k
  | up hs _ ih => exact Nat.lt_trans ih (hp.2 _ hs)

/-- every emitted dof is below the larger of the two current dofs -/
theorem mergeDesc_lt {par : Nat → Nat} (hp : ParWF par) (skip : Bool) :
    ∀ (fuel s1 s2 k : Nat), k ∈ mergeDesc par skip fuel s1 s2 → k < max s1 s2 := by
  intro fuel
  induction fuel with
  | zero => intro s1 s2 k h; simp [mergeDesc] at h
  | succ f ih =>
    intro s1 s2 k h
    unfold mergeDesc at h
    simp only at h
    split at h
    · simp at h
    · split at h
      · simp at h
      · rename_i hs0 _
        rcases List.mem_cons.mp h with h | h
        · omega
        · have := ih _ _ _ h
          have h1 : (if s1 = max s1 s2 then par s1 else s1) ≤ max s1 s2 := by
            split
            · rename_i e
              have : 0 < s1 := by omega
              have := hp.2 s1 this
              omega
            · omega
          have h2 : (if s2 = max s1 s2 then par s2 else s2) ≤ max s1 s2 := by
            split
            · rename_i e
              have : 0 < s2 := by omega
              have := hp.2 s2 this
              omega
            · omega
          omega

/-- one round of the loop strictly decreases `s1 + s2` -/
theorem step_decreases {par : Nat → Nat} (hp : ParWF par) (s1 s2 : Nat) (h : max s1 s2 ≠ 0) :
    (if s1 = max s1 s2 then par s1 else s1) + (if s2 = max s1 s2 then par s2 else s2) < s1 + s2 ∧
    (if s1 = max s1 s2 then par s1 else s1) < max s1 s2 ∧ (if s2 = max s1 s2 then par s2 else s2) < max s1 s2 := by
  by_cases e1 : s1 = max s1 s2 <;> by_cases e2 : s2 = max s1 s2
  · have a := hp.2 s1 (by omega)
    have b := hp.2 s2 (by omega)
    simp only [if_pos e1, if_pos e2]
    omega
  · have a := hp.2 s1 (by omega)
    simp only [if_pos e1, if_neg e2]
    omega
  · have b := hp.2 s2 (by omega)
    simp only [if_neg e1, if_pos e2]
    omega
  · omega

/-- without `flg_skipcommon` the loop emits exactly the dofs that move either body -/
theorem mergeDesc_mem {par : Nat → Nat} (hp : ParWF par) (k : Nat) :
    ∀ (fuel s1 s2 : Nat), s1 + s2 < fuel →
      (k ∈ mergeDesc par false fuel s1 s2 ↔ (Anc par k s1 ∨ Anc par k s2)) := by
  intro fuel
  induction fuel with
  | zero => intro s1 s2 h; omega
  | succ f ih =>
    intro s1 s2 hf
    unfold mergeDesc
    simp only [Bool.false_and, Bool.false_eq_true, if_false]
    by_cases hs : max s1 s2 = 0
    · have h1 : s1 = 0 := by omega
      have h2 : s2 = 0 := by omega
      subst h1; subst h2
      simp [Anc.not_zero]
    · simp only [if_neg hs]
      obtain ⟨hdec, hl1, hl2⟩ := step_decreases hp s1 s2 hs
      rw [List.mem_cons, ih _ _ (by omega)]
      by_cases e1 : s1 = max s1 s2 <;> by_cases e2 : s2 = max s1 s2
      · simp only [if_pos e1, if_pos e2]
        have p1 : 0 < s1 := by omega
        have p2 : 0 < s2 := by omega
        rw [anc_unfold p1, anc_unfold p2]
        constructor
        · rintro (h | h | h)
          · exact Or.inl (Or.inl (by omega))
          · exact Or.inl (Or.inr h)
          · exact Or.inr (Or.inr h)
        · rintro ((h | h) | (h | h))
          · exact Or.inl (by omega)
          · exact Or.inr (Or.inl h)
          · exact Or.inl (by omega)
          · exact Or.inr (Or.inr h)
      · simp only [if_pos e1, if_neg e2]
        have p1 : 0 < s1 := by omega
        rw [anc_unfold p1]
        constructor
        · rintro (h | h | h)
          · exact Or.inl (Or.inl (by omega))
          · exact Or.inl (Or.inr h)
          · exact Or.inr h
        · rintro ((h | h) | h)
          · exact Or.inl (by omega)
          · exact Or.inr (Or.inl h)
          · exact Or.inr (Or.inr h)
      · simp only [if_neg e1, if_pos e2]
        have p2 : 0 < s2 := by omega
        rw [anc_unfold p2]
        constructor
        · rintro (h | h | h)
          · exact Or.inr (Or.inl (by omega))
          · exact Or.inl h
          · exact Or.inr (Or.inr h)
        · rintro (h | (h | h))
          · exact Or.inr (Or.inl h)
          · exact Or.inl (by omega)
          · exact Or.inr (Or.inr h)
      · omega

/-- with `flg_skipcommon` the loop emits exactly the dofs that move one body but not the other -/
theorem mergeDesc_skip_mem {par : Nat → Nat} (hp : ParWF par) (k : Nat) :
    ∀ (fuel s1 s2 : Nat), s1 + s2 < fuel →
      (k ∈ mergeDesc par true fuel s1 s2 ↔
        ((Anc par k s1 ∧ ¬ Anc par k s2) ∨ (¬ Anc par k s1 ∧ Anc par k s2))) := by
  intro fuel
  induction fuel with
  | zero => intro s1 s2 h; omega
  | succ f ih =>
    intro s1 s2 hf
    unfold mergeDesc
    simp only [Bool.true_and]
    by_cases hs : max s1 s2 = 0
    · have h1 : s1 = 0 := by omega
      have h2 : s2 = 0 := by omega
      subst h1; subst h2
      simp [Anc.not_zero]
    · simp only [if_neg hs]
      obtain ⟨hdec, hl1, hl2⟩ := step_decreases hp s1 s2 hs
      by_cases e1 : s1 = max s1 s2 <;> by_cases e2 : s2 = max s1 s2
      · -- both chains are at the same dof: everything from here on is common
        have e : s1 = s2 := by omega
        subst e
        have hb : (s1 == max s1 s1 && s1 == max s1 s1) = true := by simp
        simp only [hb, if_true]
        constructor
        · intro h; simp at h
        · rintro (⟨a, b⟩ | ⟨a, b⟩)
          · exact absurd a b
          · exact absurd b a
      · have hb : (s1 == max s1 s2 && s2 == max s1 s2) = false := by
          simp only [Bool.and_eq_false_imp, beq_iff_eq]
          intro _; simpa using e2
        simp only [hb, Bool.false_eq_true, if_false, if_pos e1, if_neg e2] at hdec hl1 hl2 ⊢
        have p1 : 0 < s1 := by omega
        rw [List.mem_cons, ih _ _ (by omega), anc_unfold p1]
        have notin : s1 = k + 1 → ¬ Anc par k s2 := fun h a => by
          have := a.lt hp
          omega
        constructor
        · rintro (h | ⟨a, b⟩ | ⟨a, b⟩)
          · exact Or.inl ⟨Or.inl (by omega), notin (by omega)⟩
          · exact Or.inl ⟨Or.inr a, b⟩
          · refine Or.inr ⟨?_, b⟩
            rintro (h | h)
            · exact notin h b
            · exact a h
        · rintro (⟨a | a, b⟩ | ⟨a, b⟩)
          · exact Or.inl (by omega)
          · exact Or.inr (Or.inl ⟨a, b⟩)
          · exact Or.inr (Or.inr ⟨fun h => a (Or.inr h), b⟩)
      · have hb : (s1 == max s1 s2 && s2 == max s1 s2) = false := by
          simp only [Bool.and_eq_false_imp, beq_iff_eq]
          intro h; exact absurd h e1
        simp only [hb, Bool.false_eq_true, if_false, if_neg e1, if_pos e2] at hdec hl1 hl2 ⊢
        have p2 : 0 < s2 := by omega
        rw [List.mem_cons, ih _ _ (by omega), anc_unfold p2]
        have notin : s2 = k + 1 → ¬ Anc par k s1 := fun h a => by
          have := a.lt hp
          omega
        constructor
        · rintro (h | ⟨a, b⟩ | ⟨a, b⟩)
          · exact Or.inr ⟨notin (by omega), Or.inl (by omega)⟩
          · refine Or.inl ⟨a, ?_⟩
            rintro (h | h)
            · exact notin h a
            · exact b h
          · exact Or.inr ⟨a, Or.inr b⟩
        · rintro (⟨a, b⟩ | ⟨a, b | b⟩)
          · exact Or.inr (Or.inl ⟨a, fun h => b (Or.inr h)⟩)
          · exact Or.inl (by omega)
          · exact Or.inr (Or.inr ⟨a, b⟩)
      · omega

/-- the C loop writes strictly decreasing dof indices -/
theorem mergeDesc_sorted {par : Nat → Nat} (hp : ParWF par) (skip : Bool) :
    ∀ (fuel s1 s2 : Nat), (mergeDesc par skip fuel s1 s2).Pairwise (· > ·) := by
  intro fuel
  induction fuel with
  | zero => intro s1 s2; simp [mergeDesc]
  | succ f ih =>
    intro s1 s2
    unfold mergeDesc
    simp only
    split
    · exact List.Pairwise.nil
    · split
      · exact List.Pairwise.nil
      · rename_i hs _
        obtain ⟨_, hl1, hl2⟩ := step_decreases hp s1 s2 hs
        refine List.Pairwise.cons ?_ (ih _ _)
        intro k hk
        have := mergeDesc_lt hp skip _ _ _ _ hk
        omega

end MjProof.DofChain
