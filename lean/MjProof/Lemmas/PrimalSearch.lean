import MjProof.Model.SolverCert
import MjProof.Lemmas.Constraint
/-
Real-number reading of the line-search / acceptance / warm-start models of Model/SolverCert.lean (C10).
-/
namespace MjProof.PrimalSearch
open MjProof MjProof.Constraint

/-- what can be said about a line-search result whatever the evaluation function is -/
def Good (e : Ev ℝ) (r : Result ℝ) : Prop :=
  r.alpha = 0 ∨ (r.checked = true ∧ e.cost r.alpha < 0 ∧ r.improvement = -(e.cost r.alpha)) ∨
    (r.checked = false ∧ r.improvement = -(e.cost r.alpha))

theorem good_checked (e : Ev ℝ) (a : ℝ) (res it : Nat) (h : e.cost a < 0) : Good e (ret e a res true it) :=
  Or.inr (Or.inl ⟨rfl, h, rfl⟩)

theorem good_unchecked (e : Ev ℝ) (a : ℝ) (res it : Nat) : Good e (ret e a res false it) :=
  Or.inr (Or.inr ⟨rfl, rfl⟩)

theorem good_zero (e : Ev ℝ) (res it : Nat) : Good e (retZero res it) := by
  left; simp [retZero, zero_real]

theorem oneSided_good (e : Ev ℝ) (gtol : ℝ) (lsIter : Nat) (dir : Bool) (p1 p2 : ℝ) (it : Nat) :
    ∀ r, oneSided e gtol lsIter dir p1 p2 it = Sum.inl r → Good e r := by
  fun_induction oneSided e gtol lsIter dir p1 p2 it with
  | case1 =>
    rename_i hc
    intro r hr
    simp only [Sum.inl.injEq] at hr
    subst hr
    exact good_checked e _ _ _ (by have := hc.2; real_ops_at this; exact this)
  | case2 => rename_i ih; exact ih
  | case3 => intro r hr; simp at hr

theorem bracket_good (e : Ev ℝ) (gtol : ℝ) (lsIter : Nat) (p1 p2 p1next p2next : ℝ) (it : Nat) :
    Good e (bracket e gtol lsIter p1 p2 p1next p2next it) := by
  fun_induction bracket e gtol lsIter p1 p2 p1next p2next it with
  | case1 => exact good_unchecked _ _ _ _
  | case2 =>
    rename_i hc
    exact good_checked e _ _ _ (by real_ops_at hc; exact hc)
  | case3 => exact good_unchecked _ _ _ _
  | case4 => rename_i ih; exact ih
  | case5 => rename_i hc; exact good_checked e _ _ _ (by have := hc.2; real_ops_at this; exact this)
  | case6 =>
    rename_i hc2
    exact good_checked e _ _ _ (by have := hc2.2; real_ops_at this; exact this)
  | case7 => exact good_zero _ _ _

/-- every exit of the modelled `PrimalSearch` -/
theorem search_exit_cases (e : Ev ℝ) (gtol : ℝ) (lsIter : ℕ) (snormSmall : Bool) :
    Good e (search e gtol lsIter snormSmall) := by
  unfold search
  split
  · exact good_zero _ _ _
  · simp only []
    split
    · rename_i hc
      split
      · -- p1.alpha == 0
        rename_i hz
        left
        simp only [ret]
        have : MjNum.beq (newton e (zero : ℝ)) (zero : ℝ) = true := hz
        simpa [real_beq, zero_real] using this
      · rename_i hz
        have h2 := hc.2
        rcases h2 with h2 | h2
        · exact absurd h2 hz
        · exact good_checked e _ _ _ (by simpa only [r_lt, zero_real] using h2)
    · split
      · rename_i r hr
        exact oneSided_good e gtol lsIter _ _ _ _ r hr
      · split
        · exact good_unchecked _ _ _ _
        · exact bracket_good _ _ _ _ _ _ _ _

/-! ### acceptance loop -/

theorem runLoop_le (c0 : ℝ) (steps : List (Result ℝ))
    (h : ∀ r ∈ steps, r.alpha ≠ 0 → r.checked = true ∧ 0 < r.improvement) : runLoop c0 steps ≤ c0 := by
  induction steps generalizing c0 with
  | nil => simp [runLoop]
  | cons r rest ih =>
    unfold runLoop
    split
    · exact le_refl _
    · rename_i hz
      have hne : r.alpha ≠ 0 := by
        intro e0
        apply hz
        simp [real_beq, zero_real, e0]
      have hr := h r (List.mem_cons_self) hne
      have := ih (c0 - r.improvement) (fun r' hr' => h r' (List.mem_cons_of_mem _ hr'))
      have e1 : @HSub.hSub ℝ ℝ ℝ (@instHSub ℝ (MjNum.toSub)) c0 r.improvement = c0 - r.improvement := rfl
      rw [e1]
      linarith [hr.2]

/-- the loop ends strictly below the start as soon as the first step is accepted -/
theorem runLoop_lt (c0 : ℝ) (r : Result ℝ) (rest : List (Result ℝ)) (hne : r.alpha ≠ 0)
    (h : ∀ r' ∈ r :: rest, r'.alpha ≠ 0 → r'.checked = true ∧ 0 < r'.improvement) : runLoop c0 (r :: rest) < c0 := by
  unfold runLoop
  split
  · rename_i hz
    exfalso
    apply hne
    have : MjNum.beq r.alpha (zero : ℝ) = true := hz
    simpa [real_beq, zero_real] using this
  · have hr := h r (List.mem_cons_self) hne
    have := runLoop_le (c0 - r.improvement) rest (fun r' hr' => h r' (List.mem_cons_of_mem _ hr'))
    have e1 : @HSub.hSub ℝ ℝ ℝ (@instHSub ℝ (MjNum.toSub)) c0 r.improvement = c0 - r.improvement := rfl
    rw [e1]
    linarith [hr.2]

theorem warmChoice_spec (costWarm costSmooth : ℝ) :
    (warmChoice costWarm costSmooth = true → costWarm ≤ costSmooth) ∧
    (warmChoice costWarm costSmooth = false → costSmooth < costWarm) ∧
    startCost costWarm costSmooth = min costWarm costSmooth := by
  unfold startCost warmChoice
  by_cases h : costSmooth < costWarm
  · have h' : @LT.lt ℝ (MjNum.toLT) costSmooth costWarm := h
    simp only [h', decide_true, Bool.not_true]
    refine ⟨by simp, by simp, ?_⟩
    simp [min_eq_right h.le]
  · have h' : ¬ @LT.lt ℝ (MjNum.toLT) costSmooth costWarm := h
    simp only [h', decide_false, Bool.not_false]
    refine ⟨by intro _; first | exact not_lt.mp h | trivial, by simp, ?_⟩
    simp [min_eq_left (not_lt.mp h)]

end MjProof.PrimalSearch
