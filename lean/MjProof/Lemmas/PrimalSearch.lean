import MjProof.Model.SolverCert
import MjProof.Lemmas.Constraint
/-
Real-number reading of the line-search / acceptance / warm-start models of Model/SolverCert.lean (C10).
-/
namespace MjProof.PrimalSearch
open MjProof MjProof.Constraint

/-- what can be said about a line-search result whatever the evaluation function is -/
def Good (e : Ev ℝ) (r : Result ℝ) : Prop :=
  r.alpha = 0 ∨ (r.checked = true ∧ e.cost r.alpha < 0 ∧ r.improvement = -(e.cost r.alpha)) ∨
    (r.checked = false ∧ r.improvement = -(e.cost r.alpha))

theorem good_checked (e : Ev ℝ) (a : ℝ) (res it : Nat) (h : e.cost a < 0) : Good e (ret e a res true it) :=
  Or.inr (Or.inl ⟨rfl, h, rfl⟩)

theorem good_unchecked (e : Ev ℝ) (a : ℝ) (res it : Nat) : Good e (ret e a res false it) :=
  Or.inr (Or.inr ⟨rfl, rfl⟩)

theorem good_zero (e : Ev ℝ) (res it : Nat) : Good e (retZero res it) := by
  left; simp [retZero, zero_real]

theorem oneSided_good (e : Ev ℝ) (gtol : ℝ) (lsIter : Nat) (dir : Bool) (p1 p2 : ℝ) (it : Nat) :
    ∀ r, oneSided e gtol lsIter dir p1 p2 it = Sum.inl r → Good e r := by
  fun_induction oneSided e gtol lsIter dir p1 p2 it with
  | case1 =>
    rename_i hc
    intro r hr
    simp only [Sum.inl.injEq] at hr
    subst hr
    exact good_checked e _ _ _ (by have := hc.2; real_ops_at this; exact this)
  | case2 => rename_i ih; exact ih
  | case3 => intro r hr; simp at hr

theorem bracket_good (e : Ev ℝ) (gtol : ℝ) (lsIter : Nat) (p1 p2 p1next p2next : ℝ) (it : Nat) :
    Good e (bracket e gtol lsIter p1 p2 p1next p2next it) := by
  fun_induction bracket e gtol lsIter p1 p2 p1next p2next it with
  | case1 => exact good_unchecked _ _ _ _
  | case2 =>
    rename_i hc
    exact good_checked e _ _ _ (by real_ops_at hc; exact hc)
  | case3 => exact good_unchecked _ _ _ _
  | case4 => rename_i ih; exact ih
  | case5 => rename_i hc; exact good_checked e _ _ _ (by have := hc.2; real_ops_at this; exact this)
  | case6 =>
    rename_i hc2
    exact good_checked e _ _ _ (by have := hc2.2; real_ops_at this; exact this)
  | case7 => exact good_zero _ _ _

/-- every exit of the modelled `PrimalSearch` -/
theorem search_exit_cases (e : Ev ℝ) (gtol : ℝ) (lsIter : ℕ) (snormSmall : Bool) :
    Good e (search e gtol lsIter snormSmall) := by
  unfold search
  split
  · exact good_zero _ _ _
  · simp only []
    split
    · rename_i hc
      split
      · -- p1.alpha == 0
        rename_i hz
        left
        simp only [ret]
        have : MjNum.beq (newton e (zero : ℝ)) (zero : ℝ) = true := hz
        simpa [real_beq, zero_real] using this
      · rename_i hz
        have h2 := hc.2
        rcases h2 with h2 | h2
        · exact absurd h2 hz
        · exact good_checked e _ _ _ (by simpa only [r_lt, zero_real] using h2)
    · split
      · rename_i r hr
        exact oneSided_good e gtol lsIter _ _ _ _ r hr
      · split
        · exact good_unchecked _ _ _ _
        · exact bracket_good _ _ _ _ _ _ _ _

/-! ### acceptance loop -/

theorem runLoop_le (c0 : ℝ) (steps : List (Result ℝ))
    (h : ∀ r ∈ steps, r.alpha ≠ 0 → r.checked = true ∧ 0 < r.improvement) : runLoop c0 steps ≤ c0 := by
  induction steps generalizing c0 with
  | nil => simp [runLoop]
  | cons r rest ih =>
    unfold runLoop
    split
    · exact le_refl _
    · rename_i hz
      have hne : r.alpha ≠ 0 := by
        intro e0
        apply hz
        simp [real_beq, zero_real, e0]
      have hr := h r (List.mem_cons_self) hne
      have := ih (c0 - r.improvement) (fun r' hr' => h r' (List.mem_cons_of_mem _ hr'))
      have e1 : @HSub.hSub ℝ ℝ ℝ (@instHSub ℝ (MjNum.toSub)) c0 r.improvement = c0 - r.improvement := rfl
      rw [e1]
      linarith [hr.2]

/-- the loop ends strictly below the start as soon as the first step is accepted -/
theorem runLoop_lt (c0 : ℝ) (r : Result ℝ) (rest : List (Result ℝ)) (hne : r.alpha ≠ 0)
    (h : ∀ r' ∈ r :: rest, r'.alpha ≠ 0 → r'.checked = true ∧ 0 < r'.improvement) : runLoop c0 (r :: rest) < c0 := by
  unfold runLoop
  split
  · rename_i hz
    exfalso
    apply hne
    have : MjNum.beq r.alpha (zero : ℝ) = true := hz
    simpa [real_beq, zero_real] using this
  · have hr := h r (List.mem_cons_self) hne
    have := runLoop_le (c0 - r.improvement) rest (fun r' hr' => h r' (List.mem_cons_of_mem _ hr'))
    have e1 : @HSub.hSub ℝ ℝ ℝ (@instHSub ℝ (MjNum.toSub)) c0 r.improvement = c0 - r.improvement := rfl
    rw [e1]
    linarith [hr.2]

theorem warmChoice_spec (costWarm costSmooth : ℝ) :
    (warmChoice costWarm costSmooth = true → costWarm ≤ costSmooth) ∧
    (warmChoice costWarm costSmooth = false → costSmooth < costWarm) ∧
    startCost costWarm costSmooth = min costWarm costSmooth := by
  unfold startCost warmChoice
  by_cases h : costSmooth < costWarm
  · have h' : @LT.lt ℝ (MjNum.toLT) costSmooth costWarm := h
    simp only [h', decide_true, Bool.not_true]
    refine ⟨by simp, by simp, ?_⟩
    simp [min_eq_right h.le]
  · have h' : ¬ @LT.lt ℝ (MjNum.toLT) costSmooth costWarm := h
    simp only [h', decide_false, Bool.not_false]
    refine ⟨by intro _; first | exact not_lt.mp h | trivial, by simp, ?_⟩
    simp [min_eq_left (not_lt.mp h)]

end MjProof.PrimalSearch

/-! ### `PrimalEval` (scalar rows) evaluates the difference of the documented cost along the search line -/
namespace MjProof.PrimalSearch
open MjProof MjProof.Constraint

theorem two_real : (two : ℝ) = 2 := by simp [two]

/-- cost of scalar row number `i` at the residual `x`, as `mj_constraintUpdate_impl` computes it (C11/C12 model) -/
noncomputable def rowCost (ne nf i : ℕ) (r : LRow ℝ) (x : ℝ) : ℝ :=
  if i < ne then (eqRow r.D x).cost
  else if i < ne + nf then (fricRow r.D r.R r.floss x).cost
  else (nonnegRow r.D x).cost

/-- the line cost carried by the accumulator of `PrimalEval` -/
noncomputable def accCost (alpha : ℝ) (a : Acc ℝ) : ℝ := a.cost + (alpha * alpha * a.q2 + alpha * a.q1 + a.q0)

theorem frictionCost_eq (x f R D : ℝ) : frictionCost x f (R * f) D = (fricRow D R f x).cost := by
  rw [fricRow_cost]
  unfold frictionCost
  simp only [r_mul, r_add, r_sub, r_neg, r_lt, r_le, half_real]
  by_cases h1 : x ≤ -(R * f)
  · have h1' : x ≤ -R * f := by linarith
    have hn : ¬(-(R * f) < x ∧ x < R * f) := fun h => absurd h.1 (not_lt.mpr h1)
    rw [if_neg hn, if_pos h1, if_pos h1']; ring
  · have h1' : ¬ x ≤ -R * f := by intro h; apply h1; linarith
    rw [if_neg h1']
    by_cases h2 : R * f ≤ x
    · have hn : ¬(-(R * f) < x ∧ x < R * f) := fun h => absurd h.2 (not_lt.mpr h2)
      rw [if_neg hn, if_neg h1, if_pos h2]; ring
    · have hq : -(R * f) < x ∧ x < R * f := ⟨not_le.mp h1, not_le.mp h2⟩
      rw [if_pos hq, if_neg h2]

theorem frictionCostDif_eq (start x f R D : ℝ) :
    frictionCostDif start x f (R * f) D = (fricRow D R f x).cost - (fricRow D R f start).cost := by
  rw [← frictionCost_eq, ← frictionCost_eq]
  unfold frictionCostDif
  simp only []
  -- the three same-zone shortcuts are algebraically the difference of the two absolute costs
  by_cases h00 : fzone start (R * f) = 0 ∧ fzone x (R * f) = 0
  · rw [if_pos h00]
    obtain ⟨hs, hx⟩ := h00
    unfold fzone at hs hx
    have hs' : -(R * f) < start ∧ start < R * f := by
      by_contra hc
      simp only [r_neg, r_lt, r_le] at hs
      rw [if_neg hc] at hs
      split_ifs at hs <;> omega
    have hx' : -(R * f) < x ∧ x < R * f := by
      by_contra hc
      simp only [r_neg, r_lt, r_le] at hx
      rw [if_neg hc] at hx
      split_ifs at hx <;> omega
    unfold frictionCost
    simp only [r_mul, r_add, r_sub, r_neg, r_lt, r_le, half_real]
    rw [if_pos hx', if_pos hs']; ring
  · rw [if_neg h00]
    by_cases hmm : fzone start (R * f) = -1 ∧ fzone x (R * f) = -1
    · rw [if_pos hmm]
      obtain ⟨hs, hx⟩ := hmm
      unfold fzone at hs hx
      simp only [r_neg, r_lt, r_le] at hs hx
      have hs' : ¬(-(R * f) < start ∧ start < R * f) ∧ start ≤ -(R * f) := by
        split_ifs at hs with a b <;> first | exact ⟨a, b⟩ | omega
      have hx' : ¬(-(R * f) < x ∧ x < R * f) ∧ x ≤ -(R * f) := by
        split_ifs at hx with a b <;> first | exact ⟨a, b⟩ | omega
      unfold frictionCost
      simp only [r_mul, r_add, r_sub, r_neg, r_lt, r_le, half_real]
      rw [if_neg hx'.1, if_pos hx'.2, if_neg hs'.1, if_pos hs'.2]; ring
    · rw [if_neg hmm]
      by_cases hpp : fzone start (R * f) = 1 ∧ fzone x (R * f) = 1
      · rw [if_pos hpp]
        obtain ⟨hs, hx⟩ := hpp
        unfold fzone at hs hx
        simp only [r_neg, r_lt, r_le] at hs hx
        have hs' : ¬(-(R * f) < start ∧ start < R * f) ∧ ¬ start ≤ -(R * f) := by
          split_ifs at hs with a b <;> first | exact ⟨a, b⟩ | omega
        have hx' : ¬(-(R * f) < x ∧ x < R * f) ∧ ¬ x ≤ -(R * f) := by
          split_ifs at hx with a b <;> first | exact ⟨a, b⟩ | omega
        unfold frictionCost
        simp only [r_mul, r_add, r_sub, r_neg, r_lt, r_le, half_real]
        rw [if_neg hx'.1, if_neg hx'.2, if_neg hs'.1, if_neg hs'.2]; ring
      · rw [if_neg hpp]

/-- one row of `PrimalEval` adds exactly the change of that row's cost between `alpha = 0` and `alpha` -/
theorem evalRow_accCost (ne nf : ℕ) (alpha : ℝ) (a : Acc ℝ) (i : ℕ) (r : LRow ℝ) :
    accCost alpha (evalRow ne nf alpha (a, i) r).1 =
      accCost alpha a + (rowCost ne nf i r (r.jaref + alpha * r.jv) - rowCost ne nf i r r.jaref) ∧
    (evalRow ne nf alpha (a, i) r).2 = i + 1 := by
  unfold evalRow rowCost
  simp only []
  by_cases h1 : i < ne
  · simp only [h1, if_true, accCost, prepRow, eqRow_cost, r_mul, r_add, half_real, and_true]
    ring
  · simp only [h1, if_false]
    by_cases h2 : i < ne + nf
    · simp only [h2, if_true]
      have hd := frictionCostDif_eq r.jaref (r.jaref + alpha * r.jv) r.floss r.R r.D
      simp only [r_mul, r_add] at hd ⊢
      split_ifs <;> simp only [accCost, r_add, hd, and_true] <;> try ring
    · simp only [h2, if_false, nonnegRow_cost, prepRow, r_mul, r_add, r_sub, r_lt, zero_real, half_real]
      by_cases hx : r.jaref + alpha * r.jv < 0
      · have hx' : ¬ (0 ≤ r.jaref + alpha * r.jv) := not_le.mpr hx
        simp only [hx, if_true, hx', if_false, accCost, and_true]
        by_cases hs : r.jaref < 0
        · have hs' : ¬ (0 ≤ r.jaref) := not_le.mpr hs
          simp only [hs, if_true, hs', if_false]; ring
        · have hs' : 0 ≤ r.jaref := not_lt.mp hs
          simp only [hs, if_false, hs', if_true]; ring
      · have hx' : 0 ≤ r.jaref + alpha * r.jv := not_lt.mp hx
        simp only [hx, if_false, hx', if_true, accCost, and_true]
        by_cases hs : r.jaref < 0
        · have hs' : ¬ (0 ≤ r.jaref) := not_le.mpr hs
          simp only [hs, if_true, hs', if_false]; ring
        · have hs' : 0 ≤ r.jaref := not_lt.mp hs
          simp only [hs, if_false, hs', if_true]; ring

theorem foldl_evalRow (ne nf : ℕ) (alpha : ℝ) (rows : List (LRow ℝ)) (a : Acc ℝ) (i : ℕ) :
    accCost alpha (rows.foldl (evalRow ne nf alpha) (a, i)).1 =
      accCost alpha a + ((rows.zipIdx i).map (fun p =>
        rowCost ne nf p.2 p.1 (p.1.jaref + alpha * p.1.jv) - rowCost ne nf p.2 p.1 p.1.jaref)).sum := by
  induction rows generalizing a i with
  | nil => simp
  | cons r rest ih =>
    simp only [List.foldl_cons, List.zipIdx_cons, List.map_cons, List.sum_cons]
    obtain ⟨h1, h2⟩ := evalRow_accCost ne nf alpha a i r
    have e : evalRow ne nf alpha (a, i) r = ((evalRow ne nf alpha (a, i) r).1, i + 1) := by
      rw [← h2]
    rw [e, ih, h1]; ring

/-- **`PrimalEval` returns the exact change of the documented cost along the search line**: Gauss term
    `alpha*g1 + alpha²*g2` plus, row by row, the change of the row cost of `mj_constraintUpdate_impl` between the
    residuals `Jaref` and `Jaref + alpha*Jv` (equality, friction-loss and inequality rows). -/
theorem evalRows_cost_eq (ne nf : ℕ) (g1 g2 : ℝ) (rows : List (LRow ℝ)) (alpha : ℝ) :
    (evalRows ne nf g1 g2 rows alpha).1 = alpha * g1 + alpha * alpha * g2 +
      ((rows.zipIdx 0).map (fun p =>
        rowCost ne nf p.2 p.1 (p.1.jaref + alpha * p.1.jv) - rowCost ne nf p.2 p.1 p.1.jaref)).sum := by
  unfold evalRows
  simp only []
  have h := foldl_evalRow ne nf alpha rows ⟨zero, zero, zero, zero, g1, g2⟩ 0
  simp only [accCost, zero_real, r_mul, r_add] at h ⊢
  rw [h]; ring

end MjProof.PrimalSearch
