import Mathlib.LinearAlgebra.Matrix.PosDef
import Mathlib.Data.Matrix.Block
import Mathlib.Analysis.Convex.Deriv
import Mathlib.Analysis.Calculus.Deriv.Comp
import Mathlib.Analysis.Calculus.Deriv.Add
import Mathlib.Analysis.Calculus.Deriv.Mul
import Mathlib.Tactic.Ring
import Mathlib.Tactic.Linarith
/-
Convex-analysis core of the solver certificate (C10) and of the forward/inverse identity (C09).

The documented objective of the constraint solvers is
    cost(a) = ½ (a − a₀)ᵀ M (a − a₀) + s(J a − aref)
with `M` the joint-space inertia, `a₀ = qacc_smooth` and `s` the constraint cost (the function whose
per-row / per-cone value is the model of `mj_constraintUpdate_impl`, C12).  The constraint *force* is
`f = −∇s`; everything below uses `s` and `f` only through the supporting-hyperplane inequality
`GradIneq s f` (C12 proves it row by row and for elliptic cone blocks; `gradIneq_of_convex` derives it
from convexity + differentiability).
-/
namespace MjProof.SolverCert
open Matrix

variable {n m : ℕ}

/-- the documented objective -/
noncomputable def cost (M : Matrix (Fin n) (Fin n) ℝ) (J : Matrix (Fin m) (Fin n) ℝ) (a0 : Fin n → ℝ)
    (aref : Fin m → ℝ) (s : (Fin m → ℝ) → ℝ) (a : Fin n → ℝ) : ℝ :=
  1 / 2 * ((a - a0) ⬝ᵥ (M *ᵥ (a - a0))) + s (J *ᵥ a - aref)

/-- its gradient, written with the constraint force law `f = −∇s`:
    `grad = M (a − a₀) − Jᵀ f(J a − aref)`  (`= M a − qfrc_smooth − qfrc_constraint` in the code) -/
noncomputable def grad (M : Matrix (Fin n) (Fin n) ℝ) (J : Matrix (Fin m) (Fin n) ℝ) (a0 : Fin n → ℝ)
    (aref : Fin m → ℝ) (f : (Fin m → ℝ) → (Fin m → ℝ)) (a : Fin n → ℝ) : Fin n → ℝ :=
  M *ᵥ (a - a0) - Jᵀ *ᵥ f (J *ᵥ a - aref)

/-- supporting-hyperplane inequality of a convex differentiable `s` whose gradient is `−f` -/
def GradIneq (s : (Fin m → ℝ) → ℝ) (f : (Fin m → ℝ) → (Fin m → ℝ)) : Prop :=
  ∀ x z, s z + (-(f z)) ⬝ᵥ (x - z) ≤ s x

/-- symmetric positive semidefinite, stated with the plain dot product -/
structure SymPSD (M : Matrix (Fin n) (Fin n) ℝ) : Prop where
  symm : Mᵀ = M
  nonneg : ∀ x, 0 ≤ x ⬝ᵥ (M *ᵥ x)

theorem SymPSD.of_posDef {M : Matrix (Fin n) (Fin n) ℝ} (h : M.PosDef) : SymPSD M := by
  refine ⟨?_, fun x => ?_⟩
  · have := h.isHermitian
    rwa [Matrix.IsHermitian, Matrix.conjTranspose_eq_transpose_of_trivial] at this
  · by_cases hx : x = 0
    · simp [hx]
    · have := h.dotProduct_mulVec_pos hx
      have h2 : 0 < x ⬝ᵥ (M *ᵥ x) := by simpa using this
      exact h2.le

/-- the bilinear form `xᵀ M y` -/
noncomputable def bil (M : Matrix (Fin n) (Fin n) ℝ) (x y : Fin n → ℝ) : ℝ := x ⬝ᵥ (M *ᵥ y)

theorem bil_comm {M : Matrix (Fin n) (Fin n) ℝ} (h : Mᵀ = M) (x y : Fin n → ℝ) : bil M x y = bil M y x := by
  unfold bil
  rw [Matrix.dotProduct_mulVec, ← Matrix.mulVec_transpose, h, dotProduct_comm]

theorem bil_add_left (M : Matrix (Fin n) (Fin n) ℝ) (x y z : Fin n → ℝ) :
    bil M (x + y) z = bil M x z + bil M y z := by
  unfold bil; rw [add_dotProduct]

theorem bil_add_right (M : Matrix (Fin n) (Fin n) ℝ) (x y z : Fin n → ℝ) :
    bil M x (y + z) = bil M x y + bil M x z := by
  unfold bil; rw [Matrix.mulVec_add, dotProduct_add]

theorem bil_smul_right (M : Matrix (Fin n) (Fin n) ℝ) (c : ℝ) (x y : Fin n → ℝ) :
    bil M x (c • y) = c * bil M x y := by
  unfold bil; rw [Matrix.mulVec_smul, dotProduct_smul, smul_eq_mul]

theorem bil_smul_left (M : Matrix (Fin n) (Fin n) ℝ) (c : ℝ) (x y : Fin n → ℝ) :
    bil M (c • x) y = c * bil M x y := by
  unfold bil; rw [smul_dotProduct, smul_eq_mul]

/-- `(e + d)ᵀM(e + d) = eᵀMe + 2 eᵀMd + dᵀMd` for symmetric `M` -/
theorem bil_expand {M : Matrix (Fin n) (Fin n) ℝ} (h : Mᵀ = M) (e d : Fin n → ℝ) :
    bil M (e + d) (e + d) = bil M e e + 2 * bil M e d + bil M d d := by
  rw [bil_add_left, bil_add_right, bil_add_right, bil_comm h d e]; ring

/-- Completing the square: if `M w = g` then `g·d + ½ dᵀMd ≥ −½ g·w` for every `d`. -/
theorem quad_lower {M : Matrix (Fin n) (Fin n) ℝ} (hM : SymPSD M) {g w : Fin n → ℝ} (hw : M *ᵥ w = g)
    (d : Fin n → ℝ) : -(1 / 2 * (g ⬝ᵥ w)) ≤ g ⬝ᵥ d + 1 / 2 * bil M d d := by
  have h0 := hM.nonneg (d + w)
  have h1 : (d + w) ⬝ᵥ (M *ᵥ (d + w)) = bil M d d + 2 * bil M d w + bil M w w := bil_expand hM.symm d w
  have h2 : bil M d w = g ⬝ᵥ d := by unfold bil; rw [hw, dotProduct_comm]
  have h3 : bil M w w = g ⬝ᵥ w := by unfold bil; rw [hw, dotProduct_comm]
  rw [h1, h2, h3] at h0
  linarith

/-- Cauchy–Schwarz in the `M` metric with a witness `M w = g`: `(g·d)² ≤ (g·w)(dᵀMd)`. -/
theorem cauchy_M {M : Matrix (Fin n) (Fin n) ℝ} (hM : SymPSD M) {g w : Fin n → ℝ} (hw : M *ᵥ w = g)
    (d : Fin n → ℝ) : (g ⬝ᵥ d) ^ 2 ≤ (g ⬝ᵥ w) * bil M d d := by
  have h2 : bil M d w = g ⬝ᵥ d := by unfold bil; rw [hw, dotProduct_comm]
  have h3 : bil M w w = g ⬝ᵥ w := by unfold bil; rw [hw, dotProduct_comm]
  have key : ∀ t : ℝ, 0 ≤ bil M d d + 2 * t * (g ⬝ᵥ d) + t ^ 2 * (g ⬝ᵥ w) := by
    intro t
    have h0 := hM.nonneg (d + t • w)
    have h1 : (d + t • w) ⬝ᵥ (M *ᵥ (d + t • w)) = bil M d d + 2 * bil M d (t • w) + bil M (t • w) (t • w) :=
      bil_expand hM.symm d (t • w)
    rw [h1, bil_smul_right, bil_smul_left, bil_smul_right, h2, h3] at h0
    nlinarith
  have hgw : 0 ≤ g ⬝ᵥ w := by have := hM.nonneg w; unfold bil at h3; rw [h3] at this; exact this
  have hdd : 0 ≤ bil M d d := hM.nonneg d
  by_cases hz : g ⬝ᵥ w = 0
  · -- then g·d must vanish
    have hgd : g ⬝ᵥ d = 0 := by
      by_contra hne
      have := key (-(bil M d d + 1) / (2 * (g ⬝ᵥ d)))
      rw [hz] at this
      have hx : 2 * (-(bil M d d + 1) / (2 * (g ⬝ᵥ d))) * (g ⬝ᵥ d) = -(bil M d d + 1) := by
        field_simp
      nlinarith
    rw [hgd, hz]; simp
  · have hpos : 0 < g ⬝ᵥ w := lt_of_le_of_ne hgw (Ne.symm hz)
    have := key (-(g ⬝ᵥ d) / (g ⬝ᵥ w))
    have hx : bil M d d + 2 * (-(g ⬝ᵥ d) / (g ⬝ᵥ w)) * (g ⬝ᵥ d) + (-(g ⬝ᵥ d) / (g ⬝ᵥ w)) ^ 2 * (g ⬝ᵥ w)
        = bil M d d - (g ⬝ᵥ d) ^ 2 / (g ⬝ᵥ w) := by
      field_simp; ring
    rw [hx] at this
    have h4 : (g ⬝ᵥ d) ^ 2 / (g ⬝ᵥ w) ≤ bil M d d := by linarith
    rwa [div_le_iff₀ hpos, mul_comm] at h4

section objective
variable (M : Matrix (Fin n) (Fin n) ℝ) (J : Matrix (Fin m) (Fin n) ℝ) (a0 : Fin n → ℝ) (aref : Fin m → ℝ)
  (s : (Fin m → ℝ) → ℝ) (f : (Fin m → ℝ) → (Fin m → ℝ))

/-- strong convexity of the objective in the `M` metric, in first-order form -/
theorem cost_strong_lower (hM : SymPSD M) (hs : GradIneq s f) (a x : Fin n → ℝ) :
    cost M J a0 aref s a + grad M J a0 aref f a ⬝ᵥ (x - a) + 1 / 2 * bil M (x - a) (x - a)
      ≤ cost M J a0 aref s x := by
  unfold cost grad
  have hx : x - a0 = (a - a0) + (x - a) := by abel
  have hq : (x - a0) ⬝ᵥ (M *ᵥ (x - a0)) =
      bil M (a - a0) (a - a0) + 2 * bil M (a - a0) (x - a) + bil M (x - a) (x - a) := by
    rw [hx]; exact bil_expand hM.symm _ _
  have hs' := hs (J *ᵥ x - aref) (J *ᵥ a - aref)
  have hJ : (J *ᵥ x - aref) - (J *ᵥ a - aref) = J *ᵥ (x - a) := by
    rw [Matrix.mulVec_sub]; abel
  rw [hJ] at hs'
  have hf : (-(f (J *ᵥ a - aref))) ⬝ᵥ (J *ᵥ (x - a)) = -((Jᵀ *ᵥ f (J *ᵥ a - aref)) ⬝ᵥ (x - a)) := by
    rw [neg_dotProduct, Matrix.dotProduct_mulVec, ← Matrix.mulVec_transpose]
  rw [hf] at hs'
  have hg : (M *ᵥ (a - a0) - Jᵀ *ᵥ f (J *ᵥ a - aref)) ⬝ᵥ (x - a) =
      bil M (a - a0) (x - a) - (Jᵀ *ᵥ f (J *ᵥ a - aref)) ⬝ᵥ (x - a) := by
    rw [sub_dotProduct, bil_comm hM.symm, bil, dotProduct_comm]
  rw [hg, hq]
  have : bil M (a - a0) (a - a0) = (a - a0) ⬝ᵥ (M *ᵥ (a - a0)) := rfl
  rw [← this]
  linarith

/-- **Sub-optimality certificate** (witness form): if `M w = ∇cost(a)` then for EVERY `x`
    `cost(a) − cost(x) ≤ ½ ∇cost(a)·w`. -/
theorem subopt_witness (hM : SymPSD M) (hs : GradIneq s f) (a w : Fin n → ℝ)
    (hw : M *ᵥ w = grad M J a0 aref f a) (x : Fin n → ℝ) :
    cost M J a0 aref s a - cost M J a0 aref s x ≤ 1 / 2 * (grad M J a0 aref f a ⬝ᵥ w) := by
  have h1 := cost_strong_lower M J a0 aref s f hM hs a x
  have h2 := quad_lower hM hw (x - a)
  linarith

/-- a stationary point is a global minimiser -/
theorem stationary_is_min (hM : SymPSD M) (hs : GradIneq s f) (astar : Fin n → ℝ)
    (hst : grad M J a0 aref f astar = 0) (x : Fin n → ℝ) :
    cost M J a0 aref s astar ≤ cost M J a0 aref s x := by
  have h1 := cost_strong_lower M J a0 aref s f hM hs astar x
  rw [hst, zero_dotProduct] at h1
  have := hM.nonneg (x - astar)
  unfold bil at h1
  linarith

/-- **Distance certificate** (witness form): the `M`-distance of `a` to a stationary point `a*` is bounded
    by the certificate: `‖a − a*‖²_M ≤ ∇cost(a)·w` where `M w = ∇cost(a)`. -/
theorem dist_witness (hM : SymPSD M) (hs : GradIneq s f) (a w astar : Fin n → ℝ)
    (hw : M *ᵥ w = grad M J a0 aref f a) (hst : grad M J a0 aref f astar = 0) :
    bil M (a - astar) (a - astar) ≤ grad M J a0 aref f a ⬝ᵥ w := by
  set g := grad M J a0 aref f a with hg
  have h1 := cost_strong_lower M J a0 aref s f hM hs a astar
  have h2 := cost_strong_lower M J a0 aref s f hM hs astar a
  rw [hst, zero_dotProduct] at h2
  -- dᵀMd ≤ g·d with d = a − a*
  have hneg : astar - a = -(a - astar) := by abel
  have hb : bil M (astar - a) (astar - a) = bil M (a - astar) (a - astar) := by
    rw [hneg]
    have e1 : -(a - astar) = (-1 : ℝ) • (a - astar) := by simp
    rw [e1, bil_smul_left, bil_smul_right]; ring
  have hd : g ⬝ᵥ (astar - a) = -(g ⬝ᵥ (a - astar)) := by rw [hneg, dotProduct_neg]
  rw [hb, hd] at h1
  have hle : bil M (a - astar) (a - astar) ≤ g ⬝ᵥ (a - astar) := by linarith
  have hcs := cauchy_M hM hw (a - astar)
  have hdd : 0 ≤ bil M (a - astar) (a - astar) := hM.nonneg _
  have hgw : 0 ≤ g ⬝ᵥ w := by
    have := hM.nonneg w
    have h3 : w ⬝ᵥ (M *ᵥ w) = g ⬝ᵥ w := by rw [hw, dotProduct_comm]
    rw [h3] at this; exact this
  -- D ≤ gd, gd² ≤ gw·D  ⇒  D ≤ gw
  by_contra hcon
  rw [not_le] at hcon
  have hDpos : 0 < bil M (a - astar) (a - astar) := lt_of_le_of_lt hgw hcon
  have hgd_pos : 0 < g ⬝ᵥ (a - astar) := lt_of_lt_of_le hDpos hle
  nlinarith
end objective

/-! ### convex + differentiable ⇒ the supporting-hyperplane inequality -/

/-- If `s` is convex and (Fréchet) differentiable with derivative `v ↦ −(f z)·v` at every `z`, the
    supporting-hyperplane inequality `GradIneq s f` holds. -/
theorem gradIneq_of_convex (s : (Fin m → ℝ) → ℝ) (f : (Fin m → ℝ) → (Fin m → ℝ))
    (hc : ConvexOn ℝ Set.univ s)
    (hd : ∀ z, ∃ L : (Fin m → ℝ) →L[ℝ] ℝ, HasFDerivAt s L z ∧ ∀ v, L v = (-(f z)) ⬝ᵥ v) :
    GradIneq s f := by
  intro x z
  obtain ⟨L, hL, hLv⟩ := hd z
  -- restrict to the segment
  let γ : ℝ → (Fin m → ℝ) := fun t => z + t • (x - z)
  have hγ : HasDerivAt γ (x - z) 0 := by
    have h1 : HasDerivAt (fun t : ℝ => t • (x - z)) ((1 : ℝ) • (x - z)) 0 :=
      (hasDerivAt_id (0 : ℝ)).smul_const (x - z)
    have h2 := h1.const_add z
    simpa [γ] using h2
  have hγ0 : γ 0 = z := by simp [γ]
  have hφ : HasDerivAt (s ∘ γ) (L (x - z)) 0 := by
    have hL' : HasFDerivAt s L (γ 0) := by rw [hγ0]; exact hL
    exact hL'.comp_hasDerivAt 0 hγ
  have hconv : ConvexOn ℝ Set.univ (s ∘ γ) := by
    refine ⟨convex_univ, fun t _ u _ p q hp hq hpq => ?_⟩
    have hlin : γ (p • t + q • u) = p • γ t + q • γ u := by
      simp only [γ, smul_add, smul_eq_mul, smul_smul, add_smul]
      have : z = p • z + q • z := by rw [← add_smul, hpq, one_smul]
      nth_rewrite 1 [this]
      abel
    simp only [Function.comp]
    rw [hlin]
    exact hc.2 (Set.mem_univ _) (Set.mem_univ _) hp hq hpq
  have hsl := hconv.le_slope_of_hasDerivAt (Set.mem_univ 0) (Set.mem_univ 1) (by norm_num) hφ
  have hγ1 : γ 1 = x := by simp [γ]
  rw [slope_def_field] at hsl
  simp only [Function.comp, hγ0, hγ1, sub_zero, div_one] at hsl
  rw [hLv] at hsl
  linarith

/-! ### separable costs (constraint islands) -/

/-- A cost that is a sum of block costs over independent blocks of variables is minimised exactly by
    the tuples of block minimisers. -/
theorem separable_min {K : Type} [Fintype K] {V : K → Type} (c : (k : K) → V k → ℝ)
    (astar : (k : K) → V k) (h : ∀ k (y : V k), c k (astar k) ≤ c k y) (x : (k : K) → V k) :
    ∑ k, c k (astar k) ≤ ∑ k, c k (x k) :=
  Finset.sum_le_sum (fun k _ => h k (x k))

theorem separable_min_conv {K : Type} [Fintype K] [DecidableEq K] {V : K → Type} (c : (k : K) → V k → ℝ)
    (astar : (k : K) → V k) (h : ∀ x : (k : K) → V k, ∑ k, c k (astar k) ≤ ∑ k, c k (x k))
    (k : K) (y : V k) : c k (astar k) ≤ c k y := by
  have := h (Function.update astar k y)
  have e : ∑ j, c j (Function.update astar k y j) =
      ∑ j, c j (astar j) - c k (astar k) + c k y := by
    have h1 : ∀ j, c j (Function.update astar k y j) =
        c j (astar j) + (if j = k then c k y - c k (astar k) else 0) := by
      intro j
      by_cases hj : j = k
      · subst hj; simp
      · simp [hj]
    simp only [h1, Finset.sum_add_distrib, Finset.sum_ite_eq', Finset.mem_univ, if_true]
    ring
  rw [e] at this
  linarith

end MjProof.SolverCert
