import MjProof.Lemmas.SparseD2S
/-
C23: `mju_combineSparseCount` / `mju_combineSparse` over ℝ: forward count = number of common indices, in-place
backward merge = a*dst + b*src on the sorted union.
-/
namespace MjProof.Sparse
open MjNum Finset MjProof.LinAlg

/-- strictly increasing on the first `n` entries -/
def SortedUpto {cap : Nat} (ind : Vector Nat cap) (n : Nat) : Prop :=
  ∀ k k', k < k' → k' < n → nget ind k < nget ind k'

/-- number of pairs `(i, j)`, `i < bi`, `j < si`, with equal indices (= number of common indices for strictly
increasing index arrays) -/
def pairCount {ca cb : Nat} (A : Vector Nat ca) (B : Vector Nat cb) (bi si : Nat) : Nat :=
  ∑ i ∈ range bi, ∑ j ∈ range si, if nget A i = nget B j then 1 else 0

section
variable {ca cb : Nat} (A : Vector Nat ca) (B : Vector Nat cb)

theorem pairCount_succ_left (bi si : Nat) :
    pairCount A B (bi + 1) si = pairCount A B bi si + ∑ j ∈ range si, if nget A bi = nget B j then 1 else 0 := by
  unfold pairCount; rw [Finset.sum_range_succ]

theorem pairCount_succ_right (bi si : Nat) :
    pairCount A B bi (si + 1) = pairCount A B bi si + ∑ i ∈ range bi, if nget A i = nget B si then 1 else 0 := by
  unfold pairCount
  simp_rw [Finset.sum_range_succ]
  rw [Finset.sum_add_distrib]

theorem row_zero_of_gt (bi si : Nat) (hB : SortedUpto B (si + 1)) (h : nget B si < nget A bi) :
    ∑ j ∈ range (si + 1), (if nget A bi = nget B j then 1 else 0) = 0 := by
  apply Finset.sum_eq_zero
  intro j hj; simp at hj
  rw [if_neg]
  intro e
  rcases Nat.lt_or_eq_of_le hj with hlt | rfl
  · have := hB j si hlt (by omega); omega
  · omega

theorem col_zero_of_gt (bi si : Nat) (hA : SortedUpto A (bi + 1)) (h : nget A bi < nget B si) :
    ∑ i ∈ range (bi + 1), (if nget A i = nget B si then 1 else 0) = 0 := by
  apply Finset.sum_eq_zero
  intro i hi; simp at hi
  rw [if_neg]
  intro e
  rcases Nat.lt_or_eq_of_le hi with hlt | rfl
  · have := hA i bi hlt (by omega); omega
  · omega

/-- the three cases of the backward merge -/
theorem pairCount_both (bi si : Nat) (hA : SortedUpto A (bi + 1)) (hB : SortedUpto B (si + 1))
    (h : nget A bi = nget B si) : pairCount A B (bi + 1) (si + 1) = pairCount A B bi si + 1 := by
  rw [pairCount_succ_left, pairCount_succ_right, Finset.sum_range_succ, if_pos h]
  have h1 : ∑ i ∈ range bi, (if nget A i = nget B si then 1 else 0) = 0 := by
    apply Finset.sum_eq_zero; intro i hi; simp at hi
    rw [if_neg]; intro e; have := hA i bi hi (by omega); omega
  have h2 : ∑ j ∈ range si, (if nget A bi = nget B j then 1 else 0) = 0 := by
    apply Finset.sum_eq_zero; intro j hj; simp at hj
    rw [if_neg]; intro e; have := hB j si hj (by omega); omega
  rw [h1, h2]; omega

theorem pairCount_dstOnly (bi si : Nat) (hB : SortedUpto B (si + 1)) (h : nget B si < nget A bi) :
    pairCount A B (bi + 1) (si + 1) = pairCount A B bi (si + 1) := by
  rw [pairCount_succ_left, row_zero_of_gt A B bi si hB h]; rfl

theorem pairCount_srcOnly (bi si : Nat) (hA : SortedUpto A (bi + 1)) (h : nget A bi < nget B si) :
    pairCount A B (bi + 1) (si + 1) = pairCount A B (bi + 1) si := by
  rw [pairCount_succ_right, col_zero_of_gt A B bi si hA h]; rfl

theorem pairCount_le_left (bi si : Nat) (hB : SortedUpto B si) : pairCount A B bi si ≤ bi := by
  unfold pairCount
  calc _ ≤ ∑ _i ∈ range bi, 1 := by
        apply Finset.sum_le_sum
        intro i _
        -- at most one j matches
        by_contra hgt
        push_neg at hgt
        have : ∃ j1 ∈ range si, ∃ j2 ∈ range si, j1 ≠ j2 ∧ nget A i = nget B j1 ∧ nget A i = nget B j2 := by
          by_contra hno
          push_neg at hno
          have : ∑ j ∈ range si, (if nget A i = nget B j then 1 else 0) ≤ 1 := by
            by_cases hex : ∃ j ∈ range si, nget A i = nget B j
            · obtain ⟨j0, hj0, e0⟩ := hex
              rw [Finset.sum_eq_single j0]
              · rw [if_pos e0]
              · intro j hj hne
                rw [if_neg]
                intro e
                exact hno j0 hj0 j hj (Ne.symm hne) e0 e
              · intro h; exact absurd hj0 h
            · push_neg at hex
              rw [Finset.sum_eq_zero]
              · omega
              · intro j hj; rw [if_neg (hex j hj)]
          omega
        obtain ⟨j1, h1, j2, h2, hne, e1, e2⟩ := this
        simp at h1 h2
        rcases Nat.lt_or_gt_of_ne hne with h | h
        · have := hB j1 j2 h h2; omega
        · have := hB j2 j1 h h1; omega
    _ = bi := by simp

/-- pairs of equal indices among the last `ra` / `rb` of the first `na` / `nb` entries -/
def sufCount (na nb ra rb : Nat) : Nat :=
  ∑ i ∈ Ico (na - ra) na, ∑ j ∈ Ico (nb - rb) nb, if nget A i = nget B j then 1 else 0

theorem commonCount_eq_sufCount (na nb : Nat) (hna : na ≤ ca) (hnb : nb ≤ cb) (hA : SortedUpto A na) (hB : SortedUpto B nb) :
    ∀ ra rb (ha : ra ≤ na) (hb : rb ≤ nb), commonCount A B na nb hna hnb ra rb ha hb = sufCount A B na nb ra rb := by
  intro ra rb
  induction hn : ra + rb using Nat.strong_induction_on generalizing ra rb with
  | _ n ih =>
  match ra, rb with
  | 0, rb => intro ha hb; simp [commonCount, sufCount]
  | ra + 1, 0 => intro ha hb; simp [commonCount, sufCount]
  | ra + 1, rb + 1 =>
    intro ha hb
    have ih1 := fun h1 h2 => ih (ra + rb) (by omega) ra rb rfl h1 h2
    have ih2 := fun h1 h2 => ih (ra + (rb + 1)) (by omega) ra (rb + 1) rfl h1 h2
    have ih3 := fun h1 h2 => ih ((ra + 1) + rb) (by omega) (ra + 1) rb rfl h1 h2
    have hx : A[na - (ra + 1)]'(by omega) = nget A (na - (ra + 1)) := getElem_eq_nget _ _ _
    have hy : B[nb - (rb + 1)]'(by omega) = nget B (nb - (rb + 1)) := getElem_eq_nget _ _ _
    have eA : na - (ra + 1) + 1 = na - ra := by omega
    have eB : nb - (rb + 1) + 1 = nb - rb := by omega
    -- split off the first row / column of the suffix block
    have splitRow : sufCount A B na nb (ra + 1) (rb + 1)
        = (∑ j ∈ Ico (nb - (rb + 1)) nb, if nget A (na - (ra + 1)) = nget B j then 1 else 0)
          + sufCount A B na nb ra (rb + 1) := by
      unfold sufCount
      rw [Finset.sum_eq_sum_Ico_succ_bot (by omega), eA]
    have splitCol : ∀ ra', sufCount A B na nb ra' (rb + 1)
        = (∑ i ∈ Ico (na - ra') na, if nget A i = nget B (nb - (rb + 1)) then 1 else 0)
          + sufCount A B na nb ra' rb := by
      intro ra'
      unfold sufCount
      rw [← Finset.sum_add_distrib]
      apply Finset.sum_congr rfl
      intro i _
      rw [Finset.sum_eq_sum_Ico_succ_bot (by omega), eB]
    unfold commonCount
    simp only [hx, hy]
    by_cases e : nget A (na - (ra + 1)) = nget B (nb - (rb + 1))
    · rw [if_pos e, ih1 (by omega) (by omega), splitRow, splitCol ra]
      have r0 : ∑ j ∈ Ico (nb - (rb + 1)) nb, (if nget A (na - (ra + 1)) = nget B j then 1 else 0) = 1 := by
        rw [Finset.sum_eq_sum_Ico_succ_bot (by omega), if_pos e, eB]
        have : ∑ j ∈ Ico (nb - rb) nb, (if nget A (na - (ra + 1)) = nget B j then 1 else 0) = 0 := by
          apply Finset.sum_eq_zero; intro j hj; rw [Finset.mem_Ico] at hj
          rw [if_neg]; intro e2
          have := hB (nb - (rb + 1)) j (by omega) hj.2; omega
        rw [this]
      have c0 : ∑ i ∈ Ico (na - ra) na, (if nget A i = nget B (nb - (rb + 1)) then 1 else 0) = 0 := by
        apply Finset.sum_eq_zero; intro i hi; rw [Finset.mem_Ico] at hi
        rw [if_neg]; intro e2
        have := hA (na - (ra + 1)) i (by omega) hi.2; omega
      rw [r0, c0]; omega
    · rw [if_neg e]
      by_cases hlt : nget A (na - (ra + 1)) < nget B (nb - (rb + 1))
      · rw [if_pos hlt, ih2 (by omega) hb, splitRow]
        have r0 : ∑ j ∈ Ico (nb - (rb + 1)) nb, (if nget A (na - (ra + 1)) = nget B j then 1 else 0) = 0 := by
          apply Finset.sum_eq_zero; intro j hj; rw [Finset.mem_Ico] at hj
          rw [if_neg]; intro e2
          rcases Nat.lt_or_eq_of_le hj.1 with h | h
          · have := hB (nb - (rb + 1)) j h hj.2; omega
          · rw [← h] at e2; omega
        rw [r0]; omega
      · rw [if_neg hlt, ih3 ha (by omega), splitCol (ra + 1)]
        have c0 : ∑ i ∈ Ico (na - (ra + 1)) na, (if nget A i = nget B (nb - (rb + 1)) then 1 else 0) = 0 := by
          apply Finset.sum_eq_zero; intro i hi; rw [Finset.mem_Ico] at hi
          rw [if_neg]; intro e2
          rcases Nat.lt_or_eq_of_le hi.1 with h | h
          · have := hA (na - (ra + 1)) i h hi.2; omega
          · rw [← h] at e2; omega
        rw [c0]; omega

theorem commonCount_full (na nb : Nat) (hna : na ≤ ca) (hnb : nb ≤ cb) (hA : SortedUpto A na) (hB : SortedUpto B nb) :
    commonCount A B na nb hna hnb na nb le_rfl le_rfl = pairCount A B na nb := by
  rw [commonCount_eq_sufCount A B na nb hna hnb hA hB]
  unfold sufCount pairCount
  simp only [Nat.sub_self, Finset.range_eq_Ico]

end

/-! ### the backward merge -/

variable {cap ns : Nat}

/-- the sparse vector stored at positions `lo … hi-1`, evaluated at index `j` -/
noncomputable def vecSeg {n : Nat} (ind : Vector Nat n) (val : Vector ℝ n) (lo hi j : Nat) : ℝ :=
  ∑ k ∈ Ico lo hi, if nget ind k = j then vget val k else 0

theorem vecSeg_succ_top {n : Nat} (ind : Vector Nat n) (val : Vector ℝ n) (lo hi j : Nat) (h : lo ≤ hi) :
    vecSeg ind val lo (hi + 1) j = vecSeg ind val lo hi j + (if nget ind hi = j then vget val hi else 0) := by
  unfold vecSeg; rw [Finset.sum_Ico_succ_top h]

theorem vecSeg_split_top {n : Nat} (ind : Vector Nat n) (val : Vector ℝ n) (lo w j : Nat) (hw : 0 < w) (h : lo ≤ w - 1) :
    vecSeg ind val lo w j = vecSeg ind val lo (w - 1) j + (if nget ind (w - 1) = j then vget val (w - 1) else 0) := by
  have := vecSeg_succ_top ind val lo (w - 1) j h
  have e : w - 1 + 1 = w := by omega
  rwa [e] at this

theorem vecSeg_congr {n : Nat} (ind ind' : Vector Nat n) (val val' : Vector ℝ n) (lo hi j : Nat)
    (h : ∀ k, lo ≤ k → k < hi → nget ind' k = nget ind k ∧ vget val' k = vget val k) :
    vecSeg ind' val' lo hi j = vecSeg ind val lo hi j := by
  unfold vecSeg
  apply Finset.sum_congr rfl
  intro k hk; rw [Finset.mem_Ico] at hk
  rw [(h k hk.1 hk.2).1, (h k hk.1 hk.2).2]

theorem vecSeg_empty {n : Nat} (ind : Vector Nat n) (val : Vector ℝ n) (lo j : Nat) : vecSeg ind val lo lo j = 0 := by
  unfold vecSeg; simp

/-- result of the backward merge started at `(bi, si, w)` from state `st` -/
structure GoSpec (a b : ℝ) (src : Vector ℝ ns) (sInd : Vector Nat ns) (ind0 : Vector Nat cap) (dst0 : Vector ℝ cap)
    (bi si w : Nat) (st st' : Comb ℝ cap) (bi' : Nat) : Prop where
  le : bi' ≤ bi
  wle : bi' ≤ w
  pre : ∀ k, k < bi' → nget st'.ind k = nget ind0 k ∧ vget st'.dst k = vget dst0 k
  above : ∀ k, w ≤ k → nget st'.ind k = nget st.ind k ∧ vget st'.dst k = vget st.dst k
  val : ∀ j, vecSeg st'.ind st'.dst bi' w j = a * vecSeg ind0 dst0 bi' bi j + b * vecSeg sInd src 0 si j
  sorted : ∀ k k', bi' ≤ k → k < k' → k' < w → nget st'.ind k < nget st'.ind k'
  mem : ∀ k, bi' ≤ k → k < w → (∃ i, bi' ≤ i ∧ i < bi ∧ nget st'.ind k = nget ind0 i) ∨
    (∃ j, j < si ∧ nget st'.ind k = nget sInd j)
  gap : ∀ k, bi' ≤ k → k < w → 0 < bi' → nget ind0 (bi' - 1) < nget st'.ind k

theorem pairCount_comm {ca cb : Nat} (A : Vector Nat ca) (B : Vector Nat cb) (bi si : Nat) :
    pairCount A B bi si = pairCount B A si bi := by
  unfold pairCount
  rw [Finset.sum_comm]
  apply Finset.sum_congr rfl; intro j _
  apply Finset.sum_congr rfl; intro i _
  by_cases h : nget A i = nget B j
  · rw [if_pos h, if_pos h.symm]
  · rw [if_neg h, if_neg (fun e => h e.symm)]

theorem pairCount_le_right {ca cb : Nat} (A : Vector Nat ca) (B : Vector Nat cb) (bi si : Nat)
    (hA : SortedUpto A bi) : pairCount A B bi si ≤ si := by
  rw [pairCount_comm]; exact pairCount_le_left B A si bi hA

/-- one step of the backward merge: position `w-1` receives `(e, v)`, the rest is merged recursively -/
theorem GoSpec.extend {a b : ℝ} {src : Vector ℝ ns} {sInd : Vector Nat ns} {ind0 : Vector Nat cap} {dst0 : Vector ℝ cap}
    {bi si bi2 si2 w : Nat} {st st' : Comb ℝ cap} {bi' : Nat} {e : Nat} {v : ℝ} (hw : 0 < w) (hwcap : w - 1 < cap)
    (hspec : GoSpec a b src sInd ind0 dst0 bi2 si2 (w - 1)
      { dst := st.dst.set (w - 1) v hwcap, ind := st.ind.set (w - 1) e hwcap } st' bi')
    (hbi : bi2 ≤ bi) (hsi : si2 ≤ si)
    (hval : ∀ j, a * vecSeg ind0 dst0 bi' bi j + b * vecSeg sInd src 0 si j
      = a * vecSeg ind0 dst0 bi' bi2 j + b * vecSeg sInd src 0 si2 j + (if e = j then v else 0))
    (htopA : ∀ i, i < bi2 → nget ind0 i < e) (htopB : ∀ j, j < si2 → nget sInd j < e)
    (hmem : (∃ i, bi' ≤ i ∧ i < bi ∧ e = nget ind0 i) ∨ (∃ j, j < si ∧ e = nget sInd j))
    (hgap : 0 < bi' → nget ind0 (bi' - 1) < e) :
    GoSpec a b src sInd ind0 dst0 bi si w st st' bi' := by
  have htop : nget st'.ind (w - 1) = e ∧ vget st'.dst (w - 1) = v := by
    have := hspec.above (w - 1) le_rfl
    rw [this.1, this.2]
    show nget (st.ind.set (w - 1) e hwcap) (w - 1) = e ∧ vget (st.dst.set (w - 1) v hwcap) (w - 1) = v
    rw [nget_set, vget_set, if_pos rfl, if_pos rfl]; exact ⟨rfl, rfl⟩
  have hregion : ∀ k, bi' ≤ k → k < w - 1 → nget st'.ind k < e := by
    intro k h1 h2
    rcases hspec.mem k h1 h2 with ⟨i, _, hi, he⟩ | ⟨j, hj, he⟩
    · rw [he]; exact htopA i hi
    · rw [he]; exact htopB j hj
  refine ⟨le_trans hspec.le hbi, by have := hspec.wle; clear hmem; omega, hspec.pre, ?_, ?_, ?_, ?_, ?_⟩
  · intro k hk
    have := hspec.above k (by clear hmem; omega)
    rw [this.1, this.2]
    show nget (st.ind.set (w - 1) e hwcap) k = _ ∧ vget (st.dst.set (w - 1) v hwcap) k = _
    rw [nget_set, vget_set, if_neg (by clear hmem; omega), if_neg (by clear hmem; omega)]; exact ⟨rfl, rfl⟩
  · intro j
    rw [hval j, ← hspec.val j, vecSeg_split_top _ _ _ _ _ hw hspec.wle, htop.1, htop.2]
  · intro k k' h1 h2 h3
    by_cases hk' : k' = w - 1
    · rw [hk', htop.1]; exact hregion k h1 (by clear hmem; omega)
    · exact hspec.sorted k k' h1 h2 (by clear hmem; omega)
  · intro k h1 h2
    by_cases hk : k = w - 1
    · rw [hk, htop.1]; exact hmem
    · rcases hspec.mem k h1 (by clear hmem; omega) with ⟨i, hi1, hi2, he⟩ | ⟨j, hj, he⟩
      · exact Or.inl ⟨i, hi1, by omega, he⟩
      · exact Or.inr ⟨j, by omega, he⟩
  · intro k h1 h2 h3
    by_cases hk : k = w - 1
    · rw [hk, htop.1]; exact hgap h3
    · exact hspec.gap k h1 (by clear hmem; omega) h3

theorem pairCount_zero_left {ca cb : Nat} (A : Vector Nat ca) (B : Vector Nat cb) (si : Nat) : pairCount A B 0 si = 0 := by
  simp [pairCount]

theorem pairCount_zero_right {ca cb : Nat} (A : Vector Nat ca) (B : Vector Nat cb) (bi : Nat) : pairCount A B bi 0 = 0 := by
  simp [pairCount]

theorem SortedUpto.mono {cap : Nat} {ind : Vector Nat cap} {n m : Nat} (h : SortedUpto ind n) (hm : m ≤ n) :
    SortedUpto ind m := fun k k' h1 h2 => h k k' h1 (by omega)

/-- the backward merge performs only in-range accesses and produces the merged, sorted tail -/
theorem combineGo_spec (a b : ℝ) (src : Vector ℝ ns) (sInd : Vector Nat ns) (ind0 : Vector Nat cap) (dst0 : Vector ℝ cap)
    (dn : Nat) (hA : SortedUpto ind0 dn) (hB : SortedUpto sInd ns) (hdn : dn ≤ cap) :
    ∀ n bi si w (st : Comb ℝ cap), bi + si = n → bi ≤ dn → si ≤ ns →
      w + pairCount ind0 sInd bi si = bi + si → w ≤ cap →
      (∀ k, k < bi → nget st.ind k = nget ind0 k ∧ vget st.dst k = vget dst0 k) →
      ∃ st' bi', combineGo a b src sInd bi si w st = some (st', bi') ∧
        GoSpec a b src sInd ind0 dst0 bi si w st st' bi' := by
  intro n
  induction n using Nat.strong_induction_on with
  | _ n ih =>
  intro bi si w st hn hbi hsi hw hwcap hpre
  match bi, si with
  | bi, 0 =>
    rw [combineGo]
    have hwb : w = bi := by rw [pairCount_zero_right] at hw; omega
    subst hwb
    refine ⟨st, w, rfl, le_rfl, le_rfl, hpre, fun _ _ => ⟨rfl, rfl⟩, ?_, ?_, ?_, ?_⟩
    · intro j; rw [vecSeg_empty, vecSeg_empty, vecSeg_empty]; ring
    · intro k k' h1 h2 h3; omega
    · intro k h1 h2; omega
    · intro k h1 h2; omega
  | 0, si + 1 =>
    have hws : w = si + 1 := by rw [pairCount_zero_left] at hw; omega
    subst hws
    have hsi' : si < ns := by omega
    have hpos : si + 1 - 1 < cap := by omega
    obtain ⟨st', bi', h1, h2⟩ := ih si (by omega) 0 si (si + 1 - 1)
      { dst := st.dst.set (si + 1 - 1) (b * src[si]) hpos, ind := st.ind.set (si + 1 - 1) sInd[si] hpos }
      (by omega) (by omega) (by omega) (by rw [pairCount_zero_left]; omega) (by omega) (by intro k hk; omega)
    refine ⟨st', bi', ?_, ?_⟩
    · rw [combineGo]
      simp only [Nat.add_one_ne_zero, if_false, rd_some _ _ hsi', Option.bind_eq_bind, Option.bind_some,
        wr_some _ _ _ hpos]
      exact h1
    · have hb0 : bi' = 0 := by have := h2.le; omega
      refine GoSpec.extend (by omega) hpos h2 le_rfl (by omega) ?_ ?_ ?_ ?_ ?_
      · intro j
        rw [vecSeg_succ_top _ _ _ _ _ (Nat.zero_le si), getElem_eq_nget, getElem_eq_vget]
        ring_nf
        split_ifs <;> ring
      · intro i hi; omega
      · intro j hj; rw [getElem_eq_nget]; exact hB j si hj hsi'
      · exact Or.inr ⟨si, by omega, by rw [getElem_eq_nget]⟩
      · intro h; omega
  | bi + 1, si + 1 =>
    have hbi' : bi < dn := by omega
    have hsi' : si < ns := by omega
    have hbc : bi < cap := by omega
    have hA1 : SortedUpto ind0 (bi + 1) := hA.mono (by omega)
    have hB1 : SortedUpto sInd (si + 1) := hB.mono (by omega)
    have hpc := pairCount_le_left ind0 sInd (bi + 1) (si + 1) hB1
    have hw0 : 0 < w := by omega
    have hpos : w - 1 < cap := by omega
    have eI : st.ind[bi] = nget ind0 bi := by rw [getElem_eq_nget]; exact (hpre bi (by omega)).1
    have eD : st.dst[bi] = vget dst0 bi := by rw [getElem_eq_vget]; exact (hpre bi (by omega)).2
    have eS : sInd[si] = nget sInd si := getElem_eq_nget _ _ _
    have eV : src[si] = vget src si := getElem_eq_vget _ _ _
    have hunf : combineGo a b src sInd (bi + 1) (si + 1) w st =
        (if nget ind0 bi = nget sInd si then
          combineGo a b src sInd bi si (w - 1)
            { dst := st.dst.set (w - 1) (a * vget dst0 bi + b * vget src si) hpos,
              ind := st.ind.set (w - 1) (nget ind0 bi) hpos }
        else if nget sInd si < nget ind0 bi then
          combineGo a b src sInd bi (si + 1) (w - 1)
            { dst := st.dst.set (w - 1) (a * vget dst0 bi) hpos, ind := st.ind.set (w - 1) (nget ind0 bi) hpos }
        else
          combineGo a b src sInd (bi + 1) si (w - 1)
            { dst := st.dst.set (w - 1) (b * vget src si) hpos, ind := st.ind.set (w - 1) (nget sInd si) hpos }) := by
      rw [combineGo]
      simp only [show ¬ w = 0 by omega, if_false, rd_some _ _ hbc, rd_some _ _ hsi', Option.bind_eq_bind,
        Option.bind_some, wr_some _ _ _ hpos, eI, eD, eS, eV]
    rw [hunf]
    by_cases heq : nget ind0 bi = nget sInd si
    · -- both
      rw [if_pos heq]
      have hpc2 := pairCount_both ind0 sInd bi si hA1 hB1 heq
      have hle := pairCount_le_right ind0 sInd bi si (hA.mono (by omega))
      obtain ⟨st', bi', h1, h2⟩ := ih (bi + si) (by omega) bi si (w - 1)
        { dst := st.dst.set (w - 1) (a * vget dst0 bi + b * vget src si) hpos,
          ind := st.ind.set (w - 1) (nget ind0 bi) hpos } rfl (by omega) (by omega) (by omega) (by omega)
        (by
          intro k hk
          show nget (st.ind.set (w - 1) _ hpos) k = _ ∧ vget (st.dst.set (w - 1) _ hpos) k = _
          rw [nget_set, vget_set, if_neg (by omega), if_neg (by omega)]
          exact hpre k (by omega))
      refine ⟨st', bi', h1, GoSpec.extend hw0 hpos h2 (by omega) (by omega) ?_ ?_ ?_ ?_ ?_⟩
      · intro j
        rw [vecSeg_succ_top _ _ _ _ _ h2.le, vecSeg_succ_top _ _ _ _ _ (Nat.zero_le si), ← heq]
        split_ifs <;> ring
      · intro i hi; exact hA1 i bi hi (by omega)
      · intro j hj; rw [heq]; exact hB1 j si hj (by omega)
      · exact Or.inl ⟨bi, h2.le, by omega, rfl⟩
      · intro h; have := h2.le; exact hA1 (bi' - 1) bi (by omega) (by omega)
    · rw [if_neg heq]
      by_cases hlt : nget sInd si < nget ind0 bi
      · -- dst only
        rw [if_pos hlt]
        have hpc2 := pairCount_dstOnly ind0 sInd bi si hB1 hlt
        have hle := pairCount_le_right ind0 sInd bi (si + 1) (hA.mono (by omega))
        obtain ⟨st', bi', h1, h2⟩ := ih (bi + (si + 1)) (by omega) bi (si + 1) (w - 1)
          { dst := st.dst.set (w - 1) (a * vget dst0 bi) hpos, ind := st.ind.set (w - 1) (nget ind0 bi) hpos } rfl (by omega) (by omega)
          (by omega) (by omega)
          (by
            intro k hk
            show nget (st.ind.set (w - 1) _ hpos) k = _ ∧ vget (st.dst.set (w - 1) _ hpos) k = _
            rw [nget_set, vget_set, if_neg (by omega), if_neg (by omega)]
            exact hpre k (by omega))
        refine ⟨st', bi', h1, GoSpec.extend hw0 hpos h2 (by omega) le_rfl ?_ ?_ ?_ ?_ ?_⟩
        · intro j
          rw [vecSeg_succ_top _ _ _ _ _ h2.le]
          split_ifs <;> ring
        · intro i hi; exact hA1 i bi hi (by omega)
        · intro j hj
          rcases Nat.lt_or_eq_of_le (Nat.lt_succ_iff.mp hj) with h | h
          · have := hB1 j si h (by omega); omega
          · rw [h]; exact hlt
        · exact Or.inl ⟨bi, h2.le, by omega, rfl⟩
        · intro h; have := h2.le; exact hA1 (bi' - 1) bi (by omega) (by omega)
      · -- src only
        rw [if_neg hlt]
        have hgt : nget ind0 bi < nget sInd si := by omega
        have hpc2 := pairCount_srcOnly ind0 sInd bi si hA1 hgt
        have hle := pairCount_le_right ind0 sInd (bi + 1) si hA1
        obtain ⟨st', bi', h1, h2⟩ := ih ((bi + 1) + si) (by omega) (bi + 1) si (w - 1)
          { dst := st.dst.set (w - 1) (b * vget src si) hpos, ind := st.ind.set (w - 1) (nget sInd si) hpos } rfl (by omega) (by omega)
          (by omega) (by omega)
          (by
            intro k hk
            show nget (st.ind.set (w - 1) _ hpos) k = _ ∧ vget (st.dst.set (w - 1) _ hpos) k = _
            rw [nget_set, vget_set, if_neg (by omega), if_neg (by omega)]
            exact hpre k (by omega))
        refine ⟨st', bi', h1, GoSpec.extend hw0 hpos h2 le_rfl (by omega) ?_ ?_ ?_ ?_ ?_⟩
        · intro j
          rw [vecSeg_succ_top _ _ _ _ _ (Nat.zero_le si)]
          split_ifs <;> ring
        · intro i hi
          rcases Nat.lt_or_eq_of_le (Nat.lt_succ_iff.mp hi) with h | h
          · have := hA1 i bi h (by omega); omega
          · rw [h]; exact hgt
        · intro j hj; exact hB1 j si hj (by omega)
        · exact Or.inr ⟨si, by omega, rfl⟩
        · intro h
          have := h2.le
          rcases Nat.lt_or_eq_of_le (show bi' - 1 ≤ bi by omega) with h' | h'
          · have := hA1 (bi' - 1) bi h' (by omega); omega
          · rw [h']; exact hgt

theorem vecSeg_split {n : Nat} (ind : Vector Nat n) (val : Vector ℝ n) (lo mid hi j : Nat) (h1 : lo ≤ mid) (h2 : mid ≤ hi) :
    vecSeg ind val lo hi j = vecSeg ind val lo mid j + vecSeg ind val mid hi j := by
  unfold vecSeg; rw [Finset.sum_Ico_consecutive _ h1 h2]

theorem scaleLoop_spec (a : ℝ) (d0 : Vector ℝ cap) (m : Nat) (hm : m ≤ cap) :
    ∃ d', loopM m (fun k (d : Vector ℝ cap) => do
        let x ← rd d k
        wr d k (x * a)) d0 = some d' ∧ ∀ k, vget d' k = if k < m then vget d0 k * a else vget d0 k := by
  refine loopM_inv m _ d0 (fun t d => ∀ k, vget d k = if k < t then vget d0 k * a else vget d0 k)
    (by intro k; rw [if_neg (by omega)]) ?_
  intro t ht d Q
  have htc : t < cap := by omega
  simp only [rd_some _ _ htc, Option.bind_eq_bind, Option.bind_some, wr_some _ _ _ htc]
  refine ⟨_, rfl, ?_⟩
  intro k
  have hdt : vget d t = vget d0 t := by rw [Q t, if_neg (by omega)]
  rw [vget_set, getElem_eq_vget, hdt]
  by_cases e : k = t
  · subst e; rw [if_pos rfl, if_pos (by omega)]
  · rw [if_neg e, Q k]
    by_cases h : k < t
    · rw [if_pos h, if_pos (by omega)]
    · rw [if_neg h, if_neg (by omega)]

theorem pairCount_same {ca cb : Nat} (A : Vector Nat ca) (B : Vector Nat cb) (n : Nat) (hA : SortedUpto A n)
    (h : ∀ k, k < n → nget A k = nget B k) : pairCount A B n n = n := by
  unfold pairCount
  have : ∀ i ∈ range n, ∑ j ∈ range n, (if nget A i = nget B j then 1 else 0) = 1 := by
    intro i hi; simp at hi
    rw [Finset.sum_eq_single i]
    · rw [if_pos (h i hi)]
    · intro j hj hne
      simp at hj
      rw [if_neg]
      rw [← h j hj]
      intro e
      rcases Nat.lt_or_gt_of_ne hne with h1 | h1
      · have := hA j i h1 hi; omega
      · have := hA i j h1 hj; omega
    · intro hn; exact absurd (Finset.mem_range.mpr hi) hn
  rw [Finset.sum_congr rfl this]; simp

/-- `mju_combineSparse` on strictly increasing index arrays whose union fits the destination buffers -/
theorem combineSparse_spec (a b : ℝ) (dn : Nat) (ind0 : Vector Nat cap) (dst0 : Vector ℝ cap) (src : Vector ℝ ns)
    (sInd : Vector Nat ns) (hA : SortedUpto ind0 dn) (hB : SortedUpto sInd ns) (hdn : dn ≤ cap)
    (hfit : dn + ns - pairCount ind0 sInd dn ns ≤ cap) :
    ∃ out nnz, combineSparse a b dn { dst := dst0, ind := ind0 } src sInd = some (out, nnz) ∧
      nnz + pairCount ind0 sInd dn ns = dn + ns ∧ SortedUpto out.ind nnz ∧
      ∀ j, vecSeg out.ind out.dst 0 nnz j = a * vecSeg ind0 dst0 0 dn j + b * vecSeg sInd src 0 ns j := by
  have hpcle := pairCount_le_left ind0 sInd dn ns hB
  unfold combineSparse
  rw [dif_pos hdn]
  by_cases hsame : dn = ns ∧ ∀ k (h : k < dn), nget ind0 k = nget sInd k
  · -- identical pattern
    obtain ⟨hn, hk⟩ := hsame
    subst hn
    have hcond : ∀ k (h : k < dn), (ind0[k]'(by omega)) = (sInd[k]'(by omega)) := by
      intro k h; rw [getElem_eq_nget, getElem_eq_nget]; exact hk k h
    simp only [dif_pos rfl, if_pos hcond]
    have hfold : ∀ k, vget (Nat.fold dn (fun k hk (d : Vector ℝ cap) =>
          d.set k (d[k]'(by omega) * a + src[k]'(by omega) * b) (by omega)) dst0) k
        = if k < dn then vget dst0 k * a + vget src k * b else vget dst0 k := by
      refine fold_inv (n := dn)
        (body := fun k hk (d : Vector ℝ cap) => d.set k (d[k]'(by omega) * a + src[k]'(by omega) * b) (by omega))
        (fun t d => ∀ k, vget d k = if k < t then vget dst0 k * a + vget src k * b else vget dst0 k)
        (by intro k; rw [if_neg (by omega)]) ?_
      intro t ht d Q k
      have hdt : vget d t = vget dst0 t := by rw [Q t, if_neg (by omega)]
      rw [vget_set, getElem_eq_vget, getElem_eq_vget, hdt]
      by_cases e : k = t
      · subst e; rw [if_pos rfl, if_pos (by omega)]
      · rw [if_neg e, Q k]
        by_cases h : k < t
        · rw [if_pos h, if_pos (by omega)]
        · rw [if_neg h, if_neg (by omega)]
    refine ⟨_, dn, rfl, ?_, hA, ?_⟩
    · rw [pairCount_same ind0 sInd dn hA hk]
    · intro j
      unfold vecSeg
      rw [Finset.mul_sum, Finset.mul_sum, ← Finset.sum_add_distrib]
      apply Finset.sum_congr rfl
      intro k hk'
      rw [Finset.mem_Ico] at hk'
      show (if nget ind0 k = j then vget (Nat.fold dn _ dst0) k else 0) = _
      rw [hfold k, if_pos hk'.2, ← hk k hk'.2]
      split_ifs <;> ring
  · -- general merge
    have hnone : (if hn : dn = ns then
          if ∀ k (h : k < dn), (ind0[k]'(by omega)) = (sInd[k]'(by omega)) then some (PLift.up hn) else none
        else none) = none := by
      by_cases hn : dn = ns
      · rw [dif_pos hn, if_neg]
        intro hall
        apply hsame
        refine ⟨hn, fun k h => ?_⟩
        have := hall k h
        rwa [getElem_eq_nget, getElem_eq_nget] at this
      · rw [dif_neg hn]
    simp only [hnone]
    rw [commonCount_full ind0 sInd dn ns hdn le_rfl hA hB]
    obtain ⟨st', bi', h1, G⟩ := combineGo_spec a b src sInd ind0 dst0 dn hA hB hdn (dn + ns) dn ns
      (dn + ns - pairCount ind0 sInd dn ns) { dst := dst0, ind := ind0 } rfl le_rfl le_rfl (by omega) hfit
      (fun _ _ => ⟨rfl, rfl⟩)
    simp only [h1]
    -- the scaled prefix
    have hsorted : SortedUpto st'.ind (dn + ns - pairCount ind0 sInd dn ns) := by
      intro k k' hkk hk'
      by_cases h1' : k' < bi'
      · rw [(G.pre k (by omega)).1, (G.pre k' h1').1]; exact hA k k' hkk (by have := G.le; omega)
      · by_cases h2' : bi' ≤ k
        · exact G.sorted k k' h2' hkk hk'
        · have hg := G.gap k' (by omega) hk' (by omega)
          rw [(G.pre k (by omega)).1]
          rcases Nat.lt_or_eq_of_le (show k ≤ bi' - 1 by omega) with h | h
          · have := hA k (bi' - 1) h (by have := G.le; omega); omega
          · rw [h]; exact hg
    have hvalue : ∀ (d' : Vector ℝ cap), (∀ k, vget d' k = if k < bi' then vget st'.dst k * a else vget st'.dst k) →
        ∀ j, vecSeg st'.ind d' 0 (dn + ns - pairCount ind0 sInd dn ns) j
          = a * vecSeg ind0 dst0 0 dn j + b * vecSeg sInd src 0 ns j := by
      intro d' hd' j
      rw [vecSeg_split _ _ 0 bi' _ j (Nat.zero_le _) G.wle, vecSeg_split ind0 dst0 0 bi' dn j (Nat.zero_le _) G.le]
      have e1 : vecSeg st'.ind d' bi' (dn + ns - pairCount ind0 sInd dn ns) j
          = vecSeg st'.ind st'.dst bi' (dn + ns - pairCount ind0 sInd dn ns) j := by
        apply vecSeg_congr
        intro k hk1 _
        exact ⟨rfl, by rw [hd' k, if_neg (by omega)]⟩
      have e2 : vecSeg st'.ind d' 0 bi' j = a * vecSeg ind0 dst0 0 bi' j := by
        unfold vecSeg
        rw [Finset.mul_sum]
        apply Finset.sum_congr rfl
        intro k hk
        rw [Finset.mem_Ico] at hk
        rw [hd' k, if_pos hk.2, (G.pre k hk.2).1, (G.pre k hk.2).2]
        split_ifs <;> ring
      rw [e1, e2, G.val j]; ring
    by_cases ha1 : a = 1
    · have hb : MjNum.beq a (lit 1) = true := by simp [MjNum.lit, ha1]
      simp only [hb, if_true]
      refine ⟨st', _, rfl, by omega, hsorted, hvalue st'.dst (fun k => by split_ifs <;> simp [ha1])⟩
    · have hb : ¬ (MjNum.beq a (lit 1) = true) := by simp [MjNum.lit, ha1]
      simp only [hb, if_false]
      obtain ⟨d', hd1, hd2⟩ := scaleLoop_spec a st'.dst bi' (by have := G.le; omega)
      rw [hd1]
      exact ⟨_, _, rfl, by omega, hsorted, hvalue d' hd2⟩

end MjProof.Sparse