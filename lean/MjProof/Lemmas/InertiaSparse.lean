import MjProof.Model.InertiaSparse
import MjProof.Lemmas.RealNum
import Mathlib.Algebra.BigOperators.Fin
import Mathlib.Tactic.Ring
import Mathlib.Tactic.Linarith
import Mathlib.Tactic.FieldSimp
/-
C06 helper lemmas: what the executable sparse-inertia model (`MjProof/Model/InertiaSparse.lean`) computes over ℝ.

  * `entry M a b`  — the dense symmetric matrix `D + Lo + Loᵀ` a lower-triangle CSR matrix stands for
  * `mulM_get`     — `mju_mulSymVecSparse` returns `Σ_j entry a j * v j`           (pattern: `LowerOk`)
  * `fullM_get`    — `mju_sym2dense` fills exactly `entry`                          (pattern: `LowerOk`)
  * `fullM_symm`   — `mju_sym2dense` output is symmetric for EVERY input (no pattern hypothesis)
  * `dot4_real`    — the 4-accumulator `mju_dotSparse` is the plain sum over ℝ
  * `solveT_spec`, `solveL_spec`, `solveLD_spec` — the three passes of `mj_solveLD` are the triangular solves
    `Lᵀ z = x`, `w = D⁻¹ z`, `L y = w`
-/
set_option linter.unusedSimpArgs false
set_option linter.unusedVariables false
namespace MjProof.InertiaSparse
open MjProof
variable {n : Nat}

@[simp] theorem zero_real : (zero : ℝ) = 0 := by simp [zero]
@[simp] theorem one_real : (one : ℝ) = 1 := by simp [one]

theorem get_set {β : Type} (v : Vector β n) (i j : Fin n) (x : β) :
    (v.set i x)[j] = if i = j then x else v[j] := by
  simp only [Fin.getElem_fin, Vector.getElem_set]
  by_cases h : i = j
  · simp [h]
  · have : (i : Nat) ≠ j := fun h' => h (Fin.ext h')
    simp [h, this]

/-- sum of the values stored under column `j` in a slot list -/
def colSum (off : List (Fin n × ℝ)) (j : Fin n) : ℝ := (off.map (fun e => if e.1 = j then e.2 else 0)).sum

/-- the additive part of `rowMul` -/
theorem rowMul_inner (i : Fin n) (v : Vector ℝ n) (off : List (Fin n × ℝ)) (res : Vector ℝ n) (a : Fin n) :
    (off.foldr (fun e res =>
        let res := res.set i (res[i] + e.2 * v[e.1])
        res.set e.1 (res[e.1] + e.2 * v[i])) res)[a]
      = res[a] + (if i = a then (off.map (fun e => e.2 * v[e.1])).sum else 0) + colSum off a * v[i] := by
  induction off with
  | nil => simp [colSum]
  | cons e off ih =>
    simp only [List.foldr_cons, get_set, List.map_cons, List.sum_cons, colSum] at ih ⊢
    by_cases h1 : e.1 = a <;> by_cases h2 : i = a <;> by_cases h3 : i = e.1 <;> simp_all <;> ring

/-- decoded pattern hypotheses -/
def LowerOk (M : SymCsr ℝ n) : Prop :=
  ∀ i : Fin n, M[i].dcol = i ∧ (M[i].cols).Pairwise (· < ·) ∧ ∀ c ∈ M[i].cols, c < i

theorem increasing_iff (l : List (Fin n)) : increasing l = true ↔ l.Pairwise (· < ·) := by
  induction l with
  | nil => simp [increasing]
  | cons a l ih =>
    cases l with
    | nil => simp [increasing]
    | cons b r =>
      simp only [increasing, Bool.and_eq_true, decide_eq_true_eq, ih, List.pairwise_cons]
      constructor
      · rintro ⟨hab, hb, hr⟩
        refine ⟨?_, hb, hr⟩
        intro x hx
        rcases List.mem_cons.1 hx with rfl | hx
        · exact hab
        · exact lt_trans hab (hb x hx)
      · rintro ⟨h1, hb, hr⟩
        exact ⟨h1 b (List.mem_cons_self ..), hb, hr⟩

theorem lowerOk_iff (M : SymCsr ℝ n) : lowerOk M = true ↔ LowerOk M := by
  simp only [lowerOk, List.all_eq_true, List.mem_finRange, forall_const, Bool.and_eq_true, decide_eq_true_eq,
    increasing_iff, LowerOk, and_assoc]

/-- contribution of row `i` to entry `a` of the product -/
def contrib (M : SymCsr ℝ n) (v : Vector ℝ n) (i a : Fin n) : ℝ :=
  (if i = a then M[i].d * v[i] + (M[i].off.map (fun e => e.2 * v[e.1])).sum else 0) + colSum M[i].off a * v[i]

theorem rowMul_get (M : SymCsr ℝ n) (v res : Vector ℝ n) (i a : Fin n) (h0 : res[i] = 0) :
    (rowMul i M[i] v res)[a] = res[a] + contrib M v i a := by
  unfold rowMul contrib
  simp only []
  rw [rowMul_inner, get_set]
  by_cases h : i = a
  · subst h; simp [h0]
  · simp [h]

theorem colSum_eq_zero_of_not_mem (off : List (Fin n × ℝ)) (a : Fin n) (h : a ∉ off.map (·.1)) : colSum off a = 0 := by
  induction off with
  | nil => simp [colSum]
  | cons e off ih =>
    simp only [List.map_cons, List.mem_cons, not_or] at h
    simp only [colSum, List.map_cons, List.sum_cons] at ih ⊢
    rw [ih h.2]
    simp [Ne.symm h.1]

theorem contrib_eq_zero (M : SymCsr ℝ n) (hM : LowerOk M) (v : Vector ℝ n) (i a : Fin n) (h : i < a) :
    contrib M v i a = 0 := by
  unfold contrib
  have h1 : i ≠ a := ne_of_lt h
  have h2 : a ∉ M[i].off.map (·.1) := fun hm => by
    have := (hM i).2.2 a hm
    exact absurd (lt_trans h this) (lt_irrefl _)
  rw [colSum_eq_zero_of_not_mem _ _ h2, if_neg h1]; ring

theorem mulM_aux (M : SymCsr ℝ n) (hM : LowerOk M) (v : Vector ℝ n) :
    ∀ (l : List (Fin n)), l.Pairwise (· < ·) → ∀ res : Vector ℝ n, (∀ i ∈ l, res[i] = 0) →
      ∀ a, (l.foldl (fun res i => rowMul i M[i] v res) res)[a] = res[a] + (l.map (fun i => contrib M v i a)).sum := by
  intro l
  induction l with
  | nil => intro _ res _ a; simp
  | cons i l ih =>
    intro hs res h0 a
    rw [List.pairwise_cons] at hs
    simp only [List.foldl_cons, List.map_cons, List.sum_cons]
    rw [ih hs.2]
    · rw [rowMul_get M v res i a (h0 i (List.mem_cons_self ..))]; ring
    · intro j hj
      rw [rowMul_get M v res i j (h0 i (List.mem_cons_self ..)), h0 j (List.mem_cons_of_mem _ hj),
        contrib_eq_zero M hM v i j (hs.1 j hj)]
      simp

/-- the dense symmetric matrix a lower-triangle CSR matrix stands for: `D + Lo + Loᵀ` -/
def entry (M : SymCsr ℝ n) (a b : Fin n) : ℝ :=
  (if a = b then M[a].d else 0) + colSum M[a].off b + colSum M[b].off a

theorem entry_symm (M : SymCsr ℝ n) (a b : Fin n) : entry M a b = entry M b a := by
  unfold entry
  by_cases h : a = b
  · subst h; ring
  · simp [h, Ne.symm h]; ring

theorem sum_colSum_mul (off : List (Fin n × ℝ)) (v : Vector ℝ n) :
    ∑ j : Fin n, colSum off j * v[j] = (off.map (fun e => e.2 * v[e.1])).sum := by
  induction off with
  | nil => simp [colSum]
  | cons e off ih =>
    simp only [colSum, List.map_cons, List.sum_cons, add_mul, Finset.sum_add_distrib] at ih ⊢
    rw [ih]
    congr 1
    simp [Finset.sum_ite_eq]

theorem mulM_get (M : SymCsr ℝ n) (hM : LowerOk M) (v : Vector ℝ n) (a : Fin n) :
    (mulM M v)[a] = ∑ j : Fin n, entry M a j * v[j] := by
  unfold mulM
  rw [mulM_aux M hM v (List.finRange n) (List.pairwise_lt_finRange n) _ (by intro i _; simp [get_set, zero]) a]
  have hz : (Vector.replicate n (zero : ℝ))[a] = 0 := by simp [zero]
  rw [hz, zero_add, ← Fin.sum_univ_def]
  simp only [entry, contrib, add_mul, Finset.sum_add_distrib]
  rw [sum_colSum_mul]
  simp [Finset.sum_ite_eq]

/-! ### sym2dense -/

theorem setCell_get (D : Dense ℝ n) (a b a' b' : Fin n) (x : ℝ) :
    (setCell D a b x)[a'][b'] = if a = a' ∧ b = b' then x else D[a'][b'] := by
  unfold setCell
  rw [get_set]
  by_cases h : a = a'
  · subst h; simp only [if_true, true_and]; rw [get_set]
  · simp [h]

def Symm (D : Dense ℝ n) : Prop := ∀ a b : Fin n, D[a][b] = D[b][a]

theorem putSlot_symm (i : Fin n) (D : Dense ℝ n) (e : Fin n × ℝ) (h : Symm D) : Symm (putSlot i D e) := by
  unfold putSlot
  split
  · intro a b
    simp only [setCell_get]
    have := h a b
    by_cases h1 : e.1 = a <;> by_cases h2 : i = b <;> by_cases h3 : i = a <;> by_cases h4 : e.1 = b <;> simp_all
  · exact h

theorem fullM_symm (M : SymCsr ℝ n) : Symm (fullM M) := by
  unfold fullM
  have key : ∀ (l : List (Fin n)) (D : Dense ℝ n), Symm D →
      Symm (l.foldl (fun D i => rowDense i M[i] D) D) := by
    intro l
    induction l with
    | nil => intro D h; exact h
    | cons i l ih =>
      intro D h
      simp only [List.foldl_cons]
      apply ih
      unfold rowDense
      apply putSlot_symm
      have : ∀ (off : List (Fin n × ℝ)) (D : Dense ℝ n), Symm D → Symm (off.foldl (putSlot i) D) := by
        intro off
        induction off with
        | nil => intro D h; exact h
        | cons e off ih2 => intro D h; exact ih2 _ (putSlot_symm i D e h)
      exact this _ _ h
  apply key
  intro a b
  simp

theorem colSum_cons (e : Fin n × ℝ) (off : List (Fin n × ℝ)) (j : Fin n) :
    colSum (e :: off) j = (if e.1 = j then e.2 else 0) + colSum off j := by
  simp [colSum]

theorem putSlots_get (i : Fin n) :
    ∀ (off : List (Fin n × ℝ)) (D : Dense ℝ n), (off.map (·.1)).Nodup → (∀ c ∈ off.map (·.1), c < i) →
    ∀ a b : Fin n, (off.foldl (putSlot i) D)[a][b] =
      if a = i ∧ b ∈ off.map (·.1) then colSum off b
      else if b = i ∧ a ∈ off.map (·.1) then colSum off a else D[a][b] := by
  intro off
  induction off with
  | nil => intro D _ _ a b; simp
  | cons e off ih =>
    intro D hnd hlt a b
    simp only [List.map_cons, List.nodup_cons] at hnd
    have hlt' : ∀ c ∈ off.map (·.1), c < i := fun c hc => hlt c (by simp only [List.map_cons]; exact List.mem_cons_of_mem _ hc)
    have hei : e.1 < i := hlt e.1 (by simp)
    simp only [List.foldl_cons, List.map_cons, List.mem_cons]
    rw [ih _ hnd.2 hlt' a b, colSum_cons, colSum_cons]
    have hle : e.1 ≤ i := le_of_lt hei
    have hne : e.1 ≠ i := ne_of_lt hei
    simp only [putSlot, hle, if_true, setCell_get]
    have z1 := colSum_eq_zero_of_not_mem off e.1 hnd.1
    have hi1 : i ∉ off.map (·.1) := fun h => absurd (hlt' i h) (lt_irrefl _)
    grind

theorem rowDense_get (M : SymCsr ℝ n) (hM : LowerOk M) (i : Fin n) (D : Dense ℝ n) (a b : Fin n) :
    (rowDense i M[i] D)[a][b] =
      if a = i ∧ b = i then M[i].d
      else if a = i ∧ b ∈ M[i].cols then colSum M[i].off b
      else if b = i ∧ a ∈ M[i].cols then colSum M[i].off a else D[a][b] := by
  obtain ⟨h1, h2, h3⟩ := hM i
  unfold rowDense
  have hnd : (M[i].off.map (·.1)).Nodup := by
    have : M[i].cols.Pairwise (· ≠ ·) := h2.imp (fun h => ne_of_lt h)
    exact this
  have key := putSlots_get i M[i].off D hnd h3
  simp only [putSlot, h1, le_refl, if_true, setCell_get, key, Row.cols]
  have hi1 : i ∉ M[i].off.map (·.1) := fun h => absurd (h3 i h) (lt_irrefl _)
  grind

theorem entry_of_lt (M : SymCsr ℝ n) (hM : LowerOk M) (a b : Fin n) (h : b < a) :
    entry M a b = colSum M[a].off b := by
  unfold entry
  have h2 : a ∉ M[b].off.map (·.1) := fun hm => absurd (lt_trans h ((hM b).2.2 a hm)) (lt_irrefl _)
  rw [colSum_eq_zero_of_not_mem _ _ h2, if_neg (ne_of_gt h)]; ring

theorem entry_self (M : SymCsr ℝ n) (hM : LowerOk M) (a : Fin n) : entry M a a = M[a].d := by
  unfold entry
  have h2 : a ∉ M[a].off.map (·.1) := fun hm => absurd ((hM a).2.2 a hm) (lt_irrefl _)
  rw [colSum_eq_zero_of_not_mem _ _ h2]; simp

theorem fullM_get (M : SymCsr ℝ n) (hM : LowerOk M) (a b : Fin n) : (fullM M)[a][b] = entry M a b := by
  have key : ∀ (l done : List (Fin n)) (D : Dense ℝ n),
      (∀ a b : Fin n, D[a][b] = if max a b ∈ done then entry M a b else 0) →
      ∀ a b : Fin n, (l.foldl (fun D i => rowDense i M[i] D) D)[a][b] =
        if max a b ∈ l ++ done then entry M a b else 0 := by
    intro l
    induction l with
    | nil => intro done D h a b; simpa using h a b
    | cons i l ih =>
      intro done D h a b
      simp only [List.foldl_cons]
      rw [ih (i :: done) _ _ a b]
      · simp only [List.cons_append, List.mem_cons, List.mem_append]
        apply if_congr _ rfl rfl
        tauto
      · intro a b
        rw [rowDense_get M hM, h a b]
        simp only [List.mem_cons]
        rcases lt_trichotomy a b with hab | hab | hab
        · -- a < b : max = b
          have hmax : max a b = b := max_eq_right (le_of_lt hab)
          rw [hmax, entry_symm M a b, entry_of_lt M hM b a hab]
          by_cases hbi : b = i
          · subst hbi
            have : a ≠ b := ne_of_lt hab
            by_cases hac : a ∈ M[b].cols
            · simp [-Fin.getElem_fin, this, hac]
            · have := colSum_eq_zero_of_not_mem M[b].off a hac
              simp_all [-Fin.getElem_fin]
          · have : ¬ (a = i ∧ b = i) := fun h => hbi h.2
            by_cases hai : a = i
            · subst hai
              have : b ∉ M[a].cols := fun hm => absurd (lt_trans hab ((hM a).2.2 b hm)) (lt_irrefl _)
              simp_all [-Fin.getElem_fin]
            · simp_all [-Fin.getElem_fin]
        · subst hab
          rw [max_self, entry_self M hM]
          by_cases hai : a = i
          · subst hai; simp
          · simp [hai]
        · have hmax : max a b = a := max_eq_left (le_of_lt hab)
          rw [hmax, entry_of_lt M hM a b hab]
          by_cases hai : a = i
          · subst hai
            have : b ≠ a := ne_of_lt hab
            by_cases hbc : b ∈ M[a].cols
            · simp [-Fin.getElem_fin, this, hbc]
            · have := colSum_eq_zero_of_not_mem M[a].off b hbc
              have h4 : a ∉ M[b].cols := fun hm => absurd (lt_trans hab ((hM b).2.2 a hm)) (lt_irrefl _)
              simp_all [-Fin.getElem_fin]
          · have : ¬ (a = i ∧ b = i) := fun h => hai h.1
            by_cases hbi : b = i
            · subst hbi
              have : a ∉ M[b].cols := fun hm => absurd (lt_trans hab ((hM b).2.2 a hm)) (lt_irrefl _)
              simp_all [-Fin.getElem_fin]
            · simp_all [-Fin.getElem_fin]
  unfold fullM
  rw [key (List.finRange n) [] _ (by intro a b; simp [zero]) a b]
  simp

/-! ### `mju_dotSparse`, `mj_solveLD` -/

theorem dot4_real (l : List (ℝ × ℝ)) (r0 r1 r2 r3 : ℝ) :
    dot4 l r0 r1 r2 r3 = r0 + r1 + r2 + r3 + (l.map (fun p => p.1 * p.2)).sum := by
  fun_induction dot4 l r0 r1 r2 r3 with
  | case1 a0 b0 a1 b1 a2 b2 a3 b3 rest r0 r1 r2 r3 ih =>
    rw [ih]; simp only [List.map_cons, List.sum_cons]; ring
  | case2 tail r0 r1 r2 r3 hne =>
    have : ∀ (t : List (ℝ × ℝ)) (r : ℝ), t.foldl (fun r p => r + p.1 * p.2) r = r + (t.map (fun p => p.1 * p.2)).sum := by
      intro t
      induction t with
      | nil => intro r; simp
      | cons p t ih => intro r; simp only [List.foldl_cons, List.map_cons, List.sum_cons, ih]; ring
    rw [this]; ring

theorem dotSparse_real (off : List (Fin n × ℝ)) (x : Vector ℝ n) :
    dotSparse off x = (off.map (fun e => e.2 * x[e.1])).sum := by
  unfold dotSparse
  rw [dot4_real]
  simp [List.map_map, Function.comp_def]

theorem solveRowL_get (L : SymCsr ℝ n) (x : Vector ℝ n) (i a : Fin n) :
    (solveRowL L x i)[a] = if i = a then x[i] - (L[i].off.map (fun e => e.2 * x[e.1])).sum else x[a] := by
  unfold solveRowL
  split
  · rename_i h
    have : L[i].off = [] := by simpa using h
    by_cases h2 : i = a
    · subst h2; simp only [if_true, this, List.map_nil, List.sum_nil, sub_zero]
    · simp only [if_neg h2]
  · rw [get_set, dotSparse_real]

/-- third pass: `L y = x`, processed rows satisfy their equation, the others are untouched -/
theorem solveL_aux (L : SymCsr ℝ n) (hL : LowerOk L) :
    ∀ (l : List (Fin n)), l.Pairwise (· < ·) → ∀ x : Vector ℝ n,
      (∀ i ∈ l, (l.foldl (solveRowL L) x)[i] + (L[i].off.map (fun e => e.2 * (l.foldl (solveRowL L) x)[e.1])).sum = x[i]) ∧
      (∀ a, a ∉ l → (l.foldl (solveRowL L) x)[a] = x[a]) := by
  intro l
  induction l with
  | nil => intro _ x; simp
  | cons i l ih =>
    intro hs x
    rw [List.pairwise_cons] at hs
    obtain ⟨ih1, ih2⟩ := ih hs.2 (solveRowL L x i)
    simp only [List.foldl_cons]
    have hil : i ∉ l := fun h => absurd (hs.1 i h) (lt_irrefl _)
    constructor
    · intro j hj
      rcases List.mem_cons.1 hj with rfl | hj
      · rw [ih2 j hil, solveRowL_get, if_pos rfl]
        have : (L[j].off.map (fun e => e.2 * (l.foldl (solveRowL L) (solveRowL L x j))[e.1]))
             = (L[j].off.map (fun e => e.2 * x[e.1])) := by
          apply List.map_congr_left
          intro e he
          have hlt : e.1 < j := (hL j).2.2 e.1 (List.mem_map_of_mem he)
          have hnl : e.1 ∉ l := fun h => absurd (lt_trans (hs.1 e.1 h) hlt) (lt_irrefl _)
          rw [ih2 e.1 hnl, solveRowL_get, if_neg (ne_of_gt hlt)]
        rw [this]; ring
      · rw [ih1 j hj, solveRowL_get, if_neg (ne_of_lt (hs.1 j hj))]
    · intro a ha
      simp only [List.mem_cons, not_or] at ha
      rw [ih2 a ha.2, solveRowL_get, if_neg (Ne.symm ha.1)]

theorem solveL_spec (L : SymCsr ℝ n) (hL : LowerOk L) (x : Vector ℝ n) (i : Fin n) :
    ((List.finRange n).foldl (solveRowL L) x)[i]
      + (L[i].off.map (fun e => e.2 * ((List.finRange n).foldl (solveRowL L) x)[e.1])).sum = x[i] :=
  (solveL_aux L hL (List.finRange n) (List.pairwise_lt_finRange n) x).1 i (List.mem_finRange i)


theorem solveRowT_get (L : SymCsr ℝ n) (i : Fin n) (x : Vector ℝ n) (a : Fin n) :
    (solveRowT L i x)[a] = x[a] - colSum L[i].off a * x[i] := by
  have key : ∀ (off : List (Fin n × ℝ)) (xi : ℝ) (y : Vector ℝ n),
      (off.foldl (fun x e => x.set e.1 (x[e.1] - e.2 * xi)) y)[a] = y[a] - colSum off a * xi := by
    intro off xi
    induction off with
    | nil => intro y; simp [colSum]
    | cons e off ih =>
      intro y
      simp only [List.foldl_cons]
      rw [ih, get_set, colSum_cons]
      by_cases h : e.1 = a
      · subst h; simp; ring
      · simp [h]
  unfold solveRowT
  split
  · rename_i h
    have : L[i].off = [] := by simpa using h
    simp only [this, colSum, List.map_nil, List.sum_nil, zero_mul, sub_zero]
  · simp only []
    split
    · rename_i h
      have : x[i] = 0 := by simpa [zero] using h
      have h0 : colSum L[i].off a * x[i] = 0 := by rw [this, mul_zero]
      rw [h0, sub_zero]
    · exact key _ _ _

/-- first pass: `Lᵀ z = x` -/
theorem solveT_aux (L : SymCsr ℝ n) (hL : LowerOk L) :
    ∀ (l : List (Fin n)), l.Pairwise (· < ·) → ∀ (x : Vector ℝ n) (a : Fin n),
      (l.foldr (solveRowT L) x)[a] + (l.map (fun i => colSum L[i].off a * (l.foldr (solveRowT L) x)[i])).sum = x[a] := by
  intro l
  induction l with
  | nil => intro _ x a; simp
  | cons i l ih =>
    intro hs x a
    rw [List.pairwise_cons] at hs
    simp only [List.foldr_cons, List.map_cons, List.sum_cons]
    have hz : ∀ j, i ≤ j → colSum L[i].off j = 0 := fun j hj =>
      colSum_eq_zero_of_not_mem _ _ (fun hm => absurd (lt_of_le_of_lt hj ((hL i).2.2 j hm)) (lt_irrefl _))
    have h1 : (solveRowT L i (l.foldr (solveRowT L) x))[i] = (l.foldr (solveRowT L) x)[i] := by
      rw [solveRowT_get, hz i (le_refl _)]; ring
    have h2 : (l.map (fun j => colSum L[j].off a * (solveRowT L i (l.foldr (solveRowT L) x))[j]))
            = (l.map (fun j => colSum L[j].off a * (l.foldr (solveRowT L) x)[j])) := by
      apply List.map_congr_left
      intro j hj
      rw [solveRowT_get, hz j (le_of_lt (hs.1 j hj))]; ring
    rw [h1, h2, solveRowT_get]
    have := ih hs.2 x a
    linarith

theorem scale_get (dinv : Vector ℝ n) :
    ∀ (l : List (Fin n)), l.Nodup → ∀ (x : Vector ℝ n) (a : Fin n),
      (l.foldl (fun x i => x.set i (x[i] * dinv[i])) x)[a] = if a ∈ l then x[a] * dinv[a] else x[a] := by
  intro l
  induction l with
  | nil => intro _ x a; simp
  | cons i l ih =>
    intro hn x a
    rw [List.nodup_cons] at hn
    simp only [List.foldl_cons, List.mem_cons]
    rw [ih hn.2, get_set]
    by_cases h : i = a
    · subst h; simp [hn.1]
    · simp [h, Ne.symm h]

/-- unit lower-triangular factor stored in the off-diagonal slots of `qLD` -/
def Lmat (L : SymCsr ℝ n) (i j : Fin n) : ℝ := (if i = j then 1 else 0) + colSum L[i].off j

/-- `(LᵀDL)(a, b)` with `D = 1/dinv` -/
noncomputable def ldlEntry (L : SymCsr ℝ n) (dinv : Vector ℝ n) (a b : Fin n) : ℝ :=
  ∑ r : Fin n, Lmat L r a * (1 / dinv[r]) * Lmat L r b

theorem Lmat_mulVec (L : SymCsr ℝ n) (y : Vector ℝ n) (r : Fin n) :
    ∑ b : Fin n, Lmat L r b * y[b] = y[r] + (L[r].off.map (fun e => e.2 * y[e.1])).sum := by
  simp only [Lmat, add_mul, Finset.sum_add_distrib, sum_colSum_mul]
  simp [Finset.sum_ite_eq]

/-- **certificate**: whatever is stored in `qLD` / `qLDiagInv` (lower pattern, non-zero `dinv`), `mj_solveLD` returns
the solution of `(LᵀDL) y = x` -/
theorem solveLD_spec (L : SymCsr ℝ n) (hL : LowerOk L) (dinv : Vector ℝ n) (hd : ∀ i : Fin n, dinv[i] ≠ 0)
    (x : Vector ℝ n) (a : Fin n) :
    ∑ b : Fin n, ldlEntry L dinv a b * (solveLD L dinv x)[b] = x[a] := by
  set z := (List.finRange n).foldr (solveRowT L) x with hz
  set w := (List.finRange n).foldl (fun x i => x.set i (x[i] * dinv[i])) z with hw
  have hy : solveLD L dinv x = (List.finRange n).foldl (solveRowL L) w := rfl
  rw [hy]
  set y := (List.finRange n).foldl (solveRowL L) w with hy'
  have h3 : ∀ r : Fin n, ∑ b : Fin n, Lmat L r b * y[b] = w[r] := by
    intro r; rw [Lmat_mulVec]; exact solveL_spec L hL w r
  have h2 : ∀ r : Fin n, w[r] = z[r] * dinv[r] := by
    intro r; rw [hw, scale_get dinv _ (List.nodup_finRange n)]; simp
  have h1 := solveT_aux L hL (List.finRange n) (List.pairwise_lt_finRange n) x a
  rw [← hz, ← Fin.sum_univ_def] at h1
  simp only [ldlEntry, Finset.sum_mul]
  rw [Finset.sum_comm]
  have : ∀ r : Fin n, ∑ b : Fin n, Lmat L r a * (1 / dinv[r]) * Lmat L r b * y[b] = Lmat L r a * z[r] := by
    intro r
    have : ∑ b : Fin n, Lmat L r a * (1 / dinv[r]) * Lmat L r b * y[b]
         = Lmat L r a * (1 / dinv[r]) * ∑ b : Fin n, Lmat L r b * y[b] := by
      rw [Finset.mul_sum]; apply Finset.sum_congr rfl; intro b _; ring
    rw [this, h3, h2]
    have hc : (1 / dinv[r]) * (z[r] * dinv[r]) = z[r] := by
      rw [one_div, mul_comm (z[r]), ← mul_assoc, inv_mul_cancel₀ (hd r), one_mul]
    rw [mul_assoc, hc]
  rw [Finset.sum_congr rfl (fun r _ => this r)]
  have hsplit : ∑ r : Fin n, Lmat L r a * z[r] = z[a] + ∑ r : Fin n, colSum L[r].off a * z[r] := by
    simp only [Lmat, add_mul, Finset.sum_add_distrib]
    congr 1
    simp [Finset.sum_ite_eq]
  rw [hsplit]; exact h1

end MjProof.InertiaSparse
