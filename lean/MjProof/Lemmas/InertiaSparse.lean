import MjProof.Model.InertiaSparse
import MjProof.Lemmas.RealNum
import Mathlib.Algebra.BigOperators.Fin
import Mathlib.Tactic.Ring
import Mathlib.Tactic.Linarith
import Mathlib.Tactic.FieldSimp
/-
C06 helper lemmas: what the executable sparse-inertia model (`MjProof/Model/InertiaSparse.lean`) computes over ℝ.

  * `entry M a b`  — the dense symmetric matrix `D + Lo + Loᵀ` a lower-triangle CSR matrix stands for
  * `mulM_get`     — `mju_mulSymVecSparse` returns `Σ_j entry a j * v j`           (pattern: `LowerOk`)
  * `fullM_get`    — `mju_sym2dense` fills exactly `entry`                          (pattern: `LowerOk`)
  * `fullM_symm`   — `mju_sym2dense` output is symmetric for EVERY input (no pattern hypothesis)
  * `dot4_real`    — the 4-accumulator `mju_dotSparse` is the plain sum over ℝ
  * `solveT_aux`, `solveL_spec`, `solveLD_spec` — the three passes of `mj_solveLD` are the triangular solves
    `Lᵀ z = x`, `w = D⁻¹ z`, `L y = w`
  * `factorRow_spec`, `factor_aux`, `factorI_spec` — `mj_factorI` on a tree pattern: after the rows `≥ k` have been
    processed, `M = Σ_{r ≥ k} d_r l_r l_rᵀ + (remaining leading block)`; at the end `LᵀDL = M`, `qLDiagInv = 1/D`
-/
set_option linter.unusedSimpArgs false
set_option linter.unusedVariables false
namespace MjProof.InertiaSparse
open MjProof
variable {n : Nat}

@[simp] theorem zero_real : (zero : ℝ) = 0 := by simp [zero]
@[simp] theorem one_real : (one : ℝ) = 1 := by simp [one]

theorem get_set {β : Type} (v : Vector β n) (i j : Fin n) (x : β) :
    (v.set i x)[j] = if i = j then x else v[j] := by
  simp only [Fin.getElem_fin, Vector.getElem_set]
  by_cases h : i = j
  · simp [h]
  · have : (i : Nat) ≠ j := fun h' => h (Fin.ext h')
    simp [h, this]

/-- sum of the values stored under column `j` in a slot list -/
def colSum (off : List (Fin n × ℝ)) (j : Fin n) : ℝ := (off.map (fun e => if e.1 = j then e.2 else 0)).sum

/-- the additive part of `rowMul` -/
theorem rowMul_inner (i : Fin n) (v : Vector ℝ n) (off : List (Fin n × ℝ)) (res : Vector ℝ n) (a : Fin n) :
    (off.foldr (fun e res =>
        let res := res.set i (res[i] + e.2 * v[e.1])
        res.set e.1 (res[e.1] + e.2 * v[i])) res)[a]
      = res[a] + (if i = a then (off.map (fun e => e.2 * v[e.1])).sum else 0) + colSum off a * v[i] := by
  induction off with
  | nil => simp [colSum]
  | cons e off ih =>
    simp only [List.foldr_cons, get_set, List.map_cons, List.sum_cons, colSum] at ih ⊢
    by_cases h1 : e.1 = a <;> by_cases h2 : i = a <;> by_cases h3 : i = e.1 <;> simp_all <;> ring

/-- decoded pattern hypotheses -/
def LowerOk (M : SymCsr ℝ n) : Prop :=
  ∀ i : Fin n, M[i].dcol = i ∧ (M[i].cols).Pairwise (· < ·) ∧ ∀ c ∈ M[i].cols, c < i

theorem increasing_iff (l : List (Fin n)) : increasing l = true ↔ l.Pairwise (· < ·) := by
  induction l with
  | nil => simp [increasing]
  | cons a l ih =>
    cases l with
    | nil => simp [increasing]
    | cons b r =>
      simp only [increasing, Bool.and_eq_true, decide_eq_true_eq, ih, List.pairwise_cons]
      constructor
      · rintro ⟨hab, hb, hr⟩
        refine ⟨?_, hb, hr⟩
        intro x hx
        rcases List.mem_cons.1 hx with rfl | hx
        · exact hab
        · exact lt_trans hab (hb x hx)
      · rintro ⟨h1, hb, hr⟩
        exact ⟨h1 b (List.mem_cons_self ..), hb, hr⟩

theorem lowerOk_iff (M : SymCsr ℝ n) : lowerOk M = true ↔ LowerOk M := by
  simp only [lowerOk, List.all_eq_true, List.mem_finRange, forall_const, Bool.and_eq_true, decide_eq_true_eq,
    increasing_iff, LowerOk, and_assoc]

/-- contribution of row `i` to entry `a` of the product -/
def contrib (M : SymCsr ℝ n) (v : Vector ℝ n) (i a : Fin n) : ℝ :=
  (if i = a then M[i].d * v[i] + (M[i].off.map (fun e => e.2 * v[e.1])).sum else 0) + colSum M[i].off a * v[i]

theorem rowMul_get (M : SymCsr ℝ n) (v res : Vector ℝ n) (i a : Fin n) (h0 : res[i] = 0) :
    (rowMul i M[i] v res)[a] = res[a] + contrib M v i a := by
  unfold rowMul contrib
  simp only []
  rw [rowMul_inner, get_set]
  by_cases h : i = a
  · subst h; simp [h0]
  · simp [h]

theorem colSum_eq_zero_of_not_mem (off : List (Fin n × ℝ)) (a : Fin n) (h : a ∉ off.map (·.1)) : colSum off a = 0 := by
  induction off with
  | nil => simp [colSum]
  | cons e off ih =>
    simp only [List.map_cons, List.mem_cons, not_or] at h
    simp only [colSum, List.map_cons, List.sum_cons] at ih ⊢
    rw [ih h.2]
    simp [Ne.symm h.1]

theorem contrib_eq_zero (M : SymCsr ℝ n) (hM : LowerOk M) (v : Vector ℝ n) (i a : Fin n) (h : i < a) :
    contrib M v i a = 0 := by
  unfold contrib
  have h1 : i ≠ a := ne_of_lt h
  have h2 : a ∉ M[i].off.map (·.1) := fun hm => by
    have := (hM i).2.2 a hm
    exact absurd (lt_trans h this) (lt_irrefl _)
  rw [colSum_eq_zero_of_not_mem _ _ h2, if_neg h1]; ring

theorem mulM_aux (M : SymCsr ℝ n) (hM : LowerOk M) (v : Vector ℝ n) :
    ∀ (l : List (Fin n)), l.Pairwise (· < ·) → ∀ res : Vector ℝ n, (∀ i ∈ l, res[i] = 0) →
      ∀ a, (l.foldl (fun res i => rowMul i M[i] v res) res)[a] = res[a] + (l.map (fun i => contrib M v i a)).sum := by
  intro l
  induction l with
  | nil => intro _ res _ a; simp
  | cons i l ih =>
    intro hs res h0 a
    rw [List.pairwise_cons] at hs
    simp only [List.foldl_cons, List.map_cons, List.sum_cons]
    rw [ih hs.2]
    · rw [rowMul_get M v res i a (h0 i (List.mem_cons_self ..))]; ring
    · intro j hj
      rw [rowMul_get M v res i j (h0 i (List.mem_cons_self ..)), h0 j (List.mem_cons_of_mem _ hj),
        contrib_eq_zero M hM v i j (hs.1 j hj)]
      simp

/-- the dense symmetric matrix a lower-triangle CSR matrix stands for: `D + Lo + Loᵀ` -/
def entry (M : SymCsr ℝ n) (a b : Fin n) : ℝ :=
  (if a = b then M[a].d else 0) + colSum M[a].off b + colSum M[b].off a

theorem entry_symm (M : SymCsr ℝ n) (a b : Fin n) : entry M a b = entry M b a := by
  unfold entry
  by_cases h : a = b
  · subst h; ring
  · simp [h, Ne.symm h]; ring

theorem sum_colSum_mul (off : List (Fin n × ℝ)) (v : Vector ℝ n) :
    ∑ j : Fin n, colSum off j * v[j] = (off.map (fun e => e.2 * v[e.1])).sum := by
  induction off with
  | nil => simp [colSum]
  | cons e off ih =>
    simp only [colSum, List.map_cons, List.sum_cons, add_mul, Finset.sum_add_distrib] at ih ⊢
    rw [ih]
    congr 1
    simp [Finset.sum_ite_eq]

theorem mulM_get (M : SymCsr ℝ n) (hM : LowerOk M) (v : Vector ℝ n) (a : Fin n) :
    (mulM M v)[a] = ∑ j : Fin n, entry M a j * v[j] := by
  unfold mulM
  rw [mulM_aux M hM v (List.finRange n) (List.pairwise_lt_finRange n) _ (by intro i _; simp [get_set, zero]) a]
  have hz : (Vector.replicate n (zero : ℝ))[a] = 0 := by simp [zero]
  rw [hz, zero_add, ← Fin.sum_univ_def]
  simp only [entry, contrib, add_mul, Finset.sum_add_distrib]
  rw [sum_colSum_mul]
  simp [Finset.sum_ite_eq]

/-! ### sym2dense -/

theorem setCell_get (D : Dense ℝ n) (a b a' b' : Fin n) (x : ℝ) :
    (setCell D a b x)[a'][b'] = if a = a' ∧ b = b' then x else D[a'][b'] := by
  unfold setCell
  rw [get_set]
  by_cases h : a = a'
  · subst h; simp only [if_true, true_and]; rw [get_set]
  · simp [h]

def Symm (D : Dense ℝ n) : Prop := ∀ a b : Fin n, D[a][b] = D[b][a]

theorem putSlot_symm (i : Fin n) (D : Dense ℝ n) (e : Fin n × ℝ) (h : Symm D) : Symm (putSlot i D e) := by
  unfold putSlot
  split
  · intro a b
    simp only [setCell_get]
    have := h a b
    by_cases h1 : e.1 = a <;> by_cases h2 : i = b <;> by_cases h3 : i = a <;> by_cases h4 : e.1 = b <;> simp_all
  · exact h

theorem fullM_symm (M : SymCsr ℝ n) : Symm (fullM M) := by
  unfold fullM
  have key : ∀ (l : List (Fin n)) (D : Dense ℝ n), Symm D →
      Symm (l.foldl (fun D i => rowDense i M[i] D) D) := by
    intro l
    induction l with
    | nil => intro D h; exact h
    | cons i l ih =>
      intro D h
      simp only [List.foldl_cons]
      apply ih
      unfold rowDense
      apply putSlot_symm
      have : ∀ (off : List (Fin n × ℝ)) (D : Dense ℝ n), Symm D → Symm (off.foldl (putSlot i) D) := by
        intro off
        induction off with
        | nil => intro D h; exact h
        | cons e off ih2 => intro D h; exact ih2 _ (putSlot_symm i D e h)
      exact this _ _ h
  apply key
  intro a b
  simp

theorem colSum_cons (e : Fin n × ℝ) (off : List (Fin n × ℝ)) (j : Fin n) :
    colSum (e :: off) j = (if e.1 = j then e.2 else 0) + colSum off j := by
  simp [colSum]

theorem putSlots_get (i : Fin n) :
    ∀ (off : List (Fin n × ℝ)) (D : Dense ℝ n), (off.map (·.1)).Nodup → (∀ c ∈ off.map (·.1), c < i) →
    ∀ a b : Fin n, (off.foldl (putSlot i) D)[a][b] =
      if a = i ∧ b ∈ off.map (·.1) then colSum off b
      else if b = i ∧ a ∈ off.map (·.1) then colSum off a else D[a][b] := by
  intro off
  induction off with
  | nil => intro D _ _ a b; simp
  | cons e off ih =>
    intro D hnd hlt a b
    simp only [List.map_cons, List.nodup_cons] at hnd
    have hlt' : ∀ c ∈ off.map (·.1), c < i := fun c hc => hlt c (by simp only [List.map_cons]; exact List.mem_cons_of_mem _ hc)
    have hei : e.1 < i := hlt e.1 (by simp)
    simp only [List.foldl_cons, List.map_cons, List.mem_cons]
    rw [ih _ hnd.2 hlt' a b, colSum_cons, colSum_cons]
    have hle : e.1 ≤ i := le_of_lt hei
    have hne : e.1 ≠ i := ne_of_lt hei
    simp only [putSlot, hle, if_true, setCell_get]
    have z1 := colSum_eq_zero_of_not_mem off e.1 hnd.1
    have hi1 : i ∉ off.map (·.1) := fun h => absurd (hlt' i h) (lt_irrefl _)
    grind

theorem rowDense_get (M : SymCsr ℝ n) (hM : LowerOk M) (i : Fin n) (D : Dense ℝ n) (a b : Fin n) :
    (rowDense i M[i] D)[a][b] =
      if a = i ∧ b = i then M[i].d
      else if a = i ∧ b ∈ M[i].cols then colSum M[i].off b
      else if b = i ∧ a ∈ M[i].cols then colSum M[i].off a else D[a][b] := by
  obtain ⟨h1, h2, h3⟩ := hM i
  unfold rowDense
  have hnd : (M[i].off.map (·.1)).Nodup := by
    have : M[i].cols.Pairwise (· ≠ ·) := h2.imp (fun h => ne_of_lt h)
    exact this
  have key := putSlots_get i M[i].off D hnd h3
  simp only [putSlot, h1, le_refl, if_true, setCell_get, key, Row.cols]
  have hi1 : i ∉ M[i].off.map (·.1) := fun h => absurd (h3 i h) (lt_irrefl _)
  grind

theorem entry_of_lt (M : SymCsr ℝ n) (hM : LowerOk M) (a b : Fin n) (h : b < a) :
    entry M a b = colSum M[a].off b := by
  unfold entry
  have h2 : a ∉ M[b].off.map (·.1) := fun hm => absurd (lt_trans h ((hM b).2.2 a hm)) (lt_irrefl _)
  rw [colSum_eq_zero_of_not_mem _ _ h2, if_neg (ne_of_gt h)]; ring

theorem entry_self (M : SymCsr ℝ n) (hM : LowerOk M) (a : Fin n) : entry M a a = M[a].d := by
  unfold entry
  have h2 : a ∉ M[a].off.map (·.1) := fun hm => absurd ((hM a).2.2 a hm) (lt_irrefl _)
  rw [colSum_eq_zero_of_not_mem _ _ h2]; simp

theorem fullM_get (M : SymCsr ℝ n) (hM : LowerOk M) (a b : Fin n) : (fullM M)[a][b] = entry M a b := by
  have key : ∀ (l done : List (Fin n)) (D : Dense ℝ n),
      (∀ a b : Fin n, D[a][b] = if max a b ∈ done then entry M a b else 0) →
      ∀ a b : Fin n, (l.foldl (fun D i => rowDense i M[i] D) D)[a][b] =
        if max a b ∈ l ++ done then entry M a b else 0 := by
    intro l
    induction l with
    | nil => intro done D h a b; simpa using h a b
    | cons i l ih =>
      intro done D h a b
      simp only [List.foldl_cons]
      rw [ih (i :: done) _ _ a b]
      · simp only [List.cons_append, List.mem_cons, List.mem_append]
        apply if_congr _ rfl rfl
        tauto
      · intro a b
        rw [rowDense_get M hM, h a b]
        simp only [List.mem_cons]
        rcases lt_trichotomy a b with hab | hab | hab
        · -- a < b : max = b
          have hmax : max a b = b := max_eq_right (le_of_lt hab)
          rw [hmax, entry_symm M a b, entry_of_lt M hM b a hab]
          by_cases hbi : b = i
          · subst hbi
            have : a ≠ b := ne_of_lt hab
            by_cases hac : a ∈ M[b].cols
            · simp [-Fin.getElem_fin, this, hac]
            · have := colSum_eq_zero_of_not_mem M[b].off a hac
              simp_all [-Fin.getElem_fin]
          · have : ¬ (a = i ∧ b = i) := fun h => hbi h.2
            by_cases hai : a = i
            · subst hai
              have : b ∉ M[a].cols := fun hm => absurd (lt_trans hab ((hM a).2.2 b hm)) (lt_irrefl _)
              simp_all [-Fin.getElem_fin]
            · simp_all [-Fin.getElem_fin]
        · subst hab
          rw [max_self, entry_self M hM]
          by_cases hai : a = i
          · subst hai; simp
          · simp [hai]
        · have hmax : max a b = a := max_eq_left (le_of_lt hab)
          rw [hmax, entry_of_lt M hM a b hab]
          by_cases hai : a = i
          · subst hai
            have : b ≠ a := ne_of_lt hab
            by_cases hbc : b ∈ M[a].cols
            · simp [-Fin.getElem_fin, this, hbc]
            · have := colSum_eq_zero_of_not_mem M[a].off b hbc
              have h4 : a ∉ M[b].cols := fun hm => absurd (lt_trans hab ((hM b).2.2 a hm)) (lt_irrefl _)
              simp_all [-Fin.getElem_fin]
          · have : ¬ (a = i ∧ b = i) := fun h => hai h.1
            by_cases hbi : b = i
            · subst hbi
              have : a ∉ M[b].cols := fun hm => absurd (lt_trans hab ((hM b).2.2 a hm)) (lt_irrefl _)
              simp_all [-Fin.getElem_fin]
            · simp_all [-Fin.getElem_fin]
  unfold fullM
  rw [key (List.finRange n) [] _ (by intro a b; simp [zero]) a b]
  simp

/-! ### `mju_dotSparse`, `mj_solveLD` -/

theorem dot4_real (l : List (ℝ × ℝ)) (r0 r1 r2 r3 : ℝ) :
    dot4 l r0 r1 r2 r3 = r0 + r1 + r2 + r3 + (l.map (fun p => p.1 * p.2)).sum := by
  fun_induction dot4 l r0 r1 r2 r3 with
  | case1 a0 b0 a1 b1 a2 b2 a3 b3 rest r0 r1 r2 r3 ih =>
    rw [ih]; simp only [List.map_cons, List.sum_cons]; ring
  | case2 tail r0 r1 r2 r3 hne =>
    have : ∀ (t : List (ℝ × ℝ)) (r : ℝ), t.foldl (fun r p => r + p.1 * p.2) r = r + (t.map (fun p => p.1 * p.2)).sum := by
      intro t
      induction t with
      | nil => intro r; simp
      | cons p t ih => intro r; simp only [List.foldl_cons, List.map_cons, List.sum_cons, ih]; ring
    rw [this]; ring

theorem dotSparse_real (off : List (Fin n × ℝ)) (x : Vector ℝ n) :
    dotSparse off x = (off.map (fun e => e.2 * x[e.1])).sum := by
  unfold dotSparse
  rw [dot4_real]
  simp [List.map_map, Function.comp_def]

theorem solveRowL_get (L : SymCsr ℝ n) (x : Vector ℝ n) (i a : Fin n) :
    (solveRowL L x i)[a] = if i = a then x[i] - (L[i].off.map (fun e => e.2 * x[e.1])).sum else x[a] := by
  unfold solveRowL
  split
  · rename_i h
    have : L[i].off = [] := by simpa using h
    by_cases h2 : i = a
    · subst h2; simp only [if_true, this, List.map_nil, List.sum_nil, sub_zero]
    · simp only [if_neg h2]
  · rw [get_set, dotSparse_real]

/-- third pass: `L y = x`, processed rows satisfy their equation, the others are untouched -/
theorem solveL_aux (L : SymCsr ℝ n) (hL : LowerOk L) :
    ∀ (l : List (Fin n)), l.Pairwise (· < ·) → ∀ x : Vector ℝ n,
      (∀ i ∈ l, (l.foldl (solveRowL L) x)[i] + (L[i].off.map (fun e => e.2 * (l.foldl (solveRowL L) x)[e.1])).sum = x[i]) ∧
      (∀ a, a ∉ l → (l.foldl (solveRowL L) x)[a] = x[a]) := by
  intro l
  induction l with
  | nil => intro _ x; simp
  | cons i l ih =>
    intro hs x
    rw [List.pairwise_cons] at hs
    obtain ⟨ih1, ih2⟩ := ih hs.2 (solveRowL L x i)
    simp only [List.foldl_cons]
    have hil : i ∉ l := fun h => absurd (hs.1 i h) (lt_irrefl _)
    constructor
    · intro j hj
      rcases List.mem_cons.1 hj with rfl | hj
      · rw [ih2 j hil, solveRowL_get, if_pos rfl]
        have : (L[j].off.map (fun e => e.2 * (l.foldl (solveRowL L) (solveRowL L x j))[e.1]))
             = (L[j].off.map (fun e => e.2 * x[e.1])) := by
          apply List.map_congr_left
          intro e he
          have hlt : e.1 < j := (hL j).2.2 e.1 (List.mem_map_of_mem he)
          have hnl : e.1 ∉ l := fun h => absurd (lt_trans (hs.1 e.1 h) hlt) (lt_irrefl _)
          rw [ih2 e.1 hnl, solveRowL_get, if_neg (ne_of_gt hlt)]
        rw [this]; ring
      · rw [ih1 j hj, solveRowL_get, if_neg (ne_of_lt (hs.1 j hj))]
    · intro a ha
      simp only [List.mem_cons, not_or] at ha
      rw [ih2 a ha.2, solveRowL_get, if_neg (Ne.symm ha.1)]

theorem solveL_spec (L : SymCsr ℝ n) (hL : LowerOk L) (x : Vector ℝ n) (i : Fin n) :
    ((List.finRange n).foldl (solveRowL L) x)[i]
      + (L[i].off.map (fun e => e.2 * ((List.finRange n).foldl (solveRowL L) x)[e.1])).sum = x[i] :=
  (solveL_aux L hL (List.finRange n) (List.pairwise_lt_finRange n) x).1 i (List.mem_finRange i)


theorem solveRowT_get (L : SymCsr ℝ n) (i : Fin n) (x : Vector ℝ n) (a : Fin n) :
    (solveRowT L i x)[a] = x[a] - colSum L[i].off a * x[i] := by
  have key : ∀ (off : List (Fin n × ℝ)) (xi : ℝ) (y : Vector ℝ n),
      (off.foldl (fun x e => x.set e.1 (x[e.1] - e.2 * xi)) y)[a] = y[a] - colSum off a * xi := by
    intro off xi
    induction off with
    | nil => intro y; simp [colSum]
    | cons e off ih =>
      intro y
      simp only [List.foldl_cons]
      rw [ih, get_set, colSum_cons]
      by_cases h : e.1 = a
      · subst h; simp; ring
      · simp [h]
  unfold solveRowT
  split
  · rename_i h
    have : L[i].off = [] := by simpa using h
    simp only [this, colSum, List.map_nil, List.sum_nil, zero_mul, sub_zero]
  · simp only []
    split
    · rename_i h
      have : x[i] = 0 := by simpa [zero] using h
      have h0 : colSum L[i].off a * x[i] = 0 := by rw [this, mul_zero]
      rw [h0, sub_zero]
    · exact key _ _ _

/-- first pass: `Lᵀ z = x` -/
theorem solveT_aux (L : SymCsr ℝ n) (hL : LowerOk L) :
    ∀ (l : List (Fin n)), l.Pairwise (· < ·) → ∀ (x : Vector ℝ n) (a : Fin n),
      (l.foldr (solveRowT L) x)[a] + (l.map (fun i => colSum L[i].off a * (l.foldr (solveRowT L) x)[i])).sum = x[a] := by
  intro l
  induction l with
  | nil => intro _ x a; simp
  | cons i l ih =>
    intro hs x a
    rw [List.pairwise_cons] at hs
    simp only [List.foldr_cons, List.map_cons, List.sum_cons]
    have hz : ∀ j, i ≤ j → colSum L[i].off j = 0 := fun j hj =>
      colSum_eq_zero_of_not_mem _ _ (fun hm => absurd (lt_of_le_of_lt hj ((hL i).2.2 j hm)) (lt_irrefl _))
    have h1 : (solveRowT L i (l.foldr (solveRowT L) x))[i] = (l.foldr (solveRowT L) x)[i] := by
      rw [solveRowT_get, hz i (le_refl _)]; ring
    have h2 : (l.map (fun j => colSum L[j].off a * (solveRowT L i (l.foldr (solveRowT L) x))[j]))
            = (l.map (fun j => colSum L[j].off a * (l.foldr (solveRowT L) x)[j])) := by
      apply List.map_congr_left
      intro j hj
      rw [solveRowT_get, hz j (le_of_lt (hs.1 j hj))]; ring
    rw [h1, h2, solveRowT_get]
    have := ih hs.2 x a
    linarith

theorem scale_get (dinv : Vector ℝ n) :
    ∀ (l : List (Fin n)), l.Nodup → ∀ (x : Vector ℝ n) (a : Fin n),
      (l.foldl (fun x i => x.set i (x[i] * dinv[i])) x)[a] = if a ∈ l then x[a] * dinv[a] else x[a] := by
  intro l
  induction l with
  | nil => intro _ x a; simp
  | cons i l ih =>
    intro hn x a
    rw [List.nodup_cons] at hn
    simp only [List.foldl_cons, List.mem_cons]
    rw [ih hn.2, get_set]
    by_cases h : i = a
    · subst h; simp [hn.1]
    · simp [h, Ne.symm h]

/-- unit lower-triangular factor stored in the off-diagonal slots of `qLD` -/
def Lmat (L : SymCsr ℝ n) (i j : Fin n) : ℝ := (if i = j then 1 else 0) + colSum L[i].off j

/-- `(LᵀDL)(a, b)` with `D = 1/dinv` -/
noncomputable def ldlEntry (L : SymCsr ℝ n) (dinv : Vector ℝ n) (a b : Fin n) : ℝ :=
  ∑ r : Fin n, Lmat L r a * (1 / dinv[r]) * Lmat L r b

theorem Lmat_mulVec (L : SymCsr ℝ n) (y : Vector ℝ n) (r : Fin n) :
    ∑ b : Fin n, Lmat L r b * y[b] = y[r] + (L[r].off.map (fun e => e.2 * y[e.1])).sum := by
  simp only [Lmat, add_mul, Finset.sum_add_distrib, sum_colSum_mul]
  simp [Finset.sum_ite_eq]

/-- **certificate**: whatever is stored in `qLD` / `qLDiagInv` (lower pattern, non-zero `dinv`), `mj_solveLD` returns
the solution of `(LᵀDL) y = x` -/
theorem solveLD_spec (L : SymCsr ℝ n) (hL : LowerOk L) (dinv : Vector ℝ n) (hd : ∀ i : Fin n, dinv[i] ≠ 0)
    (x : Vector ℝ n) (a : Fin n) :
    ∑ b : Fin n, ldlEntry L dinv a b * (solveLD L dinv x)[b] = x[a] := by
  set z := (List.finRange n).foldr (solveRowT L) x with hz
  set w := (List.finRange n).foldl (fun x i => x.set i (x[i] * dinv[i])) z with hw
  have hy : solveLD L dinv x = (List.finRange n).foldl (solveRowL L) w := rfl
  rw [hy]
  set y := (List.finRange n).foldl (solveRowL L) w with hy'
  have h3 : ∀ r : Fin n, ∑ b : Fin n, Lmat L r b * y[b] = w[r] := by
    intro r; rw [Lmat_mulVec]; exact solveL_spec L hL w r
  have h2 : ∀ r : Fin n, w[r] = z[r] * dinv[r] := by
    intro r; rw [hw, scale_get dinv _ (List.nodup_finRange n)]; simp
  have h1 := solveT_aux L hL (List.finRange n) (List.pairwise_lt_finRange n) x a
  rw [← hz, ← Fin.sum_univ_def] at h1
  simp only [ldlEntry, Finset.sum_mul]
  rw [Finset.sum_comm]
  have : ∀ r : Fin n, ∑ b : Fin n, Lmat L r a * (1 / dinv[r]) * Lmat L r b * y[b] = Lmat L r a * z[r] := by
    intro r
    have : ∑ b : Fin n, Lmat L r a * (1 / dinv[r]) * Lmat L r b * y[b]
         = Lmat L r a * (1 / dinv[r]) * ∑ b : Fin n, Lmat L r b * y[b] := by
      rw [Finset.mul_sum]; apply Finset.sum_congr rfl; intro b _; ring
    rw [this, h3, h2]
    have hc : (1 / dinv[r]) * (z[r] * dinv[r]) = z[r] := by
      rw [one_div, mul_comm (z[r]), ← mul_assoc, inv_mul_cancel₀ (hd r), one_mul]
    rw [mul_assoc, hc]
  rw [Finset.sum_congr rfl (fun r _ => this r)]
  have hsplit : ∑ r : Fin n, Lmat L r a * z[r] = z[a] + ∑ r : Fin n, colSum L[r].off a * z[r] := by
    simp only [Lmat, add_mul, Finset.sum_add_distrib]
    congr 1
    simp [Finset.sum_ite_eq]
  rw [hsplit]; exact h1

/-! ### `mj_factorI` -/

theorem addToScl_cols (off : List (Fin n × ℝ)) (src : List ℝ) (scl : ℝ) :
    (addToScl off src scl).map (·.1) = off.map (·.1) := by
  induction off generalizing src with
  | nil => simp [addToScl]
  | cons e off ih =>
    obtain ⟨c, a⟩ := e
    cases src with
    | nil => simp [addToScl]
    | cons b src => simp [addToScl, ih]

theorem addToScl_colSum (off : List (Fin n × ℝ)) (src : List ℝ) (scl : ℝ) (b : Fin n) :
    colSum (addToScl off src scl) b =
      colSum off b + scl * (List.zipWith (fun (e : Fin n × ℝ) s => if e.1 = b then s else 0) off src).sum := by
  induction off generalizing src with
  | nil => simp [addToScl, colSum]
  | cons e off ih =>
    obtain ⟨c, a⟩ := e
    cases src with
    | nil => simp [addToScl]
    | cons s src =>
      simp only [addToScl, colSum_cons, List.zipWith_cons_cons, List.sum_cons, ih]
      by_cases h : c = b
      · simp [h]; ring
      · simp [h]

/-- the positional sum against the values of a row whose leading columns are the columns of `off` -/
theorem zip_prefix_sum (off offk : List (Fin n × ℝ)) (tail : List ℝ) (b : Fin n)
    (hc : off.map (·.1) = (offk.take off.length).map (·.1)) (hlen : off.length ≤ offk.length) :
    (List.zipWith (fun (e : Fin n × ℝ) s => if e.1 = b then s else 0) off (offk.map (·.2) ++ tail)).sum
      = colSum (offk.take off.length) b := by
  induction off generalizing offk with
  | nil => simp [colSum]
  | cons e off ih =>
    cases offk with
    | nil => simp at hlen
    | cons ek offk =>
      simp only [List.length_cons, List.take_succ_cons, List.map_cons, List.cons.injEq] at hc
      simp only [List.length_cons, Nat.add_le_add_iff_right] at hlen
      simp only [List.map_cons, List.cons_append, List.zipWith_cons_cons, List.sum_cons, List.length_cons,
        List.take_succ_cons, colSum_cons]
      rw [ih offk hc.2 hlen, hc.1]

/-- effect of the inner loop of `factorRow` on the rows: every row whose index is a column of the list gets `f`
applied once (indices are distinct) -/
theorem foldr_set_rows (f : Fin n × ℝ → Row ℝ n → Row ℝ n) :
    ∀ (es : List (Fin n × ℝ)) (M : SymCsr ℝ n), (es.map (·.1)).Nodup → ∀ i : Fin n,
      (es.foldr (fun e M => M.set e.1 (f e M[e.1])) M)[i] =
        match es.find? (fun e => e.1 = i) with
        | some e => f e M[i]
        | none => M[i] := by
  intro es
  induction es with
  | nil => intro M _ i; simp
  | cons e es ih =>
    intro M hnd i
    simp only [List.map_cons, List.nodup_cons] at hnd
    simp only [List.foldr_cons]
    rw [get_set]
    by_cases h : e.1 = i
    · subst h
      simp only [if_true, List.find?_cons_of_pos, decide_true]
      rw [ih M hnd.2 e.1]
      have : es.find? (fun e' => e'.1 = e.1) = none := by
        rw [List.find?_eq_none]
        intro x hx hx'
        simp only [decide_eq_true_eq] at hx'
        exact hnd.1 (by rw [← hx']; exact List.mem_map_of_mem hx)
      rw [this]
    · simp only [if_neg h]
      rw [ih M hnd.2 i]
      have : (e :: es).find? (fun e' => e'.1 = i) = es.find? (fun e' => e'.1 = i) := by
        rw [List.find?_cons_of_neg]; simpa using h
      rw [this]

/-- decoded tree-pattern hypothesis -/
def TreeOk (M : SymCsr ℝ n) : Prop :=
  ∀ (k : Fin n) (t : Nat) (c : Fin n), M[k].cols[t]? = some c → M[c].cols = M[k].cols.take t

theorem treeOk_iff (M : SymCsr ℝ n) : treeOk M = true ↔ TreeOk M := by
  simp only [treeOk, List.all_eq_true, List.mem_finRange, forall_const, List.mem_range, TreeOk]
  constructor
  · intro h k t c hc
    have ht : t < M[k].cols.length := by
      by_contra hlt
      rw [List.getElem?_eq_none (by omega)] at hc
      exact absurd hc (by simp)
    have := h k t ht
    rw [hc] at this
    simpa using this
  · intro h k t ht
    have hsome : M[k].cols[t]? = some (M[k].cols[t]) := List.getElem?_eq_getElem ht
    rw [hsome]
    simpa using h k t _ hsome

/-- in a strictly increasing slot list the first `t` slots are exactly the columns below the `t`-th one -/
theorem colSum_take_sorted : ∀ (off : List (Fin n × ℝ)) (t : Nat) (c : Fin n) (b : Fin n),
    (off.map (·.1)).Pairwise (· < ·) → (off.map (·.1))[t]? = some c →
    colSum (off.take t) b = if b < c then colSum off b else 0 := by
  intro off
  induction off with
  | nil => intro t c b _ h; simp at h
  | cons e off ih =>
    intro t c b hs hc
    rw [List.map_cons, List.pairwise_cons] at hs
    cases t with
    | zero =>
      simp only [List.map_cons, List.getElem?_cons_zero, Option.some.injEq] at hc
      subst hc
      simp only [List.take_zero, colSum, List.map_nil, List.sum_nil]
      split
      · rename_i hb
        -- b < e.1 : b is not a column at all
        have hnot : b ∉ (e :: off).map (·.1) := by
          intro hm
          rcases List.mem_cons.1 hm with h | h
          · exact absurd (h ▸ hb) (lt_irrefl _)
          · exact absurd (lt_trans (hs.1 b h) hb) (lt_irrefl _)
        exact (colSum_eq_zero_of_not_mem _ _ hnot).symm
      · rfl
    | succ t =>
      simp only [List.map_cons, List.getElem?_cons_succ] at hc
      simp only [List.take_succ_cons, colSum_cons]
      rw [ih t c b hs.2 hc]
      have hec : e.1 < c := hs.1 c (List.mem_of_getElem? hc)
      by_cases hb : b < c
      · simp [hb]
      · simp only [hb, if_false, add_zero]
        have : e.1 ≠ b := fun h => hb (h ▸ hec)
        simp [this]

theorem colSum_of_getElem (off : List (Fin n × ℝ)) (t : Nat) (e : Fin n × ℝ)
    (hnd : (off.map (·.1)).Nodup) (he : off[t]? = some e) : colSum off e.1 = e.2 := by
  induction off generalizing t with
  | nil => simp at he
  | cons a off ih =>
    simp only [List.map_cons, List.nodup_cons] at hnd
    cases t with
    | zero =>
      simp only [List.getElem?_cons_zero, Option.some.injEq] at he
      subst he
      rw [colSum_cons, colSum_eq_zero_of_not_mem _ _ hnd.1]; simp
    | succ t =>
      simp only [List.getElem?_cons_succ] at he
      rw [colSum_cons, ih t hnd.2 he]
      have : a.1 ≠ e.1 := fun h => hnd.1 (h ▸ List.mem_map_of_mem (List.mem_of_getElem? he))
      simp [this]

/-- what `mju_addToScl(row c, row k, scl, rownnz[c])` does to row `c = colind[t]` of row `k` on a tree pattern -/
theorem addPrefix_spec (rc rk : Row ℝ n) (t : Nat) (e : Fin n × ℝ) (scl : ℝ)
    (hsort : rk.cols.Pairwise (· < ·)) (he : rk.off[t]? = some e) (hpre : rc.cols = rk.cols.take t) :
    (rc.addPrefix rk.vals scl).cols = rc.cols ∧ (rc.addPrefix rk.vals scl).dcol = rc.dcol ∧
    (∀ b, colSum (rc.addPrefix rk.vals scl).off b = colSum rc.off b + scl * (if b < e.1 then colSum rk.off b else 0)) ∧
    (rc.addPrefix rk.vals scl).d = rc.d + e.2 * scl := by
  have htlen : t < rk.off.length := by
    by_contra h
    rw [List.getElem?_eq_none (by omega)] at he
    exact absurd he (by simp)
  have hlen : rc.off.length = t := by
    have := congrArg List.length hpre
    simp only [Row.cols, List.length_map, List.length_take] at this
    omega
  have hdrop : rk.vals.drop rc.off.length = e.2 :: (rk.vals.drop (t + 1)) := by
    rw [hlen]
    have h1 : rk.vals[t]? = some e.2 := by
      simp only [Row.vals]
      rw [List.getElem?_append_left (by simpa using htlen), List.getElem?_map, he]; rfl
    have ht' : t < rk.vals.length := by simp [Row.vals]; omega
    rw [List.drop_eq_getElem_cons ht']
    congr 1
    have := List.getElem?_eq_getElem ht'
    rw [this] at h1
    exact Option.some.inj h1
  have hoff : (rc.addPrefix rk.vals scl).off = addToScl rc.off rk.vals scl := by
    unfold Row.addPrefix; rw [hdrop]
  have hd : (rc.addPrefix rk.vals scl).d = rc.d + e.2 * scl := by
    unfold Row.addPrefix; rw [hdrop]
  have hdc : (rc.addPrefix rk.vals scl).dcol = rc.dcol := by
    unfold Row.addPrefix; rw [hdrop]
  refine ⟨?_, hdc, ?_, hd⟩
  · simp only [Row.cols, hoff, addToScl_cols]
  · intro b
    rw [hoff, addToScl_colSum]
    congr 1; congr 1
    have hc' : rc.off.map (·.1) = (rk.off.take rc.off.length).map (·.1) := by
      have := hpre
      simp only [Row.cols] at this
      rw [this, hlen, List.map_take]
    rw [show rk.vals = rk.off.map (·.2) ++ [rk.d] from rfl, zip_prefix_sum rc.off rk.off [rk.d] b hc' (by omega), hlen]
    have hct : (rk.off.map (·.1))[t]? = some e.1 := by rw [List.getElem?_map, he]; rfl
    exact colSum_take_sorted rk.off t e.1 b hsort hct


/-- same sparsity pattern -/
def SamePat (A B : SymCsr ℝ n) : Prop := ∀ i : Fin n, A[i].cols = B[i].cols ∧ A[i].dcol = B[i].dcol

theorem SamePat.lowerOk {A B : SymCsr ℝ n} (h : SamePat A B) (hB : LowerOk B) : LowerOk A := by
  intro i; rw [(h i).1, (h i).2]; exact hB i

theorem SamePat.treeOk {A B : SymCsr ℝ n} (h : SamePat A B) (hB : TreeOk B) : TreeOk A := by
  intro k t c hc
  rw [(h k).1] at hc ⊢
  rw [(h c).1]; exact hB k t c hc

theorem colSum_map_scale (off : List (Fin n × ℝ)) (s : ℝ) (b : Fin n) :
    colSum (off.map (fun e => (e.1, e.2 * s))) b = colSum off b * s := by
  induction off with
  | nil => simp [colSum]
  | cons e off ih =>
    simp only [List.map_cons, colSum_cons, ih]
    by_cases h : e.1 = b
    · simp [h]; ring
    · simp [h]

/-- the effect of one iteration of `mj_factorI` (row `k`) on a tree pattern, in terms of `x = row k` and `d = M[k,k]` -/
theorem factorRow_spec (k : Fin n) (M : SymCsr ℝ n) (dinv : Vector ℝ n) (hL : LowerOk M) (hT : TreeOk M) :
    let S2 := factorRow k (M, dinv)
    let d := M[k].d
    let x := fun i => colSum M[k].off i
    SamePat S2.1 M ∧
    (S2.1[k].d = d ∧ ∀ b, colSum S2.1[k].off b = x b * (1 / d)) ∧
    (∀ i, i ≠ k → S2.1[i].d = M[i].d - x i * (1 / d) * x i ∧
       ∀ b, colSum S2.1[i].off b = colSum M[i].off b - x i * (1 / d) * (if b < i then x b else 0)) ∧
    S2.2[k] = 1 / d ∧ ∀ i, i ≠ k → S2.2[i] = dinv[i] := by
  intro S2 d x
  obtain ⟨hk1, hk2, hk3⟩ := hL k
  have hnd : (M[k].off.map (·.1)).Nodup := (hk2.imp (fun h => ne_of_lt h))
  -- rows after the inner loop
  set f : Fin n × ℝ → Row ℝ n → Row ℝ n := fun e r => r.addPrefix M[k].vals ((-e.2) * (one / M[k].d)) with hf
  set M1 := M[k].off.foldr (fun e M' => M'.set e.1 (f e M'[e.1])) M with hM1
  have hrows := foldr_set_rows f M[k].off M hnd
  have hS2 : S2 = (M1.set k { M[k] with off := M[k].off.map (fun e => (e.1, e.2 * (one / M[k].d))) },
      dinv.set k (one / M[k].d)) := rfl
  have hone : (one : ℝ) / M[k].d = 1 / d := by
    show (one : ℝ) / M[k].d = 1 / M[k].d
    rw [one_real]
  -- row i ≠ k of the result
  have hrow : ∀ i, i ≠ k → S2.1[i] = M1[i] := by
    intro i hi
    rw [hS2]; simp only []
    rw [get_set, if_neg (Ne.symm hi)]
  -- description of M1[i]
  have hM1row : ∀ i, (M1[i].cols = M[i].cols ∧ M1[i].dcol = M[i].dcol) ∧
      M1[i].d = M[i].d - x i * (1 / d) * x i ∧
      ∀ b, colSum M1[i].off b = colSum M[i].off b - x i * (1 / d) * (if b < i then x b else 0) := by
    intro i
    rw [hM1, hrows i]
    cases hfind : M[k].off.find? (fun e => e.1 = i) with
    | none =>
      have hni : i ∉ M[k].off.map (·.1) := by
        intro hm
        obtain ⟨e, he, hei⟩ := List.mem_map.1 hm
        have := List.find?_eq_none.1 hfind e he
        simp [hei] at this
      have hx : x i = 0 := colSum_eq_zero_of_not_mem _ _ hni
      simp [hx]
    | some e =>
      have hem : e ∈ M[k].off := List.mem_of_find?_eq_some hfind
      have hei : e.1 = i := by simpa using List.find?_some hfind
      obtain ⟨t, ht⟩ := List.getElem?_of_mem hem
      have hct : M[k].cols[t]? = some i := by
        simp only [Row.cols, List.getElem?_map, ht, Option.map_some, hei]
      have hpre := hT k t i hct
      have hxi : x i = e.2 := by rw [← hei]; exact colSum_of_getElem M[k].off t e hnd ht
      obtain ⟨c1, c2, c3, c4⟩ := addPrefix_spec M[i] M[k] t e ((-e.2) * (one / M[k].d)) hk2 ht hpre
      simp only [hf]
      refine ⟨⟨c1, c2⟩, ?_, ?_⟩
      · rw [c4, hxi, hone]; ring
      · intro b
        rw [c3 b, hxi, hone, hei]; ring
  refine ⟨?_, ⟨?_, ?_⟩, ?_, ?_, ?_⟩
  · intro i
    by_cases hi : i = k
    · subst hi
      rw [hS2]; simp only []
      rw [get_set, if_pos rfl]
      simp [Row.cols, List.map_map, Function.comp_def]
    · rw [hrow i hi]; exact (hM1row i).1
  · rw [hS2]; simp only []; rw [get_set, if_pos rfl]
  · intro b
    rw [hS2]; simp only []; rw [get_set, if_pos rfl]
    simp only []
    rw [colSum_map_scale, hone]
  · intro i hi
    rw [hrow i hi]; exact (hM1row i).2
  · rw [hS2]; simp only []; rw [get_set, if_pos rfl, hone]
  · intro i hi
    rw [hS2]; simp only []; rw [get_set, if_neg (Ne.symm hi)]


/-- the not-yet-factorised part: entries outside the processed rows / columns -/
def act (M : SymCsr ℝ n) (done : List (Fin n)) (a b : Fin n) : ℝ :=
  if a ∈ done ∨ b ∈ done then 0 else entry M a b

/-- entries of the matrix after one step, away from row / column `k` (Schur complement update) -/
theorem factorRow_entry (k : Fin n) (M : SymCsr ℝ n) (dinv : Vector ℝ n) (hL : LowerOk M) (hT : TreeOk M)
    (a b : Fin n) (ha : a ≠ k) (hb : b ≠ k) :
    entry (factorRow k (M, dinv)).1 a b =
      entry M a b - colSum M[k].off a * (1 / M[k].d) * colSum M[k].off b := by
  obtain ⟨_, _, h3, _, _⟩ := factorRow_spec k M dinv hL hT
  obtain ⟨hda, hca⟩ := h3 a ha
  obtain ⟨hdb, hcb⟩ := h3 b hb
  unfold entry
  rw [hca b, hcb a]
  by_cases hab : a = b
  · subst hab
    simp only [if_true, lt_irrefl, if_false, hda]; ring
  · simp only [if_neg hab]
    rcases lt_or_gt_of_ne hab with h | h
    · simp only [h, if_true, not_lt.mpr (le_of_lt h), if_false]; ring
    · simp only [h, if_true, not_lt.mpr (le_of_lt h), if_false]; ring

/-- upward closed list of row indices -/
def UpClosed (l : List (Fin n)) : Prop := ∀ r ∈ l, ∀ i : Fin n, r < i → i ∈ l

theorem factor_aux (M0 : SymCsr ℝ n) (z : Vector ℝ n) (hL : LowerOk M0) (hT : TreeOk M0) :
    ∀ (l : List (Fin n)), l.Pairwise (· < ·) → UpClosed l →
      (∀ r ∈ l, (l.foldr factorRow (M0, z)).2[r] ≠ 0) →
      SamePat (l.foldr factorRow (M0, z)).1 M0 ∧
      (∀ r ∈ l, (l.foldr factorRow (M0, z)).2[r] = 1 / (l.foldr factorRow (M0, z)).1[r].d ∧
                (l.foldr factorRow (M0, z)).1[r].d ≠ 0) ∧
      (∀ a b, entry M0 a b =
        (l.map (fun r => (l.foldr factorRow (M0, z)).1[r].d * Lmat (l.foldr factorRow (M0, z)).1 r a *
                          Lmat (l.foldr factorRow (M0, z)).1 r b)).sum
          + act (l.foldr factorRow (M0, z)).1 l a b) := by
  intro l
  induction l with
  | nil =>
    intro _ _ _
    refine ⟨fun i => ⟨rfl, rfl⟩, by simp, ?_⟩
    intro a b; simp [act]
  | cons k l ih =>
    intro hs hup hnz
    rw [List.pairwise_cons] at hs
    have hup' : UpClosed l := by
      intro r hr i hri
      have := hup r (List.mem_cons_of_mem _ hr) i hri
      rcases List.mem_cons.1 this with h | h
      · exact absurd (lt_trans (hs.1 r hr) hri) (h ▸ lt_irrefl _)
      · exact h
    set S' := l.foldr factorRow (M0, z) with hS'
    have hfold : (k :: l).foldr factorRow (M0, z) = factorRow k S' := rfl
    rw [hfold] at hnz ⊢
    have hS'eq : S' = (S'.1, S'.2) := rfl
    -- previous state
    have hkl : k ∉ l := fun h => absurd (hs.1 k h) (lt_irrefl _)
    have spec0 := factorRow_spec k S'.1 S'.2
    have hnz' : ∀ r ∈ l, S'.2[r] ≠ 0 := by
      intro r hr
      have hrk : r ≠ k := fun h => hkl (h ▸ hr)
      -- dinv[r] is not touched by step k (the pattern hypotheses are only needed for the other clauses)
      have : (factorRow k S').2[r] = S'.2[r] := by
        show (S'.2.set k _)[r] = _
        rw [get_set, if_neg (Ne.symm hrk)]
      rw [← this]; exact hnz r (List.mem_cons_of_mem _ hr)
    obtain ⟨ihP, ihD, ihE⟩ := ih hs.2 hup' hnz'
    have hL' : LowerOk S'.1 := ihP.lowerOk hL
    have hT' : TreeOk S'.1 := ihP.treeOk hT
    obtain ⟨sP, ⟨sk1, sk2⟩, s3, s4, s5⟩ := spec0 hL' hT'
    have hfr : factorRow k S' = factorRow k (S'.1, S'.2) := rfl
    rw [hfr] at hnz ⊢
    set S2 := factorRow k (S'.1, S'.2) with hS2
    set d := S'.1[k].d with hd
    set x := fun i => colSum S'.1[k].off i with hx
    have hdne : d ≠ 0 := by
      have := hnz k (List.mem_cons_self ..)
      rw [s4] at this
      intro h0; rw [h0] at this; simp at this
    -- x vanishes at and above k
    have hx0 : ∀ i, k ≤ i → x i = 0 := fun i hi =>
      colSum_eq_zero_of_not_mem _ _ (fun hm => absurd (lt_of_le_of_lt hi ((hL' k).2.2 i hm)) (lt_irrefl _))
    -- rows above k are untouched
    have hrow_above : ∀ r, k < r → S2.1[r].d = S'.1[r].d ∧ ∀ b, colSum S2.1[r].off b = colSum S'.1[r].off b := by
      intro r hr
      obtain ⟨h1, h2⟩ := s3 r (ne_of_gt hr)
      have : x r = 0 := hx0 r (le_of_lt hr)
      refine ⟨by rw [h1, this]; ring, fun b => by rw [h2 b, this]; ring⟩
    have hLmat_above : ∀ r, k < r → ∀ a, Lmat S2.1 r a = Lmat S'.1 r a := by
      intro r hr a; unfold Lmat; rw [(hrow_above r hr).2 a]
    have hLk : ∀ a, Lmat S2.1 k a = (if k = a then 1 else 0) + x a * (1 / d) := by
      intro a; unfold Lmat; rw [sk2 a]
    refine ⟨?_, ?_, ?_⟩
    · intro i; exact ⟨((sP i).1).trans (ihP i).1, ((sP i).2).trans (ihP i).2⟩
    · intro r hr
      rcases List.mem_cons.1 hr with rfl | hr
      · rw [s4, sk1]; exact ⟨rfl, hdne⟩
      · have hrk : k < r := hs.1 r hr
        rw [s5 r (ne_of_gt hrk), (hrow_above r hrk).1]
        exact ihD r hr
    · intro a b
      rw [ihE a b]
      simp only [List.map_cons, List.sum_cons]
      have hsum : (l.map (fun r => S2.1[r].d * Lmat S2.1 r a * Lmat S2.1 r b)).sum
          = (l.map (fun r => S'.1[r].d * Lmat S'.1 r a * Lmat S'.1 r b)).sum := by
        congr 1
        apply List.map_congr_left
        intro r hr
        have hrk : k < r := hs.1 r hr
        rw [(hrow_above r hrk).1, hLmat_above r hrk, hLmat_above r hrk]
      rw [hsum, sk1, hLk a, hLk b]
      -- the remaining identity:  d L_ka L_kb + act₂ = act'
      have key : d * ((if k = a then 1 else 0) + x a * (1 / d)) * ((if k = b then 1 else 0) + x b * (1 / d))
          + act S2.1 (k :: l) a b = act S'.1 l a b := by
        unfold act
        by_cases hal : a ∈ l
        · have : x a = 0 := hx0 a (le_of_lt (hs.1 a hal))
          have hka : k ≠ a := fun h => hkl (h ▸ hal)
          simp [hal, this, hka]
        by_cases hbl : b ∈ l
        · have : x b = 0 := hx0 b (le_of_lt (hs.1 b hbl))
          have hkb : k ≠ b := fun h => hkl (h ▸ hbl)
          simp [hbl, this, hkb]
        -- a, b ∉ l : each is k or below k
        have hbelow : ∀ c, c ∉ l → c ≠ k → c < k := by
          intro c hc hck
          rcases lt_or_gt_of_ne hck with h | h
          · exact h
          · exact absurd (hup k (List.mem_cons_self ..) c h |> fun hm => (List.mem_cons.1 hm).resolve_left hck) hc
        by_cases hak : a = k
        · subst hak
          by_cases hbk : b = a
          · subst hbk
            have hxk : x b = 0 := hx0 b (le_refl _)
            simp only [List.mem_cons, true_or, if_true, hal, or_self, if_false, hxk]
            rw [entry_self S'.1 hL']; ring
          · have hblt := hbelow b hbl hbk
            have hne : a ≠ b := fun h => hbk h.symm
            have hxa : x a = 0 := hx0 a (le_refl _)
            simp only [List.mem_cons, true_or, if_true, hal, hbl, or_self, if_false, hxa, hne]
            rw [entry_of_lt S'.1 hL' a b hblt]
            field_simp
            ring
        by_cases hbk : b = k
        · subst hbk
          have halt := hbelow a hal hak
          have hne : b ≠ a := fun h => hak h.symm
          have hxb : x b = 0 := hx0 b (le_refl _)
          simp only [List.mem_cons, true_or, or_true, if_true, hal, hbl, or_self, if_false, hxb, hne]
          rw [entry_symm S'.1 a b, entry_of_lt S'.1 hL' b a halt]
          field_simp
          ring
        · have hka : k ≠ a := fun h => hak h.symm
          have hkb : k ≠ b := fun h => hbk h.symm
          simp only [List.mem_cons, hak, hbk, hal, hbl, or_self, if_false, hka, hkb]
          have fe : entry S2.1 a b = entry S'.1 a b - x a * (1 / d) * x b :=
            factorRow_entry k S'.1 S'.2 hL' hT' a b hak hbk
          rw [fe]
          field_simp
          ring
      linarith [key]


theorem factorI_spec (M : SymCsr ℝ n) (hL : LowerOk M) (hT : TreeOk M) (hnz : ∀ r : Fin n, (factorI M).2[r] ≠ 0) :
    SamePat (factorI M).1 M ∧ (∀ r : Fin n, (factorI M).2[r] = 1 / (factorI M).1[r].d ∧ (factorI M).1[r].d ≠ 0) ∧
    ∀ a b : Fin n, ldlEntry (factorI M).1 (factorI M).2 a b = entry M a b := by
  have hup : UpClosed (List.finRange n) := fun _ _ i _ => List.mem_finRange i
  obtain ⟨hP, hD, hE⟩ := factor_aux M (Vector.replicate n zero) hL hT (List.finRange n) (List.pairwise_lt_finRange n) hup
    (fun r _ => hnz r)
  refine ⟨hP, fun r => hD r (List.mem_finRange r), ?_⟩
  intro a b
  have := hE a b
  have hact : act (factorI M).1 (List.finRange n) a b = 0 := by simp [act]
  unfold factorI at hact ⊢
  rw [this, hact, add_zero, ← Fin.sum_univ_def]
  unfold ldlEntry
  apply Finset.sum_congr rfl
  intro r _
  obtain ⟨h1, h2⟩ := hD r (List.mem_finRange r)
  rw [h1]
  field_simp

end MjProof.InertiaSparse
