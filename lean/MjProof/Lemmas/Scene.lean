import MjProof.Model.Scene
/-
Helper lemmas for C50 (capacity invariants of `run`, the geom pass as an attempt sequence, the
filter/truncation characterisation).
-/
namespace MjProof.Scene

/-! ### single attempt -/

theorem overflow_fields {G : Type} (s : Scn G) :
    (overflow s).maxgeom = s.maxgeom ∧ (overflow s).ngeom = s.ngeom ∧ (overflow s).mem = s.mem ∧
    (overflow s).status = true ∧ (overflow s).nwarn = s.nwarn + (if s.status then 0 else 1) := by
  unfold overflow
  cases h : s.status <;> simp [h]

/-- everything one attempt can do -/
theorem attempt_spec {G : Type} (s : Scn G) (mk : Nat → G) (keep : Bool) :
    let r := attempt s mk keep
    r.1.maxgeom = s.maxgeom ∧
    (r.2 = false → s.maxgeom ≤ s.ngeom ∧ r.1.ngeom = s.ngeom ∧ r.1.mem = s.mem ∧ r.1.status = true ∧
        r.1.nwarn = s.nwarn + (if s.status then 0 else 1)) ∧
    (r.2 = true → s.ngeom < s.maxgeom ∧ r.1.ngeom = s.ngeom + (if keep then 1 else 0) ∧
        r.1.mem = write s.mem s.ngeom (mk s.ngeom) ∧ r.1.status = s.status ∧ r.1.nwarn = s.nwarn) := by
  unfold attempt
  by_cases h : s.maxgeom ≤ s.ngeom
  · have := overflow_fields s
    simp [h, this]
  · cases keep <;> simp [h] <;> omega

/-- the invariant carried along any attempt sequence -/
structure Step {G : Type} (s s' : Scn G) (failed : Bool) : Prop where
  maxgeom : s'.maxgeom = s.maxgeom
  mono : s.ngeom ≤ s'.ngeom
  bounded : s.ngeom ≤ s.maxgeom → s'.ngeom ≤ s.maxgeom
  frame : ∀ i, i < s.ngeom ∨ s.maxgeom ≤ i → s'.mem i = s.mem i
  status : s'.status = (s.status || failed)
  nwarn : s'.nwarn = s.nwarn + (if !s.status && failed then 1 else 0)

theorem Step.refl {G : Type} (s : Scn G) : Step s s false :=
  ⟨rfl, Nat.le_refl _, id, fun _ _ => rfl, by simp, by simp⟩

theorem Step.trans {G : Type} {a b c : Scn G} {f g : Bool} (h1 : Step a b f) (h2 : Step b c g) :
    Step a c (f || g) := by
  refine ⟨by rw [h2.maxgeom, h1.maxgeom], Nat.le_trans h1.mono h2.mono, ?_, ?_, ?_, ?_⟩
  · intro h
    have := h1.bounded h
    have := h2.bounded (by rw [h1.maxgeom]; exact this)
    rw [h1.maxgeom] at this; exact this
  · intro i hi
    rw [h2.frame i (by rw [h1.maxgeom]; have := h1.mono; omega), h1.frame i hi]
  · rw [h2.status, h1.status]; cases a.status <;> cases f <;> cases g <;> rfl
  · rw [h2.nwarn, h1.nwarn, h1.status]; cases a.status <;> cases f <;> cases g <;> simp

theorem attempt_step {G : Type} (s : Scn G) (mk : Nat → G) (keep : Bool) :
    Step s (attempt s mk keep).1 (!(attempt s mk keep).2) := by
  have h := attempt_spec s mk keep
  simp only at h
  obtain ⟨hm, hf, ht⟩ := h
  cases hr : (attempt s mk keep).2
  · obtain ⟨h1, h2, h3, h4, h5⟩ := hf hr
    refine ⟨hm, by omega, fun _ => by omega, fun i _ => by rw [h3], by simp [h4], ?_⟩
    rw [h5]; cases s.status <;> simp
  · obtain ⟨h1, h2, h3, h4, h5⟩ := ht hr
    refine ⟨hm, by rw [h2]; omega, fun _ => by rw [h2]; split <;> omega, ?_, by simp [h4], by simp [h5]⟩
    intro i hi
    rw [h3]; unfold write
    have : i ≠ s.ngeom := by omega
    simp [this]

theorem run_step {G : Type} (as : List (Attempt G)) (s : Scn G) : Step s (run as s).1 (run as s).2 := by
  fun_induction run as s with
  | case1 s => exact Step.refl s
  | case2 a as s s' hat ih =>
    have h1 := attempt_step s a.build a.keep
    rw [hat] at h1
    simpa using h1.trans ih
  | case3 a as s s' hat ih =>
    have h1 := attempt_step s a.build a.keep
    rw [hat] at h1
    have := h1.trans ih
    simpa using this

/-! ### scene contents -/

theorem sceneGeoms_length {G : Type} (s : Scn G) : (sceneGeoms s).length = s.ngeom := by
  simp [sceneGeoms]

theorem sceneGeoms_congr {G : Type} (s s' : Scn G) (hn : s'.ngeom = s.ngeom)
    (hm : ∀ i, i < s.ngeom → s'.mem i = s.mem i) : sceneGeoms s' = sceneGeoms s := by
  unfold sceneGeoms
  rw [hn]
  apply List.map_congr_left
  intro i hi
  exact hm i (by simpa using hi)

theorem sceneGeoms_push {G : Type} (s s' : Scn G) (g : G) (hn : s'.ngeom = s.ngeom + 1)
    (hm : s'.mem = write s.mem s.ngeom g) : sceneGeoms s' = sceneGeoms s ++ [some g] := by
  unfold sceneGeoms
  rw [hn, List.range_succ, List.map_append]
  congr 1
  · apply List.map_congr_left
    intro i hi
    have : i ≠ s.ngeom := by have := List.mem_range.mp hi; omega
    simp [hm, write, this]
  · simp [hm, write]

/-! ### the geom pass -/

section pass
variable {α β : Type} [MjNum α]

/-- the attempt sequence issued by the geom pass (each failure returns from the pass) -/
def attemptsOf (cv : Conv α β) (o : Opt) (env : Env α β) : Nat → Int → List (GeomIn α β) → List (Attempt (VGeom β))
  | _, _, [] => []
  | i, pid, g :: gs =>
    if acquires o g then
      { build := mkGeom cv o env i (nextPid pid g) g, keep := visibleAlpha cv o env g, skipOnFull := gs.length }
        :: attemptsOf cv o env (i + 1) (nextPid pid g) gs
    else attemptsOf cv o env (i + 1) (nextPid pid g) gs

theorem attemptsOf_length_le (cv : Conv α β) (o : Opt) (env : Env α β) (i : Nat) (pid : Int) (gs : List (GeomIn α β)) :
    (attemptsOf cv o env i pid gs).length ≤ gs.length := by
  induction gs generalizing i pid with
  | nil => simp [attemptsOf]
  | cons g gs ih =>
    unfold attemptsOf
    split
    · have := ih (i + 1) (nextPid pid g); simp; omega
    · have := ih (i + 1) (nextPid pid g); simp; omega

theorem geomPass_eq_run (cv : Conv α β) (o : Opt) (env : Env α β) (i : Nat) (pid : Int) (gs : List (GeomIn α β))
    (s : Scn (VGeom β)) : geomPass cv o env i pid gs s = (run (attemptsOf cv o env i pid gs) s).1 := by
  induction gs generalizing i pid s with
  | nil => simp [geomPass, attemptsOf, run]
  | cons g gs ih =>
    unfold geomPass attemptsOf
    by_cases ha : acquires o g = true
    · simp only [ha, if_true]
      rw [run]
      cases hat : attempt s (mkGeom cv o env i (nextPid pid g) g) (visibleAlpha cv o env g) with
      | mk s' ok =>
        cases ok
        · have hl := attemptsOf_length_le cv o env (i + 1) (nextPid pid g) gs
          simp only
          rw [List.drop_eq_nil_of_le hl, run]
        · simp only
          exact ih _ _ _
    · simp only [ha]
      exact ih _ _ _

/-- free capacity `c`, keep flags of the acquiring geoms: does the pass hit a full buffer? -/
def hitsFull : Nat → List Bool → Bool
  | _, [] => false
  | 0, _ :: _ => true
  | c + 1, k :: ks => hitsFull (if k then c else c + 1) ks

theorem hitsFull_iff (c : Nat) (ks : List Bool) :
    hitsFull c ks = true ↔ ∃ n, n < ks.length ∧ c ≤ (ks.take n).count true := by
  induction ks generalizing c with
  | nil => simp [hitsFull]
  | cons k ks ih =>
    cases c with
    | zero => simp only [hitsFull, true_iff]; exact ⟨0, by simp, by simp⟩
    | succ c =>
      rw [hitsFull, ih]
      constructor
      · rintro ⟨n, hn, hc⟩
        refine ⟨n + 1, by simp; omega, ?_⟩
        rw [List.take_succ_cons, List.count_cons]
        cases k <;> simp at hc ⊢ <;> omega
      · rintro ⟨n, hn, hc⟩
        cases n with
        | zero => simp at hc
        | succ n =>
          refine ⟨n, by simp at hn; omega, ?_⟩
          rw [List.take_succ_cons, List.count_cons] at hc
          cases k <;> simp at hc ⊢ <;> omega

theorem hitsFull_of_count (c : Nat) (ks : List Bool) (h : c < ks.count true) : hitsFull c ks = true := by
  rw [hitsFull_iff]
  induction ks generalizing c with
  | nil => simp at h
  | cons k ks ih =>
    cases c with
    | zero => exact ⟨0, by simp, by simp⟩
    | succ c =>
      rw [List.count_cons] at h
      cases k
      · simp at h
        obtain ⟨n, hn, hc⟩ := ih (c + 1) h
        exact ⟨n + 1, by simp; omega, by rw [List.take_succ_cons, List.count_cons]; simpa using hc⟩
      · simp at h
        obtain ⟨n, hn, hc⟩ := ih c (by omega)
        exact ⟨n + 1, by simp; omega, by rw [List.take_succ_cons, List.count_cons]; simp; omega⟩

theorem hitsFull_of_fits (c : Nat) (ks : List Bool) (h : ks.length ≤ c) : hitsFull c ks = false := by
  cases hh : hitsFull c ks
  · rfl
  · obtain ⟨n, hn, hc⟩ := (hitsFull_iff c ks).mp hh
    have h1 : (ks.take n).count true ≤ (ks.take n).length := List.count_le_length
    rw [List.length_take] at h1
    omega

theorem annotate_mem (i : Nat) (pid : Int) (gs : List (GeomIn α β)) (t : Nat × Int × GeomIn α β)
    (h : t ∈ annotate i pid gs) : i ≤ t.1 ∧ gs[t.1 - i]? = some t.2.2 := by
  induction gs generalizing i pid with
  | nil => simp [annotate] at h
  | cons g gs ih =>
    simp only [annotate, List.mem_cons] at h
    rcases h with h | h
    · subst h; simp
    · obtain ⟨h1, h2⟩ := ih (i + 1) _ h
      refine ⟨by omega, ?_⟩
      have : t.1 - i = (t.1 - (i + 1)) + 1 := by omega
      rw [this, List.getElem?_cons_succ]; exact h2

theorem shown_eq_filter_acquiring (cv : Conv α β) (o : Opt) (env : Env α β) (l : List (Nat × Int × GeomIn α β)) :
    shown cv o env l = (acquiring o l).filter (fun t => visibleAlpha cv o env t.2.2) := by
  unfold shown acquiring
  rw [List.filter_filter]
  congr 1
  funext t
  exact Bool.and_comm _ _

theorem built_length (cv : Conv α β) (o : Opt) (env : Env α β) (k : Nat) (l : List (Nat × Int × GeomIn α β)) :
    (built cv o env k l).length = l.length := by
  induction l generalizing k with
  | nil => rfl
  | cons t ts ih => simp [built, ih]

/-- contents and status of the scene after the geom pass from an arbitrary point of the loop -/
theorem geomPass_spec (cv : Conv α β) (o : Opt) (env : Env α β) (i : Nat) (pid : Int) (gs : List (GeomIn α β))
    (s : Scn (VGeom β)) (hs : s.ngeom ≤ s.maxgeom) :
    sceneGeoms (geomPass cv o env i pid gs s) =
      sceneGeoms s ++ built cv o env s.ngeom ((shown cv o env (annotate i pid gs)).take (s.maxgeom - s.ngeom)) ∧
    (geomPass cv o env i pid gs s).status =
      (s.status || hitsFull (s.maxgeom - s.ngeom)
        ((acquiring o (annotate i pid gs)).map (fun t => visibleAlpha cv o env t.2.2))) := by
  induction gs generalizing i pid s with
  | nil => simp [geomPass, annotate, shown, acquiring, built, hitsFull]
  | cons g gs ih =>
    unfold geomPass
    by_cases ha : acquires o g = true
    · simp only [ha, if_true]
      have hsp := attempt_spec s (mkGeom cv o env i (nextPid pid g) g) (visibleAlpha cv o env g)
      simp only at hsp
      obtain ⟨hm, hf, ht⟩ := hsp
      cases hat : attempt s (mkGeom cv o env i (nextPid pid g) g) (visibleAlpha cv o env g) with
      | mk s' ok =>
        rw [hat] at hm hf ht
        simp only at hm hf ht
        cases ok
        · obtain ⟨h1, h2, h3, h4, _⟩ := hf rfl
          have hz : s.maxgeom - s.ngeom = 0 := by omega
          simp only
          refine ⟨?_, ?_⟩
          · rw [hz, List.take_zero]
            simp only [built, List.append_nil]
            exact sceneGeoms_congr s s' h2 (fun i _ => by rw [h3])
          · rw [h4, hz]
            simp [annotate, acquiring, ha, hitsFull]
        · obtain ⟨h1, h2, h3, h4, _⟩ := ht rfl
          simp only
          cases hk : visibleAlpha cv o env g
          · -- probe: slot written, not released
            rw [hk] at h2
            simp only [Bool.false_eq_true, if_false, Nat.add_zero] at h2
            have hs' : s'.ngeom ≤ s'.maxgeom := by omega
            obtain ⟨ih1, ih2⟩ := ih (i + 1) (nextPid pid g) s' hs'
            refine ⟨?_, ?_⟩
            · rw [ih1, h2, hm]
              have e1 : sceneGeoms s' = sceneGeoms s :=
                sceneGeoms_congr s s' h2 (fun j hj => by
                  rw [h3]; unfold write
                  have : j ≠ s.ngeom := by omega
                  simp [this])
              rw [e1]
              simp [annotate, shown, ha, hk]
            · rw [ih2, h4, h2, hm]
              obtain ⟨c, hc⟩ : ∃ c, s.maxgeom - s.ngeom = c + 1 := ⟨s.maxgeom - s.ngeom - 1, by omega⟩
              simp [annotate, acquiring, ha, hk, hc, hitsFull]
          · rw [hk] at h2
            simp only [if_true] at h2
            have hs' : s'.ngeom ≤ s'.maxgeom := by omega
            obtain ⟨ih1, ih2⟩ := ih (i + 1) (nextPid pid g) s' hs'
            obtain ⟨c, hc⟩ : ∃ c, s.maxgeom - s.ngeom = c + 1 := ⟨s.maxgeom - s.ngeom - 1, by omega⟩
            have hc' : s.maxgeom - (s.ngeom + 1) = c := by omega
            refine ⟨?_, ?_⟩
            · rw [ih1, h2, hm, sceneGeoms_push s s' _ h2 h3, hc, hc']
              simp [annotate, shown, ha, hk, built]
            · rw [ih2, h4, h2, hm, hc, hc']
              simp [annotate, acquiring, ha, hk, hitsFull]
    · have ha' : acquires o g = false := by simpa using ha
      simp only [ha', Bool.false_eq_true, if_false]
      obtain ⟨ih1, ih2⟩ := ih (i + 1) (nextPid pid g) s hs
      refine ⟨?_, ?_⟩
      · rw [ih1]; simp [annotate, shown, ha']
      · rw [ih2]; simp [annotate, acquiring, ha']

end pass

end MjProof.Scene
